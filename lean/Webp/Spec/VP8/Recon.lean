import Webp.Spec.VP8.Macroblock
/-
  Spec model of the VP8 key-frame decoder — part 4: dequantisation factors (§9.6, §14.1), the
  inverse Walsh–Hadamard and DCT transforms (§14.3, §14.4), intra prediction (§12) and the
  reconstruction of one macroblock into the frame buffers (§14.5).

  The frame being reconstructed is kept as three planes of whole macroblocks (16·mbW × 16·mbH
  luma, 8·mbW × 8·mbH chroma).  Prediction reads the *unfiltered* reconstruction; the loop filter
  runs afterwards on the whole frame (part 5).
-/
namespace Webp.Spec.VP8

/-- Readings of the format that differ from the one this model specifies; used only to *classify*
    a disagreement with an implementation (driver op `vp8 <hex> <flags>`).  `{}` is the
    specification. -/
structure Conv where
  /-- false: the segment-adjusted loop-filter level is NOT clamped to 0..63 before the
      reference-frame / mode deltas are added (libwebp) -/
  lfClampSegLevel : Bool := true
  /-- true: a key frame that enables segmentation without sending segment data treats the
      (all-zero) segment values as absolute (libwebp) -/
  segDefaultAbsolute : Bool := false
  /-- true: sub-block edges of a non-B_PRED macroblock are left unfiltered according to libwebp's
      `non_zero_y | non_zero_uv` word rather than "no block has a token" -/
  innerSkipByValue : Bool := false
  /-- true: sub-block edges are left unfiltered only for macroblocks whose `mb_skip_coeff` flag is
      set — a macroblock that was parsed and turned out to have no coefficients is filtered (the Go
      port: `decodeMB` ignores what `parseResiduals` found) -/
  innerSkipByFlagOnly : Bool := false
  /-- true: inverse transforms that the Go port hands to its SSE2/AVX2 kernels (the DCT of a luma
      block with more than 3 token positions; of all four blocks of a chroma plane as soon as one of
      them has more than one; the WHT of a Y2 block with more than one) are computed in 16-bit
      lanes: every sum of both passes wraps modulo 2^16 -/
  idctSimd16 : Bool := false
  deriving Repr, Inhabited

@[inline] def clampInt (lo hi v : Int) : Int := if v < lo then lo else if v > hi then hi else v
@[inline] def clamp255 (v : Int) : UInt8 := (clampInt 0 255 v).toNat.toUInt8

/-! ### dequantisation factors -/

/-- the quantiser index of segment `s`: the frame's `y_ac_qi`, replaced by or increased by the
    segment's value when segmentation is enabled -/
def segmentQIndex (h : FrameHdr) (cv : Conv) (s : Nat) : Int :=
  let base : Int := h.quant.yacQi
  if h.seg.enabled then
    let v := h.seg.quant.getD s 0
    let absolute := h.seg.absolute || (cv.segDefaultAbsolute && !h.seg.updateData)
    if absolute then v else base + v
  else base

/-- §14.1: each of the six factors looks its table up at `clamp(q + delta, 0, 127)`; then
    `y2dc ×2`, `y2ac ×155/100` but at least 8, `uvdc` at most 132 -/
def dequantFactors (h : FrameHdr) (cv : Conv) (s : Nat) : DequantFactors :=
  let q := segmentQIndex h cv s
  let idx (delta : Int) : Nat := (clampInt 0 127 (q + delta)).toNat
  let dc (delta : Int) : Nat := Tables.dcQLookup.getD (idx delta) 0
  let ac (delta : Int) : Nat := Tables.acQLookup.getD (idx delta) 0
  let y2ac := ac h.quant.y2acDelta * 155 / 100
  { y1dc := dc h.quant.ydcDelta
    y1ac := ac 0
    y2dc := 2 * dc h.quant.y2dcDelta
    y2ac := if y2ac < 8 then 8 else y2ac
    uvdc := min 132 (dc h.quant.uvdcDelta)
    uvac := ac h.quant.uvacDelta }

/-! ### inverse transforms -/

/-- §14.3 inverse WHT of the Y2 block `c[base .. base+16)`; output `i` is the DC coefficient of luma
    block `i`.  Vertical pass, then horizontal pass with `(x + 3) >> 3`.  (`lanes16`: the reading
    `Conv.idctSimd16`, not the specification.) -/
def inverseWHT (c : Array Int) (base : Nat) (lanes16 : Bool := false) : Array Int := Id.run do
  let ip (i : Nat) : Int := c.getD (base + i) 0
  let st (x : Int) : Int := if lanes16 then wrap16 x else x
  let mut t : Array Int := Array.replicate 16 0
  for i in [0:4] do
    let a1 := ip i + ip (12 + i)
    let b1 := ip (4 + i) + ip (8 + i)
    let c1 := ip (4 + i) - ip (8 + i)
    let d1 := ip i - ip (12 + i)
    t := t.setIfInBounds i (st (a1 + b1))
    t := t.setIfInBounds (4 + i) (st (c1 + d1))
    t := t.setIfInBounds (8 + i) (st (a1 - b1))
    t := t.setIfInBounds (12 + i) (st (d1 - c1))
  let mut out : Array Int := Array.replicate 16 0
  for r in [0:4] do
    let x (k : Nat) : Int := t.getD (4 * r + k) 0
    let a1 := x 0 + x 3
    let b1 := x 1 + x 2
    let c1 := x 1 - x 2
    let d1 := x 0 - x 3
    out := out.setIfInBounds (4 * r) (st (a1 + b1 + 3) >>> 3)
    out := out.setIfInBounds (4 * r + 1) (st (c1 + d1 + 3) >>> 3)
    out := out.setIfInBounds (4 * r + 2) (st (a1 - b1 + 3) >>> 3)
    out := out.setIfInBounds (4 * r + 3) (st (d1 - c1 + 3) >>> 3)
  return out

/-- `x · √2·cos(π/8)` as `x + ((x · 20091) >> 16)` -/
@[inline] def mulCos (x : Int) : Int := x + ((x * 20091) >>> 16)
/-- `x · √2·sin(π/8)` as `(x · 35468) >> 16` -/
@[inline] def mulSin (x : Int) : Int := (x * 35468) >>> 16

/-- §14.4 inverse DCT of the block `c[base .. base+16)` (raster order): vertical pass, horizontal
    pass, `(x + 4) >> 3`.  Result: the 16 residue values in raster order.  The specification is
    `lanes16 = false` (exact integers); `true` is the reading `Conv.idctSimd16`. -/
def inverseDCT (lanes16 : Bool) (c : Array Int) (base : Nat) : Array Int := Id.run do
  let ip (i : Nat) : Int := c.getD (base + i) 0
  let st (x : Int) : Int := if lanes16 then wrap16 x else x
  let mut t : Array Int := Array.replicate 16 0
  for i in [0:4] do
    let a1 := ip i + ip (8 + i)
    let b1 := ip i - ip (8 + i)
    let c1 := mulSin (ip (4 + i)) - mulCos (ip (12 + i))
    let d1 := mulCos (ip (4 + i)) + mulSin (ip (12 + i))
    t := t.setIfInBounds i (st (a1 + d1))
    t := t.setIfInBounds (12 + i) (st (a1 - d1))
    t := t.setIfInBounds (4 + i) (st (b1 + c1))
    t := t.setIfInBounds (8 + i) (st (b1 - c1))
  let mut out : Array Int := Array.replicate 16 0
  for r in [0:4] do
    let x (k : Nat) : Int := t.getD (4 * r + k) 0
    let a1 := x 0 + x 2
    let b1 := x 0 - x 2
    let c1 := mulSin (x 1) - mulCos (x 3)
    let d1 := mulCos (x 1) + mulSin (x 3)
    out := out.setIfInBounds (4 * r) (st (a1 + d1 + 4) >>> 3)
    out := out.setIfInBounds (4 * r + 3) (st (a1 - d1 + 4) >>> 3)
    out := out.setIfInBounds (4 * r + 1) (st (b1 + c1 + 4) >>> 3)
    out := out.setIfInBounds (4 * r + 2) (st (b1 - c1 + 4) >>> 3)
  return out

/-! ### frame planes and their imaginary borders -/

structure Plane where
  data : ByteArray
  /-- samples per row (a whole number of macroblocks) -/
  stride : Nat
  rows : Nat
  deriving Inhabited

def Plane.new (stride rows : Nat) : Plane :=
  { data := ByteArray.mk (Array.replicate (stride * rows) 0), stride, rows }

/-- The sample at `(x, y) = (x1 - 1, y1 - 1)` as intra prediction sees it (§12.2, §12.3):

    * the row above the frame (`y = -1`), including its ends left of and right of the frame, is 127;
    * the column left of the frame (`x = -1`, `y ≥ 0`) is 129;
    * to the right of the frame's last macroblock column (only the above-right samples of
      sub-block prediction look there) the last sample of the row is repeated. -/
@[inline] def Plane.sample (p : Plane) (x1 y1 : Nat) : Nat :=
  if y1 = 0 then 127
  else if x1 = 0 then 129
  else
    let x := if x1 > p.stride then p.stride - 1 else x1 - 1
    (p.data.get! ((y1 - 1) * p.stride + x)).toNat

@[inline] def Plane.set (p : Plane) (x y : Nat) (v : UInt8) : Plane :=
  match p with
  | ⟨data, stride, rows⟩ => ⟨data.set! (y * stride + x) v, stride, rows⟩

/-! ### whole-block prediction: 16×16 luma and 8×8 chroma (§12.2) -/

/-- prediction of the `n×n` block at `(x0, y0)`; `mode` ∈ DC_PRED, V_PRED, H_PRED, TM_PRED.
    `DC_PRED` averages the edges that lie inside the frame (128 if neither does); the other modes use
    the 127/129 borders. -/
def predictBlock (p : Plane) (n x0 y0 mode : Nat) : Array Nat := Id.run do
  let above (i : Nat) : Nat := p.sample (x0 + 1 + i) y0
  let left (j : Nat) : Nat := p.sample x0 (y0 + 1 + j)
  let corner : Nat := p.sample x0 y0
  let mut out : Array Nat := Array.mkEmpty (n * n)
  if mode = DC_PRED then
    let mut sum := 0
    let mut cnt := 0
    if y0 > 0 then
      for i in [0:n] do sum := sum + above i
      cnt := cnt + n
    if x0 > 0 then
      for j in [0:n] do sum := sum + left j
      cnt := cnt + n
    -- cnt is 0, n or 2n: rounded average
    let v := if cnt = 0 then 128 else (sum + cnt / 2) / cnt
    for _ in [0:n * n] do out := out.push v
  else if mode = V_PRED then
    for _ in [0:n] do
      for i in [0:n] do out := out.push (above i)
  else if mode = H_PRED then
    for j in [0:n] do
      let l := left j
      for _ in [0:n] do out := out.push l
  else
    for j in [0:n] do
      let l : Int := left j
      for i in [0:n] do
        out := out.push (clampInt 0 255 (l + (above i : Int) - (corner : Int))).toNat
  return out

/-! ### sub-block prediction (§12.3) -/

@[inline] def avg2 (a b : Nat) : Nat := (a + b + 1) >>> 1
@[inline] def avg3 (a b c : Nat) : Nat := (a + 2 * b + c + 2) >>> 2

/-- B_VR_PRED / B_HD_PRED as (taps, first edge index) per pixel, raster order; edge array
    `E = L3 L2 L1 L0 P A0 … A7` -/
def vrTable : Array (Nat × Nat) :=
  #[(2,4), (2,5), (2,6), (2,7),
    (3,3), (3,4), (3,5), (3,6),
    (3,2), (2,4), (2,5), (2,6),
    (3,1), (3,3), (3,4), (3,5)]
def hdTable : Array (Nat × Nat) :=
  #[(2,3), (3,3), (3,4), (3,5),
    (2,2), (3,2), (2,3), (3,3),
    (2,1), (3,1), (2,2), (3,2),
    (2,0), (3,0), (2,1), (3,1)]
/-- B_VL_PRED over the above row `A0 … A7` (edge index = 5 + entry); the last two entries are the
    RFC's "do not strictly follow the pattern" values -/
def vlTable : Array (Nat × Nat) :=
  #[(2,0), (2,1), (2,2), (2,3),
    (3,0), (3,1), (3,2), (3,3),
    (2,1), (2,2), (2,3), (3,4),
    (3,1), (3,2), (3,3), (3,5)]

/-- The 16 predicted samples (raster order) of a sub-block from its edge
    `E[0..12] = L3 L2 L1 L0 P A0 A1 A2 A3 A4 A5 A6 A7`. -/
def predictSubblock (mode : Nat) (E : Array Nat) : Array Nat := Id.run do
  let e (i : Nat) : Nat := E.getD i 0
  let A (i : Nat) : Nat := e (5 + i)
  let L (j : Nat) : Nat := e (3 - j)
  let P : Nat := e 4
  let tap (k : Nat × Nat) (off : Nat) : Nat :=
    if k.1 = 2 then avg2 (e (off + k.2)) (e (off + k.2 + 1))
    else avg3 (e (off + k.2)) (e (off + k.2 + 1)) (e (off + k.2 + 2))
  let mut out : Array Nat := Array.mkEmpty 16
  for r in [0:4] do
    for c in [0:4] do
      let v :=
        if mode = B_DC_PRED then (A 0 + A 1 + A 2 + A 3 + L 0 + L 1 + L 2 + L 3 + 4) >>> 3
        else if mode = B_TM_PRED then (clampInt 0 255 ((L r : Int) + (A c : Int) - (P : Int))).toNat
        else if mode = B_VE_PRED then avg3 (e (4 + c)) (e (5 + c)) (e (6 + c))
        else if mode = B_HE_PRED then
          -- rows use (P,L0,L1), (L0,L1,L2), (L1,L2,L3), (L2,L3,L3)
          avg3 (if r = 0 then P else L (r - 1)) (L r) (L (min (r + 1) 3))
        else if mode = B_LD_PRED then
          avg3 (A (r + c)) (A (r + c + 1)) (A (min (r + c + 2) 7))
        else if mode = B_RD_PRED then
          avg3 (e (3 - r + c)) (e (4 - r + c)) (e (5 - r + c))
        else if mode = B_VR_PRED then tap (vrTable.getD (4 * r + c) (2, 0)) 0
        else if mode = B_VL_PRED then tap (vlTable.getD (4 * r + c) (2, 0)) 5
        else if mode = B_HD_PRED then tap (hdTable.getD (4 * r + c) (2, 0)) 0
        else
          -- B_HU_PRED: down the left edge, L3 repeated past its end
          let i := r + c / 2
          let l (j : Nat) : Nat := L (min j 3)
          if c % 2 = 0 then avg2 (l i) (l (i + 1)) else avg3 (l i) (l (i + 1)) (l (i + 2))
      out := out.push v
  return out

/-- Edge of the luma sub-block `(bx, by)` of the macroblock at `(x0, y0)`.  The four above-right
    samples `A4 … A7` of the sub-blocks in the macroblock's right column (`bx = 3`) are, for every
    row `by`, taken from the row above the *macroblock* (the bottom row of the macroblock above
    and to the right) — below the first sub-block row the samples really above-right are not yet
    decoded. -/
def subblockEdge (p : Plane) (x0 y0 bx by' : Nat) : Array Nat := Id.run do
  let xs := x0 + 4 * bx
  let ys := y0 + 4 * by'
  let mut E : Array Nat := Array.mkEmpty 13
  for j in [0:4] do E := E.push (p.sample xs (ys + 1 + (3 - j)))
  E := E.push (p.sample xs ys)
  for i in [0:4] do E := E.push (p.sample (xs + 1 + i) ys)
  let yr := if bx = 3 then y0 else ys
  for i in [4:8] do E := E.push (p.sample (xs + 1 + i) yr)
  return E

/-! ### reconstruction of one macroblock (§14.5: prediction + residue, clamped to 0..255) -/

/-- write `pred + residue` for the 4×4 block at `(xs, ys)`; `pred` is an `n`-wide block whose
    sample `(px + c, py + r)` predicts the block's `(c, r)` -/
def addResidue (p : Plane) (xs ys : Nat) (pred : Array Nat) (n px py : Nat) (res : Array Int) : Plane := Id.run do
  let mut p := p
  for r in [0:4] do
    for c in [0:4] do
      let v : Int := (pred.getD ((py + r) * n + px + c) 0 : Int) + res.getD (4 * r + c) 0
      p := p.set (xs + c) (ys + r) (clamp255 v)
  return p

/-- Reconstruct macroblock `(mbX, mbY)` from its modes and the 25·16 dequantised coefficients. -/
def reconMB (cv : Conv) (m : MBInfo) (coeffs : Array Int) (mbX mbY : Nat) (Y U V : Plane) :
    Plane × Plane × Plane := Id.run do
  let mut coeffs := coeffs
  if m.hasY2 then
    -- the inverse WHT supplies the DC coefficient of each luma block
    let dc := inverseWHT coeffs (24 * 16) (cv.idctSimd16 && m.eobs.getD 24 0 > 1)
    for i in [0:16] do
      coeffs := coeffs.setIfInBounds (16 * i) (wrap16 (dc.getD i 0))
  let x0 := 16 * mbX
  let y0 := 16 * mbY
  let lanesY (blk : Nat) : Bool := cv.idctSimd16 && m.eobs.getD blk 0 > 3
  let lanesC (plane : Nat) : Bool := cv.idctSimd16 &&
    (List.range 4).any fun k => m.eobs.getD (16 + 4 * plane + k) 0 > 1
  let mut Y := Y
  if m.ymode = B_PRED then
    for by' in [0:4] do
      for bx in [0:4] do
        let blk := 4 * by' + bx
        let pred := predictSubblock (m.bmodes.getD blk 0) (subblockEdge Y x0 y0 bx by')
        Y := addResidue Y (x0 + 4 * bx) (y0 + 4 * by') pred 4 0 0 (inverseDCT (lanesY blk) coeffs (16 * blk))
  else
    let pred := predictBlock Y 16 x0 y0 m.ymode
    for by' in [0:4] do
      for bx in [0:4] do
        let blk := 4 * by' + bx
        Y := addResidue Y (x0 + 4 * bx) (y0 + 4 * by') pred 16 (4 * bx) (4 * by') (inverseDCT (lanesY blk) coeffs (16 * blk))
  let cx := 8 * mbX
  let cy := 8 * mbY
  let mut U := U
  let mut V := V
  let predU := predictBlock U 8 cx cy m.uvmode
  let predV := predictBlock V 8 cx cy m.uvmode
  for by' in [0:2] do
    for bx in [0:2] do
      let k := 2 * by' + bx
      U := addResidue U (cx + 4 * bx) (cy + 4 * by') predU 8 (4 * bx) (4 * by') (inverseDCT (lanesC 0) coeffs (16 * (16 + k)))
      V := addResidue V (cx + 4 * bx) (cy + 4 * by') predV 8 (4 * bx) (4 * by') (inverseDCT (lanesC 1) coeffs (16 * (20 + k)))
  return (Y, U, V)

end Webp.Spec.VP8
