import Webp.Spec.VP8.Recon
/-
  Spec model of the VP8 key-frame decoder — part 5: the loop filter (RFC 6386 §15).

  The filter runs on the completely reconstructed frame.  Macroblocks are visited in raster
  order; for each one whose filter level is not 0, in this order (§15.2, §15.3):

    1. the left macroblock edge (unless the macroblock is in the first column),
    2. the three inner vertical sub-block edges (one for chroma) — unless skipped, see below,
    3. the top macroblock edge (unless the macroblock is in the first row),
    4. the three inner horizontal sub-block edges (one for chroma) — unless skipped.

  The sub-block edges are skipped when the macroblock has no coefficients (no block has a token
  before its end-of-block, or `mb_skip_coeff`) and its luma mode is not `B_PRED`.

  Sample arithmetic is the RFC's: `u2s(x) = x − 128`, `c(v) = clamp(v, −128, 127)`, `s2u(v) = c(v) + 128`.
-/
namespace Webp.Spec.VP8

@[inline] def c8 (v : Int) : Int := clampInt (-128) 127 v
@[inline] def u2s (x : Nat) : Int := (x : Int) - 128
@[inline] def s2u (v : Int) : UInt8 := (c8 v + 128).toNat.toUInt8
@[inline] def absDiff (a b : Nat) : Nat := if a ≥ b then a - b else b - a

/-- per-macroblock filter parameters (§15.1, §9.3, §9.6) -/
structure FilterParams where
  level : Nat
  interior : Nat
  hevThreshold : Nat
  /-- edge limit for macroblock edges: `((level + 2) · 2) + interior` -/
  mbLimit : Nat
  /-- edge limit for sub-block edges: `(level · 2) + interior` -/
  subLimit : Nat
  deriving Repr, Inhabited

/-- Filter level of a macroblock: frame level; replaced by / increased by the segment's value;
    clamped to 0..63; plus `ref_lf_delta[0]` (intra frame) and, for `B_PRED`, `mode_lf_delta[0]`
    when `loop_filter_adj_enable`; clamped to 0..63. -/
def filterLevel (h : FrameHdr) (cv : Conv) (m : MBInfo) : Nat :=
  let base : Int := h.filter.level
  let lvl : Int :=
    if h.seg.enabled then
      let v := h.seg.lfLevel.getD m.segment 0
      let absolute := h.seg.absolute || (cv.segDefaultAbsolute && !h.seg.updateData)
      let l := if absolute then v else base + v
      if cv.lfClampSegLevel then clampInt 0 63 l else l
    else base
  let lvl :=
    if h.filter.deltaEnabled then
      lvl + h.filter.refDelta.getD 0 0 + (if m.ymode = B_PRED then h.filter.modeDelta.getD 0 0 else 0)
    else lvl
  (clampInt 0 63 lvl).toNat

def filterParams (h : FrameHdr) (cv : Conv) (m : MBInfo) : FilterParams :=
  let level := filterLevel h cv m
  let sharp := h.filter.sharpness
  let interior :=
    if sharp = 0 then level
    else min (level >>> (if sharp > 4 then 2 else 1)) (9 - sharp)
  let interior := if interior = 0 then 1 else interior
  let hevThreshold := if level ≥ 40 then 2 else if level ≥ 15 then 1 else 0
  { level, interior, hevThreshold, mbLimit := (level + 2) * 2 + interior, subLimit := level * 2 + interior }

/-- `common_adjust`: returns the new `P0`, `Q0` and the adjustment `a` applied to `q0` -/
@[inline] def commonAdjust (useOuterTaps : Bool) (P1 P0 Q0 Q1 : Nat) : UInt8 × UInt8 × Int :=
  let p1 := u2s P1; let p0 := u2s P0; let q0 := u2s Q0; let q1 := u2s Q1
  let a := c8 ((if useOuterTaps then c8 (p1 - q1) else 0) + 3 * (q0 - p0))
  let b := (c8 (a + 3)) >>> 3
  let a := (c8 (a + 4)) >>> 3
  (s2u (p0 + b), s2u (q0 - a), a)

/-- `|p0 − q0|·2 + |p1 − q1|/2 ≤ E` -/
@[inline] def simpleThreshold (E P1 P0 Q0 Q1 : Nat) : Bool :=
  absDiff P0 Q0 * 2 + absDiff P1 Q1 / 2 ≤ E

/-- Filter the `n` positions of one edge.  `base` is the index of the first sample *after* the
    edge (`q0`), `along` the index step from one position to the next, `across` the step from
    `q0` to `q1` (so `p0` is at `base − across`).

    `kind` 0: simple filter; 1: normal filter on a macroblock edge; 2: normal filter on a
    sub-block edge. -/
def filterEdge (kind : Nat) (E I hevT : Nat) (d : ByteArray) (base along across n : Nat) : ByteArray := Id.run do
  let mut d := d
  for k in [0:n] do
    let o := base + k * along
    let P1 := (d.get! (o - 2 * across)).toNat
    let P0 := (d.get! (o - across)).toNat
    let Q0 := (d.get! o).toNat
    let Q1 := (d.get! (o + across)).toNat
    if kind = 0 then
      -- §15.2 simple_segment
      if simpleThreshold E P1 P0 Q0 Q1 then
        let (np0, nq0, _) := commonAdjust true P1 P0 Q0 Q1
        d := (d.set! (o - across) np0).set! o nq0
    else
      let P3 := (d.get! (o - 4 * across)).toNat
      let P2 := (d.get! (o - 3 * across)).toNat
      let Q2 := (d.get! (o + 2 * across)).toNat
      let Q3 := (d.get! (o + 3 * across)).toNat
      -- §15.3 filter_yes
      let yes := simpleThreshold E P1 P0 Q0 Q1 && absDiff P3 P2 ≤ I && absDiff P2 P1 ≤ I
        && absDiff P1 P0 ≤ I && absDiff Q3 Q2 ≤ I && absDiff Q2 Q1 ≤ I && absDiff Q1 Q0 ≤ I
      if yes then
        let hev := absDiff P1 P0 > hevT || absDiff Q1 Q0 > hevT
        if kind = 2 then
          -- subblock_filter
          let (np0, nq0, a) := commonAdjust hev P1 P0 Q0 Q1
          d := (d.set! (o - across) np0).set! o nq0
          if !hev then
            let a := (a + 1) >>> 1
            d := (d.set! (o + across) (s2u (u2s Q1 - a))).set! (o - 2 * across) (s2u (u2s P1 + a))
        else if hev then
          -- MBfilter, high edge variance: only p0 and q0 move
          let (np0, nq0, _) := commonAdjust true P1 P0 Q0 Q1
          d := (d.set! (o - across) np0).set! o nq0
        else
          -- MBfilter: 27/18/9 taps over three samples on each side
          let p2 := u2s P2; let p1 := u2s P1; let p0 := u2s P0
          let q0 := u2s Q0; let q1 := u2s Q1; let q2 := u2s Q2
          let w := c8 (c8 (p1 - q1) + 3 * (q0 - p0))
          let a := c8 ((27 * w + 63) >>> 7)
          d := (d.set! o (s2u (q0 - a))).set! (o - across) (s2u (p0 + a))
          let a := c8 ((18 * w + 63) >>> 7)
          d := (d.set! (o + across) (s2u (q1 - a))).set! (o - 2 * across) (s2u (p1 + a))
          let a := c8 ((9 * w + 63) >>> 7)
          d := (d.set! (o + 2 * across) (s2u (q2 - a))).set! (o - 3 * across) (s2u (p2 + a))
  return d

/-- the four groups of edges of one macroblock in one plane of `n×n` (16 luma, 8 chroma) -/
def filterMBPlane (simple : Bool) (fp : FilterParams) (inner : Bool) (mbX mbY n : Nat) (p : Plane) : Plane := Id.run do
  let ⟨data, s, rows⟩ := p
  let x0 := n * mbX
  let y0 := n * mbY
  let org := y0 * s + x0
  let kMB := if simple then 0 else 1
  let kSub := if simple then 0 else 2
  let mut d := data
  if mbX > 0 then
    d := filterEdge kMB fp.mbLimit fp.interior fp.hevThreshold d org s 1 n
  if inner then
    for k in [1:n / 4] do
      d := filterEdge kSub fp.subLimit fp.interior fp.hevThreshold d (org + 4 * k) s 1 n
  if mbY > 0 then
    d := filterEdge kMB fp.mbLimit fp.interior fp.hevThreshold d org 1 s n
  if inner then
    for k in [1:n / 4] do
      d := filterEdge kSub fp.subLimit fp.interior fp.hevThreshold d (org + 4 * k * s) 1 s n
  return ⟨d, s, rows⟩

/-- does the loop filter treat the sub-block edges of this macroblock?  (§15: not when the
    macroblock has no non-zero coefficients and is not `B_PRED`.)  "No coefficients" is what the
    reference decoders compute: no block has a token before its end-of-block. -/
def filterInner (m : MBInfo) : Bool := m.ymode = B_PRED || m.coded ≠ 0

/-- §15: the whole frame, macroblocks in raster order.  `inner i` overrides `filterInner` when a
    different reading is being examined (`Conv.innerSkipByValue`). -/
def loopFilter (h : FrameHdr) (cv : Conv) (mbs : Array MBInfo) (inner : Array Bool)
    (Y U V : Plane) : Plane × Plane × Plane := Id.run do
  let mut Y := Y
  let mut U := U
  let mut V := V
  let mbW := h.mbW
  -- a frame-level `loop_filter_level` of 0 turns the filter off for the whole frame
  if h.filter.level = 0 then return (Y, U, V)
  for mbY in [0:h.mbH] do
    for mbX in [0:mbW] do
      let i := mbY * mbW + mbX
      let m := mbs.getD i {}
      let fp := filterParams h cv m
      if fp.level ≠ 0 then
        let inn := inner.getD i (filterInner m)
        Y := filterMBPlane h.filter.simple fp inn mbX mbY 16 Y
        if !h.filter.simple then
          U := filterMBPlane false fp inn mbX mbY 8 U
          V := filterMBPlane false fp inn mbX mbY 8 V
  return (Y, U, V)

end Webp.Spec.VP8
