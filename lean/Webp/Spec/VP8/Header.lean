import Webp.Spec.VP8.Bool
import Webp.Spec.VP8.Tables
/-
  Spec model of the VP8 key-frame decoder — part 2: frame tag, key-frame start code and
  dimensions (RFC 6386 §9.1), and the frame header carried by the first partition
  (§9.2 – §9.11, §19.2).
-/
namespace Webp.Spec.VP8
open Webp.Go (Res)

/-- §9.3 segment-based adjustments.  All of this is persistent decoder state in the RFC; a key
    frame decoded on its own starts from the defaults below (delta mode, all values 0, tree
    probabilities 255). -/
structure SegmentHdr where
  enabled : Bool := false
  updateMap : Bool := false
  updateData : Bool := false
  /-- `segment_feature_mode`: true = the values replace the frame values, false = they are added -/
  absolute : Bool := false
  quant : Array Int := #[0, 0, 0, 0]
  lfLevel : Array Int := #[0, 0, 0, 0]
  treeProbs : Array Nat := #[255, 255, 255]
  deriving Repr, Inhabited

/-- §9.6 loop-filter type, level, sharpness and the delta adjustments -/
structure FilterHdr where
  /-- `filter_type`: true = simple filter -/
  simple : Bool := false
  level : Nat := 0
  sharpness : Nat := 0
  deltaEnabled : Bool := false
  deltaUpdate : Bool := false
  refDelta : Array Int := #[0, 0, 0, 0]
  modeDelta : Array Int := #[0, 0, 0, 0]
  deriving Repr, Inhabited

/-- §9.6 quantiser indices -/
structure QuantHdr where
  yacQi : Nat := 0
  ydcDelta : Int := 0
  y2dcDelta : Int := 0
  y2acDelta : Int := 0
  uvdcDelta : Int := 0
  uvacDelta : Int := 0
  deriving Repr, Inhabited

structure FrameHdr where
  version : Nat
  showFrame : Bool
  firstPartSize : Nat
  width : Nat
  height : Nat
  xScale : Nat
  yScale : Nat
  colorSpace : Nat := 0
  clampType : Nat := 0
  seg : SegmentHdr := {}
  filter : FilterHdr := {}
  /-- number of token partitions: 1, 2, 4 or 8 -/
  numParts : Nat := 1
  quant : QuantHdr := {}
  refreshEntropy : Bool := false
  /-- 4·8·3·11 coefficient probabilities after the updates of this frame -/
  coeffProbs : Array Nat := Tables.defaultCoeffProbs
  /-- number of coefficient probabilities replaced by this frame -/
  probUpdates : Nat := 0
  /-- `mb_no_coeff_skip` -/
  skipEnabled : Bool := false
  probSkipFalse : Nat := 0
  deriving Inhabited

@[inline] def FrameHdr.mbW (h : FrameHdr) : Nat := (h.width + 15) / 16
@[inline] def FrameHdr.mbH (h : FrameHdr) : Nat := (h.height + 15) / 16

/-- The uncompressed data chunk (§9.1): 3-byte frame tag, then for key frames the start code and
    the two 16-bit size fields (14 bits size, 2 bits upscaling hint). -/
def parseFrameTag (b : ByteArray) : R FrameHdr :=
  if b.size < 3 then .err .shortTag else
  let tag := (b.get! 0).toNat + (b.get! 1).toNat * 256 + (b.get! 2).toNat * 65536
  let keyFrame := tag &&& 1 = 0
  let version := (tag >>> 1) &&& 7
  let showFrame := (tag >>> 4) &&& 1 = 1
  let firstPartSize := tag >>> 5
  if !keyFrame then .err .notKeyFrame
  else if version > 3 then .err .badVersion
  else if !showFrame then .err .notShown
  else if b.size < 10 then .err .shortHeader
  else if (b.get! 3).toNat ≠ 0x9d ∨ (b.get! 4).toNat ≠ 0x01 ∨ (b.get! 5).toNat ≠ 0x2a then .err .badStartCode
  else
    let w := (b.get! 6).toNat + (b.get! 7).toNat * 256
    let h := (b.get! 8).toNat + (b.get! 9).toNat * 256
    let width := w &&& 0x3fff
    let height := h &&& 0x3fff
    if width = 0 ∨ height = 0 then .err .zeroDimension
    else if 10 + firstPartSize > b.size then .err .firstPartSize
    else .ok { version, showFrame, firstPartSize, width, height, xScale := w >>> 14, yScale := h >>> 14 }

/-- four optional signed fields of `n` magnitude bits; an absent field is set to `dflt i` -/
def readOptSigned4 (n : Nat) (dflt : Nat → Int) (d : BoolDec) : Array Int × BoolDec := Id.run do
  let mut d := d
  let mut out : Array Int := #[]
  for i in [0:4] do
    let (f, d1) := d.readFlag
    if f then
      let (v, d2) := BoolDec.readSigned n d1
      out := out.push v
      d := d2
    else
      out := out.push (dflt i)
      d := d1
  return (out, d)

/-- §9.3 `update_segmentation()` -/
def parseSegmentHdr (d : BoolDec) : SegmentHdr × BoolDec := Id.run do
  let (enabled, d) := d.readFlag
  if !enabled then return ({}, d)
  let (updateMap, d) := d.readFlag
  let (updateData, d) := d.readFlag
  let mut s : SegmentHdr := { enabled, updateMap, updateData }
  let mut d := d
  if updateData then
    let (absolute, d1) := d.readFlag
    -- a value whose flag is 0 is set to 0
    let (quant, d2) := readOptSigned4 7 (fun _ => 0) d1
    let (lfLevel, d3) := readOptSigned4 6 (fun _ => 0) d2
    s := { s with absolute, quant, lfLevel }
    d := d3
  if updateMap then
    let mut probs : Array Nat := #[]
    for _ in [0:3] do
      let (f, d1) := d.readFlag
      if f then
        let (v, d2) := BoolDec.readLiteral 8 d1
        probs := probs.push v
        d := d2
      else
        probs := probs.push 255
        d := d1
    s := { s with treeProbs := probs }
  return (s, d)

/-- §9.6 filter type, level, sharpness; `mb_lf_adjustments()` -/
def parseFilterHdr (d : BoolDec) : FilterHdr × BoolDec := Id.run do
  let (simple, d) := d.readFlag
  let (level, d) := BoolDec.readLiteral 6 d
  let (sharpness, d) := BoolDec.readLiteral 3 d
  let (deltaEnabled, d) := d.readFlag
  let mut f : FilterHdr := { simple, level, sharpness, deltaEnabled }
  let mut d := d
  if deltaEnabled then
    let (upd, d1) := d.readFlag
    d := d1
    if upd then
      -- a delta whose flag is 0 keeps its value (0 at a key frame decoded on its own)
      let (refDelta, d2) := readOptSigned4 6 (fun i => f.refDelta.getD i 0) d
      let (modeDelta, d3) := readOptSigned4 6 (fun i => f.modeDelta.getD i 0) d2
      f := { f with deltaUpdate := true, refDelta, modeDelta }
      d := d3
  return (f, d)

/-- §9.6 `quant_indices()` -/
def parseQuantHdr (d : BoolDec) : QuantHdr × BoolDec :=
  let (yacQi, d) := BoolDec.readLiteral 7 d
  let (ydcDelta, d) := BoolDec.readOptSigned 4 d
  let (y2dcDelta, d) := BoolDec.readOptSigned 4 d
  let (y2acDelta, d) := BoolDec.readOptSigned 4 d
  let (uvdcDelta, d) := BoolDec.readOptSigned 4 d
  let (uvacDelta, d) := BoolDec.readOptSigned 4 d
  ({ yacQi, ydcDelta, y2dcDelta, y2acDelta, uvdcDelta, uvacDelta }, d)

/-- §13.4 `token_prob_update()`: every one of the 4·8·3·11 probabilities may be replaced -/
def parseCoeffProbs (probs : Array Nat) (d : BoolDec) : Array Nat × Nat × BoolDec := Id.run do
  let mut probs := probs
  let mut d := d
  let mut n := 0
  for i in [0:4 * 8 * 3 * 11] do
    let (f, d1) := d.readBool (Tables.coeffUpdateProbs.getD i 255)
    if f then
      let (v, d2) := BoolDec.readLiteral 8 d1
      probs := probs.setIfInBounds i v
      n := n + 1
      d := d2
    else
      d := d1
  return (probs, n, d)

/-- The frame header in the first partition (§19.2), key-frame case.  Returns the header and the
    decoder positioned at the first macroblock header. -/
def parseFrameHdr (h : FrameHdr) (d : BoolDec) : FrameHdr × BoolDec :=
  let (colorSpace, d) := BoolDec.readLiteral 1 d
  let (clampType, d) := BoolDec.readLiteral 1 d
  let (seg, d) := parseSegmentHdr d
  let (filter, d) := parseFilterHdr d
  let (log2Parts, d) := BoolDec.readLiteral 2 d
  let (quant, d) := parseQuantHdr d
  let (refreshEntropy, d) := d.readFlag
  let (coeffProbs, probUpdates, d) := parseCoeffProbs Tables.defaultCoeffProbs d
  let (skipEnabled, d) := d.readFlag
  let (probSkipFalse, d) := if skipEnabled then BoolDec.readLiteral 8 d else (0, d)
  ({ h with colorSpace, clampType, seg, filter, numParts := 1 <<< log2Parts, quant, refreshEntropy,
            coeffProbs, probUpdates, skipEnabled, probSkipFalse }, d)

/-- §9.5: after the first partition come `numParts - 1` three-byte little-endian sizes, then the
    partitions back to back; the last one takes what is left.  Returns `(start, stop)` pairs. -/
def partitionBounds (b : ByteArray) (h : FrameHdr) : R (Array (Nat × Nat)) := Id.run do
  let tableStart := 10 + h.firstPartSize
  let n := h.numParts
  if tableStart + 3 * (n - 1) > b.size then return .err .partSizes
  let mut start := tableStart + 3 * (n - 1)
  let mut out : Array (Nat × Nat) := #[]
  for p in [0:n - 1] do
    let o := tableStart + 3 * p
    let sz := (b.get! o).toNat + (b.get! (o + 1)).toNat * 256 + (b.get! (o + 2)).toNat * 65536
    if start + sz > b.size then return .err .partSizes
    out := out.push (start, start + sz)
    start := start + sz
  out := out.push (start, b.size)
  return .ok out

end Webp.Spec.VP8
