import Webp.Spec.VP8.Decode
import Webp.Spec.Upsample
/-
  Kernel-evaluated samples of the VP8 spec model (tests, not theorems): they pin the arithmetic
  conventions of the component functions.
-/
namespace Webp.Spec.VP8.Examples
open Webp.Spec.VP8 Webp.Spec.Upsample

-- inverse DCT: a lone DC coefficient c gives (c + 4) >> 3 everywhere; the shift is arithmetic
example : inverseDCT false #[8,0,0,0, 0,0,0,0, 0,0,0,0, 0,0,0,0] 0 = Array.replicate 16 1 := by decide +kernel
example : inverseDCT false #[-5,0,0,0, 0,0,0,0, 0,0,0,0, 0,0,0,0] 0 = Array.replicate 16 (-1) := by decide +kernel
-- index 1 is a horizontal frequency, index 4 a vertical one (20091 / 35468 multipliers)
example : inverseDCT false #[100,40,0,0, -30,0,0,0, 0,0,0,0, 0,0,0,0] 0
    = #[14, 10, 5, 1, 17, 13, 8, 4, 21, 17, 12, 8, 24, 20, 15, 11] := by decide +kernel
-- inverse WHT: (x + 3) >> 3; output i is the DC of luma block i
example : inverseWHT #[8,0,0,0, 0,0,0,0, 0,0,0,0, 0,0,0,0] 0 = Array.replicate 16 1 := by decide +kernel
example : inverseWHT #[-8,16,0,0, 0,0,0,0, 0,0,0,0, 0,0,0,0] 0
    = #[1, 1, -3, -3, 1, 1, -3, -3, 1, 1, -3, -3, 1, 1, -3, -3] := by decide +kernel
-- dequantised coefficients are 16-bit: 2048 · 157 wraps
example : wrap16 (2048 * 157) = -6144 := by decide +kernel
-- dequantisation factors at the ends of the index range: y2dc = 2·dc, y2ac = ac·155/100 ≥ 8, uvdc ≤ 132
def hdr16 (q : QuantHdr) : FrameHdr :=
  { version := 0, showFrame := true, firstPartSize := 0, width := 16, height := 16, xScale := 0, yScale := 0, quant := q }
example : dequantFactors (hdr16 { yacQi := 0 }) {} 0
    = { y1dc := 4, y1ac := 4, y2dc := 8, y2ac := 8, uvdc := 4, uvac := 4 } := by decide +kernel
example : dequantFactors (hdr16 { yacQi := 127, uvdcDelta := 5 }) {} 0
    = { y1dc := 157, y1ac := 284, y2dc := 314, y2ac := 440, uvdc := 132, uvac := 284 } := by decide +kernel
-- loop-filter common_adjust: (new p0, new q0, adjustment of q0)
example : commonAdjust true 100 110 140 150 = (115, 135, 5) := by decide +kernel
example : commonAdjust false 0 0 255 255 = (15, 240, 15) := by decide +kernel
-- sub-block predictors on the edge  L3 L2 L1 L0 P A0..A7 = 10 20 30 40 50 60..130
example : predictSubblock B_VR_PRED #[10,20,30,40, 50, 60,70,80,90, 100,110,120,130]
    = #[55, 65, 75, 85, 50, 60, 70, 80, 40, 55, 65, 75, 30, 50, 60, 70] := by decide +kernel
example : predictSubblock B_HU_PRED #[10,20,30,40, 50, 60,70,80,90, 100,110,120,130]
    = #[35, 30, 25, 20, 25, 20, 15, 13, 15, 13, 10, 10, 10, 10, 10, 10] := by decide +kernel
example : predictSubblock B_LD_PRED #[10,20,30,40, 50, 60,70,80,90, 100,110,120,130]
    = #[70, 80, 90, 100, 80, 90, 100, 110, 90, 100, 110, 120, 100, 110, 120, 128] := by decide +kernel
-- boolean decoder: literal bits come most significant first
example : ((BoolDec.init (ByteArray.mk #[0x80, 0x00, 0x00]) 0 3).readLiteral 3).1 = 4 := by decide +kernel
-- YUV→RGB: mid grey, and saturation at both ends
example : (yuvToR 128 128, yuvToG 128 128 128, yuvToB 128 128) = (130, 130, 130) := by decide +kernel
example : (yuvToR 235 240, yuvToG 16 16 240, yuvToB 81 240) = (255, 0, 255) := by decide +kernel
-- fancy upsampling of the 2×2 chroma plane 10 50 / 90 200: interior (9·10+3·50+3·90+200+8)>>4, corner = the sample
example : fancy (ByteArray.mk #[10, 50, 90, 200]) 2 2 1 1 = 44 := by decide +kernel
example : fancy (ByteArray.mk #[10, 50, 90, 200]) 2 2 0 0 = 10 := by decide +kernel
example : fancy (ByteArray.mk #[10, 50, 90, 200]) 2 2 3 2 = 163 := by decide +kernel

/-
  Whole-frame samples (checked through the compiled driver by suite `vp8`):

    decode <VP8 payload of /repo/testdata/red_4x4_lossy.webp>   = ok 4×4, Y = 16 × 0x52, U = 4 × 0x5a, V = 4 × 0xf0
    decode <VP8 payload of /repo/testdata/blue_16x16_lossy.webp> = ok 16×16, Y = 256 × 0x6a, …
-/

end Webp.Spec.VP8.Examples
