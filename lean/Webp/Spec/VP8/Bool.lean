import Webp.Go.Basic
/-
  Spec model of the VP8 key-frame decoder — part 1: errors and the boolean entropy decoder
  (RFC 6386 §7).

  The decoder state is the RFC's: a two-byte window `value`, `range` in 128..255 and `bitCount`,
  the number of shifts since the last byte was brought in.

      split    = 1 + (((range - 1) * prob) >> 8)
      bigSplit = split << 8
      value ≥ bigSplit →  bit 1, range -= split, value -= bigSplit
      otherwise        →  bit 0, range  = split
      while range < 128: value <<= 1, range <<= 1, and after 8 shifts the next byte of the
                         partition enters the low byte of `value`

  **Reading past the end of a partition.**  The reference decoder of the RFC shifts in zero bits
  once the partition is exhausted; so does this model (`byteAt` answers 0).  libwebp and its Go
  port (/repo/internal/bitio/reader_bool.go) supply *one* zero byte, raise a sticky `eof` flag,
  and the frame decoder turns a raised flag into "premature end of data".  Their flag goes up
  exactly when a decision is taken whose 8-bit comparison window — the stream bits
  `S … S+7`, `S` the number of shifts so far — is not wholly inside the partition.  That
  criterion does not depend on how a decoder buffers bytes, so it is recorded here as `over`;
  `Webp.Spec.VP8.decode` rejects a frame (`Err.truncated`) when a partition it read from has
  `over` set, which is how "valid frame" is calibrated (DESIGN.md §2.7).
-/
namespace Webp.Spec.VP8
open Webp.Go (Res)

/-- Why a byte string is not a (decodable, displayable) VP8 key frame. -/
inductive Err where
  | shortTag          -- fewer than 3 bytes of frame tag
  | notKeyFrame       -- frame tag bit 0 is 1 (inter frame)
  | badVersion        -- version field above 3
  | notShown          -- show_frame = 0
  | shortHeader       -- fewer than 7 bytes after the frame tag
  | badStartCode      -- start code is not 9d 01 2a
  | zeroDimension     -- width or height is 0
  | firstPartSize     -- first partition longer than the data
  | partSizes         -- token partition size table / sizes run past the data
  | truncated         -- a decision needed bits beyond the end of a partition
  deriving Repr, DecidableEq, Inhabited

def Err.toString : Err → String
  | .shortTag => "shortTag" | .notKeyFrame => "notKeyFrame" | .badVersion => "badVersion"
  | .notShown => "notShown" | .shortHeader => "shortHeader" | .badStartCode => "badStartCode"
  | .zeroDimension => "zeroDimension" | .firstPartSize => "firstPartSize"
  | .partSizes => "partSizes" | .truncated => "truncated"

/-- coarse class used on the wire: `header` (structure of the frame) or `truncated` -/
def Err.isTruncated : Err → Bool
  | .truncated => true
  | _ => false

abbrev R := Res Err

/-- Boolean entropy decoder over `data[start, stop)`. -/
structure BoolDec where
  data : ByteArray
  start : Nat
  stop : Nat
  /-- index of the next byte to enter `value` -/
  pos : Nat
  value : Nat
  range : Nat := 255
  bitCount : Nat := 0
  /-- some decision so far needed bits beyond `stop` -/
  over : Bool := false
  /-- at least one boolean was read -/
  used : Bool := false
  deriving Inhabited

namespace BoolDec

/-- byte `i` of the partition, 0 beyond its end -/
@[inline] def byteAt (d : BoolDec) (i : Nat) : Nat :=
  if i < d.stop then (d.data.get! i).toNat else 0

/-- `init_bool_decoder`: the first two bytes form the window -/
def init (data : ByteArray) (start stop : Nat) : BoolDec :=
  let stop := min stop data.size
  let b (i : Nat) : Nat := if i < stop then (data.get! i).toNat else 0
  { data, start, stop, pos := start + 2, value := b start * 256 + b (start + 1) }

/-- The partition begins with the byte 0xff.  The encoder of §7.3 starts from the interval
    `[0, 255·2^k)`, so it can never emit that; for the decoder it means `value ≥ range·256`, a state
    the decoding rules never reach otherwise and in which differently arranged decoders (the RFC's
    `value ≥ bigsplit`, libwebp's `value > split` on a wider register) stop agreeing. -/
def startsWithFF (d : BoolDec) : Bool := d.start < d.stop && d.data.get! d.start == 0xff

/-- number of bytes of the partition covered by the current comparison window -/
@[inline] def needed (d : BoolDec) : Nat :=
  if d.bitCount = 0 then d.pos - d.start - 1 else d.pos - d.start

/-- renormalisation, one shift per round (at most 7 rounds: `range ≥ 1`) -/
def normalize : (fuel : Nat) → BoolDec → BoolDec
  | 0, d => d
  | fuel + 1, d =>
    if d.range ≥ 128 then d
    else
      let value := (d.value <<< 1) &&& 0xffff
      let range := d.range <<< 1
      if d.bitCount = 7 then
        normalize fuel { d with value := value ||| d.byteAt d.pos, range, bitCount := 0, pos := d.pos + 1 }
      else
        normalize fuel { d with value, range, bitCount := d.bitCount + 1 }

/-- `bool_read(d, prob)`: one boolean whose probability of being 0 is `prob/256` -/
@[inline] def readBool (d : BoolDec) (prob : Nat) : Bool × BoolDec :=
  let d := if d.needed > d.stop - d.start then { d with over := true, used := true } else { d with used := true }
  let split := 1 + (((d.range - 1) * prob) >>> 8)
  let bigSplit := split <<< 8
  if d.value ≥ bigSplit then
    (true, normalize 8 { d with range := d.range - split, value := d.value - bigSplit })
  else
    (false, normalize 8 { d with range := split })

/-- one bit at probability 1/2 -/
@[inline] def readFlag (d : BoolDec) : Bool × BoolDec := d.readBool 128

/-- `read_literal(n)`: an `n`-bit unsigned value, most significant bit first, each bit at 1/2 -/
def readLiteral : (n : Nat) → BoolDec → (acc : Nat := 0) → Nat × BoolDec
  | 0, d, acc => (acc, d)
  | n + 1, d, acc =>
    let (b, d) := d.readBool 128
    readLiteral n d (2 * acc + (if b then 1 else 0))

/-- magnitude of `n` bits followed by a sign bit (1 = negative) — the header's signed fields -/
def readSigned (n : Nat) (d : BoolDec) : Int × BoolDec :=
  let (v, d) := readLiteral n d
  let (s, d) := d.readBool 128
  (if s then - (Int.ofNat v) else Int.ofNat v, d)

/-- flag; if set a signed `n`-bit value follows, otherwise 0 (`L(1)` + optional field) -/
def readOptSigned (n : Nat) (d : BoolDec) : Int × BoolDec :=
  let (f, d) := d.readBool 128
  if f then readSigned n d else (0, d)

/-- `treed_read`: walk a tree given as the RFC gives it — an array of `Int`, entry pair
    `(t[i], t[i+1])` for node `i`, a value `≤ 0` being the leaf `-value`, and the probability of
    node `i` being `probs[i >> 1]`.  `start` is the first node (0, or 2 when the first branch is
    already known, as after a zero token).  Trees here have at most 12 internal nodes. -/
def readTree (tree : Array Int) (probs : Nat → Nat) (d : BoolDec) (start : Nat := 0) : Nat × BoolDec :=
  go 16 start d
where
  go : Nat → Nat → BoolDec → Nat × BoolDec
  | 0, _, d => (0, d)
  | fuel + 1, i, d =>
    let (b, d) := d.readBool (probs (i >>> 1))
    let nxt := tree.getD (i + (if b then 1 else 0)) 0
    if nxt ≤ 0 then (nxt.natAbs, d) else go fuel nxt.toNat d

end BoolDec

end Webp.Spec.VP8
