import Webp.Spec.VP8.Decode
/-
  Spec model of how a decoded 4:2:0 picture becomes non-premultiplied RGBA when an alpha plane
  accompanies it: libwebp's *fancy* chroma upsampler followed by libwebp's fixed-point
  YUV→RGB.  RFC 6386 defines Y, Cb, Cr only; the reference for RGB is libwebp
  (`src/dsp/upsampling.c`, `src/dsp/yuv.h`), whose constants the Go port carries in
  /repo/internal/dsp/{upsample,yuv}.go.

  **Upsampling.**  Every luma position `(x, y)` lies between four chroma samples: the *near* one
  `(x/2, y/2)` and the *far* ones one step towards the side `x` (resp. `y`) lies on — `+1` for odd
  `x`, `−1` for even `x`; beyond the picture the far sample is the near one again (edge samples are
  mirrored).  The weights are 9, 3, 3, 1:

      c(x,y) = (9·C[ny][nx] + 3·C[ny][fx] + 3·C[fy][nx] + C[fy][fx] + 8) >> 4

  libwebp computes this in two steps, `(((tl + 3t + 3l + cur + 8) >> 3) + tl) >> 1`, which is the same
  number (`⌊(⌊X/8⌋ + n)/2⌋ = ⌊(X + 8n)/16⌋`), and for the first / last column `(3a + b + 2) >> 2`, which
  is the formula above with `fx = nx`.  It also processes U and V together in one 32-bit word; that
  variant is stated in `Packed` below (it is not used by `toNRGBA`).

  **Conversion** (14-bit fixed point, `MultHi(v, c) = (v·c) >> 8`, result `>> 6` clipped to 0..255):

      R = MultHi(y,19077) + MultHi(v,26149) − 14234
      G = MultHi(y,19077) − MultHi(u,6419) − MultHi(v,13320) + 8708
      B = MultHi(y,19077) + MultHi(u,33050) − 17685
-/
namespace Webp.Spec.Upsample
open Webp.Spec.VP8 (Frame)

@[inline] def multHi (v c : Nat) : Int := ((v * c) >>> 8 : Nat)

/-- `VP8Clip8`: `v >> 6` clipped to 0..255 -/
@[inline] def clip8 (v : Int) : UInt8 :=
  let s := v >>> 6
  if s < 0 then 0 else if s > 255 then 255 else s.toNat.toUInt8

@[inline] def yuvToR (y v : Nat) : UInt8 := clip8 (multHi y 19077 + multHi v 26149 - 14234)
@[inline] def yuvToG (y u v : Nat) : UInt8 := clip8 (multHi y 19077 - multHi u 6419 - multHi v 13320 + 8708)
@[inline] def yuvToB (y u : Nat) : UInt8 := clip8 (multHi y 19077 + multHi u 33050 - 17685)

/-- index of the far chroma sample for luma coordinate `t` in a chroma dimension of `n` samples -/
@[inline] def farIndex (t n : Nat) : Nat :=
  if t % 2 = 1 then (if t / 2 + 1 < n then t / 2 + 1 else t / 2)
  else (if t = 0 then 0 else t / 2 - 1)

/-- the fancy-upsampled chroma sample of plane `c` (`cw` samples per row, `ch` rows) at luma `(x, y)` -/
@[inline] def fancy (c : ByteArray) (cw ch x y : Nat) : Nat :=
  let nx := x / 2
  let ny := y / 2
  let fx := farIndex x cw
  let fy := farIndex y ch
  let at' (cx cy : Nat) : Nat := (c.get! (cy * cw + cx)).toNat
  (9 * at' nx ny + 3 * at' fx ny + 3 * at' nx fy + at' fx fy + 8) >>> 4

/-- R,G,B,A bytes (the layout of Go's `image.NRGBA.Pix`, stride `4·width`) of a decoded frame;
    `alpha` is the decoded alpha plane (`width·height` bytes), `none` = opaque. -/
def toNRGBA (f : Frame) (alpha : Option ByteArray) : ByteArray := Id.run do
  let cw := f.uvStride
  let ch := (f.height + 1) / 2
  let mut out := ByteArray.emptyWithCapacity (4 * f.width * f.height)
  for y in [0:f.height] do
    for x in [0:f.width] do
      let yy := (f.y.get! (y * f.yStride + x)).toNat
      let u := fancy f.u cw ch x y
      let v := fancy f.v cw ch x y
      let a : UInt8 := match alpha with
        | some al => al.get! (y * f.width + x)
        | none => 255
      out := (((out.push (yuvToR yy v)).push (yuvToG yy u v)).push (yuvToB yy u)).push a
  return out

/-! ### libwebp's packed arithmetic (U in bits 0..15, V in bits 16..31 of one word) -/
namespace Packed

@[inline] def loadUV (u v : UInt8) : UInt32 := u.toUInt32 ||| (v.toUInt32 <<< 16)
@[inline] def lowU (w : UInt32) : UInt8 := (w &&& 0xff).toUInt8
@[inline] def lowV (w : UInt32) : UInt8 := ((w >>> 16) &&& 0xff).toUInt8

/-- first / last column: `(3·near + far + 2) >> 2` on both halves -/
@[inline] def edge (near far : UInt32) : UInt32 := (3 * near + far + 0x00020002) >>> 2

/-- the four samples between the chroma quad `tl t / l cur`:
    (top-left, top-right, bottom-left, bottom-right) -/
@[inline] def quad (tl t l cur : UInt32) : UInt32 × UInt32 × UInt32 × UInt32 :=
  let avg := tl + t + l + cur + 0x00080008
  let diag12 := (avg + 2 * (t + l)) >>> 3
  let diag03 := (avg + 2 * (tl + cur)) >>> 3
  ((diag12 + tl) >>> 1, (diag03 + t) >>> 1, (diag03 + l) >>> 1, (diag12 + cur) >>> 1)

end Packed

end Webp.Spec.Upsample
