/-
  VP8L transform layer and LZ77 value codes — SPECIFICATION model (core Lean only).

  What the WebP-lossless format defines, written as pure functions on separate input and
  output (no buffers, no aliasing):

  * the four inverse transforms: add-green, cross-colour, predictor (14 modes), colour indexing
    with 1/2/4/8-bit packing;
  * the list of transforms of a stream and its inverse (`applyInverse`), with the width
    bookkeeping of a packing colour-index transform;
  * the LZ77 prefix value code (`prefixDecode`) and the 120-entry distance map
    (`planeCodeToDistance`).

  Pixels are `UInt32` ARGB (alpha = bits 24..31, red 16..23, green 8..15, blue 0..7).
  Everything is channel-wise on `UInt8` (arithmetic mod 256 is `UInt8` arithmetic); the Go
  code's word-level mask tricks live in `Webp.Impl.LTransform` and are proved equal in
  `Webp.Proofs.LTransformPixel`.

  All recursion is structural (so that `decide` can evaluate the functions).
-/
namespace Webp.Spec.LTransform

abbrev Px := UInt32

/-- `ARGB_BLACK` -/
def argbBlack : Px := 0xff000000

/-! ## channels -/

def chA (p : Px) : UInt8 := (p >>> 24).toUInt8
def chR (p : Px) : UInt8 := (p >>> 16).toUInt8
def chG (p : Px) : UInt8 := (p >>> 8).toUInt8
def chB (p : Px) : UInt8 := p.toUInt8

def mk (a r g b : UInt8) : Px :=
  (a.toUInt32 <<< 24) ||| (r.toUInt32 <<< 16) ||| (g.toUInt32 <<< 8) ||| b.toUInt32

def map2 (f : UInt8 → UInt8 → UInt8) (p q : Px) : Px :=
  mk (f (chA p) (chA q)) (f (chR p) (chR q)) (f (chG p) (chG q)) (f (chB p) (chB q))

def map3 (f : UInt8 → UInt8 → UInt8 → UInt8) (p q s : Px) : Px :=
  mk (f (chA p) (chA q) (chA s)) (f (chR p) (chR q) (chR s))
     (f (chG p) (chG q) (chG s)) (f (chB p) (chB q) (chB s))

/-- per-channel sum mod 256 -/
def addPx (p q : Px) : Px := map2 (· + ·) p q

/-- per-channel difference mod 256 -/
def subPx (p q : Px) : Px := map2 (· - ·) p q

/-- `(a + b) / 2` on one channel (no overflow: computed in 16 bits) -/
def avgCh (a b : UInt8) : UInt8 := ((a.toUInt16 + b.toUInt16) >>> 1).toUInt8

/-- `Average2` -/
def average2 (p q : Px) : Px := map2 avgCh p q

def clampCh (v : Int) : UInt8 :=
  if v < 0 then 0 else if v > 255 then 255 else UInt8.ofNat v.toNat

/-- `ClampAddSubtractFull(L, T, TL)`: `clamp(L + T − TL)` per channel -/
def clampAddSubFull (a b c : Px) : Px :=
  map3 (fun x y z => clampCh ((x.toNat : Int) + y.toNat - z.toNat)) a b c

/-- `ClampAddSubtractHalf(avg, TL)`: `clamp(avg + (avg − TL) / 2)` per channel; the division
    truncates toward zero (C and Go `/` on signed integers). -/
def clampAddSubHalf (avg c : Px) : Px :=
  map2 (fun x z => clampCh ((x.toNat : Int) + Int.tdiv ((x.toNat : Int) - z.toNat) 2)) avg c

def absDiff (x y : UInt8) : Int := (((x.toNat : Int) - y.toNat).natAbs : Int)

/-- `Select(L, T, TL)`: with `pL − pT = Σ_channels (|L−TL| − |T−TL|)` (what remains of the
    Manhattan distances of the estimate `L + T − TL` to `T` and to `L`), return `T` when
    `pL − pT ≤ 0`, else `L` (`Select` in libwebp's lossless.c). -/
def select (l t tl : Px) : Px :=
  let pa : Int :=
    (absDiff (chB l) (chB tl) - absDiff (chB t) (chB tl)) +
    (absDiff (chG l) (chG tl) - absDiff (chG t) (chG tl)) +
    (absDiff (chR l) (chR tl) - absDiff (chR t) (chR tl)) +
    (absDiff (chA l) (chA tl) - absDiff (chA t) (chA tl))
  if pa ≤ 0 then t else l

/-- the 14 predictors; modes 14 and 15 (representable in the 4-bit field, not defined by the
    format) predict `ARGB_BLACK`, as libwebp and the Go decoder do -/
def predict (mode : Nat) (l t tr tl : Px) : Px :=
  match mode with
  | 0 => argbBlack
  | 1 => l
  | 2 => t
  | 3 => tr
  | 4 => tl
  | 5 => average2 (average2 l tr) t
  | 6 => average2 l tl
  | 7 => average2 l t
  | 8 => average2 tl t
  | 9 => average2 t tr
  | 10 => average2 (average2 l tl) (average2 t tr)
  | 11 => select l t tl
  | 12 => clampAddSubFull l t tl
  | 13 => clampAddSubHalf (average2 l t) tl
  | _ => argbBlack

/-! ## tiles -/

/-- `VP8LSubSampleSize`: `ceil(size / 2^bits)` -/
def subSampleSize (size bits : Nat) : Nat := (size + (1 <<< bits) - 1) >>> bits

/-- the tile word governing pixel `i` of an image of width `w` (row-major sub-image of
    `subSampleSize w bits` tiles per row); missing data reads as 0 -/
def tileAt (w bits : Nat) (tiles : Array Px) (i : Nat) : Px :=
  tiles.getD (((i / w) >>> bits) * subSampleSize w bits + ((i % w) >>> bits)) 0

/-! ## add green -/

def addGreenPx (p : Px) : Px := mk (chA p) (chR p + chG p) (chG p) (chB p + chG p)

def addGreen (px : Array Px) : Array Px := px.map addGreenPx

/-! ## cross-colour -/

/-- `int8` reading of a byte -/
def sext8 (b : UInt8) : Int := if b.toNat < 128 then (b.toNat : Int) else (b.toNat : Int) - 256

/-- `ColorTransformDelta(t, c) = (int8 t * int8 c) >> 5` (arithmetic shift) -/
def colorDelta (t c : UInt8) : Int := (sext8 t * sext8 c) >>> 5

/-- low 8 bits of an integer (two's complement `& 0xff`) -/
def byteOfInt (v : Int) : UInt8 := UInt8.ofNat (v % 256).toNat

/-- inverse cross-colour of one pixel under the tile word `m`
    (`green_to_red` = bits 0..7, `green_to_blue` = 8..15, `red_to_blue` = 16..23).
    Blue uses the **already restored** red. -/
def crossColorInvPx (m p : Px) : Px :=
  let g := chG p
  let r' := byteOfInt ((chR p).toNat + colorDelta (chB m) g)
  let b' := byteOfInt ((chB p).toNat + colorDelta (chG m) g + colorDelta (chR m) r')
  mk (chA p) r' g b'

def crossColorInv (w bits : Nat) (tiles px : Array Px) : Array Px :=
  px.mapIdx fun i p => crossColorInvPx (tileAt w bits tiles i) p

/-! ## predictor -/

/-- the prediction for pixel `i` of a width-`w` image whose already known pixels are read
    through `g` (only indices `< i` are read):
    pixel (0,0) ← `ARGB_BLACK`; rest of row 0 ← L; column 0 ← T; otherwise the tile's mode with
    L = `i−1`, T = `i−w`, TR = `i−w+1`, TL = `i−w−1` — plain index arithmetic on the flat array,
    so the TR of the last column is the first pixel of the current row.
    `modeOf` extracts the mode from the tile word. -/
def predictAt (modeOf : Px → Nat) (w bits : Nat) (tiles : Array Px) (g : Nat → Px) (i : Nat) : Px :=
  if i / w = 0 then
    (if i % w = 0 then argbBlack else g (i - 1))
  else if i % w = 0 then g (i - w)
  else predict (modeOf (tileAt w bits tiles i)) (g (i - 1)) (g (i - w)) (g (i - w + 1)) (g (i - w - 1))

/-- mode field of a predictor tile word as the format defines it: bits 8..11 -/
def modeInv (t : Px) : Nat := ((t >>> 8) &&& 0xf).toNat

def predictInvLoop (w bits : Nat) (tiles res : Array Px) : Nat → Array Px → Array Px
  | 0, out => out
  | k + 1, out =>
    let i := out.size
    predictInvLoop w bits tiles res k
      (out.push (addPx (res.getD i 0) (predictAt modeInv w bits tiles (fun j => out.getD j 0) i)))

/-- inverse predictor transform: pixel = residual + prediction from already decoded pixels -/
def predictInv (w bits : Nat) (tiles res : Array Px) : Array Px :=
  predictInvLoop w bits tiles res res.size #[]

/-! ## colour indexing -/

/-- width-reduction bits of a palette of `n` colours: 3 / 2 / 1 / 0 for ≤2 / ≤4 / ≤16 / more -/
def paletteBits (n : Nat) : Nat := if n ≤ 2 then 3 else if n ≤ 4 then 2 else if n ≤ 16 then 1 else 0

/-- palette index of pixel `x` of a row inside packed word `word`:
    `bits` = width bits, `8 >> bits` bits per index, lowest bits first, in the green byte -/
def unpackIndex (bits : Nat) (word : Px) (x : Nat) : Nat :=
  let bpp := 8 >>> bits
  (((word >>> 8) &&& 0xff).toNat >>> (bpp * (x % (1 <<< bits)))) % (1 <<< bpp)

/-- inverse colour-indexing: `w`×`h` output from a `subSampleSize w bits`×`h` input;
    an index beyond the palette gives transparent black `0x00000000` -/
def colorIndexInv (pal : Array Px) (w h : Nat) (inp : Array Px) : Array Px :=
  let bits := paletteBits pal.size
  let wp := subSampleSize w bits
  ((List.range (w * h)).map fun i =>
    pal.getD (unpackIndex bits (inp.getD ((i / w) * wp + (i % w) >>> bits) 0) (i % w)) 0).toArray

/-! ## transform lists -/

inductive Xf where
  | predictor (bits : Nat) (tiles : Array Px)
  | crossColor (bits : Nat) (tiles : Array Px)
  | subtractGreen
  | colorIndex (pal : Array Px)
  deriving Repr, Inhabited

/-- working width after the transform has been read (`readTransform`'s return value) -/
def Xf.widthAfter : Xf → Nat → Nat
  | .colorIndex pal, w => subSampleSize w (paletteBits pal.size)
  | _, w => w

/-- one inverse transform; `w` is the width of its *output* (the `XSize` recorded when the
    transform was read) -/
def Xf.inverse : Xf → (w h : Nat) → Array Px → Array Px
  | .predictor bits tiles, w, _, px => predictInv w bits tiles px
  | .crossColor bits tiles, w, _, px => crossColorInv w bits tiles px
  | .subtractGreen, _, _, px => addGreen px
  | .colorIndex pal, w, h, px => colorIndexInv pal w h px

/-- Undo the transforms of a stream.  `ts` is in stream order (= the order in which the encoder
    applied them), `w` the image width; the last transform of the stream is undone first, each
    with the width that was current when it was read. -/
def applyInverse (h : Nat) : List Xf → Nat → Array Px → Array Px
  | [], _, px => px
  | t :: ts, w, px => t.inverse w h (applyInverse h ts (t.widthAfter w) px)

/-! ## LZ77 value codes -/

/-- number of extra bits following prefix symbol `sym` -/
def prefixExtraBits (sym : Nat) : Nat := if sym < 4 then 0 else (sym - 2) >>> 1

/-- value (length, or distance code) of prefix symbol `sym` followed by the extra-bits value
    `extra` -/
def prefixDecode (sym extra : Nat) : Nat :=
  if sym < 4 then sym + 1
  else
    let eb := (sym - 2) >>> 1
    ((2 + (sym &&& 1)) <<< eb) + extra + 1

/-- `kCodeToPlane` (120 `uint8` entries, kept as `Nat`s): entry `i` = `(yoffset << 4) | (8 − xoffset)`
    of distance code `i+1` -/
def codeToPlane : List Nat := [
  0x18, 0x07, 0x17, 0x19, 0x28, 0x06, 0x27, 0x29, 0x16, 0x1a,
  0x26, 0x2a, 0x38, 0x05, 0x37, 0x39, 0x15, 0x1b, 0x36, 0x3a,
  0x25, 0x2b, 0x48, 0x04, 0x47, 0x49, 0x14, 0x1c, 0x35, 0x3b,
  0x46, 0x4a, 0x24, 0x2c, 0x58, 0x45, 0x4b, 0x34, 0x3c, 0x03,
  0x57, 0x59, 0x13, 0x1d, 0x56, 0x5a, 0x23, 0x2d, 0x44, 0x4c,
  0x55, 0x5b, 0x33, 0x3d, 0x68, 0x02, 0x67, 0x69, 0x12, 0x1e,
  0x66, 0x6a, 0x22, 0x2e, 0x54, 0x5c, 0x43, 0x4d, 0x65, 0x6b,
  0x32, 0x3e, 0x78, 0x01, 0x77, 0x79, 0x53, 0x5d, 0x11, 0x1f,
  0x64, 0x6c, 0x42, 0x4e, 0x76, 0x7a, 0x21, 0x2f, 0x75, 0x7b,
  0x31, 0x3f, 0x63, 0x6d, 0x52, 0x5e, 0x00, 0x74, 0x7c, 0x41,
  0x4f, 0x10, 0x20, 0x62, 0x6e, 0x30, 0x73, 0x7d, 0x51, 0x5f,
  0x40, 0x72, 0x7e, 0x61, 0x6f, 0x50, 0x71, 0x7f, 0x60, 0x70]

/-- distance code (≥ 1) → pixel distance for an image of width `xsize`:
    codes 1..120 are (xoffset, yoffset) neighbours, `dist = yoffset·xsize + xoffset` clamped to
    ≥ 1; larger codes are `code − 120`. -/
def planeCodeToDistance (xsize : Nat) (code : Nat) : Nat :=
  if code > 120 then code - 120
  else
    let dc := codeToPlane.getD (code - 1) 0
    let yoff := dc >>> 4
    let d : Int := (yoff * xsize : Nat) + (8 - ((dc &&& 0xf : Nat) : Int))
    if d < 1 then 1 else d.toNat

end Webp.Spec.LTransform
