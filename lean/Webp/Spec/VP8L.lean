import Webp.Spec.VP8L.Bits
import Webp.Spec.VP8L.Prefix
import Webp.Spec.VP8L.Transform
import Webp.Spec.VP8L.Decode
import Webp.Spec.VP8L.Examples
/-!
# Spec model of the WebP lossless (VP8L) bitstream decoder

`Webp.Spec.VP8L.decode : ByteArray → Res Err Image` is the reference for "the pixels the
format defines" (properties C01–C03).  It is written from the WebP Lossless Bitstream
Specification (RFC 9649 §3) in the order and shape of the specification, shares no code with
/repo, uses only core Lean, and is total (`hang` is unreachable: the only fuelled loops are the
pixel loop, which produces ≥ 1 pixel per round, and the transform list, ≤ 4 entries).

Pieces (all exported for reuse by theorems):

* `Bits`      `Err`, `BitReader`, `readBit`, `readBits` (LSB-first; past the end = `eos`), `subSampleSize`
* `Prefix`    `Code`, `kraftSum`, `buildCode`, `readSymbol`, `readCodeLengths`, `readCodeLengthVector`,
              `readCode`, `readPrefixValue`, `distanceMap`, `planeCodeToDistance`
* `Transform` `addPixels`, `average2`, `select`, `clampAddSubtractFull/Half`, `predict`,
              `inversePredictor`, `inverseCrossColor`, `inverseSubtractGreen`, `deltaDecodePalette`,
              `packingBits`, `inverseColorIndexing`
* `Decode`    `cacheHash`, `Group`, `EntropyParams`, `Token`, `readToken`, `execToken`, `decodePixels`,
              `readEntropyCodedImage`, `Transform`, `readTransforms`, `readMetaPrefix`,
              `applyInverseTransforms`, `readHeader`, `decodeStream`, `decode`

## Points the specification text leaves open, and how they were settled

Settled the way libwebp (and the Go port of it) behave, after reading
/repo/internal/lossless/{decode_image,huffman}.go:

1. *max_symbol* counts code-length **tokens** read (a repeat code 16/17/18 counts once), not
   code lengths produced.
2. A repeat code that would run past the end of the alphabet is an error.
3. A length vector must be a complete prefix code (Kraft sum = 1); the only exception is a
   vector with exactly one used symbol (of any length 1..15), which is a zero-bit code.  An
   all-zero vector is an error (the specification says to code "empty" codes as a single 0).
   Two equal symbols in a simple code are allowed and give a one-symbol code.
4. Predictor-mode values 14 and 15 (the field is the low nibble of green) predict like mode 0.
5. The width used by the distance map is the width of the image being decoded (sub-image
   width; packed width after a colour-indexing transform).
6. The `alpha_is_used` bit is a hint only: the decoded alpha channel is returned as is.

Settled from the specification where libwebp differs or is silent:

7. A simple code naming a symbol ≥ alphabet size (possible only for the 40-symbol distance
   alphabet): rejected.  The Go port rejects as well; C libwebp ignores the symbol.

## Where the Go decoder differs from this model (found by suite `vp8l`)

* **In-place inverse transforms** (`applyInverseTransforms`, /repo before commit c1fa12f): when a
  *packing* colour-indexing transform (2..16 colours) was followed by any other transform in the
  stream, the unpacking inverse ran with input and output aliased and produced wrong pixels
  (DESIGN.md defect D1; smallest encoder case seen: a flat 2×2 image, Quality 75, Method 5).
  The model applies every inverse on a fresh array; since c1fa12f the Go decoder alternates two
  buffers and agrees with the model on this class.
* **Zero padding of very short inputs**: the Go bit reader zero-extends a payload of ≤ 8 bytes
  to a 64-bit window, so a stream whose last up-to-8 bits are missing is accepted when those
  bits would have been zero (e.g. `2f00000000888858`); the model answers `eos`.  For payloads
  of ≥ 9 bytes every over-read is an error in both.
* No other disagreement (accept/reject, error class header/bitstream, pixels) was observed.
-/
