import Webp.Go.Basic
/-
  Spec model: well-formedness of a RIFF/WebP container, written from the container
  specification (developers.google.com/speed/webp/docs/riff_container), independently of the
  three Go parsers.

  `wellFormed b` either explains (by class) why `b` is not a well-formed WebP container or
  returns the `Layout` it describes.

  * file        = "RIFF" size "WEBP" chunk*, size = file length − 8 (no trailing bytes), size even;
  * chunk       = fourcc(4) size(4, LE) payload, one zero pad byte when size is odd;
  * simple      = exactly one `VP8 ` or `VP8L` chunk whose bitstream header is valid;
  * extended    = `VP8X` (10-byte payload, reserved bits and bytes zero, canvas = 1 + 24-bit values,
                  canvas area < 2^32), optional `ICCP`, optional `ANIM` (6 bytes), then
                    - still:    optional `ALPH` + one `VP8 ` chunk, or one `VP8L` chunk, inside the canvas,
                    - animated: one or more `ANMF` (16-byte frame header, then optional `ALPH` + `VP8 `,
                      or `VP8L`; sub-chunks padded; header size = bitstream size; frame inside canvas),
                  optional `EXIF`, optional `XMP `; unknown chunks are tolerated between them;
  * VP8X flags  = exactly what is present: animation ⇔ ANIM (⇔ ANMF frames), ICC/EXIF/XMP ⇔ chunk,
                  alpha ⇔ some frame has an `ALPH` chunk or a VP8L header with the alpha bit.

  Deliberately *not* demanded (the specification does not): a still's canvas equal to its image
  size (libwebp's demuxer insists on it; the format text only needs the image inside the canvas).
-/
namespace Webp.Spec.Riff
open Webp.Go

def tagRIFF := fourCC "RIFF"
def tagWEBP := fourCC "WEBP"
def tagVP8  := fourCC "VP8 "
def tagVP8L := fourCC "VP8L"
def tagVP8X := fourCC "VP8X"
def tagALPH := fourCC "ALPH"
def tagANIM := fourCC "ANIM"
def tagANMF := fourCC "ANMF"
def tagICCP := fourCC "ICCP"
def tagEXIF := fourCC "EXIF"
def tagXMP  := fourCC "XMP "

structure RawChunk where
  id : Nat
  data : Bytes
  deriving Repr, DecidableEq, Inhabited

structure FrameLayout where
  offsetX : Nat := 0
  offsetY : Nat := 0
  width : Nat
  height : Nat
  duration : Nat := 0
  blendNone : Bool := false
  disposeBG : Bool := false
  lossless : Bool
  alpha : Option Bytes        -- payload of the ALPH chunk, if any
  bitstream : Bytes           -- payload of the VP8 / VP8L chunk
  deriving Repr, DecidableEq, Inhabited

structure Layout where
  extended : Bool
  canvasW : Nat
  canvasH : Nat
  hasAlpha : Bool             -- VP8X alpha flag (simple format: the VP8L alpha bit)
  animated : Bool
  loopCount : Nat := 0        -- ANIM only
  bgColor : Nat := 0          -- ANIM only
  icc : Option Bytes := none
  exif : Option Bytes := none
  xmp : Option Bytes := none
  frames : List FrameLayout
  deriving Repr, DecidableEq, Inhabited

/-- chunk sequence of a byte string: header, payload, zero pad byte when the size is odd.
    `fuel` ≥ number of chunks + 1 (each chunk consumes ≥ 8 bytes; `b.length` always suffices). -/
def splitChunks : Nat → Bytes → Except String (List RawChunk)
  | 0, _ => .error "fuel"
  | fuel + 1, b =>
    if b.length = 0 then .ok []
    else if b.length < 8 then .error "chunk-header-truncated"
    else
      let size := le32 b 4
      let padded := size + size % 2
      if 8 + padded > b.length then .error "chunk-payload-truncated"
      else if size % 2 = 1 ∧ byteAt b (8 + size) ≠ 0 then .error "chunk-pad-nonzero"
      else do
        let rest ← splitChunks fuel (b.drop (8 + padded))
        pure (⟨le32 b 0, (b.drop 8).take size⟩ :: rest)

/-- VP8 key-frame header: frame tag with key-frame bit 0, start code 9d 01 2a, 14-bit sizes ≠ 0 -/
def vp8Header (d : Bytes) : Option (Nat × Nat) :=
  if d.length < 10 then none
  else if byteAt d 0 % 2 ≠ 0 then none
  else if byteAt d 3 ≠ 0x9d ∨ byteAt d 4 ≠ 0x01 ∨ byteAt d 5 ≠ 0x2a then none
  else
    let w := le16 d 6 % 16384
    let h := le16 d 8 % 16384
    if w = 0 ∨ h = 0 then none else some (w, h)

/-- VP8L header: signature 2f, 14+14 bits size−1, alpha bit, 3-bit version = 0 -/
def vp8lHeader (d : Bytes) : Option (Nat × Nat × Bool) :=
  if d.length < 5 then none
  else if byteAt d 0 ≠ 0x2f then none
  else
    let bits := le32 d 1
    if bits / 536870912 % 8 ≠ 0 then none
    else some (bits % 16384 + 1, bits / 16384 % 16384 + 1, bits / 268435456 % 2 = 1)

def isKnown (id : Nat) : Bool :=
  id = tagVP8 || id = tagVP8L || id = tagVP8X || id = tagALPH || id = tagANIM || id = tagANMF ||
  id = tagICCP || id = tagEXIF || id = tagXMP

/-- unknown chunks are tolerated anywhere between the known ones -/
def skipUnknown : List RawChunk → List RawChunk
  | [] => []
  | c :: cs => if isKnown c.id then c :: cs else skipUnknown cs

/-- optional chunk with the given tag at the head (after unknown chunks) -/
def takeOpt (tag : Nat) (cs : List RawChunk) : Option Bytes × List RawChunk :=
  match skipUnknown cs with
  | c :: rest => if c.id = tag then (some c.data, rest) else (none, c :: rest)
  | [] => (none, [])

/-- image data: `ALPH? VP8` or `VP8L`; returns (lossless, w, h, alpha bit, ALPH payload, bitstream, rest) -/
def takeImage (cs : List RawChunk) :
    Except String (Bool × Nat × Nat × Bool × Option Bytes × Bytes × List RawChunk) :=
  let (alph, cs) := takeOpt tagALPH cs
  match skipUnknown cs with
  | [] => .error "image-missing"
  | c :: rest =>
    if c.id = tagVP8 then
      match vp8Header c.data with
      | some (w, h) => .ok (false, w, h, false, alph, c.data, rest)
      | none => .error "vp8-header"
    else if c.id = tagVP8L then
      if alph.isSome then .error "alph-with-vp8l"
      else match vp8lHeader c.data with
        | some (w, h, a) => .ok (true, w, h, a, none, c.data, rest)
        | none => .error "vp8l-header"
    else .error "image-missing"

/-- one ANMF payload -/
def frameOf (cw ch : Nat) (p : Bytes) : Except String FrameLayout :=
  if p.length < 16 then .error "anmf-short"
  else do
    let subs ← splitChunks (p.length + 1) (p.drop 16)
    let (lossless, w, h, _, alph, bs, rest) ← takeImage subs
    if skipUnknown rest ≠ [] then .error "anmf-extra-image-chunk"
    else
      let ox := 2 * le24 p 0
      let oy := 2 * le24 p 3
      let fw := 1 + le24 p 6
      let fh := 1 + le24 p 9
      let bits := byteAt p 15
      if bits / 4 ≠ 0 then .error "anmf-reserved-bits"
      else if fw ≠ w ∨ fh ≠ h then .error "anmf-size-mismatch"
      else if ox + fw > cw ∨ oy + fh > ch then .error "anmf-outside-canvas"
      else .ok { offsetX := ox, offsetY := oy, width := fw, height := fh, duration := le24 p 12,
                 blendNone := bits / 2 % 2 = 1, disposeBG := bits % 2 = 1,
                 lossless := lossless, alpha := alph, bitstream := bs }

/-- ANMF* (unknown chunks tolerated in between) -/
def takeFrames (cw ch : Nat) : List RawChunk → Except String (List FrameLayout × List RawChunk)
  | [] => .ok ([], [])
  | c :: cs =>
    if c.id = tagANMF then do
      let f ← frameOf cw ch c.data
      let (fs, rest) ← takeFrames cw ch cs
      pure (f :: fs, rest)
    else if isKnown c.id then .ok ([], c :: cs)
    else takeFrames cw ch cs

def frameHasAlpha (f : FrameLayout) : Bool :=
  f.alpha.isSome || (f.lossless && match vp8lHeader f.bitstream with
                                   | some (_, _, a) => a
                                   | none => false)

/-- the frames of an extended file: `ANMF*` after an `ANIM` chunk, one image otherwise -/
def framesOf (cw ch : Nat) (anim : Option Bytes) (cs : List RawChunk) :
    Except String (List FrameLayout × List RawChunk) :=
  match anim with
  | some a =>
    if a.length ≠ 6 then .error "anim-size"
    else do
      let (fs, rest) ← takeFrames cw ch cs
      if fs.length = 0 then .error "anim-without-frames" else pure (fs, rest)
  | none => do
    let (lossless, w, h, _, alph, bs, rest) ← takeImage cs
    if w > cw ∨ h > ch then .error "image-outside-canvas"
    else pure ([{ width := w, height := h, lossless := lossless, alpha := alph,
                  bitstream := bs : FrameLayout }], rest)

/-- the chunks after `VP8X`, checked against the announced canvas and flags -/
def extendedBody (cw ch : Nat) (fAnim fXMP fEXIF fAlpha fICC : Bool) (cs : List RawChunk) :
    Except String Layout :=
  let icc := (takeOpt tagICCP cs).1
  let cs := (takeOpt tagICCP cs).2
  let anim := (takeOpt tagANIM cs).1
  let cs := (takeOpt tagANIM cs).2
  do
    let fr ← framesOf cw ch anim cs
    let frames := fr.1
    let cs := fr.2
    let exif := (takeOpt tagEXIF cs).1
    let cs := (takeOpt tagEXIF cs).2
    let xmp := (takeOpt tagXMP cs).1
    let cs := (takeOpt tagXMP cs).2
    if skipUnknown cs ≠ [] then .error "chunk-order"
    else if fAnim ≠ anim.isSome then .error "flag-animation"
    else if fICC ≠ icc.isSome then .error "flag-icc"
    else if fEXIF ≠ exif.isSome then .error "flag-exif"
    else if fXMP ≠ xmp.isSome then .error "flag-xmp"
    else if fAlpha ≠ frames.any frameHasAlpha then .error "flag-alpha"
    else
      pure { extended := true, canvasW := cw, canvasH := ch, hasAlpha := fAlpha,
             animated := fAnim,
             loopCount := match anim with | some a => le16 a 4 | none => 0
             bgColor := match anim with | some a => le32 a 0 | none => 0
             icc := icc, exif := exif, xmp := xmp, frames := frames }

def extended (vp8x : Bytes) (cs : List RawChunk) : Except String Layout :=
  if vp8x.length ≠ 10 then .error "vp8x-size"
  else
    let flags := byteAt vp8x 0
    if flags % 2 ≠ 0 ∨ flags / 64 ≠ 0 then .error "vp8x-reserved-bits"
    else if byteAt vp8x 1 ≠ 0 ∨ byteAt vp8x 2 ≠ 0 ∨ byteAt vp8x 3 ≠ 0 then .error "vp8x-reserved-bytes"
    else
      let cw := 1 + le24 vp8x 4
      let ch := 1 + le24 vp8x 7
      if cw * ch ≥ 4294967296 then .error "canvas-area"
      else
        extendedBody cw ch (flags / 2 % 2 = 1) (flags / 4 % 2 = 1) (flags / 8 % 2 = 1) (flags / 16 % 2 = 1)
          (flags / 32 % 2 = 1) cs

/-- the layout described by the top-level chunk sequence -/
def layoutOf : List RawChunk → Except String Layout
  | [] => .error "no-chunks"
  | c :: rest =>
    if c.id = tagVP8X then extended c.data rest
    else if c.id = tagVP8 then
      if rest ≠ [] then .error "simple-extra-chunks"
      else match vp8Header c.data with
        | some (w, h) => .ok { extended := false, canvasW := w, canvasH := h, hasAlpha := false,
                               animated := false,
                               frames := [{ width := w, height := h, lossless := false,
                                            alpha := none, bitstream := c.data }] }
        | none => .error "vp8-header"
    else if c.id = tagVP8L then
      if rest ≠ [] then .error "simple-extra-chunks"
      else match vp8lHeader c.data with
        | some (w, h, a) => .ok { extended := false, canvasW := w, canvasH := h, hasAlpha := a,
                                  animated := false,
                                  frames := [{ width := w, height := h, lossless := true,
                                               alpha := none, bitstream := c.data }] }
        | none => .error "vp8l-header"
    else .error "first-chunk"

def wellFormed (b : Bytes) : Except String Layout :=
  if b.length < 12 then .error "riff-header-truncated"
  else if le32 b 0 ≠ tagRIFF then .error "riff-tag"
  else if le32 b 8 ≠ tagWEBP then .error "webp-tag"
  else if le32 b 4 + 8 ≠ b.length then .error "riff-size"
  else if le32 b 4 % 2 ≠ 0 then .error "riff-size-odd"
  else splitChunks (b.length + 1) (b.drop 12) >>= layoutOf

end Webp.Spec.Riff
