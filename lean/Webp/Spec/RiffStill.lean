import Webp.Go.Basic
/-
  Spec model: well-formedness walker for *still* RIFF/WebP files, written from the container
  specification ("WebP Container Specification", RFC 9649 §2) — independent of
  /repo/internal/container and /repo/mux (it shares only the byte helpers of `Webp.Go.Basic`).

  A still file is well formed when

  * it starts with `RIFF` <size> `WEBP`, and <size> = file length − 8 (no trailing bytes, no
    truncation);
  * the rest is a sequence of chunks `fourcc size payload [pad]`; an odd-sized payload is
    followed by exactly one pad byte, which is 0; nothing is left over;
  * the chunk sequence is either a single `VP8 ` / `VP8L` chunk (simple layout) or
    `VP8X [ICCP] [ALPH] (VP8 |VP8L) [EXIF] [XMP ]` (extended layout); `ALPH` only before `VP8 `;
  * the VP8X payload has 10 bytes; reserved flag bits (0, 6, 7), the animation bit and the three
    reserved bytes are zero; the ICC / EXIF / XMP flags are set exactly when the chunk is
    present; the alpha flag is set exactly when an `ALPH` chunk is present or the VP8L header has
    `alpha_is_used`;
  * the image chunk starts with a parsable bitstream header (VP8: key frame, start code, non-zero
    14-bit dimensions; VP8L: signature 0x2f, version 0) and — extended layout — the VP8X canvas
    equals the image size.

  `wellFormed` returns the `Layout` found.  (`Webp.Spec.Riff` — the general walker including
  animations — is written by another worker; this file covers what C02/C15 need for `Encode`.)
-/
namespace Webp.Spec.RiffStill
open Webp.Go

inductive Why where
  | short | magic | riffSize | chunkHeader | chunkSize | padNonZero | leftover
  | order | vp8xSize | reserved | flagMismatch | alphWithVP8L | bitstream | canvas
  deriving Repr, DecidableEq, Inhabited

def Why.toString : Why → String
  | .short => "short" | .magic => "magic" | .riffSize => "riffSize" | .chunkHeader => "chunkHeader"
  | .chunkSize => "chunkSize" | .padNonZero => "padNonZero" | .leftover => "leftover"
  | .order => "order" | .vp8xSize => "vp8xSize" | .reserved => "reserved"
  | .flagMismatch => "flagMismatch" | .alphWithVP8L => "alphWithVP8L" | .bitstream => "bitstream"
  | .canvas => "canvas"

structure Layout where
  /-- VP8X layout (false: a single image chunk) -/
  extended : Bool
  /-- image chunk is `VP8L` -/
  lossless : Bool
  image : Bytes
  alpha : Option Bytes
  icc : Option Bytes
  exif : Option Bytes
  xmp : Option Bytes
  /-- the VP8X flags byte (0 in the simple layout) -/
  flags : Nat
  /-- canvas (VP8X) — in the simple layout the image size -/
  canvasW : Nat
  canvasH : Nat
  /-- size and alpha bit from the bitstream header -/
  imageW : Nat
  imageH : Nat
  vp8lAlpha : Bool
  deriving Repr, DecidableEq, Inhabited

def tag (s : String) : Bytes := s.toUTF8.toList

/-- split a chunk sequence; fuel = number of bytes (every chunk consumes ≥ 8) -/
def splitChunks : Nat → Bytes → Except Why (List (Bytes × Bytes))
  | 0, b => if b.isEmpty then .ok [] else .error .leftover
  | fuel + 1, b =>
    if b.isEmpty then .ok []
    else if b.length < 8 then .error .chunkHeader
    else
      let size := le32 b 4
      let padded := size + size % 2
      if 8 + padded > b.length then .error .chunkSize
      else if size % 2 = 1 ∧ byteAt b (8 + size) ≠ 0 then .error .padNonZero
      else
        match splitChunks fuel (b.drop (8 + padded)) with
        | .ok rest => .ok ((b.take 4, (b.drop 8).take size) :: rest)
        | .error e => .error e

/-- VP8 key-frame header (RFC 6386 §9.1): (width, height) -/
def vp8Dims (d : Bytes) : Option (Nat × Nat) :=
  if d.length < 10 then none
  else if byteAt d 0 % 2 ≠ 0 then none                        -- not a key frame
  else if byteAt d 3 ≠ 0x9d ∨ byteAt d 4 ≠ 0x01 ∨ byteAt d 5 ≠ 0x2a then none
  else
    let w := le16 d 6 % 16384
    let h := le16 d 8 % 16384
    if w = 0 ∨ h = 0 then none else some (w, h)

/-- VP8L header (RFC 9649 §3.2): (width, height, alpha_is_used) -/
def vp8lDims (d : Bytes) : Option (Nat × Nat × Bool) :=
  if d.length < 5 then none
  else if byteAt d 0 ≠ 0x2f then none
  else
    let bits := le32 d 1
    if bits / 536870912 ≠ 0 then none                            -- version
    else some (bits % 16384 + 1, bits / 16384 % 16384 + 1, decide (bits / 268435456 % 2 = 1))

/-- bitstream header of an image chunk: (lossless, w, h, vp8lAlpha) -/
def imageInfo (cc d : Bytes) : Option (Bool × Nat × Nat × Bool) :=
  if cc = tag "VP8 " then (vp8Dims d).map fun (w, h) => (false, w, h, false)
  else if cc = tag "VP8L" then (vp8lDims d).map fun (w, h, a) => (true, w, h, a)
  else none

/-- take an optional chunk with the given FourCC off the front -/
def optChunk (cc : Bytes) : List (Bytes × Bytes) → Option Bytes × List (Bytes × Bytes)
  | (c, d) :: rest => if c = cc then (some d, rest) else (none, (c, d) :: rest)
  | [] => (none, [])

/-- the extended layout behind the VP8X chunk -/
def extendedLayout (vp8x : Bytes) (cs : List (Bytes × Bytes)) : Except Why Layout :=
  if vp8x.length ≠ 10 then .error .vp8xSize
  else
    let flags := byteAt vp8x 0
    if flags % 2 ≠ 0 ∨ flags / 2 % 2 ≠ 0 ∨ flags / 64 ≠ 0 ∨
        byteAt vp8x 1 ≠ 0 ∨ byteAt vp8x 2 ≠ 0 ∨ byteAt vp8x 3 ≠ 0 then .error .reserved
    else
      let (icc, cs) := optChunk (tag "ICCP") cs
      let (alpha, cs) := optChunk (tag "ALPH") cs
      match cs with
      | [] => .error .order
      | (cc, img) :: cs =>
        match imageInfo cc img with
        | none => if cc = tag "VP8 " ∨ cc = tag "VP8L" then .error .bitstream else .error .order
        | some (lossless, w, h, a) =>
          let (exif, cs) := optChunk (tag "EXIF") cs
          let (xmp, cs) := optChunk (tag "XMP ") cs
          if cs ≠ [] then .error .order
          else if lossless && alpha.isSome then .error .alphWithVP8L
          else if (decide (flags / 32 % 2 = 1) != icc.isSome) || (decide (flags / 8 % 2 = 1) != exif.isSome) ||
              (decide (flags / 4 % 2 = 1) != xmp.isSome) ||
              (decide (flags / 16 % 2 = 1) != (alpha.isSome || a)) then .error .flagMismatch
          else
            let cw := le24 vp8x 4 + 1
            let ch := le24 vp8x 7 + 1
            if cw ≠ w ∨ ch ≠ h then .error .canvas
            else .ok { extended := true, lossless, image := img, alpha, icc, exif, xmp, flags,
                       canvasW := cw, canvasH := ch, imageW := w, imageH := h, vp8lAlpha := a }

def layoutOf : List (Bytes × Bytes) → Except Why Layout
  | [] => .error .order
  | (cc, d) :: cs =>
    if cc = tag "VP8X" then extendedLayout d cs
    else
      match imageInfo cc d with
      | none => if cc = tag "VP8 " ∨ cc = tag "VP8L" then .error .bitstream else .error .order
      | some (lossless, w, h, a) =>
        if cs ≠ [] then .error .order
        else .ok { extended := false, lossless, image := d, alpha := none, icc := none,
                   exif := none, xmp := none, flags := 0, canvasW := w, canvasH := h,
                   imageW := w, imageH := h, vp8lAlpha := a }

/-- the walker -/
def wellFormed (file : Bytes) : Except Why Layout :=
  if file.length < 12 then .error .short
  else if file.take 4 ≠ tag "RIFF" ∨ (file.drop 8).take 4 ≠ tag "WEBP" then .error .magic
  else if le32 file 4 + 8 ≠ file.length then .error .riffSize
  else
    match splitChunks (file.length) (file.drop 12) with
    | .error e => .error e
    | .ok cs => layoutOf cs

end Webp.Spec.RiffStill
