import Webp.Spec.VP8.Tables
import Webp.Spec.VP8.Bool
import Webp.Spec.VP8.Header
import Webp.Spec.VP8.Macroblock
import Webp.Spec.VP8.Recon
import Webp.Spec.VP8.LoopFilter
import Webp.Spec.VP8.Decode
import Webp.Spec.Upsample
import Webp.Spec.VP8.Examples
/-!
# Spec model of the VP8 key-frame decoder (RFC 6386) and of libwebp's 4:2:0 → RGB conversion

`Webp.Spec.VP8.decode : ByteArray → Res Err Frame` is the reference for "the Y, Cb and Cr samples
RFC 6386 defines" (property C04; C06 uses `decodeUnfiltered`).  It follows the order and shape of
the RFC — headers, then every macroblock in raster order (modes from the first partition, tokens
from the row's token partition, prediction + residue), then the loop filter over the whole frame,
then cropping — with plain formulas: no fast paths, no clip tables, no delayed filtering.  It shares
no code with /repo, uses only core Lean and is total (every loop runs over a range fixed by the
header or has explicit fuel: tree walks ≤ 16 steps, renormalisation ≤ 8 shifts, ≤ 16 tokens).

Pieces (all exported for reuse by theorems):

* `Tables`      default / update coefficient probabilities, key-frame mode probabilities, dc/ac
                quantiser tables, zig-zag, bands, category extra-bit probabilities (generated from
                the Go source by a throw-away script; cross-checked at run time by op `vp8tables`)
* `Bool`        `Err`, `BoolDec` (`init`, `readBool`, `readLiteral`, `readSigned`, `readTree`), over-read flag
* `Header`      `parseFrameTag`, `SegmentHdr`, `FilterHdr`, `QuantHdr`, `FrameHdr`, `parseFrameHdr`, `partitionBounds`
* `Macroblock`  trees, `MBInfo`, `readMBHeader` (segment, skip, luma / sub-block / chroma modes with
                contexts), `readBlock` (token tree, bands, contexts, categories), `readResiduals`
* `Recon`       `Conv`, `dequantFactors`, `inverseWHT`, `inverseDCT`, `Plane` (with the 127/129 borders),
                `predictBlock`, `predictSubblock`, `subblockEdge`, `reconMB`
* `LoopFilter`  `filterLevel`, `filterParams`, `commonAdjust`, `filterEdge` (simple, macroblock, sub-block),
                `filterMBPlane`, `filterInner`, `loopFilter`
* `Decode`      `Frame`, `Decoded`, `decodeCore`, `decode`, `decodeUnfiltered`, `decodeInfo`, `decodeWith`
* `Upsample`    (namespace `Webp.Spec.Upsample`) `fancy`, `yuvToR/G/B`, `toNRGBA`, `Packed.*`

## Points settled

No copy of the RFC text is available in the sandbox; the sources are the RFC's algorithm and
reference decoder as known, and libwebp's conventions as carried by the Go port
(/repo/internal/lossy/decode*.go, /repo/internal/dsp/*.go, /repo/internal/bitio/reader_bool.go).

Frame level
1.  Only displayable key frames are frames here: an inter frame, `version > 3`, `show_frame = 0`
    are errors (the container carries one displayed key frame; the Go decoder rejects the same).
    The version does not influence key-frame decoding; the two scale fields are ignored.
2.  `color_space` and `clamping_type` are read and ignored: reconstruction always clamps to 0..255
    (every known decoder does; `clamping_type = 1` is only a promise by the encoder).
3.  The first partition must fit in the data; the `numParts − 1` three-byte sizes and the partitions
    they describe must fit; the last partition takes what is left and may be empty.  Bytes after
    the last partition cannot exist (it extends to the end of the data).
4.  **Over-reading.**  Beyond the end of a partition the boolean decoder reads zero bits, as the
    RFC's reference decoder does.  A frame whose decoding takes a decision whose 8-bit comparison
    window is not wholly inside the partition is *rejected* (`Err.truncated`) — the calibration of
    "valid frame" to libwebp / the Go port, whose `eof` flag rises under exactly that condition and
    turns into "premature end of data".  A partition that is never read from may have any length,
    including 0.
5.  A partition that begins with the byte 0xff cannot have been written by the encoder of §7.3
    (`BoolDec.startsWithFF`).  The model decodes it by the RFC's rules; suite `vp8` does not count a
    disagreement on such byte strings (they are not valid frames).

Persistent state at a key frame decoded on its own
6.  Segmentation defaults: disabled; values 0 in **delta** mode; tree probabilities 255.  A segment
    value or tree probability whose flag is 0 is 0 resp. 255.  Without `update_mb_segmentation_map`
    every macroblock is in segment 0.  Loop-filter deltas default to 0 and keep their value when
    their flag is 0.  Coefficient probabilities start from the defaults; `refresh_entropy_probs`
    is read and has no effect on a single frame.

Modes and tokens
7.  Mode numbering is the RFC's (`B_LD_PRED` 4, `B_RD_PRED` 5, `B_VR_PRED` 6); libwebp numbers the
    sub-block modes differently, `Tables.kfBModeProbs` is re-indexed accordingly.
8.  Contexts for sub-block modes: the implied modes of a non-`B_PRED` neighbour are
    DC→B_DC, V→B_VE, H→B_HE, TM→B_TM; outside the frame B_DC.
9.  The "has coefficients" flag of a block — used as context for its neighbours and for the
    loop filter — is `eob > first`: at least one token was read before the end of block, whatever
    the values (a block of 16 `DCT_0` tokens counts).  That is what the reference decoders compute.
10. After a `DCT_0` token the next token is read without the end-of-block branch.  The context for
    the following position is 0 / 1 / 2 for magnitude 0 / 1 / > 1.  Category 6 has 11 extra bits
    (values up to 2114 decode).
11. A macroblock with `mb_skip_coeff = 1` reads no tokens and clears the Y, U, V contexts; the Y2
    context is cleared only if the macroblock has a Y2 block.  With `mb_no_coeff_skip = 0` no
    macroblock is skipped.
12. Dequantised coefficients (`value × factor`) and the WHT outputs are stored as 16-bit signed
    integers (two's-complement wrap); everything inside the two inverse transforms is exact
    integer arithmetic.  The six factors look the tables up at `clamp(q + delta, 0, 127)` where `q`
    itself (frame index, or segment value, or their sum) is *not* clamped first.

Prediction
13. Row −1 of every plane is 127 — including its two ends, i.e. the above-left sample of the top-left
    macroblock and the above-right samples of the top row; column −1 is 129 for every row ≥ 0, so the
    above-left sample of a macroblock in column 0 below the first row is 129.
14. `DC_PRED` of a 16×16 / 8×8 block averages the edges inside the frame (shift 5/4 with both, 4/3 with
    one, 128 with none).  `B_DC_PRED` and all other modes use the 127/129 borders as they are.
15. Above-right samples of sub-blocks: the sub-blocks in the right column of a macroblock (all four
    rows) take them from the bottom row of the macroblock above-right; for the last macroblock of
    a row that row does not exist and the last sample of the row above the macroblock is repeated
    four times (127 in the first macroblock row).  Other sub-blocks take them from the sub-block
    above-right inside the same macroblock, or from the macroblock above.
16. Prediction reads the reconstruction *before* loop filtering; the filter runs afterwards on
    the whole frame.

Loop filter
17. A frame-level `loop_filter_level` of 0 turns the filter off whatever the segment values say.
18. Macroblock level: frame level, replaced by / added to the segment value, **clamped to 0..63**,
    plus `ref_lf_delta[0]` and (for `B_PRED`) `mode_lf_delta[0]`, clamped to 0..63.  Level 0 = the
    macroblock is not filtered.  Interior limit: level, halved (sharpness 1–4) or quartered (5–7),
    at most `9 − sharpness`, at least 1.  hev threshold: 2 from level 40, 1 from level 15.
19. Order per macroblock: left edge, inner vertical edges, top edge, inner horizontal edges;
    macroblocks in raster order.  Inner edges are skipped when the macroblock is not `B_PRED` and
    has no coefficients in the sense of point 9.  The simple filter touches luma only.

Conversion (`Webp.Spec.Upsample`)
20. Fancy upsampling = weights 9/3/3/1 with `+8 >> 4`, far samples mirrored at the picture edges
    (chroma dimensions `⌈w/2⌉ × ⌈h/2⌉`); libwebp's two-step form and its packed 32-bit form give the
    same numbers.  YUV→RGB = libwebp's 14-bit fixed point (19077, 26149, 6419, 13320, 33050; offsets
    −14234, +8708, −17685; `>> 6`, clip).  Alpha bytes are copied; RGB is not premultiplied.

## Where the Go decoder differs from this model (found by suite `vp8`)

On every Go-encoder output (all option combinations tried), on the lossy files of /repo/testdata
and on all synthetic frames outside the classes below, planes and accept/reject agree, as do the
NRGBA pixels of lossy+alpha files.  Classes of disagreement (`Conv` names the reading that
reproduces the Go output exactly):

* **Sub-block edges of macroblocks without coefficients** (`Conv.innerSkipByFlagOnly`).  `decodeMB`
  (/repo/internal/lossy/decode_mb.go) ignores what `parseResiduals` found (libwebp:
  `skip = ParseResiduals(…)`), so a macroblock that is not flagged `mb_skip_coeff` but has no
  coefficients gets its inner edges filtered.  Invisible on Go-encoder outputs (that encoder flags
  every such macroblock) but reached by conformant streams — libwebp's encoder stops writing
  skip flags when fewer than ~2 % of the macroblocks are skippable.
* **Segmentation enabled without segment data** (`Conv.segDefaultAbsolute`): libwebp and the Go port
  initialise `absolute_delta = 1`, so all segments get quantiser index 0 and filter level 0; the
  RFC's decoder state at a key frame is delta mode with zero deltas (= the frame's values).
* **Filter level not clamped between the segment adjustment and the deltas**
  (`Conv.lfClampSegLevel = false`), inherited from libwebp; observable when `level + segment value`
  leaves 0..63 (or an absolute segment value is negative) and a ref/mode delta applies.
* **An empty token partition that is used by a macroblock row but never read** (all macroblocks
  of its rows are skipped): accepted here, rejected by Go ("premature end of data": the reader
  raises `eof` when it is created over zero bytes).
* **Coefficients beyond 12 bits** (`Conv.idctSimd16`): on amd64 the SSE2/AVX2 inverse DCT/WHT work in
  16-bit lanes and wrap where the exact transforms (and the pure-Go kernels) do not.  Only
  reachable with dequantised coefficients outside ±2047, which no forward DCT of 8-bit samples
  produces; libwebp's SIMD code has the same property.
-/
