/-
  Go semantics kit (core Lean only — no Mathlib, so that the driver links natively).

  * `Res ε α`  : outcome of a Go function: `ok a`, `err e`, `panic` (run-time panic:
                 slice bounds, index out of range, nil deref) or `hang` (a loop ran out
                 of the fuel the model gives it; a theorem `≠ hang` is a termination
                 bound in the size of the input).
  * `slice`    : `l[a:b]` with Go's bounds check made explicit.  The model is *stricter*
                 than Go (`b ≤ len`, Go only needs `b ≤ cap`), so `model ≠ panic`
                 implies that the Go code never reads past `len` either.
  * LE16/24/32 readers and writers.
-/
namespace Webp.Go

abbrev Bytes := List UInt8

inductive Res (ε α : Type) where
  | ok (a : α)
  | err (e : ε)
  | panic
  | hang
  deriving Repr, DecidableEq, Inhabited

namespace Res
variable {ε α β : Type}

@[inline] def bind (x : Res ε α) (f : α → Res ε β) : Res ε β :=
  match x with
  | ok a => f a
  | err e => err e
  | panic => panic
  | hang => hang

instance : Monad (Res ε) where
  pure := ok
  bind := bind

/-- The result is a normal Go return (value or error), i.e. neither a panic nor a hang. -/
def Safe : Res ε α → Prop
  | ok _ => True
  | err _ => True
  | panic => False
  | hang => False

instance (r : Res ε α) : Decidable r.Safe := by
  cases r <;> simp [Safe] <;> infer_instance

def isOk : Res ε α → Bool
  | ok _ => true
  | _ => false

def toOption : Res ε α → Option α
  | ok a => some a
  | _ => none

@[simp] theorem pure_eq (a : α) : (pure a : Res ε α) = ok a := rfl
@[simp] theorem bind_ok (a : α) (f : α → Res ε β) : (ok a >>= f) = f a := rfl
@[simp] theorem bind_err (e : ε) (f : α → Res ε β) : ((err e : Res ε α) >>= f) = err e := rfl
@[simp] theorem bind_panic (f : α → Res ε β) : ((panic : Res ε α) >>= f) = panic := rfl
@[simp] theorem bind_hang (f : α → Res ε β) : ((hang : Res ε α) >>= f) = hang := rfl
@[simp] theorem safe_ok (a : α) : (ok a : Res ε α).Safe := trivial
@[simp] theorem safe_err (e : ε) : (err e : Res ε α).Safe := trivial
@[simp] theorem not_safe_panic : ¬ (panic : Res ε α).Safe := id
@[simp] theorem not_safe_hang : ¬ (hang : Res ε α).Safe := id

theorem safe_bind {x : Res ε α} {f : α → Res ε β}
    (hx : x.Safe) (hf : ∀ a, x = ok a → (f a).Safe) : (x >>= f).Safe := by
  cases x with
  | ok a => exact hf a rfl
  | err e => trivial
  | panic => exact absurd hx id
  | hang => exact absurd hx id

end Res

/-- Go `l[a:b]` (strict: `b ≤ len l`). -/
@[inline] def slice {ε} (l : Bytes) (a b : Nat) : Res ε Bytes :=
  if a ≤ b ∧ b ≤ l.length then .ok ((l.take b).drop a) else .panic

/-- Go `l[a:]`. -/
@[inline] def sliceFrom {ε} (l : Bytes) (a : Nat) : Res ε Bytes :=
  if a ≤ l.length then .ok (l.drop a) else .panic

/-- Go `l[i]`. -/
@[inline] def idx {ε} (l : Bytes) (i : Nat) : Res ε UInt8 :=
  match l[i]? with
  | some b => .ok b
  | none => .panic

/-- byte `i` as a `Nat`, `0` when out of range (used only under a length guard). -/
@[inline] def byteAt (l : Bytes) (i : Nat) : Nat := (l.getD i 0).toNat

def le16 (l : Bytes) (o : Nat := 0) : Nat := byteAt l o + byteAt l (o+1) * 256
def le24 (l : Bytes) (o : Nat := 0) : Nat := byteAt l o + byteAt l (o+1) * 256 + byteAt l (o+2) * 65536
def le32 (l : Bytes) (o : Nat := 0) : Nat :=
  byteAt l o + byteAt l (o+1) * 256 + byteAt l (o+2) * 65536 + byteAt l (o+3) * 16777216

def putLE16 (v : Nat) : Bytes := [UInt8.ofNat (v % 256), UInt8.ofNat (v / 256 % 256)]
def putLE24 (v : Nat) : Bytes :=
  [UInt8.ofNat (v % 256), UInt8.ofNat (v / 256 % 256), UInt8.ofNat (v / 65536 % 256)]
def putLE32 (v : Nat) : Bytes :=
  [UInt8.ofNat (v % 256), UInt8.ofNat (v / 256 % 256), UInt8.ofNat (v / 65536 % 256),
   UInt8.ofNat (v / 16777216 % 256)]

/-- FourCC of an ASCII tag as the little-endian `uint32` Go uses. -/
def fourCC (s : String) : Nat := le32 (s.toUTF8.toList)

def tagBytes (s : String) : Bytes := s.toUTF8.toList

/-! hex helpers for the line protocol -/
def hexDigit (n : Nat) : Char :=
  if n < 10 then Char.ofNat (48 + n) else Char.ofNat (87 + n)

def toHex (l : Bytes) : String :=
  String.ofList (l.foldr (fun b acc => hexDigit (b.toNat / 16) :: hexDigit (b.toNat % 16) :: acc) [])

def hexVal (c : Char) : Option Nat :=
  if '0' ≤ c ∧ c ≤ '9' then some (c.toNat - 48)
  else if 'a' ≤ c ∧ c ≤ 'f' then some (c.toNat - 87)
  else if 'A' ≤ c ∧ c ≤ 'F' then some (c.toNat - 55)
  else none

def ofHexChars : List Char → Option Bytes
  | [] => some []
  | [_] => none
  | a :: b :: rest => do
    let x ← hexVal a
    let y ← hexVal b
    let r ← ofHexChars rest
    pure (UInt8.ofNat (x * 16 + y) :: r)

def ofHex (s : String) : Option Bytes := ofHexChars s.toList

end Webp.Go
