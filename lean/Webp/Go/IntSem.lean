import Webp.Go.Basic
/-
  Go integer semantics for the *translated* functions of `Generated/Funcs.lean`
  (core Lean only — no Mathlib).

  ONE encoding, applied mechanically by /verif/harness/cmd/extract/funcs.go:

  * every Go integer value is a Lean `Int`;
  * Go `int`, `int64`, `uint`, `uint64` … see the table:

        Go type            Lean       normalisation after + - * << unary- (and / for signed), conversions
        int, int64         Int        none — 64-bit overflow is NOT modelled (see the header of Funcs.lean
                                      for the per-function input range on which no intermediate leaves
                                      [-2^63, 2^63))
        uint, uint64       Int        `wrapU 64`
        uint8/16/32        Int        `wrapU 8/16/32`
        int8/16/32         Int        `wrapS 8/16/32`
        bool               Bool

    invariant: an expression of a sized type always denotes an `Int` inside the range of the type
    (parameters of sized types are assumed in range: the tie theorems instantiate them with
    `↑(x.toNat)` for `x : UInt32` etc. or carry a range hypothesis).
  * `&`, `|`, `^`, `&^` are the infinite-precision two's-complement operations `band`, `bor`,
    `bxor`, `bandNot` on `Int` (definition by cases on the sign, as in Mathlib's `Int.land`): on
    in-range operands of a sized type the result is in range, so no wrap follows them;
  * `x >> s` is `shr x s` = arithmetic shift = floor division by `2^s` (sign fill for negative
    values, `0`/`-1` for `s ≥ width` automatically); `x << s` is `shl x s = x * 2^s` followed by the
    wrap of the type (so `s ≥ width` gives 0).  A shift count of a *signed* non-constant type goes
    through `chkShift`, which is Go's run-time panic for a negative count;
  * `/` and `%` are `Int.tdiv` / `Int.tmod` (truncate toward zero, as Go does); a divisor that is
    not a non-zero constant goes through `chkDiv` (panic on 0);
  * `xs[i]` is `idxI xs i` (panic unless `0 ≤ i < len`);
  * conversions `T(x)` are the wrap of `T` (identity for `int`/`int64` from a narrower type;
    `wrapS 64` from `uint`/`uint64`);
  * slices that are written are updated functionally (`setI`, `sliceI`, `spliceI`), loops with
    `return`/`break` use `Step`/`Exit` (`forRangeRet`, `whileFuelRet`), `encoding/binary`'s
    little-endian accessors are `leU16`/`leU32`/`lePutU16`/`lePutU32`;
  * a function that can reach one of the partial operations, or a `for cond {…}` loop without a
    syntactically evident trip count, returns `R α = Res Unit α`: `.panic` for a Go run-time
    panic, `.hang` when the loop fuel written next to the function in the whitelist is exhausted.
-/
namespace Webp.Go.IntSem
open Webp.Go

/-- result of a translated Go function that can panic (or whose loop is fuel-bounded) -/
abbrev R (α : Type) := Res Unit α

/-! ## wraps -/

/-- value of the low `n` bits read as unsigned (`uintN(x)`) -/
def wrapU (n : Nat) (x : Int) : Int := x % (2 : Int) ^ n

/-- value of the low `n` bits read as two's-complement signed (`intN(x)`), `n ≥ 1` -/
def wrapS (n : Nat) (x : Int) : Int :=
  let r := x % (2 : Int) ^ n
  if r < (2 : Int) ^ (n - 1) then r else r - (2 : Int) ^ n

/-! ## bitwise operations (infinite-precision two's complement) -/

/-- `m &^ n` on naturals (`m & (m ^ n)`: the bits of `m` that are not in `n`) -/
def natLdiff (m n : Nat) : Nat := m &&& (m ^^^ n)

/-- Go `a & b` -/
def band : Int → Int → Int
  | .ofNat m, .ofNat n => .ofNat (m &&& n)
  | .ofNat m, .negSucc n => .ofNat (natLdiff m n)
  | .negSucc m, .ofNat n => .ofNat (natLdiff n m)
  | .negSucc m, .negSucc n => .negSucc (m ||| n)

/-- Go `a | b` -/
def bor : Int → Int → Int
  | .ofNat m, .ofNat n => .ofNat (m ||| n)
  | .ofNat m, .negSucc n => .negSucc (natLdiff n m)
  | .negSucc m, .ofNat n => .negSucc (natLdiff m n)
  | .negSucc m, .negSucc n => .negSucc (m &&& n)

/-- Go `a ^ b` -/
def bxor : Int → Int → Int
  | .ofNat m, .ofNat n => .ofNat (m ^^^ n)
  | .ofNat m, .negSucc n => .negSucc (m ^^^ n)
  | .negSucc m, .ofNat n => .negSucc (m ^^^ n)
  | .negSucc m, .negSucc n => .ofNat (m ^^^ n)

/-- Go unary `^a` (before the wrap of the type) -/
def bnot (a : Int) : Int := -a - 1

/-- Go `a &^ b` -/
def bandNot (a b : Int) : Int := band a (bnot b)

/-- Go `a << s` before the wrap of the type (`s ≥ 0`) -/
def shl (a s : Int) : Int := a * (2 : Int) ^ s.toNat

/-- Go `a >> s` (`s ≥ 0`): arithmetic shift -/
def shr (a s : Int) : Int := a >>> s.toNat

/-! ## partial operations -/

/-- shift count of a signed type: Go panics when it is negative -/
def chkShift (s : Int) : R Int := if s < 0 then .panic else .ok s

/-- divisor: Go panics when it is zero -/
def chkDiv (d : Int) : R Int := if d = 0 then .panic else .ok d

/-- `xs[i]` -/
def idxI (xs : List Int) (i : Int) : R Int :=
  if i < 0 then .panic
  else match xs[i.toNat]? with
    | some v => .ok v
    | none => .panic

/-- `len(xs)` -/
def lenI (xs : List Int) : Int := (xs.length : Int)

/-! ## builtins -/

def minI (a b : Int) : Int := if a ≤ b then a else b
def maxI (a b : Int) : Int := if a ≥ b then a else b

/-- `bits.Len32(x)` / `bits.Len64` / `bits.Len` for an in-range unsigned value: number of bits
    needed to represent `x` (0 for 0) -/
def bitsLen (x : Int) : Int := if x ≤ 0 then 0 else (Nat.log2 x.toNat : Int) + 1

/-- `bits.LeadingZeros32(x)` -/
def leadingZeros32 (x : Int) : Int := 32 - bitsLen x

/-- Go `b2i`-style conversion is not a builtin; `boolToInt` is used for nothing else -/
def boolToInt (b : Bool) : Int := if b then 1 else 0

/-! ## loops -/

/-- trip count of `for i := lo; i < hi; i += step` (`step > 0`) -/
def tripCount (lo hi step : Int) : Nat := ((hi - lo + step - 1) / step).toNat

/-- `for i := lo; i < hi; i += step { s = body i s }`; the body neither assigns `i` nor changes
    `hi` (checked syntactically by the translator) -/
def forRange {σ : Type} (lo hi step : Int) (s : σ) (body : Int → σ → σ) : σ :=
  (List.range (tripCount lo hi step)).foldl (fun s (k : Nat) => body (lo + step * (k : Int)) s) s

/-- the same with a body that can panic -/
def forRangeM {σ : Type} (lo hi step : Int) (s : σ) (body : Int → σ → R σ) : R σ :=
  (List.range (tripCount lo hi step)).foldl
    (fun (acc : R σ) (k : Nat) => acc.bind fun s => body (lo + step * (k : Int)) s) (.ok s)

/-- outcome of one iteration of a loop that contains `return` or `break` -/
inductive Step (ρ σ : Type) where
  | next (s : σ)
  | brk (s : σ)
  | ret (r : ρ)

/-- outcome of such a loop: the function returned from inside, or control falls out of the loop -/
inductive Exit (ρ σ : Type) where
  | ret (r : ρ)
  | fall (s : σ)

/-- continue with the next iteration unless the loop has already been left -/
def Step.andThen {ρ σ : Type} (acc : R (Step ρ σ)) (f : σ → R (Step ρ σ)) : R (Step ρ σ) :=
  acc.bind fun
    | .next s => f s
    | .brk s => .ok (.brk s)
    | .ret r => .ok (.ret r)

/-- how the loop was left -/
def Step.toExit {ρ σ : Type} : Step ρ σ → Exit ρ σ
  | .next s => .fall s
  | .brk s => .fall s
  | .ret r => .ret r

/-- `for i := lo; i < hi; i += step { … return r … break … }`: the first iteration that returns
    or breaks ends the loop -/
def forRangeRet {ρ σ : Type} (lo hi step : Int) (s : σ) (body : Int → σ → R (Step ρ σ)) : R (Exit ρ σ) :=
  ((List.range (tripCount lo hi step)).foldl
    (fun (acc : R (Step ρ σ)) (k : Nat) => Step.andThen acc (body (lo + step * (k : Int)))) (.ok (.next s))).bind
    fun st => .ok st.toExit

/-- `for cond(s) { s = body(s) }` with fuel: `.hang` when the fuel does not suffice -/
def whileFuel {σ : Type} : Nat → (σ → Bool) → (σ → R σ) → σ → R σ
  | 0, cond, _, s => if cond s then .hang else .ok s
  | fuel + 1, cond, body, s =>
    if cond s then (body s).bind (whileFuel fuel cond body) else .ok s

/-- `for cond(s) { … return … break … }` with fuel -/
def whileFuelRet {ρ σ : Type} : Nat → (σ → Bool) → (σ → R (Step ρ σ)) → σ → R (Exit ρ σ)
  | 0, cond, _, s => if cond s then .hang else .ok (.fall s)
  | fuel + 1, cond, body, s =>
    if cond s then (body s).bind fun
      | .next s => whileFuelRet fuel cond body s
      | .brk s => .ok (.fall s)
      | .ret r => .ok (.ret r)
    else .ok (.fall s)

/-! ## slices that are written: functional update -/

/-- `xs[i] = v` -/
def setI (xs : List Int) (i v : Int) : R (List Int) :=
  if i < 0 then .panic else if i.toNat < xs.length then .ok (xs.set i.toNat v) else .panic

/-- `xs[a:b]` (strict: `b ≤ len xs`; Go allows up to `cap`) -/
def sliceI (xs : List Int) (a b : Int) : R (List Int) :=
  if 0 ≤ a ∧ a ≤ b ∧ b ≤ lenI xs then .ok ((xs.take b.toNat).drop a.toNat) else .panic

/-- writing the (same-length) updated sub-slice `ys = xs[a:a+len ys]` back into `xs` -/
def spliceI (xs : List Int) (a : Int) (ys : List Int) : List Int :=
  xs.take a.toNat ++ ys ++ xs.drop (a.toNat + ys.length)

/-- the value of a package-initialisation computation (`d` if it panicked: then every access to
    the table panics, see the tie theorems) -/
def okOr {α : Type} (d : α) : R α → α
  | .ok a => a
  | _ => d

/-- `var t [n]T` -/
def zerosI (n : Nat) : List Int := List.replicate n 0

/-! ## encoding/binary.LittleEndian (mapped builtins; each starts with a bounds check, as in the
    standard library: `_ = b[1]` / `_ = b[3]`) -/

def leU16 (b : List Int) : R Int :=
  match b with
  | b0 :: b1 :: _ => .ok (bor b0 (shl b1 8))
  | _ => .panic

def leU32 (b : List Int) : R Int :=
  match b with
  | b0 :: b1 :: b2 :: b3 :: _ => .ok (bor (bor (bor b0 (shl b1 8)) (shl b2 16)) (shl b3 24))
  | _ => .panic

def lePutU16 (b : List Int) (v : Int) : R (List Int) :=
  match b with
  | _ :: _ :: r => .ok (wrapU 8 v :: wrapU 8 (shr v 8) :: r)
  | _ => .panic

def lePutU32 (b : List Int) (v : Int) : R (List Int) :=
  match b with
  | _ :: _ :: _ :: _ :: r =>
    .ok (wrapU 8 v :: wrapU 8 (shr v 8) :: wrapU 8 (shr v 16) :: wrapU 8 (shr v 24) :: r)
  | _ => .panic

end Webp.Go.IntSem
