import Webp.Go.Basic
/-  Canonical text forms shared by the Lean driver and the Go harness.  -/
namespace Webp.Go

def fnv1a (l : Bytes) : UInt64 :=
  l.foldl (fun h b => (h ^^^ b.toUInt64) * 1099511628211) 14695981039346656037

def fnv1aArr (l : ByteArray) : UInt64 :=
  l.foldl (fun h b => (h ^^^ b.toUInt64) * 1099511628211) 14695981039346656037

/-- `len:hash` digest of a byte string -/
def digest (l : Bytes) : String := s!"{l.length}:{(fnv1a l).toNat}"

def digestOpt : Option Bytes → String
  | none => "nil"
  | some l => digest l

def b2s (b : Bool) : String := if b then "1" else "0"

def joinWith (sep : String) (l : List String) : String := sep.intercalate l

/-- hex string → ByteArray (fast path for large inputs) -/
def hexToByteArray (s : String) : Option ByteArray := Id.run do
  let cs := s.toUTF8
  if cs.size % 2 ≠ 0 then return none
  let mut out := ByteArray.emptyWithCapacity (cs.size / 2)
  let hv (c : UInt8) : Option UInt8 :=
    if 48 ≤ c ∧ c ≤ 57 then some (c - 48)
    else if 97 ≤ c ∧ c ≤ 102 then some (c - 87)
    else if 65 ≤ c ∧ c ≤ 70 then some (c - 55)
    else none
  for i in [0:cs.size / 2] do
    match hv cs[2*i]!, hv cs[2*i+1]! with
    | some a, some b => out := out.push (a * 16 + b)
    | _, _ => return none
  return some out

/-- `-` stands for the empty byte string on the wire -/
def hexToBytes (s : String) : Option Bytes :=
  if s = "-" then some [] else (hexToByteArray s).map (·.toList)

end Webp.Go
