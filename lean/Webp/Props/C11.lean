import Webp.Impl.Pool
import Webp.Impl.PoolFields
import Webp.Proofs.Pool
import Webp.Proofs.PoolFields
import Generated.Fields
/-
  C11 — "The result of any call depends only on its arguments: encoding or decoding an input
  gives the same bytes or pixels whether it is the first call in a fresh process or follows any
  sequence of earlier calls with other images, sizes and options, so reuse of internal encoders,
  decoders and buffers is never observable.  Images and byte slices already returned are never
  modified by later calls."

  What is proved here, and what is not.

  §1  (generic, all histories, all pool choices)  For any pooled type whose reuse path restores the
      observable state of a fresh object (`ResetComplete`) and whose body reads nothing else
      (`ObsSufficient`): every result of every history — sequential (`history_independent`,
      `all_results_fresh`) or with any number of concurrent borrowers (`concurrent_results_fresh`)
      — is the result of the same call in a fresh process; the pool never hands one object to two
      borrowers (`pool_exclusive`); memory returned to a caller is never written again under the
      copy-out discipline (`returned_never_modified`).  The converse shapes: one field that the
      reuse path forgets makes the second call of a two-call history differ
      (`stale_field_counterexample` — the abstract form of the defect found in
      `CalculateBestCacheSize`), and returning pooled memory lets a later call modify it
      (`alias_counterexample`).

  §2  (regenerated obligation)  The two premises are NOT proved for the Go code.  They are reduced
      to a per-field classification (`Webp.Impl.PoolFields`) that is checked mechanically against
      the field lists and reset evidence extracted from /repo's AST on every run
      (`Generated.Fields`): every field of every pooled struct is classified, exactly once; every
      field classified `reset` really is (re)initialised on every path through the reuse-path
      functions; the reuse-path functions exist.  A new field, a removed reset line, a renamed
      function breaks the build of these theorems.  The `rewritten` justifications are trusted
      (hand-audited) and are what the `history` suite (harness/cmd/vcheck/suite_hist.go) tests.

  Status: the three history dependences found while building this (CacheSizeHistoSlab, mbStart,
  intraL) are repaired in /repo (3b95a6c, f2dc645, 36b0872); no field is `stale`
  (`no_stale_fields`), `fields_covered` is the full statement, `known_defect_guards` keeps the
  two repairs the extractor can see from being undone silently.
-/
namespace Webp.Props.C11
open Webp.Impl.Pool Webp.Impl.PoolFields

/-! ## 1. the generic pool theorems -/

section generic
variable {Obj Args Obs Res : Type}

/-- **history_independent.**  If the reuse path restores everything the body can observe, and the
    body's result depends only on what it can observe and on its arguments, then for every history
    of earlier calls (any arguments), every choice of the pool at every call (hit on any idle
    object, miss, object rejected by the reuse branch, objects lost to GC, objects not handed
    back) and every initial pool content, the last call returns what it returns as the first call
    of a fresh process. -/
theorem history_independent (K : Kit Obj Args Obs Res)
    (hreset : ∀ o a, K.obs (K.reset o a) = K.obs (K.fresh a))
    (hobs : ∀ o o' a, K.obs o = K.obs o' → (K.work o a).1 = (K.work o' a).1)
    (idle : List Obj) (history : List (Args × Choice)) (a : Args) (c : Choice) :
    (run K idle (history ++ [(a, c)])).1.getLast? = some (freshResult K a) := by
  rw [run_results K hreset hobs]
  simp

/-- every result of the history, not only the last -/
theorem all_results_fresh (K : Kit Obj Args Obs Res) (hreset : ResetComplete K)
    (hobs : ObsSufficient K) (idle : List Obj) (history : List (Args × Choice)) :
    (run K idle history).1 = history.map (fun p => freshResult K p.1) :=
  run_results K hreset hobs history idle

/-- the same with any number of unsynchronised borrowers: every completed call of every reachable
    state of the concurrent pool returned the fresh result -/
theorem concurrent_results_fresh (K : Kit Obj Args Obs Res) (hreset : ResetComplete K)
    (hobs : ObsSufficient K) {s : State Obj Args Res} (hs : Reachable K s) :
    ∀ p ∈ s.out, p.2.2 = freshResult K p.2.1 :=
  (ObsInv.of_reachable hreset hobs hs).out

/-- **pool_exclusive.**  In every state reachable by any interleaving of acquire (hit or miss),
    drop and release events of any borrowers: no object is held by two borrowers, none is held
    twice by one, none is both idle and held, none is idle twice.  Stated on positions: two
    holdings of the same identity are the same holding; a held identity is not idle. -/
theorem pool_exclusive (K : Kit Obj Args Obs Res) {s : State Obj Args Res} (hs : Reachable K s) :
    (∀ (i j : Nat) (h₁ h₂ : Held Obj Args), s.held[i]? = some h₁ → s.held[j]? = some h₂ → h₁.id = h₂.id → i = j) ∧
    (∀ h ∈ s.held, ∀ p ∈ s.idle, p.1 ≠ h.id) ∧
    (∀ (i j : Nat) (p q : Nat × Obj), s.idle[i]? = some p → s.idle[j]? = some q → p.1 = q.1 → i = j) := by
  have hinv := (IdInv.of_reachable hs).nodup
  simp only [State.ids] at hinv
  rw [List.nodup_append] at hinv
  refine ⟨?_, ?_, ?_⟩
  · intro i j h₁ h₂ hi hj he
    apply idx_unique_of_nodup hinv.2.1 (x := h₁.id)
    · simp [List.getElem?_map, hi]
    · simp [List.getElem?_map, hj, he]
  · intro h hh p hp e
    exact hinv.2.2 p.1 (List.mem_map.2 ⟨p, hp, rfl⟩) h.id (List.mem_map.2 ⟨h, hh, rfl⟩) e
  · intro i j p q hi hj he
    apply idx_unique_of_nodup hinv.1 (x := p.1)
    · simp [List.getElem?_map, hi]
    · simp [List.getElem?_map, hj, he]

/-- **returned_never_modified.**  Starting from a well-formed memory, after any history of calls
    that follow the copy-out discipline (`MCall.Ok`: a call writes only cells the library owns or
    allocates now, and what it returns is disjoint from what it keeps), every cell that had been
    given to a caller still holds the value it had. -/
theorem returned_never_modified {s t : MState} {calls : List MCall} (hw : s.Wf)
    (hrun : MRun s calls t) : ∀ x ∈ s.given, t.mem x = s.mem x :=
  (hrun.given_unchanged hw).1

/-- … including the cells returned by the calls of the history themselves: what call `c` returned
    is unchanged by everything after it -/
theorem returned_by_call_never_modified {s t : MState} {c : MCall} {calls : List MCall}
    (hw : s.Wf) (hc : c.Ok s) (hrun : MRun (s.after c) calls t) :
    ∀ x ∈ c.ret, t.mem x = (s.after c).mem x :=
  fun x hx => (hrun.given_unchanged (hw.after hc)).1 x (by simp [MState.after, hx])

end generic

/-! ### the converse shapes -/

/-- **stale_field_counterexample.**  A two-field object whose reuse path resets `cfg` but not the
    accumulator `acc`; history: the call `3`, then the call `3` again on the object the first one
    handed back.  The second result is 9, the fresh result is 6.  (`CalculateBestCacheSize`: the
    slab histograms' Red/Blue/Alpha counts are `acc`, the cached statistics are `cfg`.) -/
theorem stale_field_counterexample :
    (run staleKit [] [(3, {}), (3, { pick := some 0 })]).1 = [6, 9] ∧
    freshResult staleKit 3 = 6 ∧
    ¬ ResetComplete staleKit := by
  refine ⟨by decide, by decide, ?_⟩
  intro h
  have := h ⟨0, 5⟩ 3
  simp [staleKit] at this

/-- the premise that fails is exactly `ResetComplete`; the body does read only `obs` -/
theorem stale_kit_obs_sufficient : ObsSufficient staleKit := by
  intro o o' a h
  simp only [staleKit, id] at h
  subst h; rfl

/-- with the reset repaired both premises hold, so every history gives fresh results -/
theorem fixed_kit_history_independent (idle : List Obj2) (history : List (Nat × Choice)) :
    (run fixedKit idle history).1 = history.map (fun p => freshResult fixedKit p.1) :=
  all_results_fresh fixedKit (fun _ _ => rfl)
    (by intro o o' a h; simp only [fixedKit, id] at h; subst h; rfl) idle history

/-- **alias_counterexample.**  Cell 0 belongs to a pooled object.  Call 1 writes 7 into it and
    returns its address (no copy-out); call 2 writes 9 into it.  The caller of call 1 now sees 9.
    Call 1 violates `MCall.Ok` (its `ret` clause), nothing else does. -/
theorem alias_counterexample :
    let s0 : MState := { mem := fun _ => 0, next := 1, owned := [0], given := [] }
    let c1 : MCall := { writes := [(0, 7)], ret := [0], owned' := [0], next' := 1 }
    let c2 : MCall := { writes := [(0, 9)], ret := [], owned' := [0], next' := 1 }
    (s0.after c1).mem 0 = 7 ∧ ((s0.after c1).after c2).mem 0 = 9 ∧
    0 ∈ (s0.after c1).given ∧ ¬ c1.Ok s0 ∧ c2.Ok (s0.after c1) := by
  refine ⟨by decide, by decide, by decide, ?_, ?_⟩
  · intro h
    exact (h.ret 0 (by decide)).2 (by decide)
  · refine ⟨?_, by decide, ?_, ?_⟩
    · intro p hp; left
      simp [MState.after] at hp ⊢; subst hp; rfl
    · intro x hx; simp at hx
    · intro x hx; left
      simpa [MState.after] using hx

/-! ### non-vacuity -/

/-- the hypotheses of `history_independent` are satisfiable by a kit with a real scratch field,
    and the theorem then decides a concrete history: third call after two others, on a reused
    object -/
example : (run fixedKit [] [(3, {}), (5, { pick := some 0 }), (4, { pick := some 0 })]).1.getLast?
    = some (freshResult fixedKit 4) :=
  history_independent fixedKit (fun _ _ => rfl)
    (by intro o o' a h; simp only [fixedKit, id] at h; subst h; rfl) []
    [(3, {}), (5, { pick := some 0 })] 4 { pick := some 0 }

/-- a history in which reuse really happens (the pool is hit, the object carries old state) -/
example : (run staleKit [] [(3, {})]).2 = [⟨3, 3⟩] := by decide

/-- `pool_exclusive` speaks about states with several holders: two borrowers hold two different
    objects after a miss, a release, a hit and another miss -/
example : ∃ s : State Obj2 Nat Nat, Reachable fixedKit s ∧ s.held.length = 2 ∧ s.out.length = 1 := by
  refine ⟨_, .step (.step (.step (.step .init (.miss _ 0 3)) (.finish _ 0 ⟨0, 0, ⟨3, 0⟩, 3⟩ true rfl))
      (.hit _ 1 5 0 0 ⟨3, 3⟩ rfl)) (.miss _ 2 4), rfl, rfl⟩

/-- a history that satisfies the copy-out discipline: the call writes pooled cell 0, returns the
    freshly allocated cell 1 -/
example : ∃ t, MRun { mem := fun _ => 0, next := 1, owned := [0], given := [] }
    [{ writes := [(0, 7), (1, 7)], ret := [1], owned' := [0], next' := 2 }] t := by
  refine ⟨_, .cons ⟨?_, by decide, ?_, ?_⟩ (.nil _)⟩
  · intro p hp
    simp at hp
    rcases hp with rfl | rfl
    · left; simp
    · right; simp
  · intro x hx; simp at hx; subst hx; decide
  · intro x hx; left; simpa using hx

/-! ## 2. the regenerated obligation -/

/-- every generated type has an annotation and vice versa, in the same order -/
theorem pooled_types_match :
    all.map (·.name) = Generated.Fields.typeNames ∧ Generated.Fields.types.length = all.length := by
  decide

/-- the reuse-path functions named in the extractor's table all exist in /repo -/
theorem reuse_paths_present : Generated.Fields.missing = [] := by decide

/-- internal/pool (bucketed byte pools whose `Get` does not clear) has no user in the library; the
    day it gets one this breaks and the user's buffers need their own annotation -/
theorem pool_pkg_unused : Generated.Fields.poolPkgImporters = [] := by decide

set_option maxRecDepth 8192 in
/-- **classification_exact.**  For every pooled type the annotation lists exactly the fields of
    the Go struct (as extracted from the AST of the current tree), each once, in declaration
    order.  A field added to, removed from or renamed in the Go struct breaks this. -/
theorem classification_exact : ∀ p ∈ pairs, p.1.name = p.2.name ∧ p.2.names = p.1.fields := by
  have h : pairs.all (fun p => p.1.name == p.2.name && p.2.names == p.1.fields) = true := by decide
  intro p hp
  have := List.all_eq_true.1 h p hp
  simpa using this

set_option maxRecDepth 8192 in
/-- no field is classified `stale` (the three history dependences of the pinned tree are fixed) -/
theorem no_stale_fields : ∀ p ∈ pairs, p.2.stale = [] := by
  have h : pairs.all (fun p => p.2.stale.isEmpty) = true := by decide
  intro p hp
  simpa using List.all_eq_true.1 h p hp

/-- **fields_covered.**  For every pooled type `T` of /repo and every field `f` of its Go struct
    (as extracted from the AST of the current tree): `f` is classified `reset`, `rewritten` or
    `immutable`. -/
theorem fields_covered : ∀ p ∈ pairs, ∀ f ∈ p.1.fields,
    f ∈ p.2.reset ∨ f ∈ p.2.rewritten ∨ f ∈ p.2.immutable := by
  intro p hp f hf
  rcases covered_of_names (classification_exact p hp).2 f hf with h | h | h | h
  · exact .inl h
  · exact .inr (.inl h)
  · exact .inr (.inr h)
  · exact absurd h (by rw [no_stale_fields p hp]; simp)

set_option maxRecDepth 8192 in
/-- **reset_fields_really_assigned.**  Every field classified `reset` has syntactic evidence of
    (re)initialisation on every path through the reuse-path functions of its type, in the current
    Go source.  A reset line removed from Go breaks this. -/
theorem reset_fields_really_assigned : ∀ p ∈ pairs, ∀ f ∈ p.2.reset, f ∈ p.1.assigned := by
  have h : pairs.all (fun p => isSub p.2.reset p.1.assigned) = true := by decide
  intro p hp
  exact mem_of_isSub (List.all_eq_true.1 h p hp)

/-- **known_defect_guards.**  The two repaired defects whose repair is visible in the syntax stay
    repaired: the extractor finds, on every path through the reuse-path functions,
    `histoSlab[i].Clear()` for the slab histograms of `CalculateBestCacheSize` (3b95a6c; with the
    former `resetStats()` the field is not in `assigned`) and the assignment of `intraL` in
    `acquireDecoder` (36b0872). -/
theorem known_defect_guards :
    "CacheSizeHistoSlab" ∈ Generated.Fields.assigned "lossless.BackwardRefsScratch" ∧
    "intraL" ∈ Generated.Fields.assigned "lossy.Decoder" := by decide

/-- non-vacuity of the quantifiers above: 16 types, some 270 fields, well over 100 of them `reset`
    (lower bounds only, so that adding a field does not break this example: `classification_exact`
    and `fields_covered` are what must notice a new field) -/
example : pairs.length = 16 ∧ 250 ≤ (pairs.map (·.1.fields.length)).sum ∧
    100 ≤ (pairs.map (·.2.reset.length)).sum := by decide

end Webp.Props.C11
