import Webp.Proofs.AlphaChunk
import Webp.Proofs.AlphaQuant
import Webp.Proofs.AlphaF64
import Webp.Impl.Opts
import Webp.Impl.Config
/-
  Property C07 — lossy encoding preserves alpha exactly by default.

  "For every image containing transparency and every lossy option set with AlphaQuality 100 (the
   default), the decoded alpha channel equals the source alpha channel exactly, whichever alpha
   compression (raw or lossless), alpha filter and Method are selected; an image without any
   transparency decodes as fully opaque.  With AlphaQuality below 100 alpha is only quantised:
   decoded alpha values come from at most the documented number of levels and the smallest and
   largest source alpha values are kept."

  Model: `Webp.Impl.Alpha` (internal/lossy/alpha.go + the alpha glue of encode.go / webp.go).
  The VP8L codec is a parameter `c : Codec` of the model; the lossless-method theorems assume
  `CodecExactOnAlpha c` (to be discharged by property C01), the raw-method theorems assume nothing.
  The float64 arithmetic of `quantizeLevels` is a parameter `num : Num`: the level bound holds for
  every `num`; "extremes kept" holds for every `num` whose rounding is monotone and exact on the
  half-integers up to 1024 (`RndOK`), in particular for exact rational arithmetic (`Num.exact`)
  and for IEEE binary64 round-to-nearest-even (`Num.f64`, proved in `Proofs.AlphaF64`).
  The tie to the Go code (suite `alpha`) compares `quantizeLevels` byte for byte with the binary64
  model `Num.f64` and, separately, with `Num.exact`.
-/
namespace Webp.Props.C07
open Webp.Go Webp.Impl.Alpha
open Webp.Proofs.AlphaFilter Webp.Proofs.AlphaChunk Webp.Proofs.AlphaQuant

/-! ## Prediction filters -/

/-- **unfilter ∘ filter = id**: for every filter (none, horizontal, vertical, gradient), every
    `w h` (in particular all `w, h ≥ 1`) and every plane of `w*h` bytes, the in-place inverse
    filter of DecodeAlpha restores what the forward filter of the encoder was given.  Arithmetic
    is mod 256; the gradient predictor `clip(left + above - aboveLeft)` is evaluated on the
    already-restored neighbours. -/
theorem unfilter_filter (f : Filter) (w h : Nat) (a : Plane) (ha : a.size = w * h) :
    unfilter f w h (filter f w h a) = a := by
  by_cases hw : 0 < w
  · exact Webp.Proofs.AlphaFilter.unfilter_filter f w h hw a ha
  · have hw0 : w = 0 := by omega
    subst hw0
    have : a = #[] := Array.eq_empty_of_size_eq_zero (by simpa using ha)
    subst this
    cases f <;> simp [unfilter, filter]

/-- non-vacuity: a 3×2 plane on which every filter changes the data (the gradient clamp engages
    on the last pixel: `clip(0 + 35 - 200) = 0`) and the inverse restores it -/
example :
    let a : Plane := #[10, 200, 35, 7, 0, 255]
    a.size = 3 * 2 ∧ filter .horizontal 3 2 a = #[10, 190, 91, 253, 249, 255] ∧
    filter .vertical 3 2 a = #[10, 190, 91, 253, 56, 220] ∧
    filter .gradient 3 2 a = #[10, 190, 91, 253, 59, 255] ∧
    ∀ f ∈ Filter.all, unfilter f 3 2 (filter f 3 2 a) = a := by decide

/-! ## Header byte -/

/-- pack → unpack = id on every triple the encoder can produce; the reserved bits are 0 -/
theorem header_roundtrip (method filter pre : Nat) (hm : method ≤ 1) (hf : filter ≤ 3) (hp : pre ≤ 1) :
    unpackHeader (packHeader method filter pre) = ⟨method, filter, pre, 0⟩ :=
  unpack_pack method (by omega) filter (by omega) pre (by omega)

/-- DecodeAlpha's header validation, exactly: a byte is rejected iff its two method bits are 2 or
    3.  Every filter value is a filter; the pre-processing field and the reserved bits are not
    validated (libwebp rejects `pre_processing > 1` and `rsrv > 1`). -/
theorem header_accepted_iff (b : UInt8) : headerAccepted b = true ↔ b.toNat % 4 ≤ 1 := by
  have := accepted_iff_nat b.toNat (UInt8.toNat_lt b)
  simpa using this

/-- invalid header bytes are rejected (for valid dimensions), whatever the payload -/
theorem decodeAlpha_rejects (c : Codec) (b : UInt8) (payload : Bytes) (w h : Nat) (hw : 0 < w)
    (hh : 0 < h) (harea : w * h ≤ 2 ^ 30) (hb : headerAccepted b = false) :
    decodeAlpha c (b :: payload) w h = .err .method := by
  have h1 : ¬ ((w : Int) ≤ 0 ∨ (h : Int) ≤ 0) := by omega
  have h2 : ¬ (w * h > 2 ^ 30) := by omega
  have hm : ¬ (b &&& 3).toNat ≤ 1 := by simpa [headerAccepted, unpackHeader] using hb
  have h3 : ¬ (b &&& 3).toNat = 0 := by omega
  have h4 : ¬ (b &&& 3).toNat = 1 := by omega
  simp only [decodeAlpha, h1, if_false, Int.toNat_natCast, h2, h3, h4]

/-- every byte whose method bits are 0 is accepted with a raw payload of (at least) `w*h` bytes —
    including bytes with the reserved bits or pre-processing = 2, 3 set — and a truncated raw
    payload is rejected -/
theorem decodeAlpha_raw_accepts (c : Codec) (b : UInt8) (payload : Bytes) (w h : Nat) (hw : 0 < w)
    (hh : 0 < h) (harea : w * h ≤ 2 ^ 30) (hb : (b &&& 3).toNat = 0) :
    (w * h ≤ payload.length →
      decodeAlpha c (b :: payload) w h
        = .ok (unfilter (Filter.ofField ((b >>> 2) &&& 3).toNat) w h (payload.take (w * h)).toArray)) ∧
    (payload.length < w * h → decodeAlpha c (b :: payload) w h = .err .truncated) := by
  have h1 : ¬ ((w : Int) ≤ 0 ∨ (h : Int) ≤ 0) := by omega
  have h2 : ¬ (w * h > 2 ^ 30) := by omega
  constructor
  · intro hl
    have h3 : ¬ (payload.length < w * h) := by omega
    simp only [decodeAlpha, h1, if_false, Int.toNat_natCast, h2, hb, if_true, h3]
  · intro hl
    simp only [decodeAlpha, h1, if_false, Int.toNat_natCast, h2, hb, if_true, hl]

/-- non-vacuity / the quirk made concrete: header 0xF0 (reserved = 3, pre-processing = 3) is
    accepted; header 0x02 is rejected -/
example : decodeAlpha ⟨fun _ _ _ _ _ => none, fun _ => none⟩ [0xF0, 1, 2, 3, 4] 2 2 = .ok #[1, 2, 3, 4] ∧
    decodeAlpha ⟨fun _ _ _ _ _ => none, fun _ => none⟩ [0x02, 1, 2, 3, 4] 2 2 = .err .method ∧
    headerAccepted 0xF0 = true ∧ headerAccepted 0x02 = false := by decide

/-! ## ALPH chunk round trip -/

/-- **Raw method, no hypothesis at all** (the codec is arbitrary): for every filter, the chunk
    `encodeAlphaInternal` builds exists and decodes to the plane it was built from. -/
theorem alpha_chunk_roundtrip_raw (c : Codec) (a : Plane) (w h : Nat) (hw : 0 < w) (hh : 0 < h)
    (harea : w * h ≤ 2 ^ 30) (ha : a.size = w * h) (f : Filter) (reduce : Bool) (effort : Nat) :
    ∃ b, encodeAlphaInternal c a w h 0 f reduce effort = .ok b ∧ decodeAlpha c b w h = .ok a := by
  refine ⟨_, rfl, ?_⟩
  exact decode_encodeInternal_raw c a w h hw hh harea ha f reduce effort _ rfl

/-- **Either method, every filter**: given a codec that is exact on green-only images
    (`CodecExactOnAlpha`, property C01's obligation), every chunk `encodeAlphaInternal` returns —
    lossless payload, or the raw fallback when the compressed payload is larger than the plane —
    decodes to the plane it was built from. -/
theorem alpha_chunk_roundtrip (c : Codec) (hc : CodecExactOnAlpha c) (a : Plane) (w h : Nat)
    (hw : 0 < w) (hh : 0 < h) (harea : w * h ≤ 2 ^ 30) (ha : a.size = w * h)
    (method : Nat) (hm : method ≤ 1) (f : Filter) (reduce : Bool) (effort : Nat) (b : Bytes)
    (hb : encodeAlphaInternal c a w h method f reduce effort = .ok b) :
    decodeAlpha c b w h = .ok a :=
  decode_encodeInternal c hc a w h hw hh harea ha method (by omega) f reduce effort b hb

/-- **EncodeAlpha → DecodeAlpha, quality 100**: for every configuration (any method, any filter
    mode — none / fast / best / explicit —, any effort, i.e. whatever `getFilterMap`,
    `estimateBestFilter` and the size comparison select), a successful `EncodeAlpha` with
    quality ≥ 100 decodes to the source plane exactly. -/
theorem encodeAlpha_roundtrip (num : Num) (c : Codec) (a : Plane) (w h : Nat) (hw : 0 < w)
    (hh : 0 < h) (harea : w * h ≤ 2 ^ 30) (ha : a.size = w * h) (cfg : EncCfg)
    (hc : cfg.method = 0 ∨ CodecExactOnAlpha c) (hq : 100 ≤ cfg.quality) (b : Bytes)
    (hb : encodeAlpha num c a w h cfg = .ok b) :
    decodeAlpha c b w h = .ok a := by
  have := decode_encodeAlpha num c a w h hw hh harea ha cfg hc b hb
  have hcl : ¬ (clampInt cfg.quality 0 100).toNat < 100 := by
    unfold clampInt; split <;> [omega; (split <;> omega)]
  simpa [encodedPlane, hcl] using this

/-- with the raw method the encoder cannot fail, so the round trip is unconditional -/
theorem encodeAlpha_roundtrip_raw (num : Num) (c : Codec) (a : Plane) (w h : Nat) (hw : 0 < w)
    (hh : 0 < h) (harea : w * h ≤ 2 ^ 30) (ha : a.size = w * h) (cfg : EncCfg)
    (hm : cfg.method = 0) (hq : 100 ≤ cfg.quality) :
    ∃ b, encodeAlpha num c a w h cfg = .ok b ∧ decodeAlpha c b w h = .ok a := by
  obtain ⟨b, hb⟩ := encodeAlpha_raw_ok num c a w h hw hh ha cfg hm
  exact ⟨b, hb, encodeAlpha_roundtrip num c a w h hw hh harea ha cfg (Or.inl hm) hq b hb⟩

/-- **quality < 100: alpha is only quantised** — the decoded plane is exactly
    `quantizeLevels a (alphaLevels quality)` -/
theorem encodeAlpha_quantised (num : Num) (c : Codec) (a : Plane) (w h : Nat) (hw : 0 < w)
    (hh : 0 < h) (harea : w * h ≤ 2 ^ 30) (ha : a.size = w * h) (cfg : EncCfg)
    (hc : cfg.method = 0 ∨ CodecExactOnAlpha c) (q : Nat) (hq : cfg.quality = q) (hq100 : q < 100)
    (b : Bytes) (hb : encodeAlpha num c a w h cfg = .ok b) :
    decodeAlpha c b w h = .ok (quantizeLevels num a w h (alphaLevels q)) := by
  have := decode_encodeAlpha num c a w h hw hh harea ha cfg hc b hb
  have hcl : (clampInt cfg.quality 0 100).toNat = q := by
    unfold clampInt; rw [hq]; split <;> [omega; (split <;> omega)]
  simpa [encodedPlane, hcl, hq100] using this

/-! ### non-vacuity of `CodecExactOnAlpha` and of the round-trip hypotheses -/

/-- a toy codec: "compresses" 2×2 images only, by storing the green bytes after 5 header bytes -/
def toyCodec : Codec :=
  { enc := fun w h argb _ _ =>
      if w = 2 ∧ h = 2 then some ([0x2f, 1, 0x40, 0, 0x10] ++ (argb.map greenOf).toList) else none
    dec := fun s => some ⟨2, 2, ((s.drop 5).map embedGreen).toArray⟩ }

theorem toyCodec_exact : CodecExactOnAlpha toyCodec := by
  intro w h g q m s hg henc _
  simp only [toyCodec] at henc ⊢
  split at henc
  · rename_i hwh
    obtain ⟨rfl, rfl⟩ := hwh
    cases henc
    simp only [alphaVP8LStream, putLE32, List.cons_append, List.nil_append, List.drop_succ_cons,
      List.drop_zero, Array.toList_map, List.map_map]
    have : (greenOf ∘ embedGreen) = id := by funext x; exact green_embed x
    simp [this]
    rw [← Array.toList_map]
  · cases henc

/-- the lossless path is really taken with the toy codec (header `method = 1`, gradient filter),
    and the chunk decodes to the source plane -/
example : encodeAlphaInternal toyCodec #[0, 128, 255, 7] 2 2 1 .gradient false 4
      = .ok [0x0D, 0, 128, 255, 8] ∧
    decodeAlpha toyCodec [0x0D, 0, 128, 255, 8] 2 2 = .ok #[0, 128, 255, 7] := by decide +kernel

/-- `EncodeAlpha` with the default configuration (lossless, fast filter, effort 4) on the toy codec -/
example : ∃ b, encodeAlpha Num.exact toyCodec #[0, 128, 255, 7] 2 2 ⟨100, 1, 4, 4⟩ = .ok b ∧
    decodeAlpha toyCodec b 2 2 = .ok #[0, 128, 255, 7] :=
  ⟨[0x01, 0, 128, 255, 7], by decide +kernel, by decide +kernel⟩

/-! ## Level quantisation (AlphaQuality < 100) -/

/-- the documented mapping "Quality:[0, 70] -> Levels:[2, 16]; Quality:]70, 100] -> Levels:]16, 256]"
    (comment in EncodeAlpha; the EncoderOptions doc only says "values below 100 enable alpha level
    quantization"): the formula, its end points, the ranges and monotonicity.  Code and
    documentation agree. -/
theorem alphaLevels_doc :
    (∀ q, q ≤ 70 → alphaLevels q = 2 + q / 5) ∧
    (∀ q, 70 < q → alphaLevels q = 16 + (q - 70) * 8) ∧
    alphaLevels 0 = 2 ∧ alphaLevels 70 = 16 ∧ alphaLevels 100 = 256 ∧
    (∀ q, q ≤ 70 → 2 ≤ alphaLevels q ∧ alphaLevels q ≤ 16) ∧
    (∀ q, 70 < q → q ≤ 100 → 16 < alphaLevels q ∧ alphaLevels q ≤ 256) ∧
    (∀ q q', q ≤ q' → alphaLevels q ≤ alphaLevels q') := by
  refine ⟨?_, ?_, rfl, rfl, rfl, ?_, ?_, ?_⟩
  · intro q hq; simp [alphaLevels, hq]
  · intro q hq; have : ¬ q ≤ 70 := by omega
    simp [alphaLevels, this]
  · intro q hq; simp only [alphaLevels, hq, if_true]; omega
  · intro q h1 h2; have : ¬ q ≤ 70 := by omega
    simp only [alphaLevels, this, if_false]; omega
  · intro q q' h
    unfold alphaLevels
    split <;> split <;> omega

/-- **Level bound** — for *every* numeric model of the float64 arithmetic: with AlphaQuality
    `q < 100` the quantised plane has at most `alphaLevels q` distinct values. -/
theorem levels_bound (num : Num) (a : Plane) (w h q : Nat) (ha : a.size = w * h) (_hq : q < 100) :
    (quantizeLevels num a w h (alphaLevels q)).toList.toFinset.card ≤ alphaLevels q := by
  apply quantize_levels_le num a w h _ _ ha
  unfold alphaLevels; split <;> omega

/-- **Extremes kept** — for every numeric model whose rounding is monotone and exact on the
    half-integers up to 1024: the smallest and the largest value of the plane are the smallest and
    the largest value of the quantised plane (for any level count), and the pixels that carry them
    are unchanged. -/
theorem minmax_kept (num : Num) (ok : RndOK num) (a : Plane) (w h n : Nat) (hne : a ≠ #[]) :
    minOf (quantizeLevels num a w h n).toList = minOf a.toList ∧
    maxOf (quantizeLevels num a w h n).toList = maxOf a.toList ∧
    (∃ v ∈ (quantizeLevels num a w h n).toList, v.toNat = minOf a.toList) ∧
    (∃ v ∈ (quantizeLevels num a w h n).toList, v.toNat = maxOf a.toList) := by
  obtain ⟨h1, h2⟩ := quantize_minmax num ok a w h n hne
  have hsz := size_quantize num a w h n
  have hl : (quantizeLevels num a w h n).toList ≠ [] := by
    intro he
    have : (quantizeLevels num a w h n).size = 0 := by
      rw [← Array.length_toList, he]; rfl
    apply hne
    exact Array.eq_empty_of_size_eq_zero (by omega)
  refine ⟨h1, h2, ?_, ?_⟩
  · rw [← h1]; exact minOf_mem _ hl
  · rw [← h2]; exact maxOf_mem _ hl

/-- the exact-rational numeric model qualifies -/
theorem minmax_kept_exact (a : Plane) (w h n : Nat) (hne : a ≠ #[]) :
    minOf (quantizeLevels Num.exact a w h n).toList = minOf a.toList ∧
    maxOf (quantizeLevels Num.exact a w h n).toList = maxOf a.toList :=
  let r := minmax_kept Num.exact rndOK_exact a w h n hne
  ⟨r.1, r.2.1⟩

/-- the binary64 numeric model (round to nearest even after every Go operation — the arithmetic
    of the amd64 build, which the suite `alpha` compares byte for byte) qualifies as well -/
theorem minmax_kept_f64 (a : Plane) (w h n : Nat) (hne : a ≠ #[]) :
    minOf (quantizeLevels Num.f64 a w h n).toList = minOf a.toList ∧
    maxOf (quantizeLevels Num.f64 a w h n).toList = maxOf a.toList :=
  let r := minmax_kept Num.f64 Webp.Proofs.AlphaF64.rndOK_f64 a w h n hne
  ⟨r.1, r.2.1⟩

/-- non-vacuity: a plane with 9 levels quantised to `alphaLevels 10 = 4` levels — the quantiser
    really runs (the plane changes), 4 distinct values remain, 0 and 255 survive -/
example :
    let a : Plane := #[0, 10, 20, 30, 100, 200, 255, 254, 3]
    a.size = 3 * 3 ∧ alphaLevels 10 = 4 ∧
    quantizeLevels Num.exact a 3 3 (alphaLevels 10) = #[0, 0, 0, 0, 100, 200, 255, 255, 0] ∧
    quantizeLevels Num.f64 a 3 3 (alphaLevels 10) = #[0, 0, 0, 0, 100, 200, 255, 255, 0] := by
  decide +kernel

/-! ## Opaque stays opaque; transparency gets an ALPH chunk (glue level) -/

/-- `extractAlpha` (model of `imageHasAlpha` / `extractAlphaWith` on the 8-bit alpha samples)
    returns nil iff every sample is 255 -/
theorem extractAlpha_none_iff (al : Plane) :
    extractAlpha al = none ↔ ∀ i (hi : i < al.size), al[i] = 255 := by
  unfold extractAlpha hasAlpha
  constructor
  · intro h
    by_cases hany : al.any (· != 255) = true
    · simp [hany] at h
    · intro i hi
      rw [Array.any_eq_true] at hany
      by_contra hne
      exact hany ⟨i, hi, by simpa using hne⟩
  · intro h
    have : ¬ al.any (· != 255) = true := by
      rw [Array.any_eq_true]
      rintro ⟨i, hi, hne⟩
      exact (by simpa using hne : al[i] ≠ 255) (h i hi)
    simp [this]

/-- **an image without any transparency decodes as fully opaque**: no alpha plane is extracted,
    `encodeLossyWithAlpha` returns no `alphaData`, `writeRIFF` writes no ALPH chunk, and
    `decodeLossy` takes the `*image.YCbCr` path (a type without alpha) -/
theorem opaque_stays_opaque (num : Num) (c : Codec) (al : Plane) (w h : Int) (cfg : EncCfg)
    (hop : ∀ i (hi : i < al.size), al[i] = 255) :
    alphaChunk num c al w h cfg = .ok none ∧ writesALPH none = false ∧ decodedHasAlpha [] = false := by
  have := (extractAlpha_none_iff al).mpr hop
  simp [alphaChunk, this, writesALPH, decodedHasAlpha]

/-- the decode-target logic of `webp.Decode` (model `Impl.Config.decodeTarget`, property C16) agrees
    with `decodedHasAlpha`: for a lossy frame the returned Go type is `*image.YCbCr` iff the
    frame's `alphaData` is empty -/
theorem decodeTarget_model_lossy (data : Bytes) (t : Webp.Impl.Config.DecodeTarget)
    (ht : Webp.Impl.Config.decodeTarget data = .ok (some t)) (hl : t.isLossless = false) :
    (t.model = .ycbcr ↔ decodedHasAlpha t.alpha = false) := by
  unfold Webp.Impl.Config.decodeTarget at ht
  cases hp : Webp.Impl.Parser.parse data with
  | ok p =>
    rw [hp] at ht
    simp only [bind, Res.bind] at ht
    split at ht
    · cases ht
    · rename_i f fs hfs
      simp only [pure, Res.ok.injEq, Option.some.injEq] at ht
      subst ht
      simp only at hl
      simp [hl, decodedHasAlpha]
  | err e => rw [hp] at ht; cases ht
  | panic => rw [hp] at ht; cases ht
  | hang => rw [hp] at ht; cases ht

/-- **an image with transparency gets an ALPH chunk whose decoded plane is its alpha channel**
    (AlphaQuality ≥ 100): if any sample differs from 255 and the encoder succeeds, `alphaData` is
    non-empty (so the ALPH chunk is written and `decodeLossy` takes the NRGBA path) and
    `DecodeAlpha` returns the source alpha samples exactly. -/
theorem transparent_roundtrip (num : Num) (c : Codec) (al : Plane) (w h : Nat) (hw : 0 < w)
    (hh : 0 < h) (harea : w * h ≤ 2 ^ 30) (ha : al.size = w * h) (cfg : EncCfg)
    (hc : cfg.method = 0 ∨ CodecExactOnAlpha c) (hq : 100 ≤ cfg.quality)
    (htr : ∃ i, ∃ hi : i < al.size, al[i] ≠ 255) (r : Option Bytes)
    (hr : alphaChunk num c al w h cfg = .ok r) :
    ∃ b, r = some b ∧ writesALPH r = true ∧ decodedHasAlpha b = true ∧ decodeAlpha c b w h = .ok al := by
  have hsome : extractAlpha al = some al := by
    cases he : extractAlpha al with
    | none =>
      obtain ⟨i, hi, hne⟩ := htr
      exact absurd ((extractAlpha_none_iff al).mp he i hi) hne
    | some a' =>
      unfold extractAlpha at he
      split at he <;> simp_all
  simp only [alphaChunk, hsome] at hr
  cases he : encodeAlpha num c al w h cfg with
  | ok b =>
    rw [he] at hr
    cases hr
    have hdec := encodeAlpha_roundtrip num c al w h hw hh harea ha cfg hc hq b he
    have hne : 0 < b.length := by
      cases b with
      | nil => simp [decodeAlpha] at hdec
      | cons x xs => simp
    exact ⟨b, rfl, by simpa [writesALPH] using hne, by simpa [decodedHasAlpha] using hne, hdec⟩
  | err e => rw [he] at hr; cases hr
  | panic => rw [he] at hr; cases hr
  | hang => rw [he] at hr; cases hr

/-! ## The option level: AlphaCompression × AlphaFiltering × AlphaQuality × Method -/

/-- the `lossy.AlphaEncoderConfig` that `encodeLossyWithAlpha` builds from the public options
    (sentinel resolution and enum mapping are `Impl.Opts.alphaConfig`, property C20) -/
def cfgOfOpts (o : Webp.Impl.Opts.Opts) : EncCfg :=
  let c := Webp.Impl.Opts.alphaConfig o
  { quality := c.quality, method := c.method, filter := c.filter, effort := c.effortLevel }

/-- **C07, default alpha quality**: for *every* option record — any AlphaCompression (0, 1, -1 or
    any other int), any AlphaFiltering, any Method — whose AlphaQuality resolves to 100 (the
    sentinel -1/any negative value, or ≥ 100), a lossy encode of an image with transparency stores
    an ALPH chunk that decodes to the source alpha exactly.  Raw compression: no hypothesis on the
    codec. -/
theorem default_alpha_exact (num : Num) (c : Codec) (o : Webp.Impl.Opts.Opts) (al : Plane)
    (w h : Nat) (hw : 0 < w) (hh : 0 < h) (harea : w * h ≤ 2 ^ 30) (ha : al.size = w * h)
    (hc : o.alphaCompression = 0 ∨ CodecExactOnAlpha c)
    (hq : o.alphaQuality < 0 ∨ 100 ≤ o.alphaQuality)
    (htr : ∃ i, ∃ hi : i < al.size, al[i] ≠ 255) (r : Option Bytes)
    (hr : alphaChunk num c al w h (cfgOfOpts o) = .ok r) :
    ∃ b, r = some b ∧ decodedHasAlpha b = true ∧ decodeAlpha c b w h = .ok al := by
  have hq' : 100 ≤ (cfgOfOpts o).quality := by
    simp only [cfgOfOpts, Webp.Impl.Opts.alphaConfig, Webp.Impl.Opts.resolveAlphaQuality]
    split <;> omega
  have hc' : (cfgOfOpts o).method = 0 ∨ CodecExactOnAlpha c := by
    rcases hc with hc | hc
    · left
      simp [cfgOfOpts, Webp.Impl.Opts.alphaConfig, Webp.Impl.Opts.resolveAlphaCompression, hc]
    · exact Or.inr hc
  obtain ⟨b, h1, _, h3, h4⟩ :=
    transparent_roundtrip num c al w h hw hh harea ha (cfgOfOpts o) hc' hq' htr r hr
  exact ⟨b, h1, h3, h4⟩

/-- non-vacuity: `DefaultOptions()` satisfies the hypotheses of `default_alpha_exact` and resolves
    to the lossless method, fast filter, quality 100, effort 4 -/
example : (Webp.Impl.Opts.defaultOptions.alphaQuality < 0 ∨ 100 ≤ Webp.Impl.Opts.defaultOptions.alphaQuality) ∧
    cfgOfOpts Webp.Impl.Opts.defaultOptions = ⟨100, 1, 4, 4⟩ := by decide

end Webp.Props.C07
