import Webp.Proofs.ContainerPrefix
import Webp.Proofs.ContainerSamples
/-
  C17 — "Decoding a truncated file is all-or-nothing" (container level).

  `webp.Decode` hands `frames[0].Payload` / `AlphaData` of the container parser to the codecs,
  which are deterministic functions of those byte strings.  So it suffices that on a proper
  prefix the parser either fails, or yields no frame (`ErrNoFrames`), or yields *the same*
  first frame and the same header values.  All theorems below quantify over all byte strings.
-/
namespace Webp.Props.C17
open Webp.Go Webp.Impl Webp.Impl.Parser

/-- Strongest container-level statement, for every accepted `d` (still or animated) and every
    prefix `p` (proper or not): the parse of `p` fails, or it sees an initial segment of the
    frames and metadata chunks of `d`; flags, format and canvas agree; the reported
    width/height/alpha agree once all frames have been seen; loop count and background colour
    agree unless `d` is flagged as an animation (an ANIM chunk may lie behind the cut). -/
theorem prefix_general {p d : Bytes} {sd : State} (hpd : p <+: d) (hd : parse d = .ok sd) :
    (∃ e, parse p = .err e) ∨
    ∃ sp, parse p = .ok sp ∧ sp.frames <+: sd.frames ∧ sp.chunks <+: sd.chunks ∧
      sp.features.format = sd.features.format ∧ sp.features.hasAnim = sd.features.hasAnim ∧
      sp.features.canvasWidth = sd.features.canvasWidth ∧
      sp.features.canvasHeight = sd.features.canvasHeight ∧
      sp.features.hasICCP = sd.features.hasICCP ∧ sp.features.hasEXIF = sd.features.hasEXIF ∧
      sp.features.hasXMP = sd.features.hasXMP ∧
      (sp.frames = sd.frames → sp.features.width = sd.features.width ∧
        sp.features.height = sd.features.height ∧ sp.features.hasAlpha = sd.features.hasAlpha) ∧
      (sd.features.hasAnim = false → sp.features.loopCount = sd.features.loopCount ∧
        sp.features.bgColor = sd.features.bgColor) := by
  rcases parse_prefix hpd hd with ⟨e, he⟩ | ⟨sp, hs, r⟩
  · exact .inl ⟨e, he⟩
  · obtain ⟨m1, m2, m3, m4, m5, m6, m7⟩ := r.fmeta
    exact .inr ⟨sp, hs, r.frames, r.chunks, m1, m2, m3, m4, m5, m6, m7, r.dims, r.loop⟩

/-- The statement for stills: a prefix of a still file is rejected, or yields no frame at all,
    or yields exactly the frame of the complete file together with the same header values. -/
theorem prefix_monotone {p d : Bytes} {sd : State} {f : FrameInfo} (hpd : p <+: d)
    (hd : parse d = .ok sd) (hna : sd.features.hasAnim = false) (hf : sd.frames = [f]) :
    (∃ e, parse p = .err e) ∨
    ∃ sp, parse p = .ok sp ∧
      (sp.frames = [] ∨
        (sp.frames = sd.frames ∧ sp.features.width = sd.features.width ∧
          sp.features.height = sd.features.height ∧
          sp.features.hasAlpha = sd.features.hasAlpha ∧
          sp.features.format = sd.features.format ∧
          sp.features.hasAnim = sd.features.hasAnim ∧
          sp.features.canvasWidth = sd.features.canvasWidth ∧
          sp.features.canvasHeight = sd.features.canvasHeight ∧
          sp.features.loopCount = sd.features.loopCount)) := by
  rcases parse_prefix hpd hd with ⟨e, he⟩ | ⟨sp, hs, r⟩
  · exact .inl ⟨e, he⟩
  · refine .inr ⟨sp, hs, ?_⟩
    have hpre := r.frames
    rewrite [hf] at hpre
    cases hsp : sp.frames with
    | nil => exact .inl rfl
    | cons g rest =>
      right
      have heq : sp.frames = sd.frames := by
        rewrite [hsp] at hpre
        rewrite [hf, hsp]
        obtain ⟨t, ht⟩ := hpre
        cases rest with
        | nil => simp at ht; rw [ht.1]
        | cons _ _ => simp at ht
      obtain ⟨m1, m2, m3, m4, _, _, _⟩ := r.fmeta
      obtain ⟨d1, d2, d3⟩ := r.dims heq
      exact ⟨heq ▸ hsp.symm ▸ rfl, d1, d2, d3, m1, m2, m3, m4, (r.loop hna).1⟩

/-- `Decode` on a prefix: parse error, `ErrNoFrames`, or the codecs get exactly what they get
    for the complete file (payload, alpha bytes, lossless flag, dimensions, colour model).
    Holds for every accepted `d`. -/
theorem decodeTarget_prefix {p d : Bytes} {sd : State} (hpd : p <+: d) (hd : parse d = .ok sd) :
    (∃ e, Config.decodeTarget p = .err e) ∨ Config.decodeTarget p = .ok none ∨
      Config.decodeTarget p = Config.decodeTarget d := by
  rcases parse_prefix hpd hd with ⟨e, he⟩ | ⟨sp, hs, r⟩
  · left; unfold Config.decodeTarget; rw [he]; exact ⟨e, rfl⟩
  · right
    unfold Config.decodeTarget
    rw [hs, hd, Res.bind_ok, Res.bind_ok]
    have hpre := r.frames
    cases hsp : sp.frames with
    | nil => left; rfl
    | cons g rest =>
      right
      rewrite [hsp] at hpre
      obtain ⟨t, ht⟩ := hpre
      rewrite [← ht]
      rfl

/-- `GetFeatures` (repaired glue) on a prefix of a file that is not flagged as an animation
    either fails or reports exactly what it reports for the complete file. -/
theorem getFeatures_prefix {p d : Bytes} {sd : State} (hpd : p <+: d) (hd : parse d = .ok sd)
    (hna : sd.features.hasAnim = false) :
    (∃ e, Config.getFeatures p = .err e) ∨ Config.getFeatures p = Config.getFeatures d := by
  rcases parse_prefix hpd hd with ⟨e, he⟩ | ⟨sp, hs, r⟩
  · left; unfold Config.getFeatures; rw [he]; exact ⟨e, rfl⟩
  · obtain ⟨m1, m2, _⟩ := r.fmeta
    have hnap : sp.features.hasAnim = false := m2.trans hna
    unfold Config.getFeatures
    rw [hs, hd, Res.bind_ok, Res.bind_ok]
    by_cases hz : sp.frames.length = 0
    · left
      rw [if_pos ⟨hz, by rw [hnap]; rfl⟩]
      exact ⟨_, rfl⟩
    · right
      obtain ⟨_, hshape⟩ := parse_still hd hna
      have heq : sp.frames = sd.frames := by
        rcases hshape with h0 | ⟨f, pl, h1, _⟩
        · have := r.frames; rw [h0] at this
          have : sp.frames = [] := List.eq_nil_of_prefix_nil this
          rw [this] at hz; exact absurd rfl hz
        · have hpre := r.frames
          rw [h1] at hpre ⊢
          obtain ⟨t, ht⟩ := hpre
          cases hsp : sp.frames with
          | nil => rw [hsp] at hz; exact absurd rfl hz
          | cons g rest =>
            rw [hsp] at ht
            cases rest with
            | nil => simp at ht; rw [ht.1]
            | cons _ _ => simp at ht
      obtain ⟨d1, d2, d3⟩ := r.dims heq
      obtain ⟨l1, _⟩ := r.loop hna
      have hz' : ¬ (sd.frames.length = 0 ∧ (!sd.features.hasAnim) = true) := by
        rw [← heq]; exact fun h => hz h.1
      rw [if_neg (fun h => hz h.1), if_neg hz', heq, d1, d2, d3, m1, m2, l1]

/-- `DecodeConfig` likewise (either variant of the alpha test). -/
theorem decodeConfig_prefix (lt : Bool) {p d : Bytes} {sd : State} (hpd : p <+: d)
    (hd : parse d = .ok sd) (hna : sd.features.hasAnim = false) :
    (∃ e, Config.decodeConfigWith lt p = .err e) ∨
      Config.decodeConfigWith lt p = Config.decodeConfigWith lt d := by
  rcases parse_prefix hpd hd with ⟨e, he⟩ | ⟨sp, hs, r⟩
  · left; unfold Config.decodeConfigWith; rw [he]; exact ⟨e, rfl⟩
  · obtain ⟨m1, m2, _⟩ := r.fmeta
    have hnap : sp.features.hasAnim = false := m2.trans hna
    unfold Config.decodeConfigWith
    rw [hs, hd, Res.bind_ok, Res.bind_ok]
    by_cases hz : sp.frames.length = 0
    · left
      rw [if_pos ⟨hz, by rw [hnap]; rfl⟩]
      exact ⟨_, rfl⟩
    · right
      obtain ⟨_, hshape⟩ := parse_still hd hna
      have heq : sp.frames = sd.frames := by
        rcases hshape with h0 | ⟨f, pl, h1, _⟩
        · have := r.frames; rw [h0] at this
          have : sp.frames = [] := List.eq_nil_of_prefix_nil this
          rw [this] at hz; exact absurd rfl hz
        · have hpre := r.frames
          rw [h1] at hpre ⊢
          obtain ⟨t, ht⟩ := hpre
          cases hsp : sp.frames with
          | nil => rw [hsp] at hz; exact absurd rfl hz
          | cons g rest =>
            rw [hsp] at ht
            cases rest with
            | nil => simp at ht; rw [ht.1]
            | cons _ _ => simp at ht
      obtain ⟨d1, d2, d3⟩ := r.dims heq
      have hz' : ¬ (sd.frames.length = 0 ∧ (!sd.features.hasAnim) = true) := by
        rw [← heq]; exact fun h => hz h.1
      have hcm : Config.configModel lt sp = Config.configModel lt sd := by
        unfold Config.configModel
        rw [heq, d3]
      rw [if_neg (fun h => hz h.1), if_neg hz', hcm, d1, d2]

/-- A simple-format file whose image chunk fills the file (`len = 20 + padded payload size`,
    which is what the encoder writes): *every* proper prefix is rejected. -/
theorem simple_prefix_fails {p d : Bytes} {sd : State} (hpd : p <+: d)
    (hlt : p.length < d.length) (hd : parse d = .ok sd) (hfmt : sd.features.format ≠ .vp8x)
    (hfill : 20 + (le32 d 16 + le32 d 16 % 2) = d.length) :
    ∃ e, parse p = .err e :=
  parse_simple_prefix_err hpd hlt hd hfmt hfill

/-- Without the "fills the file" hypothesis the last statement is false (and harmless): extra
    chunks inside the RIFF payload behind the image chunk may be cut off unnoticed — the prefix
    then decodes to the same picture.  (`len = riffSize + 8` alone does not exclude them.) -/
theorem simple_prefix_trailing_example :
    Samples.simpleVP8Trailing.length = le32 Samples.simpleVP8Trailing 4 + 8 ∧
    parse (Samples.simpleVP8Trailing.take 30) = parse Samples.simpleVP8Trailing ∧
    (parse Samples.simpleVP8Trailing).isOk = true := by decide +kernel

/-- D7, pinned behaviour: before the repair (`getFeaturesPinned`, no rejection of frame-less
    stills) the 30-byte prefix "RIFF header + VP8X chunk" of an extended still succeeded with
    `FrameCount 0` while the complete file says 1. -/
theorem features_prefix_counterexample_pinned :
    (Samples.getFeaturesPinned (Samples.extAlphaStill.take 30)).toOption.map (·.frameCount) = some 0 ∧
    (Samples.getFeaturesPinned Samples.extAlphaStill).toOption.map (·.frameCount) = some 1 ∧
    (Config.getFeatures (Samples.extAlphaStill.take 30)) = .err .other := by decide +kernel

/-- For files flagged as animations the all-or-nothing statement does *not* hold at the header
    level (and is not claimed by the property): a cut at a frame boundary is accepted with
    fewer frames. -/
theorem anim_prefix_fewer_frames :
    (Config.getFeatures (Samples.anim2.take 82)).toOption.map (·.frameCount) = some 1 ∧
    (Config.getFeatures Samples.anim2).toOption.map (·.frameCount) = some 2 := by decide +kernel

/-! ### non-vacuity -/

-- a proper prefix that is accepted with the same frame (metadata behind the image cut off)
example : Samples.extMetaStill.take 64 <+: Samples.extMetaStill := List.take_prefix _ _
example : (parse Samples.extMetaStill).toOption.map (fun s => (s.features.hasAnim, s.frames.length))
    = some (false, 1) := by decide +kernel
example : (parse (Samples.extMetaStill.take 64)).toOption.map (·.frames.length) = some 1 := by
  decide +kernel
-- a proper prefix with no frame yet
example : (parse (Samples.extMetaStill.take 42)).toOption.map (·.frames.length) = some 0 := by
  decide +kernel
-- hypotheses of `simple_prefix_fails`
example : (parse Samples.simpleVP8L).toOption.map (·.features.format) = some .vp8l ∧
    20 + (le32 Samples.simpleVP8L 16 + le32 Samples.simpleVP8L 16 % 2) = Samples.simpleVP8L.length := by
  decide +kernel

end Webp.Props.C17
