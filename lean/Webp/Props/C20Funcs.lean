import Generated.Funcs
import Webp.Impl.Opts
/-
  C20 — regenerated obligations: the option-sentinel helpers of /repo/encode.go translated from the
  Go AST on this run (`Generated/Funcs.lean`) are the functions of `Webp.Impl.Opts` that the C20
  theorems (`resolved_*`, documentation agreement) are about.  Go `int` = Lean `Int`, no
  arithmetic is performed, so there is no overflow range.
-/
namespace Webp.Props.C20Funcs
open Webp.Impl.Opts

theorem tie_resolveSNSStrength : Generated.Funcs.resolveSNSStrength = resolveSNSStrength := by
  funext v; simp [Generated.Funcs.resolveSNSStrength, resolveSNSStrength]
theorem tie_resolveFilterStrength : Generated.Funcs.resolveFilterStrength = resolveFilterStrength := by
  funext v; simp [Generated.Funcs.resolveFilterStrength, resolveFilterStrength]
theorem tie_resolveFilterType : Generated.Funcs.resolveFilterType = resolveFilterType := by
  funext v; simp [Generated.Funcs.resolveFilterType, resolveFilterType]
theorem tie_resolveSegments : Generated.Funcs.resolveSegments = resolveSegments := by
  funext v; simp [Generated.Funcs.resolveSegments, resolveSegments]
theorem tie_resolvePass : Generated.Funcs.resolvePass = resolvePass := by
  funext v; simp [Generated.Funcs.resolvePass, resolvePass]
theorem tie_resolveQMax : Generated.Funcs.resolveQMax = resolveQMax := by
  funext v; simp [Generated.Funcs.resolveQMax, resolveQMax]
theorem tie_resolveAlphaCompression : Generated.Funcs.resolveAlphaCompression = resolveAlphaCompression := by
  funext v; simp [Generated.Funcs.resolveAlphaCompression, resolveAlphaCompression]
theorem tie_resolveAlphaFiltering : Generated.Funcs.resolveAlphaFiltering = resolveAlphaFiltering := by
  funext v; simp [Generated.Funcs.resolveAlphaFiltering, resolveAlphaFiltering]
theorem tie_resolveAlphaQuality : Generated.Funcs.resolveAlphaQuality = resolveAlphaQuality := by
  funext v; simp [Generated.Funcs.resolveAlphaQuality, resolveAlphaQuality]

/-- non-vacuity: the sentinel `-1` and a set value -/
example : Generated.Funcs.resolveSNSStrength (-1) = 50 ∧ Generated.Funcs.resolveSNSStrength 0 = 0 := by decide
example : Generated.Funcs.resolveAlphaQuality (-1) = 100 ∧ Generated.Funcs.resolveQMax 37 = 37 := by decide

end Webp.Props.C20Funcs
