import Webp.Proofs.C07Plans
import Webp.Props.C01Full
/-
  C07 ← C01: the codec contract `Webp.Proofs.AlphaChunk.CodecExactOnAlpha` — the hypothesis of
  `Props/C07.lean` `alpha_chunk_roundtrip`, `encodeAlpha_roundtrip`, … ("whenever `lossless.Encode`
  succeeds on a green-only image, the decoder, given the stream `alphaVP8LStream` rebuilds from the
  stored payload, returns that image") — restated over VALID PLANS and discharged.

  The ALPH chunk stores the VP8L stream without its five header bytes; `DecodeAlpha` re-synthesises
  them with `alpha_is_used = 0`, version 0 (alpha.go; model `alphaVP8LStream`).  With
    * `DecIsSpec c`          the decoder is the specification decoder (Go `DecodeVP8L` = spec: C03),
    * `EncEmitsValidPlan c w h g`   whenever the encoder succeeds on the green-embedded plane `g`, its
                             bytes are the bit stream of SOME plan valid for that image — the per-input
                             obligation, checkable by a `c01full`-style certificate on the real ALPH
                             payload (reconstruct the plan from `alphaVP8LStream payload w h`),
  `codecExactOnAlpha_of_valid_plans` gives the contract and `alpha_chunk_roundtrip_plans` the chunk
  round trip for ONE plane with only that plane's obligation.

  Proof: `Webp.Proofs.C07Plans.resynth_bits` (`bytesToBits (drop 5 …)`, the four `PutUint32` bytes =
  14 + 14 + 1 + 3 header bits) shows the re-synthesised bytes carry the bits of the same plan with
  `hasAlpha := false`; validity and the decoded pixels do not depend on that flag; then
  `stream_roundtrip_meta_bits` + `specDecoder_undoes_encoder`.

  Axioms: `propext`, `Classical.choice`, `Quot.sound` + the `bv_decide` certificates of
  `lossless_roundtrip` (Props/C01Full.lean).
-/
namespace Webp.Props.C07Lossless
open Webp.Go
open Webp.Spec.VP8L (decode)
open Webp.Impl.Alpha
open Webp.Impl.VP8LEntropy (StreamPlanMeta)
open Webp.Proofs.AlphaChunk Webp.Proofs.AlphaFilter
open Webp.Proofs.C01FullAPI (ValidPlanFor streamList)
open Webp.Proofs.C01FullStream (StreamValidMeta)

/-- `lossless.DecodeVP8L` as the specification decoder (`none` = error); the `Img` is the packed ARGB
    buffer before `argbToNRGBA` (alpha.go reads green from the NRGBA bytes: `greenOf`) -/
def planDecImg (bs : Bytes) : Option Img :=
  match decode (ByteArray.mk bs.toArray) with
  | .ok img => some ⟨img.width, img.height, img.pixels⟩
  | _ => none

/-- the decoder half of the codec is the specification decoder -/
def DecIsSpec (c : Codec) : Prop := ∀ bs, c.dec bs = planDecImg bs

/-- the per-input obligation: for the green-embedded plane `g`, every successful `lossless.Encode`
    (any quality / method the alpha encoder passes) wrote the bit stream of a plan valid for it -/
def EncEmitsValidPlan (c : Codec) (w h : Nat) (g : Plane) : Prop :=
  ∀ q m s, c.enc w h (g.map embedGreen) q m = some s →
    ∃ sp : StreamPlanMeta, s = streamList sp ∧ ValidPlanFor w h (g.map embedGreen) sp

/-- the specification decoder on the stream `DecodeAlpha` rebuilds from the stored payload -/
theorem dec_resynth (sp : StreamPlanMeta) (w h : Nat) (argb : Array UInt32) (hv : ValidPlanFor w h argb sp) :
    planDecImg (alphaVP8LStream ((streamList sp).drop 5) w h) = some ⟨w, h, argb⟩ := by
  unfold planDecImg
  rw [Webp.Proofs.C07Plans.decode_resynth sp w h argb hv]

/-- **codecExactOnAlpha_of_valid_plans**: C07's codec hypothesis follows from "the decoder is the
    specification decoder" and "the encoder emits valid plans for green-embedded planes" -/
theorem codecExactOnAlpha_of_valid_plans (c : Codec) (hdec : DecIsSpec c)
    (henc : ∀ w h (g : Plane), g.size = w * h → EncEmitsValidPlan c w h g) : CodecExactOnAlpha c := by
  intro w h g q m s hg hs _
  obtain ⟨sp, rfl, hv⟩ := henc w h g hg q m s hs
  rw [hdec, dec_resynth sp w h _ hv]

/-- **alpha_chunk_roundtrip_plans** (C07 `alpha_chunk_roundtrip` with the codec hypothesis replaced):
    every chunk `encodeAlphaInternal` returns for the plane `a` — lossless payload, or the raw fallback —
    decodes to `a`, provided the encoder emitted a valid plan for THIS plane's filtered, green-embedded
    image (nothing is assumed about other inputs). -/
theorem alpha_chunk_roundtrip_plans (c : Codec) (hdec : DecIsSpec c) (a : Plane) (w h : Nat)
    (hw : 0 < w) (hh : 0 < h) (harea : w * h ≤ 2 ^ 30) (ha : a.size = w * h)
    (method : Nat) (hm : method ≤ 1) (f : Filter) (reduce : Bool) (effort : Nat)
    (hplan : EncEmitsValidPlan c w h (filter f w h a)) (b : Bytes)
    (hb : encodeAlphaInternal c a w h method f reduce effort = .ok b) :
    decodeAlpha c b w h = .ok a := by
  have hpre : (if reduce then 1 else 0) < 2 := by cases reduce <;> decide
  have hsz := size_filter f w h a ha
  by_cases hm0 : method = 1
  · subst hm0
    simp only [encodeAlphaInternal, if_true] at hb
    split at hb
    · cases hb
    · rename_i s hs
      by_cases hlen : s.length < 5
      · simp [hlen] at hb
      · simp only [hlen, if_false] at hb
        by_cases hbig : (s.drop 5).length > w * h
        · simp only [hbig, if_true, Res.ok.injEq] at hb
          subst hb
          rw [decodeAlpha_raw c _ _ w h hw hh harea hsz (pack_method 0 (by decide) f _ hpre),
            pack_filter 0 (by decide) f _ hpre, ofField_code, unfilter_filter f w h hw a ha]
        · simp only [hbig, if_false, Res.ok.injEq] at hb
          subst hb
          obtain ⟨sp, rfl, hv⟩ := hplan _ _ s hs
          have hdec' : c.dec (alphaVP8LStream ((streamList sp).drop 5) w h) =
              some ⟨w, h, (filter f w h a).map embedGreen⟩ := by
            rw [hdec, dec_resynth sp w h _ hv]
          rw [decodeAlpha_lossless c _ _ (filter f w h a) w h hw hh harea hsz
              (pack_method 1 (by decide) f _ hpre) hdec',
            pack_filter 1 (by decide) f _ hpre, ofField_code, unfilter_filter f w h hw a ha]
  · have : method = 0 := by omega
    subst this
    exact decode_encodeInternal_raw c a w h hw hh harea ha f reduce effort b hb

/-- **alph_certificate_implies_roundtrip**: what suite `c01full` (leg `c07alph`) establishes for one
    real ALPH chunk `hdr :: payload` written by `webp.Encode` — the header byte says "lossless method,
    filter `f`", some plan `sp` (reconstructed from `alphaVP8LStream payload w h`) is valid for the
    filtered, green-embedded source plane, and its stream minus the five header bytes IS the payload —
    implies that `DecodeAlpha` returns the source plane.  No decoder is run on the chunk. -/
theorem alph_certificate_implies_roundtrip (c : Codec) (hdec : DecIsSpec c) (hdr : UInt8) (payload : Bytes)
    (sp : StreamPlanMeta) (a : Plane) (w h : Nat) (hw : 0 < w) (hh : 0 < h) (harea : w * h ≤ 2 ^ 30)
    (ha : a.size = w * h) (f : Filter) (hm : (hdr &&& 3).toNat = 1)
    (hf : Filter.ofField ((hdr >>> 2) &&& 3).toNat = f)
    (hpay : payload = (streamList sp).drop 5)
    (hcheck : Webp.Impl.PlanCheck.validPlanFor w h ((filter f w h a).map embedGreen) sp = true) :
    decodeAlpha c (hdr :: payload) w h = .ok a := by
  have hv := Webp.Props.C01Full.validPlanFor_sound _ _ _ _ hcheck
  have hdec' : c.dec (alphaVP8LStream payload w h) = some ⟨w, h, (filter f w h a).map embedGreen⟩ := by
    rw [hdec, hpay, dec_resynth sp w h _ hv]
  rw [decodeAlpha_lossless c hdr payload (filter f w h a) w h hw hh harea (size_filter f w h a ha) hm hdec', hf,
    unfilter_filter f w h hw a ha]

/-- with a plan-emitting encoder the lossless trial cannot fail: a chunk exists -/
theorem encodeAlphaInternal_ok_plans (c : Codec) (a : Plane) (w h : Nat) (f : Filter) (reduce : Bool)
    (effort : Nat)
    (hsome : ∀ q, ∃ sp, c.enc w h ((filter f w h a).map embedGreen) q effort = some (streamList sp) ∧
      StreamValidMeta sp) :
    ∃ b, encodeAlphaInternal c a w h 1 f reduce effort = .ok b := by
  simp only [encodeAlphaInternal, if_true]
  obtain ⟨sp, hs, hv⟩ := hsome (if (if (!reduce) = true ∧ effort = 6 then 100 else 8 * effort) > 100 then 100
    else if (!reduce) = true ∧ effort = 6 then 100 else 8 * effort)
  rw [hs]
  simp only
  rw [if_neg (by have := Webp.Proofs.C07Plans.streamList_length sp hv; omega)]
  split <;> exact ⟨_, rfl⟩

/-! ## non-vacuity: a 2×1 alpha plane, a plan for its green-embedded image, a codec emitting it -/
namespace Example
open Webp.Impl.VP8LEntropy
open Webp.Proofs.VP8LEntropyStream (VecValid)
open Webp.Proofs.VP8LEntropyStream.Examples (one one_valid zero_valid)
open Webp.Proofs.VP8LEntropyCanon (offs ks)
open Webp.Proofs.C01FullMeta (GroupValid)
open Webp.Proofs.C01FullStream (MainValid planPixelsMain)

def plane : Plane := #[0x10, 0x20]
def argb : Array UInt32 := #[0xff001000, 0xff002000]

/-- green symbols 0x10 and 0x20, one bit each -/
def twoG : Array Nat := (one 280 0x10).setIfInBounds 0x20 1

def group : GroupPlan :=
  { lens5 := [twoG, one 256 0, one 256 0, one 256 0xff, Array.replicate 40 0], cl5 := [#[], #[], #[], #[], #[]] }

def plan : StreamPlanMeta :=
  { width := 2, height := 1, hasAlpha := true, transforms := [], cacheBits := 0,
    main := { width := 2, height := 1, refs := [.literal 0xff001000, .literal 0xff002000], groups := [group] } }

theorem twoG_valid : VecValid 280 twoG #[] := by
  have h15 : ∀ l ∈ twoG, l ≤ 15 := by
    have : ∀ l ∈ twoG.toList, l ≤ 15 := by decide +kernel
    exact fun l hl => this l (Array.mem_toList_iff.mpr hl)
  have hks : ks twoG 16 = 2 ^ 15 := by decide +kernel
  have hoffs : offs twoG 16 = 2 := by decide +kernel
  refine ⟨by decide +kernel, h15,
    Or.inr (Webp.Proofs.VP8LEntropyTokens.buildCode_of _ h15 (by omega) (Or.inr hks)), fun h => absurd ?_ h⟩
  right
  exact ⟨by decide +kernel, by decide +kernel⟩

theorem group_valid : GroupValid 0 group := by
  refine ⟨rfl, rfl, fun i hi => ?_⟩
  have : i = 0 ∨ i = 1 ∨ i = 2 ∨ i = 3 ∨ i = 4 := by omega
  have hg : Webp.Spec.VP8L.greenAlphabetSize 0 = 280 := by decide
  rcases this with rfl | rfl | rfl | rfl | rfl <;>
    simp only [group, List.getD_cons_zero, List.getD_cons_succ, Webp.Proofs.VP8LEntropyStream.alphabetSize, hg,
      Webp.Spec.VP8L.numDistanceCodes]
  · exact twoG_valid
  · exact one_valid 256 0 (by omega) (by omega) _
  · exact one_valid 256 0 (by omega) (by omega) _
  · exact one_valid 256 0xff (by omega) (by omega) _
  · exact zero_valid 40 _

theorem main_valid : MainValid 0 plan.main where
  width_pos := by decide
  cache := Or.inl rfl
  groups_pos := by decide
  groups := by
    intro g hg
    simp only [plan, List.mem_cons, List.not_mem_nil, or_false] at hg
    subst hg
    exact group_valid
  entropy := fun h => absurd h (by decide)
  tokens := by
    show Webp.Proofs.C01FullMeta.TokensValidFrom plan.main 0 _
    simp only [Webp.Proofs.VP8LEntropyStream.planTokens, MainPlan.asImage, plan, List.map_cons, List.map_nil,
      Webp.Proofs.C01FullMeta.TokensValidFrom]
    decide +kernel
  exec := by decide +kernel

theorem plan_valid : ValidPlanFor 2 1 argb plan where
  width := rfl
  height := rfl
  valid :=
    { width := by decide, height := by decide, kinds := List.Pairwise.nil, xfs := trivial,
      main_width := rfl, main_height := rfl, main := main_valid }
  encodes :=
    { size := by decide
      main := by
        show planPixelsMain 0 plan.main = argb
        decide +kernel
      chain := trivial }

theorem argb_eq : plane.map embedGreen = argb := by decide +kernel

/-- a codec whose encoder emits `plan` for this image (and fails otherwise) and whose decoder is the
    specification decoder -/
def codec : Codec :=
  { enc := fun w h px _ _ => if w = 2 ∧ h = 1 ∧ px = argb then some (streamList plan) else none
    dec := planDecImg }

example : DecIsSpec codec := fun _ => rfl

theorem emits : EncEmitsValidPlan codec 2 1 plane := by
  intro q m s hs
  rw [argb_eq] at hs ⊢
  simp only [codec, and_self, if_true, Option.some.injEq] at hs
  exact ⟨plan, hs.symm, plan_valid⟩

/-- the hypotheses of `alpha_chunk_roundtrip_plans` hold and a chunk exists: the lossless method on a
    2×1 plane round-trips through `DecodeAlpha` -/
example : ∃ b, encodeAlphaInternal codec plane 2 1 1 .none false 4 = .ok b ∧
    decodeAlpha codec b 2 1 = .ok plane := by
  have hf : filter .none 2 1 plane = plane := rfl
  obtain ⟨b, hb⟩ := encodeAlphaInternal_ok_plans codec plane 2 1 .none false 4 (fun q => by
    rw [hf, argb_eq]
    exact ⟨plan, by simp [codec], plan_valid.valid⟩)
  exact ⟨b, hb, alpha_chunk_roundtrip_plans codec (fun _ => rfl) plane 2 1 (by decide) (by decide) (by decide)
    (by decide) 1 (by decide) .none false 4 (by rw [hf]; exact emits) b hb⟩

end Example

end Webp.Props.C07Lossless
