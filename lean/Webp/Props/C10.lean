import Webp.Impl.RowPipe
import Webp.Impl.RowSync
import Webp.Proofs.RowPipeProgress
import Webp.Proofs.RowSync
/-
  C10 — "The encoders' and decoders' internal worker goroutines produce the same bytes and
  pixels under every interleaving: there is no data race, deadlock or lost wake-up."

  This file: the row pipeline of the lossy encoder (`encode_parallel.go`) at two levels.
  * `Impl.RowPipe`  — the dependency protocol (tickets, progress counters, guards), for every
    grid size, every number of workers, every macroblock function `f`, every interleaving.
  * `Impl.RowSync`  — `waitFor`/`signal` over atomics + `sync.Mutex` + `sync.Cond`, for every
    number of waiter threads and every interleaving of their program points.
  Assumed, not proved: the Go runtime implements sequentially consistent atomics, mutual
  exclusion and the documented `Cond` contract; one macroblock touches nothing shared except
  the cells listed in `Impl/RowPipe.lean` (tied by the trace/perturbation suites, not here).
  The WaitGroup fan-outs are in `Props/C12.lean` (`partition_exact`).
-/
namespace Webp.Props.C10
open Webp.Impl

section RowPipe
open Webp.Impl.RowPipe
variable {Val Ctx : Type}

/-- the serial encoder's top array before (y,x) agrees with the closed form on columns ≥ x -/
private theorem serialBefore_top (P : Params Val Ctx) (y x c : Nat) (hc : x ≤ c) :
    (serialBefore P y x).1.top c = topBefore P y c := by
  unfold serialBefore
  rw [(serCols_spec P y (serRows P y) x).2.1 c, (serRows_spec P y).1]
  simp [Nat.not_lt.mpr hc]

private theorem serialBefore_left (P : Params Val Ctx) (y x : Nat) :
    (serialBefore P y x).2 = leftOf P y x := by
  unfold serialBefore leftOf
  rw [(serCols_spec P y (serRows P y) x).1, (serRows_spec P y).1]

/-- **pipe_reads_fresh.**  In every reachable state, whenever `process` can fire for
    macroblock (y,x) — i.e. `waitFor(y-1, min(x+2, mbW))` has returned — the shared cells it
    reads, `top[x]` and (if it exists) `top[x+1]`, were last written by row `y-1` (never, for
    `y = 0`), and they, the top-right argument and the worker's left context are exactly what
    the single-threaded raster-order encoder holds immediately before macroblock (y,x).
    Hence the macroblock function is applied to the serial encoder's arguments. -/
theorem pipe_reads_fresh (P : Params Val Ctx) {s : State Val Ctx} (hr : Reachable P s)
    {w y x : Nat} {l : Ctx} (hw : s.worker w = .at y x l) (hx : x < P.mbW)
    (hg : procGuard P.mbW s.done y x) :
    s.ver x = verOf y ∧ (x + 1 < P.mbW → s.ver (x + 1) = verOf y) ∧
    s.top x = (serialBefore P y x).1.top x ∧
    (x + 1 < P.mbW → s.top (x + 1) = (serialBefore P y x).1.top (x + 1)) ∧
    topRight P.mbW s.top x = topRight P.mbW (serialBefore P y x).1.top x ∧
    l = (serialBefore P y x).2 := by
  have h := inv_reachable hr
  have f0 := fresh h hw hx hg x (Or.inl rfl)
  have f1 : x + 1 < P.mbW → _ := fun hlt => fresh h hw hx hg (x + 1) (Or.inr ⟨rfl, hlt⟩)
  refine ⟨f0.1, fun hlt => (f1 hlt).1, ?_, ?_, ?_, ?_⟩
  · rw [f0.2, serialBefore_top P y x x (Nat.le_refl _)]
  · intro hlt; rw [(f1 hlt).2, serialBefore_top P y x (x + 1) (by omega)]
  · unfold topRight; split
    · rename_i hlt; rw [(f1 hlt).2, serialBefore_top P y x (x + 1) (by omega)]
    · rfl
  · rw [serialBefore_left]; exact (h.hW w y x l hw).2.2.2.2

/-- **pipe_reads_fresh, independence part (data-race freedom on shared cells).**
    If in a reachable state two different workers both have their `process` step enabled, for
    (y1,x1) and (y2,x2), then
    * they are in different rows and their columns differ by at least 2, so the cells one step
      writes (`top[x]`, `out y x`, `done y`) are disjoint from the cells the other step writes
      or reads (`top[x]`, `top[x+1]`, `out y x`, `done y`); (`done (y-1)`, read by the guard, is
      an atomic counter that only grows)
    * neither step disables or alters the other, and
    * executing them in either order yields the same state. -/
theorem pipe_process_independent (P : Params Val Ctx) {s : State Val Ctx} (hr : Reachable P s)
    {w1 w2 y1 x1 y2 x2 : Nat} {l1 l2 : Ctx} (hne : w1 ≠ w2)
    (h1 : s.worker w1 = .at y1 x1 l1) (h2 : s.worker w2 = .at y2 x2 l2)
    (hx1 : x1 < P.mbW) (hx2 : x2 < P.mbW)
    (g1 : procGuard P.mbW s.done y1 x1) (g2 : procGuard P.mbW s.done y2 x2) :
    (y1 ≠ y2 ∧ x1 ≠ x2 ∧ x1 ≠ x2 + 1 ∧ x2 ≠ x1 + 1) ∧
    ((procEff P s w1 y1 x1 l1).worker w2 = .at y2 x2 l2 ∧
      procGuard P.mbW (procEff P s w1 y1 x1 l1).done y2 x2) ∧
    ((procEff P s w2 y2 x2 l2).worker w1 = .at y1 x1 l1 ∧
      procGuard P.mbW (procEff P s w2 y2 x2 l2).done y1 x1) ∧
    procEff P (procEff P s w1 y1 x1 l1) w2 y2 x2 l2
      = procEff P (procEff P s w2 y2 x2 l2) w1 y1 x1 l1 := by
  have h := inv_reachable hr
  have hap := process_apart h hne h1 h2 hx1 hx2 g1 g2
  have hd : y1 ≠ y2 ∧ x1 ≠ x2 ∧ x1 ≠ x2 + 1 ∧ x2 ≠ x1 + 1 := by omega
  refine ⟨hd, process_stays_enabled h hne h1 h2 g2,
    process_stays_enabled h (Ne.symm hne) h2 h1 g1, ?_⟩
  exact procEff_comm P s l1 l2 hne hd.1 hd.2.1 (by omega) (by omega)

/-- **pipe_reads_fresh, persistence part.**  An enabled `process` step stays enabled, with the
    same arguments, under every step of anybody else.  Together with
    `pipe_process_independent` this is what makes the atomic `process` step a sound abstraction
    of the non-atomic macroblock in the Go code: the interval between the return of `waitFor`
    and the call of `signal` is an interval in which the model step is enabled and not yet
    taken; two macroblocks whose intervals overlap are therefore simultaneously enabled in the
    (reachable) model state at the start of the later interval, hence touch disjoint shared
    cells. -/
theorem pipe_enabled_persistent (P : Params Val Ctx) {s s' : State Val Ctx} {a : Action}
    (hr : Reachable P s) {w y x : Nat} {l : Ctx} (hw : s.worker w = .at y x l) (hx : x < P.mbW)
    (hg : procGuard P.mbW s.done y x) (st : Step P s a s') (ha : a ≠ .process w) :
    s'.worker w = .at y x l ∧ procGuard P.mbW s'.done y x :=
  process_persistent (inv_reachable hr) hw hx hg st ha

/-- **pipe_deterministic.**  In every reachable state every macroblock result that exists is the
    serial encoder's result; every complete execution (all workers returned, Phase B done) ends
    with exactly the serial encoder's results — for every schedule, every `n`, every `f`. -/
theorem pipe_deterministic (P : Params Val Ctx) {s : State Val Ctx} (hr : Reachable P s) :
    (∀ y x v, s.out y x = some v → serialOut P y x = some v) ∧
    (Final P s → s.out = serialOut P) := by
  have h := inv_reachable hr
  refine ⟨?_, ?_⟩
  · intro y x v hv
    rw [h.hOut y x] at hv
    by_cases hlt : x < s.done y
    · rw [if_pos hlt] at hv
      have hy : y < P.mbH := by
        apply Nat.lt_of_not_le; intro hle; have := h.hHigh y hle; omega
      have hxW : x < P.mbW := by have := h.hLe y; omega
      rw [serialOut_eq, if_pos ⟨hy, hxW⟩]; exact hv
    · rw [if_neg hlt] at hv; cases hv
  · intro hf
    funext y x
    rw [h.hOut y x, serialOut_eq]
    by_cases hy : y < P.mbH
    · have hd : s.done y = P.mbW := h.hRec.2 y (by rw [hf.2]; exact hy)
      rw [hd]
      by_cases hxW : x < P.mbW <;> simp [hy, hxW]
    · have hd : s.done y = 0 := h.hHigh y (by omega)
      simp [hd, hy]

/-- **pipe_progress.**  With at least one worker, every reachable state that is not final has an
    enabled action (no deadlock), and every action whatsoever decreases `measure` by one — so
    every schedule, fair or not, terminates, after exactly `measure` more steps. -/
theorem pipe_progress (P : Params Val Ctx) (hn : 0 < P.n) {s : State Val Ctx}
    (hr : Reachable P s) :
    (¬ Final P s → ∃ a s', Step P s a s') ∧
    (∀ a s', Step P s a s' → measure P s' + 1 = measure P s) :=
  ⟨progress hn (inv_reachable hr), fun _ _ st => measure_decreases (inv_reachable hr) st⟩

/-- number of steps of every complete execution: `3·mbH + n + mbH·mbW` -/
theorem pipe_measure_init (P : Params Val Ctx) :
    measure P (init P) = 3 * P.mbH + P.n + P.mbH * P.mbW := measure_init P

/-! #### non-vacuity: a 3×3 grid, two workers, a mixing `f` -/

def P33 : Params Nat Nat where
  mbW := 3
  mbH := 3
  n := 2
  f := fun y x t tr l => (t + 2 * tr.getD 5 + 3 * l + 7 * y + x + 1, l + t + 1)
  border := 127
  left0 := 129

/-- rows 0 and 1 pipelined, worker 0 then takes row 2 while worker 1 is still in row 1 -/
def run33 : List Action :=
  [.claim 0, .claim 1, .process 0, .process 0, .process 1, .process 0, .finishRow 0, .claim 0,
   .process 1, .process 0, .process 1, .finishRow 1, .claim 1, .record, .record,
   .process 0, .process 0, .finishRow 0, .claim 0, .record]

/-- a complete two-worker execution of the 3×3 grid exists (hypotheses of `pipe_deterministic`
    and the "final" branch are satisfiable) … -/
example : ∃ s, Reachable P33 s ∧ Final P33 s := by
  obtain ⟨s, hr, hp⟩ := run?_any P33 run33 (finalB P33) (by decide +kernel)
  exact ⟨s, hr, finalB_sound P33 hp⟩

/-- … it takes exactly `measure (init)` = 3·3 + 2 + 9 = 20 steps … -/
example : run33.length = measure P33 (init P33) := by decide +kernel

/-- … and `f` is not degenerate: the serial results of two macroblocks differ. -/
example : serialOut P33 0 0 ≠ serialOut P33 2 2 := by decide +kernel

/-- a reachable state in which two workers are simultaneously enabled (hypotheses of
    `pipe_process_independent` and of `pipe_reads_fresh` with a real top-right read) -/
example : ∃ s l1 l2, Reachable P33 s ∧ s.worker 0 = .at 0 2 l1 ∧ s.worker 1 = .at 1 0 l2 ∧
    procGuard P33.mbW s.done 0 2 ∧ procGuard P33.mbW s.done 1 0 := by
  obtain ⟨s, hr, hp⟩ := run?_any P33 (run33.take 4)
    (fun s => decide (s.worker 0 = .at 0 2 385 ∧
      s.worker 1 = .at 1 0 129 ∧ procGuard P33.mbW s.done 0 2 ∧ procGuard P33.mbW s.done 1 0))
    (by decide +kernel)
  exact ⟨s, 385, 129, hr, of_decide_eq_true hp⟩

/-- a reachable non-final state (hypothesis of the no-deadlock branch of `pipe_progress`) -/
example : ∃ s, Reachable P33 s ∧ ¬ Final P33 s :=
  ⟨init P33, Reachable.init, fun h => by have := h.2; simp [init, P33] at this⟩

/-! #### trace validation -/

/-- A trace accepted by the model-executed validator is a path of `Step`: the state it ends in
    is reachable (so every guard of the model held at every event). -/
theorem modelTrace_reachable (P : Params Unit Unit) : ∀ (es : List Event) {s : State Unit Unit}
    (i : Nat), Reachable P s → (modelRun P s i es).1 = none → Reachable P (modelRun P s i es).2
  | [], s, i, hr, _ => by simpa [modelRun] using hr
  | e :: es, s, i, hr, h => by
    simp only [modelRun] at h ⊢
    split at h
    · cases h
    · rename_i as has
      split at h
      · cases h
      · rename_i s' hs'
        exact modelTrace_reachable P es (i + 1) (run?_reachable P as hr hs') h

/-- `run33` as an event trace (no `finishRow` events) -/
def trace33 : List Event :=
  [.claim 0 0, .claim 1 1, .proc 0 0 0, .proc 0 0 1, .proc 1 1 0, .proc 0 0 2, .claim 0 2,
   .proc 1 1 1, .proc 0 2 0, .proc 1 1 2, .claim 1 3, .record 0, .record 1, .proc 0 2 1,
   .proc 0 2 2, .claim 0 4, .record 2]

/-- the array checker and the model agree on a good trace and on three kinds of bad ones
    (a test, not a theorem) -/
example : firstBad true 3 3 trace33 = none ∧ modelFirstBad 3 3 trace33 = none ∧
    checkTrace 3 3 trace33 = true := by decide +kernel

example : firstBad true 3 3 [.claim 0 0, .claim 1 1, .proc 0 0 0, .proc 1 1 0] = some 3 ∧
    modelFirstBad 3 3 [.claim 0 0, .claim 1 1, .proc 0 0 0, .proc 1 1 0] = some 3 := by
  decide +kernel

example : firstBad true 2 2 [.claim 0 0, .proc 0 0 0, .record 0] = some 2 ∧
    modelFirstBad 2 2 [.claim 0 0, .proc 0 0 0, .record 0] = some 2 := by decide +kernel

example : firstBad true 2 2 [.claim 0 0, .claim 1 0] = some 1 ∧
    modelFirstBad 2 2 [.claim 0 0, .claim 1 0] = some 1 := by decide +kernel

/-- claims logged against ticket order are accepted by the default (non-strict) checker only -/
example : checkTrace 3 3 [.claim 1 1, .claim 0 0, .proc 0 0 0] = true ∧
    checkTraceStrict 3 3 [.claim 1 1, .claim 0 0, .proc 0 0 0] = false := by decide +kernel

end RowPipe

section RowSync
open Webp.Impl.RowSync
open Webp.Impl.RowPipe (upd)

/-- **rowsync_refines_guard.**  `waitFor(y, needed)` returns only when `done y ≥ needed`
    (at its return point, and already from the moment it leaves the loop). -/
theorem rowsync_refines_guard (T : Nat) {s : State} (hr : Reachable T s) {t n : Nat}
    (hp : s.pc t = .ret n ∨ s.pc t = .unlock n ∨ s.pc t = .dec n) : n ≤ s.done := by
  have h := inv_reachable hr
  rcases hp with hp | hp | hp
  · exact h.hGuard t n (Or.inr (Or.inr hp))
  · exact h.hGuard t n (Or.inl hp)
  · exact h.hGuard t n (Or.inr (Or.inl hp))

/-- **rowsync_no_lost_wakeup** (safety).  There is no reachable state in which a thread sleeps
    in `cond.Wait` with its value available and nobody left to wake it: whenever a sleeper's
    `needed ≤ done`, the signaller is between its store and the completion of its `Broadcast`
    (`pending`), and `waiters > 0`, so at `if r.waiters.Load() > 0` it takes the slow path.
    The same for a thread that has decided to wait but not yet called `Wait`: then the
    signaller has not got past `r.mu.Lock()`. -/
theorem rowsync_no_lost_wakeup (T : Nat) {s : State} (hr : Reachable T s) {t n : Nat}
    (hd : n ≤ s.done) :
    (s.pc t = .sleep n → pending s.spc = true ∧ 0 < s.waiters) ∧
    (s.pc t = .wait n → (∃ v, s.spc = .ldw v ∨ s.spc = .lock v) ∧ 0 < s.waiters) := by
  have h := inv_reachable hr
  exact ⟨fun hp => ⟨h.hSleep t n hp hd, waiters_pos h (t := t) (by rw [hp]; rfl)⟩,
         fun hp => ⟨h.hWait t n hp hd, waiters_pos h (t := t) (by rw [hp]; rfl)⟩⟩

/-- **rowsync_no_lost_wakeup** (the wake-up does happen).  While such a sleeper exists:
    (1) a step of the signaller or of the current mutex holder is enabled — the system is not
        stuck;
    (2) every step of the signaller either wakes the sleeper or moves the signaller strictly
        closer to its `Broadcast` (`sigRank` 4 → 3 → 2 → 1), keeping the situation;
    (3) no step of anybody else changes the sleeper (only `Broadcast` ends `Wait`).
    So after at most 4 signaller steps — each of which is enabled as soon as the mutex holder,
    who never blocks while holding `r.mu`, has released it — the sleeper is awake. -/
theorem rowsync_wakeup_progress (T : Nat) {s : State} (hr : Reachable T s) {t n : Nat}
    (hp : s.pc t = .sleep n) (hd : n ≤ s.done) :
    (∃ lab s', Step T s lab s' ∧ (lab = .sig ∨ ∃ u, lab = .w u ∧ s.mu = some (.w u))) ∧
    (∀ s', Step T s .sig s' → s'.pc t = .woken n ∨
        (s'.pc t = .sleep n ∧ n ≤ s'.done ∧ pending s'.spc = true ∧
          sigRank s'.spc < sigRank s.spc)) ∧
    (∀ lab s', Step T s lab s' → s'.pc t = .sleep n ∨ (s'.pc t = .woken n ∧ lab = .sig)) := by
  have h := inv_reachable hr
  refine ⟨?_, fun s' st => sig_step_wakes h hp hd st, fun lab s' st => sleeper_stays hp st⟩
  have hpend := h.hSleep t n hp hd
  cases hm : s.mu with
  | none =>
    have hne : s.spc ≠ .idle := by intro e; rw [e] at hpend; simp [pending] at hpend
    obtain ⟨s', hs'⟩ := sig_step (T := T) hm hne
    exact ⟨_, _, hs', Or.inl rfl⟩
  | some o =>
    cases o with
    | sig =>
      obtain ⟨v, hv⟩ := h.hMuS.mp hm
      exact ⟨_, _, Step.sUnlock hv, Or.inl rfl⟩
    | w u =>
      obtain ⟨s', hs'⟩ := holder_step (T := T) u ((h.hMuW u).mp hm)
      exact ⟨_, _, hs', Or.inr ⟨u, rfl, rfl⟩⟩

/-- **no deadlock inside `waitFor`/`signal`.**  A reachable state is either at rest — the
    signaller is outside `signal`, every waiter is outside `waitFor` or asleep with its value
    *not yet* stored (so it waits for a future `signal`, which `pipe_progress` provides) — or
    a step inside `waitFor`/`signal` is enabled. -/
theorem rowsync_no_deadlock (T : Nat) {s : State} (hr : Reachable T s) :
    (s.spc = .idle ∧ ∀ t, s.pc t = .idle ∨ ∃ n, s.pc t = .sleep n ∧ s.done < n) ∨
    ∃ lab s', Step T s lab s' ∧ (lab = .sig ∨ ∃ t, lab = .w t) :=
  no_deadlock (inv_reachable hr)

/-- **reuse starts clean.**  `getParallelState` resets `done` only.  When no thread is inside
    `waitFor` and the signaller is outside `signal` — the state in which `putParallelState`
    returns the object to the pool — `waiters = 0` and the mutex is free (and nobody is on the
    notify list, since nobody is at `sleep`): every `waitFor` has decremented what it
    incremented.  More generally `waiters` always equals the number of threads between their
    `Add(1)` and `Add(-1)`. -/
theorem rowsync_quiescent_clean (T : Nat) {s : State} (hr : Reachable T s)
    (hq : ∀ t, t < T → s.pc t = .idle) (hs : s.spc = .idle) :
    s.waiters = 0 ∧ s.mu = none := by
  have h := inv_reachable hr
  have hall : ∀ t, s.pc t = .idle := by
    intro t
    by_cases ht : t < T
    · exact hq t ht
    · exact h.hOut t (by omega)
  refine ⟨?_, ?_⟩
  · rw [h.hCnt]
    have : (fun t => cw (s.pc t)) = fun _ => 0 := by funext t; rw [hall t]; rfl
    rw [this, Webp.Impl.RowPipe.sumTo_const]; simp
  · cases hm : s.mu with
    | none => rfl
    | some o =>
      cases o with
      | sig => obtain ⟨v, hv⟩ := h.hMuS.mp hm; rw [hs] at hv; cases hv
      | w t => have := (h.hMuW t).mp hm; rw [hall t] at this; simp [holds] at this

theorem rowsync_waiters_exact (T : Nat) {s : State} (hr : Reachable T s) :
    s.waiters = ((Webp.Impl.RowPipe.sumTo (fun t => cw (s.pc t)) T : Nat) : Int) :=
  (inv_reachable hr).hCnt

/-! #### non-vacuity: the critical interleaving

  One waiter, `needed = 1`.  It misses the fast path, registers, locks, sees `done = 0 < 1` and
  decides to wait; *before it calls `Wait`* the signaller stores 1, sees `waiters = 1`, and
  blocks on the mutex; then the waiter calls `Wait` and sleeps with `done = 1 ≥ needed`.
  This is the state in which a wake-up would be lost if `signal` did not take the mutex
  before `Broadcast`. -/

def c1 : State := { init with pc := upd init.pc 0 (.chk 1) }          -- waitFor(y, 1) entered
def c2 : State := { c1 with pc := upd c1.pc 0 (.inc 1) }              -- fast path missed (done = 0)
def c3 : State := { c2 with waiters := c2.waiters + 1, pc := upd c2.pc 0 (.lock 1) }
def c4 : State := { c3 with mu := some (.w 0), pc := upd c3.pc 0 (.loop 1) }
def c5 : State := { c4 with pc := upd c4.pc 0 (.wait 1) }             -- saw done = 0 < 1 under the lock
def c6 : State := { c5 with spc := .store 1 }                         -- signal(y, 1) entered
def c7 : State := { c6 with done := 1, spc := .ldw 1 }                -- store, *after* the waiter's re-check
def c8 : State := { c7 with spc := .lock 1 }                          -- waiters = 1 > 0: slow path, blocks on mu
/-- the waiter now sleeps although `done = 1 ≥ needed` -/
def critical : State := { c8 with mu := none, pc := upd c8.pc 0 (.sleep 1) }

theorem critical_reachable : Reachable 1 critical := by
  have r0 : Reachable 1 init := Reachable.init
  have r1 : Reachable 1 c1 := r0.step (Step.wCall (t := 0) 1 (by decide) rfl)
  have r2 : Reachable 1 c2 := r1.step (Step.wChkSlow (t := 0) (n := 1) rfl (by decide))
  have r3 : Reachable 1 c3 := r2.step (Step.wInc (t := 0) (n := 1) rfl)
  have r4 : Reachable 1 c4 := r3.step (Step.wLock (t := 0) (n := 1) rfl rfl)
  have r5 : Reachable 1 c5 := r4.step (Step.wLoopWait (t := 0) (n := 1) rfl (by decide))
  have r6 : Reachable 1 c6 := r5.step (Step.sCall 1 rfl (by decide))
  have r7 : Reachable 1 c7 := r6.step (Step.sStore (v := 1) rfl)
  have r8 : Reachable 1 c8 := r7.step (Step.sLdwSlow (v := 1) rfl (by decide))
  exact r8.step (Step.wWait (t := 0) (n := 1) rfl)

/-- hypotheses of `rowsync_no_lost_wakeup` / `rowsync_wakeup_progress` are satisfiable -/
example : ∃ s t n, Reachable 1 s ∧ s.pc t = .sleep n ∧ n ≤ s.done :=
  ⟨critical, 0, 1, critical_reachable, rfl, by decide⟩

def c10 : State := { critical with mu := some .sig, spc := .unlock 1 }
def c11 : State := { c10 with mu := none, spc := .bcast 1 }
def c12 : State := { c11 with pc := fun t => wake (c11.pc t), spc := .idle }
def c13 : State := { c12 with mu := some (.w 0), pc := upd c12.pc 0 (.loop 1) }
def c14 : State := { c13 with pc := upd c13.pc 0 (.unlock 1) }
def c15 : State := { c14 with mu := none, pc := upd c14.pc 0 (.dec 1) }
def c16 : State := { c15 with waiters := c15.waiters - 1, pc := upd c15.pc 0 (.ret 1) }

/-- and from there the sleeper is woken and `waitFor` returns with the guard true
    (hypothesis of `rowsync_refines_guard`) and `waiters` back at 0 -/
example : ∃ s, Reachable 1 s ∧ s.pc 0 = .ret 1 ∧ s.spc = .idle ∧ s.waiters = 0 := by
  have r9 := critical_reachable
  have r10 : Reachable 1 c10 := r9.step (Step.sLock (v := 1) rfl rfl)
  have r11 : Reachable 1 c11 := r10.step (Step.sUnlock (v := 1) rfl)
  have r12 : Reachable 1 c12 := r11.step (Step.sBcast (v := 1) rfl)
  have r13 : Reachable 1 c13 := r12.step (Step.wRelock (t := 0) (n := 1) rfl rfl)
  have r14 : Reachable 1 c14 := r13.step (Step.wLoopExit (t := 0) (n := 1) rfl (by decide))
  have r15 : Reachable 1 c15 := r14.step (Step.wUnlock (t := 0) (n := 1) rfl)
  have r16 : Reachable 1 c16 := r15.step (Step.wDec (t := 0) (n := 1) rfl)
  exact ⟨c16, r16, rfl, rfl, by decide⟩

example : ∃ s, Reachable 1 s ∧ (∀ t, t < 1 → s.pc t = .idle) ∧ s.spc = .idle :=
  ⟨init, Reachable.init, fun _ _ => rfl, rfl⟩

end RowSync

end Webp.Props.C10
