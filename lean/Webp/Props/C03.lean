import Webp.Proofs.VP8LEntropyTableF
import Webp.Proofs.VP8LEntropyLoop
import Webp.Proofs.VP8LEntropyReader
import Webp.Proofs.VP8LFastPaths
/-
  Property C03 — VP8L decoding returns the pixels the format defines — ENTROPY LAYER.

  "For every syntactically valid VP8L bitstream - any subset and order of the four transforms, any
   tile size, colour-cache size, meta prefix-code image, prefix-code shape (simple, single-symbol,
   up to length 15) and backward reference - Decode returns exactly the ARGB pixels defined by the
   WebP lossless bitstream specification."

  `Webp.Spec.VP8L.decode` is the definition of "the pixels the format defines".  This file proves,
  for ALL inputs, that the places where the Go decoder is STRUCTURALLY different from that
  definition compute the same thing (implementation models: `Webp.Impl.VP8LEntropy`, tied to /repo by
  suite `vp8lentropy`):

    huffman.go        two-level lookup tables + ReadSymbol      = bit-serial canonical decoding
    decode_image.go   deferred colour-cache insertion           = insert after every pixel
                      copyBlock32 (memmove / fill / doubling)   = pixel-by-pixel copy
                      row/col bookkeeping, cached meta group    = group of the current pixel
    reader_lossless.go 64-bit window reader, eos flag           = LSB-first bits, eos ⇔ overrun
                                                                  (on the zero-extended buffer: see
                                                                  `short_buffer_reads_zeros`)

  The transform layer (in-place inverse transforms) is in Props/C01.lean
  (`applyInverseTransforms_eq_spec`).  Not covered here: the code-length reading loop of
  `readHuffmanCodeLengths` and the header/transform parsing of decode.go (they are transcribed in the
  specification itself and tied by the whole-stream differential suite `vp8l`), and the >1000 groups
  remapping.

  Axioms of every theorem below: `propext`, `Classical.choice`, `Quot.sound` only (no `bv_decide`).
-/
namespace Webp.Props.C03
open Webp.Go (Res)
open Webp.Spec.VP8L
open Webp.Impl.VP8LEntropy
open Webp.Proofs.VP8LEntropyBits (adv)
open Webp.Proofs.VP8LEntropyCanon (ks offs)
open Webp.Proofs.VP8LEntropyCopy (seqCopy)
open Webp.Proofs.VP8LEntropyLoop (Rel groupAt refresh)
open Webp.Proofs.VP8LEntropyReader (pad8 padBits runReads specReads Win)

/-! ## prefix codes -/

/-- What the specification accepts as a prefix code: lengths ≤ 15, at least one used symbol, and
    either exactly one used symbol or Kraft sum exactly 1 (`kraftSum` is scaled by 2^15). -/
theorem kraft_of_buildCode_ok {lens : Array Nat} {code : Code} (h : buildCode lens = .ok code) :
    (∀ x ∈ lens, x ≤ 15) ∧ 0 < (lens.toList.filter (· ≠ 0)).length ∧
    ((lens.toList.filter (· ≠ 0)).length = 1 ∨ kraftSum lens = 2 ^ 15) := by
  obtain ⟨h15, h0, hk, _, _⟩ := Webp.Proofs.VP8LEntropyCanon.buildCode_ok h
  rw [Webp.Proofs.VP8LEntropyPrefix.used_count lens h15, Webp.Proofs.VP8LEntropyCanon.kraftSum_eq lens h15]
  exact ⟨h15, h0, hk⟩

/-- **The two-level table decodes exactly the canonical prefix code.**  For every length vector the
    specification accepts (max length 15, any alphabet size, single-symbol zero-bit codes included)
    and every root size `1 ≤ R ≤ 15` (Go: 8, and 7 for the code-length code) `BuildHuffmanTable`
    succeeds, and on EVERY bit string — also when the stream ends inside a code word — the table
    lookup `readSymbolFromTree` (look at the next 32 bits, zeros past the end; `ReadSymbol`;
    `SetBitPos`; the callers' `IsEndOfStream` test) returns what the specification's bit-serial
    reading returns: same symbol, same number of bits consumed, `eos` in the same cases.
    (`br.pos ≤ 8·size`: a reader that has not already run past its data.) -/
theorem table_lookup_eq_canonical {lens : Array Nat} {code : Code} (h : buildCode lens = .ok code)
    (R : Nat) (hR1 : 1 ≤ R) (hR : R ≤ 15) :
    ∃ tbl, buildTable R lens = .ok tbl ∧
      ∀ br : BitReader, br.pos ≤ 8 * br.data.size →
        Webp.Impl.VP8LEntropy.readSymbol R tbl br = Webp.Spec.VP8L.readSymbol code br :=
  Webp.Proofs.VP8LEntropyTableF.table_lookup_eq_canonical h R hR1 hR

/-- The error cases agree: `BuildHuffmanTable` (both passes: `buildHuffmanTableSize` returning 0, and
    the checks of the second pass) rejects exactly the vectors the specification rejects, and never
    panics (no slice index out of range) nor loops. -/
theorem buildTable_rejects_iff (lens : Array Nat) (R : Nat) (hR1 : 1 ≤ R) (hR : R ≤ 15) :
    ((∃ tbl, buildTable R lens = .ok tbl) ↔ (∃ code, buildCode lens = .ok code)) ∧
    ((∃ e, buildTable R lens = .err e) ↔ (∃ e, buildCode lens = .err e)) := by
  have hacc := Webp.Proofs.VP8LEntropyTableF.buildTable_accepts_iff lens R hR1 hR
  refine ⟨hacc, ?_⟩
  constructor
  · intro ⟨e, he⟩
    cases hb : buildCode lens with
    | ok code =>
      obtain ⟨tbl, ht⟩ := hacc.mpr ⟨code, hb⟩
      rw [ht] at he; cases he
    | err e' => exact ⟨e', rfl⟩
    | panic =>
      exfalso; unfold buildCode at hb
      split at hb; · cases hb
      simp only at hb
      split at hb; · cases hb
      split at hb; · cases hb
      split at hb <;> cases hb
    | hang =>
      exfalso; unfold buildCode at hb
      split at hb; · cases hb
      simp only at hb
      split at hb; · cases hb
      split at hb; · cases hb
      split at hb <;> cases hb
  · intro ⟨e, he⟩
    exact Webp.Proofs.VP8LEntropyTableF.buildTable_err_of_buildCode he R hR

/-! ## the pixel loop -/

/-- **copyBlock32** (non-overlapping `copy`, single-value fill, doubling copy) is the
    specification's pixel-by-pixel copy, for every distance and length, overlapping included. -/
theorem copyBlock_eq_spec (data : Array UInt32) (pos dist len : Nat)
    (hd : 1 ≤ dist) (hp : dist ≤ pos) (hlen : pos + len ≤ data.size) :
    copyBlock32 data pos dist len = seqCopy data pos dist len :=
  Webp.Proofs.VP8LEntropyCopy.copyBlock_eq_spec data pos dist len hd hp hlen

/-- `seqCopy` is the specification's `copyLoop` (push one pixel at a time, every copied pixel enters
    the cache) on a buffer whose first `pos` pixels are the pixels decoded so far -/
theorem seqCopy_eq_copyLoop (cacheBits : Nat) (data out cache : Array UInt32) (pos dist n : Nat)
    (hsz : out.size = pos) (hpre : ∀ i, i < pos → data[i]? = out[i]?)
    (hd : 1 ≤ dist ∧ dist ≤ pos) (hlen : pos + n ≤ data.size) :
    copyLoop cacheBits dist n out cache =
      ((seqCopy data pos dist n).extract 0 (pos + n),
       flushCache cacheBits (seqCopy data pos dist n) n pos cache) :=
  Webp.Proofs.VP8LEntropyCopy.seqCopy_copyLoop cacheBits data out cache pos dist n hsz hpre (Or.inl hd) hlen

/-- **deferredCache_eq_eager.**  `Rel p s out cache` relates a state `s` of the Go loop (pixels in
    `data[0..pos)`, `lastCached`, row/col, lazily filled cache, cached meta group) with the
    specification's state (pixels `out`, cache with every pixel inserted).  At every cache LOOKUP,
    after the pending insertions (`lastCached … pos`) the implementation's cache IS the
    specification's; the lookup succeeds in exactly the same cases and stores the same pixel. -/
theorem deferredCache_eq_eager {p : LoopParams} {s : LoopSt} {out cache : Array UInt32}
    (hR : Rel p s out cache) (hlt : s.pos < p.width * p.height) (key : Nat) :
    (LoopSt.flush p s).cache = cache ∧
    ((∃ s', stepToken p (.cache key) s = .ok s') ↔ key < cache.size) ∧
    ∀ s', stepToken p (.cache key) s = .ok s' → s'.data[s.pos]? = cache[key]? ∧ cache[key]?.isSome :=
  Webp.Proofs.VP8LEntropyLoop.deferredCache_eq_eager hR hlt key

/-- one iteration of the Go loop refines one `execToken` of the specification (same error, or
    related successor states) -/
theorem stepToken_refines {p : LoopParams} {s : LoopSt} {out cache : Array UInt32} (t : Token)
    (hR : Rel p s out cache) (hlt : s.pos < p.width * p.height) :
    (∃ s' out' cache', stepToken p t (refresh p s) = .ok s' ∧
        execToken (p.width * p.height) p.cacheBits t out cache = .ok (out', cache') ∧
        Rel p s' out' cache') ∨
    (∃ e, stepToken p t (refresh p s) = .err e ∧
        execToken (p.width * p.height) p.cacheBits t out cache = .err e) :=
  Webp.Proofs.VP8LEntropyLoop.stepToken_refines t hR hlt

/-- **The pixel-loop refinement, for every token source** (a bit reader with tables, or a token
    list): `decodeImageData`'s loop returns what the specification's loop returns. -/
theorem decodePixelLoop_eq_ref {σ : Type} (src : TokenSource σ) (p : LoopParams) (st : σ)
    (h : p.width * p.height = 0 ∨ 0 < p.numGroups) :
    decodePixelLoop src p st = refDecode src (groupAt p) p.width p.height p.cacheBits st :=
  Webp.Proofs.VP8LEntropyLoop.decodePixelLoop_eq_ref' src p st h

/-- … and against `Spec.VP8L.decodePixels` itself.  `hidx`: every entry of the entropy image names
    an existing group (true for what `readMetaPrefix` builds: it reads `max + 1` groups); the Go
    code silently falls back to group 0 otherwise, the specification reports `groupIndex`. -/
theorem decodePixelLoop_eq_spec (ep : EntropyParams) (br : BitReader)
    (hidx : ∀ e ∈ ep.entropy, e < ep.groups.size) :
    decodePixelLoop (specSource ep) (LoopParams.ofSpec ep) br = decodePixels ep br :=
  Webp.Proofs.VP8LEntropyLoop.decodePixelLoop_eq_spec' ep br hidx

/-- **trivial_paths_eq_general** (tier 2).  For the group `readHuffmanCodes` builds from five
    accepted length vectors (flags `IsTrivialLiteral`, `IsTrivialCode`, `UsePackedTable`, `LiteralARB`
    and the 64-entry packed table exactly as computed there — `mkGroup`), on EVERY look-ahead value
    `w` the loop's fast paths decode what the general path (four `ReadSymbol` lookups green, red,
    blue, alpha) decodes: the same ARGB literal or the same non-literal green symbol, and the same
    number of bits.  In particular `table[0].Bits == 0` means "single-symbol code", and
    `maxBits < 6` makes the zero-filled look-ahead of `buildPackedTable` harmless.
    (The bit reader is abstracted to the look-ahead number; that the fast paths poll
    `IsEndOfStream` less often is unobservable — argued and tested on 1.2 M truncated streams in the
    report, not a Lean theorem.) -/
theorem trivial_paths_eq_general (lg lr lb la ld : Array Nat) (c : Nat) (hc : c ≤ 2048)
    (hsg : lg.size = 256 + 24 + c) (hsr : lr.size = 256) (hsb : lb.size = 256) (hsa : la.size = 256)
    (hsd : ld.size = 40) {cg cr cb ca cd : Code}
    (hcg : buildCode lg = .ok cg) (hcr : buildCode lr = .ok cr) (hcb : buildCode lb = .ok cb)
    (hca : buildCode la = .ok ca) (hcd : buildCode ld = .ok cd)
    {tg tr tb ta td : Table}
    (htg : buildTable 8 lg = .ok tg) (htr : buildTable 8 lr = .ok tr) (htb : buildTable 8 lb = .ok tb)
    (hta : buildTable 8 la = .ok ta) (htd : buildTable 8 ld = .ok td) (w : Nat) :
    let g := Webp.Impl.VP8LFastPaths.mkGroup ⟨tg, tr, tb, ta, td⟩
      ⟨Webp.Impl.VP8LFastPaths.maxLenOf lg, Webp.Impl.VP8LFastPaths.maxLenOf lr,
       Webp.Impl.VP8LFastPaths.maxLenOf lb, Webp.Impl.VP8LFastPaths.maxLenOf la,
       Webp.Impl.VP8LFastPaths.maxLenOf ld⟩
    Webp.Impl.VP8LFastPaths.readLiteralFast g w = Webp.Impl.VP8LFastPaths.readLiteralGeneral g w :=
  Webp.Proofs.VP8LFastPaths.trivial_paths_eq_general lg lr lb la ld c hc hsg hsr hsb hsa hsd hcg hcr hcb hca hcd
    htg htr htb hta htd w

/-! ## the bit reader -/

/-- **reader_window_eq_bits.**  As long as the end-of-stream flag is not raised, every `ReadBits(n)`
    (`n ≤ 24`) of the 64-bit window reader returned the specification's value — on the buffer
    ZERO-EXTENDED to 8 bytes (`pad8`; for `len ≥ 8` that is the buffer itself). -/
theorem reader_window_eq_bits (buf : Array UInt8) (ns : List Nat) (hn : ∀ n ∈ ns, n ≤ 24) :
    let (vs, r) := runReads (Reader.new buf) ns
    r.isEndOfStream = false →
      specReads { data := ⟨pad8 buf⟩ } ns =
        .ok (vs.map UInt32.toNat, { data := ⟨pad8 buf⟩, pos := ns.sum }) :=
  Webp.Proofs.VP8LEntropyReader.reader_window_eq_bits buf ns hn

/-- **eos_iff_overrun.**  The flag is raised iff strictly more bits were requested than the
    (zero-extended) buffer holds: `8 · max(len, 8)`. -/
theorem eos_iff_overrun (buf : Array UInt8) (ns : List Nat) (hn : ∀ n ∈ ns, n ≤ 24) :
    (runReads (Reader.new buf) ns).2.isEndOfStream = true ↔ ns.sum > 8 * (pad8 buf).size :=
  Webp.Proofs.VP8LEntropyReader.eos_iff_overrun buf ns hn

/-- The residual behaviour, exactly as it is: for inputs shorter than 8 bytes the bits `8·len … 63`
    read as zeros WITHOUT end-of-stream (the specification's reader fails with `eos` there). -/
theorem short_buffer_reads_zeros (buf : Array UInt8) (hb : buf.size < 8) (ns : List Nat) (n : Nat)
    (hn : ∀ m ∈ ns, m ≤ 24) (hn' : n ≤ 24) (h1 : 8 * buf.size ≤ ns.sum) (h2 : ns.sum + n ≤ 64) :
    let r := (runReads (Reader.new buf) ns).2
    r.isEndOfStream = false ∧ (r.readBits n).1 = 0 ∧ (r.readBits n).2.isEndOfStream = false :=
  Webp.Proofs.VP8LEntropyReader.short_buffer_reads_zeros buf hb ns n hn hn' h1 h2

/-- The read that crosses the end raises the flag and returns the remaining bits zero-extended —
    except when exactly all bits were consumed before (`bitPos = 64`, `bitPos & 63 = 0`): then it
    returns the first `n` bits of the last 8 bytes again. -/
theorem crossing_read (buf : Array UInt8) (ns : List Nat) (n : Nat) (hn : ∀ m ∈ ns, m ≤ 24) (hn' : n ≤ 24)
    (h1 : ns.sum ≤ 8 * (pad8 buf).size) (h2 : 8 * (pad8 buf).size < ns.sum + n) :
    let r := (runReads (Reader.new buf) ns).2
    (r.readBits n).2.isEndOfStream = true ∧
    (ns.sum < 8 * (pad8 buf).size → (r.readBits n).1.toNat = ofBitsLE ((padBits buf).drop ns.sum)) ∧
    (ns.sum = 8 * (pad8 buf).size →
      (r.readBits n).1.toNat = ofBitsLE (((padBits buf).drop (8 * (pad8 buf).size - 64)).take n)) :=
  Webp.Proofs.VP8LEntropyReader.crossing_read buf ns n hn hn' h1 h2

/-- The prefetch path used by `ReadSymbol`: after `FillBitWindow`, `PrefetchBits` is the next 32
    bits (zeros past the end) as long as not all bits are consumed, and after `SetBitPos(+n)` the
    end-of-stream test is exactly "more than the buffer holds". -/
theorem fill_prefetch_eq_peek {buf : Array UInt8} {r : Reader} {P : Nat} (hw : Win buf r P) (h64 : r.bitPos ≤ 64) :
    (P < 8 * (pad8 buf).size →
      r.fillBitWindow.prefetchBits.toNat = peekBits { data := ⟨pad8 buf⟩, pos := P } 32) ∧
    ∀ n, n ≤ 32 → ((r.fillBitWindow.advance n).isEndOfStream = true ↔ 8 * (pad8 buf).size < P + n) :=
  ⟨(Webp.Proofs.VP8LEntropyReader.fill_prefetch_eq_peek hw h64).2.2.2,
   fun n hn => Webp.Proofs.VP8LEntropyReader.fill_advance_eos_iff hw h64 n hn⟩

/-! ## non-vacuity -/

theorem exists_of_isOk {ε α : Type} {r : Res ε α} (h : r.isOk = true) : ∃ a, r = .ok a := by
  cases r with
  | ok a => exact ⟨a, rfl⟩
  | err e => cases h
  | panic => cases h
  | hang => cases h

/-- a complete code with lengths 1..14 and two of length 15 is accepted (hypothesis of
    `table_lookup_eq_canonical`) -/
example : ∃ code, buildCode #[1, 2, 3, 4, 5, 6, 7, 8, 9, 10, 11, 12, 13, 14, 15, 15] = .ok code :=
  exists_of_isOk (by decide +kernel)

/-- single symbol (zero-bit code) and the three rejected shapes -/
example : (∃ code, buildCode #[0, 0, 7] = .ok code) ∧ buildCode #[1, 1, 1] = .err .codeOversubscribed ∧
    buildCode #[1, 2] = .err .codeIncomplete ∧ buildCode #[0, 0] = .err .codeEmpty :=
  ⟨exists_of_isOk (by decide +kernel), by decide +kernel, by decide +kernel, by decide +kernel⟩

/-- the window of a fresh reader (hypothesis of `fill_prefetch_eq_peek`) -/
example (buf : Array UInt8) : Win buf (Reader.new buf) 0 := Webp.Proofs.VP8LEntropyReader.new_win buf

/-- hypotheses of `copyBlock_eq_spec` on an overlapping copy -/
example : (1 : Nat) ≤ 2 ∧ 2 ≤ 3 ∧ 3 + 5 ≤ (#[1, 2, 3, 0, 0, 0, 0, 0, 0] : Array UInt32).size := by decide

/-- `Rel` holds initially (hypothesis of `deferredCache_eq_eager` / `stepToken_refines`) -/
example (p : LoopParams) (hw : 0 < p.width) :
    Rel p { data := Array.replicate (p.width * p.height) 0, cache := cacheNew p.cacheBits,
            group := (getHTreeGroup p 0 0).getD 0 } #[] (cacheNew p.cacheBits) :=
  Webp.Proofs.VP8LEntropyLoop.Rel.init p hw

end Webp.Props.C03
