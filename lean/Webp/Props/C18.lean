import Webp.Proofs.AnimEncRun
import Webp.Proofs.AnimEncToy
/-
  Property C18 — animations keep their transparency in lossy and mixed modes.

  "When frames added to the animation encoder contain transparency, the played-back canvases have
   exactly the source alpha channel in lossy and mixed-codec modes too (alpha is always coded
   losslessly, as for still images): transparent stays transparent and opaque stays opaque in
   every frame. Enabling mixed mode never makes a picture lose its alpha channel."

  Models: `Webp.Impl.AnimEnc` (the encoder, `encodeFrameForAnimation`, `splitAlphaAndBitstream`,
  `decodeFrameForAnimation`), `Webp.Spec.Anim.play`.  The codec is a parameter with the contract
  `CodecAlphaExact` (both the VP8L codec and the VP8+ALPH codec return the source alpha plane;
  colour is unconstrained).  All theorems hold for every mode (`Lossless` × `AllowMixed` ×
  `Quality`), every Kmin/Kmax, every oracle — the mixed-codec choice is one of the oracle bits.
-/
namespace Webp.Props.C18
open Webp.Go Webp.Spec.Anim Webp.Impl Webp.Impl.AnimEnc Webp.Impl.AnimDec Webp.Proofs.AnimDecLoops
open Webp.Proofs.AnimDecPlay Webp.Proofs.AnimEncRect Webp.Proofs.AnimEncBlend
open Webp.Proofs.AnimEncPlay Webp.Proofs.AnimEncCodec Webp.Proofs.AnimEncStep
open Webp.Proofs.AnimEncRun Webp.Proofs.AnimEncToy

/-- "same alpha plane", for two canvases of `n` pixels -/
abbrev sameAlpha (n : Nat) : Canvas → Canvas → Bool := canvasRel pxAlphaEq n

/-! ## one frame: picture → payload → container → decoder -/

/-- **`split_payload`**: the muxer's `splitAlphaAndBitstream` recovers exactly the ALPH payload
    and the VP8 bit stream that `encodeFrameForAnimation` glued together
    (`"ALPH" + le32(len) + alpha + pad + bs`), for every payload below 4 GiB, odd or even. -/
theorem split_payload (alpha bs : Bytes) (hlen : alpha.length < 4294967296) :
    splitAlphaAndBitstream (alphPrefixed alpha bs) = (some alpha, bs) :=
  Webp.Proofs.AnimEncCodec.split_payload alpha bs hlen

/-- a bit stream that does not begin with `'A'` (every VP8 key frame: bit 0 of the first byte is
    0; every VP8L stream: first byte 0x2f) is passed through unsplit -/
theorem split_plain (b : UInt8) (t : Bytes) (hb : b.toNat ≠ 0x41) :
    splitAlphaAndBitstream (b :: t) = (none, b :: t) :=
  split_of_head b t hb

/-- **`frame_alpha_exact`**: on today's code a frame — lossless, lossy, and either choice of the
    mixed mode (`isLossless` is the codec that won) — decodes to a picture of the same size with
    exactly the source alpha plane. -/
theorem frame_alpha_exact (c : Codec) (hc : CodecAlphaExact c) (isLossless : Bool) (img : SubImage)
    (hbd : Bounded img) :
    SubImage.Rel pxAlphaEq (decodeFrame c (encodeFrameForAnimation false c isLossless img)) img :=
  Webp.Proofs.AnimEncCodec.frame_alpha_exact c hc isLossless img hbd

/-- the same for an emitted frame of any encoder configuration without the pinned behaviour -/
theorem emitted_frame_alpha_exact (cfg : Config) (hp : cfg.pins.alpha = false) (c : Codec)
    (hc : CodecAlphaExact c) (f : EFrame) (hbd : Bounded f.img) :
    SubImage.Rel pxAlphaEq (decodeFrame c (f.payload cfg c)) f.img := by
  unfold EFrame.payload
  rw [hp]
  exact frame_alpha_exact c hc _ f.img hbd

/-- 1×1 canvas, lossy -/
def cfgLossy (pins : Pins) : Config :=
  { w := 1, h := 1, lossless := false, allowMixed := false, quality := 75, kmax := maxInt, loop := 0,
    pins := pins }

def o0 : StepOracle := ⟨false, false, false, false, false, false⟩

/-- one half-transparent pixel -/
def S : Px := ⟨200, 16, 32, 128⟩

set_option maxRecDepth 100000 in
/-- **`lossy_drops_alpha_counterexample`** (pinned `encodeFrameForAnimation`, defect D4): the lossy
    frame carries no ALPH payload and plays back fully opaque; today's code keeps alpha 128. -/
theorem lossy_drops_alpha_counterexample :
    (splitAlphaAndBitstream (encodeFrameForAnimation true Toy.codec false ⟨1, 1, #[S]⟩)).1 = none ∧
    (encodeAll (cfgLossy { alpha := true }) (fun _ => o0) false [(⟨1, 1, #[S]⟩, 10)]).map
        (playback (cfgLossy { alpha := true }) Toy.codec) = some [#[⟨192, 16, 32, 255⟩]] ∧
    (splitAlphaAndBitstream (encodeFrameForAnimation false Toy.codec false ⟨1, 1, #[S]⟩)).1 = some [128] ∧
    (encodeAll (cfgLossy {}) (fun _ => o0) false [(⟨1, 1, #[S]⟩, 10)]).map
        (playback (cfgLossy {}) Toy.codec) = some [#[⟨192, 16, 32, 128⟩]] := by
  refine ⟨by decide, by decide, by decide, by decide⟩

/-! ## blending keeps alpha -/

/-- where either blend predicate accepted `(P, T)`, blending the played-back cleared target pixel
    over the played-back carried pixel has exactly the target's alpha -/
theorem blend_alpha_exact (s d P T : Px) (hs : s.a = (clearPx T).a) (hd : d.a = P.a)
    (hok : T.a ≠ 255 → P.a = T.a) : (blend s d).a = T.a :=
  (pxAlphaEq_iff _ _).mp
    (blend_alpha_sound s d P T ((pxAlphaEq_iff _ _).mpr hs) ((pxAlphaEq_iff _ _).mpr hd) hok)

/-- both predicates only let a non-opaque target pixel through when the carried pixel has the
    same alpha -/
theorem blend_predicates_alpha (m : Int) (P T : Px) (ht : T.a ≠ 255) :
    (okLossless P T = true → P.a = T.a) ∧ (okLossy m P T = true → P.a = T.a) :=
  ⟨fun h => okLossless_alpha P T h ht, fun h => okLossy_alpha m P T h ht⟩

/-- 2×1 canvas, lossy -/
def cfgLossy21 (pins : Pins) : Config :=
  { w := 2, h := 1, lossless := false, allowMixed := false, quality := 75, kmax := maxInt, loop := 0,
    pins := pins }

/-- the half-transparent pixel stays, the opaque pixel next to it changes -/
def selfBlendInputs : List (SubImage × Int) :=
  [(⟨2, 1, #[S, ⟨16, 32, 48, 255⟩]⟩, 10), (⟨2, 1, #[S, ⟨64, 80, 96, 255⟩]⟩, 20)]

set_option maxRecDepth 100000 in
/-- **the pinned blend handling loses alpha in lossy mode too** (defect D3): the unchanged
    half-transparent pixel inside the blended sub-frame comes back with alpha 192; with today's
    `clearBlendedTranslucent` it keeps 128. -/
theorem lossy_selfblend_counterexample :
    ((encodeAll (cfgLossy21 { blend := true }) (fun _ => o0) false selfBlendInputs).map
        (playback (cfgLossy21 { blend := true }) Toy.codec)).map
          (fun l => l.map (fun cv => cv.toList.map (·.a))) = some [[128, 255], [192, 255]] ∧
    ((encodeAll (cfgLossy21 {}) (fun _ => o0) false selfBlendInputs).map
        (playback (cfgLossy21 {}) Toy.codec)).map
          (fun l => l.map (fun cv => cv.toList.map (·.a))) = some [[128, 255], [128, 255]] := by
  refine ⟨by decide, by decide⟩

/-! ## playback -/

/-- today's encoder in any mode -/
abbrev AnyEncoder (cfg : Config) : Prop := Config.Valid cfg

/-- the ingredients for the mode of `cfg` -/
theorem mode_cases (cfg : Config) :
    ∃ ok, PxRel pxAlphaEq ok ∧ BlendOK cfg ok := by
  cases hl : cfg.lossless with
  | true => exact ⟨okLossless, pxRel_alpha_lossless, blendOK_lossless cfg hl⟩
  | false => exact ⟨okLossy (qualityToMaxDiff cfg.quality), pxRel_alpha_lossy _, blendOK_lossy cfg hl⟩

/-- the input pictures as placed on the canvas -/
def inputCanvases (cfg : Config) (inputs : List (SubImage × Int)) : List Canvas :=
  (placed cfg inputs).map Prod.fst

/-- **`playback_alpha`** — for every mode (lossy, lossless, mixed on or off, any quality), every
    canvas size, every list of input pictures, all durations, every Kmin/Kmax, every oracle
    (including every mixed-codec choice) and every codec that keeps alpha: the written file plays
    back, after removal of consecutive pictures with the same alpha plane on both sides, as the
    alpha planes of the inputs, one by one and in order, exactly. -/
theorem playback_alpha (cfg : Config) (he : AnyEncoder cfg) (c : Codec) (hc : CodecAlphaExact c)
    (oracle : Nat → StepOracle) (stillSmaller : Bool) (inputs : List (SubImage × Int)) (hwf : WF inputs)
    (out : Output) (hout : encodeAll cfg oracle stillSmaller inputs = some out) :
    listRel (sameAlpha (cfg.w * cfg.h))
      (dedup (sameAlpha (cfg.w * cfg.h)) (playback cfg c out))
      (dedup (sameAlpha (cfg.w * cfg.h)) (inputCanvases cfg inputs)) = true := by
  obtain ⟨ok, hR, hbok⟩ := mode_cases cfg
  exact (close_spec hR cfg c he hbok (decodesAll_alpha cfg c hc he.nopinAlpha) oracle stillSmaller
    inputs hwf out hout).2.2.2.1

/-- **alpha of every frame** ("transparent stays transparent and opaque stays opaque in every
    frame"): after every `AddFrame` call (every non-empty input list is a prefix of a longer run)
    the picture the emitted frames end on has, pixel by pixel, exactly the alpha of the picture
    just added; the canvases played before never change afterwards (`playback_prefix_stable`). -/
theorem playback_alpha_every_frame (cfg : Config) (he : AnyEncoder cfg) (c : Codec)
    (hc : CodecAlphaExact c) (oracle : Nat → StepOracle) (inputs : List (SubImage × Int))
    (hwf : WF inputs) (hne : inputs ≠ []) :
    ∃ last x, (play cfg.w cfg.h ((run cfg oracle inputs).frames.map (EFrame.played cfg c))).getLast? = some last ∧
      inputs.getLast? = some x ∧
      ∀ i, i < cfg.w * cfg.h → (last.px i).a = ((placeOnCanvas cfg.w cfg.h x.1).px i).a := by
  obtain ⟨ok, hR, hbok⟩ := mode_cases cfg
  have hrun := run_inv hR cfg c he hbok (decodesAll_alpha cfg c hc he.nopinAlpha) oracle inputs hwf hne
  generalize run cfg oracle inputs = st at hrun
  obtain ⟨init, l, hf, _, _⟩ := hrun.inv.snoc
  obtain ⟨insI, dl, hins⟩ := hrun.last
  have hl : (placed cfg inputs).getLast? = some (st.prevCanvas, dl) := by rw [hins]; simp
  unfold placed at hl
  rw [List.getLast?_map] at hl
  cases hx : inputs.getLast? with
  | none => rw [hx] at hl; cases hl
  | some x =>
    rw [hx] at hl
    simp only [Option.map_some, Option.some.injEq, Prod.mk.injEq] at hl
    refine ⟨(E cfg c st.frames).1, x, ?_, rfl, fun i hi => ?_⟩
    · exact playFrom_getLast blend cfg.w cfg.h (transparent cfg.w cfg.h) none _ (by rw [hf]; simp)
    · rw [hl.1]
      exact (pxAlphaEq_iff _ _).mp (hrun.inv.rel i hi)

/-- pictures already played are not changed by frames emitted later: a later `AddFrame` call
    only appends frames and changes the duration / dispose flag of the *last* frame, neither of
    which influences a picture already shown -/
theorem playback_prefix_stable (w h : Nat) (fs : List Frame) (f : Frame) :
    play w h (fs ++ [f]) = play w h fs ++ [(play w h (fs ++ [f])).getLast?.getD #[]] ∧
    ∀ b, play w h (fs ++ [{ f with disposeBG := b }]) = play w h (fs ++ [f]) := by
  constructor
  · rw [play_snoc]
    simp
  · intro b
    rw [play_snoc, play_snoc, endOf_snoc, endOf_snoc, draw_setDispose]

/-- **`mixed_never_drops_alpha`**: switching `AllowMixed` on keeps every guarantee — whatever the
    size comparisons between the two codecs turn out to be (they are oracle bits), every picture
    plays back with exactly its source alpha. -/
theorem mixed_never_drops_alpha (cfg : Config) (he : AnyEncoder cfg) (c : Codec) (hc : CodecAlphaExact c)
    (oracle : Nat → StepOracle) (stillSmaller : Bool) (inputs : List (SubImage × Int)) (hwf : WF inputs)
    (out : Output)
    (hout : encodeAll { cfg with allowMixed := true } oracle stillSmaller inputs = some out) :
    listRel (sameAlpha (cfg.w * cfg.h))
      (dedup (sameAlpha (cfg.w * cfg.h)) (playback { cfg with allowMixed := true } c out))
      (dedup (sameAlpha (cfg.w * cfg.h)) (inputCanvases cfg inputs)) = true :=
  playback_alpha { cfg with allowMixed := true }
    ⟨he.wpos, he.wmax, he.hpos, he.hmax, he.nopinBlend, he.nopinFiller, he.nopinAlpha⟩ c hc oracle
    stillSmaller inputs hwf out hout

/-- and each emitted frame of a mixed animation, whichever codec won, decodes with the alpha of
    the sub-image that was handed to the codecs -/
theorem mixed_frame_keeps_alpha (c : Codec) (hc : CodecAlphaExact c) (img : SubImage) (hbd : Bounded img) :
    SubImage.Rel pxAlphaEq (decodeFrame c (encodeFrameForAnimation false c true img)) img ∧
    SubImage.Rel pxAlphaEq (decodeFrame c (encodeFrameForAnimation false c false img)) img :=
  ⟨frame_alpha_exact c hc true img hbd, frame_alpha_exact c hc false img hbd⟩

/-! ## non-vacuity -/

/-- the codec contract is satisfiable: the model's toy codec keeps alpha with both codecs while
    its lossy codec does change colours -/
example : CodecAlphaExact Toy.codec := toy_alphaExact

example : ((Toy.decLossy (Toy.encLossy ⟨1, 1, #[S]⟩).1 (Toy.encLossy ⟨1, 1, #[S]⟩).2).at 0) = ⟨192, 16, 32, 128⟩ := by
  decide

theorem cfgMixed_ok : AnyEncoder { cfgLossy21 {} with allowMixed := true } :=
  ⟨by decide, by decide, by decide, by decide, rfl, rfl, rfl⟩

theorem selfBlend_wf : WF selfBlendInputs := by
  intro x hx
  simp only [selfBlendInputs, List.mem_cons, List.mem_nil_iff, or_false] at hx
  rcases hx with rfl | rfl <;> rfl

/-- oracle that makes the reversed (lossless) codec win for the sub-frame of the second call -/
def oAlt : Nat → StepOracle := fun i => if i = 1 then { o0 with altNone := true } else o0

set_option maxRecDepth 100000 in
/-- the hypotheses of `playback_alpha` / `mixed_never_drops_alpha` hold on a non-trivial instance:
    lossy + mixed, a blended sub-frame containing an unchanged half-transparent pixel, the first
    frame lossy and the second lossless -/
example : ∃ out, encodeAll { cfgLossy21 {} with allowMixed := true } oAlt false selfBlendInputs = some out ∧
    WF selfBlendInputs ∧ out.frames.map (·.useAlt) = [false, true] ∧
    out.frames.map (·.blendNone) = [true, false] ∧
    2 ≤ (dedup (sameAlpha 2) (inputCanvases (cfgLossy21 {}) [selfBlendInputs.head!, (⟨2, 1, #[⟨1, 1, 1, 255⟩, S]⟩, 5)])).length := by
  refine ⟨_, rfl, selfBlend_wf, by decide, by decide, by decide⟩

/-- `split_payload` / `frame_alpha_exact` hypotheses: an odd-sized ALPH payload -/
example : splitAlphaAndBitstream (alphPrefixed [9, 8, 7] [0, 1, 2]) = (some [9, 8, 7], [0, 1, 2]) ∧
    Bounded ⟨1, 1, #[S]⟩ := by
  refine ⟨by decide, by unfold Bounded; decide⟩

end Webp.Props.C18
