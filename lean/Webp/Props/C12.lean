import Webp.Impl.Partition
import Webp.Impl.RowPipe
import Webp.Proofs.Partition
import Webp.Proofs.RowPipeProgress
import Webp.Props.C10
/-
  C12 — "Output does not depend on how much parallelism the Go runtime offers: for every input
  and option set, Encode writes the same bytes and Decode returns the same pixels for every
  GOMAXPROCS value."

  This file: the places where the worker count only *partitions* work.
  * every WaitGroup fan-out formula of the code base hands out an exact, ordered partition of
    its index range for every worker count `n ≥ 1` (`partition_exact`), hence a per-element map
    over read-only input produces the serial loop's array (`parMap_eq_serialMap`);
  * the row pipeline produces the serial encoder's result for every worker count
    (`pipe_worker_count_independent`);
  * the channel work queue of `DecodeFramesParallel`: decoded images do not depend on the
    arrival order, the *identity* of the returned error does (`queue_firstErr_order_dependent`).
  Assumed, not proved here: inside each fan-out the per-element function reads only read-only
  input and writes only its own element (tied by the race build and the GOMAXPROCS sweeps).
  Not in this file: the two sites where GOMAXPROCS *selects* between different routines
  (`lossy/encode.go:1356 useParallel`, `lossless/hashchain.go:211-216 Fill`) — defect D8.
-/
namespace Webp.Props.C12
open Webp.Impl Webp.Impl.Partition

/-- **partition_exact.**  For every range length `H ≥ 0`, every offset `lo` and every worker
    count `n ≥ 1`, each of the three range formulas used by the fan-outs (A: proportional
    boundaries `i·H/n`; C: `⌊H/n⌋` chunks with the remainder to the last worker; D: `⌈H/n⌉`
    chunks clipped at the end — also the formula of `computeAlphas` and `fillParallel`) covers
    `[lo, lo+H)` exactly: every index is handed to a worker, none outside the range is, and
    lower-numbered workers get strictly smaller indices (so the ranges are pairwise disjoint). -/
theorem partition_exact (lo H n : Nat) (hn : 0 < n) :
    Exact (schemeA H n) 0 H ∧ Exact (schemeC lo H n) lo (lo + H) ∧
    Exact (schemeD lo H n) lo (lo + H) :=
  ⟨exact_A H n hn, exact_C lo H n hn, exact_D lo H n hn⟩

/-- no two workers are handed the same index (no write-write race on per-element outputs) -/
theorem partition_disjoint {S : Scheme} {lo hi : Nat} (h : Exact S lo hi) {i j k : Nat}
    (hi' : i < S.n) (hj : j < S.n) (hne : i ≠ j) (hm : S.mem i k) : ¬ S.mem j k :=
  h.disjoint hi' hj hne hm

/-! #### the sites, with their own worker-count expressions (`G` = GOMAXPROCS ≥ 1) -/

/-- encode.go:759-766 importImage, Y rows: `nWorkers = min(G, padH)`, `padH ≥ 1` -/
theorem site_importY (padH G : Nat) (hG : 0 < G) (hH : 0 < padH) :
    Exact (schemeA padH (min G padH)) 0 padH := exact_A _ _ (by omega)

/-- encode.go:838-845 importImage, U/V row pairs: `nUVWorkers = min(G, halfPadH)` -/
theorem site_importUV (halfPadH G : Nat) (hG : 0 < G) (hH : 0 < halfPadH) :
    Exact (schemeA halfPadH (min G halfPadH)) 0 halfPadH := exact_A _ _ (by omega)

/-- at those two sites every worker gets at least one row (the clamp `n ≤ H`) -/
theorem site_import_nonempty (H G i : Nat) (hG : 0 < G) (hH : 0 < H) :
    (schemeA H (min G H)).st i < (schemeA H (min G H)).en i :=
  nonempty_A H (min G H) i (by omega) (by omega)

/-- encode_analysis.go:251-279 computeAlphas: `numWorkers = min(G, mbH*mbW)`, parallel branch
    only for `numWorkers ≥ 2`; ranges over `mbH`; launching stops at the first empty range -/
theorem site_computeAlphas (mbH mbW G : Nat) (h2 : 2 ≤ min G (mbH * mbW)) :
    Exact (schemeD 0 mbH (min G (mbH * mbW))) 0 (0 + mbH) ∧
    (∀ i j k, i ≤ j → (schemeD 0 mbH (min G (mbH * mbW))).en i
        ≤ (schemeD 0 mbH (min G (mbH * mbW))).st i →
      ¬ (schemeD 0 mbH (min G (mbH * mbW))).mem j k) :=
  ⟨exact_D _ _ _ (by omega), fun i j k hij he => schemeD_break 0 mbH _ i j hij he k⟩

/-- decode.go:345-354 argbToNRGBA: `numWorkers = G > 1` (not clamped to `height`) -/
theorem site_argbToNRGBA (height G : Nat) (hG : 1 < G) :
    Exact (schemeC 0 height G) 0 (0 + height) := exact_C _ _ _ (by omega)

/-- decode_transform.go:545-557 colorSpaceInverseTransformParallel:
    `numWorkers = min(G, numRows)`, `numRows ≥ 1` (guard `numPixels ≥ 100000`) -/
theorem site_colorSpaceInverse (yStart numRows G : Nat) (hG : 0 < G) (hR : 0 < numRows) :
    Exact (schemeC yStart numRows (min G numRows)) yStart (yStart + numRows) :=
  exact_C _ _ _ (by omega)

/-- encode_predictor.go:397-409 (ResidualImage) and :727-739 (ColorSpaceTransform):
    `numWorkers = min(G, tileYSize)`, `tileYSize ≥ 1` -/
theorem site_predictorTiles (tileYSize G : Nat) (hG : 0 < G) (hT : 0 < tileYSize) :
    Exact (schemeD 0 tileYSize (min G tileYSize)) 0 (0 + tileYSize) := exact_D _ _ _ (by omega)

/-- encode_histogram.go:1261-1273 (histogramRemap, `n ≥ 64`) and :1364-1376
    (parallelComputeHistogramCost, `n ≥ 256`): `numWorkers = min(G, n)` -/
theorem site_histograms (n G : Nat) (hG : 0 < G) (hn : 0 < n) :
    Exact (schemeD 0 n (min G n)) 0 (0 + n) := exact_D _ _ _ (by omega)

/-- hashchain.go:339-354 fillParallel: positions `[1, size-1)`,
    `numWorkers = max(1, min(G, size/1000))` -/
theorem site_fillParallel (size G : Nat) (hs : 2 ≤ size) :
    Exact (schemeD 1 (size - 2) (max 1 (min G (size / 1000)))) 1 (size - 1) := by
  have := exact_D 1 (size - 2) (max 1 (min G (size / 1000))) (by omega)
  have e : 1 + (size - 2) = size - 1 := by omega
  rwa [e] at this

/-- **parMap_eq_serialMap.**  Let `g` be any per-element function (of the index and read-only
    input).  Take any log of element writes `out[k] = g k` — in any order, the workers'
    writes interleaved in any way — whose written indices are exactly the union of the ranges
    handed out by an exact partition of `[lo,hi)`.  The array it leaves is the array the serial
    loop `for k := lo; k < hi; k++ { out[k] = g k }` leaves.  With `partition_exact`: the
    same array for every worker count. -/
theorem parMap_eq_serialMap {β : Type} {S : Scheme} {lo hi : Nat} (hex : Exact S lo hi)
    (g : Nat → β) (out : Nat → β) (ws : List Nat)
    (hws : ∀ k, k ∈ ws ↔ ∃ i, i < S.n ∧ S.mem i k) :
    runWrites g out ws = serialMap g out lo hi :=
  parMap_eq_serialMap_of_exact hex g out ws hws

/-- instance: two different worker counts at a formula-D site give the same array -/
theorem parMap_worker_count_independent {β : Type} (lo H n n' : Nat) (hn : 0 < n) (hn' : 0 < n')
    (g : Nat → β) (out : Nat → β) (ws ws' : List Nat)
    (hws : ∀ k, k ∈ ws ↔ ∃ i, i < (schemeD lo H n).n ∧ (schemeD lo H n).mem i k)
    (hws' : ∀ k, k ∈ ws' ↔ ∃ i, i < (schemeD lo H n').n ∧ (schemeD lo H n').mem i k) :
    runWrites g out ws = runWrites g out ws' := by
  rw [parMap_eq_serialMap (exact_D lo H n hn) g out ws hws,
      parMap_eq_serialMap (exact_D lo H n' hn') g out ws' hws']

/-- **the row pipeline is independent of the worker count.**  Two complete executions of the
    pipeline on the same grid with the same macroblock function, with any two worker counts
    and any two schedules, produce the same results. -/
theorem pipe_worker_count_independent {Val Ctx : Type} (P : RowPipe.Params Val Ctx) (n' : Nat)
    {s s' : RowPipe.State Val Ctx}
    (hr : RowPipe.Reachable P s) (hf : RowPipe.Final P s)
    (hr' : RowPipe.Reachable { P with n := n' } s') (hf' : RowPipe.Final { P with n := n' } s') :
    s.out = s'.out := by
  have h := RowPipe.inv_reachable hr
  have h' := RowPipe.inv_reachable hr'
  funext y x
  rw [h.hOut y x, h'.hOut y x]
  have hc : RowPipe.cell { P with n := n' } y x = RowPipe.cell P y x := by
    have key : ∀ y, RowPipe.topBefore { P with n := n' } y = RowPipe.topBefore P y := by
      intro y
      induction y with
      | zero => rfl
      | succ y ih =>
        funext c
        simp only [RowPipe.topBefore]
        have e : RowPipe.cellAt { P with n := n' } y = RowPipe.cellAt P y := by
          funext tp c
          simp only [RowPipe.cellAt]
          have el : ∀ c, RowPipe.leftAt { P with n := n' } y tp c = RowPipe.leftAt P y tp c := by
            intro c; induction c with
            | zero => rfl
            | succ c ihc => simp only [RowPipe.leftAt, ihc]
          rw [el]
        rw [e, ih]
    simp only [RowPipe.cell, key]
    have el : ∀ tp c, RowPipe.leftAt { P with n := n' } y tp c = RowPipe.leftAt P y tp c := by
      intro tp c; induction c with
      | zero => rfl
      | succ c ihc => simp only [RowPipe.leftAt, ihc]
    simp only [RowPipe.cellAt, el]
  by_cases hy : y < P.mbH
  · rw [h.hRec.2 y (by rw [hf.2]; exact hy), h'.hRec.2 y (by rw [hf'.2]; exact hy), hc]
  · rw [h.hHigh y (by omega), h'.hHigh y (Nat.le_of_not_lt hy)]; simp

/-! #### the channel work queue of `DecodeFramesParallel` -/

/-- **queue_images_order_free.**  The multiset of results delivered on `results` is fixed by the
    channel semantics (each index exactly once); for any two arrival orders (permutations) the
    images left in `a.Frames` are the same. -/
theorem queue_images_order_free {Img Err : Type} (frames : Nat → Option Img)
    (rs rs' : List (Nat × DecRes Img Err)) (hp : rs.Perm rs')
    (hnd : (rs.map Prod.fst).Nodup) : (collect frames rs).1 = (collect frames rs').1 := by
  have hnd' : (rs'.map Prod.fst).Nodup := (hp.map Prod.fst).nodup_iff.mp hnd
  funext k
  simp only [collect]
  rw [collect_img rs frames none hnd k, collect_img rs' frames none hnd' k]
  -- `find?` on a key-unique list depends on membership only
  have key : ∀ (l : List (Nat × DecRes Img Err)), (l.map Prod.fst).Nodup → ∀ r,
      l.find? (fun r => r.1 == k) = some r ↔ (r ∈ l ∧ r.1 = k) := by
    intro l
    induction l with
    | nil => intro _ r; simp
    | cons a l ih =>
      intro hn r
      have hn' := (List.nodup_cons.mp hn).2
      have hna : a.1 ∉ l.map Prod.fst := (List.nodup_cons.mp hn).1
      simp only [List.find?_cons]
      by_cases ha : a.1 = k
      · simp only [ha, beq_self_eq_true, Option.some.injEq, List.mem_cons]
        constructor
        · intro e; subst e; exact ⟨Or.inl rfl, ha⟩
        · rintro ⟨h1 | h1, h2⟩
          · exact h1.symm
          · exfalso; apply hna; rw [ha, ← h2]; exact List.mem_map.mpr ⟨r, h1, rfl⟩
      · have hb : (a.1 == k) = false := by simp [ha]
        simp only [hb, List.mem_cons]
        rw [ih hn' r]
        constructor
        · rintro ⟨h1, h2⟩; exact ⟨Or.inr h1, h2⟩
        · rintro ⟨h1 | h1, h2⟩
          · subst h1; exact absurd h2 ha
          · exact ⟨h1, h2⟩
  have : rs.find? (fun r => r.1 == k) = rs'.find? (fun r => r.1 == k) := by
    cases h1 : rs.find? (fun r => r.1 == k) with
    | some r =>
      have := (key rs hnd r).mp h1
      exact ((key rs' hnd' r).mpr ⟨hp.mem_iff.mp this.1, this.2⟩).symm
    | none =>
      cases h2 : rs'.find? (fun r => r.1 == k) with
      | none => rfl
      | some r =>
        have := (key rs' hnd' r).mp h2
        have := (key rs hnd r).mpr ⟨hp.mem_iff.mpr this.1, this.2⟩
        rw [h1] at this; cases this
  rw [this]

/-- whether an error is returned at all is order-free as well -/
theorem queue_error_presence_order_free {Img Err : Type} (frames : Nat → Option Img)
    (rs rs' : List (Nat × DecRes Img Err)) (hp : rs.Perm rs') :
    (collect frames rs).2.isSome = (collect frames rs').2.isSome := by
  simp only [collect, collect_err_isSome, Option.isSome_none, Bool.false_or]
  have : ∀ p : Nat × DecRes Img Err → Bool, rs.any p = rs'.any p := by
    intro p
    cases h : rs'.any p with
    | true =>
      obtain ⟨x, hx, hpx⟩ := List.any_eq_true.mp h
      exact List.any_eq_true.mpr ⟨x, hp.mem_iff.mpr hx, hpx⟩
    | false =>
      cases h' : rs.any p with
      | false => rfl
      | true =>
        obtain ⟨x, hx, hpx⟩ := List.any_eq_true.mp h'
        have := List.any_eq_true.mpr ⟨x, hp.mem_iff.mp hx, hpx⟩
        rw [h] at this; cases this
  rw [this]

/-- **queue_firstErr_order_dependent** (finding).  *Which* error `DecodeFramesParallel` returns
    depends on the arrival order: with two undecodable frames (indices 0 and 2, errors 10 and
    20) and one good frame, the two arrival orders return different errors.  With
    GOMAXPROCS = 1 a single worker drains the queue in index order, so the result also
    depends on the worker count.  (The decoded images are the same in both orders.) -/
theorem queue_firstErr_order_dependent :
    ∃ (rs rs' : List (Nat × DecRes Nat Nat)), rs.Perm rs' ∧ (rs.map Prod.fst).Nodup ∧
      (collect (fun _ => none) rs).2 ≠ (collect (fun _ => none) rs').2 := by
  refine ⟨[(0, .err 10), (1, .ok 7), (2, .err 20)], [(2, .err 20), (1, .ok 7), (0, .err 10)],
    ?_, by decide, by decide⟩
  exact (List.Perm.swap _ _ _).trans
    ((List.Perm.cons _ (List.Perm.swap _ _ _)).trans (List.Perm.swap _ _ _))

/-! #### non-vacuity and edge-case witnesses -/

/-- an interleaved write log of a 3-worker formula-D fan-out over 7 elements: worker 2 first,
    workers 0 and 1 alternating -/
example : runWrites (fun k => k * k + 1) (fun _ => 0) [6, 0, 3, 1, 4, 2, 5]
    = serialMap (fun k => k * k + 1) (fun _ => 0) 0 (0 + 7) := by
  apply parMap_eq_serialMap (exact_D 0 7 3 (by decide))
  intro k
  have hk : k ∈ [6, 0, 3, 1, 4, 2, 5] ↔ k < 7 := by simp; omega
  rw [hk]
  constructor
  · intro h
    have h3 : (7 + 3 - 1) / 3 = 3 := by decide
    refine ⟨k / 3, (by show k / 3 < 3; omega), ?_⟩
    simp only [Scheme.mem, schemeD, h3]; omega
  · rintro ⟨i, hi, hm⟩
    exact ((exact_D 0 7 3 (by decide)).inRange i k hi hm).2

/-- the 3×3 grid of `Props/C10.lean` encoded by a single worker, strictly row after row -/
def run33one : List RowPipe.Action :=
  [.claim 0, .process 0, .process 0, .process 0, .finishRow 0, .record,
   .claim 0, .process 0, .process 0, .process 0, .finishRow 0, .record,
   .claim 0, .process 0, .process 0, .process 0, .finishRow 0, .record, .claim 0]

/-- hypotheses of `pipe_worker_count_independent` are satisfiable: a complete pipelined
    two-worker execution and a complete one-worker execution of the same grid -/
example : ∃ s s', RowPipe.Reachable C10.P33 s ∧ RowPipe.Final C10.P33 s ∧
    RowPipe.Reachable { C10.P33 with n := 1 } s' ∧ RowPipe.Final { C10.P33 with n := 1 } s' := by
  obtain ⟨s, hr, hp⟩ := RowPipe.run?_any C10.P33 C10.run33 (RowPipe.finalB C10.P33)
    (by decide +kernel)
  obtain ⟨s', hr', hp'⟩ := RowPipe.run?_any { C10.P33 with n := 1 } run33one
    (RowPipe.finalB { C10.P33 with n := 1 }) (by decide +kernel)
  exact ⟨s, s', hr, RowPipe.finalB_sound _ hp, hr', RowPipe.finalB_sound _ hp'⟩

/-- the hypothesis of `queue_images_order_free` holds for a real permutation -/
example : ([(0, .ok 5), (1, .err 9), (2, .ok 6)] : List (Nat × DecRes Nat Nat)).Perm
    [(2, .ok 6), (1, .err 9), (0, .ok 5)] :=
  (List.Perm.swap _ _ _).trans
    ((List.Perm.cons _ (List.Perm.swap _ _ _)).trans (List.Perm.swap _ _ _))

/-- Formula D does not clip `start`: for `H = 5`, `n = 4` (e.g. `tileYSize = 5`, `tileXSize = 4`,
    GOMAXPROCS = 4 at encode_predictor.go:403) worker 3 is handed `[6, 5)` — start beyond the
    range and beyond its own end.  Harmless only because every site uses the bounds in
    `for k := start; k < end; k++`; as slice bounds `[6:5]` would panic. -/
theorem schemeD_inverted_witness :
    (schemeD 0 5 4).st 3 = 6 ∧ (schemeD 0 5 4).en 3 = 5 := by decide

/-- same formula at encode_histogram.go:1265 (`n = 65 ≥ 64` histograms, GOMAXPROCS = 16):
    worker 13 gets `[65,65)`, worker 14 `[70,65)` -/
theorem schemeD_inverted_witness_histo :
    (schemeD 0 65 16).st 13 = 65 ∧ (schemeD 0 65 16).en 13 = 65 ∧
    (schemeD 0 65 16).st 14 = 70 ∧ (schemeD 0 65 16).en 14 = 65 := by decide

/-- hashchain.go:346: an inverted range needs more than 1000 workers
    (`size = 1003003`, GOMAXPROCS ≥ 1003): the last worker gets `[1003003, 1003002)` -/
theorem schemeD_inverted_witness_hashchain :
    (schemeD 1 (1003003 - 2) 1003).st 1002 = 1003003 ∧
    (schemeD 1 (1003003 - 2) 1003).en 1002 = 1003002 := by decide

/-- Formula C is not clamped at decode.go:345: a 100000×1 image with GOMAXPROCS = 2 gives
    worker 0 the empty range `[0,0)` and worker 1 everything. -/
theorem schemeC_empty_witness :
    (schemeC 0 1 2).st 0 = 0 ∧ (schemeC 0 1 2).en 0 = 0 ∧
    (schemeC 0 1 2).st 1 = 0 ∧ (schemeC 0 1 2).en 1 = 1 := by decide

end Webp.Props.C12
