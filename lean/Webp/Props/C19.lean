import Webp.Proofs.ImportAll
import Webp.Proofs.ImportRGBA
import Webp.Proofs.ImportStd
/-
  Property C19 — Encode depends on the picture, not on how pixels are stored.

  "The same non-premultiplied pixels supplied as an *image.NRGBA at the origin, as a sub-image view
   with non-zero origin and a larger stride, as a buffer with extra stride padding, or through a
   generic image.Image yielding the same colours produce byte-identical files, for lossy and
   lossless encoding alike.  Pixels outside the image's bounds never influence the output, and the
   caller's image is never modified."

  Model: `Webp.Impl.Import` — every loop of /repo/encode.go and /repo/internal/lossy/encode.go that
  reads the caller's `Pix`, and the generic `At()` fallbacks.  Everything downstream
  (`lossless.Encode(argb, w, h, cfg)`, `lossy.EncodeAlpha(alpha, …)`, `sharpyuv.Convert(rgb, …)`,
  the VP8 encoder after `importImage`) takes only the imported arrays and the options, so equal
  imports give equal files as far as C19 is concerned (that the downstream code is a function of
  its arguments is C10/C11/C12's business).

  * `fast_eq_generic_<site>`  each fast path = the generic path on `NRGBAAt`, for every valid image,
                              every stale destination buffer, every worker count
  * `embedding_invariant`     origin, parent size, stride padding are irrelevant
  * `outside_irrelevant`      bytes of `Pix` outside the `4·w·h` picture bytes are never read
  * `import_in_bounds`        no index out of range under `validNRGBA`
  * `rgba_*`                  `*image.RGBA` inputs: the fast paths do NOT agree with the generic path
                              (genuine C19 defects for premultiplied input, see below)
  * `caller_untouched`        cannot be expressed in a pure model (imports are functions of the
                              image value and return new values); it is a harness obligation:
                              suite `import` checksums the caller's whole buffer around every Encode.
-/
namespace Webp.Props.C19
open Webp.Go Webp.Impl.Import Webp.Proofs.Import

/-! ## each fast path is the generic path on `NRGBAAt` -/

/-- `encodeLossless`, NRGBA fast path (encode.go:638-645) vs generic path (664-669). -/
theorem fast_eq_generic_lossless_buffered (img : Img) (v : Valid img) (buf₁ buf₂ : Array UInt32)
    (h₁ : buf₁.size = img.w * img.h) (h₂ : buf₂.size = img.w * img.h) :
    encodeLosslessNRGBA img buf₁ = losslessGeneric img.atNRGBA img.bounds buf₂ ∧
    encodeLosslessNRGBA img buf₁ = .ok (argbOf img.rel img.w img.h) :=
  ⟨by rw [encodeLosslessNRGBA, losslessDirect_spec id img v _ h₁,
        losslessGeneric_spec _ _ _ _ _ (shows_atNRGBA img v) _ h₂]; rfl,
   by rw [encodeLosslessNRGBA, losslessDirect_spec id img v _ h₁]; rfl⟩

/-- `encodeLosslessToWriter`, NRGBA fast path (encode.go:705-712) vs generic path (730-735). -/
theorem fast_eq_generic_lossless_streaming (img : Img) (v : Valid img) (buf₁ buf₂ : Array UInt32)
    (h₁ : buf₁.size = img.w * img.h) (h₂ : buf₂.size = img.w * img.h) :
    encodeLosslessToWriterNRGBA img buf₁ = losslessGeneric img.atNRGBA img.bounds buf₂ ∧
    encodeLosslessToWriterNRGBA img buf₁ = .ok (argbOf img.rel img.w img.h) :=
  ⟨by rw [encodeLosslessToWriterNRGBA, losslessDirect_spec id img v _ h₁,
        losslessGeneric_spec _ _ _ _ _ (shows_atNRGBA img v) _ h₂]; rfl,
   by rw [encodeLosslessToWriterNRGBA, losslessDirect_spec id img v _ h₁]; rfl⟩

/-- `webp.imageHasAlpha` (encode.go:1134-1145 vs 1158-1166). -/
theorem fast_eq_generic_hasAlpha (img : Img) (v : Valid img) :
    hasAlphaFast img = hasAlphaGeneric img.atNRGBA img.bounds ∧
    hasAlphaFast img = .ok (anyAlpha img.rel img.w img.h) :=
  ⟨by rw [hasAlphaFast_spec img v, hasAlphaGeneric_spec _ _ _ _ _ (shows_atNRGBA img v)],
   hasAlphaFast_spec img v⟩

/-- `lossy.imageHasAlpha`, the AND-reduction unrolled by four (lossy/encode.go:948-972 vs 997-1006). -/
theorem fast_eq_generic_lossyHasAlpha (img : Img) (v : Valid img) :
    lossyHasAlphaFast img = lossyHasAlphaGeneric img.atNRGBA img.bounds ∧
    lossyHasAlphaFast img = hasAlphaFast img :=
  ⟨by rw [lossyHasAlphaFast_spec img v, lossyHasAlphaGeneric, hasAlphaGeneric_spec _ _ _ _ _ (shows_atNRGBA img v)],
   by rw [lossyHasAlphaFast_spec img v, hasAlphaFast_spec img v]⟩

/-- `extractAlphaWith` (encode.go:1249-1258 vs 1269-1275). -/
theorem fast_eq_generic_extractAlpha (img : Img) (v : Valid img) (buf₁ buf₂ : Array UInt8)
    (h₁ : buf₁.size = img.w * img.h) (h₂ : buf₂.size = img.w * img.h) :
    extractAlphaFast img buf₁ = extractAlphaGeneric img.atNRGBA img.bounds buf₂ ∧
    extractAlphaFast img buf₁ = .ok (alphaOf img.rel img.w img.h) :=
  ⟨by rw [extractAlphaFast_spec img v _ h₁, extractAlphaGeneric_spec _ _ _ _ _ (shows_atNRGBA img v) _ h₂],
   extractAlphaFast_spec img v _ h₁⟩

/-- `cleanupTransparentAreaLossyWith`, copy-in by `copy` of row slices (encode.go:798-803 vs 828-835).
    The result is a fresh buffer; the caller's `Pix` is only ever a source. -/
theorem fast_eq_generic_cleanupCopy (img : Img) (v : Valid img) (buf₁ buf₂ : Array UInt8)
    (h₁ : buf₁.size = img.w * img.h * 4) (h₂ : buf₂.size = img.w * img.h * 4) :
    cleanupCopyNRGBA img buf₁ = cleanupCopyGeneric img.atNRGBA img.bounds buf₂ ∧
    cleanupCopyNRGBA img buf₁ = .ok (bytesOf img.rel img.w img.h) :=
  ⟨by rw [cleanupCopyNRGBA_spec img v _ h₁, cleanupCopyGeneric_spec _ _ _ _ _ (shows_atNRGBA img v) _ h₂],
   cleanupCopyNRGBA_spec img v _ h₁⟩

/-- `sharpYUVConvert`, packed RGB (encode.go:1189-1200 vs 1213-1223). -/
theorem fast_eq_generic_sharpRGB (img : Img) (v : Valid img) (buf₁ buf₂ : Array UInt8)
    (h₁ : buf₁.size = img.w * img.h * 3) (h₂ : buf₂.size = img.w * img.h * 3) :
    sharpRGBFast img buf₁ = sharpRGBGeneric img.atNRGBA img.bounds buf₂ ∧
    sharpRGBFast img buf₁ = .ok (rgbOf img.rel img.w img.h) :=
  ⟨by rw [sharpRGBFast_spec img v _ h₁, sharpRGBGeneric_spec _ _ _ _ _ (shows_atNRGBA img v) _ h₂],
   sharpRGBFast_spec img v _ h₁⟩

section
variable {Y UV σ : Type} (cv : Conv Y UV σ)

/-- `importImage`, Y plane without dithering: the parallel direct path — any worker count, edge
    replication of the *converted* value — equals the generic path, which converts the
    *replicated pixel* (lossy/encode.go:757-792 vs 810-830).  For every `RGBToY`. -/
theorem fast_eq_generic_lossyY [Inhabited Y] (nWorkers : Nat) (hn : 0 < nWorkers) (img : Img) (v : Valid img)
    (buf₁ buf₂ : Array Y) (h₁ : buf₁.size = pad16 (img.w : Int) * pad16 (img.h : Int))
    (h₂ : buf₂.size = pad16 (img.w : Int) * pad16 (img.h : Int)) :
    (yDirectPar cv nWorkers img buf₁ >>= fun y => .ok (y, (none : Option σ)))
      = yGeneric cv img.atNRGBA img.bounds (buf₂, none) := by
  rw [yDirectPar_spec cv nWorkers hn img v _ h₁,
    yGeneric_spec_plain cv _ _ _ _ _ (shows_atNRGBA img v) v.w_pos v.h_pos _ h₂]
  rfl

/-- `importImage`, Y plane with dithering: the serial direct path equals the generic path, sample
    for sample and draw for draw (lossy/encode.go:793-809 vs 810-830).  For every `RGBToYRounding`
    and every generator. -/
theorem fast_eq_generic_lossyY_dither (img : Img) (v : Valid img) (rg : σ)
    (buf₁ buf₂ : Array Y) (h₁ : buf₁.size = pad16 (img.w : Int) * pad16 (img.h : Int))
    (h₂ : buf₂.size = pad16 (img.w : Int) * pad16 (img.h : Int)) :
    (yDirectSer cv img (buf₁, rg) >>= fun st => .ok (st.1, some st.2))
      = yGeneric cv img.atNRGBA img.bounds (buf₂, some rg) := by
  rw [yDirectSer_spec cv img v _ rg h₁,
    yGeneric_spec_dither cv _ _ _ _ _ (shows_atNRGBA img v) v.w_pos v.h_pos _ rg h₂]
  rfl

/-- the three row extractions of the U/V pass agree, including the replication of the last
    column for odd/unaligned widths and of the last row for odd/unaligned heights
    (lossy/encode.go:859-885 = 721-738 = 739-751) -/
theorem fast_eq_generic_lossyUV_rows (img : Img) (v : Valid img) (srcY : Nat) (buf₁ buf₂ buf₃ : Array RGBA8)
    (h₁ : buf₁.size = pad16 (img.w : Int)) (h₂ : buf₂.size = pad16 (img.w : Int))
    (h₃ : buf₃.size = pad16 (img.w : Int)) :
    extractRowPar img srcY buf₁ = extractRowGeneric img.atNRGBA img.bounds (srcY : Int) buf₃ ∧
    extractRowDirect img (srcY : Int) buf₂ = extractRowGeneric img.atNRGBA img.bounds (srcY : Int) buf₃ ∧
    extractRowPar img srcY buf₁ =
      .ok (Array.ofFn (n := pad16 (img.w : Int)) fun x => img.rel (min x.val (img.w - 1)) (min srcY (img.h - 1))) := by
  have e3 := extractRowGeneric_spec _ _ _ _ _ (shows_atNRGBA img v) v.w_pos v.h_pos srcY buf₃ h₃
  have e1 := extractRowPar_spec img v srcY buf₁ h₁
  have e2 := extractRowDirect_spec img v srcY buf₂ h₂
  exact ⟨by rw [e1]; exact e3.symm, by rw [e2]; exact e3.symm, e1⟩

/-- `importImage`, U/V planes without dithering: parallel direct path (any worker count, pooled
    stale row buffers) = serial generic path (lossy/encode.go:836-902 vs 903-941).  For every
    `AccumulateRGBA`/`ConvertRGBA32ToUV`. -/
theorem fast_eq_generic_lossyUV (nWorkers : Nat) (hn : 0 < nWorkers) (hasAlpha : Bool) (img : Img) (v : Valid img)
    (rows₁ rows₂ : Array RGBA8 × Array RGBA8)
    (hr₁ : rows₁.1.size = pad16 (img.w : Int) ∧ rows₁.2.size = pad16 (img.w : Int))
    (hr₂ : rows₂.1.size = pad16 (img.w : Int) ∧ rows₂.2.size = pad16 (img.w : Int))
    (buf₁ buf₂ : Array UV) (h₁ : buf₁.size = pad16 (img.h : Int) / 2) (h₂ : buf₂.size = pad16 (img.h : Int) / 2) :
    (uvDirectPar cv nWorkers hasAlpha img rows₁ buf₁ >>= fun uv => .ok (uv, (none : Option σ)))
      = uvSerial cv (extractRowGeneric img.atNRGBA img.bounds) hasAlpha img.bounds rows₂ (buf₂, none) := by
  rw [uvDirectPar_spec cv nWorkers hn hasAlpha img v _ hr₁.1 hr₁.2 _ h₁,
    uvSerial_spec_plain cv _ img.rel img.w img.h img.bounds v.dy_eq
      (fun srcY buf hb => extractRowGeneric_spec _ _ _ _ _ (shows_atNRGBA img v) v.w_pos v.h_pos srcY buf hb)
      hasAlpha _ hr₂.1 hr₂.2 _ h₂]
  rfl

/-- `importImage`, U/V planes with dithering: serial direct = serial generic, same generator
    sequence.  For every `ConvertRGBA32ToUVDithered`. -/
theorem fast_eq_generic_lossyUV_dither (hasAlpha : Bool) (img : Img) (v : Valid img) (rg : σ)
    (rows₁ rows₂ : Array RGBA8 × Array RGBA8)
    (hr₁ : rows₁.1.size = pad16 (img.w : Int) ∧ rows₁.2.size = pad16 (img.w : Int))
    (hr₂ : rows₂.1.size = pad16 (img.w : Int) ∧ rows₂.2.size = pad16 (img.w : Int))
    (buf₁ buf₂ : Array UV) (h₁ : buf₁.size = pad16 (img.h : Int) / 2) (h₂ : buf₂.size = pad16 (img.h : Int) / 2) :
    uvSerial cv (extractRowDirect img) hasAlpha img.bounds rows₁ (buf₁, some rg)
      = uvSerial cv (extractRowGeneric img.atNRGBA img.bounds) hasAlpha img.bounds rows₂ (buf₂, some rg) := by
  rw [uvSerial_spec_dither cv _ img.rel img.w img.h img.bounds v.dy_eq
      (fun srcY buf hb => extractRowDirect_spec img v srcY buf hb) hasAlpha _ hr₁.1 hr₁.2 _ rg h₁,
    uvSerial_spec_dither cv _ img.rel img.w img.h img.bounds v.dy_eq
      (fun srcY buf hb => extractRowGeneric_spec _ _ _ _ _ (shows_atNRGBA img v) v.w_pos v.h_pos srcY buf hb)
      hasAlpha _ hr₂.1 hr₂.2 _ rg h₂]

/-! ## the whole import -/

/-- **All fast paths together = all generic paths together** on `NRGBAAt`, for every valid
    image, all stale destination buffers (two independent sets), all worker counts, both values
    of the `hasAlpha` flag, every generator state and all conversion functions. -/
theorem fast_eq_generic [Inhabited Y] (nwY nwUV : Nat) (hY : 0 < nwY) (hUV : 0 < nwUV) (haFlag : Bool) (rg : σ)
    (img : Img) (v : Valid img) (b₁ b₂ : Bufs Y UV) (h₁ : b₁.Sized img.w img.h) (h₂ : b₂.Sized img.w img.h) :
    importAll cv nwY nwUV haFlag rg img b₁ = genericAll cv haFlag rg img.atNRGBA img.bounds b₂ := by
  rw [importAll_eq cv nwY nwUV hY hUV haFlag rg img v b₁ h₁,
    genericAll_eq cv haFlag rg _ _ _ _ _ (shows_atNRGBA img v) v.w_pos v.h_pos b₂ h₂]

/-- **Embedding invariance.**  Two valid images of the same size that show the same colours
    (`view img₁ (Min₁ + (x,y)) = view img₂ (Min₂ + (x,y))` on the picture) import to the same
    arrays — whatever their origins, strides, parent buffers, stale destination buffers and worker
    counts. -/
theorem embedding_invariant [Inhabited Y] (nwY₁ nwUV₁ nwY₂ nwUV₂ : Nat)
    (hn : 0 < nwY₁ ∧ 0 < nwUV₁ ∧ 0 < nwY₂ ∧ 0 < nwUV₂) (haFlag : Bool) (rg : σ)
    (img₁ img₂ : Img) (v₁ : Valid img₁) (v₂ : Valid img₂)
    (hw : img₁.rect.dx = img₂.rect.dx) (hh : img₁.rect.dy = img₂.rect.dy)
    (hview : ∀ x y : Nat, (x : Int) < img₁.rect.dx → (y : Int) < img₁.rect.dy →
      img₁.view (img₁.rect.minX + (x : Int)) (img₁.rect.minY + (y : Int))
        = img₂.view (img₂.rect.minX + (x : Int)) (img₂.rect.minY + (y : Int)))
    (b₁ b₂ : Bufs Y UV) (h₁ : b₁.Sized img₁.w img₁.h) (h₂ : b₂.Sized img₂.w img₂.h) :
    importAll cv nwY₁ nwUV₁ haFlag rg img₁ b₁ = importAll cv nwY₂ nwUV₂ haFlag rg img₂ b₂ := by
  have ew : img₁.w = img₂.w := by unfold Img.w; rw [hw]
  have eh : img₁.h = img₂.h := by unfold Img.h; rw [hh]
  rw [importAll_eq cv _ _ hn.1 hn.2.1 haFlag rg img₁ v₁ b₁ h₁,
    importAll_eq cv _ _ hn.2.2.1 hn.2.2.2 haFlag rg img₂ v₂ b₂ h₂, ← ew, ← eh]
  have hag : AgreeOn img₁.w img₁.h img₁.rel img₂.rel := by
    intro x y hx hy
    exact hview x y (by rw [v₁.dx_eq]; exact_mod_cast hx) (by rw [v₁.dy_eq]; exact_mod_cast hy)
  exact congrArg Res.ok (importedOf_congr cv hag v₁.w_pos v₁.h_pos haFlag rg)

/-- … in particular the import of one image does not depend on what the pooled buffers held
    or on `GOMAXPROCS` -/
theorem import_independent_of_buffers_and_workers [Inhabited Y] (nwY₁ nwUV₁ nwY₂ nwUV₂ : Nat)
    (hn : 0 < nwY₁ ∧ 0 < nwUV₁ ∧ 0 < nwY₂ ∧ 0 < nwUV₂) (haFlag : Bool) (rg : σ)
    (img : Img) (v : Valid img) (b₁ b₂ : Bufs Y UV) (h₁ : b₁.Sized img.w img.h) (h₂ : b₂.Sized img.w img.h) :
    importAll cv nwY₁ nwUV₁ haFlag rg img b₁ = importAll cv nwY₂ nwUV₂ haFlag rg img b₂ :=
  embedding_invariant cv _ _ _ _ hn haFlag rg img img v v rfl rfl (fun _ _ _ _ => rfl) b₁ b₂ h₁ h₂

/-- **Bytes outside the picture are irrelevant.**  Replace `Pix` by any buffer of the same length
    that agrees with it on the `4·w·h` bytes `y*Stride + 4*x + c` (`x < w, y < h, c < 4`): the
    import is unchanged.  (Padding bytes, the rest of a parent image, bytes after the last row —
    anything else may differ.) -/
theorem outside_irrelevant [Inhabited Y] (nwY nwUV : Nat) (hY : 0 < nwY) (hUV : 0 < nwUV) (haFlag : Bool) (rg : σ)
    (img : Img) (v : Valid img) (pix' : Array UInt8) (hsize : pix'.size = img.pix.size)
    (hin : ∀ k, InPicture img k → pix'[k]? = img.pix[k]?)
    (b : Bufs Y UV) (hb : b.Sized img.w img.h) :
    importAll cv nwY nwUV haFlag rg { img with pix := pix' } b = importAll cv nwY nwUV haFlag rg img b := by
  have v' : Valid ({ img with pix := pix' } : Img) :=
    ⟨v.wpos, v.hpos, v.wmax, v.hmax, v.stride_ge, by simp only [hsize]; exact v.size_ge,
     by simp only [hsize]; exact v.size_lt⟩
  have hag := rel_of_pix_agree img v pix' hin
  apply embedding_invariant cv _ _ _ _ ⟨hY, hUV, hY, hUV⟩ haFlag rg _ _ v' v rfl rfl _ b b hb hb
  intro x y hx hy
  have hx' : (x : Int) < img.rect.dx := hx
  have hy' : (y : Int) < img.rect.dy := hy
  exact hag x y (by have := v.dx_eq; omega) (by have := v.dy_eq; omega)

/-- single-byte form: overwriting one byte that is not a picture byte changes nothing -/
theorem outside_byte_irrelevant [Inhabited Y] (nwY nwUV : Nat) (hY : 0 < nwY) (hUV : 0 < nwUV) (haFlag : Bool) (rg : σ)
    (img : Img) (v : Valid img) (k : Nat) (hk : ¬ InPicture img k) (val : UInt8)
    (b : Bufs Y UV) (hb : b.Sized img.w img.h) :
    importAll cv nwY nwUV haFlag rg { img with pix := img.pix.setIfInBounds k val } b
      = importAll cv nwY nwUV haFlag rg img b := by
  apply outside_irrelevant cv nwY nwUV hY hUV haFlag rg img v _ (by simp) _ b hb
  intro j hj
  rw [Array.getElem?_setIfInBounds]
  have : k ≠ j := fun e => hk (e ▸ hj)
  simp [this]

/-- **No index out of range**: under `validNRGBA` (and `Encode`'s dimension check) the import
    does not panic — every `Pix[i]` has `0 ≤ i < len(Pix)`, every slice expression is in range,
    every store hits its destination buffer. -/
theorem import_in_bounds [Inhabited Y] (nwY nwUV : Nat) (hY : 0 < nwY) (hUV : 0 < nwUV) (haFlag : Bool) (rg : σ)
    (img : Img) (v : Valid img) (b : Bufs Y UV) (hb : b.Sized img.w img.h) :
    (importAll cv nwY nwUV haFlag rg img b).Safe ∧ importAll cv nwY nwUV haFlag rg img b ≠ .panic := by
  rw [importAll_eq cv nwY nwUV hY hUV haFlag rg img v b hb]
  exact ⟨trivial, fun h => by cases h⟩

/-- the index-level statement behind it: all four bytes of every pixel of the picture lie in `Pix`,
    and no Go `int` intermediate overflows -/
theorem pixel_bytes_in_bounds (img : Img) (v : Valid img) (x y : Nat) (hx : x < img.w) (hy : y < img.h) :
    0 ≤ (y : Int) * img.stride + (x : Int) * 4 ∧
    (y : Int) * img.stride + (x : Int) * 4 + 3 < img.pix.size ∧
    (y : Int) * img.stride + (x : Int) * 4 + 3 < 2 ^ 63 :=
  ⟨(v.off_bounds hx hy).1, (v.off_bounds hx hy).2, (valid_int_range v hx hy).2.1⟩

end


/-! ## the std-lib constructors produce valid images -/

/-- `image.NewNRGBA(image.Rect(0, 0, w, h))` (tight stride, `len(Pix) = 4·w·h`) is valid -/
theorem newNRGBA_valid (w h : Nat) (bytes : Array UInt8) (hw : 0 < w) (hh : 0 < h)
    (hwm : w ≤ 16383) (hhm : h ≤ 16383) (hs : bytes.size = 4 * w * h) : Valid (Img.ofPixels w h bytes) :=
  ofPixels_valid w h bytes hw hh hwm hhm hs

/-- `(*image.NRGBA).SubImage(r)` of any std-lib image, for a non-empty `r` inside its bounds: does
    not panic, is valid (non-zero origin, the parent's stride, `Pix` re-sliced), and shows the
    parent's pixels -/
theorem subImage_valid (p : Img) (hp : StdInv p) (r : Rect)
    (hin : p.rect.minX ≤ r.minX ∧ r.maxX ≤ p.rect.maxX ∧ p.rect.minY ≤ r.minY ∧ r.maxY ≤ p.rect.maxY)
    (hne : r.minX < r.maxX ∧ r.minY < r.maxY) (hmax : r.dx ≤ maxDimension ∧ r.dy ≤ maxDimension) :
    ∃ q, p.subImage r = .ok q ∧ Valid q ∧ q.rect = r ∧ q.stride = p.stride ∧
      ∀ x y, r.contains x y = true → q.view x y = p.view x y :=
  subImage_spec p hp r hin hne hmax

section
variable {Y UV σ : Type} (cv : Conv Y UV σ)

/-- **Sub-image = any other embedding of the same pixels**: the import of `parent.SubImage(r)`
    equals the import of every valid image `img₂` of the same size that shows the parent's pixels
    of `r` (e.g. a tight copy at the origin) — whatever the parent holds outside `r`. -/
theorem subImage_embedding_invariant [Inhabited Y] (nwY₁ nwUV₁ nwY₂ nwUV₂ : Nat)
    (hn : 0 < nwY₁ ∧ 0 < nwUV₁ ∧ 0 < nwY₂ ∧ 0 < nwUV₂) (haFlag : Bool) (rg : σ)
    (p : Img) (hp : StdInv p) (r : Rect)
    (hin : p.rect.minX ≤ r.minX ∧ r.maxX ≤ p.rect.maxX ∧ p.rect.minY ≤ r.minY ∧ r.maxY ≤ p.rect.maxY)
    (hne : r.minX < r.maxX ∧ r.minY < r.maxY) (hmax : r.dx ≤ maxDimension ∧ r.dy ≤ maxDimension)
    (img₂ : Img) (v₂ : Valid img₂) (hw : r.dx = img₂.rect.dx) (hh : r.dy = img₂.rect.dy)
    (hview : ∀ x y : Nat, (x : Int) < r.dx → (y : Int) < r.dy →
      p.view (r.minX + (x : Int)) (r.minY + (y : Int))
        = img₂.view (img₂.rect.minX + (x : Int)) (img₂.rect.minY + (y : Int)))
    (b₁ b₂ : Bufs Y UV) (h₁ : b₁.Sized r.dx.toNat r.dy.toNat) (h₂ : b₂.Sized img₂.w img₂.h) :
    ∃ q, p.subImage r = .ok q ∧
      importAll cv nwY₁ nwUV₁ haFlag rg q b₁ = importAll cv nwY₂ nwUV₂ haFlag rg img₂ b₂ := by
  obtain ⟨q, hq, vq, hr, -, hv⟩ := subImage_spec p hp r hin hne hmax
  refine ⟨q, hq, ?_⟩
  subst hr
  refine embedding_invariant cv _ _ _ _ hn haFlag rg q img₂ vq v₂ hw hh ?_ b₁ b₂ h₁ h₂
  intro x y hx hy
  rw [hv _ _ (by
    simp only [Rect.contains, Bool.and_eq_true, decide_eq_true_eq]
    unfold Rect.dx at hx; unfold Rect.dy at hy; omega)]
  exact hview x y hx hy

end

/-- stale buffers of the right sizes exist for every picture size (the `Sized` hypothesis of the
    bundle theorems is satisfiable) -/
def staleBufs {Y UV : Type} (w h : Nat) (y : Y) (uv : UV) (c : RGBA8) : Bufs Y UV :=
  { argbBuffered := Array.replicate (w * h) 0xDEADBEEF, argbStreaming := Array.replicate (w * h) 0x01234567,
    alpha := Array.replicate (w * h) 0xAA, cleanup := Array.replicate (w * h * 4) 0xBB,
    sharp := Array.replicate (w * h * 3) 0xCC,
    yPlain := Array.replicate (pad16 (w : Int) * pad16 (h : Int)) y,
    yDither := Array.replicate (pad16 (w : Int) * pad16 (h : Int)) y,
    uvPlain := Array.replicate (pad16 (h : Int) / 2) uv, uvDither := Array.replicate (pad16 (h : Int) / 2) uv,
    rows := (Array.replicate (pad16 (w : Int)) c, Array.replicate (pad16 (w : Int)) c) }

theorem staleBufs_sized {Y UV : Type} (w h : Nat) (y : Y) (uv : UV) (c : RGBA8) :
    (staleBufs w h y uv c : Bufs Y UV).Sized w h := by
  constructor <;> simp [staleBufs]

/-! ## `*image.RGBA` (premultiplied) inputs -/

/-- The RGBA fast path of `encodeLossless[ToWriter]` is the generic path with the pixel function
    `rgbaFastLossless` in place of `color.NRGBAModel.Convert`: -/
theorem rgba_lossless_paths (img : Img) (v : Valid img) (buf₁ buf₂ : Array UInt32)
    (h₁ : buf₁.size = img.w * img.h) (h₂ : buf₂.size = img.w * img.h) :
    encodeLosslessRGBA img buf₁ = .ok (argbOf (fun x y => rgbaFastLossless (img.rel x y)) img.w img.h) ∧
    losslessGeneric img.atRGBA img.bounds buf₂ = .ok (argbOf (fun x y => nrgbaModelRGBA (img.rel x y)) img.w img.h) :=
  ⟨by rw [encodeLosslessRGBA, losslessDirect_spec _ img v _ h₁],
   losslessGeneric_spec _ _ _ _ _ (shows_atRGBA_bounds img v) _ h₂⟩

/-- … so the two agree on an image all of whose pixels lie outside the disagreement set -/
theorem rgba_fast_eq_generic_of_agree (img : Img) (v : Valid img) (buf₁ buf₂ : Array UInt32)
    (h₁ : buf₁.size = img.w * img.h) (h₂ : buf₂.size = img.w * img.h)
    (hag : ∀ x y, x < img.w → y < img.h → rgbaFastLossless (img.rel x y) = nrgbaModelRGBA (img.rel x y)) :
    encodeLosslessRGBA img buf₁ = losslessGeneric img.atRGBA img.bounds buf₂ := by
  obtain ⟨e1, e2⟩ := rgba_lossless_paths img v buf₁ buf₂ h₁ h₂
  rw [e1, e2]
  exact congrArg Res.ok (argbOf_congr (f := fun x y => rgbaFastLossless (img.rel x y))
    (g := fun x y => nrgbaModelRGBA (img.rel x y)) hag)

/-- opaque and (valid) fully transparent pixels are converted identically -/
theorem rgba_pixel_agree_opaque (c : RGBA8) (h : c.a = 255) : rgbaFastLossless c = nrgbaModelRGBA c :=
  rgbaFast_opaque c h

theorem rgba_pixel_agree_transparent (c : RGBA8) (h : c.a = 0) (hv : c.r = 0 ∧ c.g = 0 ∧ c.b = 0) :
    rgbaFastLossless c = nrgbaModelRGBA c := rgbaFast_transparent c h hv

/-- **`rgba_fast_eq_generic` is FALSE** (a genuine C19 defect for `*image.RGBA` input): the valid
    premultiplied pixel `(5, 0, 0, 6)` is un-premultiplied to red 212 by the fast path
    (`uint8(5*255/6)`) and to red 213 by `color.NRGBAModel` (`(0x0505*0xffff/0x0606) >> 8`), so
    `Encode(*image.RGBA)` and `Encode(generic wrapper of the same image)` store different pixels. -/
theorem rgba_fast_ne_generic_counterexample :
    rgbaFastLossless ⟨5, 0, 0, 6⟩ = ⟨212, 0, 0, 6⟩ ∧ nrgbaModelRGBA ⟨5, 0, 0, 6⟩ = ⟨213, 0, 0, 6⟩ ∧
    rgbaFastCleanup ⟨5, 0, 0, 6⟩ = ⟨212, 0, 0, 6⟩ := by decide

/-- the counterexample as two whole imports of a valid 1×1 `*image.RGBA` -/
theorem rgba_import_counterexample :
    Valid (Img.ofPixels 1 1 #[5, 0, 0, 6]) ∧
    encodeLosslessRGBA (Img.ofPixels 1 1 #[5, 0, 0, 6]) #[0] = .ok #[0x06D40000] ∧
    losslessGeneric (Img.ofPixels 1 1 #[5, 0, 0, 6]).atRGBA (Img.ofPixels 1 1 #[5, 0, 0, 6]).bounds #[0]
      = .ok #[0x06D50000] := by decide +kernel

/-- **The exact disagreement set** for valid premultiplied channels (`0 < a < 255`, `c ≤ a`):
    with `q = 255·c / a`, `r = 255·c mod a` the fast path returns `q` and `NRGBAModel` returns
    `q + 1` exactly when `q·a + 257·r ≥ 256·a`, else `q`.  (15 193 of the 32 639 valid pairs —
    counted exhaustively by the harness, suite `import`, and by `#eval` in
    Webp/Proofs/ImportRGBA.lean; e.g. `(a,c) = (6,5), (7,2), (7,4), (7,6), (9,5), (254,253)`.) -/
theorem rgba_disagreement_set (a c : UInt8) (ha0 : 0 < a) (ha : a < 255) (hc : c ≤ a) :
    (unpremulFast a c).toNat = 255 * c.toNat / a.toNat ∧
    (unpremulGeneric a c).toNat = 255 * c.toNat / a.toNat +
      (if 256 * a.toNat ≤ (255 * c.toNat / a.toNat) * a.toNat + 257 * (255 * c.toNat % a.toNat) then 1 else 0) :=
  unpremul_table a c ha0 ha hc

/-- INVALID premultiplied input (`c > a`, which `color.RGBA` forbids but `*image.RGBA` can hold):
    both paths truncate an out-of-range quotient to 8 bits, differently; and for `a = 0` the
    lossless fast path keeps the colour bytes while `NRGBAModel` (and the cleanup copy) zero them. -/
theorem rgba_invalid_premultiplied :
    unpremulFast 1 2 = 254 ∧ unpremulGeneric 1 2 = 255 ∧
    unpremulFast 100 200 = 254 ∧ unpremulGeneric 100 200 = 255 ∧
    rgbaFastLossless ⟨9, 8, 7, 0⟩ = ⟨9, 8, 7, 0⟩ ∧ nrgbaModelRGBA ⟨9, 8, 7, 0⟩ = ⟨0, 0, 0, 0⟩ ∧
    rgbaFastCleanup ⟨9, 8, 7, 0⟩ = ⟨0, 0, 0, 0⟩ := by decide

/-- The lossy direct path and `sharpYUVConvert` do not un-premultiply at all: for an
    `*image.RGBA` they hand the *premultiplied* bytes to the colour conversion (`extractRowDirect`,
    `yDirectPar`, `sharpRGBFast` are the NRGBA functions applied to the same bytes), while the
    generic path converts.  Witness: a half-transparent white pixel `(128,128,128,128)` is imported
    as grey 128 by the fast paths and as white 255 by the generic path. -/
theorem rgba_lossy_not_unpremultiplied :
    sharpRGBFast (Img.ofPixels 1 1 #[128, 128, 128, 128]) #[0, 0, 0] = .ok #[128, 128, 128] ∧
    sharpRGBGeneric (Img.ofPixels 1 1 #[128, 128, 128, 128]).atRGBA ⟨0, 0, 1, 1⟩ #[0, 0, 0] = .ok #[255, 255, 255] := by
  decide

/-! ## non-vacuity: a 3×2 sub-image of a 5×4 parent with stride padding -/

/-- parent: 5×4 pixels, stride 24 (= 5·4 + 4 bytes padding), `Pix[i] = i` -/
def parent : Img := { pix := Array.ofFn (n := 96) fun i => UInt8.ofNat i.val, stride := 24, rect := ⟨0, 0, 5, 4⟩ }

/-- the 3×2 sub-image at (1,1): `parent.SubImage(image.Rect(1,1,4,3))` -/
def sub : Img := { pix := parent.pix.extract 28 96, stride := 24, rect := ⟨1, 1, 4, 3⟩ }

/-- the same six pixels as a tight image at the origin -/
def origin : Img := Img.ofPixels 3 2
  #[28, 29, 30, 31, 32, 33, 34, 35, 36, 37, 38, 39, 52, 53, 54, 55, 56, 57, 58, 59, 60, 61, 62, 63]

/-- `sub` is what the std-lib `SubImage` returns; `sub`, `parent`, `origin` are valid; `sub` has a
    non-zero origin, a stride larger than `4·w`, and trailing bytes -/
example : parent.subImage ⟨1, 1, 4, 3⟩ = .ok sub ∧ Valid parent ∧ Valid sub ∧ Valid origin ∧
    sub.rect.minX ≠ 0 ∧ sub.stride > 4 * sub.rect.dx ∧ sub.pix.size = 68 := by decide

/-- `parent` satisfies the hypotheses of `subImage_valid` for the rectangle (1,1)-(4,3) -/
example : StdInv parent ∧ (parent.rect.minX ≤ 1 ∧ (4 : Int) ≤ parent.rect.maxX ∧ parent.rect.minY ≤ 1 ∧ (3 : Int) ≤ parent.rect.maxY) :=
  ⟨(by decide : Valid parent).stdInv, by decide⟩

/-- the hypotheses of `embedding_invariant` hold for `sub` and `origin` … -/
example : sub.rect.dx = origin.rect.dx ∧ sub.rect.dy = origin.rect.dy ∧
    ∀ x y : Nat, (x : Int) < sub.rect.dx → (y : Int) < sub.rect.dy →
      sub.view (sub.rect.minX + (x : Int)) (sub.rect.minY + (y : Int))
        = origin.view (origin.rect.minX + (x : Int)) (origin.rect.minY + (y : Int)) := by
  refine ⟨by decide, by decide, ?_⟩
  intro x y hx hy
  have hx' : x = 0 ∨ x = 1 ∨ x = 2 := by
    have : sub.rect.dx = 3 := by decide
    omega
  have hy' : y = 0 ∨ y = 1 := by
    have : sub.rect.dy = 2 := by decide
    omega
  rcases hx' with rfl | rfl | rfl <;> rcases hy' with rfl | rfl <;> decide

/-- … and the conclusion is a non-trivial equation: both import to these six ARGB words,
    although the two `Pix` buffers differ in length and content -/
example : encodeLosslessNRGBA sub (Array.replicate 6 0xDEADBEEF)
      = .ok #[0x1F1C1D1E, 0x23202122, 0x27242526, 0x37343536, 0x3B38393A, 0x3F3C3D3E] ∧
    encodeLosslessNRGBA origin (Array.replicate 6 7)
      = .ok #[0x1F1C1D1E, 0x23202122, 0x27242526, 0x37343536, 0x3B38393A, 0x3F3C3D3E] ∧
    sub.pix ≠ origin.pix := by decide

/-- byte 12 of `sub.pix` (first padding byte… of the parent row: pixel (4,1) of the parent, outside
    the sub-image) is not a picture byte, byte 0 is -/
example : ¬ InPicture sub 12 ∧ InPicture sub 0 := by
  constructor
  · rintro ⟨x, y, c, hx, hy, hc, hk⟩
    have hw : sub.w = 3 := by decide
    have hh : sub.h = 2 := by decide
    have hs : sub.stride = 24 := rfl
    rw [hs] at hk
    omega
  · exact ⟨0, 0, 0, by decide, by decide, by decide, by decide⟩

/-- the RGBA disagreement set is non-empty and proper (hypotheses of `rgba_disagreement_set`) -/
example : ∃ a c : UInt8, 0 < a ∧ a < 255 ∧ c ≤ a ∧ unpremulFast a c ≠ unpremulGeneric a c :=
  ⟨6, 5, by decide, by decide, by decide, by decide⟩
example : ∃ a c : UInt8, 0 < a ∧ a < 255 ∧ c ≤ a ∧ c ≠ 0 ∧ unpremulFast a c = unpremulGeneric a c :=
  ⟨6, 3, by decide, by decide, by decide, by decide, by decide⟩

end Webp.Props.C19
