import Webp.Proofs.VP8Kernels
import Webp.Proofs.VP8Range
/-
  Property C13 — results do not depend on CPU-specific code paths or architecture.

  "The hand-written assembly kernels and the portable Go kernels are observationally identical: every
   Encode output and every Decode result is bit-identical whether the optimised or the portable code path
   runs, with or without AVX2.  The module is pure Go and compiles for every operating system and
   architecture the toolchain supports."

  **No semantics of the Plan 9 assembly is modelled here, and nothing in this file is a theorem about
  the `.s` files.**  The property's core claim is decided by the differential of harness suite `kernels`
  (AVX2 / SSE2 / portable twin / an amd64 build without any `*_amd64` file / a GOARCH=386 build, all
  against each other and against the Lean reference, kernel by kernel and on whole Encode/Decode runs) and
  by the compile matrix.  What is proved here is about the *reference* kernels (`Webp.Impl.VP8Kernels`,
  the portable Go code statement by statement) that all those code paths are compared with:

  * the domain on which a narrow-lane implementation can agree with the reference at all
    (`idct_fits_int16`, `wht_fits_int16`, `ftransform_range`, `quantize_no_wrap`), and witnesses that
    outside it the reference needs more than 16 bits (`idct_exceeds_int16`, `wht_exceeds_int16`) — the
    harness finds the SSE2/AVX2 kernels differing from the portable ones exactly there
    (`kernel:Transform/wide:*`, `kernel:TransformWHT/wide:*`, … and, through crafted streams,
    `pipeline:decode-mutated:*`);
    measured boundaries (suite `kernels`, range scan, both SSE2 and AVX2): inverse DCT kernels equal to the
    portable ones for every tried block with |coeff| ≤ 2212, first difference at 2213 on the block
    `+M −M +M −M …`; inverse and forward WHT equal up to 2047, first difference at 2048 on the all-equal
    block (so `wht_fits_int16` is tight); quantiser equal up to |in| = 32755 (= 32768 − max sharpen − 1);
    in-range equality (|coeff| ≤ 2047) is what the suite counts against C13, the rest is listed as
    `kernel-range:<name>`;
  * `quantize_sign_symmetry`, `quantize_level_bounded` (the SIMD quantiser handles signs with masks);
  * the fast-path lemmas shared with C04 are in `Props/C04Kernels.lean`.
-/
namespace Webp.Props.C13
open Webp.Impl.VP8Kernels
open Webp.Proofs.VP8Kernels Webp.Proofs.VP8Range

def I16 (x : Int) : Prop := -32768 ≤ x ∧ x ≤ 32767

/-! ## Inverse DCT -/

/-- **idct_fits_int16.**  Coefficients within ±2048 (what dequantisation of a conformant stream yields;
    `2048 = MAX_LEVEL + 1`): every value either pass of the reference inverse DCT computes — the
    butterflies `a b`, the four `mul1/mul2` products, `cc d`, and the four outputs, in both passes — fits a
    signed 16-bit lane.  (The first-pass outputs are within ±7887, the second-pass values within ±31554.) -/
theorem idct_fits_int16 (c : Nat → Int) (h : ∀ k, k < 16 → Within 2048 (c k)) :
    (∀ col, col < 4 → ∀ x ∈ idctPassVals (c col) (c (4 + col)) (c (8 + col)) (c (12 + col)) 0, I16 x) ∧
    (∀ k, k < 16 → Within 7887 (vtmp c k)) ∧
    (∀ row, row < 4 → ∀ x ∈ idctPassVals (vtmp c (4 * row)) (vtmp c (4 * row + 1)) (vtmp c (4 * row + 2))
        (vtmp c (4 * row + 3)) 4, I16 x) := by
  refine ⟨?_, fun k hk => vtmp_bound c h k hk, ?_⟩
  · intro col hc x hx
    have := idctPass_bound 2048 _ _ _ _ 0 (by omega) (by omega) (h col (by omega)) (h (4 + col) (by omega))
      (h (8 + col) (by omega)) (h (12 + col) (by omega)) x hx
    unfold Within at this; unfold I16; omega
  · intro row hr x hx
    have := idctPass_bound 7887 _ _ _ _ 4 (by omega) (by omega) (vtmp_bound c h (4 * row) (by omega))
      (vtmp_bound c h (4 * row + 1) (by omega)) (vtmp_bound c h (4 * row + 2) (by omega))
      (vtmp_bound c h (4 * row + 3) (by omega)) x hx
    unfold Within at this; unfold I16; omega

/-- the values named in `idct_fits_int16` are the ones the transform uses: its second-pass result at
    `k = 4·row + x` is the 10th..13th entry of that row's list -/
theorem hres_mem (t : Nat → Int) (row x : Nat) (hx : x < 4) :
    hres t (4 * row + x) ∈ idctPassVals (t (4 * row)) (t (4 * row + 1)) (t (4 * row + 2)) (t (4 * row + 3)) 4 := by
  have e1 : (4 * row + x) / 4 = row := by omega
  have e2 : (4 * row + x) % 4 = x := by omega
  have : x = 0 ∨ x = 1 ∨ x = 2 ∨ x = 3 := by omega
  unfold hres idctPassVals
  rw [e1, e2]
  rcases this with rfl | rfl | rfl | rfl <;> simp

example : ∀ k, k < 16 → Within 2048 ((fun k => if k % 2 = 0 then 2048 else -2048 : Nat → Int) k) := by
  intro k _; unfold Within; simp only; split <;> omega

/-- **idct_exceeds_int16** (why the domain matters).  With two large same-sign coefficients in one column
    (`in[0] = in[8] = 20000`, reachable through a crafted stream: level × dequantiser wraps to any `int16`)
    the very first butterfly of the reference is `40000`: outside a 16-bit lane.  The reference saturates
    the pixel to 255; a wrapping 16-bit implementation computes `(40000 − 65536 + 4) >> 3 < 0` and saturates
    to 0.  The harness observes exactly this between the SSE2/AVX2 and the portable kernels. -/
theorem idct_exceeds_int16 :
    let c : Nat → Int := fun k => if k = 0 ∨ k = 8 then 20000 else 0
    (∀ k, I16 (c k)) ∧ 40000 ∈ idctPassVals (c 0) (c 4) (c 8) (c 12) 0 ∧ ¬ I16 40000 ∧
    transformOne c (fun _ => 128) 0 = 255 := by
  refine ⟨?_, by decide, by unfold I16; omega, by decide⟩
  intro k; unfold I16; simp only; split <;> omega

/-! ## Inverse WHT -/

/-- **wht_fits_int16.**  Inputs within ±2047: both passes of the reference inverse WHT stay inside a
    16-bit lane (first pass within ±8188, the sums shifted by 3 within ±32755), so the final `int16(…)`
    conversion is the identity. -/
theorem wht_fits_int16 (c : Nat → Int) (h : ∀ k, k < 16 → Within 2047 (c k)) :
    (∀ k, k < 16 → Within 8188 (iwhtTmp c k)) ∧ (∀ k, k < 16 → I16 (whtRaw (iwhtTmp c) k)) ∧
    (∀ k, k < 16 → transformWHT c k = whtRaw (iwhtTmp c) k / 8) := by
  have h1 : ∀ k, k < 16 → Within 8188 (iwhtTmp c k) := fun k hk => by
    have := iwhtTmp_bound 2047 c h k hk; unfold Within at *; omega
  have h2 : ∀ k, k < 16 → Within 32755 (whtRaw (iwhtTmp c) k) := fun k hk => by
    have := whtRaw_bound 8188 (iwhtTmp c) h1 k hk; unfold Within at *; omega
  refine ⟨h1, ?_, ?_⟩
  · intro k hk; have := h2 k hk; unfold Within at this; unfold I16; omega
  · intro k hk
    rw [transformWHT_eq_raw]
    have := h2 k hk
    unfold Within at this
    exact toI16_id (by omega) (by omega)

/-- **wht_exceeds_int16.**  `in[0] = in[12] = 20000`: the reference's first sum is `40000`, its output
    `int16((40000 + 3) >> 3) = 5000`; a 16-bit lane wraps the sum to `−25536` and yields `−3192`. -/
theorem wht_exceeds_int16 :
    let c : Nat → Int := fun k => if k = 0 ∨ k = 12 then 20000 else 0
    iwhtTmp c 0 = 40000 ∧ transformWHT c 0 = 5000 ∧ (toI16 40000 + 3) / 8 = -3192 := by
  decide

/-! ## Forward DCT -/

/-- **ftransform_range.**  For byte blocks `src`, `ref` every first-pass value of the forward DCT is
    within ±8160 and every coefficient within ±2040: the `int16(…)` conversions of `fTransform` never
    truncate, and the quantiser is only ever fed values within ±2040. -/
theorem ftransform_range (src ref : Nat → Int)
    (hs : ∀ k, k < 16 → 0 ≤ src k ∧ src k ≤ 255) (hr : ∀ k, k < 16 → 0 ≤ ref k ∧ ref k ≤ 255) :
    ∀ k, k < 16 → Within 2040 (fTransform src ref k) ∧
      fTransform src ref k = fTransformRaw (fdctTmp (fun i => src i - ref i)) k := by
  intro k hk
  have hd : ∀ k, k < 16 → Within 255 ((fun i => src i - ref i) k) := by
    intro k hk; have := hs k hk; have := hr k hk; unfold Within; simp only; omega
  have hb := fTransformRaw_bound _ (fun k hk => fdctTmp_bound _ hd k hk) k hk
  rw [fTransform_eq_raw]
  unfold Within at hb
  rw [toI16_id (by omega) (by omega)]
  exact ⟨hb, rfl⟩

/-! ## Quantisation -/

/-- **quantize_sign_symmetry.**  The level of `−v` is minus the level of `v`, with the same magnitude, for
    every non-zero coefficient and all parameters (also outside the encoder's range).  For `v = 0` both
    sides are the same call. -/
theorem quantize_sign_symmetry (v s iq b : Int) (hv : v ≠ 0) :
    (quantOne (-v) s iq b).1 = (quantOne v s iq b).1 ∧ (quantOne (-v) s iq b).2 = -(quantOne v s iq b).2 := by
  refine ⟨quantOne_mag_neg v s iq b, ?_⟩
  rw [quantOne_level, quantOne_level, quantOne_mag_neg]
  generalize (quantOne v s iq b).1 = m
  split <;> split <;> omega

/-- whole block: negating the input negates every level and keeps the returned `nz` -/
theorem quantize_block_sign_symmetry (q : QParams) (first : Nat) (c : Nat → Int) :
    quantNz q first (fun k => -c k) = quantNz q first c ∧
    ∀ n, c n ≠ 0 → quantLevel q first (fun k => -c k) n = -quantLevel q first c n := by
  constructor
  · unfold quantNz quantMag
    simp only [quantOne_mag_neg]
  · intro n hn
    unfold quantLevel
    by_cases h0 : n = 0
    · subst h0
      by_cases hf : first = 0
      · simp only [hf, if_true]
        exact (quantize_sign_symmetry (c 0) _ _ _ hn).2
      · simp [hf]
    · simp only [h0, if_false]
      exact (quantize_sign_symmetry (c n) _ _ _ hn).2

/-- **quantize_level_bounded.**  For all inputs and all parameters: `0 ≤ level ≤ 2047 = MAX_LEVEL`,
    `|out[n]| ≤ 2047` (so `int16(sign·level)` never truncates) and `0 ≤ nz ≤ 16`. -/
theorem quantize_level_bounded (q : QParams) (first : Nat) (c : Nat → Int) :
    (∀ n, 0 ≤ quantMag q first c n ∧ quantMag q first c n ≤ 2047) ∧
    (∀ n, -2047 ≤ quantLevel q first c n ∧ quantLevel q first c n ≤ 2047) ∧
    quantNz q first c ≤ 16 := by
  refine ⟨?_, ?_, ?_⟩
  · intro n
    unfold quantMag
    split
    · split
      · exact quantOne_mag_range _ _ _ _
      · omega
    · exact quantOne_mag_range _ _ _ _
  · intro n
    have key : ∀ v s iq b, -2047 ≤ (quantOne v s iq b).2 ∧ (quantOne v s iq b).2 ≤ 2047 := by
      intro v s iq b
      have := quantOne_mag_range v s iq b
      rw [quantOne_level]
      split <;> omega
    unfold quantLevel
    split
    · split
      · exact key _ _ _ _
      · omega
    · exact key _ _ _ _
  · unfold quantNz
    have step : ∀ (l : List Nat) (m : Nat), m ≤ 16 → (∀ n ∈ l, n < 16) →
        l.foldl (fun m n => if quantMag q first c n ≠ 0 then max m (reverseZigzag.getD n 0 + 1) else m) m ≤ 16 := by
      intro l
      induction l with
      | nil => intro m hm _; simpa using hm
      | cons a t ih =>
        intro m hm hl
        simp only [List.foldl_cons]
        apply ih
        · have ha : a < 16 := hl a (List.mem_cons_self)
          have hz : reverseZigzag.getD a 0 + 1 ≤ 16 := by
            rcases lt16_cases ha with rfl | rfl | rfl | rfl | rfl | rfl | rfl | rfl | rfl | rfl | rfl | rfl | rfl | rfl | rfl | rfl <;> decide
          split <;> omega
        · intro n hn; exact hl n (List.mem_cons_of_mem _ hn)
    exact step _ 0 (by omega) (fun n hn => List.mem_range.mp hn)

/-- **quantize_no_wrap.**  On the encoder's own range — `|coeff| + sharpen ≤ 4096` (`ftransform_range`
    gives 2040 + 13), `iQ = 2^17 / q ≤ 2^17`, `bias ≤ 2^17` (`kBiasMatrices ≤ 115 << 9`) — the `uint32`
    arithmetic of `quantizeCoeffsGo` does not wrap and stays below 2^31: a 64-bit product (the SSE2/AVX2
    code) and a 32-bit signed `int` (GOARCH=386/arm/mips) compute the same level. -/
theorem quantize_no_wrap (a iq bias : Int) (ha : 0 ≤ a ∧ a ≤ 4096) (hq : 0 ≤ iq ∧ iq ≤ 131072)
    (hb : 0 ≤ bias ∧ bias ≤ 131072) :
    u32 (u32 a * u32 iq + u32 bias) = a * iq + bias ∧ a * iq + bias < 2147483648 :=
  quant_no_wrap a iq bias ha hq hb

example : (0 : Int) ≤ 2053 ∧ (2053 : Int) ≤ 4096 ∧ (0 : Int) ≤ 32768 ∧ (32768 : Int) ≤ 131072 := by omega

end Webp.Props.C13
