import Webp.Proofs.BoolWriterFinish
import Webp.Proofs.BoolReader
import Webp.Proofs.BoolOps
import Webp.Proofs.BoolSpecDec
import Webp.Proofs.BoolReaderAlt
/-
  C06 (also C02 / C04) — the VP8 boolean coder layer, no longer an "exact channel" by assumption:
  the Go boolean decoder (`bitio.BoolReader`) inverts the Go boolean encoder (`bitio.BoolWriter`).

  Models: `Webp.Impl.BoolCoder` (statement-by-statement; tied to /repo/internal/bitio by the suite
  "boolcoder").  Proof: both refine the ideal arithmetic coder `Webp.Spec.VP8.BoolIdeal`
  (`Webp.Proofs.BoolIdeal` interval nesting; `Webp.Proofs.BoolWriter*` carry propagation, pending
  0xff run, `Finish`; `Webp.Proofs.BoolReader` bit window, 7/1-byte loads).

  Domain: probabilities `≤ 255` (what `GetBit(prob uint8)` can be given and what every caller of
  `PutBit` in /repo passes).  `PutBit(bit, 256)` is modelled (`bit ≠ 0` panics in Go, `bit = 0` is a
  no-op) and excluded here.  `PutBit` only looks at `bit != 0`, hence `Bool`.
-/
namespace Webp.Props.C06Bool
open Webp.Go (Bytes)
open Webp.Impl.BoolCoder
open Webp.Spec.VP8.BoolIdeal
open Webp.Proofs.BoolIdeal Webp.Proofs.BoolWriter Webp.Proofs.BoolReader Webp.Proofs.BoolOps
open Webp.Proofs.BoolSpecDec

/-- the bytes `Finish` returns after the `PutBit` calls `ps` -/
def encodeBits (ps : List (Bool × Nat)) : Bytes :=
  finish (ps.foldl (fun w p => putBit w p.1 p.2) newWriter)

/-- **The writer refines the ideal encoder** (C1): after any `PutBit` calls with `prob ≤ 255` the
    writer has not panicked and `Finish` returns exactly the ideal code number — the lower end of the
    final interval, `k + 8` bits — followed by `j ≥ 8` zero bits (a whole number of bytes). -/
theorem writer_refines_ideal (ps : List (Bool × Nat)) (h : ∀ p ∈ ps, p.2 ≤ 255) :
    (ps.foldl (fun w p => putBit w p.1 p.2) newWriter).panicked = false ∧
    ∃ j, 8 ≤ j ∧ beNum (encodeBits ps) = (idealEncode ps).value * 2 ^ j ∧
      8 * (encodeBits ps).length = (idealEncode ps).k + 8 + j := by
  obtain ⟨q, hq, hw⟩ := putAll_inv h winv_init (by norm_num : (0 : Nat) ≤ 8)
  exact ⟨hw.np, finish_spec hw hq⟩

/-- no `int32` overflow in the writer: `value` stays below `2^24` between calls -/
theorem writer_value_bounded (ps : List (Bool × Nat)) (h : ∀ p ∈ ps, p.2 ≤ 255) :
    (ps.foldl (fun w p => putBit w p.1 p.2) newWriter).value < 2 ^ 24 := by
  obtain ⟨q, hq, hw⟩ := putAll_inv h winv_init (by norm_num : (0 : Nat) ≤ 8)
  exact value_lt hw hq

/-- round trip with the final reader state: the symbols come back and the reader has not reached
    the end of the data (`eof` is false: no read past the end is needed for what was written) -/
theorem bool_roundtrip_st (ps : List (Bool × Nat)) (h : ∀ p ∈ ps, p.2 ≤ 255) :
    (readBitsSt (newReader (encodeBits ps)) (ps.map (·.2))).1 = ps.map (·.1) ∧
    (readBitsSt (newReader (encodeBits ps)) (ps.map (·.2))).2.eof = false := by
  obtain ⟨q, hq, hw⟩ := putAll_inv h winv_init (by norm_num : (0 : Nat) ≤ 8)
  obtain ⟨j, hj, hnum, hlen⟩ := finish_spec hw hq
  have hF : finish (ps.foldl (fun w p => putBit w p.1 p.2) newWriter) = encodeBits ps := rfl
  rw [hF] at hnum hlen
  set F := encodeBits ps with hFdef
  have hrng := putAll_rng rng_init h
  have hlo : (Enc.putAll {} ps).low * 2 ^ j ≤ beNum F := by rw [hnum]
  have hhi : beNum F < ((Enc.putAll {} ps).low + (Enc.putAll {} ps).range) * 2 ^ j := by
    rw [hnum]
    apply Nat.mul_lt_mul_of_pos_right _ (Nat.two_pow_pos j)
    have := hrng.1; omega
  have hdec := decode_of_mem_final h hlo hhi
  have hok := ok_of_mem_final h hlo hhi
  have hdinv := dinv_of_mem_final h hhi
  have he : (Enc.putAll {} ps).k + j = 8 * F.length - 8 := by omega
  rw [he] at hdec hok hdinv
  have hinit := rinv_init F (by omega) hdinv
  have hload := (load_inv hinit (by show (-8 : Int) < 0; omega)).1
  have hnew : loadNewBytes { data := F } = newReader F := rfl
  rw [hnew] at hload
  obtain ⟨h1, h2⟩ := readBits_refines (fun p hp => by
    obtain ⟨a, ha, rfl⟩ := List.mem_map.mp hp
    exact h a ha) hload hok
  refine ⟨?_, h2⟩
  rw [h1]; exact hdec

/-- **The boolean decoder inverts the boolean encoder.** -/
theorem bool_roundtrip (ps : List (Bool × Nat)) (h : ∀ p ∈ ps, 1 ≤ p.2 ∧ p.2 ≤ 255) :
    readBits (newReader (finish (ps.foldl (fun w p => putBit w p.1 p.2) newWriter))) (ps.map (·.2))
      = ps.map (·.1) := by
  rw [readBits_eq_fst]
  exact (bool_roundtrip_st ps (fun p hp => (h p hp).2)).1

/-- the same including probability 0 (a 0 is then coded in an interval of width 1) -/
theorem bool_roundtrip' (ps : List (Bool × Nat)) (h : ∀ p ∈ ps, p.2 ≤ 255) :
    readBits (newReader (finish (ps.foldl (fun w p => putBit w p.1 p.2) newWriter))) (ps.map (·.2))
      = ps.map (·.1) := by
  rw [readBits_eq_fst]
  exact (bool_roundtrip_st ps h).1

/-! non-vacuity: the hypotheses are satisfiable, and the statement is not trivially about empty
    lists: a concrete sequence with extreme probabilities (the bytes are checked too) -/
def sample : List (Bool × Nat) :=
  [(true, 128), (false, 1), (true, 255), (true, 255), (false, 3), (true, 1), (false, 200), (true, 254)]

example : ∀ p ∈ sample, 1 ≤ p.2 ∧ p.2 ≤ 255 := by decide
example : encodeBits sample = [0x80, 0x7f, 0xfe, 0x06, 0x30, 0x00, 0x00] := by decide
example : readBits (newReader (encodeBits sample)) (sample.map (·.2)) = sample.map (·.1) :=
  bool_roundtrip sample (by decide)
/-- the decoder is not a constant function: another code gives other symbols -/
example : readBits (newReader [0x12, 0x34, 0x56, 0x78, 0, 0, 0]) (sample.map (·.2)) ≠ sample.map (·.1) := by decide

/-! ### the reference decoder of the specification model (C04's `Webp.Spec.VP8.BoolDec`) -/

/-- **The RFC-style reference decoder reads back what the Go writer wrote**, and its truncation
    criterion `over` does not fire (`specInit F` = `BoolDec.init` over the whole of `F`;
    `specBits` = one `readBool` per probability). -/
theorem specdec_roundtrip (ps : List (Bool × Nat)) (h : ∀ p ∈ ps, 1 ≤ p.2 ∧ p.2 ≤ 255) :
    specBits (specInit (encodeBits ps)) (ps.map (·.2)) = ps.map (·.1) ∧
    (specBitsSt (specInit (encodeBits ps)) (ps.map (·.2))).2.over = false := by
  have hv : Valid ps := fun p hp => (h p hp).2
  obtain ⟨q, hq, hw⟩ := putAll_inv hv winv_init (by norm_num : (0 : Nat) ≤ 8)
  obtain ⟨j, hj, hnum, hlen⟩ := finish_spec hw hq
  have hF : finish (ps.foldl (fun w p => putBit w p.1 p.2) newWriter) = encodeBits ps := rfl
  rw [hF] at hnum hlen
  set F := encodeBits ps with hFdef
  have hrng := putAll_rng rng_init hv
  have hlo : (Enc.putAll {} ps).low * 2 ^ j ≤ beNum F := by rw [hnum]
  have hhi : beNum F < ((Enc.putAll {} ps).low + (Enc.putAll {} ps).range) * 2 ^ j := by
    rw [hnum]
    apply Nat.mul_lt_mul_of_pos_right _ (Nat.two_pow_pos j)
    have := hrng.1; omega
  have hdec := decode_of_mem_final hv hlo hhi
  have hok := okM_mono hj (okM_of_mem_final hv hlo hhi)
  have hdinv := dinv_of_mem_final hv hhi
  have he : (Enc.putAll {} ps).k + j = 8 * F.length - 8 := by omega
  rw [he] at hdec hok hdinv
  obtain ⟨hinit, hr⟩ := sinv_init F (by omega)
  obtain ⟨h1, h2⟩ := specBits_refines (di := { val := beNum F, range := 255, e := 8 * F.length - 8 })
    (fun p hp => by
      obtain ⟨a, ha, rfl⟩ := List.mem_map.mp hp
      exact hv a ha) hinit hr hdinv hok
  refine ⟨?_, h2⟩
  show (specBitsSt (specInit F) (ps.map (·.2))).1 = _
  rw [h1]; exact hdec

example : specBits (specInit (encodeBits sample)) (sample.map (·.2)) = sample.map (·.1) :=
  (specdec_roundtrip sample (by decide)).1

/-! ### `GetBitAlt` -/

/-- **`GetBitAlt` (table-driven normalisation; the statements `fastBit` inlines) is `GetBit`** on every
    reader with `127 ≤ Range ≤ 254` — every reader reached from `NewBoolReader` by `GetBit`/`GetBitAlt`
    (`Range = 255` arises only when `GetSigned` is the very first call on a fresh reader). -/
theorem getBitAlt_is_getBit (r : BoolReader) (p : Nat) (h1 : 127 ≤ r.range) (h2 : r.range ≤ 254)
    (hp : p ≤ 255) : getBitAlt r p = getBit r p :=
  getBitAlt_eq_getBit r h1 h2 hp

example : 127 ≤ (newReader (encodeBits sample)).range ∧ (newReader (encodeBits sample)).range ≤ 254 := by decide
example : getBitAlt (newReader (encodeBits sample)) 3 = getBit (newReader (encodeBits sample)) 3 :=
  getBitAlt_is_getBit _ 3 (by decide) (by decide) (by decide)

/-! ### mixed calls: the boolean coder is an exact channel for the syntax layer -/

/-- **Any mix of `PutBit` / `PutBitUniform` / `PutBits` / `PutSignedBits` is read back by the matching
    `GetBit` / `GetValue` / `GetBit`+`GetSignedValue` calls** (`Op.Valid`: probabilities are bytes,
    `PutBits(v, n)` has `1 ≤ n ≤ 32` and `v < 2^n`, `PutSignedBits(v, n)` has `n ≤ 31` and `|v| < 2^n`). -/
theorem ops_roundtrip (ops : List Op) (h : ∀ op ∈ ops, op.Valid) :
    readOps (newReader (finish (ops.foldl Op.write newWriter))) ops = ops := by
  rw [writeAll_eq h winv_init (by norm_num : (0 : Nat) ≤ 8)]
  exact readOps_eq h _ (bool_roundtrip_st _ (flatMap_valid h)).1

/-- `PutBits` / `GetValue` -/
theorem putBits_getValue (v n : Nat) (h1 : 1 ≤ n) (h32 : n ≤ 32) (hv : v < 2 ^ n) :
    (getValue (newReader (finish (putBits newWriter v n))) n).1 = v := by
  have := ops_roundtrip [.bits v n] (by intro op hop; simp at hop; rw [hop]; exact ⟨h1, h32, hv⟩)
  simp only [List.foldl_cons, List.foldl_nil, readOps, List.cons.injEq, and_true] at this
  have h2 : (Op.bits (getValue (newReader (finish (putBits newWriter v n))) n).1 n) = Op.bits v n := this
  injection h2

/-- `PutSignedBits` / `GetBit(0x80)` + `GetSignedValue` -/
theorem putSignedBits_getSignedValue (v : Int) (n : Nat) (hn : n ≤ 31) (hv : v.natAbs < 2 ^ n) :
    let r := newReader (finish (putSignedBits newWriter v n))
    (getBit r 0x80).1 = (v != 0) ∧ (v ≠ 0 → (getSignedValue (getBit r 0x80).2 n).1 = v) := by
  intro r
  have hop : (Op.sbits v n).Valid := ⟨hn, hv⟩
  have hw : encodeBits (symbols (.sbits v n)) = finish (putSignedBits newWriter v n) := by
    unfold encodeBits
    rw [← write_eq hop winv_init (by norm_num : (0 : Nat) ≤ 8)]
    rfl
  have hbits := (bool_roundtrip_st (symbols (.sbits v n)) (symbols_valid hop)).1
  rw [hw] at hbits
  have hflag : (getBit r 0x80).1 = (v != 0) := by
    simp only [symbols, List.map_cons, readBitsSt_cons, List.cons.injEq] at hbits
    exact hbits.1
  refine ⟨hflag, fun hne => ?_⟩
  have := ops_roundtrip [.sbits v n] (by intro op hop'; simp at hop'; rw [hop']; exact hop)
  simp only [List.foldl_cons, List.foldl_nil, readOps, List.cons.injEq, and_true] at this
  have h2 : (Op.read r (.sbits v n)).1 = Op.sbits v n := this
  unfold Op.read at h2
  have hb : (getBit r 0x80).1 = true := by rw [hflag]; simpa using hne
  simp only [hb, if_true] at h2
  injection h2

/-! non-vacuity of `ops_roundtrip` -/
def sampleOps : List Op :=
  [.bit true 3, .bits 0x2a5 10, .sbits (-13) 4, .ubit true, .sbits 0 7, .bit false 250, .sbits 63 6, .bits 0xffffffff 32]

example : ∀ op ∈ sampleOps, op.Valid := by
  intro op hop
  simp only [sampleOps, List.mem_cons, List.mem_nil_iff, or_false] at hop
  rcases hop with h | h | h | h | h | h | h | h <;> subst h <;> simp [Op.Valid]
example : readOps (newReader (finish (sampleOps.foldl Op.write newWriter))) sampleOps = sampleOps :=
  ops_roundtrip sampleOps (by
    intro op hop
    simp only [sampleOps, List.mem_cons, List.mem_nil_iff, or_false] at hop
    rcases hop with h | h | h | h | h | h | h | h <;> subst h <;> simp [Op.Valid])
set_option maxRecDepth 100000 in
example : finish (sampleOps.foldl Op.write newWriter)
    = [0xa9, 0xd5, 0xcf, 0x42, 0x7f, 0xff, 0xff, 0xc2, 0x80, 0x00] := by decide
example : (getValue (newReader (finish (putBits newWriter 0x1234 13))) 13).1 = 0x1234 := by decide

#print axioms specdec_roundtrip
#print axioms getBitAlt_is_getBit
#print axioms ops_roundtrip
#print axioms putBits_getValue
#print axioms putSignedBits_getSignedValue
#print axioms writer_refines_ideal
#print axioms bool_roundtrip_st
#print axioms bool_roundtrip
#print axioms bool_roundtrip'

end Webp.Props.C06Bool
