import Webp.Props.C04FuncsFilter
import Webp.Proofs.FuncsFilterApply
/-
  C04 (and C06, C13) — regenerated obligations for the loop-filter APPLICATION functions of
  internal/dsp/filter.go: `doFilter2/4/6`, the loops `simpleVFilter16Go`, `SimpleHFilter16`,
  `filterLoop26`, `filterLoop24` and their instantiations `VFilter16`, `HFilter16`, `VFilter8`,
  `HFilter8`, `VFilter16i`, `HFilter16i`, `VFilter8i`, `HFilter8i`, `SimpleHFilter16i`, as
  translated from the Go AST on this run, are the model filters of `Webp.Impl.VP8Kernels`
  (`doFilter2/4/6`, `simpleFilterGo`, `filterLoop26Go`, `filterLoop24Go` on a `Seg`) applied to the
  eight samples `segAt p off step` read across the edge and written back in place.

  Vocabulary (Webp/Proofs/FuncsFilterApply.lean): `InR p i` = `0 ≤ i < len p`; `at' p i` = `p[i]`;
  `Touch4/6/8 p off step` = the 4/6/8 indices `off - k*step .. off + k'*step` are in range;
  `writeSeg2/4/6 p off step s` = the exact nested `List.set` term the code produces;
  `stepSimple/step26/step24` = model on `segAt`, written back; `toR none` = Go panic.
-/
namespace Webp.Props.C04FuncsFilterApply
open Webp.Go Webp.Go.IntSem Webp.Proofs.FuncsBridge Webp.Proofs.FuncsListOps Webp.Proofs.FuncsFilterApply
open Webp.Props.C04FuncsFilter
open Webp.Impl.VP8Kernels (Seg)

/-! ## (1) `doFilter2`, `doFilter4`, `doFilter6` on a plane -/

theorem tie_doFilter2 (p : List Int) (off step : Int) (h : Touch4 p off step) :
    Generated.Funcs.doFilter2 p off step
      = (toR (Webp.Impl.VP8Kernels.doFilter2 (segAt p off step))).bind fun s' =>
          .ok (writeSeg2 p off step s') := by
  unfold Generated.Funcs.doFilter2
  rw [idxI_inR p _ h.p1, idxI_inR p _ h.p0, idxI_inR p _ h.q0, idxI_inR p _ h.q1]
  simp only [ok_bind, tie_Ksclip1, tie_Ksclip2, tie_Kclip1, shr_lit_eq_div, Int.reducePow,
    setI_inR, inR_set_iff, h.p0, h.q0]
  simp only [Webp.Impl.VP8Kernels.doFilter2, segAt, writeSeg2, Option.bind_eq_bind, Option.pure_def,
    toR_bind, toR_some, res_bind_assoc, ok_bind]

theorem tie_doFilter4 (p : List Int) (off step : Int) (h : Touch4 p off step) :
    Generated.Funcs.doFilter4 p off step
      = (toR (Webp.Impl.VP8Kernels.doFilter4 (segAt p off step))).bind fun s' =>
          .ok (writeSeg4 p off step s') := by
  unfold Generated.Funcs.doFilter4
  rw [idxI_inR p _ h.p1, idxI_inR p _ h.p0, idxI_inR p _ h.q0, idxI_inR p _ h.q1]
  simp only [ok_bind, tie_Ksclip2, tie_Kclip1, shr_lit_eq_div, Int.reducePow,
    setI_inR, inR_set_iff, h.p1, h.p0, h.q0, h.q1]
  simp only [Webp.Impl.VP8Kernels.doFilter4, segAt, writeSeg4, Option.bind_eq_bind, Option.pure_def,
    toR_bind, toR_some, res_bind_assoc, ok_bind]

theorem tie_doFilter6 (p : List Int) (off step : Int) (h : Touch6 p off step) :
    Generated.Funcs.doFilter6 p off step
      = (toR (Webp.Impl.VP8Kernels.doFilter6 (segAt p off step))).bind fun s' =>
          .ok (writeSeg6 p off step s') := by
  unfold Generated.Funcs.doFilter6
  rw [idxI_inR p _ h.p2, idxI_inR p _ h.p1, idxI_inR p _ h.p0, idxI_inR p _ h.q0, idxI_inR p _ h.q1,
    idxI_inR p _ h.q2]
  simp only [ok_bind, tie_Ksclip1, tie_Kclip1, shr_lit_eq_div, Int.reducePow,
    setI_inR, inR_set_iff, h.p2, h.p1, h.p0, h.q0, h.q1, h.q2]
  simp only [Webp.Impl.VP8Kernels.doFilter6, segAt, writeSeg6, Option.bind_eq_bind, Option.pure_def,
    toR_bind, toR_some, res_bind_assoc, ok_bind]


/-! ### out of range: the Go function panics (all reads precede the first write) -/

theorem doFilter2_panic (p : List Int) (off step : Int) (h : ¬ Touch4 p off step) :
    Generated.Funcs.doFilter2 p off step = .panic := by
  unfold Generated.Funcs.doFilter2
  by_cases h1 : InR p (off - 2 * step)
  · by_cases h2 : InR p (off - step)
    · by_cases h3 : InR p off
      · by_cases h4 : InR p (off + step)
        · exact absurd ⟨h1, h2, h3, h4⟩ h
        · rw [idxI_inR p _ h1, idxI_inR p _ h2, idxI_inR p _ h3, idxI_not_inR p _ h4]; rfl
      · rw [idxI_inR p _ h1, idxI_inR p _ h2, idxI_not_inR p _ h3]; rfl
    · rw [idxI_inR p _ h1, idxI_not_inR p _ h2]; rfl
  · rw [idxI_not_inR p _ h1]; rfl

theorem doFilter4_panic (p : List Int) (off step : Int) (h : ¬ Touch4 p off step) :
    Generated.Funcs.doFilter4 p off step = .panic := by
  unfold Generated.Funcs.doFilter4
  by_cases h1 : InR p (off - 2 * step)
  · by_cases h2 : InR p (off - step)
    · by_cases h3 : InR p off
      · by_cases h4 : InR p (off + step)
        · exact absurd ⟨h1, h2, h3, h4⟩ h
        · rw [idxI_inR p _ h1, idxI_inR p _ h2, idxI_inR p _ h3, idxI_not_inR p _ h4]; rfl
      · rw [idxI_inR p _ h1, idxI_inR p _ h2, idxI_not_inR p _ h3]; rfl
    · rw [idxI_inR p _ h1, idxI_not_inR p _ h2]; rfl
  · rw [idxI_not_inR p _ h1]; rfl

theorem doFilter6_panic (p : List Int) (off step : Int) (h : ¬ Touch6 p off step) :
    Generated.Funcs.doFilter6 p off step = .panic := by
  unfold Generated.Funcs.doFilter6
  by_cases h0 : InR p (off - 3 * step)
  · by_cases h1 : InR p (off - 2 * step)
    · by_cases h2 : InR p (off - step)
      · by_cases h3 : InR p off
        · by_cases h4 : InR p (off + step)
          · by_cases h5 : InR p (off + 2 * step)
            · exact absurd ⟨⟨h1, h2, h3, h4⟩, h0, h5⟩ h
            · rw [idxI_inR p _ h0, idxI_inR p _ h1, idxI_inR p _ h2, idxI_inR p _ h3, idxI_inR p _ h4,
                idxI_not_inR p _ h5]; rfl
          · rw [idxI_inR p _ h0, idxI_inR p _ h1, idxI_inR p _ h2, idxI_inR p _ h3, idxI_not_inR p _ h4]; rfl
        · rw [idxI_inR p _ h0, idxI_inR p _ h1, idxI_inR p _ h2, idxI_not_inR p _ h3]; rfl
      · rw [idxI_inR p _ h0, idxI_inR p _ h1, idxI_not_inR p _ h2]; rfl
    · rw [idxI_inR p _ h0, idxI_not_inR p _ h1]; rfl
  · rw [idxI_not_inR p _ h0]; rfl

/-! ### what a successful call did to the plane: the segment reads back as the model's result, the
    length and all other positions are unchanged -/

theorem doFilter2_spec (p : List Int) (off step : Int) (h : Touch4 p off step) (hs : step ≠ 0)
    (q : List Int) (hq : Generated.Funcs.doFilter2 p off step = .ok q) :
    Webp.Impl.VP8Kernels.doFilter2 (segAt p off step) = some (segAt q off step) ∧ q.length = p.length
      ∧ ∀ j, j ≠ off → j ≠ off - step → at' q j = at' p j := by
  rw [tie_doFilter2 p off step h] at hq
  cases hm : Webp.Impl.VP8Kernels.doFilter2 (segAt p off step) with
  | none => rw [hm] at hq; cases hq
  | some s' =>
    rw [hm] at hq; cases hq
    refine ⟨by rw [segAt_writeSeg2 p off step h hs s' hm], length_writeSeg2 .., fun j h1 h2 => ?_⟩
    rw [at_writeSeg2 p off step _ h, if_neg (Ne.symm h1), if_neg (Ne.symm h2)]

theorem doFilter4_spec (p : List Int) (off step : Int) (h : Touch4 p off step) (hs : step ≠ 0)
    (q : List Int) (hq : Generated.Funcs.doFilter4 p off step = .ok q) :
    Webp.Impl.VP8Kernels.doFilter4 (segAt p off step) = some (segAt q off step) ∧ q.length = p.length
      ∧ ∀ j, j ≠ off + step → j ≠ off → j ≠ off - step → j ≠ off - 2 * step → at' q j = at' p j := by
  rw [tie_doFilter4 p off step h] at hq
  cases hm : Webp.Impl.VP8Kernels.doFilter4 (segAt p off step) with
  | none => rw [hm] at hq; cases hq
  | some s' =>
    rw [hm] at hq; cases hq
    refine ⟨by rw [segAt_writeSeg4 p off step h hs s' hm], length_writeSeg4 .., fun j h1 h2 h3 h4 => ?_⟩
    rw [at_writeSeg4 p off step _ h, if_neg (Ne.symm h1), if_neg (Ne.symm h2), if_neg (Ne.symm h3),
      if_neg (Ne.symm h4)]

theorem doFilter6_spec (p : List Int) (off step : Int) (h : Touch6 p off step) (hs : step ≠ 0)
    (q : List Int) (hq : Generated.Funcs.doFilter6 p off step = .ok q) :
    Webp.Impl.VP8Kernels.doFilter6 (segAt p off step) = some (segAt q off step) ∧ q.length = p.length
      ∧ ∀ j, j ≠ off + 2 * step → j ≠ off + step → j ≠ off → j ≠ off - step → j ≠ off - 2 * step →
          j ≠ off - 3 * step → at' q j = at' p j := by
  rw [tie_doFilter6 p off step h] at hq
  cases hm : Webp.Impl.VP8Kernels.doFilter6 (segAt p off step) with
  | none => rw [hm] at hq; cases hq
  | some s' =>
    rw [hm] at hq; cases hq
    refine ⟨by rw [segAt_writeSeg6 p off step h hs s' hm], length_writeSeg6 ..,
      fun j h1 h2 h3 h4 h5 h6 => ?_⟩
    rw [at_writeSeg6 p off step _ h, if_neg (Ne.symm h1), if_neg (Ne.symm h2), if_neg (Ne.symm h3),
      if_neg (Ne.symm h4), if_neg (Ne.symm h5), if_neg (Ne.symm h6)]

/-! ## (2) one position of the loops -/

theorem tie_bodySimple (thresh : Int) (p : List Int) (off step : Int) (h : Touch4 p off step) :
    bodySimple (2 * thresh + 1) p off step = stepSimple thresh p off step := by
  unfold bodySimple stepSimple
  rw [idxI_inR p _ h.p1, idxI_inR p _ h.p0, idxI_inR p _ h.q0, idxI_inR p _ h.q1]
  simp only [ok_bind, tie_needsFilter, tie_doFilter2 p off step h, Webp.Proofs.FuncsListOps.bind_ok_id]
  simp only [Webp.Impl.VP8Kernels.simpleFilterGo, Option.bind_eq_bind, Option.pure_def, toR_bind]
  simp only [segAt]
  cases Webp.Impl.VP8Kernels.needsFilter (at' p (off - 2 * step)) (at' p (off - step)) (at' p off)
      (at' p (off + step)) (2 * thresh + 1) with
  | none => rfl
  | some b =>
    cases b with
    | true => simp only [toR_some, ok_bind, if_true]
    | false =>
      have := writeSeg2_self p off step h
      simp only [segAt] at this
      simp [toR_some, ok_bind, this]

theorem tie_body26 (hstride vstride thresh ithresh hevT : Int) (p : List Int) (off : Int)
    (h : Touch8 p off hstride) (hs : hstride ≠ 0) :
    body26 hstride vstride (2 * thresh + 1) ithresh hevT (p, off)
      = (step26 thresh ithresh hevT p off hstride).bind fun q => .ok (q, off + vstride) := by
  unfold body26 step26
  simp only []
  rw [idxI_inR p _ h.p3, idxI_inR p _ h.p2, idxI_inR p _ h.p1, idxI_inR p _ h.p0, idxI_inR p _ h.q0,
    idxI_inR p _ h.q1, idxI_inR p _ h.q2, idxI_inR p _ h.q3]
  simp only [ok_bind, tie_needsFilter2, tie_hev, tie_doFilter2 p off hstride h.toTouch4,
    tie_doFilter6 p off hstride h.toTouch6, Webp.Proofs.FuncsListOps.bind_ok_id]
  simp only [Webp.Impl.VP8Kernels.filterLoop26Go, Option.bind_eq_bind, Option.pure_def, toR_bind]
  have e : segAt p off hstride = ⟨at' p (off - 4 * hstride), at' p (off - 3 * hstride),
      at' p (off - 2 * hstride), at' p (off - hstride), at' p off, at' p (off + hstride),
      at' p (off + 2 * hstride), at' p (off + 3 * hstride)⟩ := rfl
  simp only [e]
  simp only [← e]
  cases Webp.Impl.VP8Kernels.needsFilter2 (at' p (off - 4 * hstride)) (at' p (off - 3 * hstride))
      (at' p (off - 2 * hstride)) (at' p (off - hstride)) (at' p off) (at' p (off + hstride))
      (at' p (off + 2 * hstride)) (at' p (off + 3 * hstride)) (2 * thresh + 1) ithresh with
  | none => rfl
  | some b =>
    cases b with
    | false =>
      simp [toR_some, ok_bind, writeSeg6_self p off hstride h.toTouch6 hs]
    | true =>
      simp only [toR_some, ok_bind, if_true, toR_bind]
      cases Webp.Impl.VP8Kernels.hev (at' p (off - 2 * hstride)) (at' p (off - hstride)) (at' p off)
        (at' p (off + hstride)) hevT with
      | none => rfl
      | some hv =>
        cases hv with
        | false => simp [toR_some, ok_bind]
        | true =>
          simp only [toR_some, ok_bind, if_true]
          cases hd : Webp.Impl.VP8Kernels.doFilter2 (segAt p off hstride) with
          | none => rfl
          | some s' =>
            simp only [toR_some, ok_bind]
            rw [writeSeg6_eq_writeSeg2 p off hstride h.toTouch6 hs s' (K.doFilter2_frame _ _ hd)]
theorem tie_body24 (hstride vstride thresh ithresh hevT : Int) (p : List Int) (off : Int)
    (h : Touch8 p off hstride) (hs : hstride ≠ 0) :
    body24 hstride vstride (2 * thresh + 1) ithresh hevT (p, off)
      = (step24 thresh ithresh hevT p off hstride).bind fun q => .ok (q, off + vstride) := by
  unfold body24 step24
  simp only []
  rw [idxI_inR p _ h.p3, idxI_inR p _ h.p2, idxI_inR p _ h.p1, idxI_inR p _ h.p0, idxI_inR p _ h.q0,
    idxI_inR p _ h.q1, idxI_inR p _ h.q2, idxI_inR p _ h.q3]
  simp only [ok_bind, tie_needsFilter2, tie_hev, tie_doFilter2 p off hstride h.toTouch4,
    tie_doFilter4 p off hstride h.toTouch4, Webp.Proofs.FuncsListOps.bind_ok_id]
  simp only [Webp.Impl.VP8Kernels.filterLoop24Go, Option.bind_eq_bind, Option.pure_def, toR_bind]
  have e : segAt p off hstride = ⟨at' p (off - 4 * hstride), at' p (off - 3 * hstride),
      at' p (off - 2 * hstride), at' p (off - hstride), at' p off, at' p (off + hstride),
      at' p (off + 2 * hstride), at' p (off + 3 * hstride)⟩ := rfl
  simp only [e]
  simp only [← e]
  cases Webp.Impl.VP8Kernels.needsFilter2 (at' p (off - 4 * hstride)) (at' p (off - 3 * hstride))
      (at' p (off - 2 * hstride)) (at' p (off - hstride)) (at' p off) (at' p (off + hstride))
      (at' p (off + 2 * hstride)) (at' p (off + 3 * hstride)) (2 * thresh + 1) ithresh with
  | none => rfl
  | some b =>
    cases b with
    | false =>
      simp [toR_some, ok_bind, writeSeg4_self p off hstride h.toTouch4 hs]
    | true =>
      simp only [toR_some, ok_bind, if_true, toR_bind]
      cases Webp.Impl.VP8Kernels.hev (at' p (off - 2 * hstride)) (at' p (off - hstride)) (at' p off)
        (at' p (off + hstride)) hevT with
      | none => rfl
      | some hv =>
        cases hv with
        | false => simp [toR_some, ok_bind]
        | true =>
          simp only [toR_some, ok_bind, if_true]
          cases hd : Webp.Impl.VP8Kernels.doFilter2 (segAt p off hstride) with
          | none => rfl
          | some s' =>
            simp only [toR_some, ok_bind]
            rw [writeSeg4_eq_writeSeg2 p off hstride h.toTouch4 hs s' (K.doFilter2_frame _ _ hd)]

/-- one position of the loops: the segment reads back as the model's result; length and the other
    positions are unchanged -/
theorem stepSimple_spec (t : Int) (p : List Int) (off step : Int) (h : Touch4 p off step) (hs : step ≠ 0)
    (q : List Int) (hq : stepSimple t p off step = .ok q) :
    Webp.Impl.VP8Kernels.simpleFilterGo t (segAt p off step) = some (segAt q off step)
      ∧ q.length = p.length ∧ ∀ j, j ≠ off → j ≠ off - step → at' q j = at' p j := by
  unfold stepSimple at hq
  cases hm : Webp.Impl.VP8Kernels.simpleFilterGo t (segAt p off step) with
  | none => rw [hm] at hq; cases hq
  | some s' =>
    rw [hm] at hq; cases hq
    refine ⟨by rw [segAt_writeSeg2' p off step h hs s' (K.simpleFilterGo_frame _ _ _ hm)],
      length_writeSeg2 .., fun j h1 h2 => ?_⟩
    rw [at_writeSeg2 p off step _ h, if_neg (Ne.symm h1), if_neg (Ne.symm h2)]

theorem step26_spec (t it hv : Int) (p : List Int) (off step : Int) (h : Touch6 p off step) (hs : step ≠ 0)
    (q : List Int) (hq : step26 t it hv p off step = .ok q) :
    Webp.Impl.VP8Kernels.filterLoop26Go t it hv (segAt p off step) = some (segAt q off step)
      ∧ q.length = p.length
      ∧ ∀ j, j ≠ off + 2 * step → j ≠ off + step → j ≠ off → j ≠ off - step → j ≠ off - 2 * step →
          j ≠ off - 3 * step → at' q j = at' p j := by
  unfold step26 at hq
  cases hm : Webp.Impl.VP8Kernels.filterLoop26Go t it hv (segAt p off step) with
  | none => rw [hm] at hq; cases hq
  | some s' =>
    rw [hm] at hq; cases hq
    have hf := K.filterLoop26Go_frame _ _ _ _ _ hm
    refine ⟨by rw [segAt_writeSeg6' p off step h hs s' hf.1 hf.2], length_writeSeg6 ..,
      fun j h1 h2 h3 h4 h5 h6 => ?_⟩
    rw [at_writeSeg6 p off step _ h, if_neg (Ne.symm h1), if_neg (Ne.symm h2), if_neg (Ne.symm h3),
      if_neg (Ne.symm h4), if_neg (Ne.symm h5), if_neg (Ne.symm h6)]

theorem step24_spec (t it hv : Int) (p : List Int) (off step : Int) (h : Touch4 p off step) (hs : step ≠ 0)
    (q : List Int) (hq : step24 t it hv p off step = .ok q) :
    Webp.Impl.VP8Kernels.filterLoop24Go t it hv (segAt p off step) = some (segAt q off step)
      ∧ q.length = p.length
      ∧ ∀ j, j ≠ off + step → j ≠ off → j ≠ off - step → j ≠ off - 2 * step → at' q j = at' p j := by
  unfold step24 at hq
  cases hm : Webp.Impl.VP8Kernels.filterLoop24Go t it hv (segAt p off step) with
  | none => rw [hm] at hq; cases hq
  | some s' =>
    rw [hm] at hq; cases hq
    have hf := K.filterLoop24Go_frame _ _ _ _ _ hm
    refine ⟨by rw [segAt_writeSeg4' p off step h hs s' hf.1 hf.2.1 hf.2.2.1 hf.2.2.2], length_writeSeg4 ..,
      fun j h1 h2 h3 h4 => ?_⟩
    rw [at_writeSeg4 p off step _ h, if_neg (Ne.symm h1), if_neg (Ne.symm h2), if_neg (Ne.symm h3),
      if_neg (Ne.symm h4)]
/-! ## (3) the loops -/

/-- `simpleVFilter16Go`: positions `base + i`, `i = 0..15`, samples spaced by `stride` -/
theorem tie_simpleVFilter16Go (p : List Int) (base stride thresh : Int)
    (hT : ∀ i : Nat, i < 16 → Touch4 p (base + i) stride) :
    Generated.Funcs.simpleVFilter16Go p base stride thresh
      = (List.range 16).foldl (fun (acc : R (List Int)) (i : Nat) =>
          acc.bind fun q => stepSimple thresh q (base + (i : Int)) stride) (.ok p) := by
  rw [simpleVFilter16Go_unfold, Webp.Proofs.FuncsListOps.bind_ok_id, forRangeM_eq_foldl]
  exact (foldl_bind_congr p.length _ (fun i q => stepSimple thresh q (base + (i : Int)) stride) 16
    (fun k q hk hq => tie_bodySimple thresh q _ stride (Touch4_congr hq.symm (hT k hk)))
    (fun k q q' _ hq h => (length_stepSimple _ _ _ _ _ h).trans hq) p rfl).1

/-- `SimpleHFilter16`: positions `base + i*stride`, `i = 0..15`, samples spaced by 1 -/
theorem tie_SimpleHFilter16 (p : List Int) (base stride thresh : Int)
    (hT : ∀ i : Nat, i < 16 → Touch4 p (base + i * stride) 1) :
    Generated.Funcs.SimpleHFilter16 p base stride thresh
      = (List.range 16).foldl (fun (acc : R (List Int)) (i : Nat) =>
          acc.bind fun q => stepSimple thresh q (base + (i : Int) * stride) 1) (.ok p) := by
  rw [SimpleHFilter16_unfold, Webp.Proofs.FuncsListOps.bind_ok_id, forRangeM_eq_foldl]
  exact (foldl_bind_congr p.length _ (fun i q => stepSimple thresh q (base + (i : Int) * stride) 1) 16
    (fun k q hk hq => tie_bodySimple thresh q _ 1 (Touch4_congr hq.symm (hT k hk)))
    (fun k q q' _ hq h => (length_stepSimple _ _ _ _ _ h).trans hq) p rfl).1

/-- `filterLoop26`: positions `base + i*vstride`, `i = 0..size-1`, samples spaced by `hstride` -/
theorem tie_filterLoop26 (p : List Int) (base hstride vstride size thresh ithresh hevT : Int)
    (hs : hstride ≠ 0) (hT : ∀ i : Nat, (i : Int) < size → Touch8 p (base + i * vstride) hstride) :
    Generated.Funcs.filterLoop26 p base hstride vstride size thresh ithresh hevT
      = (List.range size.toNat).foldl (fun (acc : R (List Int)) (i : Nat) =>
          acc.bind fun q => step26 thresh ithresh hevT q (base + (i : Int) * vstride) hstride) (.ok p) := by
  rw [filterLoop26_unfold, forRangeM_eq_foldl]
  have := (foldl_pair p.length (fun _ st => body26 hstride vstride (2 * thresh + 1) ithresh hevT st)
    (fun i q => step26 thresh ithresh hevT q (base + (i : Int) * vstride) hstride)
    (fun k => base + (k : Int) * vstride) size.toNat
    (fun k q hk hq => by
      rw [tie_body26 hstride vstride thresh ithresh hevT q _ (Touch8_congr hq.symm (hT k (by omega))) hs,
        off_succ])
    (fun k q q' _ hq h => (length_step26 _ _ _ _ _ _ _ h).trans hq) p rfl).1
  simp only [Int.natCast_zero, Int.zero_mul, Int.add_zero] at this
  rw [this, res_bind_assoc]
  simp only [ok_bind, Webp.Proofs.FuncsListOps.bind_ok_id]
/-- `filterLoop24`: positions `base + i*vstride`, `i = 0..size-1`, samples spaced by `hstride` -/
theorem tie_filterLoop24 (p : List Int) (base hstride vstride size thresh ithresh hevT : Int)
    (hs : hstride ≠ 0) (hT : ∀ i : Nat, (i : Int) < size → Touch8 p (base + i * vstride) hstride) :
    Generated.Funcs.filterLoop24 p base hstride vstride size thresh ithresh hevT
      = (List.range size.toNat).foldl (fun (acc : R (List Int)) (i : Nat) =>
          acc.bind fun q => step24 thresh ithresh hevT q (base + (i : Int) * vstride) hstride) (.ok p) := by
  rw [filterLoop24_unfold, forRangeM_eq_foldl]
  have := (foldl_pair p.length (fun _ st => body24 hstride vstride (2 * thresh + 1) ithresh hevT st)
    (fun i q => step24 thresh ithresh hevT q (base + (i : Int) * vstride) hstride)
    (fun k => base + (k : Int) * vstride) size.toNat
    (fun k q hk hq => by
      rw [tie_body24 hstride vstride thresh ithresh hevT q _ (Touch8_congr hq.symm (hT k (by omega))) hs,
        off_succ])
    (fun k q q' _ hq h => (length_step24 _ _ _ _ _ _ _ h).trans hq) p rfl).1
  simp only [Int.natCast_zero, Int.zero_mul, Int.add_zero] at this
  rw [this, res_bind_assoc]
  simp only [ok_bind, Webp.Proofs.FuncsListOps.bind_ok_id]

/-- one position = the loop of size 1 -/
theorem tie_filterLoop26_one (p : List Int) (off hstride vstride thresh ithresh hevT : Int)
    (hs : hstride ≠ 0) (hT : Touch8 p off hstride) :
    Generated.Funcs.filterLoop26 p off hstride vstride 1 thresh ithresh hevT
      = step26 thresh ithresh hevT p off hstride := by
  rw [tie_filterLoop26 p off hstride vstride 1 thresh ithresh hevT hs (fun i hi => by
    have : i = 0 := by omega
    subst this; simpa using hT)]
  simp [List.range_succ, ok_bind]

theorem tie_filterLoop24_one (p : List Int) (off hstride vstride thresh ithresh hevT : Int)
    (hs : hstride ≠ 0) (hT : Touch8 p off hstride) :
    Generated.Funcs.filterLoop24 p off hstride vstride 1 thresh ithresh hevT
      = step24 thresh ithresh hevT p off hstride := by
  rw [tie_filterLoop24 p off hstride vstride 1 thresh ithresh hevT hs (fun i hi => by
    have : i = 0 := by omega
    subst this; simpa using hT)]
  simp [List.range_succ, ok_bind]

/-! ### instantiations (which loop, which strides, which bases) -/

theorem VFilter16_eq (p : List Int) (base stride thresh ithresh hevT : Int) :
    Generated.Funcs.VFilter16 p base stride thresh ithresh hevT
      = Generated.Funcs.filterLoop26 p base stride 1 16 thresh ithresh hevT :=
  Webp.Proofs.FuncsListOps.bind_ok_id _

theorem HFilter16_eq (p : List Int) (base stride thresh ithresh hevT : Int) :
    Generated.Funcs.HFilter16 p base stride thresh ithresh hevT
      = Generated.Funcs.filterLoop26 p base 1 stride 16 thresh ithresh hevT :=
  Webp.Proofs.FuncsListOps.bind_ok_id _

theorem VFilter8_eq (u v : List Int) (uBase vBase stride thresh ithresh hevT : Int) :
    Generated.Funcs.VFilter8 u v uBase vBase stride thresh ithresh hevT
      = (Generated.Funcs.filterLoop26 u uBase stride 1 8 thresh ithresh hevT).bind fun u' =>
        (Generated.Funcs.filterLoop26 v vBase stride 1 8 thresh ithresh hevT).bind fun v' =>
        .ok (u', v') := rfl

theorem HFilter8_eq (u v : List Int) (uBase vBase stride thresh ithresh hevT : Int) :
    Generated.Funcs.HFilter8 u v uBase vBase stride thresh ithresh hevT
      = (Generated.Funcs.filterLoop26 u uBase 1 stride 8 thresh ithresh hevT).bind fun u' =>
        (Generated.Funcs.filterLoop26 v vBase 1 stride 8 thresh ithresh hevT).bind fun v' =>
        .ok (u', v') := rfl

theorem VFilter8i_eq (u v : List Int) (uBase vBase stride thresh ithresh hevT : Int) :
    Generated.Funcs.VFilter8i u v uBase vBase stride thresh ithresh hevT
      = (Generated.Funcs.filterLoop24 u (uBase + 4 * stride) stride 1 8 thresh ithresh hevT).bind fun u' =>
        (Generated.Funcs.filterLoop24 v (vBase + 4 * stride) stride 1 8 thresh ithresh hevT).bind fun v' =>
        .ok (u', v') := rfl

theorem HFilter8i_eq (u v : List Int) (uBase vBase stride thresh ithresh hevT : Int) :
    Generated.Funcs.HFilter8i u v uBase vBase stride thresh ithresh hevT
      = (Generated.Funcs.filterLoop24 u (uBase + 4) 1 stride 8 thresh ithresh hevT).bind fun u' =>
        (Generated.Funcs.filterLoop24 v (vBase + 4) 1 stride 8 thresh ithresh hevT).bind fun v' =>
        .ok (u', v') := rfl

theorem VFilter16i_eq (p : List Int) (base stride thresh ithresh hevT : Int) :
    Generated.Funcs.VFilter16i p base stride thresh ithresh hevT
      = (Generated.Funcs.filterLoop24 p (base + 4 * stride) stride 1 16 thresh ithresh hevT).bind fun p =>
        (Generated.Funcs.filterLoop24 p (base + 8 * stride) stride 1 16 thresh ithresh hevT).bind fun p =>
        Generated.Funcs.filterLoop24 p (base + 12 * stride) stride 1 16 thresh ithresh hevT := by
  unfold Generated.Funcs.VFilter16i
  rw [forRangeM_1_4]
  simp only [Webp.Proofs.FuncsListOps.bind_ok_id, Int.reduceMul]

theorem HFilter16i_eq (p : List Int) (base stride thresh ithresh hevT : Int) :
    Generated.Funcs.HFilter16i p base stride thresh ithresh hevT
      = (Generated.Funcs.filterLoop24 p (base + 4) 1 stride 16 thresh ithresh hevT).bind fun p =>
        (Generated.Funcs.filterLoop24 p (base + 8) 1 stride 16 thresh ithresh hevT).bind fun p =>
        Generated.Funcs.filterLoop24 p (base + 12) 1 stride 16 thresh ithresh hevT := by
  unfold Generated.Funcs.HFilter16i
  rw [forRangeM_1_4]
  simp only [Webp.Proofs.FuncsListOps.bind_ok_id, Int.reduceMul]

theorem SimpleHFilter16i_eq (p : List Int) (base stride thresh : Int) :
    Generated.Funcs.SimpleHFilter16i p base stride thresh
      = (Generated.Funcs.SimpleHFilter16 p (base + 4) stride thresh).bind fun p =>
        (Generated.Funcs.SimpleHFilter16 p (base + 8) stride thresh).bind fun p =>
        Generated.Funcs.SimpleHFilter16 p (base + 12) stride thresh := by
  unfold Generated.Funcs.SimpleHFilter16i
  rw [forRangeM_1_4]
  simp only [Webp.Proofs.FuncsListOps.bind_ok_id, Int.reduceMul]


/-- `VFilter16`: 16 positions `base + i` along the row, samples spaced by `stride` (vertical filter
    across a horizontal macroblock edge) -/
theorem tie_VFilter16 (p : List Int) (base stride thresh ithresh hevT : Int) (hs : stride ≠ 0)
    (hT : ∀ i : Nat, i < 16 → Touch8 p (base + i) stride) :
    Generated.Funcs.VFilter16 p base stride thresh ithresh hevT
      = (List.range 16).foldl (fun (acc : R (List Int)) (i : Nat) =>
          acc.bind fun q => step26 thresh ithresh hevT q (base + (i : Int)) stride) (.ok p) := by
  rw [VFilter16_eq, tie_filterLoop26 p base stride 1 16 thresh ithresh hevT hs (fun i hi => by
    simpa using hT i (by omega))]
  simp only [Int.mul_one]
  rfl

/-- `HFilter16`: 16 positions `base + i*stride` down the column, samples spaced by 1 -/
theorem tie_HFilter16 (p : List Int) (base stride thresh ithresh hevT : Int)
    (hT : ∀ i : Nat, i < 16 → Touch8 p (base + i * stride) 1) :
    Generated.Funcs.HFilter16 p base stride thresh ithresh hevT
      = (List.range 16).foldl (fun (acc : R (List Int)) (i : Nat) =>
          acc.bind fun q => step26 thresh ithresh hevT q (base + (i : Int) * stride) 1) (.ok p) := by
  rw [HFilter16_eq, tie_filterLoop26 p base 1 stride 16 thresh ithresh hevT (by decide) (fun i hi =>
    hT i (by omega))]
  rfl

/-! ## non-vacuity and samples (evaluated through the model side of the ties only) -/

example : Touch4 [100, 100, 100, 110, 150, 160, 160, 160] 4 1 := touch4_of_pos _ _ _ (by decide) (by decide) (by decide)
example : Touch6 [100, 100, 100, 110, 150, 160, 160, 160] 4 1 := touch6_of_pos _ _ _ (by decide) (by decide) (by decide)
example : Touch8 [100, 100, 100, 110, 150, 160, 160, 160] 4 1 := touch8_of_pos _ _ _ (by decide) (by decide) (by decide)
/-- a 16-row plane of stride 32: all 16 positions of `VFilter16` at row 4 are in range -/
example : ∀ i : Nat, i < 16 → Touch8 (List.replicate 512 128) (128 + i) 32 := fun i hi =>
  touch8_of_pos _ _ _ (by decide) (by omega) (by simp only [List.length_replicate]; omega)

example : Generated.Funcs.doFilter2 [100, 100, 100, 110, 150, 160, 160, 160] 4 1
    = .ok [100, 100, 100, 117, 142, 160, 160, 160] := by
  rw [tie_doFilter2 _ _ _ (touch4_of_pos _ _ _ (by decide) (by decide) (by decide))]; decide +kernel
example : Generated.Funcs.doFilter4 [100, 100, 100, 110, 150, 160, 160, 160] 4 1
    = .ok [100, 100, 108, 125, 135, 152, 160, 160] := by
  rw [tie_doFilter4 _ _ _ (touch4_of_pos _ _ _ (by decide) (by decide) (by decide))]; decide +kernel
example : Generated.Funcs.doFilter6 [100, 100, 100, 110, 150, 160, 160, 160] 4 1
    = .ok [100, 104, 108, 123, 137, 152, 156, 160] := by
  rw [tie_doFilter6 _ _ _ (touch6_of_pos _ _ _ (by decide) (by decide) (by decide))]; decide +kernel
/-- in range but a table index out of range (`q0 = 1000` is not a byte): the model's `none` is the Go panic -/
example : Generated.Funcs.doFilter6 [0, 0, 0, 0, 1000, 255, 255, 255] 4 1 = .panic := by
  rw [tie_doFilter6 _ _ _ (touch6_of_pos _ _ _ (by decide) (by decide) (by decide))]; decide +kernel
example : Generated.Funcs.doFilter2 [1, 2, 3] 2 1 = .panic :=
  doFilter2_panic _ _ _ (fun h => absurd h.q1 (by decide))
example : Generated.Funcs.doFilter4 [1, 2, 3] 1 1 = .panic :=
  doFilter4_panic _ _ _ (fun h => absurd h.p1 (by decide))
example : Generated.Funcs.doFilter6 [1, 2, 3, 4, 5] 2 1 = .panic :=
  doFilter6_panic _ _ _ (fun h => absurd h.p2 (by decide))
/-- read-back on a sample (vertical layout: step 2) -/
example (q : List Int) (hq : Generated.Funcs.doFilter2 [0, 100, 0, 110, 0, 150, 0, 160] 5 2 = .ok q) :
    at' q 3 = 117 ∧ at' q 5 = 142 ∧ at' q 4 = 0 := by
  have h := doFilter2_spec _ 5 2 (touch4_of_pos _ _ _ (by decide) (by decide) (by decide)) (by decide) q hq
  have e : Webp.Impl.VP8Kernels.doFilter2 (segAt [0, 100, 0, 110, 0, 150, 0, 160] 5 2)
      = some ⟨0, 0, 100, 117, 142, 160, 0, 0⟩ := by decide +kernel
  rw [e] at h
  have h1 := h.1
  simp only [Option.some.injEq, segAt] at h1
  have h3 := congrArg Seg.p0 h1
  have h5 := congrArg Seg.q0 h1
  simp only [] at h3 h5
  refine ⟨h3.symm, h5.symm, ?_⟩
  rw [h.2.2 4 (by decide) (by decide)]; rfl

/-- two rows, samples along the row (`hstride = 1`, `vstride = 8`): the first position has high edge
    variance (`doFilter2`), the second not (`doFilter6`) -/
example : Generated.Funcs.filterLoop26 [100, 100, 100, 110, 150, 160, 160, 160, 90, 92, 94, 100, 130, 134, 136, 137]
      4 1 8 2 120 20 8
    = .ok [100, 100, 100, 117, 142, 160, 160, 160, 90, 96, 101, 111, 119, 127, 132, 137] := by
  rw [tie_filterLoop26 _ _ _ _ _ _ _ _ (by decide) (fun i hi =>
    touch8_of_pos _ _ _ (by decide) (by omega) (by simp only [List.length_cons, List.length_nil]; omega))]
  decide +kernel
example : Generated.Funcs.filterLoop24 [100, 100, 100, 110, 150, 160, 160, 160, 90, 92, 94, 100, 130, 134, 136, 137]
      4 1 8 2 120 20 8
    = .ok [100, 100, 100, 117, 142, 160, 160, 160, 90, 92, 100, 111, 119, 128, 136, 137] := by
  rw [tie_filterLoop24 _ _ _ _ _ _ _ _ (by decide) (fun i hi =>
    touch8_of_pos _ _ _ (by decide) (by omega) (by simp only [List.length_cons, List.length_nil]; omega))]
  decide +kernel
/-- the same two positions as columns of a stride-2 plane (`hstride = 2`, `vstride = 1`) -/
example : Generated.Funcs.filterLoop26 [100, 90, 100, 92, 100, 94, 110, 100, 150, 130, 160, 134, 160, 136, 160, 137]
      8 2 1 2 120 20 8
    = .ok [100, 90, 100, 96, 100, 101, 117, 111, 142, 119, 160, 127, 160, 132, 160, 137] := by
  rw [tie_filterLoop26 _ _ _ _ _ _ _ _ (by decide) (fun i hi =>
    touch8_of_pos _ _ _ (by decide) (by omega) (by simp only [List.length_cons, List.length_nil]; omega))]
  decide +kernel
/-- the hypotheses of the 16-position loops on a real plane shape (stride 32, 16 rows + 4 above) -/
example (t : Int) : Generated.Funcs.simpleVFilter16Go (List.replicate 640 128) 128 32 t
    = (List.range 16).foldl (fun (acc : R (List Int)) (i : Nat) =>
        acc.bind fun q => stepSimple t q (128 + (i : Int)) 32) (.ok (List.replicate 640 128)) :=
  tie_simpleVFilter16Go _ _ _ _ (fun i hi =>
    touch4_of_pos _ _ _ (by decide) (by omega) (by simp only [List.length_replicate]; omega))
example (t : Int) : Generated.Funcs.SimpleHFilter16 (List.replicate 640 128) 4 32 t
    = (List.range 16).foldl (fun (acc : R (List Int)) (i : Nat) =>
        acc.bind fun q => stepSimple t q (4 + (i : Int) * 32) 1) (.ok (List.replicate 640 128)) :=
  tie_SimpleHFilter16 _ _ _ _ (fun i hi =>
    touch4_of_pos _ _ _ (by decide) (by omega) (by simp only [List.length_replicate]; omega))
example (t it hv : Int) : Generated.Funcs.VFilter16 (List.replicate 640 128) 128 32 t it hv
    = (List.range 16).foldl (fun (acc : R (List Int)) (i : Nat) =>
        acc.bind fun q => step26 t it hv q (128 + (i : Int)) 32) (.ok (List.replicate 640 128)) :=
  tie_VFilter16 _ _ _ _ _ _ (by decide) (fun i hi =>
    touch8_of_pos _ _ _ (by decide) (by omega) (by simp only [List.length_replicate]; omega))
example (t it hv : Int) : Generated.Funcs.HFilter16 (List.replicate 640 128) 4 32 t it hv
    = (List.range 16).foldl (fun (acc : R (List Int)) (i : Nat) =>
        acc.bind fun q => step26 t it hv q (4 + (i : Int) * 32) 1) (.ok (List.replicate 640 128)) :=
  tie_HFilter16 _ _ _ _ _ _ (fun i hi =>
    touch8_of_pos _ _ _ (by decide) (by omega) (by simp only [List.length_replicate]; omega))

end Webp.Props.C04FuncsFilterApply
