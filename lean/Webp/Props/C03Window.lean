import Webp.Proofs.VP8LWindowLoop
import Webp.Impl.VP8LWindowCex
import Generated.Fills
/-
  Property C03 — VP8L decoding returns the pixels the format defines — THE WINDOW BUDGET.

  Props/C03.lean proves the pixel loop over an ABSTRACT token source (`decodePixelLoop_eq_spec`) and
  the 64-bit window reader on its own (`reader_window_eq_bits`, `fill_prefetch_eq_peek`).  This file
  closes the gap between the two: the REFILL DISCIPLINE of `decodeImageData`
  (/repo/internal/lossless/decode_image.go) is sufficient — between two `br.FillBitWindow()` calls
  the loop body never consumes more bits than the register still holds, so every `ReadSymbol` /
  extra-bits read sees the true stream bits, and the pixel loop over the REAL reader
  (`Webp.Impl.VP8LWindow.readTokenGo`: one loop iteration transcribed WITH its refills) computes the
  specification's `decodePixels`.

    fill_guarantee(_lt)             what `FillBitWindow` establishes
    lookup_in_budget / extra_in_budget   one read inside the budget returns the true bits
    goFills_sufficient, literal_path_budget, copy_path_budget   the bit budget, per path
    readToken_sufficient            any refill placement that satisfies the budget is correct
    readTokenGo_eq_spec             … in particular the one of the Go source
    decodeImageData_eq_spec_window  the existing loop theorem instantiated with the real reader
    noDistFills_insufficient, window_overrun_without_refill
                                    seeded change C03_4 (two refills dropped) violates the budget,
                                    and really reads wrong bits
    fills_match, fill_count_match   the refill placement of the model IS the one of the Go source
                                    (regenerated from /repo on every run: Generated/Fills.lean)

  Scope: ALL paths of the loop body — the general path and the three fast paths `IsTrivialCode` (no
  read), `UsePackedTable` (one 6-bit index right after the top refill) and `IsTrivialLiteral` (green
  only) — for a group exactly as `readHuffmanCodes` builds it (`mkGroup`: tables, flags,
  `LiteralARB`, packed table): `GroupFor.built` / `groupFor_of_lens`.  (`GroupFor.general` covers
  any group of built tables with no flag set.)

  Axioms of every theorem below: `propext`, `Classical.choice`, `Quot.sound` only (no `bv_decide`).
-/
namespace Webp.Props.C03Window
open Webp.Go (Res)
open Webp.Spec.VP8L (BitReader Err Token Code Group EntropyParams)
open Webp.Impl.VP8LEntropy
open Webp.Impl.VP8LWindow
open Webp.Impl.VP8LFastPaths (HTreeGroup)
open Webp.Proofs.VP8LEntropyReader (pad8 Win)
open Webp.Proofs.VP8LWindow

/-! ## the refill -/

/-- **What `FillBitWindow` guarantees.**  In any consistent state (`Win`: no end-of-stream, the
    register holds the 8 input bytes at the window position, `P` bits consumed) with `bitPos ≤ 64`,
    after `br.FillBitWindow()` the state is consistent with the same `P`, and `bitPos ≤ 32` — or the
    register holds the LAST 8 bytes of the (zero-extended) input and `bitPos ≤ 64`, i.e. the end of
    the data is reached and nothing is left to fill in.  (`≤ 32`, not `< 32`: `bitPos = 64` refills
    to exactly 32.)  That is `Good buf · P 32`. -/
theorem fill_guarantee {buf : Array UInt8} {r : Reader} {P : Nat} (hw : Win buf r P) (h64 : r.bitPos ≤ 64) :
    Win buf r.fillBitWindow P ∧
    (r.fillBitWindow.bitPos ≤ 32 ∨ (r.fillBitWindow.pos = buf.size ∧ r.fillBitWindow.bitPos ≤ 64)) :=
  let h := fill_good (Good.of_win hw h64)
  ⟨h.win, h.room⟩

/-- The sharper form: unless the register was completely used up before (`bitPos = 64`), the refill
    leaves `bitPos < 32` (Go: "at least vp8lWBits (32) bits are available") — or the end of the data
    is in the register. -/
theorem fill_guarantee_lt {buf : Array UInt8} {r : Reader} {P : Nat} (hw : Win buf r P) (h63 : r.bitPos ≤ 63) :
    Win buf r.fillBitWindow P ∧
    (r.fillBitWindow.bitPos < 32 ∨ (r.fillBitWindow.pos = buf.size ∧ r.fillBitWindow.bitPos ≤ 64)) := by
  have h := fill_good_lt (k := 63) ⟨hw, Or.inl h63⟩ (Nat.le_refl _)
  refine ⟨h.win, ?_⟩
  rcases h.room with h1 | h1
  · left; omega
  · right; exact h1

/-- … and once the reader has run past the end of the input (`IsEndOfStream()`), neither a refill
    nor a `SetBitPos(BitPos()+n)` brings it back. -/
theorem eos_is_sticky {r : Reader} (h : r.isEndOfStream = true) (n : Nat) :
    r.fillBitWindow.isEndOfStream = true ∧ (r.advance n).isEndOfStream = true :=
  ⟨doomed_fill h, doomed_advance h n⟩

/-! ## one read inside the budget -/

/-- **A table lookup inside the budget returns the true symbol.**  `TabFor c t A`: `t` is
    `BuildHuffmanTable(8, lens)` for a length vector of `A` symbols whose canonical code is `c`
    (`tabFor_of_build`; code lengths ≤ 15).  In a window state with register position `≤ k`
    (`Good … k`) and `k + 15 ≤ 64`, the Go sequence `PrefetchBits / ReadSymbol / SetBitPos` returns a
    symbol `v < A` and `used` bits, and either that is exactly what the specification's bit-serial
    `readSymbol` reads at bit `P` of the input, and the window stays consistent (register position
    `≤ k + 15`), or the code word runs past the end of the input: `eos` in the specification,
    `IsEndOfStream()` from now on in Go. -/
theorem lookup_in_budget {c : Code} {t : Table} {A : Nat} (hT : TabFor c t A) {buf : Array UInt8}
    {r : Reader} {P k : Nat} (hg : Good buf r P k) (hk : k + 15 ≤ 64) (tree : String) :
    ∃ v used, readSym goOps tree t r = .ok (v, r.advance used) ∧ v < A ∧
      ((Webp.Spec.VP8L.readSymbol c (brAt buf P) = .ok (v, brAt buf (P + used)) ∧
          Good buf (r.advance used) (P + used) (k + 15)) ∨
       (Webp.Spec.VP8L.readSymbol c (brAt buf P) = .err .eos ∧ (r.advance used).isEndOfStream = true)) :=
  sym_step hT hg hk tree

theorem tabFor_of_build {lens : Array Nat} {c : Code} {t : Table}
    (h : Webp.Spec.VP8L.buildCode lens = .ok c) (ht : buildTable 8 lens = .ok t) : TabFor c t lens.size :=
  Webp.Proofs.VP8LWindow.tabFor_of_build h ht

/-- **An extra-bits read inside the budget returns the true value** (`getCopyLength` /
    `getCopyDistance` as inlined in the loop, with or without their `FillBitWindow`): `n = (sym−2)>>1
    ≤ m` extra bits (format: `m = 10` for the 24 length symbols, `m = 18` for the 40 distance
    symbols), register position after the optional refill (`after fill k`: `k` without one, 31 with
    one — 32 if `k = 64`) `+ m ≤ 64`. -/
theorem extra_in_budget {buf : Array UInt8} {r : Reader} {P k : Nat} (hg : Good buf r P k) (hk : k ≤ 64)
    (fill : Bool) (sym m : Nat) (hn : (sym - 2) / 2 ≤ m) (hm : m ≤ 32)
    (hbud : after fill k + m ≤ 64) :
    (∃ P', Webp.Spec.VP8L.readPrefixValue sym (brAt buf P) = .ok ((readExtra goOps fill sym r).1, brAt buf P') ∧
        Good buf (readExtra goOps fill sym r).2 P' (max k (after fill k + m))) ∨
    (Webp.Spec.VP8L.readPrefixValue sym (brAt buf P) = .err .eos ∧
        (readExtra goOps fill sym r).2.isEndOfStream = true) :=
  readExtra_good hg hk fill sym m hn hm hbud

/-- the extra-bit counts of the format: length symbols `< 24` have at most 10, distance symbols
    `< 40` at most 18 -/
theorem extra_bits_of_format :
    (∀ s, s < 24 → (s - 2) / 2 ≤ 10) ∧ (∀ s, s < 40 → (s - 2) / 2 ≤ 18) ∧ (23 - 2) / 2 = 10 ∧ (39 - 2) / 2 = 18 :=
  ⟨fun _ h => by omega, fun _ h => by omega, rfl, rfl⟩

/-! ## the budget, per path -/

/-- **The refills of the Go source satisfy the budget** (`Sufficient`: worst-case register position
    before each read + bits needed ≤ 64, with 15 bits per symbol, 10 / 18 extra bits). -/
theorem goFills_sufficient : Sufficient goFills := by decide

/-- literal path: `fill | green ≤ 32+15 = 47 | red ≤ 47+15 = 62 | fill | blue ≤ 31+15 = 46 | alpha ≤ 61`;
    the refill before blue is NEEDED: without it blue could start at 62 and end at 77 > 64 -/
theorem literal_path_budget :
    wRBA goFills 47 ∧ after goFills.red 47 + 15 = 62 ∧ after goFills.blue 62 + 15 = 46 ∧
    after goFills.alpha 46 + 15 = 61 ∧ ¬ wRBA { goFills with blue := false } 47 := by
  unfold wRBA wBA wA; decide

/-- backward-reference path: `fill | green ≤ 47 | fill | length extra ≤ 31+10 = 41 | fill | distance
    symbol ≤ 31+15 = 46 | fill | distance extra ≤ 31+18 = 49` -/
theorem copy_path_budget :
    wCopy goFills 47 ∧ after goFills.lenExtra 47 + 10 = 41 ∧ after goFills.dist 47 + 15 = 46 ∧
    after goFills.distExtra 46 + 18 = 49 := by
  unfold wCopy wDist; decide

/-- **Dropping the two refills of the distance part (seeded change C03_4) breaks the budget**:
    green 47, no refill, distance symbol 62, no refill, 18 extra bits: 80 > 64.  Each of the two
    removals ALONE keeps it (without the one before the distance symbol: 47 + 15 = 62, refill,
    31 + 18 = 49; without the one before the extra bits: refill, 31 + 15 = 46, 46 + 18 = 64) — the
    budget predicate separates exactly the harmful combination. -/
theorem noDistFills_insufficient :
    ¬ Sufficient noDistFills ∧ ¬ wCopy noDistFills 47 ∧ Sufficient { goFills with dist := false } ∧
    Sufficient { goFills with distExtra := false } := by
  unfold Sufficient wRBA wBA wA wCopy wDist; decide

/-! ## one token -/

/-- **Any refill placement that satisfies the budget reads the specification's token.**
    `GroupFor G g`: the Go group `g` stands for the five codes `G` of the specification — built by
    `readHuffmanCodes` from `G`'s length vectors, fast-path flags and packed table included
    (`groupFor_of_lens`).  From a consistent state with `bitPos ≤ 64` (the state every iteration of
    the loop starts in) one trip through the loop body — whichever of its paths the flags and the
    symbols select — returns the token the specification's `readToken` reads at bit `P` of the
    zero-extended input and leaves the reader consistent at the specification's new position with
    `bitPos ≤ 64` — or both report the end of the stream.  (`xsize ≤ 153391689`: no overflow guard of
    `PlaneCodeToDistance` fires; VP8L widths are ≤ 16384.) -/
theorem readToken_sufficient {G : Group} {g : HTreeGroup} (hG : GroupFor G g) {fs : FillSites}
    (hS : Sufficient fs)
    {buf : Array UInt8} {r : Reader} {P : Nat} (hw : Win buf r P) (h64 : r.bitPos ≤ 64)
    {xsize : Nat} (hx : xsize ≤ 153391689) :
    (∃ t r' P', readTokenWith fs g xsize r = .ok (t, r') ∧
        Webp.Spec.VP8L.readToken G xsize { data := ⟨pad8 buf⟩, pos := P } =
          .ok (t, { data := ⟨pad8 buf⟩, pos := P' }) ∧
        Win buf r' P' ∧ r'.bitPos ≤ 64) ∨
    (readTokenWith fs g xsize r = .err .eos ∧
      Webp.Spec.VP8L.readToken G xsize { data := ⟨pad8 buf⟩, pos := P } = .err .eos) := by
  rcases readTokenAt_agree_for hG hS (Good.of_win hw h64) hx with ⟨t, r', P', h1, h2, h3⟩ | h
  · exact Or.inl ⟨t, r', P', h1, h2, h3.win, h3.le64 (Nat.le_refl _)⟩
  · exact Or.inr h

/-- **readTokenGo_eq_spec.**  One iteration of the pixel loop of `decodeImageData`, refills as in the
    Go source, reads the specification's token — on every path (general, `IsTrivialCode`,
    `UsePackedTable`, `IsTrivialLiteral`). -/
theorem readTokenGo_eq_spec {G : Group} {g : HTreeGroup} (hG : GroupFor G g)
    {buf : Array UInt8} {r : Reader} {P : Nat} (hw : Win buf r P) (h64 : r.bitPos ≤ 64)
    {xsize : Nat} (hx : xsize ≤ 153391689) :
    (∃ t r' P', readTokenGo g xsize r = .ok (t, r') ∧
        Webp.Spec.VP8L.readToken G xsize { data := ⟨pad8 buf⟩, pos := P } =
          .ok (t, { data := ⟨pad8 buf⟩, pos := P' }) ∧
        Win buf r' P' ∧ r'.bitPos ≤ 64) ∨
    (readTokenGo g xsize r = .err .eos ∧
      Webp.Spec.VP8L.readToken G xsize { data := ⟨pad8 buf⟩, pos := P } = .err .eos) :=
  readToken_sufficient hG goFills_sufficient hw h64 hx

/-- **The group `readHuffmanCodes` builds.**  Five length vectors the specification accepts
    (`buildCode`), the five tables `BuildHuffmanTable(8, ·)` returns for them, alphabet sizes as the
    format has them (green `256 + 24 + cache size` — any size `≤ 2^32` here —, red / blue / alpha
    `≤ 256`, distance `≤ 40`), and the flags, `LiteralARB` and packed table of `mkGroup` (the
    transcription of the flag computation of `readHuffmanCodes`, tied by suite `vp8lentropy`). -/
theorem groupFor_of_lens {G : Group} {lg lr lb la ld : Array Nat} {tg tr tb ta td : Table}
    (hg : lg.size ≤ 2 ^ 32) (hr : lr.size ≤ 256) (hb : lb.size ≤ 256) (ha : la.size ≤ 256) (hd : ld.size ≤ 40)
    (cg : Webp.Spec.VP8L.buildCode lg = .ok G.green) (tg' : buildTable 8 lg = .ok tg)
    (cr : Webp.Spec.VP8L.buildCode lr = .ok G.red) (tr' : buildTable 8 lr = .ok tr)
    (cb : Webp.Spec.VP8L.buildCode lb = .ok G.blue) (tb' : buildTable 8 lb = .ok tb)
    (ca : Webp.Spec.VP8L.buildCode la = .ok G.alpha) (ta' : buildTable 8 la = .ok ta)
    (cd : Webp.Spec.VP8L.buildCode ld = .ok G.dist) (td' : buildTable 8 ld = .ok td) :
    GroupFor G (Webp.Impl.VP8LFastPaths.mkGroup ⟨tg, tr, tb, ta, td⟩
      ⟨Webp.Impl.VP8LFastPaths.maxLenOf lg, Webp.Impl.VP8LFastPaths.maxLenOf lr,
       Webp.Impl.VP8LFastPaths.maxLenOf lb, Webp.Impl.VP8LFastPaths.maxLenOf la,
       Webp.Impl.VP8LFastPaths.maxLenOf ld⟩) :=
  .built _ _ _ (built_of_lens hg hr hb ha hd cg tg' cr tr' cb tb' ca ta' cd td') rfl

/-- a group of built tables with no fast-path flag set -/
theorem groupOK_of_build {G : Group} {g : HTreeGroup} {lg lr lb la ld : Array Nat}
    (hr : lr.size ≤ 256) (hb : lb.size ≤ 256) (ha : la.size ≤ 256) (hd : ld.size ≤ 40)
    (cg : Webp.Spec.VP8L.buildCode lg = .ok G.green) (tg : buildTable 8 lg = .ok g.green)
    (cr : Webp.Spec.VP8L.buildCode lr = .ok G.red) (tr : buildTable 8 lr = .ok g.red)
    (cb : Webp.Spec.VP8L.buildCode lb = .ok G.blue) (tb : buildTable 8 lb = .ok g.blue)
    (ca : Webp.Spec.VP8L.buildCode la = .ok G.alpha) (ta : buildTable 8 la = .ok g.alpha)
    (cd : Webp.Spec.VP8L.buildCode ld = .ok G.dist) (td : buildTable 8 ld = .ok g.dist) :
    GroupOK G g :=
  Webp.Proofs.VP8LWindow.groupOK_of_build hr hb ha hd cg tg cr tr cb tb ca ta cd td

/-! ## the pixel loop over the real reader -/

/-- **decodeImageData_eq_spec_window.**  `decodePixelLoop_eq_spec` (Props/C03) instantiated with the
    REAL token source: the loop of `decodeImageData` (deferred cache insertion, `copyBlock32`, row
    bookkeeping) reading its tokens with `readTokenGo` from the 64-bit window reader `r` — refills
    included — returns exactly what the specification's `decodePixels` returns on the zero-extended
    input from bit `P` on: the same pixels and a consistent reader at the specification's final
    position, or the same error.  `GroupsOK`: as many groups as the specification has, each one
    `GroupFor` the specification's group of the same index (fast paths included).  `hidx` as in
    `decodePixelLoop_eq_spec`. -/
theorem decodeImageData_eq_spec_window {ep : EntropyParams} {gs : Array HTreeGroup} (hgs : GroupsOK ep gs)
    (hidx : ∀ e ∈ ep.entropy, e < ep.groups.size) (hx : ep.width ≤ 153391689)
    {buf : Array UInt8} {r : Reader} {P : Nat} (hw : Win buf r P) (h64 : r.bitPos ≤ 64) :
    match Webp.Spec.VP8L.decodePixels ep { data := ⟨pad8 buf⟩, pos := P } with
    | .ok (px, br') =>
      ∃ r' P', decodePixelLoop (goSource gs ep.width) (LoopParams.ofSpec ep) r = .ok (px, r') ∧
        br' = { data := ⟨pad8 buf⟩, pos := P' } ∧ Win buf r' P' ∧ r'.bitPos ≤ 64
    | .err e => decodePixelLoop (goSource gs ep.width) (LoopParams.ofSpec ep) r = .err e
    | .panic => decodePixelLoop (goSource gs ep.width) (LoopParams.ofSpec ep) r = .panic
    | .hang => decodePixelLoop (goSource gs ep.width) (LoopParams.ofSpec ep) r = .hang := by
  have h := decodePixelLoop_window hgs hidx hx (Good.of_win hw h64)
  unfold SimRes at h
  show match Webp.Spec.VP8L.decodePixels ep (brAt buf P) with
    | .ok (px, br') => _ | .err e => _ | .panic => _ | .hang => _
  cases hd : Webp.Spec.VP8L.decodePixels ep (brAt buf P) with
  | ok x =>
    obtain ⟨px, br'⟩ := x
    rw [hd] at h
    obtain ⟨r', h1, P', h2, h3⟩ := h
    exact ⟨r', P', h1, h2, h3.win, h3.le64 (Nat.le_refl _)⟩
  | err e => rw [hd] at h; exact h
  | panic => rw [hd] at h; exact h
  | hang => rw [hd] at h; exact h

/-! ## without the refills the register is overrun (seeded change C03_4) -/

open Webp.Impl.VP8LWindowCex in
set_option maxRecDepth 100000 in
/-- **window_overrun_without_refill.**  A group with the code lengths `1, 2, …, 14, 15, 15` for the
    green and the distance alphabet (length symbol 256 and distance symbol 39 get the 15-bit code
    words; `group` / `codes` are `BuildHuffmanTable` / `buildCode` of these vectors — checked natively
    by the driver, op `vwcex`), the 22-byte stream `31 filler bits · 0x7fff (15) · 0x7fff (15) ·
    0x2aaaa (18 extra bits) · zeros`, the reader at register position 31 (no refill at the top: 31 < 32):
    the specification reads the backward reference `copy 1 961075`; the loop body with the refills of
    the Go source reads the same; the loop body WITHOUT the two refills of the distance part reads the
    distance symbol at position 46 and its 18 extra bits at position 61, where only 3 bits are left
    in the register: `copy 1 786315`. -/
theorem window_overrun_without_refill :
    tokOf (Webp.Spec.VP8L.readToken codes 64 { data := ⟨stream⟩, pos := 31 }) = some (.copy 1 961075) ∧
    tokOf (readTokenGo group 64 ((Reader.new stream).advance 31)) = some (.copy 1 961075) ∧
    tokOf (readTokenWith noDistFills group 64 ((Reader.new stream).advance 31)) = some (.copy 1 786315) ∧
    ((Reader.new stream).advance 31).bitPos = 31 ∧ pad8 stream = stream := by
  refine ⟨by decide +kernel, by decide +kernel, by decide +kernel, by decide +kernel, by decide +kernel⟩

/-! ## the tie: the refill placement of the model is the one of the Go source -/

/-- **fills_match.**  `Generated.Fills.decodeImageData` is regenerated from
    /repo/internal/lossless/decode_image.go on every run (harness/cmd/extract/fills.go: per path
    through the loop body the ordered calls `FillBitWindow / PrefetchBits / ReadSymbol(tree) /
    SetBitPos / IsEndOfStream`); `callShape` is what the model `readTokenAt … goFills` — the object of
    the theorems above — does on a recording reader.  Moving, removing or adding a refill (or any
    other reader call) in the Go loop breaks this equation. -/
theorem fills_match : Generated.Fills.decodeImageData = callShape := by decide +kernel

/-- the number of `br.FillBitWindow()` call sites in `decodeImageData` (also the unreachable ones) -/
theorem fill_count_match : Generated.Fills.fillCalls = goFills.count := rfl

/-! ## non-vacuity -/

/-- hypotheses of `readTokenGo_eq_spec` / `decodeImageData_eq_spec_window`: a group built from
    accepted length vectors exists (here: two symbols of one bit in every alphabet), as
    `readHuffmanCodes` builds it … -/
example : ∃ G g, GroupFor G g ∧ GroupsOK { width := 2, height := 1, cacheBits := 0, groups := #[G] } #[g] := by
  obtain ⟨c, hc⟩ := exists_ok_of_isOk (show (Webp.Spec.VP8L.buildCode #[1, 1]).isOk = true by decide +kernel)
  obtain ⟨t, ht⟩ := Webp.Proofs.VP8LEntropyTableF.buildTable_ok_of_buildCode hc 8 (by omega) (by omega)
  have hsz : (#[1, 1] : Array Nat).size = 2 := rfl
  have hG := groupFor_of_lens (G := ⟨c, c, c, c, c⟩) (by rw [hsz]; decide) (by omega) (by omega) (by omega) (by omega)
    hc ht hc ht hc ht hc ht hc ht
  refine ⟨_, _, hG, rfl, ?_⟩
  intro i h1 h2
  have : i = 0 := by simp at h1; omega
  subst this
  exact hG

/-- … and every state reached by `NewLosslessReader` + `ReadBits` calls that did not overrun is a
    starting state (`Inv.fill_ready`); in particular the fresh reader -/
example (buf : Array UInt8) : Win buf (Reader.new buf) 0 ∧ (Reader.new buf).bitPos ≤ 64 :=
  ⟨Webp.Proofs.VP8LEntropyReader.new_win buf, by show 0 ≤ 64; omega⟩

/-- hypotheses of `lookup_in_budget` / `extra_in_budget` after a refill: slack 32, `32 + 15 ≤ 64`,
    `32 + 18 ≤ 64` -/
example (buf : Array UInt8) : Good buf (Reader.new buf).fillBitWindow 0 32 ∧ 32 + 15 ≤ 64 ∧ 32 + 18 ≤ 64 :=
  ⟨fill_good (Good.of_win (Webp.Proofs.VP8LEntropyReader.new_win buf) (by show 0 ≤ 64; omega)), by omega, by omega⟩

end Webp.Props.C03Window
