import Generated.Funcs
import Webp.Go.Basic
import Webp.Proofs.FuncsBridge
/-
  C05 (and C16/C17: the same parser) — regenerated obligation: `container.readLE24` (the 24-bit
  canvas / frame fields of VP8X and ANMF) translated from the Go AST on this run is `Go.le24` on
  at least three bytes and panics on fewer (the parser guards every call with a length check).
-/
namespace Webp.Props.C05Funcs
open Webp.Go Webp.Go.IntSem Webp.Proofs.FuncsBridge

theorem tie_readLE24 (b0 b1 b2 : UInt8) (rest : List UInt8) :
    Generated.Funcs.readLE24 ((b0 :: b1 :: b2 :: rest).map (fun x => (x.toNat : Int)))
      = .ok ((le24 (b0 :: b1 :: b2 :: rest) : Nat) : Int) := by
  have := b0.toNat_lt; have := b1.toNat_lt; have := b2.toNat_lt
  simp only [Generated.Funcs.readLE24, List.map_cons, idxI, le24, byteAt, List.getD]
  simp only [Int.lt_irrefl, if_false, Int.toNat_zero, List.getElem?_cons_zero, ok_bind,
    show ¬ ((1 : Int) < 0) by decide, show ¬ ((2 : Int) < 0) by decide,
    show (1 : Int).toNat = 1 by rfl, show (2 : Int).toNat = 2 by rfl, List.getElem?_cons_succ,
    shl_nat_lit, bor_nat, Option.getD_some]
  congr 2
  have o1 : b0.toNat ||| b1.toNat <<< 8 = b1.toNat <<< 8 + b0.toNat := by
    rw [Nat.or_comm]; exact (Nat.shiftLeft_add_eq_or_of_lt (by omega) _).symm
  have l1 : b1.toNat <<< 8 + b0.toNat < 2 ^ 16 := by rw [Nat.shiftLeft_eq]; omega
  have o2 : (b1.toNat <<< 8 + b0.toNat) ||| b2.toNat <<< 16 = b2.toNat <<< 16 + (b1.toNat <<< 8 + b0.toNat) := by
    rw [Nat.or_comm]; exact (Nat.shiftLeft_add_eq_or_of_lt l1 _).symm
  rw [o1, o2]
  simp only [Nat.shiftLeft_eq]
  omega

/-- fewer than three bytes: the Go function panics (index out of range) -/
theorem readLE24_short (b : List Int) (h : b.length < 3) : Generated.Funcs.readLE24 b = .panic := by
  match b, h with
  | [], _ => rfl
  | [_], _ => rfl
  | [_, _], _ => rfl

example : Generated.Funcs.readLE24 [0x01, 0x02, 0x03, 0xff] = .ok 0x030201 := by decide

end Webp.Props.C05Funcs
