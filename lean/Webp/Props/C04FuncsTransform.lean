import Webp.Proofs.FuncsTransform
import Webp.Props.C04Kernels
/-
  C04 (and C06, C13: the same kernels) — regenerated obligations for the DECODER-side inverse
  transforms of internal/dsp/transforms.go: `store`, `transformOne`, `transformDC`, `transformAC3`,
  `transformTwo`, `transformUV`, `transformDCUV`, `transformWHT` as translated from the Go AST on this
  run (`Generated/Funcs.lean`: slices are `List Int`, a function that writes `dst` returns the updated
  list, `BPS = 32` is inlined) are the pointwise kernel models of `Webp.Impl.VP8Kernels` ("Inverse
  DCT" / "Walsh–Hadamard") that the C04/C13 kernel theorems (`Props/C04Kernels.lean`) are about.

  Shape of every tie: for buffers that are long enough the translated function returns `.ok out`,
  `out` has the length of `dst`, sample `(row r, col c)` of each 4x4 block (index `off + c + 32*r`)
  is the model's output sample `4*r + c` computed from the coefficients `in[..]` and the OLD pixels of
  that block, and every other position of `dst` is unchanged.  Buffers that are too short: `.panic`
  (Go run-time panic; `transformOne` starts with `_ = in[15]; _ = dst[3+3*BPS]`).

  Range hypotheses = the Go element types: `I16s inp` (`[]int16`), `Bytes dst` (`[]byte`); they are
  needed because Go `int` is modelled without wrap and `Clip8b` looks at bit 63 (`tie_Clip8b`).
  `transformWHT` needs none (`int16(x)` is `wrapS 16` = the model's `toI16` for every `x`).
-/
namespace Webp.Props.C04FuncsTransform
open Webp.Go Webp.Go.IntSem Webp.Proofs.FuncsBridge Webp.Proofs.FuncsListOps Webp.Proofs.FuncsTransform
open Webp.Proofs.VP8Kernels (DCOnly AC3Only)

/-! ## `store` -/

/-- transforms.go `store(dst, off, x)`: `dst[off] = Clip8b(int(dst[off]) + (x >> 3))` is the model's
    `store` on the old byte, for every in-range offset and every `x` with `|x| ≤ 2^62` -/
theorem tie_store (dst : List Int) (off x : Int) (h0 : 0 ≤ off) (h1 : off < dst.length)
    (hp : 0 ≤ dst.getD off.toNat 0 ∧ dst.getD off.toNat 0 ≤ 255)
    (hx : -4611686018427387904 ≤ x ∧ x ≤ 4611686018427387904) :
    Generated.Funcs.store dst off x
      = .ok (dst.set off.toNat (Webp.Impl.VP8Kernels.store (dst.getD off.toNat 0) x)) := by
  have := store_nat dst off.toNat x
  rw [Int.toNat_of_nonneg h0] at this
  have hl : off.toNat < dst.length := by omega
  rw [this, if_pos hl, Clip8b_store _ _ hp hx]

/-- out of range: Go panics -/
theorem tie_store_panic (dst : List Int) (off x : Int) (h : off < 0 ∨ (dst.length : Int) ≤ off) :
    Generated.Funcs.store dst off x = .panic := by
  by_cases h0 : off < 0
  · exact store_neg dst off x h0
  · have := store_nat dst off.toNat x
    rw [Int.toNat_of_nonneg (by omega)] at this
    have hl : ¬ off.toNat < dst.length := by omega
    rw [this, if_neg hl]

/-! ## one 4x4 block: `transformOne`, `transformDC`, `transformAC3` -/

/-- transforms.go `transformOne(in, dst)` = `VP8Kernels.transformOne` (vertical pass `vtmp`, horizontal
    pass `hres`, `store`) on `in[0..15]` and the old 4x4 block of `dst` (stride 32) -/
theorem tie_transformOne (inp dst : List Int) (hi : 16 ≤ inp.length) (hd : 100 ≤ dst.length)
    (ri : I16s inp) (rd : Bytes dst) :
    ∃ out, Generated.Funcs.transformOne inp dst = .ok out ∧ out.length = dst.length ∧
      (∀ r c, r < 4 → c < 4 → out.getD (c + 32 * r) 0
          = Webp.Impl.VP8Kernels.transformOne (fun i => inp.getD i 0)
              (fun k => dst.getD (k % 4 + 32 * (k / 4)) 0) (4 * r + c)) ∧
      (∀ j, (∀ r c, r < 4 → c < 4 → j ≠ c + 32 * r) → out.getD j 0 = dst.getD j 0) := by
  obtain ⟨out, e, u⟩ := transformOne_upd inp dst hi hd ri rd
  have := u.rc
  simp only [Nat.zero_add, blk_zero] at this
  exact ⟨out, e, this⟩

/-- `_ = in[15]; _ = dst[3+3*BPS]` -/
theorem tie_transformOne_panic (inp dst : List Int) (h : inp.length < 16 ∨ dst.length < 100) :
    Generated.Funcs.transformOne inp dst = .panic := transformOne_panic inp dst h

/-- transforms.go `transformDC(in, dst)` = `VP8Kernels.transformDC` -/
theorem tie_transformDC (inp dst : List Int) (hi : 1 ≤ inp.length) (hd : 100 ≤ dst.length)
    (ri : I16s inp) (rd : Bytes dst) :
    ∃ out, Generated.Funcs.transformDC inp dst = .ok out ∧ out.length = dst.length ∧
      (∀ r c, r < 4 → c < 4 → out.getD (c + 32 * r) 0
          = Webp.Impl.VP8Kernels.transformDC (fun i => inp.getD i 0)
              (fun k => dst.getD (k % 4 + 32 * (k / 4)) 0) (4 * r + c)) ∧
      (∀ j, (∀ r c, r < 4 → c < 4 → j ≠ c + 32 * r) → out.getD j 0 = dst.getD j 0) := by
  obtain ⟨out, e, u⟩ := transformDC_upd inp dst hi hd ri rd
  have := u.rc
  simp only [Nat.zero_add, blk_zero] at this
  exact ⟨out, e, this⟩

/-- no bounds hint in `transformDC`: the first failing `in[0]` / `store` panics -/
theorem tie_transformDC_panic (inp dst : List Int) (h : inp.length < 1 ∨ dst.length < 100) :
    Generated.Funcs.transformDC inp dst = .panic := transformDC_panic inp dst h

/-- transforms.go `transformAC3(in, dst)` = `VP8Kernels.transformAC3` (reads `in[0]`, `in[1]`, `in[4]`) -/
theorem tie_transformAC3 (inp dst : List Int) (hi : 5 ≤ inp.length) (hd : 100 ≤ dst.length)
    (ri : I16s inp) (rd : Bytes dst) :
    ∃ out, Generated.Funcs.transformAC3 inp dst = .ok out ∧ out.length = dst.length ∧
      (∀ r c, r < 4 → c < 4 → out.getD (c + 32 * r) 0
          = Webp.Impl.VP8Kernels.transformAC3 (fun i => inp.getD i 0)
              (fun k => dst.getD (k % 4 + 32 * (k / 4)) 0) (4 * r + c)) ∧
      (∀ j, (∀ r c, r < 4 → c < 4 → j ≠ c + 32 * r) → out.getD j 0 = dst.getD j 0) := by
  obtain ⟨out, e, u⟩ := transformAC3_upd inp dst hi hd ri rd
  have := u.rc
  simp only [Nat.zero_add, blk_zero] at this
  exact ⟨out, e, this⟩

theorem tie_transformAC3_panic (inp dst : List Int) (h : inp.length < 5 ∨ dst.length < 100) :
    Generated.Funcs.transformAC3 inp dst = .panic := transformAC3_panic inp dst h

/-! ## the fast paths agree with the full transform on the translated code itself -/

/-- `fastpath_eq_full` (Props/C04Kernels) transported to the translated Go: on DC-only coefficients
    `transformDC` returns the very list `transformOne` returns -/
theorem transformDC_eq_transformOne (inp dst : List Int) (hi : 16 ≤ inp.length) (hd : 100 ≤ dst.length)
    (ri : I16s inp) (rd : Bytes dst) (h : DCOnly (fun i => inp.getD i 0)) :
    Generated.Funcs.transformDC inp dst = Generated.Funcs.transformOne inp dst := by
  obtain ⟨o, e, u⟩ := transformDC_upd inp dst (by omega) hd ri rd
  obtain ⟨o', e', u'⟩ := transformOne_upd inp dst hi hd ri rd
  rw [e, e', UpdAt.unique u u' (fun k hk => (Webp.Props.C04Kernels.fastpath_eq_full _ _).1 h k hk)]

/-- … and on coefficients supported on `{0, 1, 4}` `transformAC3` does -/
theorem transformAC3_eq_transformOne (inp dst : List Int) (hi : 16 ≤ inp.length) (hd : 100 ≤ dst.length)
    (ri : I16s inp) (rd : Bytes dst) (h : AC3Only (fun i => inp.getD i 0)) :
    Generated.Funcs.transformAC3 inp dst = Generated.Funcs.transformOne inp dst := by
  obtain ⟨o, e, u⟩ := transformAC3_upd inp dst (by omega) hd ri rd
  obtain ⟨o', e', u'⟩ := transformOne_upd inp dst hi hd ri rd
  rw [e, e', UpdAt.unique u u' (fun k hk => (Webp.Props.C04Kernels.fastpath_eq_full _ _).2.2 h k hk)]

/-! ## inverse WHT -/

/-- transforms.go `transformWHT(in, out)` = `VP8Kernels.transformWHT` (vertical pass `iwhtTmp`): output `k`
    goes to `out[16*k]` (the DC slot of block `k`), nothing else is written.  No range hypothesis. -/
theorem tie_transformWHT (inp out : List Int) (hi : 16 ≤ inp.length) (ho : 241 ≤ out.length) :
    ∃ res, Generated.Funcs.transformWHT inp out = .ok res ∧ res.length = out.length ∧
      (∀ k, k < 16 → res.getD (16 * k) 0 = Webp.Impl.VP8Kernels.transformWHT (fun i => inp.getD i 0) k) ∧
      (∀ j, (∀ k, k < 16 → j ≠ 16 * k) → res.getD j 0 = out.getD j 0) := by
  obtain ⟨res, e, u⟩ := transformWHT_upd inp out hi ho
  exact ⟨res, e, u⟩

/-- the vertical pass reads `in[12+i]`, the horizontal pass writes `out[(4*i+j)*16]`: a short buffer panics
    (possibly after some writes) -/
theorem tie_transformWHT_panic (inp out : List Int) (h : inp.length < 16 ∨ out.length < 241) :
    Generated.Funcs.transformWHT inp out = .panic := by
  by_cases hi : inp.length < 16
  · exact transformWHT_panic_in inp out hi
  · exact transformWHT_panic_out inp out (by omega) (by omega)

/-! ## two and four blocks: `transformTwo`, `transformUV`, `transformDCUV` -/

theorem tie_transformTwo_false (inp dst : List Int) :
    Generated.Funcs.transformTwo inp dst false = Generated.Funcs.transformOne inp dst :=
  transformTwo_false inp dst

/-- transforms.go `transformTwo(in, dst, true)`: block `b ∈ {0,1}` at `dst[4*b:]` with coefficients
    `in[16*b:]`; each block is `VP8Kernels.transformOne` of the ORIGINAL pixels of that block -/
theorem tie_transformTwo (inp dst : List Int) (hi : 32 ≤ inp.length) (hd : 104 ≤ dst.length)
    (ri : I16s inp) (rd : Bytes dst) :
    ∃ out, Generated.Funcs.transformTwo inp dst true = .ok out ∧ out.length = dst.length ∧
      (∀ b r c, b < 2 → r < 4 → c < 4 → out.getD (4 * b + c + 32 * r) 0
          = Webp.Impl.VP8Kernels.transformOne (fun i => inp.getD (16 * b + i) 0)
              (fun k => dst.getD (4 * b + k % 4 + 32 * (k / 4)) 0) (4 * r + c)) ∧
      (∀ j, (∀ b r c, b < 2 → r < 4 → c < 4 → j ≠ 4 * b + c + 32 * r) → out.getD j 0 = dst.getD j 0) := by
  obtain ⟨out, e, u⟩ := transformTwo_upd inp dst hi hd ri rd
  have := u.rc
  simp only [idctBlocks, blk_eq] at this
  exact ⟨out, e, this⟩

/-- transforms.go `transformUV(in, dst)`: the four 4x4 blocks of an 8x8 chroma plane, block `b` at offset
    `4*(b%2) + 128*(b/2)` (0, 4, 4·BPS, 4·BPS+4) with coefficients `in[16*b:]` -/
theorem tie_transformUV (inp dst : List Int) (hi : 64 ≤ inp.length) (hd : 232 ≤ dst.length)
    (ri : I16s inp) (rd : Bytes dst) :
    ∃ out, Generated.Funcs.transformUV inp dst = .ok out ∧ out.length = dst.length ∧
      (∀ b r c, b < 4 → r < 4 → c < 4 → out.getD (4 * (b % 2) + 128 * (b / 2) + c + 32 * r) 0
          = Webp.Impl.VP8Kernels.transformOne (fun i => inp.getD (16 * b + i) 0)
              (fun k => dst.getD (4 * (b % 2) + 128 * (b / 2) + k % 4 + 32 * (k / 4)) 0) (4 * r + c)) ∧
      (∀ j, (∀ b r c, b < 4 → r < 4 → c < 4 → j ≠ 4 * (b % 2) + 128 * (b / 2) + c + 32 * r) →
          out.getD j 0 = dst.getD j 0) := by
  obtain ⟨out, e, u⟩ := transformUV_upd inp dst hi hd ri rd
  have := u.rc
  simp only [idctBlocks, blk_eq, uvOff] at this
  exact ⟨out, e, this⟩

/-- transforms.go `transformDCUV(in, dst)` = `VP8Kernels.transformDCUV`: block `b` gets `transformDC` iff
    `in[16*b] != 0` and is left alone otherwise -/
theorem tie_transformDCUV (inp dst : List Int) (hi : 49 ≤ inp.length) (hd : 232 ≤ dst.length)
    (ri : I16s inp) (rd : Bytes dst) :
    ∃ out, Generated.Funcs.transformDCUV inp dst = .ok out ∧ out.length = dst.length ∧
      (∀ b r c, b < 4 → r < 4 → c < 4 → out.getD (4 * (b % 2) + 128 * (b / 2) + c + 32 * r) 0
          = Webp.Impl.VP8Kernels.transformDCUV (fun b i => inp.getD (16 * b + i) 0)
              (fun b k => dst.getD (4 * (b % 2) + 128 * (b / 2) + k % 4 + 32 * (k / 4)) 0) b (4 * r + c)) ∧
      (∀ j, (∀ b r c, b < 4 → r < 4 → c < 4 → j ≠ 4 * (b % 2) + 128 * (b / 2) + c + 32 * r) →
          out.getD j 0 = dst.getD j 0) := by
  obtain ⟨out, e, u⟩ := transformDCUV_upd inp dst hi hd ri rd
  have := u.rc
  simp only [dcuvBlocks, blk_eq, uvOff] at this
  exact ⟨out, e, this⟩

/-! ## non-vacuity -/

/-- the hypotheses are satisfiable (buffers of the sizes the decoder uses: 16/64 coefficients, a
    32-stride work area) -/
example : (16 ≤ (List.replicate 16 (-2048 : Int)).length ∧ I16s (List.replicate 16 (-2048))) ∧
    (100 ≤ (List.replicate 100 (200 : Int)).length ∧ Bytes (List.replicate 100 200)) :=
  ⟨⟨by simp only [List.length_replicate]; decide, I16s_replicate _ _ (by decide)⟩,
   ⟨by simp only [List.length_replicate]; decide, Bytes_replicate _ _ (by decide)⟩⟩
example : (64 ≤ (List.replicate 64 (77 : Int)).length ∧ I16s (List.replicate 64 77)) ∧
    (232 ≤ (List.replicate 232 (0 : Int)).length ∧ Bytes (List.replicate 232 0)) :=
  ⟨⟨by simp only [List.length_replicate]; decide, I16s_replicate _ _ (by decide)⟩,
   ⟨by simp only [List.length_replicate]; decide, Bytes_replicate _ _ (by decide)⟩⟩
example : 16 ≤ (List.replicate 16 (5 : Int)).length ∧ 241 ≤ (List.replicate 256 (0 : Int)).length := by
  simp only [List.length_replicate]; decide
example : DCOnly (fun i => ([24, 0, 0, 0, 0, 0, 0, 0, 0, 0, 0, 0, 0, 0, 0, 0] : List Int).getD i 0) := by
  intro k h1 h2
  have : k = 1 ∨ k = 2 ∨ k = 3 ∨ k = 4 ∨ k = 5 ∨ k = 6 ∨ k = 7 ∨ k = 8 ∨ k = 9 ∨ k = 10 ∨ k = 11 ∨ k = 12 ∨
      k = 13 ∨ k = 14 ∨ k = 15 := by omega
  rcases this with rfl | rfl | rfl | rfl | rfl | rfl | rfl | rfl | rfl | rfl | rfl | rfl | rfl | rfl | rfl <;> rfl
/-- `tie_transformDC` on a sample: DC 24 adds `(24 + 4) >> 3 = 3` to the pixel at row 1, column 1 -/
example : ∃ out, Generated.Funcs.transformDC (List.replicate 1 24) (List.replicate 100 200) = .ok out ∧
    out.getD 33 0 = 203 ∧ out.getD 4 0 = 200 := by
  obtain ⟨out, e, _, h, hf⟩ := tie_transformDC (List.replicate 1 24) (List.replicate 100 200)
    (by simp only [List.length_replicate]; decide) (by simp only [List.length_replicate]; decide)
    (I16s_replicate _ _ (by decide)) (Bytes_replicate _ _ (by decide))
  refine ⟨out, e, ?_, ?_⟩
  · rw [show (33 : Nat) = 1 + 32 * 1 from rfl, h 1 1 (by decide) (by decide)]; decide
  · rw [hf 4 (fun r c hr hc => by omega)]; decide
/-- the translated code on samples (tests of the encoding, not theorems): a DC of 24 adds
    `(24 + 4) >> 3 = 3` and saturates at 255; out of range it panics; the byte-range hypothesis of
    `tie_store` is needed (`Clip8b` of a value beyond 64 bits is not the saturation) -/
example : Generated.Funcs.store [250, 7] 1 24 = .ok [250, 10] ∧ Generated.Funcs.store [250, 7] 0 48 = .ok [255, 7] ∧
    Generated.Funcs.store [250, 7] 2 24 = .panic ∧ Generated.Funcs.store [250, 7] (-1) 24 = .panic := by decide
example : Generated.Funcs.store [18446744073709551616 + 5] 0 0 = .ok [5] := by decide

end Webp.Props.C04FuncsTransform
