import Webp.Proofs.C04RefineIdct
import Webp.Proofs.C04RefinePred4
import Webp.Proofs.C04RefinePredBig
import Webp.Props.C04Kernels
/-
  Property C04, refinement theorems Impl ↔ Spec, part 3 — stage C (reconstruction), transforms:
  the Go inverse transforms (`Webp.Impl.VP8Kernels`, tied to the translated Go code by
  `Webp.Props.C04FuncsTransform`) are RFC 6386 §14.3 / §14.4 / §14.5 (`Webp.Spec.VP8.inverseWHT`,
  `inverseDCT`, `clamp255`) on every 4×4 block, incl. the decoder's DC-only / AC3 / inline fast paths;
  intra predictors: the ten 4×4 and the 16×16 / 8×8 predictors of predict_lossy.go are §12.3 / §12.2's.
-/
namespace Webp.Props.C04Refine3
open Webp.Spec.VP8 (inverseWHT inverseDCT clamp255)
open Webp.Impl.VP8Kernels
open Webp.Proofs.VP8Kernels

/-- **`wht_eq_spec`.**  `transformWHT` (the value stored in `out[16·j]`, an `int16`) is the 16-bit store of
    RFC 6386 §14.3's output `j`, for every Y2 coefficient block at `c[base ..]` (`Spec.reconMB` applies
    the same `wrap16` when it installs the DC values). -/
theorem wht_eq_spec (c : Array Int) (base j : Nat) (hj : j < 16) :
    toI16 ((inverseWHT c base).getD j 0) = transformWHT (fun k => c.getD (base + k) 0) j :=
  Webp.Proofs.C04RefineXform.wht_eq_spec c base j hj

/-- **`idct_eq_spec`.**  The residual `transformOne` adds at position `j` is RFC 6386 §14.4's output `j`
    (exact integer arithmetic, `20091` / `35468` multipliers, `(x + 4) >> 3`), for every block. -/
theorem idct_eq_spec (c : Array Int) (base j : Nat) (hj : j < 16) :
    (inverseDCT false c base).getD j 0 = idctResidual (fun k => c.getD (base + k) 0) j :=
  Webp.Proofs.C04RefineIdct.idct_eq_spec c base j hj

/-- **`transformOne` = §14.4 + §14.5** (prediction + residue, clamped to 0..255), any prediction `p`. -/
theorem transformOne_eq_spec (c : Array Int) (base : Nat) (p : Nat → Int) (j : Nat) (hj : j < 16) :
    transformOne (fun k => c.getD (base + k) 0) p j =
      ((clamp255 (p j + (inverseDCT false c base).getD j 0)).toNat : Int) :=
  Webp.Proofs.C04RefineIdct.transformOne_eq_spec c base p j hj

/-- **The decoder's fast paths are the RFC transform too**: `transformDC`, the inline DC code of
    `doTransform` / `doTransformDCBlock`, and `transformAC3`, on their supports (`fastpath_eq_full`). -/
theorem fastpaths_eq_spec (c : Array Int) (base : Nat) (p : Nat → Int) (j : Nat) (hj : j < 16) :
    (DCOnly (fun k => c.getD (base + k) 0) →
      transformDC (fun k => c.getD (base + k) 0) p j = ((clamp255 (p j + (inverseDCT false c base).getD j 0)).toNat : Int) ∧
      dcInline (fun k => c.getD (base + k) 0) p j = ((clamp255 (p j + (inverseDCT false c base).getD j 0)).toNat : Int)) ∧
    (AC3Only (fun k => c.getD (base + k) 0) →
      transformAC3 (fun k => c.getD (base + k) 0) p j = ((clamp255 (p j + (inverseDCT false c base).getD j 0)).toNat : Int)) := by
  obtain ⟨h1, h2, h3⟩ := Webp.Props.C04Kernels.fastpath_eq_full (fun k => c.getD (base + k) 0) p
  refine ⟨fun h => ⟨?_, ?_⟩, fun h => ?_⟩
  · rw [h1 h j hj]; exact transformOne_eq_spec c base p j hj
  · rw [h2 h j hj]; exact transformOne_eq_spec c base p j hj
  · rw [h3 h j hj]; exact transformOne_eq_spec c base p j hj

example : DCOnly (fun k => (#[40, 0, 0, 0, 0, 0, 0, 0, 0, 0, 0, 0, 0, 0, 0, 0] : Array Int).getD (0 + k) 0) := by
  intro k h1 h2
  have : k = 1 ∨ k = 2 ∨ k = 3 ∨ k = 4 ∨ k = 5 ∨ k = 6 ∨ k = 7 ∨ k = 8 ∨ k = 9 ∨ k = 10 ∨ k = 11 ∨ k = 12 ∨ k = 13 ∨ k = 14 ∨ k = 15 := by omega
  rcases this with rfl | rfl | rfl | rfl | rfl | rfl | rfl | rfl | rfl | rfl | rfl | rfl | rfl | rfl | rfl <;> rfl

/-! ## intra predictors (§12) -/

open Webp.Proofs.C04RefineSyntax (rfcB rfcY) in
/-- **`pred4_eq_spec`.**  The ten 4×4 predictors of predict_lossy.go (Go mode `g`) are RFC 6386 §12.3's
    (`rfcB g`) at every pixel, for every edge `E = L3 L2 L1 L0 P A0 … A7` of byte samples (above-right
    samples `A4 … A7` included: B_LD / B_VL read them). -/
theorem pred4_eq_spec (g : Nat) (hg : g < 10) (E : Array Nat) (hE : ∀ i, E.getD i 0 ≤ 255) (x y : Nat) (hx : x < 4) (hy : y < 4) :
    (((Webp.Spec.VP8.predictSubblock (rfcB g) E).getD (y * 4 + x) 0 : Nat) : Int) =
      pred4 g (fun i => (E.getD (5 + i) 0 : Int)) (fun j => (E.getD (3 - j) 0 : Int)) (E.getD 4 0 : Int) x y :=
  Webp.Proofs.C04RefinePred4.pred4_eq_spec g hg E hE x y hx hy

open Webp.Proofs.C04RefineSyntax (rfcB rfcY) in
open Webp.Proofs.C04RefinePredBig in
/-- **`predBig_eq_spec`.**  The 16×16 luma and 8×8 chroma predictors (Go modes DC 0, TM 1, V 2, H 3; for DC
    the variant `checkMode` picks by position: 4 without the row above, 5 without the left column, 6 = 128)
    are RFC 6386 §12.2's (`rfcY g`) at every pixel; the samples outside the frame are the RFC's 127 row /
    129 column (`Plane.sample`). -/
theorem predBig_eq_spec (n : Nat) (hn : n = 16 ∨ n = 8) (p : Webp.Spec.VP8.Plane) (x0 y0 g : Nat) (hg : g < 4)
    (x y : Nat) (hx : x < n) (hy : y < n) :
    (((Webp.Spec.VP8.predictBlock p n x0 y0 (rfcY g)).getD (y * n + x) 0 : Nat) : Int) =
      predBig n (dcMode g x0 y0) (fun i => (p.sample (x0 + 1 + i) y0 : Int)) (fun j => (p.sample x0 (y0 + 1 + j) : Int))
        (p.sample x0 y0 : Int) x y :=
  Webp.Proofs.C04RefinePredBig.predBig_eq_spec n hn p x0 y0 g hg x y hx hy

/-- `dcMode` is decode_frame.go `checkMode` at macroblock `(mbX, mbY)` -/
example (n mbX mbY g : Nat) (hn : 0 < n) :
    Webp.Proofs.C04RefinePredBig.dcMode g (n * mbX) (n * mbY) = Webp.Impl.VP8Recon.checkMode mbX mbY g := by
  unfold Webp.Proofs.C04RefinePredBig.dcMode Webp.Impl.VP8Recon.checkMode
  have h1 : n * mbX = 0 ↔ mbX = 0 := by constructor <;> intro h <;> simp_all <;> omega
  have h2 : n * mbY = 0 ↔ mbY = 0 := by constructor <;> intro h <;> simp_all <;> omega
  simp only [h1, h2]
  split_ifs <;> first | rfl | omega

#print axioms pred4_eq_spec
#print axioms predBig_eq_spec
#print axioms wht_eq_spec
#print axioms idct_eq_spec
#print axioms transformOne_eq_spec
#print axioms fastpaths_eq_spec

end Webp.Props.C04Refine3
