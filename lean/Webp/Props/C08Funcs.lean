import Generated.Funcs
import Webp.Impl.AnimEnc
/-
  C08 (and C18) — regenerated obligations: the clamps applied by the animation encoder to the loop
  count (`animation.clampLoopCount`) and to frame durations (`mux.clampDuration`, reached through
  `Muxer.AddFrame`), translated from the Go AST on this run, are the functions of
  `Webp.Impl.AnimEnc`.
-/
namespace Webp.Props.C08Funcs

theorem tie_clampLoopCount : Generated.Funcs.clampLoopCount = Webp.Impl.AnimEnc.clampLoopCount := by
  funext v
  simp only [Generated.Funcs.clampLoopCount, Webp.Impl.AnimEnc.clampLoopCount,
    Webp.Impl.AnimEnc.maxLoopCount, decide_eq_true_eq]
  split <;> try split
  all_goals first | rfl | omega

theorem tie_clampDuration : Generated.Funcs.clampDuration = Webp.Impl.AnimEnc.clampDuration := by
  funext v
  simp only [Generated.Funcs.clampDuration, Webp.Impl.AnimEnc.clampDuration,
    Webp.Impl.AnimEnc.maxDuration, decide_eq_true_eq]
  split <;> try split
  all_goals first | rfl | omega

example : Generated.Funcs.clampLoopCount 70000 = 65535 ∧ Generated.Funcs.clampLoopCount (-3) = 0 := by decide

end Webp.Props.C08Funcs
