import Webp.Proofs.ContainerViews
import Webp.Proofs.ContainerSim
import Webp.Proofs.ContainerSamples
/-
  C16 — "Header queries agree with what a full decode returns" (container level).

  `Config.decodeTarget` is what `webp.Decode` hands to the codecs (first frame's payload, alpha
  bytes, lossless flag) together with the Go image type that comes back on codec success and
  the dimensions the container parser derived from the bitstream header; `decodeConfigWith`
  and `getFeatures` are the header queries (`true` = repaired `len(AlphaData) == 0` test).
-/
namespace Webp.Props.C16
open Webp.Go Webp.Impl Webp.Impl.Parser

/-- `image.Decode` / `image.DecodeConfig` dispatch on the magic `"RIFF????WEBP"`: every byte
    string the parser accepts carries it. -/
theorem magic_dispatch {b : Bytes} {s : State} (h : parse b = .ok s) :
    b.take 4 = tagBytes "RIFF" ∧ (b.drop 8).take 4 = tagBytes "WEBP" :=
  parse_magic h

/-- Whenever `Decode` gets as far as the codec call, `DecodeConfig` succeeds and predicts the
    colour model of the image that comes back; for a file whose animation flag is clear (a
    still) it also reports exactly the dimensions of the frame that is decoded.
    (For a file flagged as animation `DecodeConfig` reports the canvas while `Decode` returns
    the first frame — see `anim_config_is_canvas`; the property only speaks about stills.) -/
theorem config_matches_decode {b : Bytes} {t : Config.DecodeTarget}
    (h : Config.decodeTarget b = .ok (some t)) :
    ∃ c p, parse b = .ok p ∧ Config.decodeConfigWith true b = .ok c ∧ c.model = t.model ∧
      (p.features.hasAnim = false → c.width = t.width ∧ c.height = t.height) := by
  obtain ⟨p, f, rest, hp, hf, ht⟩ := Config.decodeTarget_ok_inv h
  subst ht
  refine ⟨_, p, hp, Config.decodeConfig_of_frames true hp hf, ?_, ?_⟩
  · show Config.configModel true p = _
    unfold Config.configModel
    rw [hf]
    cases hl : f.isLossless <;> cases ha : f.alphaData.getD [] <;> simp [hl, ha]
  · intro hna
    obtain ⟨_, hshape⟩ := parse_still hp hna
    rcases hshape with h0 | ⟨g, pl, h1, h2, h3, _⟩
    · rw [h0] at hf; cases hf
    · rw [h1] at hf
      injection hf with hg _
      subst hg
      exact ⟨h2, h3⟩

/-- `GetFeatures` against the decode: it succeeds; for stills it reports the decoded frame's
    dimensions and `FrameCount = 1`; the format name tells the codec ("lossy" ⇒ VP8 frame,
    "lossless" ⇒ VP8L frame; "extended" files may hold either). -/
theorem features_match_decode {b : Bytes} {t : Config.DecodeTarget}
    (h : Config.decodeTarget b = .ok (some t)) :
    ∃ ft p, parse b = .ok p ∧ Config.getFeatures b = .ok ft ∧
      (ft.hasAnimation = false → ft.width = t.width ∧ ft.height = t.height ∧ ft.frameCount = 1) ∧
      (ft.format = "lossy" → t.isLossless = false) ∧
      (ft.format = "lossless" → t.isLossless = true) := by
  obtain ⟨p, f, rest, hp, hf, ht⟩ := Config.decodeTarget_ok_inv h
  subst ht
  obtain ⟨hlossy, hlossless⟩ := parse_format_lossless hp
  refine ⟨_, p, hp, Config.getFeatures_of_frames hp hf, ?_, ?_, ?_⟩
  · intro hna
    obtain ⟨_, hshape⟩ := parse_still hp hna
    rcases hshape with h0 | ⟨g, pl, h1, h2, h3, _⟩
    · rw [h0] at hf; cases hf
    · show p.features.width = _ ∧ p.features.height = _ ∧ p.frames.length = 1
      rw [h1] at hf
      injection hf with hg _
      subst hg
      rw [h1]
      exact ⟨h2, h3, rfl⟩
  · intro hfmt
    have : p.features.format = .vp8 := by
      cases hfm : p.features.format <;> simp [hfm] at hfmt ⊢
    obtain ⟨g, hg, hl⟩ := hlossy this
    rw [hg] at hf; injection hf with hg' _; subst hg'; exact hl
  · intro hfmt
    have : p.features.format = .vp8l := by
      cases hfm : p.features.format <;> simp [hfm] at hfmt ⊢
    obtain ⟨g, hg, hl⟩ := hlossless this
    rw [hg] at hf; injection hf with hg' _; subst hg'; exact hl

/-- D6, pinned behaviour: a VP8X still with a zero-length ALPH chunk.  `Decode` treats
    `len(alphaData) == 0` as "no alpha" and returns `*image.YCbCr`; the original
    `DecodeConfig` tested `AlphaData == nil` and announced NRGBA.  The repaired test agrees. -/
theorem zero_len_alph_counterexample :
    ∃ b, (Config.decodeTarget b).toOption.map (Option.map (·.model)) = some (some .ycbcr) ∧
      (Config.decodeConfigWith false b).toOption.map (·.model) = some .nrgba ∧
      (Config.decodeConfigWith true b).toOption.map (·.model) = some .ycbcr :=
  ⟨Samples.extZeroAlphStill, by decide +kernel⟩

/-- by design, for a file flagged as animation `DecodeConfig` reports the canvas (8×8) and
    `Decode` returns the first frame (4×5) -/
theorem anim_config_is_canvas :
    (Config.decodeConfigWith true Samples.anim2).toOption.map (fun c => (c.width, c.height))
      = some (8, 8) ∧
    (Config.decodeTarget Samples.anim2).toOption.map (Option.map (fun t => (t.width, t.height)))
      = some (some (4, 5)) := by decide +kernel

/-- The container-level views agree.  `container.Parser` (behind `GetFeatures`/`DecodeConfig`/
    `Decode`) and `mux.Demuxer` (behind `mux.NewDemuxer` and `animation.DecodeBytes`) were written
    separately; **whenever both accept a byte string** they agree on the animation flag, the
    canvas size, the number of frames and the loop count.  No well-formedness hypothesis is
    needed: the proof is a lock-step simulation of the two chunk walks, and every structural
    difference between the readers shows up as one of them *rejecting* the input
    (`views_differ_examples`), never as two different successful answers.
    (Loop count: both default to 0 and both honour an ANIM chunk only when the VP8X animation
    flag is set — this is the repaired behaviour; on the pinned tree the parser defaulted to 1.) -/
theorem views_agree {b : Bytes} {p : Parser.State} {d : Demux.State}
    (hp : Parser.parse b = .ok p) (hd : Demux.parseWith true b = .ok d) :
    p.features.hasAnim = d.features.hasAnimation ∧
    p.features.canvasWidth = d.features.width ∧ p.features.canvasHeight = d.features.height ∧
    p.frames.length = d.frames.length ∧ p.features.loopCount = d.loopCount :=
  views_agree_core hp hd

/-- the public header queries against the demuxer, for files with at least one frame -/
theorem getFeatures_agrees_with_demux {b : Bytes} {ft : Config.PubFeatures} {d : Demux.State}
    (hf : Config.getFeatures b = .ok ft) (hd : Demux.parseWith true b = .ok d) :
    ft.hasAnimation = d.features.hasAnimation ∧ ft.frameCount = d.frames.length ∧
    ft.loopCount = d.loopCount ∧
    (ft.hasAnimation = true → ft.width = d.features.width ∧ ft.height = d.features.height) := by
  unfold Config.getFeatures at hf
  cases hp : parse b with
  | err e => rw [hp] at hf; cases hf
  | panic => rw [hp] at hf; cases hf
  | hang => rw [hp] at hf; cases hf
  | ok p =>
    rw [hp, Res.bind_ok] at hf
    obtain ⟨a1, a2, a3, a4, a5⟩ := views_agree_core hp hd
    split_ifs at hf
    injection hf with hf
    subst hf
    refine ⟨a1, a4, a5, fun ha => ?_⟩
    obtain ⟨_, w, h⟩ := parse_anim hp ha
    exact ⟨w.trans a2, h.trans a3⟩

/-- Where the two readers differ: concrete files accepted by exactly one of them
    (P = `container.Parser`, D = `mux.Demuxer`).
    1. VP8X header without any image chunk: P ok (0 frames; `GetFeatures` rejects it), D `ErrNoImage`.
    2. odd-sized last chunk without its pad byte: P `ErrTruncated`, D ok.
    3. ALPH followed by VP8L: P `ErrInvalidChunk`, D ok.
    4. unknown chunk between ALPH and VP8: P `ErrInvalidChunk`, D ok (skips it).
    5. VP8X chunk longer than 10 bytes: P `ErrInvalidVP8X`, D ok.
    6. reserved VP8X flag bit: P `ErrInvalidFlags`, D ok.
    7. still followed by an ANMF chunk: P ok (stops at the image), D `ErrInvalidANMF`.
    8. stray top-level VP8 chunk in an animation: P `ErrInvalidChunk`, D ok (ignores it).
    9. ANMF without preceding ANIM (flag set): P `ErrInvalidChunk`, D ok.
    10. last chunk cut short: P `ErrTruncated`, D ok (stops walking). -/
theorem views_differ_examples :
    ((parse Samples.dFrameless).isOk = true ∧
      Demux.parseWith true Samples.dFrameless = .err .noImage) ∧
    (parse Samples.dNoPad = .err .truncated ∧ (Demux.parseWith true Samples.dNoPad).isOk = true) ∧
    (parse Samples.dAlphVP8L = .err .invalidChunk ∧
      (Demux.parseWith true Samples.dAlphVP8L).isOk = true) ∧
    (parse Samples.dAlphJunkVP8 = .err .invalidChunk ∧
      (Demux.parseWith true Samples.dAlphJunkVP8).isOk = true) ∧
    (parse Samples.dLongVP8X = .err .invalidVP8X ∧
      (Demux.parseWith true Samples.dLongVP8X).isOk = true) ∧
    (parse Samples.dReservedFlag = .err .invalidFlags ∧
      (Demux.parseWith true Samples.dReservedFlag).isOk = true) ∧
    ((parse Samples.dStillThenANMF).isOk = true ∧
      Demux.parseWith true Samples.dStillThenANMF = .err .invalidANMF) ∧
    (parse Samples.dAnimStrayVP8 = .err .invalidChunk ∧
      (Demux.parseWith true Samples.dAnimStrayVP8).isOk = true) ∧
    (parse Samples.dAnmfNoAnim = .err .invalidChunk ∧
      (Demux.parseWith true Samples.dAnmfNoAnim).isOk = true) ∧
    (parse Samples.dAnimTruncTail = .err .truncated ∧
      (Demux.parseWith true Samples.dAnimTruncTail).isOk = true) := by
  decide +kernel

/-! ### non-vacuity -/
example : (Config.decodeTarget Samples.extAlphaStill).toOption.map (Option.map (·.model))
    = some (some .nrgba) := by decide +kernel
example : (Config.getFeatures Samples.simpleVP8).toOption.map (fun f => (f.format, f.hasAnimation))
    = some ("lossy", false) := by decide +kernel
example : (Config.getFeatures Samples.simpleVP8L).toOption.map (fun f => (f.format, f.width, f.height))
    = some ("lossless", 4, 5) := by decide +kernel

-- both readers accept: an animation, an extended still with metadata around the image
example : (parse Samples.anim2).isOk = true ∧ (Demux.parseWith true Samples.anim2).isOk = true ∧
    (parse Samples.extMetaStill).isOk = true ∧
    (Demux.parseWith true Samples.extMetaStill).isOk = true := by decide +kernel
example : (Demux.parseWith true Samples.anim2).toOption.map
    (fun d => (d.features.hasAnimation, d.features.width, d.frames.length, d.loopCount))
    = some (true, 8, 2, 7) := by decide +kernel

end Webp.Props.C16
