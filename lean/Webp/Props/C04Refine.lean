import Webp.Proofs.C04RefineTokens
import Webp.Proofs.C04RefineRecon
import Webp.Proofs.C04RefineFilter
/-
  Property C04 — "VP8 decoding returns the samples the format defines": REFINEMENT theorems between
  the Go-transcription models (`Webp.Impl.*`) and the RFC 6386 transcription (`Webp.Spec.VP8.*`),
  layer by layer, for ALL inputs (not only streams an encoder wrote).

  Layer 1  boolean decoders      reader_eq_spec, reader_eq_spec_of_valid, reader_eof_eq_over,
                                 partition_readers_in_step, getValue_eq_readLiteral,
                                 getSignedValue_eq_readSigned, getSigned_is_getBit (+ the two recorded quirks)
  Layer 2  syntax                parse_tree_transfer, segment_id_eq_spec, ymode_eq_spec, uvmode_eq_spec,
                                 bmode_eq_spec, tokens_eq_spec (one block: token tree with bands/contexts,
                                 category extra bits, sign, dequantisation factor, zig-zag, 16-bit store)
  Layer 3  reconstruction        dequant_eq_spec
  Layer 4  loop filter           loopfilter_params_eq_spec, loopfilter_inner_eq_spec_of

  Only theorems and non-vacuity examples here; helpers in `Webp/Proofs/C04Refine*.lean`.
-/
namespace Webp.Props.C04Refine
open Webp.Go (Bytes)
open Webp.Impl.BoolCoder
open Webp.Spec.VP8 (BoolDec)
open Webp.Impl.VP8SyntaxBytes (P runR rd)
open Webp.Impl.VP8Recon (Slot)
open Webp.Proofs.BoolSpecDec (specBits specBitsSt specInit)
open Webp.Proofs.C04RefineBool Webp.Proofs.C04RefineOps Webp.Proofs.C04RefineSyntax Webp.Proofs.C04RefineTokens

/-! ## Layer 1 — the boolean decoders agree on ALL byte strings -/

/-- **`reader_eq_spec`.**  For every byte string that does not begin with 0xff and every list of
    probabilities (bytes): `GetBit` on a fresh `BoolReader` returns the booleans the RFC 6386 reference
    decoder returns on the same data — including reads beyond the end of the data (both extend it
    with zero bits) — *as long as `eof` was still down before the read* (hypothesis: down before the
    last read of the list; the read that raises `eof` is itself still right).  After at least one read
    Go's `eof` equals the reference decoder's `over` ("a decision needed bits beyond the end"). -/
theorem reader_eq_spec (data : Bytes) (hff : data.head? ≠ some 0xff) (probs : List Nat) (hp : ∀ p ∈ probs, p ≤ 255)
    (hbefore : (readBitsSt (newReader data) probs.dropLast).2.eof = false) :
    readBits (newReader data) probs = specBits (specInit data) probs ∧
    (probs ≠ [] → (readBitsSt (newReader data) probs).2.eof = (specBitsSt (specInit data) probs).2.over) := by
  have hfree := pastEndFree_of_eof_before_last (newReader data) probs hbefore
  obtain ⟨a, _, c⟩ := sim_run hp (sim_init data hff) hfree
  exact ⟨by rw [Webp.Proofs.BoolReader.readBits_eq_fst]; exact a, c⟩

/-- **Valid streams.**  If the reference decoder never needed bits beyond the end (`over = false`, which
    is how `Spec.VP8.decode` defines a frame that is not truncated), the Go reader returns exactly the
    same booleans and its `eof` stays down. -/
theorem reader_eq_spec_of_valid (data : Bytes) (hff : data.head? ≠ some 0xff) (probs : List Nat)
    (hp : ∀ p ∈ probs, p ≤ 255) (hvalid : (specBitsSt (specInit data) probs).2.over = false) :
    readBits (newReader data) probs = specBits (specInit data) probs ∧
    (probs ≠ [] → (readBitsSt (newReader data) probs).2.eof = false) := by
  have hs := sim_init data hff
  have hfree := pastEndFree_of_over_false hp hs hvalid
  obtain ⟨a, _, c⟩ := sim_run hp hs hfree
  refine ⟨by rw [Webp.Proofs.BoolReader.readBits_eq_fst]; exact a, fun hne => ?_⟩
  rw [c hne]; exact hvalid

/-- **The flags.**  After at least one read `eof = over`, unconditionally (also when reads went on past
    the end: both flags are sticky).  With no read at all they differ on the empty string only:
    `NewBoolReader([])` raises `eof` on construction, `over` goes up with the first read. -/
theorem reader_eof_eq_over (data : Bytes) (hff : data.head? ≠ some 0xff) (probs : List Nat)
    (hp : ∀ p ∈ probs, p ≤ 255) (hne : probs ≠ []) :
    (readBitsSt (newReader data) probs).2.eof = (specBitsSt (specInit data) probs).2.over :=
  flags_run hp (sim_init data hff) hne

set_option maxRecDepth 100000 in
/-- the hypothesis of `reader_eq_spec` is satisfiable with a read beyond the end: one byte, the third
    read raises `eof` (and is still right); it fails for twenty reads -/
example : (readBitsSt (newReader [0x35]) (List.replicate 20 128).dropLast).2.eof = true ∧
    (readBitsSt (newReader [0x35]) (List.replicate 3 128).dropLast).2.eof = false ∧
    (readBitsSt (newReader [0x35]) (List.replicate 3 128)).2.eof = true := by decide
set_option maxRecDepth 100000 in
example : readBits (newReader [0x35]) (List.replicate 3 128) = specBits (specInit [0x35]) (List.replicate 3 128) :=
  (reader_eq_spec [0x35] (by decide) _ (replicate_le 3) (by decide)).1
/-- the empty string: `eof` is up before any read, `over` is not -/
example : (newReader []).eof = true ∧ (specInit []).over = false := ⟨by decide, rfl⟩

set_option maxRecDepth 100000 in
/-- **Recorded quirk 1 (registry: "streams whose token partition starts with 0xff").**  Without the
    hypothesis the two decoders really differ: the reference decoder's 16-bit window drops a bit that
    Go's 64-bit window keeps.  (No boolean encoder can emit a leading 0xff.) -/
example : readBits (newReader [0xff, 0xff, 0xff]) [250, 250, 250, 250, 128, 128, 128] ≠
    specBits (specInit [0xff, 0xff, 0xff]) [250, 250, 250, 250, 128, 128, 128] := by decide

/-- **Partitions inside the frame.**  The Go reader over the bytes of a partition and the reference
    decoder positioned on that partition inside the frame's byte array (`BoolDec.init b start stop`, as
    `Spec.VP8.decodeCore` creates them) are in step (`Sim`: every further decision agrees, see
    `sim_step`). -/
theorem partition_readers_in_step (b : ByteArray) (start stop : Nat)
    (hff : (sliceOf b start stop).head? ≠ some 0xff) :
    Sim (sliceOf b start stop) (newReader (sliceOf b start stop)) (BoolDec.init b start stop) :=
  sim_init_slice b start stop hff

/-- **One decision** from states in step (the induction step of everything below). -/
theorem decision_eq_spec {F : Bytes} {r : BoolReader} {d : BoolDec} (h : Sim F r d) (hpe : pastEnd r = false)
    {p : Nat} (hp : p ≤ 255) :
    (getBit r p).1 = (d.readBool p).1 ∧ Sim F (getBit r p).2 (d.readBool p).2 ∧
      (getBit r p).2.eof = (d.readBool p).2.over :=
  sim_step h hpe hp

example : Sim [0x12, 0x34] (newReader [0x12, 0x34]) (specInit [0x12, 0x34]) := sim_init _ (by unfold NoFF; decide)

/-- **`GetValue(n)` = `read_literal(n)`** (`n ≤ 32`; Go ORs `uint32(bit) << i`). -/
theorem getValue_eq_readLiteral {F : Bytes} {r : BoolReader} {d : BoolDec} (h : Sim F r d) (n : Nat) (hn : n ≤ 32)
    (hfree : PastEndFree r (List.replicate n 128)) :
    (getValue r n).1 = (BoolDec.readLiteral n d).1 ∧ Sim F (getValue r n).2 (BoolDec.readLiteral n d).2 :=
  ⟨(getValue_sim h n hn hfree).1, (getValue_sim h n hn hfree).2.1⟩

/-- **`GetSignedValue(n)` = magnitude then sign (`readSigned`)** (`n ≤ 31`: the magnitude fits `int32`). -/
theorem getSignedValue_eq_readSigned {F : Bytes} {r : BoolReader} {d : BoolDec} (h : Sim F r d) (n : Nat) (hn : n ≤ 31)
    (hfree : PastEndFree r (List.replicate n 128 ++ [128])) :
    (getSignedValue r n).1 = (BoolDec.readSigned n d).1 ∧
      Sim F (getSignedValue r n).2 (BoolDec.readSigned n d).2 :=
  ⟨(getSignedValue_sim h n hn hfree).1, (getSignedValue_sim h n hn hfree).2.1⟩

set_option maxRecDepth 100000 in
example : PastEndFree (newReader [0x12, 0x34, 0x56]) (List.replicate 7 128 ++ [128]) :=
  pastEndFree_of_eof_final _ _ (by decide)

/-- **`GetSigned` is `GetBit(0x80)`** (the coefficient sign) in every state reachable by decisions —
    `Range ≠ 254`; Go's `Range` is at most 253 after any decision (`get_range_le_254`). -/
theorem getSigned_is_getBit {F : Bytes} {r : BoolReader} {d : Webp.Spec.VP8.BoolIdeal.Dec} (h : GInv F r d)
    (hpe : pastEnd r = false) (h254 : r.range ≠ 254) : getSigned r = getBit r 128 :=
  getSigned_eq_getBit h hpe h254

/-- **Recorded quirk 2 (`GetSigned` on a fresh reader).**  With `Range = 254` (only a reader that has
    not taken any decision) `GetSigned` leaves `Range = 255`, `GetBit(0x80)` leaves 127: the hypothesis
    of `getSigned_is_getBit` is needed.  The decoder calls `GetSigned` only after a token was read. -/
example : (getSigned (newReader [0x00, 0x12])).2.range = 255 ∧ (getBit (newReader [0x00, 0x12]) 128).2.range = 127 := by
  decide

/-! ## Layer 2 — syntax: the Go parse functions are the RFC's trees -/

/-- **Transfer.**  Any decision tree (every parse function of the decoder is one: `parsers_are_trees`,
    C06Bytes) returns the same value on a Go reader and on a reference decoder in step, and leaves
    them in step — for every probability table. -/
theorem parse_tree_transfer {α : Type} (prob : Slot → UInt8) {F : Bytes} (t : P α) {r : BoolReader} {d : BoolDec}
    (h : Sim F r d) (hfree : TreeFree prob t r) : TRel F (runR prob t r) (runD prob t d) :=
  tree_transfer prob t h hfree

/-- `TreeFree` holds whenever the Go side succeeded with `eof` still down (what `decodeMB` /
    `parseIntraModeRow` check) … -/
theorem treeFree_of_go_ok {α : Type} (prob : Slot → UInt8) (t : P α) (r : BoolReader) (a : α) (r' : BoolReader)
    (h : runR prob t r = some (a, r')) (he : r'.eof = false) : TreeFree prob t r :=
  treeFree_of_eof prob t r a r' h he

/-- … and whenever the reference decoder did not go over (a frame the specification accepts). -/
theorem treeFree_of_spec_ok {α : Type} (prob : Slot → UInt8) {F : Bytes} (t : P α) {r : BoolReader} {d : BoolDec}
    (hs : Sim F r d) (a : α) (d' : BoolDec) (h : runD prob t d = some (a, d')) (ho : d'.over = false) :
    TreeFree prob t r :=
  treeFree_of_over prob t hs a d' h ho

/-- **Segment id**: `parseIntraModeRow`'s three `GetBit`s are `treed_read(mb_segment_tree)` (§9.3). -/
theorem segment_id_eq_spec (prob : Slot → UInt8) (probs : Nat → Nat) (hp : ∀ i, (prob (.seg i)).toNat = probs i)
    {F : Bytes} {r : BoolReader} {d : BoolDec} (hs : Sim F r d) (hfree : TreeFree prob T.readSegmentID r) :
    ∃ m r', runR prob T.readSegmentID r = some (m, r') ∧
      m = (BoolDec.readTree Webp.Spec.VP8.segmentTree probs d).1 ∧
      Sim F r' (BoolDec.readTree Webp.Spec.VP8.segmentTree probs d).2 :=
  tree_eq_readTree prob _ Slot.seg probs hp T.readSegmentID id (by rw [bind_pure_id]; exact segment_tree) hs hfree

/-- **Luma mode** (§11.2 `kf_ymode_tree`, fixed probabilities 145 156 163 128): Go's `!GetBit(145)` =
    `B_PRED`, else the 16×16 tree; modes renumbered `rfcY` (Go DC 0, TM 1, V 2, H 3). -/
theorem ymode_eq_spec (prob : Slot → UInt8) (hfix : FixedOK prob)
    {F : Bytes} {r : BoolReader} {d : BoolDec} (hs : Sim F r d) (hfree : TreeFree prob readYModeGo r) :
    ∃ m r', runR prob readYModeGo r = some (m, r') ∧
      m = (BoolDec.readTree Webp.Spec.VP8.kfYModeTree (fun i => Webp.Spec.VP8.Tables.kfYModeProbs.getD i 128) d).1 ∧
      Sim F r' (BoolDec.readTree Webp.Spec.VP8.kfYModeTree (fun i => Webp.Spec.VP8.Tables.kfYModeProbs.getD i 128) d).2 :=
  tree_eq_readTree prob _ (fun i => .fixed (Webp.Spec.VP8.Tables.kfYModeProbs.getD i 128)) _
    (fun i => hfix _ (kfY_le i))
    readYModeGo id (by rw [bind_pure_id]; exact ymode_tree) hs hfree

/-- **Chroma mode** (§11.2 `uv_mode_tree`, 142 114 183). -/
theorem uvmode_eq_spec (prob : Slot → UInt8) (hfix : FixedOK prob)
    {F : Bytes} {r : BoolReader} {d : BoolDec} (hs : Sim F r d) (hfree : TreeFree prob T.readUVMode r) :
    ∃ m r', runR prob T.readUVMode r = some (m, r') ∧
      rfcY m = (BoolDec.readTree Webp.Spec.VP8.uvModeTree (fun i => Webp.Spec.VP8.Tables.kfUVModeProbs.getD i 128) d).1 ∧
      Sim F r' (BoolDec.readTree Webp.Spec.VP8.uvModeTree (fun i => Webp.Spec.VP8.Tables.kfUVModeProbs.getD i 128) d).2 :=
  tree_eq_readTree prob _ (fun i => .fixed (Webp.Spec.VP8.Tables.kfUVModeProbs.getD i 128)) _
    (fun i => hfix _ (kfUV_le i))
    T.readUVMode rfcY uvmode_tree hs hfree

/-- **Sub-block mode** (§11.2 `bmode_tree` with the contextual probabilities of the modes above and to
    the left): Go's `kYModesIntra4` walk is the RFC tree, leaves renumbered `rfcB` (Go RD 4, VR 5, LD 6). -/
theorem bmode_eq_spec (prob : Slot → UInt8) (top left : Nat) (probs : Nat → Nat)
    (hp : ∀ i, (prob (.bmode top left i)).toNat = probs i)
    {F : Bytes} {r : BoolReader} {d : BoolDec} (hs : Sim F r d) (hfree : TreeFree prob (T.readI4Mode top left) r) :
    ∃ m r', runR prob (T.readI4Mode top left) r = some (m, r') ∧
      rfcB m = (BoolDec.readTree Webp.Spec.VP8.bModeTree probs d).1 ∧
      Sim F r' (BoolDec.readTree Webp.Spec.VP8.bModeTree probs d).2 :=
  tree_eq_readTree prob _ (fun i => .bmode top left i) probs hp (T.readI4Mode top left) rfcB (bmode_tree top left) hs hfree

/-- **`tokens_eq_spec` (one block).**  `getCoeffsInline` (as the tree `T.getCoeffs`) on the Go reader
    and §13's block syntax (`Spec.VP8.readBlock`: `coeff_tree` with the "no end-of-block after a zero"
    rule, band of the position, context 0/1/2 from the previous token, `Pcat` extra bits, sign,
    dequantisation factor by position, zig-zag, 16-bit store) on the reference decoder return the
    same end-of-block position and the same 16 dequantised coefficients in the same positions, for
    every block type, first position, context, probability table (`CoefOK`: Go's per-position band
    rows hold the RFC's `coeff_probs`), factors and prior block content. -/
theorem tokens_eq_spec (prob : Slot → UInt8) (probs : Array Nat) (t ctx : Nat) (dq0 dq1 : Int)
    (first base : Nat) (coeffs : Array Int) (hc : CoefOK prob probs t) (hfix : FixedOK prob) (hf : first ≤ 16)
    (hctx : ctx ≤ 2) (hsz : base + 16 ≤ coeffs.size) {F : Bytes} {r : BoolReader} {d : BoolDec} (hs : Sim F r d)
    (hfree : TreeFree prob (T.getCoeffs t ctx dq0 dq1 first (toC coeffs base)) r) :
    ∃ r', runR prob (T.getCoeffs t ctx dq0 dq1 first (toC coeffs base)) r =
        some (((Webp.Spec.VP8.readBlock probs t first ctx dq0 dq1 base coeffs d).1,
               toC (Webp.Spec.VP8.readBlock probs t first ctx dq0 dq1 base coeffs d).2.1 base), r') ∧
      Sim F r' (Webp.Spec.VP8.readBlock probs t first ctx dq0 dq1 base coeffs d).2.2.2 :=
  getCoeffs_eq_readBlock prob probs t ctx dq0 dq1 first base coeffs hc hfix hf hctx hsz hs hfree

/-- the hypotheses on the probability table are satisfiable (all coefficient probabilities 128) -/
example : ∃ prob : Slot → UInt8, FixedOK prob ∧ CoefOK prob #[] 3 := by
  refine ⟨fun sl => match sl with
    | .fixed p => UInt8.ofNat p
    | _ => 128, ?_, ?_⟩
  · intro p hp
    show (UInt8.ofNat p).toNat = p
    simp [UInt8.toNat_ofNat']; omega
  · intro i c k _ _ _
    rfl

/-! ## Layer 3 — reconstruction: dequantisation -/

open Webp.Proofs.C04RefineRecon in
/-- **`dequant_eq_spec`.**  `ParseQuant`'s six factors per segment = RFC 6386 §9.6/§14.1 for every
    header: index `clamp(q + delta, 0, 127)`, `y2dc·2`, `y2ac·155/100` (Go `(x·101581) >> 16`) at least 8,
    `uvdc` capped at 132 (Go: index clipped to 117), segment quantiser absolute or added. -/
theorem dequant_eq_spec (idx : Webp.Impl.VP8Recon.QuantIdx) (h : Webp.Spec.VP8.FrameHdr) (hr : QuantRel idx h) (s : Fin 4) :
    Webp.Impl.VP8Recon.decQuantMatrix idx s = ofSpec (Webp.Spec.VP8.dequantFactors h {} s.val) :=
  dequant_eq idx h hr s

open Webp.Proofs.C04RefineRecon in
example : QuantRel { useSegment := false, absolute := false, segQ := fun _ => 0, base := 40, dqY1DC := 3, dqY2DC := -2,
                     dqY2AC := 0, dqUVDC := 15, dqUVAC := -15 }
    { version := 0, showFrame := true, firstPartSize := 0, width := 16, height := 16, xScale := 0, yScale := 0,
      quant := { yacQi := 40, ydcDelta := 3, y2dcDelta := -2, y2acDelta := 0, uvdcDelta := 15, uvacDelta := -15 } } :=
  ⟨rfl, rfl, fun s => by revert s; decide, rfl, rfl, rfl, rfl, rfl, rfl⟩

/-! ## Layer 4 — loop filter: parameters -/

open Webp.Proofs.C04RefineFilter Webp.Impl.VP8DecFilter in
/-- **`loopfilter_params_eq_spec`.**  The thresholds `doFilter` passes to the edge filters for a
    macroblock of segment `m.segment` and luma mode `m.ymode` — nothing when the level is 0, else
    (`limit + 4` for macroblock edges, `limit` for sub-block edges, interior limit, hev threshold) —
    are RFC 6386's (§9.3 segment level absolute/delta, clamp to 0..63, §9.6 `ref_lf_delta[0]` and for
    `B_PRED` `mode_lf_delta[0]`, clamp, §15.1 sharpness → interior limit, hev threshold 0/1/2 at 15/40),
    for every header, whatever the table held before (`prev`). -/
theorem loopfilter_params_eq_spec (seg : SegHdr) (hdr : FilterHdr) (h : Webp.Spec.VP8.FrameHdr)
    (hr : FiltRel seg hdr h) (m : Webp.Spec.VP8.MBInfo) (prev : FInfo) :
    edgeParams (strength seg hdr m.segment (decide (m.ymode = Webp.Spec.VP8.B_PRED)) prev) =
      if (Webp.Spec.VP8.filterParams h {} m).level = 0 then none
      else some ((Webp.Spec.VP8.filterParams h {} m).mbLimit, (Webp.Spec.VP8.filterParams h {} m).subLimit,
                 (Webp.Spec.VP8.filterParams h {} m).interior, (Webp.Spec.VP8.filterParams h {} m).hevThreshold) :=
  params_eq seg hdr h hr m prev

open Webp.Proofs.C04RefineFilter Webp.Impl.VP8DecFilter in
example : FiltRel { useSegment := false, absoluteDelta := false, filterStrength := fun _ => 0 }
    { level := 20, sharpness := 3, useLFDelta := false, refLFDelta0 := 0, modeLFDelta0 := 0 }
    { version := 0, showFrame := true, firstPartSize := 0, width := 16, height := 16, xScale := 0, yScale := 0,
      filter := { level := 20, sharpness := 3 } } :=
  ⟨rfl, by decide, rfl, by decide, rfl, rfl, rfl, rfl, rfl, fun s => (zeros_getD s).symm⟩

open Webp.Impl.VP8DecFilter in
/-- **The sub-block-edge rule.**  `decodeMB` filters the inner edges of a macroblock iff it is `B_PRED`
    or "has coefficients"; IF Go's test (`NonZeroY | NonZeroUV ≠ 0`, the 2-bit codes: BY VALUE for blocks
    with at most one token position) coincides with the specification's ("some block has a token before
    its end-of-block") this is `Spec.VP8.filterInner`.  The hypothesis is NOT always true: see the
    report (an I16 macroblock whose Y2 block is sixteen `DCT_0` tokens) — there Go follows libwebp. -/
theorem loopfilter_inner_eq_spec_of (seg : SegHdr) (hdr : FilterHdr) (m : Webp.Spec.VP8.MBInfo) (prev : FInfo)
    (useSkipProba skipFlag : Bool) (nonZeroY nonZeroUV : Nat)
    (hnz : filterSkip useSkipProba skipFlag nonZeroY nonZeroUV = decide (m.coded = 0)) :
    (mbFInfo seg hdr m.segment (decide (m.ymode = Webp.Spec.VP8.B_PRED))
      (filterSkip useSkipProba skipFlag nonZeroY nonZeroUV) prev).fInner = Webp.Spec.VP8.filterInner m := by
  have e : (mbFInfo seg hdr m.segment (decide (m.ymode = Webp.Spec.VP8.B_PRED))
      (filterSkip useSkipProba skipFlag nonZeroY nonZeroUV) prev).fInner =
      (decide (m.ymode = Webp.Spec.VP8.B_PRED) || !(filterSkip useSkipProba skipFlag nonZeroY nonZeroUV)) := by
    unfold mbFInfo strength
    simp only
    split_ifs <;> rfl
  rw [e, hnz]
  unfold Webp.Spec.VP8.filterInner
  by_cases h1 : m.ymode = Webp.Spec.VP8.B_PRED <;> by_cases h2 : m.coded = 0 <;> simp [h1, h2]

open Webp.Impl.VP8DecFilter in
example : filterSkip false false 0 0 = decide (({} : Webp.Spec.VP8.MBInfo).coded = 0) := by decide

#print axioms reader_eq_spec
#print axioms reader_eq_spec_of_valid
#print axioms reader_eof_eq_over
#print axioms partition_readers_in_step
#print axioms decision_eq_spec
#print axioms getValue_eq_readLiteral
#print axioms getSignedValue_eq_readSigned
#print axioms getSigned_is_getBit
#print axioms parse_tree_transfer
#print axioms treeFree_of_go_ok
#print axioms treeFree_of_spec_ok
#print axioms segment_id_eq_spec
#print axioms ymode_eq_spec
#print axioms uvmode_eq_spec
#print axioms bmode_eq_spec
#print axioms tokens_eq_spec
#print axioms dequant_eq_spec
#print axioms loopfilter_params_eq_spec
#print axioms loopfilter_inner_eq_spec_of

end Webp.Props.C04Refine
