import Generated.Funcs
import Webp.Proofs.FuncsLoops
import Webp.Proofs.FuncsListOps
/-
  C02 (and C07 C16 C19) — regenerated obligations for the alpha-detection scans
  (`dsp.HasAlpha8b`, `dsp.HasAlpha32b`, `lossless.argbHasAlpha`), translated from the Go AST on this
  run (loops with an early `return true`): the result is `true` exactly when one of the scanned
  samples is not 0xff; no panic when the slice is long enough.
-/
namespace Webp.Props.C02Funcs
open Webp.Go Webp.Go.IntSem Webp.Proofs.FuncsBridge Webp.Proofs.FuncsListOps Webp.Proofs.FuncsLoops

theorem tie_HasAlpha8b (src : List Int) (n : Nat) (h : n ≤ src.length) :
    Generated.Funcs.HasAlpha8b src n = .ok ((List.range n).any fun i => decide (src.getD i 0 ≠ 255)) := by
  unfold Generated.Funcs.HasAlpha8b
  apply scan_loop
  intro k hk
  have : (0 : Int) + 1 * (k : Int) = (k : Int) := by omega
  rw [this, idxI_nat' src k (by omega), ok_bind]
  try simp only []
  split <;> rfl

theorem tie_HasAlpha32b (src : List Int) (n : Nat) (h : n = 0 ∨ 4 * (n - 1) < src.length) :
    Generated.Funcs.HasAlpha32b src n = .ok ((List.range n).any fun i => decide (src.getD (4 * i) 0 ≠ 255)) := by
  unfold Generated.Funcs.HasAlpha32b
  apply scan_loop
  intro k hk
  have : ((0 : Int) + 1 * (k : Int)) * 4 = ((4 * k : Nat) : Int) := by omega
  rw [this, idxI_nat' src (4 * k) (by omega), ok_bind]
  try simp only []
  split <;> rfl

theorem tie_argbHasAlpha (argb : List Int) :
    Generated.Funcs.argbHasAlpha argb
      = .ok ((List.range argb.length).any fun i => decide (shr (argb.getD i 0) 24 ≠ 255)) := by
  unfold Generated.Funcs.argbHasAlpha lenI
  apply scan_loop
  intro k hk
  have : (0 : Int) + 1 * (k : Int) = (k : Int) := by omega
  rw [this, idxI_nat' argb k hk, ok_bind]
  try simp only []
  split <;> rfl


/-- the facts in `∃` form -/
theorem HasAlpha8b_iff (src : List Int) (n : Nat) (h : n ≤ src.length) :
    ∃ b, Generated.Funcs.HasAlpha8b src n = .ok b ∧ (b = true ↔ ∃ i, i < n ∧ src.getD i 0 ≠ 255) := by
  refine ⟨_, tie_HasAlpha8b src n h, ?_⟩
  simp [List.any_eq_true]

theorem argbHasAlpha_iff (argb : List Int) :
    ∃ b, Generated.Funcs.argbHasAlpha argb = .ok b ∧
      (b = true ↔ ∃ i, i < argb.length ∧ shr (argb.getD i 0) 24 ≠ 255) := by
  refine ⟨_, tie_argbHasAlpha argb, ?_⟩
  simp [List.any_eq_true]

example : Generated.Funcs.HasAlpha8b [255, 255, 7, 255] 4 = .ok true := by decide
example : Generated.Funcs.HasAlpha8b [255, 255, 7, 255] 2 = .ok false := by decide
example : Generated.Funcs.argbHasAlpha [0xff000000, 0x7f112233] = .ok true := by decide

end Webp.Props.C02Funcs
