import Generated.Sites
import Webp.Impl.GomaxprocsSites
/-
  C12 — regenerated obligation: the uses of runtime.GOMAXPROCS found in /repo on this run are
  exactly the audited ones (see Webp/Impl/GomaxprocsSites.lean for the audit).
-/
namespace Webp.Props.C12Sites

theorem sites_classified : Generated.Sites.gomaxprocs = Webp.Impl.GomaxprocsSites.audited := rfl

/-- non-vacuity: eleven functions read GOMAXPROCS -/
example : Generated.Sites.gomaxprocs.length = 11 := by decide

end Webp.Props.C12Sites
