import Webp.Proofs.C01FullCexBits
import Webp.Proofs.C01FullCheck
/-
  Property C01 — why `MainValid.entropy` demands `groups.length = max(symbols) + 1`
  (the hypothesis forced by the proof of `stream_roundtrip_meta`, violated by the real encoder before
  /repo a7369f2: defect D15, "unused trailing histogram").

  `bad` is an 8×1 plan that satisfies EVERYTHING ELSE: valid codes, tokens expressible with the
  histogram at their position, tokens that stand for the source picture — but it writes three groups
  while the highest symbol of its histogram image is 1.  The decoder (`readMetaPrefix`:
  `max + 1 = 2` groups) starts the pixel data at the third group's codes and returns a DIFFERENT
  picture, without any error: exactly what `webp.Encode` / `webp.Decode` did for the 96×96 picture of
  corpus/C01.
-/
namespace Webp.Props.C01FullCex
open Webp.Go
open Webp.Spec.VP8L
open Webp.Impl.VP8LEntropy
open Webp.Proofs.VP8LEntropyStream (VecValid CallsOK restBits_bytes)
open Webp.Proofs.VP8LEntropyStream.Examples (one one_valid zero_valid)
open Webp.Props.C01Full.Example (two01 two01_valid entropyPlan entropy_valid)
open Webp.Proofs.C01FullMeta (GroupValid lensAt)
open Webp.Proofs.C01FullStream (MainValid StreamValidMeta planPixelsMain encodeStreamMeta_ok)
open Webp.Proofs.C01FullAPI (PlanEncodes)

theorem groupAB_valid (s1 s2 s3 : Nat) (h1 : s1 < 256) (h2 : s2 < 256) (h3 : s3 < 256) :
    GroupValid 0 { lens5 := [two01, one 256 s1, one 256 s2, one 256 s3, Array.replicate 40 0],
                   cl5 := [#[], #[], #[], #[], #[]] } := by
  refine ⟨rfl, rfl, fun i hi => ?_⟩
  have : i = 0 ∨ i = 1 ∨ i = 2 ∨ i = 3 ∨ i = 4 := by omega
  have hg : greenAlphabetSize 0 = 280 := by decide
  rcases this with rfl | rfl | rfl | rfl | rfl <;>
    simp only [List.getD_cons_zero, List.getD_cons_succ, Webp.Proofs.VP8LEntropyStream.alphabetSize, hg,
      numDistanceCodes]
  · exact two01_valid
  · exact one_valid 256 s1 h1 h1 _
  · exact one_valid 256 s2 h2 h2 _
  · exact one_valid 256 s3 h3 h3 _
  · exact zero_valid 40 _

theorem groupA_valid : GroupValid 0 groupA := groupAB_valid 0x10 0x30 0xff (by omega) (by omega) (by omega)
theorem groupB_valid : GroupValid 0 groupB := groupAB_valid 0x40 0x60 0x80 (by omega) (by omega) (by omega)

theorem groupC_valid : GroupValid 0 groupC := by
  refine ⟨rfl, rfl, fun i hi => ?_⟩
  have : i = 0 ∨ i = 1 ∨ i = 2 ∨ i = 3 ∨ i = 4 := by omega
  have hg : greenAlphabetSize 0 = 280 := by decide
  rcases this with rfl | rfl | rfl | rfl | rfl <;>
    simp only [groupC, List.getD_cons_zero, List.getD_cons_succ, Webp.Proofs.VP8LEntropyStream.alphabetSize, hg,
      numDistanceCodes] <;> exact zero_valid _ _

/-- the plan with two groups (and the picture `wrong`) is valid -/
theorem good_main_valid : MainValid 0 good.main where
  width_pos := by decide
  cache := Or.inl rfl
  groups_pos := by decide
  groups := by
    intro g hg
    simp only [good, mainOf, List.mem_cons, List.not_mem_nil, or_false] at hg
    rcases hg with rfl | rfl
    · exact groupA_valid
    · exact groupB_valid
  entropy := fun _ => ⟨by decide, by decide, by decide, by decide, entropy_valid, by decide +kernel, by decide +kernel⟩
  tokens := by
    show Webp.Proofs.C01FullMeta.TokensValidFrom good.main 0 _
    simp only [Webp.Proofs.VP8LEntropyStream.planTokens, MainPlan.asImage, good, mainOf, wrongL, List.map_cons,
      List.map_nil, Webp.Proofs.C01FullMeta.TokensValidFrom]
    decide +kernel
  exec := by decide +kernel

theorem good_valid : StreamValidMeta good :=
  { width := by decide, height := by decide, kinds := List.Pairwise.nil, xfs := trivial,
    main_width := rfl, main_height := rfl, main := good_main_valid }

theorem good_encodes_wrong : PlanEncodes good wrong :=
  { size := by decide
    main := by
      show planPixelsMain 0 good.main = wrong
      decide +kernel
    chain := trivial }

/-! ### every call `bad` makes is well formed (needed to speak about its bytes) -/

theorem CallsOK.left {a b : List Call} (h : CallsOK (a ++ b)) : CallsOK a :=
  fun c hc => h c (List.mem_append_left _ hc)

theorem bad_h15 (pos i : Nat) : ∀ x ∈ lensAt bad.main pos i, x ≤ 15 := by
  have hk := histoIdx_le (srcL.map PixOrCopy.literal) [groupA, groupB, groupC] pos
  have hmem : bad.main.groups.getD (bad.main.histoIdxAt pos) default ∈ [groupA, groupB, groupC] := by
    show [groupA, groupB, groupC].getD ((mainOf (srcL.map PixOrCopy.literal) [groupA, groupB, groupC]).histoIdxAt pos)
      default ∈ _
    generalize (mainOf (srcL.map PixOrCopy.literal) [groupA, groupB, groupC]).histoIdxAt pos = k at hk
    have : k = 0 ∨ k = 1 := by omega
    rcases this with rfl | rfl <;> simp
  have hv : GroupValid 0 (bad.main.groups.getD (bad.main.histoIdxAt pos) default) := by
    simp only [List.mem_cons, List.not_mem_nil, or_false] at hmem
    rcases hmem with h | h | h <;> rw [h]
    · exact groupA_valid
    · exact groupB_valid
    · exact groupC_valid
  unfold lensAt Webp.Proofs.C01FullMeta.GroupPlan.l
  by_cases hi : i < 5
  · exact (hv.vecs i hi).2.1
  · intro x hx
    rw [List.getD_eq_getElem?_getD, List.getElem?_eq_none (by rw [hv.lens5_len]; omega)] at hx
    simp at hx

theorem bad_tokens : Webp.Proofs.C01FullMeta.TokensValidFrom bad.main 0
    ((srcL.map PixOrCopy.literal).map Webp.Proofs.VP8LEntropyTokens.refToken) := by
  simp only [srcL, List.map_cons, List.map_nil, Webp.Proofs.C01FullMeta.TokensValidFrom]
  decide +kernel

theorem bad_calls_ok : CallsOK (encodeStreamMeta bad) := by
  rw [bad_calls]
  have hpre : CallsOK pre := by
    have := encodeStreamMeta_ok good good_valid
    rw [good_calls] at this
    exact CallsOK.left this
  refine hpre.append (CallsOK.append ?_ ?_)
  · exact Webp.Proofs.C01FullStream.storeGroup_ok 0 (Or.inl rfl) groupC groupC_valid
  · have h := Webp.Proofs.C01FullMeta.storeImageDataLoop_ok bad.main (by decide) lens3 bad_h15
      (fun pos => by
        have := histoIdx_le (srcL.map PixOrCopy.literal) [groupA, groupB, groupC] pos
        show (mainOf (srcL.map PixOrCopy.literal) [groupA, groupB, groupC]).histoIdxAt pos < 3
        omega)
      _ 0 0 0 (by simp) (by decide) bad_tokens
    have e : sid bad = storeImageDataLoop bad.main.symbols (bad.main.groups.map groupTrees).toArray bad.main.width
        bad.main.histoBits (((srcL.map PixOrCopy.literal).map Webp.Proofs.VP8LEntropyTokens.refToken).map
          (Webp.Proofs.VP8LEntropyTokens.tokenRef' bad.main.width)) 0 0 := by
      unfold sid storeImageData
      rw [Webp.Proofs.C01FullStream.refs_as_tokens]
      rfl
    rw [e]
    exact h

/-- **unused_trailing_group_counterexample**: a plan with `groups.length = max(symbols) + 2` that is
    rejected by the certificate checker ONLY for that reason — its tokens do stand for the source
    (`planEncodes … = true`) — and whose bytes the specification decoder decodes, without error, to
    another picture. -/
theorem unused_trailing_group_counterexample :
    bad.main.groups.length = bad.main.symbols.foldl max 0 + 2 ∧
    Webp.Impl.PlanCheck.streamValid bad = false ∧
    Webp.Impl.PlanCheck.planEncodes bad source = true ∧
    decode (streamBytesMeta bad) = .ok { width := 8, height := 1, hasAlpha := true, pixels := wrong } ∧
    wrong ≠ source := by
  refine ⟨by decide, ?_, by decide +kernel, ?_, by decide⟩
  · -- the checker is sound, and `MainValid.entropy` would give 3 = 1 + 1
    cases h : Webp.Impl.PlanCheck.streamValid bad with
    | false => rfl
    | true =>
      have hv := Webp.Proofs.C01FullCheck.streamValid_sound bad h
      have := (hv.main.entropy (by decide)).2.2.2.2.2.2
      exact absurd this (by decide)
  · obtain ⟨pad, _, hb⟩ := restBits_bytes _ bad_calls_ok
    have hb' : restBits { data := streamBytesMeta bad } =
        callsBits (encodeStreamMeta good) ++ (surplus ++ List.replicate pad false) := by
      show restBits { data := ByteArray.mk (runCalls (encodeStreamMeta bad)).finish } = _
      rw [hb, bad_calls, good_calls, Webp.Proofs.VP8LEntropyCodeLengths.callsBits_append pre (storeGroup groupC ++ sid bad),
        Webp.Proofs.VP8LEntropyCodeLengths.callsBits_append pre (sid good), tail_bits]
      simp only [List.append_assoc]
    exact Webp.Proofs.C07Plans.decode_of_bits good good_valid wrong good_encodes_wrong _ _ hb'

end Webp.Props.C01FullCex
