import Webp.Proofs.C04RefineResid9
/-
  Property C04, refinement theorems Impl ↔ Spec, part 12 — residuals of PARSED macroblocks: the packed-word simulation.

  Go keeps the "block has coefficients" contexts in words (`tnz`: bit 0 = flag of the next column, new flags enter at
  bit 7 / bit 3 and the word is shifted by 4 / 2 after the row; `lnz`: the same queue over the rows, entering at bit 7 /
  bit 5); the specification stores flags into `above[9·mbX + k]` / `left[k]` (`rStep`).  `QInv` states the word is that
  queue over the array; `StRel` relates Go's per-block coefficient arrays to the specification's 400-entry array, the
  luma DC slots of a macroblock with a Y2 block holding the inverse-WHT outputs on the Go side (`ov`).

  * `block_step_eq_spec`: one `getCoeffs` call on block `b` of the Go store = `rStep` (same end-of-block position, same
    decoder, stores related again) — also when the DC slot is overridden (`readBlock` from `first ≥ 1` commutes with it).
  * `row_eq_spec`: one row of `n` blocks (`decYRow` / `decUVRow` = `gRow`) = `yRow` / `uvRow` (= `sRow`).
  * `luma_rows_eq_spec` / `chroma_rows_eq_spec`: `decYRows` over the sixteen luma blocks = `yAll`'s fold, `decUVRows`
    over a chroma plane = `uvPlane`'s fold, on the reference decoder, for every probability table, type, first position,
    context words and decoder state; with what the plane leaves alone (`PlaneFrame`).
  Not yet assembled into `mb_residuals_eq_spec` (Y2 + WHT placement, the final `|`/`<<` packing into `NzRel`, NonZero codes).
-/
namespace Webp.Props.C04Refine12
open Webp.Spec.VP8
open Webp.Impl.VP8SyntaxBytes (P runR rd)
open Webp.Impl.VP8SyntaxBytes.T (YSt YSt2 UVSt)
open Webp.Impl.VP8Recon (Slot Coeffs QuantMatrix)
open Webp.Proofs.C04RefineOps Webp.Proofs.C04RefineTokens Webp.Proofs.C04RefineResid

theorem block_step_eq_spec (prob : Slot → UInt8) (probs : Array Nat) (t first : Nat) (dq0 dq1 : Int) (hc : CoefOK prob probs t)
    (hfix : FixedOK prob) (hf : first ≤ 16) (N : Nat) (hN : N ≤ 25) (ai li b : Nat) (hb : b < N) (s : RSt) (ov : Nat → Option Int)
    (store : Nat → Coeffs) (hst : StRel N ov store s.1) (hov : (ov b).isSome = true → 1 ≤ first)
    (c : Nat) (hcv : c = s.2.1.getD ai 0 + s.2.2.1.getD li 0) (hc2 : c ≤ 2) :
    ∃ out', runD prob (Webp.Impl.VP8SyntaxBytes.T.getCoeffs t c dq0 dq1 first (store b)) s.2.2.2.1 =
        some (((readBlock probs t first c dq0 dq1 (b * 16) s.1 s.2.2.2.1).1, out'),
              (rStep probs t first dq0 dq1 ai li b s).2.2.2.1) ∧
      StRel N ov (fun b' => if b' = b then out' else store b') (rStep probs t first dq0 dq1 ai li b s).1 :=
  blk_sim prob probs t first dq0 dq1 hc hfix hf N hN ai li b hb s ov store hst hov c hcv hc2

theorem luma_rows_eq_spec (prob : Slot → UInt8) (probs : Array Nat) (t first : Nat) (q : DequantFactors) (qm : QuantMatrix)
    (hq1 : qm.y1dc = q.y1dc) (hq2 : qm.y1ac = q.y1ac) (hc : CoefOK prob probs t) (hfix : FixedOK prob) (hf : first ≤ 16)
    (mbX : Nat) (ov : Nat → Option Int) (hov : ∀ b, b < 16 → (ov b).isSome = true → 1 ≤ first)
    (st : YSt2) (s : RSt) (h : RowsInv (9 * mbX) 4 7 0 4 7 0 st.tnz st.lnz st.store ov s) :
    ∃ st', runD prob (Webp.Impl.VP8SyntaxBytes.T.decYRows t first qm [0, 1, 2, 3] st) s.2.2.2.1 =
        some (st', (yFold probs q mbX t first [0, 1, 2, 3] s).2.2.2.1) ∧
      RowsInv (9 * mbX) 4 7 0 4 7 4 st'.tnz st'.lnz st'.store ov (yFold probs q mbX t first [0, 1, 2, 3] s) ∧
      PlaneFrame (9 * mbX) 4 0 4 s (yFold probs q mbX t first [0, 1, 2, 3] s) :=
  by
  have := yrows_sim prob probs t first q qm hq1 hq2 hc hfix hf mbX ov hov 4 0 st s rfl h
  rw [show List.range' 0 4 = [0, 1, 2, 3] from rfl] at this
  exact this

theorem chroma_rows_eq_spec (prob : Slot → UInt8) (probs : Array Nat) (q : DequantFactors) (qm : QuantMatrix)
    (hq1 : qm.uvdc = q.uvdc) (hq2 : qm.uvac = q.uvac) (hc : CoefOK prob probs 2) (hfix : FixedOK prob)
    (mbX plane : Nat) (hpl : plane < 2) (ov : Nat → Option Int) (hov : ∀ b, 16 ≤ b → ov b = none)
    (st : UVSt) (s : RSt) (h : RowsInv (9 * mbX + 4 + 2 * plane) 2 3 (4 + 2 * plane) 2 5 0 st.tnz st.lnz st.store ov s) :
    ∃ st', runD prob (Webp.Impl.VP8SyntaxBytes.T.decUVRows qm (16 + 4 * plane) [0, 1] st) s.2.2.2.1 =
        some (st', (uvFold probs q mbX plane [0, 1] s).2.2.2.1) ∧
      RowsInv (9 * mbX + 4 + 2 * plane) 2 3 (4 + 2 * plane) 2 5 2 st'.tnz st'.lnz st'.store ov (uvFold probs q mbX plane [0, 1] s) ∧
      PlaneFrame (9 * mbX + 4 + 2 * plane) 2 (4 + 2 * plane) 2 s (uvFold probs q mbX plane [0, 1] s) :=
  by
  have := uvrows_sim prob probs q qm hq1 hq2 hc hfix mbX plane hpl ov hov 2 0 st s rfl h
  rw [show List.range' 0 2 = [0, 1] from rfl] at this
  exact this

/-- the queue invariant is satisfiable: an all-zero word over all-zero flags -/
example : QInv (Array.replicate 9 0) 0 4 7 0 0 :=
  ⟨fun k hk => by
      show (0 >>> k) % 2 = (Array.replicate 9 0).getD (0 + 0 + k) 0
      rw [Nat.zero_shiftRight, Array.getD_eq_getD_getElem?, Array.getElem?_eq_getElem (by simp; omega)]; simp,
   fun j hj => by omega, by decide⟩

#print axioms block_step_eq_spec
#print axioms luma_rows_eq_spec
#print axioms chroma_rows_eq_spec

end Webp.Props.C04Refine12
