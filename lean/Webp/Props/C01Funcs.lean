import Generated.Funcs
import Webp.Impl.LTransform
import Webp.Proofs.FuncsBridge
import Webp.Proofs.FuncsLossless
/-
  C01 — regenerated obligations: the pixel helpers of the VP8L *encoder*
  (internal/lossless/encode_predictor.go) translated from the Go AST on this run are the functions
  of `Webp.Impl.LTransform` that the C01 round-trip theorems are about (the decoder twins are tied
  in `Webp/Props/C03Funcs.lean`).
-/
namespace Webp.Props.C01Funcs
open Webp.Go Webp.Go.IntSem Webp.Proofs.FuncsBridge Webp.Proofs.FuncsLossless
open Webp.Impl.LTransform (chanAt)

/-- encode_predictor.go `avg2` = `Impl.LTransform.average2` -/
theorem tie_avg2 (a b : UInt32) :
    Generated.Funcs.avg2 a.toNat b.toNat = ((Webp.Impl.LTransform.average2 a b).toNat : Int) := by
  simp only [Generated.Funcs.avg2, Webp.Impl.LTransform.average2, band_nat_lit, band_nat, bxor_nat, shr_nat_lit,
    ← Int.natCast_add, wrapU_nat, UInt32.toNat_add, UInt32.toNat_and, UInt32.toNat_xor, UInt32.toNat_ofNat,
    UInt32.toNat_shiftRight]

/-- encode_predictor.go `selectPred` = `Impl.LTransform.selectPred` -/
theorem tie_selectPred (l t tl : UInt32) :
    Generated.Funcs.selectPred l.toNat t.toNat tl.toNat = ((Webp.Impl.LTransform.selectPred l t tl).toNat : Int) := by
  have := chanAt_range l 0; have := chanAt_range l 8; have := chanAt_range l 16; have := chanAt_range l 24
  have := chanAt_range t 0; have := chanAt_range t 8; have := chanAt_range t 16; have := chanAt_range t 24
  have := chanAt_range tl 0; have := chanAt_range tl 8; have := chanAt_range tl 16; have := chanAt_range tl 24
  simp only [Generated.Funcs.selectPred, Webp.Impl.LTransform.selectPred, chan_0, chan_24, chan_8, chan_16]
  generalize chanAt l 0 = l0 at *
  generalize chanAt l 8 = l1 at *
  generalize chanAt l 16 = l2 at *
  generalize chanAt l 24 = l3 at *
  generalize chanAt t 0 = t0 at *
  generalize chanAt t 8 = t1 at *
  generalize chanAt t 16 = t2 at *
  generalize chanAt t 24 = t3 at *
  generalize chanAt tl 0 = x0 at *
  generalize chanAt tl 8 = x1 at *
  generalize chanAt tl 16 = x2 at *
  generalize chanAt tl 24 = x3 at *
  simp (disch := omega) only [wrapS32_of_range]
  simp only [decide_eq_true_eq]
  exact (apply_ite (fun u : UInt32 => (u.toNat : Int)) _ _ _).symm

/-- encode_predictor.go `clampByte` = `Impl.LTransform.clampByte` (every `int32`) -/
theorem tie_clampByte (v : Int) :
    Generated.Funcs.clampByte v = (((Webp.Impl.LTransform.clampByte v).toUInt32).toNat : Int) := by
  unfold Generated.Funcs.clampByte Webp.Impl.LTransform.clampByte
  by_cases h : v < 0
  · simp [h]
  · by_cases h2 : v > 255
    · simp [h, h2]
    · simp only [h, h2, decide_false, if_false, Bool.false_eq_true]
      rw [wrapU8_of_range _ (by omega) (by omega)]
      simp only [UInt8.toNat_toUInt32, UInt8.toNat_ofNat']
      omega

/-- encode_predictor.go `clampAddSubFull` = `Impl.LTransform.clampAddSubFull` -/
theorem tie_clampAddSubFull (a b c : UInt32) :
    Generated.Funcs.clampAddSubFull a.toNat b.toNat c.toNat = ((Webp.Impl.LTransform.clampAddSubFull a b c).toNat : Int) := by
  have := chanAt_range a 0; have := chanAt_range a 8; have := chanAt_range a 16; have := chanAt_range a 24
  have := chanAt_range b 0; have := chanAt_range b 8; have := chanAt_range b 16; have := chanAt_range b 24
  have := chanAt_range c 0; have := chanAt_range c 8; have := chanAt_range c 16; have := chanAt_range c 24
  simp only [Generated.Funcs.clampAddSubFull, Webp.Impl.LTransform.clampAddSubFull, forRange_0_32_8, List.foldl,
    chanL_0, chan_8, chan_16, chanL_24]
  generalize chanAt a 0 = a0 at *
  generalize chanAt a 8 = a1 at *
  generalize chanAt a 16 = a2 at *
  generalize chanAt a 24 = a3 at *
  generalize chanAt b 0 = b0 at *
  generalize chanAt b 8 = b1 at *
  generalize chanAt b 16 = b2 at *
  generalize chanAt b 24 = b3 at *
  generalize chanAt c 0 = c0 at *
  generalize chanAt c 8 = c1 at *
  generalize chanAt c 16 = c2 at *
  generalize chanAt c 24 = c3 at *
  simp (disch := omega) only [wrapS32_of_range]
  simp only [tie_clampByte]
  simp only [shl_nat_lit, wrapU_nat, bor_nat, lit_bor_nat, UInt32.toNat_or, UInt32.toNat_shiftLeft, UInt32.toNat_ofNat,
    Nat.reducePow, Nat.reduceMod]

/-- encode_predictor.go `clampAddSubHalf` = `Impl.LTransform.clampAddSubHalf` (Go `/` truncates) -/
theorem tie_clampAddSubHalf (a c : UInt32) :
    Generated.Funcs.clampAddSubHalf a.toNat c.toNat = ((Webp.Impl.LTransform.clampAddSubHalf a c).toNat : Int) := by
  have := chanAt_range a 0; have := chanAt_range a 8; have := chanAt_range a 16; have := chanAt_range a 24
  have := chanAt_range c 0; have := chanAt_range c 8; have := chanAt_range c 16; have := chanAt_range c 24
  simp only [Generated.Funcs.clampAddSubHalf, Webp.Impl.LTransform.clampAddSubHalf, forRange_0_32_8, List.foldl,
    chanL_0, chan_8, chan_16, chanL_24]
  generalize chanAt a 0 = a0 at *
  generalize chanAt a 8 = a1 at *
  generalize chanAt a 16 = a2 at *
  generalize chanAt a 24 = a3 at *
  generalize chanAt c 0 = c0 at *
  generalize chanAt c 8 = c1 at *
  generalize chanAt c 16 = c2 at *
  generalize chanAt c 24 = c3 at *
  have := tdiv2_range (a0 - c0) (by omega) (by omega)
  have := tdiv2_range (a1 - c1) (by omega) (by omega)
  have := tdiv2_range (a2 - c2) (by omega) (by omega)
  have := tdiv2_range (a3 - c3) (by omega) (by omega)
  simp (disch := omega) only [wrapS32_of_range]
  simp only [tie_clampByte]
  simp only [shl_nat_lit, wrapU_nat, bor_nat, lit_bor_nat, UInt32.toNat_or, UInt32.toNat_shiftLeft, UInt32.toNat_ofNat,
    Nat.reducePow, Nat.reduceMod]

example : Generated.Funcs.clampAddSubHalf 0x12345678 0xfedcba98 = 9320 := by decide

end Webp.Props.C01Funcs
