import Generated.Funcs
import Webp.Impl.LTransform
import Webp.Proofs.FuncsBridge
import Webp.Proofs.FuncsLossless
import Webp.Proofs.FuncsLossless2
/-
  C01 — regenerated obligations: the pixel helpers of the VP8L *encoder*
  (internal/lossless/encode_predictor.go) translated from the Go AST on this run are the functions
  of `Webp.Impl.LTransform` that the C01 round-trip theorems are about (the decoder twins are tied
  in `Webp/Props/C03Funcs.lean`).
-/
namespace Webp.Props.C01Funcs
open Webp.Go Webp.Go.IntSem Webp.Proofs.FuncsBridge Webp.Proofs.FuncsLossless Webp.Proofs.FuncsLossless2
open Webp.Impl.LTransform (chanAt)
open Webp.Spec.LTransform (sext8 byteOfInt chR chG chB mk)

/-- encode_predictor.go `avg2` = `Impl.LTransform.average2` -/
theorem tie_avg2 (a b : UInt32) :
    Generated.Funcs.avg2 a.toNat b.toNat = ((Webp.Impl.LTransform.average2 a b).toNat : Int) := by
  simp only [Generated.Funcs.avg2, Webp.Impl.LTransform.average2, band_nat_lit, band_nat, bxor_nat, shr_nat_lit,
    ← Int.natCast_add, wrapU_nat, UInt32.toNat_add, UInt32.toNat_and, UInt32.toNat_xor, UInt32.toNat_ofNat,
    UInt32.toNat_shiftRight]

/-- encode_predictor.go `selectPred` = `Impl.LTransform.selectPred` -/
theorem tie_selectPred (l t tl : UInt32) :
    Generated.Funcs.selectPred l.toNat t.toNat tl.toNat = ((Webp.Impl.LTransform.selectPred l t tl).toNat : Int) := by
  have := chanAt_range l 0; have := chanAt_range l 8; have := chanAt_range l 16; have := chanAt_range l 24
  have := chanAt_range t 0; have := chanAt_range t 8; have := chanAt_range t 16; have := chanAt_range t 24
  have := chanAt_range tl 0; have := chanAt_range tl 8; have := chanAt_range tl 16; have := chanAt_range tl 24
  simp only [Generated.Funcs.selectPred, Webp.Impl.LTransform.selectPred, chan_0, chan_24, chan_8, chan_16]
  generalize chanAt l 0 = l0 at *
  generalize chanAt l 8 = l1 at *
  generalize chanAt l 16 = l2 at *
  generalize chanAt l 24 = l3 at *
  generalize chanAt t 0 = t0 at *
  generalize chanAt t 8 = t1 at *
  generalize chanAt t 16 = t2 at *
  generalize chanAt t 24 = t3 at *
  generalize chanAt tl 0 = x0 at *
  generalize chanAt tl 8 = x1 at *
  generalize chanAt tl 16 = x2 at *
  generalize chanAt tl 24 = x3 at *
  simp (disch := omega) only [wrapS32_of_range]
  simp only [decide_eq_true_eq]
  exact (apply_ite (fun u : UInt32 => (u.toNat : Int)) _ _ _).symm

/-- encode_predictor.go `clampByte` = `Impl.LTransform.clampByte` (every `int32`) -/
theorem tie_clampByte (v : Int) :
    Generated.Funcs.clampByte v = (((Webp.Impl.LTransform.clampByte v).toUInt32).toNat : Int) := by
  unfold Generated.Funcs.clampByte Webp.Impl.LTransform.clampByte
  by_cases h : v < 0
  · simp [h]
  · by_cases h2 : v > 255
    · simp [h, h2]
    · simp only [h, h2, decide_false, if_false, Bool.false_eq_true]
      rw [wrapU8_of_range _ (by omega) (by omega)]
      simp only [UInt8.toNat_toUInt32, UInt8.toNat_ofNat']
      omega

/-- encode_predictor.go `clampAddSubFull` = `Impl.LTransform.clampAddSubFull` -/
theorem tie_clampAddSubFull (a b c : UInt32) :
    Generated.Funcs.clampAddSubFull a.toNat b.toNat c.toNat = ((Webp.Impl.LTransform.clampAddSubFull a b c).toNat : Int) := by
  have := chanAt_range a 0; have := chanAt_range a 8; have := chanAt_range a 16; have := chanAt_range a 24
  have := chanAt_range b 0; have := chanAt_range b 8; have := chanAt_range b 16; have := chanAt_range b 24
  have := chanAt_range c 0; have := chanAt_range c 8; have := chanAt_range c 16; have := chanAt_range c 24
  simp only [Generated.Funcs.clampAddSubFull, Webp.Impl.LTransform.clampAddSubFull, forRange_0_32_8, List.foldl,
    chanL_0, chan_8, chan_16, chanL_24]
  generalize chanAt a 0 = a0 at *
  generalize chanAt a 8 = a1 at *
  generalize chanAt a 16 = a2 at *
  generalize chanAt a 24 = a3 at *
  generalize chanAt b 0 = b0 at *
  generalize chanAt b 8 = b1 at *
  generalize chanAt b 16 = b2 at *
  generalize chanAt b 24 = b3 at *
  generalize chanAt c 0 = c0 at *
  generalize chanAt c 8 = c1 at *
  generalize chanAt c 16 = c2 at *
  generalize chanAt c 24 = c3 at *
  simp (disch := omega) only [wrapS32_of_range]
  simp only [tie_clampByte]
  simp only [shl_nat_lit, wrapU_nat, bor_nat, lit_bor_nat, UInt32.toNat_or, UInt32.toNat_shiftLeft, UInt32.toNat_ofNat,
    Nat.reducePow, Nat.reduceMod]

/-- encode_predictor.go `clampAddSubHalf` = `Impl.LTransform.clampAddSubHalf` (Go `/` truncates) -/
theorem tie_clampAddSubHalf (a c : UInt32) :
    Generated.Funcs.clampAddSubHalf a.toNat c.toNat = ((Webp.Impl.LTransform.clampAddSubHalf a c).toNat : Int) := by
  have := chanAt_range a 0; have := chanAt_range a 8; have := chanAt_range a 16; have := chanAt_range a 24
  have := chanAt_range c 0; have := chanAt_range c 8; have := chanAt_range c 16; have := chanAt_range c 24
  simp only [Generated.Funcs.clampAddSubHalf, Webp.Impl.LTransform.clampAddSubHalf, forRange_0_32_8, List.foldl,
    chanL_0, chan_8, chan_16, chanL_24]
  generalize chanAt a 0 = a0 at *
  generalize chanAt a 8 = a1 at *
  generalize chanAt a 16 = a2 at *
  generalize chanAt a 24 = a3 at *
  generalize chanAt c 0 = c0 at *
  generalize chanAt c 8 = c1 at *
  generalize chanAt c 16 = c2 at *
  generalize chanAt c 24 = c3 at *
  have := tdiv2_range (a0 - c0) (by omega) (by omega)
  have := tdiv2_range (a1 - c1) (by omega) (by omega)
  have := tdiv2_range (a2 - c2) (by omega) (by omega)
  have := tdiv2_range (a3 - c3) (by omega) (by omega)
  simp (disch := omega) only [wrapS32_of_range]
  simp only [tie_clampByte]
  simp only [shl_nat_lit, wrapU_nat, bor_nat, lit_bor_nat, UInt32.toNat_or, UInt32.toNat_shiftLeft, UInt32.toNat_ofNat,
    Nat.reducePow, Nat.reduceMod]

example : Generated.Funcs.clampAddSubHalf 0x12345678 0xfedcba98 = 9320 := by decide

/-! ## LZ77 prefix codes (constants.go) -/

/-- constants.go `bitsLog2Floor` (`for n > 1 { log++; n >>= 1 }`, loop fuel 64) terminates within
    the fuel, never panics and is `Impl.LTransform.bitsLog2Floor` = `Nat.log2` on every
    non-negative Go `int` -/
theorem tie_bitsLog2Floor (n : Nat) (h : n < 2 ^ 63) :
    Generated.Funcs.bitsLog2Floor n = .ok ((Webp.Impl.LTransform.bitsLog2Floor n : Nat) : Int) := by
  have hl : Nat.log2 n ≤ 64 := by
    by_cases h0 : n = 0
    · subst h0; decide
    · have := (Nat.log2_lt h0).2 h; omega
  obtain ⟨m, hm⟩ := whileFuel_log2 64 0 n hl
  unfold Generated.Funcs.bitsLog2Floor Webp.Impl.LTransform.bitsLog2Floor
  simp only [hm, Res.bind]
  simp

/-- … and returns 0 for `n ≤ 1` (in particular every negative `int`) -/
theorem bitsLog2Floor_nonpos (n : Int) (h : n ≤ 1) : Generated.Funcs.bitsLog2Floor n = .ok 0 := by
  have : ¬ (n > 1) := by omega
  simp [Generated.Funcs.bitsLog2Floor, whileFuel, this, Res.bind]

/-- constants.go `PrefixEncodeNoLUT` never panics on a 1-based value `1 ≤ d < 2^63` and is
    `Impl.LTransform.prefixEncode` (symbol, number of extra bits, extra-bits value) -/
theorem tie_PrefixEncodeNoLUT (d : Nat) (h1 : 1 ≤ d) (h : d < 2 ^ 63) :
    Generated.Funcs.PrefixEncodeNoLUT d = .ok (((Webp.Impl.LTransform.prefixEncode d).1 : Int),
      ((Webp.Impl.LTransform.prefixEncode d).2.1 : Int), ((Webp.Impl.LTransform.prefixEncode d).2.2 : Int)) := by
  unfold Generated.Funcs.PrefixEncodeNoLUT Webp.Impl.LTransform.prefixEncode
  have e : (d : Int) - 1 = ((d - 1 : Nat) : Int) := by omega
  simp only [e]
  generalize hk : d - 1 = k
  have hk63 : k < 2 ^ 63 := by omega
  by_cases h2 : k < 2
  · have : ((k : Int) < 2) := by omega
    simp [h2, this]
  · have : ¬ ((k : Int) < 2) := by omega
    have hp := log2_pos k (by omega)
    simp only [h2, this, decide_false, Bool.false_eq_true, if_false, tie_bitsLog2Floor k hk63, ok_bind,
      Webp.Impl.LTransform.bitsLog2Floor]
    generalize Nat.log2 k = L at *
    have e2 : (L : Int) - 1 = ((L - 1 : Nat) : Int) := by omega
    have e1 : ((1 : Nat) : Int) = 1 := rfl
    simp only [e2, chkShift_nat, ok_bind, shr_nat, band_nat_lit, shl_lit_nat]
    have hs : 1 ≤ 1 <<< (L - 1) := by rw [Nat.shiftLeft_eq]; simpa using Nat.one_le_two_pow
    have e3 : (((1 <<< (L - 1) : Nat) : Int) - (1 : Int)) = ((1 <<< (L - 1) - 1 : Nat) : Int) := by omega
    rw [e3, band_nat]
    simp

/-- constants.go `PrefixEncodeBitsNoLUT` = the first two components of `prefixEncode` -/
theorem tie_PrefixEncodeBitsNoLUT (d : Nat) (h1 : 1 ≤ d) (h : d < 2 ^ 63) :
    Generated.Funcs.PrefixEncodeBitsNoLUT d = .ok (((Webp.Impl.LTransform.prefixEncode d).1 : Int),
      ((Webp.Impl.LTransform.prefixEncode d).2.1 : Int)) := by
  unfold Generated.Funcs.PrefixEncodeBitsNoLUT Webp.Impl.LTransform.prefixEncode
  have e : (d : Int) - 1 = ((d - 1 : Nat) : Int) := by omega
  simp only [e]
  generalize hk : d - 1 = k
  have hk63 : k < 2 ^ 63 := by omega
  by_cases h2 : k < 2
  · have : ((k : Int) < 2) := by omega
    simp [h2, this]
  · have : ¬ ((k : Int) < 2) := by omega
    have hp := log2_pos k (by omega)
    simp only [h2, this, decide_false, Bool.false_eq_true, if_false, tie_bitsLog2Floor k hk63, ok_bind,
      Webp.Impl.LTransform.bitsLog2Floor]
    generalize Nat.log2 k = L at *
    have e2 : (L : Int) - 1 = ((L - 1 : Nat) : Int) := by omega
    have e1 : ((1 : Nat) : Int) = 1 := rfl
    simp only [e2, chkShift_nat, ok_bind, shr_nat, band_nat_lit]
    simp

/-- outside the contract (`distance ≤ 0`, never passed by the encoder): `distance - 1 < 2` returns
    the negative "symbol" `distance - 1`; the model (on `Nat`) is only claimed for `1 ≤ d` -/
theorem PrefixEncodeNoLUT_nonpos (d : Int) (h : d ≤ 0) :
    Generated.Funcs.PrefixEncodeNoLUT d = .ok (d - 1, 0, 0) := by
  have : d - 1 < 2 := by omega
  simp [Generated.Funcs.PrefixEncodeNoLUT, this]

/-! ## pixel helpers (encode_predictor.go) -/

/-- encode_predictor.go `subPixels` = `Impl.LTransform.subPixels` (`uint32` wrap-around subtraction) -/
theorem tie_subPixels (a b : UInt32) :
    Generated.Funcs.subPixels a.toNat b.toNat = ((Webp.Impl.LTransform.subPixels a b).toNat : Int) := by
  have h1 : b.toNat &&& 4278255360 ≤ 4294967296 := by
    have := @Nat.and_le_right b.toNat 4278255360; omega
  have h2 : b.toNat &&& 16711935 ≤ 4294967296 := by
    have := @Nat.and_le_right b.toNat 16711935; omega
  simp only [Generated.Funcs.subPixels, Webp.Impl.LTransform.subPixels, band_nat_lit, lit_add_nat, wrapU_nat,
    Nat.reducePow]
  rw [wrapU32_sub_nat _ _ h1, wrapU32_sub_nat _ _ h2]
  simp only [band_nat_lit, bor_nat, UInt32.toNat_or, UInt32.toNat_and, UInt32.toNat_sub, UInt32.toNat_add,
    UInt32.toNat_ofNat, Nat.reducePow, Nat.reduceMod]

/-- encode_predictor.go `predictPixel` = `Impl.LTransform.predictPixel`, every mode ≥ 0
    (modes ≥ 14 take the `default:` branch) -/
theorem tie_predictPixel (mode : Nat) (l t tr tl : UInt32) :
    Generated.Funcs.predictPixel mode l.toNat t.toNat tr.toNat tl.toNat
      = ((Webp.Impl.LTransform.predictPixel mode l t tr tl).toNat : Int) := by
  match mode with
  | 0 => rfl
  | 1 => rfl
  | 2 => rfl
  | 3 => rfl
  | 4 => rfl
  | 5 => simp [Generated.Funcs.predictPixel, Webp.Impl.LTransform.predictPixel, tie_avg2]
  | 6 => simp [Generated.Funcs.predictPixel, Webp.Impl.LTransform.predictPixel, tie_avg2]
  | 7 => simp [Generated.Funcs.predictPixel, Webp.Impl.LTransform.predictPixel, tie_avg2]
  | 8 => simp [Generated.Funcs.predictPixel, Webp.Impl.LTransform.predictPixel, tie_avg2]
  | 9 => simp [Generated.Funcs.predictPixel, Webp.Impl.LTransform.predictPixel, tie_avg2]
  | 10 => simp [Generated.Funcs.predictPixel, Webp.Impl.LTransform.predictPixel, tie_avg2]
  | 11 => simp [Generated.Funcs.predictPixel, Webp.Impl.LTransform.predictPixel, tie_selectPred]
  | 12 => simp [Generated.Funcs.predictPixel, Webp.Impl.LTransform.predictPixel, tie_clampAddSubFull]
  | 13 => simp [Generated.Funcs.predictPixel, Webp.Impl.LTransform.predictPixel, tie_avg2, tie_clampAddSubHalf]
  | n + 14 =>
    have h : ∀ k : Int, k < 14 → decide (((n + 14 : Nat) : Int) = k) = false := by
      intro k hk; simp only [decide_eq_false_iff_not]; omega
    simp only [Generated.Funcs.predictPixel, h 0 (by decide), h 1 (by decide), h 2 (by decide), h 3 (by decide),
      h 4 (by decide), h 5 (by decide), h 6 (by decide), h 7 (by decide), h 8 (by decide), h 9 (by decide),
      h 10 (by decide), h 11 (by decide), h 12 (by decide), h 13 (by decide), Bool.false_eq_true, if_false]
    rfl

/-- a negative `mode` also takes the `default:` branch (`ARGBBlack`) -/
theorem predictPixel_neg_mode (mode : Int) (h : mode < 0) (l t tr tl : Int) :
    Generated.Funcs.predictPixel mode l t tr tl = 4278190080 := by
  have h' : ∀ k : Int, 0 ≤ k → decide (mode = k) = false := by
    intro k hk; simp only [decide_eq_false_iff_not]; omega
  simp only [Generated.Funcs.predictPixel, h' 0 (by decide), h' 1 (by decide), h' 2 (by decide), h' 3 (by decide),
    h' 4 (by decide), h' 5 (by decide), h' 6 (by decide), h' 7 (by decide), h' 8 (by decide), h' 9 (by decide),
    h' 10 (by decide), h' 11 (by decide), h' 12 (by decide), h' 13 (by decide), Bool.false_eq_true, if_false]

/-! ## cross-colour, encoder side (encode_predictor.go) -/

/-- encode_predictor.go `encColorTransformDelta(m int8, color uint8) int8` =
    `Impl.LTransform.encColorTransformDelta` (the `int8` multiplier given by its byte) -/
theorem tie_encColorTransformDelta (m c : UInt8) :
    Generated.Funcs.encColorTransformDelta (sext8 m) c.toNat = Webp.Impl.LTransform.encColorTransformDelta m c := by
  unfold Generated.Funcs.encColorTransformDelta Webp.Impl.LTransform.encColorTransformDelta
  rw [wrapS8_nat_eq_sext8]
  have ht := sext8_range m
  have hc := sext8_range c
  have := mul_s8_range _ _ ht.1 ht.2 hc.1 hc.2
  rw [wrapS32_of_range _ (by omega) (by omega), wrapS8_eq_sext8]
  rfl

/-- the delta is an `int8` -/
theorem enc_range (m c : UInt8) : -128 ≤ Webp.Impl.LTransform.encColorTransformDelta m c ∧
    Webp.Impl.LTransform.encColorTransformDelta m c ≤ 127 := sext8_range _

/-- encode_predictor.go `applyColorTransformPixel` = `Impl.LTransform.applyColorTransformPixel`
    with the three `int8` multipliers read from the packed tile word `m`
    (g2r = bits 0..7, g2b = 8..15, r2b = 16..23) -/
theorem tie_applyColorTransformPixel (m p : UInt32) :
    Generated.Funcs.applyColorTransformPixel ⟨sext8 (chB m), sext8 (chG m), sext8 (chR m)⟩ p.toNat
      = ((Webp.Impl.LTransform.applyColorTransformPixel m p).toNat : Int) := by
  unfold Generated.Funcs.applyColorTransformPixel Webp.Impl.LTransform.applyColorTransformPixel
  simp only [shr_nat_lit, wrapU8_wrapS8]
  simp only [wrapU8_eq, ← chG_toNat, ← chR_toNat, ← chB_toNat, tie_encColorTransformDelta]
  have hG := (chG p).toNat_lt; have hR := (chR p).toNat_lt; have hB := (chB p).toNat_lt
  have e1 := enc_range (chB m) (chG p)
  have e2 := enc_range (chG m) (chG p)
  have e3 := enc_range (chR m) (chR p)
  generalize Webp.Impl.LTransform.encColorTransformDelta (chB m) (chG p) = d1 at *
  generalize Webp.Impl.LTransform.encColorTransformDelta (chG m) (chG p) = d2 at *
  generalize Webp.Impl.LTransform.encColorTransformDelta (chR m) (chR p) = d3 at *
  rw [wrapS32_of_range (((chR p).toNat : Int) - d1) (by omega) (by omega),
    wrapS32_of_range (((chB p).toNat : Int) - d2) (by omega) (by omega)]
  simp only [band_255_int]
  have hx : 0 ≤ (((chB p).toNat : Int) - d2) % 256 ∧ (((chB p).toNat : Int) - d2) % 256 < 256 := by omega
  rw [wrapS32_of_range ((((chB p).toNat : Int) - d2) % 256 - d3) (by omega) (by omega)]
  exact compose_px p _ _ (by omega) (by omega) (by omega) (by omega)

/-- encode_predictor.go `packMultipliers` builds that tile word -/
theorem tie_packMultipliers (g2r g2b r2b : UInt8) :
    Generated.Funcs.packMultipliers ⟨sext8 g2r, sext8 g2b, sext8 r2b⟩ = ((mk 0 r2b g2b g2r).toNat : Int) := by
  have h1 := g2r.toNat_lt; have h2 := g2b.toNat_lt; have h3 := r2b.toNat_lt
  simp only [Generated.Funcs.packMultipliers, wrapU8_sext8, shl_nat_lit, wrapU_nat, bor_nat, mk, UInt32.toNat_or,
    UInt32.toNat_shiftLeft, UInt32.toNat_ofNat, UInt8.toNat_toUInt32, Nat.reducePow, Nat.reduceMod]
  simp
  ac_rfl

/-- `applyColorTransformPixel` for arbitrary `int8` multipliers = the model on the packed word -/
theorem tie_applyColorTransformPixel_mk (g2r g2b r2b : UInt8) (p : UInt32) :
    Generated.Funcs.applyColorTransformPixel ⟨sext8 g2r, sext8 g2b, sext8 r2b⟩ p.toNat
      = ((Webp.Impl.LTransform.applyColorTransformPixel (mk 0 r2b g2b g2r) p).toNat : Int) := by
  have := tie_applyColorTransformPixel (mk 0 r2b g2b g2r) p
  rwa [chR_mk0, chG_mk0, chB_mk0] at this

/-- non-vacuity -/
example : Generated.Funcs.bitsLog2Floor 1000 = .ok 9 := by decide
example : Generated.Funcs.bitsLog2Floor (-5) = .ok 0 := by decide
example : Generated.Funcs.PrefixEncodeNoLUT 1000 = .ok (19, 8, 231) := by decide
example : Generated.Funcs.PrefixEncodeBitsNoLUT 1000 = .ok (19, 8) := by decide
example : Generated.Funcs.subPixels 0x12345678 0xfedcba98 = 0x14589ce0 := by decide
example : Generated.Funcs.predictPixel 13 0x12345678 0xfedcba98 0x01020304 0x0a0b0c0d = 3351692997 := by decide
example : Generated.Funcs.predictPixel 99 1 2 3 4 = 0xff000000 ∧ Generated.Funcs.predictPixel (-1) 1 2 3 4 = 0xff000000 := by decide
example : Generated.Funcs.encColorTransformDelta (-128) 128 = 0 ∧ Generated.Funcs.encColorTransformDelta 127 127 = -8 := by decide
example : Generated.Funcs.applyColorTransformPixel ⟨-3, 5, 100⟩ 0x12345678 = 306009801 := by decide
example : Generated.Funcs.packMultipliers ⟨-3, 5, 100⟩ = 0x006405fd := by decide

end Webp.Props.C01Funcs
