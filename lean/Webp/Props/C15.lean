import Webp.Props.C02
/-
  C15 — "ICC, EXIF and XMP blobs given to Encode or to the animation encoder are stored byte for
  byte and can be read back by chunk id, and the extended-header feature flags announce exactly
  the blobs that are present.  Adding, removing or changing metadata never changes the decoded
  pixels nor the embedded image bitstream."

  This file: the public still encoder (`Encode` → `writeRIFF`), for ALL blobs — including blobs
  whose bytes look like chunks (`"RIFF"`, `"VP8 "`+size, `"ALPH"`, a header announcing 4 GiB …):
  the theorems quantify over arbitrary byte lists and their proofs only ever use the *length* of
  a blob (`chunkAt_chunk`, `readChunk_chunk`, `splitChunks_chunk`: position = sum of the size
  fields), which is the formal content of "the parsers are driven by sizes, never by content
  search".  (Muxer / animation encoder: C14's writer model, other file.)

  Remark `codec_ignores_metadata` (structural, checked on /repo by grep, 2026-09-23):
    `grep -rniE "\b(icc|exif|xmp)\b" internal --include=*.go` (tests excluded) matches only
    `internal/container` (the *parser's* FourCC constants); `grep -rn EncoderOptions internal`
    matches nothing.  In package `webp` the three fields are read at exactly three places:
    `validateConfig` (size limit), `Encode` (`hasMetadata`, which selects
    `lossless.EncodeToWriter(argb, w, h, lcfg, …)` or `lossless.Encode(argb, w, h, lcfg)`), and
    `writeRIFF`.  The codec entry points `lossless.Encode(argb, width, height, lcfg)`,
    `lossless.EncodeToWriter(argb, width, height, lcfg, w, hdr)`, `lossy.NewEncoder(img, cfg)` /
    `lossy.NewEncoderFromYUV(yuv, w, h, cfg)`, `lossy.EncodeAlpha(alpha, w, h, alphaCfg)` take
    configs built from the *other* option fields only.  Hence the bitstream handed to `writeRIFF`
    does not depend on the metadata, except through the choice between the two lossless entry
    points — which write the same bytes: `C02.streaming_eq_buffered` for the container, and for the
    bitstream the suite `writer` check `encode:image-chunk-depends-on-metadata` (every lossless
    picture is encoded through both paths and compared).
-/
namespace Webp.Props.C15
open Webp.Go Webp.Impl Webp.Impl.Writer Webp.Props.C02
open Webp.Impl.Parser (ccVP8 ccVP8L ccICCP ccEXIF ccXMP ccALPH ccVP8X maxChunkPayload maxMetadataSize)

/-- `writeRIFF` takes the extended branch exactly when there is alpha or a non-empty blob -/
theorem writeRIFF_extended (fourcc : Nat) (bs alpha : Bytes) (w h : Int) (m : Meta)
    (hext : alpha ≠ [] ∨ m.icc ≠ [] ∨ m.exif ≠ [] ∨ m.xmp ≠ []) :
    writeRIFF fourcc bs alpha w h (some m) =
      writeRIFFExtended fourcc bs alpha w h m.icc m.exif m.xmp := by
  unfold writeRIFF hasMetadata metaOf Meta.any
  rw [if_pos]
  simp only [← length_pos_iff_ne_nil] at hext
  rcases hext with h | h | h | h
  · exact .inl h
  · right; simp [h]
  · right; simp [h]
  · right; simp [h]

/-- **empty_blob_no_chunk (b).**  No alpha and all three blobs empty (nil or zero-length — the
    writers only test `len(x) > 0`) ⇒ the SIMPLE format is written, with non-nil and with nil
    options; the lossless front end then streams. -/
theorem empty_blobs_simple (fourcc : Nat) (bs : Bytes) (w h : Int) :
    writeRIFF fourcc bs [] w h (some { icc := [], exif := [], xmp := [] }) =
      writeRIFFSimple fourcc bs ∧
    writeRIFF fourcc bs [] w h none = writeRIFFSimple fourcc bs ∧
    encodeContainer true bs [] w h { icc := [], exif := [], xmp := [] } = .ok (streamingWrite bs) :=
  ⟨rfl, rfl, rfl⟩

/-- **flags_exact.**  The VP8X flags byte the writer stores (file offset 20) has exactly the bits
    of the non-empty blobs — ICC 0x20, EXIF 0x08, XMP 0x04 —, the alpha bit 0x10 iff an ALPH
    payload was given or the VP8L header has `alpha_is_used`, and nothing else (animation and
    reserved bits clear, reserved bytes 21–23 zero). -/
theorem flags_exact (fourcc : Nat) (bs alpha icc exif xmp : Bytes) (w h : Int)
    (hsz : SizesOK bs alpha icc exif xmp) :
    ∃ out, writeRIFFExtended fourcc bs alpha w h icc exif xmp = .ok out ∧
      byteAt out 20 = vp8xFlags fourcc bs alpha icc exif xmp ∧
      byteAt out 21 = 0 ∧ byteAt out 22 = 0 ∧ byteAt out 23 = 0 ∧
      (vp8xFlags fourcc bs alpha icc exif xmp / 32 % 2 = 1 ↔ icc ≠ []) ∧
      (vp8xFlags fourcc bs alpha icc exif xmp / 8 % 2 = 1 ↔ exif ≠ []) ∧
      (vp8xFlags fourcc bs alpha icc exif xmp / 4 % 2 = 1 ↔ xmp ≠ []) ∧
      (vp8xFlags fourcc bs alpha icc exif xmp / 16 % 2 = 1 ↔
        alpha ≠ [] ∨ vp8lAlphaBit fourcc bs = true) ∧
      vp8xFlags fourcc bs alpha icc exif xmp % 2 = 0 ∧
      vp8xFlags fourcc bs alpha icc exif xmp / 2 % 2 = 0 ∧
      vp8xFlags fourcc bs alpha icc exif xmp / 64 = 0 := by
  obtain ⟨fb32, fb16, fb8, fb4, fb2, fb1, fb64⟩ := flags_bits fourcc bs alpha icc exif xmp
  obtain ⟨y0, y1, y2, y3⟩ := extFile_flag_bytes fourcc bs alpha w h icc exif xmp (by omega)
  refine ⟨_, writeRIFFExtended_eq fourcc bs alpha w h icc exif xmp (hsz.body fourcc w h),
    y0, y1, y2, y3, ?_, ?_, ?_, ?_, fb1, fb2, by omega⟩
  · rw [fb32, ← length_pos_iff_ne_nil]; split_ifs <;> simp [*]
  · rw [fb8, ← length_pos_iff_ne_nil]; split_ifs <;> simp [*]
  · rw [fb4, ← length_pos_iff_ne_nil]; split_ifs <;> simp [*]
  · rw [fb16, ← length_pos_iff_ne_nil]; unfold alphaFlag
    by_cases ha : alpha.length > 0 <;> by_cases hb : vp8lAlphaBit fourcc bs = true <;> simp [ha, hb]

/-- the demuxer's VP8 / VP8L dimension readers accept whatever `container.NewParser`'s accept -/
theorem demuxDims_of_header {fourcc : Nat} {bs : Bytes} {w' h' : Nat} {a' : Bool}
    (hh : HeaderOK fourcc bs w' h' a') :
    (fourcc = ccVP8 ∧ Demux.parseVP8Dimensions bs = .ok (w', h')) ∨
    (fourcc = ccVP8L ∧ Demux.parseVP8LDimensions bs = .ok (w', h', a')) := by
  rcases hh with ⟨hf, hp, _⟩ | ⟨hf, hp⟩
  · left
    refine ⟨hf, ?_⟩
    rcases Parser.parseVP8Header_cases bs with ⟨e, he⟩ | ⟨hok, _, _, hl⟩
    · rw [he] at hp; cases hp
    · rw [hok] at hp
      injection hp with hp
      injection hp with e1 e2
      subst e1 e2
      unfold Parser.parseVP8Header at hok
      unfold Demux.parseVP8Dimensions
      rw [if_neg (by omega)] at hok ⊢
      by_cases c2 : byteAt bs 0 % 2 ≠ 0
      · rw [if_pos c2] at hok; cases hok
      · rw [if_neg c2] at hok
        by_cases c3 : byteAt bs 3 * 65536 + byteAt bs 4 * 256 + byteAt bs 5 ≠ 0x9d012a
        · rw [if_pos c3] at hok; cases hok
        · have b3 := byteAt_lt bs 3
          have b4 := byteAt_lt bs 4
          have b5 := byteAt_lt bs 5
          rw [if_neg (by omega)]
  · right
    refine ⟨hf, ?_⟩
    obtain ⟨e1, e2, e3, _, _, _, _, hl, hb⟩ := Parser.parseVP8LHeader_ok hp
    unfold Demux.parseVP8LDimensions
    rw [if_neg (by omega), if_neg (by omega), e1, e2, e3]

/-- `mux.NewDemuxer` on a simple file: no metadata, one chunk, one frame -/
theorem demux_simple_fields {fourcc : Nat} {bs : Bytes} {w' h' : Nat} {a' : Bool}
    (hh : HeaderOK fourcc bs w' h' a') (hsz : SimpleSizeOK bs) :
    ∃ s f, Demux.parseWith true (simpleFile fourcc bs) = .ok s ∧ s.iccData = none ∧
      s.exifData = none ∧ s.xmpData = none ∧ s.features.hasICC = false ∧
      s.features.hasEXIF = false ∧ s.features.hasXMP = false ∧
      s.chunks = [⟨fourcc, bs.length, bs⟩] ∧ s.frames = [f] ∧ f.data = some bs ∧
      f.alphaData = none := by
  rcases demuxDims_of_header hh with ⟨hf, hd⟩ | ⟨hf, hd⟩
  · rw [hf]
    exact ⟨_, _, demux_simple_vp8 bs hsz hd, rfl, rfl, rfl, rfl, rfl, rfl, rfl, rfl, rfl, rfl⟩
  · rw [hf]
    exact ⟨_, _, demux_simple_vp8l bs hsz hd, rfl, rfl, rfl, rfl, rfl, rfl, rfl, rfl, rfl, rfl⟩

/-- **metadata_readback.**  Whatever `Encode` hands to `writeRIFF` — any bitstream, any ALPH
    payload, any three blobs within `validateConfig`'s limit — `mux.NewDemuxer` accepts the file
    and `GetChunk(ICCP / EXIF / XMP)` returns the blob byte for byte, or `ErrChunkNotFound`
    (`none`) exactly when the blob was empty; the demuxer's feature flags say the same.  Covers
    both layouts (**empty_blob_no_chunk (a)**: an empty blob yields no chunk and a clear flag). -/
theorem metadata_readback (fourcc : Nat) (bs alpha : Bytes) (w h w' h' : Nat) (a' : Bool) (m : Meta)
    (hh : HeaderOK fourcc bs w' h' a')
    (hw1 : 1 ≤ w) (hw2 : w ≤ 16383) (hh1 : 1 ≤ h) (hh2 : h ≤ 16383)
    (hsz : SizesOK bs alpha m.icc m.exif m.xmp) :
    ∃ out s, writeRIFF fourcc bs alpha w h (some m) = .ok out ∧
      Demux.parseWith true out = .ok s ∧
      getChunk s ccICCP = (if m.icc ≠ [] then some m.icc else none) ∧
      getChunk s ccEXIF = (if m.exif ≠ [] then some m.exif else none) ∧
      getChunk s ccXMP = (if m.xmp ≠ [] then some m.xmp else none) ∧
      (s.features.hasICC = true ↔ m.icc ≠ []) ∧ (s.features.hasEXIF = true ↔ m.exif ≠ []) ∧
      (s.features.hasXMP = true ↔ m.xmp ≠ []) ∧
      (∀ c ∈ s.chunks, (c.id = ccICCP → m.icc ≠ [] ∧ c.data = m.icc) ∧
        (c.id = ccEXIF → m.exif ≠ [] ∧ c.data = m.exif) ∧
        (c.id = ccXMP → m.xmp ≠ [] ∧ c.data = m.xmp)) := by
  obtain ⟨v1, v2, v3, v4, v5, v6, v7, v8, v9⟩ := cc_vals
  have hM := maxChunkPayload_val
  by_cases hext : alpha ≠ [] ∨ m.icc ≠ [] ∨ m.exif ≠ [] ∨ m.xmp ≠ []
  · rw [writeRIFF_extended fourcc bs alpha w h m hext]
    obtain ⟨out, s, f, hw, hp, hi, he, hx, _, _, _, hch, fi, fe, fx, _⟩ :=
      writeExtended_demux fourcc bs alpha m.icc m.exif m.xmp w h hh.fourcc hw1 hw2 hh1 hh2 hsz
    have hf := hh.fourcc
    refine ⟨out, s, hw, hp, ?_, ?_, ?_, fi, fe, fx, ?_⟩
    · unfold getChunk; rw [if_pos rfl]; exact hi
    · unfold getChunk; rw [if_neg (by omega), if_pos rfl]; exact he
    · unfold getChunk; rw [if_neg (by omega), if_neg (by omega), if_pos rfl]; exact hx
    · intro c hc
      have hm : (c.id, c.data) ∈ extChunks fourcc bs alpha w h m.icc m.exif m.xmp := by
        rw [← hch]; exact List.mem_map_of_mem hc
      unfold extChunks optC at hm
      simp only [List.mem_append, List.mem_cons, List.mem_ite_nil_right, List.not_mem_nil,
        or_false, Prod.mk.injEq] at hm
      rcases hm with ((((hm | hm) | hm) | hm) | hm) | hm
      · refine ⟨fun h => ?_, fun h => ?_, fun h => ?_⟩ <;> omega
      · refine ⟨fun _ => ⟨(length_pos_iff_ne_nil _).1 hm.1, hm.2.2⟩, fun h => ?_, fun h => ?_⟩ <;> omega
      · refine ⟨fun h => ?_, fun h => ?_, fun h => ?_⟩ <;> omega
      · refine ⟨fun h => ?_, fun h => ?_, fun h => ?_⟩ <;> rcases hf with hf | hf <;> omega
      · refine ⟨fun h => ?_, fun _ => ⟨(length_pos_iff_ne_nil _).1 hm.1, hm.2.2⟩, fun h => ?_⟩ <;> omega
      · refine ⟨fun h => ?_, fun h => ?_, fun _ => ⟨(length_pos_iff_ne_nil _).1 hm.1, hm.2.2⟩⟩ <;> omega
  · have ha : alpha = [] := by
      by_cases h : alpha = []; exact h; exact absurd (.inl h) hext
    have hi : m.icc = [] := by
      by_cases h : m.icc = []; exact h; exact absurd (.inr (.inl h)) hext
    have he : m.exif = [] := by
      by_cases h : m.exif = []; exact h; exact absurd (.inr (.inr (.inl h))) hext
    have hx : m.xmp = [] := by
      by_cases h : m.xmp = []; exact h; exact absurd (.inr (.inr (.inr h))) hext
    have hs : writeRIFF fourcc bs alpha w h (some m) = writeRIFFSimple fourcc bs := by
      subst ha
      unfold writeRIFF
      rw [if_neg]
      intro h
      rcases h with h | h
      · simp at h
      · unfold hasMetadata Meta.any at h
        simp [hi, he, hx] at h
    have hb := hsz.1
    rw [hs, writeRIFFSimple_eq fourcc bs (by omega), hi, he, hx]
    obtain ⟨s, f, hp, d1, d2, d3, d4, d5, d6, d7, _⟩ :=
      demux_simple_fields hh (show SimpleSizeOK bs by unfold SimpleSizeOK; omega)
    have hf := hh.fourcc
    refine ⟨_, s, rfl, hp, ?_, ?_, ?_, by simp [d4], by simp [d5], by simp [d6], ?_⟩
    · unfold getChunk; rw [if_pos rfl, d1, if_neg (fun h => h rfl)]
    · unfold getChunk; rw [if_neg (by omega), if_pos rfl, d2, if_neg (fun h => h rfl)]
    · unfold getChunk; rw [if_neg (by omega), if_neg (by omega), if_pos rfl, d3, if_neg (fun h => h rfl)]
    · intro c hc
      rw [d7] at hc
      simp only [List.mem_cons, List.not_mem_nil, or_false] at hc
      subst hc
      refine ⟨fun h => ?_, fun h => ?_, fun h => ?_⟩ <;> exfalso <;>
        (have h' : fourcc = _ := h) <;> rcases hf with hf | hf <;> omega

/-- What both parsers find as the image and ALPH payloads of a file written by `writeRIFF`:
    exactly the bitstream and the ALPH payload that were passed in — for every metadata triple,
    in both layouts. -/
theorem writeRIFF_image (fourcc : Nat) (bs alpha : Bytes) (w h w' h' : Nat) (a' : Bool) (m : Meta)
    (hh : HeaderOK fourcc bs w' h' a') (hnoalph : fourcc = ccVP8L → alpha = [])
    (hw1 : 1 ≤ w) (hw2 : w ≤ 16383) (hh1 : 1 ≤ h) (hh2 : h ≤ 16383)
    (hsz : SizesOK bs alpha m.icc m.exif m.xmp) :
    ∃ out s f d g, writeRIFF fourcc bs alpha w h (some m) = .ok out ∧
      Parser.parse out = .ok s ∧ s.frames = [f] ∧ f.payload = some bs ∧
      f.alphaData = (if alpha ≠ [] then some alpha else none) ∧
      Demux.parseWith true out = .ok d ∧ d.frames = [g] ∧ g.data = some bs ∧
      g.alphaData = (if alpha ≠ [] then some alpha else none) := by
  have hM := maxChunkPayload_val
  by_cases hext : alpha ≠ [] ∨ m.icc ≠ [] ∨ m.exif ≠ [] ∨ m.xmp ≠ []
  · rw [writeRIFF_extended fourcc bs alpha w h m hext]
    obtain ⟨o1, s, f, hw, _, _, hp, hfr, hpl, hal, _⟩ :=
      writeExtended_parse fourcc bs alpha m.icc m.exif m.xmp w h w' h' a' hh hnoalph hw1 hw2 hh1 hh2 hsz
    obtain ⟨o2, d, g, hw', hd, _, _, _, hgf, hgd, hga, _⟩ :=
      writeExtended_demux fourcc bs alpha m.icc m.exif m.xmp w h hh.fourcc hw1 hw2 hh1 hh2 hsz
    have : o1 = o2 := by
      have := hw.symm.trans hw'
      injection this
    subst this
    exact ⟨o1, s, f, d, g, hw, hp, hfr, hpl, hal, hd, hgf, hgd, hga⟩
  · have ha : alpha = [] := by
      by_cases h : alpha = []; exact h; exact absurd (.inl h) hext
    have hi : m.icc = [] := by
      by_cases h : m.icc = []; exact h; exact absurd (.inr (.inl h)) hext
    have he : m.exif = [] := by
      by_cases h : m.exif = []; exact h; exact absurd (.inr (.inr (.inl h))) hext
    have hx : m.xmp = [] := by
      by_cases h : m.xmp = []; exact h; exact absurd (.inr (.inr (.inr h))) hext
    have hs : writeRIFF fourcc bs alpha w h (some m) = writeRIFFSimple fourcc bs := by
      subst ha
      unfold writeRIFF
      rw [if_neg]
      intro h
      rcases h with h | h
      · simp at h
      · unfold hasMetadata Meta.any at h
        simp [hi, he, hx] at h
    have hb := hsz.1
    have hss : SimpleSizeOK bs := by unfold SimpleSizeOK; omega
    obtain ⟨o1, s, f, hw, _, _, hp, hfr, hpl, hal, _⟩ := writeSimple_parse fourcc bs w' h' a' hss hh
    obtain ⟨d, g, hd, _, _, _, _, _, _, _, hgf, hgd, hga⟩ := demux_simple_fields hh hss
    have ho : o1 = simpleFile fourcc bs := by
      have := hw.symm.trans (writeRIFFSimple_eq fourcc bs (by omega))
      injection this
    subst ho
    rw [hs, ha, if_neg (fun h => h rfl)]
    exact ⟨_, s, f, d, g, hw, hp, hfr, hpl, hal, hd, hgf, hgd, hga⟩

/-- **image_chunk_independent.**  For the same bitstream and ALPH payload, any two metadata
    triples give files in which `container.NewParser` finds the same image payload and the same
    ALPH payload (namely the ones passed in).  Together with the remark `codec_ignores_metadata`
    (file header): adding, removing or changing metadata never changes the embedded image
    bitstream, hence (the decoders being functions of those payloads) never the decoded pixels. -/
theorem image_chunk_independent (fourcc : Nat) (bs alpha : Bytes) (w h w' h' : Nat) (a' : Bool)
    (m₁ m₂ : Meta) (hh : HeaderOK fourcc bs w' h' a') (hnoalph : fourcc = ccVP8L → alpha = [])
    (hw1 : 1 ≤ w) (hw2 : w ≤ 16383) (hh1 : 1 ≤ h) (hh2 : h ≤ 16383)
    (h₁ : SizesOK bs alpha m₁.icc m₁.exif m₁.xmp) (h₂ : SizesOK bs alpha m₂.icc m₂.exif m₂.xmp) :
    ∃ o₁ o₂ s₁ s₂ f₁ f₂, writeRIFF fourcc bs alpha w h (some m₁) = .ok o₁ ∧
      writeRIFF fourcc bs alpha w h (some m₂) = .ok o₂ ∧
      Parser.parse o₁ = .ok s₁ ∧ Parser.parse o₂ = .ok s₂ ∧ s₁.frames = [f₁] ∧ s₂.frames = [f₂] ∧
      f₁.payload = f₂.payload ∧ f₁.alphaData = f₂.alphaData ∧ f₁.payload = some bs ∧
      f₁.alphaData = (if alpha ≠ [] then some alpha else none) := by
  obtain ⟨o₁, s₁, f₁, _, _, e1, p1, fr1, pl1, al1, _⟩ :=
    writeRIFF_image fourcc bs alpha w h w' h' a' m₁ hh hnoalph hw1 hw2 hh1 hh2 h₁
  obtain ⟨o₂, s₂, f₂, _, _, e2, p2, fr2, pl2, al2, _⟩ :=
    writeRIFF_image fourcc bs alpha w h w' h' a' m₂ hh hnoalph hw1 hw2 hh1 hh2 h₂
  exact ⟨o₁, o₂, s₁, s₂, f₁, f₂, e1, e2, p1, p2, fr1, fr2, by rw [pl1, pl2], by rw [al1, al2],
    pl1, al1⟩

/-! ## non-vacuity: real encoder output, and blobs that look like chunks -/

/-- an "ICC profile" that is a chunk header announcing a 4 GiB `ALPH` chunk -/
def evilICC : Bytes := [0x41, 0x4c, 0x50, 0x48, 0xf0, 0xff, 0xff, 0xff]
/-- an "XMP packet" that is a complete, well-formed `VP8 ` chunk (odd length: pad byte needed) -/
def evilXMP : Bytes := [0x56, 0x50, 0x38, 0x20, 0x01, 0x00, 0x00, 0x00, 0xaa]
/-- "EXIF" = a RIFF/WEBP file header -/
def evilEXIF : Bytes := [0x52, 0x49, 0x46, 0x46, 0x04, 0x00, 0x00, 0x00, 0x57, 0x45, 0x42, 0x50]

example : HeaderOK ccVP8 realVP8 2 1 false := .inl ⟨rfl, by decide +kernel, rfl⟩
example : SizesOK realVP8 realALPH evilICC evilEXIF evilXMP := by unfold SizesOK; decide +kernel

/-- write with the hostile blobs, demux, read everything back -/
def hostileReadback : Option (List (Option Bytes)) :=
  match writeRIFF ccVP8 realVP8 realALPH 2 1 (some ⟨evilICC, evilEXIF, evilXMP⟩) with
  | .ok out =>
    match Demux.parseWith true out with
    | .ok s => some ([getChunk s ccICCP, getChunk s ccEXIF, getChunk s ccXMP] ++
                     s.frames.map (·.data) ++ s.frames.map (·.alphaData))
    | _ => none
  | _ => none

/-- the conclusion of `metadata_readback`, computed on the concrete hostile blobs -/
example : hostileReadback =
    some [some evilICC, some evilEXIF, some evilXMP, some realVP8, some realALPH] := by
  decide +kernel

/-- real `Encode` output with ICC = "RIFF", XMP = 01 02 03: read back through the demuxer model -/
example : (match Demux.parseWith true goFileLossyMeta with
    | .ok s => some [getChunk s ccICCP, getChunk s ccEXIF, getChunk s ccXMP]
    | _ => none) = some [some [0x52, 0x49, 0x46, 0x46], none, some [1, 2, 3]] := by
  decide +kernel

/-- empty (nil or zero-length) blobs and no alpha: the simple file, byte for byte the streaming one -/
example : writeRIFF ccVP8L realVP8L [] 2 1 (some {}) = .ok goFileLossless := by decide +kernel

end Webp.Props.C15
