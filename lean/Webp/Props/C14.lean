import Webp.Proofs.MuxAgree
/-
  C14 — muxing then demuxing returns exactly what was put in
  (and the muxer half of C15 — metadata is stored byte-exact and never affects the picture).

  Models:  `Webp.Impl.Mux` (mux/mux.go), `Webp.Impl.Demux` (mux/demux.go, chunk.go),
           `Webp.Impl.Parser` (internal/container/parser.go), `Webp.Spec.Riff` (container specification).
  Tie:     harness suite `mux` — Go `mux.Muxer` vs `Webp.Impl.Mux.assemble` byte for byte on random call
           histories; the assembled bytes through both Go parsers, `webp.GetFeatures` and the Lean walker.
  The relations `DemuxAgrees`, `ParserAgrees`, `LayoutAgrees` are spelled out in `Webp.Proofs.MuxAgree`;
  `Accepted`, `Inv` in `Webp.Proofs.MuxAccepted`; `expD`/`expP`/`expL` in `Webp.Proofs.MuxExpect`.
-/
namespace Webp.Props.C14
open Webp.Go Webp.Impl Webp.Impl.Mux
open Webp.Proofs.MuxAccepted Webp.Proofs.MuxExpect Webp.Proofs.MuxCore Webp.Proofs.MuxChunk Webp.Proofs.MuxAgree
  Webp.Proofs.MuxSimple Webp.Proofs.MuxRiffWrap
open Webp.Impl.Demux (splitAlphaAndBitstream frameDimensions)
open Webp.Impl.Parser (ccRIFF ccWEBP ccVP8 ccVP8L ccVP8X ccALPH ccANIM ccANMF ccICCP ccEXIF ccXMP maxChunkPayload)

/-! ### Little-endian fields and chunks -/

/-- `le16 ∘ putLE16`, `le24 ∘ putLE24`, `le32 ∘ putLE32` are reduction modulo the field width. -/
theorem le_roundtrip (v : Nat) :
    le16 (putLE16 v) 0 = v % 65536 ∧ le24 (putLE24 v) 0 = v % 16777216 ∧ le32 (putLE32 v) 0 = v % 4294967296 :=
  ⟨Webp.Proofs.MuxBytes.le16_putLE16 v, Webp.Proofs.MuxBytes.le24_putLE24 v, Webp.Proofs.MuxBytes.le32_putLE32 v⟩

/-- mux.go `putLE24` on a Go `int` (`byte(v)`, `byte(v>>8)`, `byte(v>>16)`): what is read back is
    `v mod 2^24`, for negative `v` too. -/
theorem le24_putLE24I (v : Int) (r : Bytes) : le24 (putLE24I v ++ r) 0 = (v % 16777216).toNat := by
  simp only [le24, putLE24I, byteAt, List.cons_append, List.nil_append, List.getD_cons_zero, List.getD_cons_succ,
    Nat.zero_add, UInt8.toNat_ofNat']
  omega

/-- A chunk written by `writeDataChunk` (header, payload, zero pad byte when the size is odd) is read
    back by `chunk.go ReadChunk` with the same id, size and payload, and `consumed` skips the pad byte —
    whatever bytes follow.  `|d| ≤ 2^32 − 10` is what `ReadChunkHeader` accepts. -/
theorem chunk_roundtrip (id : Nat) (d r : Bytes) (hid : id < 4294967296) (hd : d.length ≤ maxChunkPayload) :
    Demux.readChunk (writeDataChunk id d ++ r) = .ok (⟨id, d.length, d⟩, 8 + d.length + d.length % 2) := by
  have := readChunk_ser ⟨id, d⟩ r hid hd
  rw [ser_length, padLen] at this
  exact this

/-- the same for container.Parser's chunk prologue -/
theorem chunk_roundtrip_parser (id : Nat) (d r : Bytes) (hid : id < 4294967296) (hd : d.length ≤ maxChunkPayload) :
    Parser.chunkAt (writeDataChunk id d ++ r) = .ok (id, d.length, 8 + (d.length + d.length % 2), d) :=
  chunkAt_ser ⟨id, d⟩ r hid hd

/-- frame data as the animation encoder hands it to the muxer: an `ALPH` chunk followed by the bitstream -/
def framePayload (α bs : Bytes) : Bytes := writeDataChunk ccALPH α ++ bs

/-- `splitAlphaAndBitstream` takes an ALPH-prefixed frame apart exactly (also used by C18). -/
theorem split_payload (α bs : Bytes) (hα : α.length < 4294967296) :
    splitAlphaAndBitstream (framePayload α bs) = (some α, bs) := by
  obtain ⟨hl, h0, h4, hs, _, hd⟩ := ser_facts' ⟨ccALPH, α⟩ bs Webp.Proofs.MuxDemuxExt.cc_lt.2.2.2.1 hα
  have e : framePayload α bs = ser ⟨ccALPH, α⟩ ++ bs := rfl
  simp only at hl h0 h4 hs hd
  have hcond : ((ser ⟨ccALPH, α⟩ ++ bs).length ≥ 8 ∧ le32 (ser ⟨ccALPH, α⟩ ++ bs) 0 = ccALPH) ∧
      8 + le32 (ser ⟨ccALPH, α⟩ ++ bs) 4 ≤ (ser ⟨ccALPH, α⟩ ++ bs).length := by
    refine ⟨⟨?_, h0⟩, ?_⟩
    · rw [hl]; omega
    · rw [hl, h4]; omega
  rw [e, split_eq, if_pos hcond, h4, hs, hl]
  by_cases hp : α.length % 2 = 0
  · rw [if_neg (by omega)]
    have : 8 + (α.length + α.length % 2) = 8 + α.length := by omega
    rw [this] at hd
    rw [hd]
  · rw [if_pos ⟨by omega, by omega⟩]
    have : 8 + (α.length + α.length % 2) = 8 + α.length + 1 := by omega
    rw [this] at hd
    rw [hd]

/-! ### The round trip -/

/-- **C14, for an arbitrary muxer state.**  If `s` satisfies the reachability invariant `Inv` and is
    `Accepted`, then either the extended file would exceed the readers' size limit (`¬ Fits s`) and
    `Assemble` returns an error before writing anything, or `Assemble` succeeds with bytes `b` such that
    (`RoundTrip s b`)

    * `b` is a well-formed RIFF/WebP container whose layout (`Spec.Riff.wellFormed`) is `expL s`;
    * `mux.NewDemuxer b` returns `expD s` and `container.NewParser b` returns `expP s`;
    * these agree with what was put in: per frame the bitstream bytes, the ALPH payload, the frame size,
      offsets `2·⌊o/2⌋`, duration, blend and dispose flags (flag = "mode is the constant 1"; the two
      defined constants are 0 and 1); canvas size; animation flag; loop count and background colour
      **for animated files** (a still has no ANIM chunk: the demuxer reports 0/0); ICC/EXIF/XMP payloads
      and their VP8X flags;
    * the two Go parsers report the same structure (`ParserAgrees`; container.Parser does not read the
      EXIF/XMP chunks that follow a still's image — it only announces them through its flags).

    `Accepted s` (decidable, `Webp.Proofs.MuxAccepted.accepted`) is: `validate s` passes, and **one**
    conjunct that `validate` does not enforce:

    * `bitstreamOK`: every frame's bitstream (after an optional `ALPH` chunk) has a header that parses
      (VP8: ≥ 10 bytes, key-frame bit, start code, non-zero 14-bit size; VP8L: ≥ 5 bytes, signature,
      version 0).  Outside: `validate` skips frames whose size it cannot read, so `AddFrame({1,2,3})`
      assembles a `VP8 ` chunk that no reader accepts (garbage in, garbage out — such data is not a
      VP8/VP8L bitstream, i.e. outside the property's quantifier; the suite counts these cases).

    `Fits s` (extended format: exact RIFF size ≤ 2^32 − 10 = `MaxChunkPayload`) is not a precondition
    any more: when it fails, `assembleExtended`'s own checks return an error (`rejects_too_large`).

    Seven further conjuncts were needed on the tree as first modelled; the real muxer violated the
    property there and was repaired (217045d explicit canvas kept for stills; 73510c8 canvas area < 2^30;
    dac085e no ALPH in front of VP8L; b6500d8 metadata ≤ 100 MB; faa5452 frame data ≤ 2^32 − 22;
    03d14c3 ANMF size wrap and RIFF size in (2^32−10, 2^32−1]).  `pinned_*` below keep the first three
    as kernel-checked counterexamples on the pinned model; the size-related ones need ≥ 100 MB / 4 GiB
    inputs and were probed on the Go side (suite `mux-probe`, one-off 4 GiB probes). -/
theorem mux_demux_state (s : MuxState) (inv : Inv s) (h : Accepted s) :
    (¬ Fits s ∧ assemble s = .err .other) ∨ (∃ b, assemble s = .ok b ∧ RoundTrip s b) := by
  have hv : validate s = .ok () := by
    unfold Accepted accepted at h
    simp only [Bool.and_eq_true, decide_eq_true_eq] at h
    exact h.1
  by_cases hfit : Fits s
  · exact Or.inr (roundTrip_of_fits s inv h hfit)
  · refine Or.inl ⟨hfit, ?_⟩
    unfold Fits at hfit
    have hx : needsVP8X s = true := by
      cases hx : needsVP8X s with
      | true => rfl
      | false => exact absurd (fun h' => by rw [hx] at h'; cases h') hfit
    exact assemble_too_large s hv hx (by
      have : ¬ exactRiffSize s ≤ 4294967286 := fun h' => hfit (fun _ => h')
      omega)

/-- **C14.**  For every history of public Muxer calls (`AddFrame`, `SetFrameDisposeMode`,
    `SetFrameDuration`, `SetLoopCount`, `SetCanvasSize`, `SetBackgroundColor`, `SetICCProfile`, `SetEXIF`,
    `SetXMP`, `AddChunk`, in any order, any arguments) whose final state is `Accepted`: either the file
    would be too large and `Assemble` returns an error, or `Assemble` succeeds, the file is a well-formed
    container, it demuxes back to what was put in, and both parsers of the package report the same
    structure.  All frame counts (still, extended still, animation with any number of frames), both
    codecs, all payload parities, every metadata subset.  See `mux_demux_state`. -/
theorem mux_demux (ops : List MuxOp) (h : Accepted (run ops)) :
    (¬ Fits (run ops) ∧ assemble (run ops) = .err .other) ∨
    (∃ b d p l, assemble (run ops) = .ok b ∧
      Webp.Spec.Riff.wellFormed b = .ok l ∧ LayoutAgrees (run ops) l ∧
      Demux.parseWith true b = .ok d ∧ DemuxAgrees (run ops) d ∧
      Parser.parse b = .ok p ∧ ParserAgrees d p) := by
  rcases mux_demux_state (run ops) (run_inv ops) h with h1 | ⟨b, h1, h2, h3, h4, h5, h6, h7⟩
  · exact Or.inl h1
  · exact Or.inr ⟨b, _, _, _, h1, h2, h3, h4, h5, h6, h7⟩

/-- whenever `Assemble` succeeds on an accepted state, the bytes it wrote round-trip -/
theorem mux_demux_ok (s : MuxState) (inv : Inv s) (h : Accepted s) (b : Bytes) (hb : assemble s = .ok b) :
    RoundTrip s b := by
  rcases mux_demux_state s inv h with ⟨_, h1⟩ | ⟨b', h1, h2⟩
  · rw [h1] at hb; cases hb
  · rw [h1] at hb; cases hb; exact h2

/-- "What the muxer rejects it rejects with an error", part 1: `Assemble` runs `validate` before anything
    is written, and a `validate` error is the result of `Assemble`.  (In the model a result is either bytes
    or an error; that the Go writer has received nothing when an error is returned is checked by the
    `mux` suite: the buffer must be empty whenever `Assemble` returns an error.) -/
theorem validate_before_write (s : MuxState) (e : Mux.Err) (h : validate s = .err e) : assemble s = .err e := by
  unfold assemble
  rw [h]
  rfl

/-- Part 2: an extended file whose RIFF payload would exceed 2^32 − 10 (what every reader accepts) is
    refused by `assembleExtended`'s own checks — the per-frame ANMF size check and the total — before
    anything is written.  No side condition on frame sizes is needed any more. -/
theorem rejects_too_large (s : MuxState) (hv : validate s = .ok ()) (hx : needsVP8X s = true)
    (hbig : exactRiffSize s > 4294967286) : assemble s = .err .other :=
  assemble_too_large s hv hx hbig

/-! ### C15 (muxer half): metadata -/

/-- A blob set under ICCP / EXIF / XMP (any bytes, including chunk-like ones; empty non-nil blobs too;
    `validate` refuses blobs above 100 MB) is returned byte for byte by the demuxer
    (`iccData`/`exifData`/`xmpData`, i.e. `GetChunk`), absent blobs are reported absent, and the VP8X flags
    announce exactly the blobs that are present; container.Parser lists the ICCP chunk always and EXIF/XMP
    for animations.  For every accepted history on which `Assemble` succeeds. -/
theorem metadata_readback (ops : List MuxOp) (h : Accepted (run ops)) (b : Bytes)
    (hb : assemble (run ops) = .ok b) :
    ∃ d p, Demux.parseWith true b = .ok d ∧ Parser.parse b = .ok p ∧
      d.iccData = (run ops).iccData ∧ d.exifData = (run ops).exifData ∧ d.xmpData = (run ops).xmpData ∧
      d.features.hasICC = (run ops).iccData.isSome ∧ d.features.hasEXIF = (run ops).exifData.isSome ∧
      d.features.hasXMP = (run ops).xmpData.isSome ∧
      p.features.hasICCP = (run ops).iccData.isSome ∧ p.features.hasEXIF = (run ops).exifData.isSome ∧
      p.features.hasXMP = (run ops).xmpData.isSome ∧
      pMeta p ccICCP = (run ops).iccData ∧
      (isAnimated (run ops) = true → pMeta p ccEXIF = (run ops).exifData ∧ pMeta p ccXMP = (run ops).xmpData) := by
  obtain ⟨_, _, h4, h5, h6, h7⟩ := mux_demux_ok (run ops) (run_inv ops) h b hb
  obtain ⟨_, _, _, hA, _, _, d1, d2, d3, d4, d5, d6⟩ := h5
  obtain ⟨_, _, _, _, _, p1, p2, p3, p4, p5, _⟩ := h7
  refine ⟨_, _, h4, h6, d1, d2, d3, d4, d5, d6, ?_, ?_, ?_, ?_, ?_⟩
  · rw [p1, d1]
  · rw [p2, d2]
  · rw [p3, d3]
  · rw [p4, d1]
  · intro ha
    have := p5 (by rw [hA]; exact ha)
    rw [d2, d3] at this
    exact this

/-- Adding, removing or changing metadata (or anything else that leaves the frame list alone) does not
    change what the demuxer returns for the frames: bitstream bytes, ALPH payloads and all per-frame
    fields are a function of the frame list only. -/
theorem image_chunk_independent (s s' : MuxState) (inv : Inv s) (inv' : Inv s') (h : Accepted s) (h' : Accepted s')
    (hf : s.frames = s'.frames) (b b' : Bytes) (hb : assemble s = .ok b) (hb' : assemble s' = .ok b') :
    ∃ d d', Demux.parseWith true b = .ok d ∧ Demux.parseWith true b' = .ok d' ∧ d.frames = d'.frames := by
  obtain ⟨_, _, h4, _⟩ := mux_demux_ok s inv h b hb
  obtain ⟨_, _, h4', _⟩ := mux_demux_ok s' inv' h' b' hb'
  exact ⟨_, _, h4, h4', by simp only [expD, hf]⟩

/-! ### Pinned counterexamples (the muxer before the three repairs) and non-vacuity -/

/-- 1×1 VP8L bitstream header -/
def vp8l1x1 : Bytes := [0x2f, 0, 0, 0, 0]
/-- 2×3 VP8 key-frame header -/
def vp8_2x3 : Bytes := [0, 0, 0, 0x9d, 0x01, 0x2a, 2, 0, 3, 0]

def stCanvas : MuxState := run [.setCanvasSize 100 50, .addFrame vp8l1x1 none]
def stAlphL : MuxState := run [.addFrame (framePayload [0xaa] vp8l1x1) none]
def stArea : MuxState := run [.setCanvasSize 32768 32768, .setICCProfile (some []), .addFrame vp8l1x1 none]

/-- Before 217045d: `SetCanvasSize(100,50)` + one 1×1 frame was written in the simple format and the
    demuxer reports canvas 1×1 — the canvas was silently dropped.  Now the file is extended and the canvas
    comes back.  (Go replay: ops `CS:100:50;AF0:2f00000000`.) -/
theorem pinned_canvas_dropped :
    (match assemblePinned stCanvas with
     | .ok b => (match Demux.parseWith true b with
                 | .ok d => decide ((d.features.width, d.features.height) = (1, 1))
                 | _ => false)
     | _ => false) = true ∧
    (match assemble stCanvas with
     | .ok b => (match Demux.parseWith true b with
                 | .ok d => decide ((d.features.width, d.features.height) = (100, 50))
                 | _ => false)
     | _ => false) = true := by
  constructor <;> decide +kernel

/-- Before dac085e: an `ALPH`-prefixed VP8L frame was accepted and written as `ALPH`,`VP8L`; the demuxer
    accepts that file, container.Parser rejects it (invalidChunk) and it is not a well-formed container.
    Now `Assemble` returns a validation error.  (Go replay: ops `AF0:414c504801000000aa002f00000000`.) -/
theorem pinned_alph_vp8l :
    (match assemblePinned stAlphL with
     | .ok b => (Demux.parseWith true b).isOk && decide (Parser.parse b = .err .invalidChunk) &&
                (match Webp.Spec.Riff.wellFormed b with | .ok _ => false | .error _ => true)
     | _ => false) = true ∧
    assemble stAlphL = .err .validation := by
  constructor <;> decide +kernel

/-- Before 73510c8: a 32768×32768 canvas (area 2^30) was accepted; the demuxer accepts the file,
    container.Parser rejects it (invalidImage).  Now `Assemble` returns a validation error.
    (Go replay: ops `CS:32768:32768;IC:-;AF0:2f00000000`.) -/
theorem pinned_canvas_area :
    (match assemblePinned stArea with
     | .ok b => (Demux.parseWith true b).isOk && decide (Parser.parse b = .err .invalidImage)
     | _ => false) = true ∧
    assemble stArea = .err .validation := by
  constructor <;> decide +kernel

/-- a 1-frame VP8L still (simple format) -/
def exStill : List MuxOp := [.addFrame vp8l1x1 none]
/-- a 2-frame animation: ALPH-prefixed VP8 (odd ALPH payload), then a VP8L frame at an odd offset -/
def exAnim : List MuxOp :=
  [.addFrame (framePayload [0xaa] vp8_2x3) (some { duration := 40 }),
   .addFrame vp8l1x1 (some { duration := 70, offsetX := 3, blendMode := 1, disposeMode := 1 }),
   .setLoopCount 7, .setBackgroundColor 0x11223344, .setFrameDuration 0 90]
/-- an extended still with all three metadata blobs (one empty but non-nil, one containing chunk-like bytes) -/
def exMeta : List MuxOp :=
  [.setICCProfile (some [1, 2, 3]), .setEXIF (some []), .addChunk ccXMP (some (tagBytes "ANMFVP8X")),
   .addFrame vp8_2x3 none]

example : Accepted (run exStill) := by decide +kernel
example : Accepted (run exAnim) := by decide +kernel
example : Accepted (run exMeta) := by decide +kernel
example : needsVP8X (run exStill) = false ∧ isAnimated (run exAnim) = true ∧
    (needsVP8X (run exMeta) = true ∧ isAnimated (run exMeta) = false) := by decide +kernel

/-- the theorem applies to them, e.g. the animation's first duration was edited retroactively and its
    second offset comes back rounded down to even -/
example : Fits (run exAnim) := by decide +kernel
example : ∃ b, assemble (run exAnim) = .ok b ∧ RoundTrip (run exAnim) b :=
  (mux_demux_state (run exAnim) (run_inv exAnim) (by decide +kernel)).resolve_left
    (fun h => h.1 (by decide +kernel))

example : (expD (run exAnim)).frames.map (fun f => (f.offsetX, f.duration, f.blendNone, f.disposeBG)) =
    [(0, 90, false, false), (2, 70, true, true)] := by decide +kernel

/-- non-vacuity of `validate_before_write`, `chunk_roundtrip`, `split_payload` -/
example : validate (run [.addFrame vp8l1x1 (some { offsetX := -1 })]) = .err .validation := by decide +kernel
example : Demux.readChunk (writeDataChunk ccICCP [1, 2, 3] ++ [9, 9]) = .ok (⟨ccICCP, 3, [1, 2, 3]⟩, 12) :=
  chunk_roundtrip ccICCP [1, 2, 3] [9, 9] (by decide +kernel) (by decide)
example : splitAlphaAndBitstream (framePayload [0xaa] vp8_2x3) = (some [0xaa], vp8_2x3) :=
  split_payload [0xaa] vp8_2x3 (by decide)

end Webp.Props.C14
