import Webp.Proofs.CodecFrontVP8Err
import Webp.Proofs.CodecFrontVP8LMain
import Webp.Proofs.CodecFrontAnim
/-
  C05 — "no input can crash, hang or exhaust a decoding entry point", codec part:
  the code between "the container parser hands over a chunk payload" and "the entropy-decoding
  loops start", plus every allocation-size expression and the index arithmetic of the copy loops.

  What the models leave to oracles — and every theorem therefore proves FOR ALL their values:
    * the bits the VP8 boolean reader returns (`BitSrc`: any state machine);
    * the macroblock loop of VP8 (`mbOK`: succeeded or not; it changes no slice length);
    * the VP8L bit reader, `readHuffmanCode` and the pixels `decodeImageData` writes (`LSrc`);
    * the VP8L decoder called by `DecodeAlpha` (`Alpha.Codec`).
  `Res.Safe` = the Go function returns normally: no panic (slice bounds, index, nil), no loop that
  outlives its fuel.  `Mem` = the bytes requested by each modelled `make`, in program order.

  Still only fuzzed (suite c05): the interiors of the entropy decoders — the VP8 macroblock /
  coefficient reader, the VP8L Huffman-table builder and its table sizes, the VP8L pixel loop
  apart from its copy branch, the inverse transforms, the upsampler kernels.
-/
namespace Webp.Props.C05Codec
open Webp.Go Webp.Impl

/-! ## A. VP8 (lossy) -/

section VP8
open CodecFront
variable {σ : Type}

/-- `parseHeaders` returns normally for every payload and every boolean-reader behaviour. -/
theorem vp8_headers_safe (S : BitSrc σ) (data : Bytes) : (parseHeaders S data).Safe :=
  (parseHeaders_post S data).safe

/-- **vp8_front_safe.**  `decodeLossy` (= `DecodeFrame` up to the macroblock loop, `initFrame`, the
    plane slices, `DecodeAlpha`, `buildYCbCr` / `buildNRGBA`) returns normally for every payload,
    every ALPH payload, every reader behaviour, every pooled-buffer capacity, every memory cap. -/
theorem vp8_front_safe (S : BitSrc σ) (memCap : Nat) (caps : Caps) (codec : Alpha.Codec)
    (data alphaData : Bytes) (mbOK : Bool) :
    (decodeLossy S memCap caps codec data alphaData mbOK).Safe :=
  (decodeLossy_post S memCap caps codec data alphaData mbOK).safe

/-- **vp8_partitions_in_bounds.**  After a successful `parseHeaders`:
    the first partition `data[10 : 10+partLen]` lies inside the payload; there are 1, 2, 4 or 8
    token partitions; every one is a window `data[off : off+len]` of the payload that starts at or
    after the end of the size table; they are back to back, and together with the 10 header
    bytes, the first partition and the size table they account for every byte of the payload
    (so the sizes sum to at most — in fact exactly — the remaining length). -/
theorem vp8_partitions_in_bounds (S : BitSrc σ) (data : Bytes) (h : Hdr) (s : σ)
    (hok : parseHeaders S data = .ok (h, s)) :
    10 + h.tag.partLen ≤ data.length ∧
    (h.numPartsMinusOne = 0 ∨ h.numPartsMinusOne = 1 ∨ h.numPartsMinusOne = 3 ∨ h.numPartsMinusOne = 7) ∧
    h.parts.length = h.numPartsMinusOne + 1 ∧
    (∀ p ∈ h.parts, 10 + h.tag.partLen + 3 * h.numPartsMinusOne ≤ p.off ∧
        p.off + p.bytes.length ≤ data.length ∧ p.bytes = (data.drop p.off).take p.bytes.length) ∧
    10 + h.tag.partLen + 3 * h.numPartsMinusOne + (h.parts.map (fun p => p.bytes.length)).sum
      = data.length := by
  have hh : HdrOK data h := (parseHeaders_post S data).of_ok hok
  have hc := hh.parts.chain
  refine ⟨hh.first, hh.parts.count, hh.parts.len, fun p hp => ?_, Chain.sum hc⟩
  obtain ⟨m1, _, m3, m4⟩ := Chain.mem hc p hp
  exact ⟨m1, m3, m4⟩

/-- Header facts: 14-bit dimensions, both ≥ 1; macroblock grid ≤ 1024 × 1024; 19-bit partition
    length; four quantiser matrices; 1056 coefficient probabilities. -/
theorem vp8_header_ranges (S : BitSrc σ) (data : Bytes) (h : Hdr) (s : σ)
    (hok : parseHeaders S data = .ok (h, s)) :
    1 ≤ h.tag.width ∧ h.tag.width ≤ 16383 ∧ 1 ≤ h.tag.height ∧ h.tag.height ≤ 16383 ∧
    h.mbW = (h.tag.width + 15) / 16 ∧ h.mbH = (h.tag.height + 15) / 16 ∧
    1 ≤ h.mbW ∧ h.mbW ≤ 1024 ∧ 1 ≤ h.mbH ∧ h.mbH ≤ 1024 ∧
    h.tag.partLen < 2 ^ 19 ∧ h.dqm.length = 4 ∧ h.coeffProbs.length = 1056 := by
  have hh : HdrOK data h := (parseHeaders_post S data).of_ok hok
  have t := hh.tag
  have a := mb_bounds t.w1 t.w2
  have b := mb_bounds t.h1 t.h2
  rw [← hh.mbW] at a
  rw [← hh.mbH] at b
  exact ⟨t.w1, t.w2, t.h1, t.h2, hh.mbW, hh.mbH, a.1, a.2.1, b.1, b.2.1, t.pl, hh.dqm, hh.probs⟩

/-- **initFrame sizes** (as coded), whatever the pooled capacities were: the exact length of every
    working buffer as a function of the macroblock grid, and the bytes newly allocated:
    at most `384·mbW·mbH + 842·mbW + 834` (`initFrameBytes`), each single request `≤ memCap`. -/
theorem vp8_initFrame_sizes (memCap : Nat) (caps : Caps) (mbW mbH : Nat) (b : Bufs) (m : Mem)
    (hok : initFrame memCap caps mbW mbH [] = .ok (b, m)) :
    b.yuvT = mbW ∧ b.mbInfo = mbW + 1 ∧ b.fInfo = mbW ∧ b.mbData = mbW ∧
    b.slab = 4 * mbW + 832 + 384 * (mbW * mbH) ∧ b.intraT = 4 * mbW ∧ b.yuvB = 832 ∧
    b.cacheY = 256 * (mbW * mbH) ∧ b.cacheU = 64 * (mbW * mbH) ∧ b.cacheV = 64 * (mbW * mbH) ∧
    b.cacheYStride = 16 * mbW ∧ b.cacheUVStride = 8 * mbW ∧
    m.sum ≤ 384 * (mbW * mbH) + 842 * mbW + 834 ∧ (∀ x ∈ m, x ≤ memCap) := by
  obtain ⟨hb, hm, hc⟩ := (initFrame_post memCap caps mbW mbH []).of_ok hok
  refine ⟨hb.yuvT, hb.mbInfo, hb.fInfo, hb.mbData, hb.slab, hb.intraT, hb.yuvB, hb.cacheY, hb.cacheU,
    hb.cacheV, hb.yStride, hb.uvStride, ?_, fun x hx => ?_⟩
  · have hz : memTotal ([] : Mem) = 0 := rfl
    unfold initFrameBytes at hm
    rw [hz, Nat.zero_add] at hm
    exact hm
  · rcases hc x hx with h | h
    · cases h
    · exact h

/-- **vp8_alloc_bounded.**  When `decodeLossy` succeeds with a `w × h` picture, everything the
    modelled code allocated (working buffers + YCbCr copy, or alpha plane + NRGBA) is at most
      `384·mbW·mbH + 842·mbW + 834 + 24·(h+1)·mbW + 5·w·h`   bytes,
    with `mbW = ⌈w/16⌉ ≤ 1024`, `mbH = ⌈h/16⌉ ≤ 1024`, hence at most `2 150 000 000`;
    and no single `make` exceeded the cap parameter. -/
theorem vp8_alloc_bounded (S : BitSrc σ) (memCap : Nat) (caps : Caps) (codec : Alpha.Codec)
    (data alphaData : Bytes) (mbOK : Bool) (img : Img) (m : Mem)
    (hok : decodeLossy S memCap caps codec data alphaData mbOK = .ok (img, m)) :
    m.sum ≤ 384 * ((img.dx + 15) / 16 * ((img.dy + 15) / 16)) + 842 * ((img.dx + 15) / 16) + 834
            + 24 * (img.dy + 1) * ((img.dx + 15) / 16) + 5 * (img.dx * img.dy) ∧
    (img.dx + 15) / 16 ≤ 1024 ∧ (img.dy + 15) / 16 ≤ 1024 ∧
    m.sum ≤ 2150000000 ∧ (∀ x ∈ m, x ≤ memCap) := by
  obtain ⟨_, w1, w2, h1, h2, hm, hc⟩ :=
    (decodeLossy_post S memCap caps codec data alphaData mbOK).of_ok hok
  dsimp only at w1 w2 h1 h2 hm hc
  unfold lossyBytes initFrameBytes memTotal at hm
  have a := mb_bounds w1 w2
  have b := mb_bounds h1 h2
  have hA : (img.dx + 15) / 16 * ((img.dy + 15) / 16) ≤ 1024 * 1024 := Nat.mul_le_mul a.2.1 b.2.1
  have hB : (img.dy + 1) * ((img.dx + 15) / 16) ≤ 16384 * 1024 := Nat.mul_le_mul (by omega) a.2.1
  have hC : img.dx * img.dy ≤ 16383 * 16383 := Nat.mul_le_mul w2 h2
  have e : 24 * (img.dy + 1) * ((img.dx + 15) / 16) = 24 * ((img.dy + 1) * ((img.dx + 15) / 16)) := by
    ring
  refine ⟨hm, a.2.1, b.2.1, ?_, hc⟩
  omega

/-- **The caps the code applies are dead code, and memory never runs out below the declared size.**
    `initFrame` refuses more than `1<<28` luma-cache bytes ("frame too large") and more than `1<<30`
    slab bytes; with 14-bit dimensions neither can happen.  And once the cap parameter allows the
    largest single request a 16383 × 16383 picture can cause (its NRGBA buffer), the distinguished
    outcome "allocation above the cap" never occurs — for any input. -/
theorem vp8_caps_dead_and_never_exhausts (S : BitSrc σ) (memCap : Nat) (caps : Caps)
    (codec : Alpha.Codec) (data alphaData : Bytes) (mbOK : Bool)
    (hcap : 4 * 16383 * 16383 ≤ memCap) :
    decodeLossy S memCap caps codec data alphaData mbOK ≠ .err .exhaust ∧
    decodeLossy S memCap caps codec data alphaData mbOK ≠ .err .tooLarge ∧
    decodeLossy S memCap caps codec data alphaData mbOK ≠ .err .slabTooLarge := by
  have h := decodeLossy_errIn S memCap caps codec data alphaData mbOK hcap
  refine ⟨fun e => ?_, fun e => ?_, fun e => ?_⟩
  · exact (h.of_err e).1 rfl
  · exact (h.of_err e).2.1 rfl
  · exact (h.of_err e).2.2 rfl

/-- **vp8_output_wellformed.**  Whatever `decodeLossy` returns without error is a well-formed image:
    `Dx = width > 0`, `Dy = height > 0` (the 14-bit header fields), and every pixel of the rectangle
    addresses bytes inside the backing buffers (`Img.WellFormed`: luma/chroma offsets of the 4:2:0
    YCbCr, `PixOffset+3` of the NRGBA).  In particular the typed-nil `*image.YCbCr` that
    `buildYCbCr` returns above `1<<30` bytes is never produced.  The row closures
    `yRow/uRow/vRow/aRow/dstRow` of `buildNRGBA` are part of `vp8_front_safe`. -/
theorem vp8_output_wellformed (S : BitSrc σ) (memCap : Nat) (caps : Caps) (codec : Alpha.Codec)
    (data alphaData : Bytes) (mbOK : Bool) (img : Img) (m : Mem)
    (hok : decodeLossy S memCap caps codec data alphaData mbOK = .ok (img, m)) :
    img.WellFormed ∧ img ≠ .nilYCbCr ∧ 1 ≤ img.dx ∧ img.dx ≤ 16383 ∧ 1 ≤ img.dy ∧ img.dy ≤ 16383 := by
  obtain ⟨wf, w1, w2, h1, h2, _, _⟩ :=
    (decodeLossy_post S memCap caps codec data alphaData mbOK).of_ok hok
  refine ⟨wf, fun e => ?_, w1, w2, h1, h2⟩
  rw [e] at wf
  exact wf

/-- the planes `DecodeFrame` hands out have exactly the lengths `buildYCbCr` / `buildNRGBA` slice:
    `len(y) = height·yStride`, `len(u) = len(v) = ⌈height/2⌉·uvStride`, `yStride = 16·mbW ≥ width`,
    `uvStride = 8·mbW ≥ ⌈width/2⌉` -/
theorem vp8_planes (S : BitSrc σ) (memCap : Nat) (caps : Caps) (data : Bytes) (mbOK : Bool)
    (h : Hdr) (b : Bufs) (p : Planes) (m : Mem)
    (hok : decodeFrame S memCap caps data mbOK = .ok ((h, b, p), m)) :
    p.width = h.tag.width ∧ p.height = h.tag.height ∧ p.yStride = 16 * h.mbW ∧ p.uvStride = 8 * h.mbW ∧
    p.yLen = p.height * p.yStride ∧ p.uLen = (p.height + 1) / 2 * p.uvStride ∧ p.vLen = p.uLen ∧
    p.width ≤ p.yStride ∧ (p.width + 1) / 2 ≤ p.uvStride := by
  obtain ⟨hh, _, hp, _, _⟩ := (decodeFrame_post S memCap caps data mbOK).of_ok hok
  dsimp only at hh hp
  have g := geo_of hh hp
  have := g.ws
  refine ⟨hp.width, hp.height, hp.yStride, hp.uvStride, hp.yLen, hp.uLen, by rw [hp.vLen, hp.uLen], ?_, ?_⟩
  · rw [g.yStride]; exact g.ws
  · rw [g.uvStride]; omega

end VP8

/-! ## B. ALPH -/

/-- `DecodeAlpha` (model of Props/C07) returns normally for every chunk payload, every frame size and
    every behaviour of the VP8L decoder it calls; the plane it returns has exactly `w·h ≤ 2^30` bytes
    — the length `buildNRGBA`'s `aRow` slices assume. -/
theorem alpha_decode_safe (c : Alpha.Codec) (data : Bytes) (w h : Nat) :
    (Alpha.decodeAlpha c data (w : Int) (h : Int)).Safe ∧
    ∀ pl, Alpha.decodeAlpha c data (w : Int) (h : Int) = .ok pl → pl.size = w * h ∧ w * h ≤ 2 ^ 30 :=
  ⟨(CodecFront.decodeAlpha_post c data w h).safe,
   fun _ e => (CodecFront.decodeAlpha_post c data w h).of_ok e⟩

/-! ## C. VP8L (lossless) -/

section VP8L
open CodecFrontL
open CodecFront (Mem)
variable {σ : Type}

/-- **vp8l_front_safe.**  `DecodeVP8L` — header, transform list with its sub-images, colour cache,
    `readHuffmanCodes` with the meta-prefix image and the group remapping, all allocations, the
    slices around the pixel loop, `argbToNRGBA` — returns normally for every payload, every reader
    / prefix-code / pixel oracle, every pooled capacity and every memory cap. -/
theorem vp8l_front_safe (L : LSrc σ) (memCap : Nat) (caps : CapsL) (data : Bytes) (pixOK : Bool) :
    (decodeVP8L L memCap caps data pixOK).Safe :=
  (decodeVP8L_post L memCap caps data pixOK).safe

/-- **vp8l_subimage_depth.**  `decodeSubImage` never nests: the recorded maximum of
    `dec.recursionDepth` is at most 1 (so `≤ 2`, and the guard `recursionDepth > 2` is dead code);
    the fuel 3 given to the model's recursion is never used up (`vp8l_front_safe`: no `hang`).
    Reason: transform data and the meta prefix image are read with `isLevel0 = false`, and such a
    stream reads no transform and no meta prefix image (`imageStream_quiet`). -/
theorem vp8l_subimage_depth (L : LSrc σ) (memCap : Nat) (caps : CapsL) (data : Bytes) (pixOK : Bool)
    (f : Front) (pix stride : Nat) (m : Mem)
    (hok : decodeVP8L L memCap caps data pixOK = .ok ((f, pix, stride), m)) :
    f.maxDepth ≤ 1 ∧ f.maxDepth ≤ 2 ∧ f.transforms.length ≤ 4 := by
  have h := (decodeVP8L_post L memCap caps data pixOK).of_ok hok
  have := h.depth
  have := h.transforms
  dsimp only at *
  omega

/-- a sub-image decode at any depth returns to its caller with the counter restored and no effect
    on the transform list — for ANY sub-image decoder plugged into the stream reader -/
theorem vp8l_subimage_returns (L : LSrc σ) (memCap fuel xsize ysize : Nat) (st : St σ) :
    (subImageF L memCap (fuel + 1) xsize ysize st).Safe :=
  (subImageF_post L memCap fuel xsize ysize st).safe

/-- **vp8l_alloc_bounded.**  On success, for the DECLARED `W × H` (14-bit fields, each ≤ 16384):
    the buffer lengths are exactly `numPixOrig = numAlloc = len(transformBuf) = W·H`,
    `numPixTrans = tw·H ≤ W·H`, `needed = len(pixels) = W·H + 17·W`, `len(argbCache) = 16·W`,
    the result has `len(Pix) = 4·W·H`, `Stride = 4·W`, and the bytes requested by all modelled
    `make`s are at most
        `12·W·H + 68·W + 1172·⌈W/4⌉·⌈H/4⌉ + 2 001 000`
    (three sub-images of at most `⌈W/4⌉·⌈H/4⌉` pixels, one `HTreeGroup` of 1160 bytes per group with
    at most `1000 + ⌈W/4⌉·⌈H/4⌉` groups, the 64 K-entry table slab, the 65536-int remapping table,
    five colour caches, the palette expansion) — each single request `≤ memCap`.
    Not in the log: the tables `BuildHuffmanTable` makes when the slab is full, and `codeLengthsBuf`. -/
theorem vp8l_alloc_bounded (L : LSrc σ) (memCap : Nat) (caps : CapsL) (data : Bytes) (pixOK : Bool)
    (f : Front) (pix stride : Nat) (m : Mem)
    (hok : decodeVP8L L memCap caps data pixOK = .ok ((f, pix, stride), m)) :
    let W := f.hdr.width
    let H := f.hdr.height
    1 ≤ W ∧ W ≤ 16384 ∧ 1 ≤ H ∧ H ≤ 16384 ∧
    1 ≤ f.bufs.tw ∧ f.bufs.tw ≤ W ∧
    f.bufs.numPixOrig = W * H ∧ f.bufs.numPixTrans = f.bufs.tw * H ∧ f.bufs.numPixTrans ≤ W * H ∧
    f.bufs.numAlloc = W * H ∧ f.bufs.needed = W * H + 17 * W ∧ f.bufs.pixels = W * H + 17 * W ∧
    f.bufs.argbCache = 16 * W ∧ f.bufs.transformBuf = W * H ∧
    pix = 4 * W * H ∧ stride = 4 * W ∧
    m.sum ≤ 12 * (W * H) + 68 * W + 1172 * ((W + 3) / 4 * ((H + 3) / 4)) + 2001000 ∧
    (∀ x ∈ m, x ≤ memCap) := by
  have h := (decodeVP8L_post L memCap caps data pixOK).of_ok hok
  have hm := h.mem
  have ht := h.tw
  have e1 := h.numPixOrig
  have e2 := h.numPixTrans
  have e3 := h.numAlloc
  have e4 := h.needed
  have e5 := h.pixels
  have e6 := h.argbCache
  have e7 := h.transformBuf
  have hT : f.bufs.tw * f.hdr.height ≤ f.hdr.width * f.hdr.height := Nat.mul_le_mul_right _ ht.2
  dsimp only at hm ht e1 e2 e3 e4 e5 e6 e7 ⊢
  unfold losslessBytes streamBytes huffBytes metaBytes q4 CodecFront.memTotal at hm
  refine ⟨h.w1, h.w2, h.h1, h.h2, ht.1, ht.2, e1, e2, by omega, e3, e4, by omega, e6, by omega,
    h.pix, h.stride, ?_, h.cap⟩
  generalize (f.hdr.width + 3) / 4 * ((f.hdr.height + 3) / 4) = Q at hm ⊢
  generalize f.hdr.width * f.hdr.height = P at hm ⊢
  omega

/-- **the `1<<30`-pixel cap** of `DecodeVP8L` (`uint64(W)*uint64(H) > 1<<30`) can never fire: both
    factors come from 14-bit fields. (It also sits after the image stream has been read.) -/
theorem vp8l_cap_dead (W H : Nat) (hW : W ≤ 16384) (hH : H ≤ 16384) : ¬ (W * H > 2 ^ 30) := by
  have := Nat.mul_le_mul hW hH
  have p30 : (2 : Nat) ^ 30 = 1073741824 := by norm_num
  omega

/-- **expandColorMap_in_bounds**, for every `numColors` in 1..256 with the `bits` the decoder derives
    from it (0, 1, 2, 3 for > 16, > 4, > 2, ≤ 2 colours) and a palette slice of ANY length: no index
    of `newMap`, `oldBytes`, `newBytes` is out of range; the result has `1 << (8 >> bits)` entries,
    which is at least `numColors`. -/
theorem expandColorMap_in_bounds (memCap numColors paletteLen : Nat) (m : Mem) (h1 : 1 ≤ numColors)
    (h2 : numColors ≤ 256) :
    (expandColorMap memCap numColors (bitsFor numColors) paletteLen m).Safe ∧
    (∀ n m', expandColorMap memCap numColors (bitsFor numColors) paletteLen m = .ok (n, m') →
      n = 1 <<< (8 >>> bitsFor numColors) ∧ numColors ≤ n ∧ n ≤ 256) := by
  have hp := expandColorMap_post memCap numColors paletteLen m h1 h2
  refine ⟨hp.safe, fun n m' e => ?_⟩
  have := (hp.of_ok e).1
  have hf := final_ge numColors h1 h2
  dsimp only at this
  rw [this]
  exact ⟨rfl, hf.1, hf.2.2⟩

/-- **copy_in_bounds.**  The backward-reference branch of `decodeImageData`: for a pixel buffer of
    exactly `srcEnd = width·height` elements and ANY `pos`, `dist ≥ 1`, `length ≥ 1` (Go ints),
    the two guards `pos < dist` and `srcEnd - pos < length` either reject, or `copyBlock32` runs
    without panic and without looping, the position advances to `pos + length ≤ srcEnd`, and every
    block move `copy(data[dlo:dlo+n], data[slo:slo+n])` it performs satisfies
      `pos - dist ≤ slo`, `slo + n ≤ dlo` (every read index < every write index),
      `pos ≤ dlo`, `dlo + n ≤ pos + length ≤ len(data)`. -/
theorem copy_in_bounds (srcEnd : Nat) (pos dist length : Int) (hd : 1 ≤ dist) (hl : 1 ≤ length) :
    (copyStep srcEnd srcEnd pos dist length).Safe ∧
    ∀ mv np, copyStep srcEnd srcEnd pos dist length = .ok (mv, np) →
      np = pos + length ∧ np ≤ (srcEnd : Int) ∧
      ∀ m ∈ mv, pos - dist ≤ (m.slo : Int) ∧ m.slo + m.n ≤ m.dlo ∧ pos ≤ (m.dlo : Int) ∧
        (m.dlo : Int) + m.n ≤ pos + length ∧ m.dlo + m.n ≤ srcEnd := by
  have hp := copyStep_post srcEnd pos dist length hd hl
  refine ⟨hp.safe, fun mv np e => ?_⟩
  obtain ⟨a, b, c⟩ := hp.of_ok e
  exact ⟨a, b, fun m hm => ⟨(c m hm).src_lo, (c m hm).disjoint, (c m hm).dst_lo, (c m hm).dst_hi,
    (c m hm).inside⟩⟩

/-- the two hypotheses of `copy_in_bounds` are what the caller establishes:
    `PlaneCodeToDistance` never returns less than 1 (for any width and any code) … -/
theorem planeCodeToDistance_pos (xsize : Nat) (planeCode : Int) :
    1 ≤ planeCodeToDistance xsize planeCode := CodecFrontL.planeCodeToDistance_pos xsize planeCode

/-- … and a length symbol never stands for less than 1 pixel (inlined `getCopyLength`) … -/
theorem copyLength_pos (sym extra : Nat) : 1 ≤ prefixValue sym extra := by
  unfold prefixValue
  split
  · omega
  · exact Nat.le_add_left 1 _

/-- … and they are needed: with `dist = 0` both guards pass and the doubling loop of `copyBlock32`
    never advances (the model's fuel runs out = the Go loop does not terminate). -/
theorem copy_dist0_counterexample : copyStep 10 10 2 0 3 = .hang := copyStep_dist0_hangs

end VP8L

/-! ## D. animation -/

section Anim
open AnimDec
open Webp.Spec.Anim (Px Canvas Frame)

/-- **animdecoder_canvas_bounded.**  `NewAnimDecoder`: for canvas dimensions below `2^32` (the
    demuxer reads them from 24-bit fields, so ≤ `2^24`) it returns normally, and when it succeeds
    both canvases have exactly `cw·ch ≤ 2^30` pixels (`maxCanvasArea`), `cw, ch ≥ 1`. -/
theorem animdecoder_canvas_bounded (cw ch : Int) (hw : cw < 2 ^ 32) (hh : ch < 2 ^ 32) :
    (newAnimDecoder cw ch).Safe ∧
    ∀ st, newAnimDecoder cw ch = .ok st →
      0 < cw ∧ 0 < ch ∧ st.curr.size = cw.toNat * ch.toNat ∧ st.prevDisposed.size = cw.toNat * ch.toNat ∧
      cw.toNat * ch.toNat ≤ 2 ^ 30 :=
  CodecFront.newAnimDecoder_bounded cw ch hw hh

/-- outside that range the `uint64` product can wrap below the cap and `image.NewNRGBA` panics — only
    reachable through a hand-built `Animation`, never from bytes (`DecodeBytes` takes the canvas from
    the demuxer) -/
theorem animdecoder_wrap_counterexample :
    newAnimDecoder 4294967296 4294967296 = .panic := by decide +kernel

/-- **composite_in_bounds** (restating Props/C09's geometry for C05): for ANY frame — negative or
    huge offsets, any picture size — `compositeFrame` and the dispose step only ever write canvas
    indices `y·w + x` with `0 ≤ x < w`, `0 ≤ y < h`, i.e. `< w·h`, and leave the canvas size
    unchanged; so every snapshot `NextFrame` returns has exactly `w·h` pixels. -/
theorem composite_in_bounds (w h : Nat) (f : Frame) (canvas : Canvas) :
    (∀ x y : Int, inImage w h x y = true → y.toNat * w + x.toNat < w * h) ∧
    (compositeFrame w h f canvas).size = canvas.size ∧
    (applyDispose w h canvas f).size = canvas.size :=
  ⟨fun x y hxy => CodecFront.inImage_index_lt w h x y hxy,
   CodecFront.compositeFrame_size w h f canvas, CodecFront.applyDispose_size w h canvas f⟩

theorem nextFrame_snapshot_size (allowKey : Bool) (w h : Nat) (f : Frame) (st : State)
    (h1 : st.curr.size = w * h) (h2 : st.prevDisposed.size = w * h) :
    (step allowKey w h f st).1.size = w * h ∧ (step allowKey w h f st).2.curr.size = w * h ∧
    (step allowKey w h f st).2.prevDisposed.size = w * h :=
  CodecFront.step_sizes allowKey w h f st h1 h2

end Anim

/-! ## non-vacuity: each model accepts something -/

section Examples
open CodecFront

/-- a reader that answers "0" to every decision and never reports EOF -/
def zeroSrc : BitSrc Unit := { new := fun _ => (), getBit := fun _ _ => (false, ()), eof := fun _ => false }

/-- frame tag (key frame, shown, partLen 2), start code, 20 × 9, two bytes of first partition,
    three bytes of token partition -/
def sampleVP8 : Bytes := [0x50, 0x00, 0x00, 0x9d, 0x01, 0x2a, 20, 0, 9, 0, 0xaa, 0xbb, 1, 2, 3]

example : ((parseHeaders zeroSrc sampleVP8).toOption.map fun r =>
    [r.1.tag.width, r.1.tag.height, r.1.mbW, r.1.mbH, r.1.numPartsMinusOne] ++
     r.1.parts.flatMap fun p => [p.off, p.bytes.length]) = some [20, 9, 2, 1, 0, 12, 3] := by
  decide +kernel

example : ((decodeLossy zeroSrc (2 ^ 40) {} ⟨fun _ _ _ _ _ => none, fun _ => none⟩ sampleVP8 [] true).toOption.map
    fun r => (r.1, r.2.sum)) = some (.ycbcr 20 9 288 80 80 32 16, 3734) := by
  decide +kernel

/-- with a raw ALPH payload the NRGBA path is taken -/
example : ((decodeLossy zeroSrc (2 ^ 40) {} ⟨fun _ _ _ _ _ => none, fun _ => none⟩ sampleVP8
    (0 :: List.replicate 180 7) true).toOption.map fun r => r.1) = some (.nrgba 20 9 720 80) := by
  decide +kernel

/-- a pooled decoder with large buffers allocates nothing in `initFrame` and gets the same lengths -/
example : (initFrame 0 { yuvT := 99, mbInfo := 99, fInfo := 99, mbData := 99, slab := 99999 } 2 1 []).toOption.map
    (fun r => (r.1.slab, r.1.cacheY, r.2)) = some (1608, 512, []) := by decide +kernel

open CodecFrontL in
/-- VP8L: reader answering 0 everywhere (1 × 1 picture, no transform, no cache, one group) -/
def zeroL : LSrc Unit :=
  { new := fun _ => (), readBits := fun _ _ => (0, ()), eos := fun _ => false,
    readCode := fun _ _ => some (), imageData := fun _ _ _ _ => some (fun _ => 0, ()) }

open CodecFrontL in
example : ((decodeVP8L zeroL (2 ^ 40) {} [0x2f, 0, 0, 0, 0] true).toOption.map fun r =>
    [r.1.1.hdr.width, r.1.1.hdr.height, r.1.1.bufs.needed, r.1.1.md.numGroups, r.1.1.maxDepth, r.1.2.1] ++
     r.2.reverse) = some [1, 1, 18, 1, 0, 4, 262144, 1160, 72, 4, 4] := by decide +kernel

open CodecFrontL in
/-- VP8L: a reader answering 1 to every 1-bit question reads a predictor transform (type 1 → cross
    colour, in fact: two bits = 3 mod 4…) until the duplicate is refused: exercise the sub-image path -/
def onesL : LSrc Nat :=
  { new := fun _ => 0,
    -- first transform flag 1, type 0, bits 0; afterwards 0 everywhere
    readBits := fun s n => (if s = 4 ∧ n = 1 then 1 else 0, s + 1), eos := fun _ => false,
    readCode := fun s _ => some s, imageData := fun s _ _ _ => some (fun _ => 0xff00ff00, s) }

open CodecFrontL in
example : ((decodeVP8L onesL (2 ^ 40) {} [0x2f, 0, 0, 0, 0] true).toOption.map fun r =>
    (r.1.1.transforms.map (fun t => (t.type, t.bits, t.dataLen)), r.1.1.maxDepth)) =
    some ([(0, 2, 1)], 1) := by decide +kernel

open CodecFrontL in
example : (copyStep 12 12 4 2 7).toOption.map (fun r => (r.2, r.1.map fun m => (m.dlo, m.slo, m.n))) =
    some (11, [(4, 2, 2), (6, 4, 2), (8, 4, 3)]) := by decide +kernel

end Examples

end Webp.Props.C05Codec
