import Generated.Shapes
import Webp.Impl.RowSyncShape
/-
  C10 — regenerated obligation: the synchronisation code of the row-pipelined encoder, as
  extracted from /repo on this run, is the program that the RowSync / RowPipe models encode.
-/
namespace Webp.Props.C10Shape
open Webp.Impl

theorem shape_waitFor : Generated.Shapes.waitFor = RowSyncShape.waitFor := rfl

theorem shape_signal : Generated.Shapes.signal = RowSyncShape.signal := rfl

theorem shape_workerLoop : Generated.Shapes.workerLoop = RowSyncShape.workerLoop := rfl

theorem shape_frameSync : Generated.Shapes.frameSync = RowSyncShape.frameSync := rfl

theorem shape_rowSyncUse : Generated.Shapes.rowSyncUse = RowSyncShape.rowSyncUse := rfl

theorem shape_recorderWait : Generated.Shapes.recorderWait = RowSyncShape.recorderWait := rfl

theorem shape_poolReset : Generated.Shapes.poolReset = RowSyncShape.poolReset := rfl

/-- non-vacuity: the extracted programs are not empty -/
example : Generated.Shapes.waitFor.length = 8 ∧ Generated.Shapes.signal.length = 3 := by decide

end Webp.Props.C10Shape
