import Webp.Proofs.C04RefineResid3
import Webp.Proofs.C04RefineOps
/-
  Property C04, refinement theorems Impl ↔ Spec, part 8 — stage B, residuals (first part):

  * `readResiduals_staged`: `Webp.Spec.VP8.readResiduals` (§13 `residual_data()`) = `specRes`: one `rStep` per
    block (context = above flag + left flag, `readBlock`, flag "has a token" stored in both contexts, `coded` bit,
    `eobs` entry), the Y2 / luma / chroma loops as folds — machine-checked restatement;
  * `NzRel`: Go's bit-packed non-zero contexts (`mb.Nz`, `left.Nz`: bit `k` = flag `k`, `NzDC`) vs the RFC arrays
    `above[9·mbX + k]`, `left[k]`;
  * `mb_residuals_skip_eq_spec`: a macroblock with the skip flag — `decodeMB` reads nothing, returns the stale
    coefficients with `NonZeroY = NonZeroUV = 0` (never transformed), and leaves `Nz = 0`, `NzDC` cleared unless
    `B_PRED`; the specification reads nothing, returns zero coefficients and the contexts cleared the same way.

  NOT proved (full statement): `mb_residuals_eq_spec` for parsed macroblocks —
    NzRel mbX A0 n cc → (m.hasY2 = !isI4) → CoefOK prob probs t (t ≤ 3) → FixedOK prob → QuantRel … →
    ∃ res n', runD prob (T.parseResiduals K qm isI4 n) d = some ((res, n'), (readResiduals probs q mbX m cc d).2.2.2) ∧
      NzRel mbX A0 n' (readResiduals …).2.2.1 ∧
      (∀ b < 24, ∀ j, (b ≥ 16 ∨ isI4 ∨ j ≠ 0) → res.coeffs b j = coeffs[16·b + j]) ∧
      (¬isI4 → ∀ b < 16, res.coeffs b 0 = (if eobs[24] > 1 then K.iwht (toC coeffs 384) else fun _ => wrap16 ((coeffs[384] + 3) >>> 3)) b) ∧
      res.nonZeroY / res.nonZeroUV = the 2-bit codes `nzCode eobs[b] (res.coeffs b 0 ≠ 0)` packed.
  The per-block step is `tokens_eq_spec` (+ a lemma that `getCoeffsInline` with `first = 1` does not touch slot 0);
  missing is the simulation of the packed words through the row loops (`tnz' = tnz >> 1 | f << 7`, after four
  blocks `>> 4`) against `rStep`'s array stores.
-/
namespace Webp.Props.C04Refine8
open Webp.Spec.VP8
open Webp.Impl.VP8SyntaxBytes (P runR rd)
open Webp.Impl.VP8Recon (Slot NzCtx skipNz decSkipped)
open Webp.Proofs.C04RefineOps Webp.Proofs.C04RefineResid

/-- **`readResiduals` with its loops as folds** -/
theorem readResiduals_staged (probs : Array Nat) (q : DequantFactors) (mbX : Nat) (m : MBInfo) (ctx : CoeffCtx) (d : BoolDec) :
    readResiduals probs q mbX m ctx d = specRes probs q mbX m ctx d :=
  readResiduals_eq probs q mbX m ctx d

/-- **`mb_residuals_skip_eq_spec`.**  A skipped macroblock (`useSkipProba && block.Skip`), on the reference decoder. -/
theorem mb_residuals_skip_eq_spec (prob : Slot → UInt8) (K : Webp.Impl.VP8Recon.Kernels) (qm : Webp.Impl.VP8Recon.QuantMatrix)
    (isI4 : Bool) (stale : Nat → Webp.Impl.VP8Recon.Coeffs) (n : NzCtx)
    (probs : Array Nat) (q : DequantFactors) (mbX : Nat) (A0 : Array Nat) (m : MBInfo) (cc : CoeffCtx)
    (hskip : m.skip = true) (hI : m.hasY2 = !isI4) (h : NzRel mbX A0 n cc) (d : BoolDec) :
    runD prob (Webp.Impl.VP8SyntaxBytes.T.parseTokens K qm isI4 true true stale n) d =
        some ((decSkipped stale, skipNz isI4 n), (readResiduals probs q mbX m cc d).2.2.2) ∧
    (readResiduals probs q mbX m cc d).1 = Array.replicate 400 0 ∧
    (decSkipped stale).nonZeroY = 0 ∧ (decSkipped stale).nonZeroUV = 0 ∧
    NzRel mbX A0 (skipNz isI4 n) (readResiduals probs q mbX m cc d).2.2.1 := by
  have hs := skip_nzrel mbX A0 n cc h isI4
  rw [readResiduals_eq]
  unfold specRes
  simp only [hskip, if_true, hI]
  cases isI4
  · simp only [Bool.not_false, if_true] at hs ⊢
    refine ⟨?_, ?_, ?_, ?_, hs⟩ <;> trivial
  · simp only [Bool.not_true, Bool.false_eq_true, if_false] at hs ⊢
    refine ⟨?_, ?_, ?_, ?_, hs⟩ <;> trivial

/-- `NzRel` is satisfiable: all-zero contexts of a one-macroblock-wide frame -/
example : NzRel 0 (Array.replicate 9 0) { tnz := 0, lnz := 0, tnzDC := 0, lnzDC := 0 }
    { above := Array.replicate 9 0, left := Array.replicate 9 0 } := by
  refine ⟨?_, ?_, rfl, rfl, fun _ _ => rfl, rfl, by decide, by decide, by decide, by decide, by decide, by decide⟩
  · intro k hk
    show (Array.replicate 9 0).getD (9 * 0 + k) 0 = (0 >>> k) % 2
    rw [Nat.zero_shiftRight, Array.getD_eq_getD_getElem?, Array.getElem?_eq_getElem (by simp; omega)]
    simp
  · intro k hk
    show (Array.replicate 9 0).getD k 0 = (0 >>> k) % 2
    rw [Nat.zero_shiftRight, Array.getD_eq_getD_getElem?, Array.getElem?_eq_getElem (by simp; omega)]
    simp

#print axioms readResiduals_staged
#print axioms mb_residuals_skip_eq_spec

end Webp.Props.C04Refine8
