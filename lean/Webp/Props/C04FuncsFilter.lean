import Webp.Proofs.FuncsTables
/-
  C04 (and C06, C13) — regenerated obligations for the loop filter (internal/dsp/cliptables.go,
  filter.go): the four clip tables as built by the translated `initClipTables` are the tables of
  `Webp.Impl.VP8Kernels`; the table accessors, `needsFilter`, `needsFilter2`, `hev` and `doFilter2`
  translated from the Go AST on this run are the model functions (`none` of the model = Go panic).
-/
namespace Webp.Props.C04FuncsFilter
open Webp.Go Webp.Go.IntSem Webp.Proofs.FuncsBridge Webp.Proofs.FuncsTables
open Webp.Impl.VP8Kernels (tblGet kabs0 ksclip1 ksclip2 kclip1 Seg)

/-- the translated init loops build exactly the model tables -/
theorem tie_initClipTables :
    Generated.Funcs.initClipTables
      = .ok (Webp.Impl.VP8Kernels.sclip1Table.toList, Webp.Impl.VP8Kernels.sclip2Table.toList,
             Webp.Impl.VP8Kernels.clip1Table.toList, Webp.Impl.VP8Kernels.abs0Table.toList) :=
  Webp.Proofs.FuncsTables.tie_initClipTables

/-- Go panic ↔ `none` of the kernel model -/
def toR {α : Type} : Option α → R α
  | some a => .ok a
  | none => .panic

theorem idxI_toList (t : Array Int) (i : Int) : idxI t.toList i = toR (tblGet t i) := by
  unfold idxI tblGet
  by_cases h : i < 0
  · simp [h, toR]
  · simp only [h, if_false, Array.getElem?_toList]
    cases t[i.toNat]? <;> rfl

theorem sel3 (x : R (List Int × List Int × List Int × List Int)) (a b c d : List Int) (h : x = .ok (a, b, c, d)) :
    Generated.Funcs.initClipTables_3 x = d := by subst h; rfl
theorem dsp_abs0_eq : Generated.Funcs.dsp_abs0 = Webp.Impl.VP8Kernels.abs0Table.toList :=
  sel3 Generated.Funcs.initClipTables _ _ _ _ tie_initClipTables
theorem sel0 (x : R (List Int × List Int × List Int × List Int)) (a b c d : List Int) (h : x = .ok (a, b, c, d)) :
    Generated.Funcs.initClipTables_0 x = a := by subst h; rfl
theorem dsp_sclip1_eq : Generated.Funcs.dsp_sclip1 = Webp.Impl.VP8Kernels.sclip1Table.toList :=
  sel0 Generated.Funcs.initClipTables _ _ _ _ tie_initClipTables
theorem sel1 (x : R (List Int × List Int × List Int × List Int)) (a b c d : List Int) (h : x = .ok (a, b, c, d)) :
    Generated.Funcs.initClipTables_1 x = b := by subst h; rfl
theorem dsp_sclip2_eq : Generated.Funcs.dsp_sclip2 = Webp.Impl.VP8Kernels.sclip2Table.toList :=
  sel1 Generated.Funcs.initClipTables _ _ _ _ tie_initClipTables
theorem sel2 (x : R (List Int × List Int × List Int × List Int)) (a b c d : List Int) (h : x = .ok (a, b, c, d)) :
    Generated.Funcs.initClipTables_2 x = c := by subst h; rfl
theorem dsp_clip1_eq : Generated.Funcs.dsp_clip1 = Webp.Impl.VP8Kernels.clip1Table.toList :=
  sel2 Generated.Funcs.initClipTables _ _ _ _ tie_initClipTables

theorem bind_ok_id {α : Type} (x : R α) : (x.bind fun t => Res.ok t) = x := by cases x <;> rfl

theorem tie_Kabs0 (v : Int) : Generated.Funcs.Kabs0 v = toR (kabs0 v) := by
  unfold Generated.Funcs.Kabs0 kabs0; rw [dsp_abs0_eq, idxI_toList, bind_ok_id]
theorem tie_Ksclip1 (v : Int) : Generated.Funcs.Ksclip1 v = toR (ksclip1 v) := by
  unfold Generated.Funcs.Ksclip1 ksclip1; rw [dsp_sclip1_eq, idxI_toList, bind_ok_id]
theorem tie_Ksclip2 (v : Int) : Generated.Funcs.Ksclip2 v = toR (ksclip2 v) := by
  unfold Generated.Funcs.Ksclip2 ksclip2; rw [dsp_sclip2_eq, idxI_toList, bind_ok_id]
theorem tie_Kclip1 (v : Int) : Generated.Funcs.Kclip1 v = toR (kclip1 v) := by
  unfold Generated.Funcs.Kclip1 kclip1; rw [dsp_clip1_eq, idxI_toList, bind_ok_id]

theorem tie_needsFilter (p1 p0 q0 q1 th : Int) :
    Generated.Funcs.needsFilter p1 p0 q0 q1 th = toR (Webp.Impl.VP8Kernels.needsFilter p1 p0 q0 q1 th) := by
  unfold Generated.Funcs.needsFilter Webp.Impl.VP8Kernels.needsFilter
  rw [tie_Kabs0, tie_Kabs0]
  cases kabs0 (p0 - q0) <;> cases kabs0 (p1 - q1) <;> rfl

theorem tie_hev (p1 p0 q0 q1 t : Int) :
    Generated.Funcs.hev p1 p0 q0 q1 t = toR (Webp.Impl.VP8Kernels.hev p1 p0 q0 q1 t) := by
  unfold Generated.Funcs.hev Webp.Impl.VP8Kernels.hev
  rw [tie_Kabs0, tie_Kabs0]
  cases kabs0 (p1 - p0) with
  | none => rfl
  | some a =>
    by_cases h : a > t
    · simp [toR, h, Res.bind]
    · cases kabs0 (q1 - q0) <;> simp [toR, h, Res.bind]

theorem tie_needsFilter2 (p3 p2 p1 p0 q0 q1 q2 q3 th ith : Int) :
    Generated.Funcs.needsFilter2 p3 p2 p1 p0 q0 q1 q2 q3 th ith
      = toR (Webp.Impl.VP8Kernels.needsFilter2 p3 p2 p1 p0 q0 q1 q2 q3 th ith) := by
  unfold Generated.Funcs.needsFilter2 Webp.Impl.VP8Kernels.needsFilter2
  rw [tie_needsFilter]
  simp only [tie_Kabs0]
  cases Webp.Impl.VP8Kernels.needsFilter p1 p0 q0 q1 th with
  | none => rfl
  | some b0 =>
    cases b0 with
    | false => rfl
    | true =>
      cases kabs0 (p3 - p2) with
      | none => rfl
      | some a1 =>
        by_cases h1 : a1 ≤ ith
        · cases kabs0 (p2 - p1) with
          | none => ((try simp only [← Int.not_le]); simp [toR, h1, Int.not_lt.mpr h1, Res.bind])
          | some a2 =>
            by_cases h2 : a2 ≤ ith
            · cases kabs0 (p1 - p0) with
              | none => ((try simp only [← Int.not_le]); simp [toR, h1, h2, Int.not_lt.mpr h1, Int.not_lt.mpr h2, Res.bind])
              | some a3 =>
                by_cases h3 : a3 ≤ ith
                · cases kabs0 (q3 - q2) with
                  | none => ((try simp only [← Int.not_le]); simp [toR, h1, h2, h3, Int.not_lt.mpr h1, Int.not_lt.mpr h2, Int.not_lt.mpr h3, Res.bind])
                  | some a4 =>
                    by_cases h4 : a4 ≤ ith
                    · cases kabs0 (q2 - q1) with
                      | none => ((try simp only [← Int.not_le]); simp [toR, h1, h2, h3, h4, Int.not_lt.mpr h1, Int.not_lt.mpr h2, Int.not_lt.mpr h3, Int.not_lt.mpr h4, Res.bind])
                      | some a5 =>
                        by_cases h5 : a5 ≤ ith
                        · cases kabs0 (q1 - q0) <;> ((try simp only [← Int.not_le]); simp [toR, h1, h2, h3, h4, h5, Int.not_lt.mpr h1, Int.not_lt.mpr h2, Int.not_lt.mpr h3, Int.not_lt.mpr h4, Int.not_lt.mpr h5, Res.bind])
                        · ((try simp only [← Int.not_le]); simp [toR, h1, h2, h3, h4, h5, Int.not_lt.mpr h1, Int.not_lt.mpr h2, Int.not_lt.mpr h3, Int.not_lt.mpr h4, Int.not_le.mp h5, Res.bind])
                    · ((try simp only [← Int.not_le]); simp [toR, h1, h2, h3, h4, Int.not_lt.mpr h1, Int.not_lt.mpr h2, Int.not_lt.mpr h3, Int.not_le.mp h4, Res.bind])
                · ((try simp only [← Int.not_le]); simp [toR, h1, h2, h3, Int.not_lt.mpr h1, Int.not_lt.mpr h2, Int.not_le.mp h3, Res.bind])
            · ((try simp only [← Int.not_le]); simp [toR, h1, h2, Int.not_lt.mpr h1, Int.not_le.mp h2, Res.bind])
        · ((try simp only [← Int.not_le]); simp [toR, h1, Int.not_le.mp h1, Res.bind])

/-- non-vacuity: |3| ≤ 5 etc. -/
example : Generated.Funcs.Kabs0 (-3) = .ok 3 := by rw [tie_Kabs0]; decide +kernel
example : Generated.Funcs.Ksclip1 200 = .ok 127 := by rw [tie_Ksclip1]; decide +kernel
example : Generated.Funcs.Kabs0 300 = .panic := by rw [tie_Kabs0]; decide +kernel

end Webp.Props.C04FuncsFilter
