import Webp.Proofs.BoolCoderBatch
import Webp.Props.C06Bytes
import Webp.Proofs.C04RefineOps
import Webp.Proofs.BoolCoderFastRead
/-
  C06, boolean-coder layer, the register-cached code paths (formerly "differential only"):

  1. `PutBitBatchPacked` (what `TokenBuffer.EmitTokens` / `EmitTokensPartitioned` call, page chunk by page
     chunk) is the sequence of `PutBit`s of its packed `(bit, prob)` pairs — so `emitPartitionBytes` of
     `Webp.Props.C06Bytes` is the real emit path, however the tokens are chunked.
  2. `GetSigned` …  3. `fastBit` / `fastSigned` / `brLoad` / `brSync` …  (sections below)

  Models: `Webp.Impl.BoolCoderFast` (statement by statement; tied by the suite "boolcoder").
-/
namespace Webp.Props.C06Bool2
open Webp.Go (Bytes)
open Webp.Impl.BoolCoder Webp.Impl.VP8Recon Webp.Impl.VP8SyntaxBytes
open Webp.Proofs.BoolCoderBatch

/-! ## 1. `PutBitBatchPacked` -/

/-- **`putBitBatchPacked_eq_putBits`**: for a slice holding `count` pairs, `PutBitBatchPacked(data, count)`
    leaves the writer exactly as `PutBit(data[2i], data[2i+1])`, `i = 0 … count−1`, does (registers,
    pending run, bytes, and the panic of a probability/bit combination `PutBit` would panic on). -/
theorem putBitBatchPacked_eq_putBits (w : BoolWriter) (data : Bytes) (count : Int)
    (hlen : 2 * count.toNat ≤ data.length) :
    putBitBatchPacked w data count = (unpack data count.toNat).foldl (fun w p => putBit w p.1 p.2) w :=
  putBitBatchPacked_eq w data count hlen

/-- a short slice panics at the bounds hint `data[count*2-1]` -/
theorem putBitBatchPacked_short (w : BoolWriter) (data : Bytes) (count : Int) (hc : 0 < count) (hp : w.panicked = false)
    (hlen : data.length < 2 * count.toNat) : (putBitBatchPacked w data count).panicked = true := by
  unfold putBitBatchPacked
  have : ¬ count ≤ 0 := by omega
  simp [this, hp, hlen]

/-- a page of tokens as `EmitTokens` hands it over: `Token{Bit, Prob uint8}` reinterpreted as bytes -/
def packTokens (prob : Slot → UInt8) (s : Stream) : Bytes :=
  s.flatMap fun d => [if d.bit then 1 else 0, prob d.slot]

theorem unpackFrom_cons2 (a b : UInt8) (rest : Bytes) (n i : Nat) :
    unpackFrom (a :: b :: rest) n (i + 1) = unpackFrom rest n i := by
  induction n generalizing i with
  | zero => rfl
  | succ n ih =>
    show (_ :: unpackFrom (a :: b :: rest) n (i + 1 + 1)) = (_ :: unpackFrom rest n (i + 1))
    rw [ih]
    have e1 : (i + 1) * 2 = i * 2 + 1 + 1 := by omega
    have e2 : (i + 1) * 2 + 1 = i * 2 + 1 + 1 + 1 := by omega
    rw [e1]
    rfl

theorem unpack_packTokens (prob : Slot → UInt8) (s : Stream) :
    unpack (packTokens prob s) s.length = s.map fun d => (d.bit, (prob d.slot).toNat) := by
  induction s with
  | nil => rfl
  | cons d s ih =>
    show unpackFrom ((if d.bit then 1 else 0) :: prob d.slot :: packTokens prob s) (s.length + 1) 0 = _
    show (_ :: unpackFrom ((if d.bit then 1 else 0) :: prob d.slot :: packTokens prob s) s.length (0 + 1)) = _
    rw [unpackFrom_cons2]
    show (_ :: unpack (packTokens prob s) s.length) = _
    rw [ih]
    simp only [List.map_cons, List.cons.injEq, and_true, Prod.mk.injEq]
    refine ⟨?_, rfl⟩
    cases d.bit <;> rfl

theorem packTokens_length (prob : Slot → UInt8) (s : Stream) : (packTokens prob s).length = 2 * s.length := by
  induction s with
  | nil => rfl
  | cons d s ih =>
    show ([_, _] ++ packTokens prob s).length = _
    simp only [List.length_append, List.length_cons, List.length_nil, ih]
    omega

/-- one batch of tokens is the `PutBit`s of its decisions -/
theorem batch_eq_puts (prob : Slot → UInt8) (w : BoolWriter) (s : Stream) :
    putBitBatchPacked w (packTokens prob s) s.length = (toOps prob s).foldl Op.write w := by
  rw [putBitBatchPacked_eq w _ _ (by rw [packTokens_length]; simp), Int.toNat_natCast, unpack_packTokens]
  unfold toOps
  rw [List.foldl_map, List.foldl_map]
  rfl

/-- **`emitPartitionBytes` is the real emit path**: `EmitTokens` pushes the tokens of a partition
    through `PutBitBatchPacked` page chunk by page chunk — whatever the chunking, `Finish` returns
    `emitPartitionBytes prob [] (all decisions)`, the byte string the theorems of `C06Bytes` /
    `C06Header` are about. -/
theorem emitPartitionBytes_via_batches (prob : Slot → UInt8) (chunks : List Stream) :
    finish (chunks.foldl (fun w c => putBitBatchPacked w (packTokens prob c) c.length) newWriter) =
      emitPartitionBytes prob [] chunks.flatten := by
  have h : ∀ (w : BoolWriter), chunks.foldl (fun w c => putBitBatchPacked w (packTokens prob c) c.length) w =
      (toOps prob chunks.flatten).foldl Op.write w := by
    induction chunks with
    | nil => intro w; rfl
    | cons c cs ih =>
      intro w
      rw [List.foldl_cons, ih, batch_eq_puts, List.flatten_cons]
      unfold toOps
      rw [List.map_append, List.foldl_append]
  unfold emitPartitionBytes
  rw [h, List.nil_append]

/-- non-vacuity: three chunks (one empty, as between pages) of mode and token decisions -/
example :
    finish ([writeUVMode 3, [], writeI16Mode 2 ++ writeUVMode 1].foldl
      (fun w c => putBitBatchPacked w (packTokens (fun _ => 77) c) c.length) newWriter) =
    emitPartitionBytes (fun _ => 77) [] (writeUVMode 3 ++ writeI16Mode 2 ++ writeUVMode 1) := by
  decide

/-! ## 2. `GetSigned` -/

open Webp.Proofs.C04RefineBool Webp.Proofs.C04RefineOps in
/-- **Reachable-state invariant**: after ANY decision (`GetBit` with a byte probability) on a reader in
    step with the ideal decoder (`GInv`: every reader over data not starting with 0xff, from
    `NewBoolReader` on — `ginv_init`, `getBit_ginv`) Go's `Range` is at most 253. -/
theorem range_le_253_after_decision {F : Bytes} {r : BoolReader} {d : Webp.Spec.VP8.BoolIdeal.Dec}
    (h : GInv F r d) (hpe : pastEnd r = false) {p : Nat} (hp : p ≤ 255) :
    (getBit r p).2.range ≤ 253 ∧ GInv F (getBit r p).2 (d.get p).2 := by
  obtain ⟨_, h'⟩ := getBit_ginv h hpe hp
  have h1 := get_range_le_254 h.hv.hd hp
  have h2 : (getBit r p).2.range + 1 = (d.get p).2.range := h'.hv.hr
  exact ⟨by omega, h'⟩

open Webp.Proofs.C04RefineBool Webp.Proofs.C04RefineOps in
/-- **`getSigned_eq_getBit128`**: `GetSigned` is `GetBit(0x80)` (same decision, same `Value`, `Range`,
    `Bits`, position) in every state with `Range ≤ 253`. -/
theorem getSigned_eq_getBit128 {F : Bytes} {r : BoolReader} {d : Webp.Spec.VP8.BoolIdeal.Dec} (h : GInv F r d)
    (hpe : pastEnd r = false) (h253 : r.range ≤ 253) : getSigned r = getBit r 128 :=
  getSigned_eq_getBit h hpe (by omega)

open Webp.Proofs.C04RefineBool Webp.Proofs.C04RefineOps in
/-- … hence in every state reached by at least one decision — no side condition on `Range` left.
    The coefficient sign of `getCoeffsInline` (the read `rd (.fixed 128)` of `T.getLoop`) always
    follows the reads of `p[1]` and `p[2]` of the same coefficient. -/
theorem getSigned_after_decision {F : Bytes} {r : BoolReader} {d : Webp.Spec.VP8.BoolIdeal.Dec} (h : GInv F r d)
    (hpe : pastEnd r = false) {p : Nat} (hp : p ≤ 255) (hpe' : pastEnd (getBit r p).2 = false) :
    getSigned (getBit r p).2 = getBit (getBit r p).2 128 := by
  obtain ⟨h253, h'⟩ := range_le_253_after_decision h hpe hp
  exact getSigned_eq_getBit128 h' hpe' h253

/-- the value `GetSigned(v)` returns, `(v ^ mask) - mask` on `int` with `mask` 0 or −1: `v` or `−v`
    (64-bit two's complement) -/
theorem getSigned_value (v : BitVec 64) : (v ^^^ 0#64) - 0#64 = v ∧ (v ^^^ (-1#64)) - (-1#64) = -v := by
  constructor
  · simp
  · have h1 : (-1#64 : BitVec 64) = BitVec.allOnes 64 := by decide
    rw [h1, BitVec.xor_allOnes, BitVec.sub_eq_add_neg, ← h1, BitVec.neg_neg, BitVec.neg_eq_not_add]

/-! ## 3. the inlined reader of decode_mb.go: `fastBit`, `fastSigned`, `brLoad`, `brSync` -/

open Webp.Proofs.BoolCoderFastRead

/-- **one step**: `if brB < 0 { brV, brB = brLoad(br, brV, brB) }; bit, brV, brR, brB = fastBit(p, brV, brR, brB)`
    is `GetBitAlt(p)` on the reader the locals stand for (`abs s` = what `brSync` writes back), for
    EVERY state whose window offset is in `−8 ..= 55` (kept by every step; true from
    `NewBoolReader` on) — any data, any `Range`. -/
theorem fastBit_step_is_getBitAlt (s : FastSt) (p : Nat) (hb : BitsOK (abs s)) :
    (fastBitStep s p).1 = (getBitAlt (abs s) p).1 ∧ abs (fastBitStep s p).2 = (getBitAlt (abs s) p).2 ∧
      BitsOK (abs (fastBitStep s p).2) :=
  fastBitStep_eq s p hb

/-- the same for `fastSigned`: it is `GetSigned` -/
theorem fastSigned_step_is_getSigned (s : FastSt) (hb : BitsOK (abs s)) :
    (fastSignedStep s).1 = (getSigned (abs s)).1 ∧ abs (fastSignedStep s).2 = (getSigned (abs s)).2 :=
  fastSignedStep_eq s hb

/-- a run of `fastBit` steps between taking the registers into locals and `brSync` is the same run of
    `GetBitAlt` calls on the `BoolReader` -/
theorem fastBit_run_eq_getBitAlt_run (r : BoolReader) (ps : List Nat) (hb : BitsOK r) :
    (fastRun (fastOpen r) ps).1 = (readAltSt r ps).1 ∧ brSync (fastRun (fastOpen r) ps).2 = (readAltSt r ps).2 :=
  fastRun_eq_alt ps (fastOpen r) hb

open Webp.Proofs.C04RefineBool Webp.Proofs.C04RefineOps in
theorem readAlt_eq_readBits {F : Bytes} (ps : List Nat) (hp : ∀ p ∈ ps, p ≤ 255) {r : BoolReader}
    {d : Webp.Spec.VP8.BoolIdeal.Dec} (h : GInv F r d) (hfree : PastEndFree r ps) :
    readAltSt r ps = readBitsSt r ps := by
  induction ps generalizing r d with
  | nil => rfl
  | cons p ps ih =>
    have hp0 := hp p (by simp)
    have hr : r.range + 1 = d.range := h.hv.hr
    have hd := h.hv.hd
    have halt : getBitAlt r p = getBit r p :=
      Webp.Proofs.BoolReader.getBitAlt_eq_getBit r (by have := hd.1; omega) (by have := hd.2.1; omega) hp0
    obtain ⟨_, h'⟩ := getBit_ginv h hfree.1 hp0
    show ((getBitAlt r p).1 :: (readAltSt (getBitAlt r p).2 ps).1, (readAltSt (getBitAlt r p).2 ps).2) =
      ((getBit r p).1 :: (readBitsSt (getBit r p).2 ps).1, (readBitsSt (getBit r p).2 ps).2)
    rw [halt, ih (fun q hq => hp q (by simp [hq])) h' hfree.2]

open Webp.Proofs.C04RefineBool Webp.Proofs.C04RefineOps in
/-- **`fastBit_run_eq_getBit_run`**: on every reader in step with the ideal decoder (any data not
    starting with 0xff, from `NewBoolReader` on) and for byte probabilities, a run of `fastBit` calls
    under the `brLoad` / `brSync` protocol returns the bits of the same `GetBit` calls and writes back
    the reader those calls leave — as long as no read starts past the end of the data
    (`PastEndFree`, what the decoder's `eof` checks enforce). -/
theorem fastBit_run_eq_getBit_run {F : Bytes} {r : BoolReader} {d : Webp.Spec.VP8.BoolIdeal.Dec} (h : GInv F r d)
    (ps : List Nat) (hp : ∀ p ∈ ps, p ≤ 255) (hfree : PastEndFree r ps) :
    (fastRun (fastOpen r) ps).1 = (readBitsSt r ps).1 ∧ brSync (fastRun (fastOpen r) ps).2 = (readBitsSt r ps).2 := by
  have hb : BitsOK r := ⟨h.hv.hb1, h.hv.hb2⟩
  obtain ⟨h1, h2⟩ := fastRun_eq_alt ps (fastOpen r) hb
  rw [abs_fastOpen] at h1 h2
  rw [← readAlt_eq_readBits ps hp h hfree]
  exact ⟨h1, h2⟩

open Webp.Proofs.C04RefineBool Webp.Proofs.C04RefineOps in
/-- the coefficient sign: `fastSigned` after at least one decision is `GetBit(0x80)` -/
theorem fastSigned_is_getBit128 {F : Bytes} (s : FastSt) {d : Webp.Spec.VP8.BoolIdeal.Dec} (h : GInv F (abs s) d)
    (hpe : pastEnd (abs s) = false) (h253 : (abs s).range ≤ 253) :
    (fastSignedStep s).1 = (getBit (abs s) 128).1 ∧ abs (fastSignedStep s).2 = (getBit (abs s) 128).2 := by
  have hb : BitsOK (abs s) := ⟨h.hv.hb1, h.hv.hb2⟩
  rw [← getSigned_eq_getBit128 h hpe h253]
  exact fastSignedStep_eq s hb

/-- non-vacuity: a fresh reader satisfies `BitsOK`; a concrete run agrees -/
example : BitsOK (newReader [0x12, 0x34, 0x56, 0x78, 0x9a]) := by unfold BitsOK; decide
example : (fastRun (fastOpen (newReader [0x12, 0x34, 0x56, 0x78, 0x9a])) [1, 200, 128, 3, 255, 77, 128, 128, 9]).1 =
    (readBitsSt (newReader [0x12, 0x34, 0x56, 0x78, 0x9a]) [1, 200, 128, 3, 255, 77, 128, 128, 9]).1 := by decide

#print axioms fastBit_step_is_getBitAlt
#print axioms fastSigned_step_is_getSigned
#print axioms fastBit_run_eq_getBitAlt_run
#print axioms fastBit_run_eq_getBit_run
#print axioms fastSigned_is_getBit128
#print axioms range_le_253_after_decision
#print axioms getSigned_eq_getBit128
#print axioms getSigned_after_decision
#print axioms getSigned_value
#print axioms putBitBatchPacked_eq_putBits
#print axioms emitPartitionBytes_via_batches

end Webp.Props.C06Bool2
