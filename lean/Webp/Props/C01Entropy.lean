import Webp.Proofs.VP8LEntropyStream
import Webp.Proofs.VP8LEntropyPrefixFree
import Webp.Proofs.VP8LEntropyCodeLengthsFull
import Webp.Proofs.VP8LSpecBridge
import Webp.Proofs.VP8LEntropyLocalCache
/-
  Property C01 — lossless encode/decode round trip — ENTROPY LAYER AND CAPSTONE.

  "For every image and every accepted lossless option set, decoding the bytes written by Encode
   yields an image of the same width and height whose every pixel … equals the source pixel."

  Props/C01.lean proves the transform layer and the value codes.  This file proves the rest of the
  mechanism between the transformed pixels and the bytes (DESIGN.md §4.1, T2 and T3), for the
  encoder model `Webp.Impl.VP8LEntropy` (tied to /repo by suite `vp8lentropy`) against the
  SPECIFICATION decoder `Webp.Spec.VP8L`:

    bit writer (WriteBits/Finish)                      ↔ spec bit reader
    generateCanonicalCodes (bit-reversed codes)        ↔ spec canonical prefix decoding
    BuildCodeLengthTokens + StoreHuffmanCode           ↔ spec readCodeLengthVector
    storeImageData (literal / cache / copy tokens,
      prefix values, plane codes)                      ↔ spec readToken / decodePixels
    encodeSubImage, writeTransformData, encodeStream   ↔ spec decodeStream / decode

  Everything the encoder's heuristics decide (backward references, CreateHuffmanTree's code
  lengths, histogram clustering) is a field of a PLAN; the theorems quantify over every plan that
  satisfies an explicit validity predicate (`StreamValid`: Kraft-complete or single-symbol length
  vectors, used symbols have non-zero length, tokens produce exactly width×height pixels, …) —
  the per-run certificate of DESIGN.md §4.1 "Tie (ii)".

  WHAT IS COVERED of a VP8L stream: header; any list of pairwise distinct transforms with their
  entropy-coded data sub-images (predictor / cross-colour tiles, delta-coded palette) and the
  packed-width bookkeeping; colour-cache info (0, 1..11 bits); the five prefix codes, simple or
  normal (code-length code, repeat codes 16/17/18, initial previous length 8, max_symbol trimming);
  literal / colour-cache / LZ77 pixel data; `Finish` padding.
  NOT COVERED (hence `lossless_roundtrip_partial`): streams with a meta prefix image (several
  histograms — the model emitter writes the `0` bit there), the pixel import / `norm` of α=0 pixels
  and the RIFF wrapper; `CreateHuffmanTree` and the reference search are not modelled (plan fields).

  Axioms: `propext`, `Classical.choice`, `Quot.sound`; `lossless_roundtrip_partial` and
  `specDecoder_undoes_encoder` additionally depend on the `bv_decide` certificates of the word-level
  channel lemmas (Webp.Proofs.VP8LSpecBridge: chR/chG/chB/mkARGB; Webp.Proofs.LTransformPixel /
  LTransformPalette as in Props/C01.lean).
-/
namespace Webp.Props.C01Entropy
open Webp.Go (Res)
open Webp.Spec.VP8L
open Webp.Impl.VP8LEntropy
open Webp.Proofs.VP8LEntropyBits (adv)
open Webp.Proofs.VP8LEntropyCanon (offs)
open Webp.Proofs.VP8LEntropyPrefix (symBits)
open Webp.Proofs.VP8LEntropyCodeLengths (normLens IsSimple)
open Webp.Proofs.VP8LEntropyTokens (GroupFor TokenValid treesOf tokenRef tokenRef')
open Webp.Proofs.VP8LEntropyStream (ImageValid StreamValid planPixels planTransforms streamBytes)

/-! ## bit writer ↔ bit reader -/

/-- The bytes `Finish()` returns are the concatenated LSB-first fields, zero-padded to a byte
    boundary — for calls with `nBits ≤ 32` and `v < 2^nBits` (`WriteBits` does NOT mask `v`:
    `writer_unmasked_counterexample`). -/
theorem writer_bits (cs : List Call) (h : ∀ c ∈ cs, c.2 ≤ 32 ∧ c.1 < 2 ^ c.2) :
    ∃ pad, pad < 8 ∧ bytesToBits (runCalls cs).finish.toList = callsBits cs ++ List.replicate pad false :=
  Webp.Proofs.VP8LEntropyWriter.writer_bits cs h

/-- **writer_reader_roundtrip**: the specification's `ReadBits(n)` at the position of a written
    field returns the written value -/
theorem writer_reader_roundtrip (pre post : List Call) (v n : Nat)
    (h : ∀ c ∈ pre ++ (v, n) :: post, c.2 ≤ 32 ∧ c.1 < 2 ^ c.2) :
    let data := ByteArray.mk (runCalls (pre ++ (v, n) :: post)).finish
    BitReader.readBits { data := data, pos := (callsBits pre).length } n =
      .ok (v, { data := data, pos := (callsBits pre).length + n }) :=
  Webp.Proofs.VP8LEntropyWriter.writer_reader_roundtrip pre post v n h

/-- … and for whole sequences -/
theorem writer_reader_roundtrip_all (cs : List Call) (h : ∀ c ∈ cs, c.2 ≤ 32 ∧ c.1 < 2 ^ c.2) :
    let data := ByteArray.mk (runCalls cs).finish
    Webp.Proofs.VP8LEntropyWriter.readAll { data := data } (cs.map (·.2)) =
      .ok (cs.map (·.1), { data := data, pos := (callsBits cs).length }) :=
  Webp.Proofs.VP8LEntropyWriter.writer_reader_roundtrip_all cs h

/-- the hypothesis `v < 2^n` is necessary: `WriteBits(3,1); WriteBits(0,1)` yields byte 3 -/
theorem writer_unmasked_counterexample :
    bytesToBits (runCalls [(3, 1), (0, 1)]).finish.toList ≠ callsBits [(3, 1), (0, 1)] ++ List.replicate 6 false ∧
    (runCalls [(3, 1), (0, 1)]).finish = #[3] ∧ (runCalls [(1, 1), (0, 1)]).finish = #[1] :=
  Webp.Proofs.VP8LEntropyWriter.writer_unmasked_counterexample

/-! ## prefix codes -/

/-- **canonical_codes_prefix_free**: the code words `generateCanonicalCodes` assigns (as written,
    bit-reversed for LSB-first emission) are prefix-free -/
theorem canonical_codes_prefix_free {lens : Array Nat} {code : Code} (h : buildCode lens = .ok code)
    (hm : offs lens 16 ≠ 1) (s s' : Nat) (hs : s < lens.size) (hs' : s' < lens.size)
    (hne : lens.getD s 0 ≠ 0) (hne' : lens.getD s' 0 ≠ 0) (hss : s ≠ s') :
    ¬ (symBits lens s <+: symBits lens s') :=
  Webp.Proofs.VP8LEntropyPrefixFree.canonical_codes_prefix_free h hm s s' hs hs' hne hne' hss

/-- **prefix_roundtrip**: for every length vector the specification accepts (Kraft-complete, or a
    single symbol — written with ZERO bits after `clearHuffmanTreeIfOnlyOneSymbol`) and every used
    symbol `s`, the specification's `readSymbol` with the canonical code reads `s` back from the
    bits `writeHuffmanCode` wrote (`symBits lens s`), consuming exactly those bits. -/
theorem prefix_roundtrip {lens : Array Nat} {code : Code} (h : buildCode lens = .ok code)
    (s : Nat) (hs : s < lens.size) (hl : lens.getD s 0 ≠ 0) (br : BitReader) (rest : List Bool)
    (hb : restBits br = symBits lens s ++ rest) :
    Webp.Spec.VP8L.readSymbol code br = .ok (s, adv br (symBits lens s).length) :=
  Webp.Proofs.VP8LEntropyPrefix.prefix_roundtrip h s hs hl br rest hb

/-- **codeLengths_roundtrip**: the normal form of a prefix code (`storeFullHuffmanCode`: code-length
    code header in `CodeLengthCodeOrder`, `BuildCodeLengthTokens` with repeat codes 16/17/18 and the
    initial previous length 8, optional `max_symbol` trimming) is read back exactly.  `clLens` is
    what `CreateHuffmanTree(tokenHistogram, 7)` chose.  The bound `n ≤ 65539` is sharp (3-bit
    `nbitpairs` field); real alphabets have ≤ 2328 symbols. -/
theorem codeLengths_roundtrip (lens clLens : Array Nat) (clCode : Code) (n : Nat)
    (hsize : lens.size = n) (hl : ∀ l ∈ lens, l ≤ 15) (hn : n ≤ 65539)
    (h19 : clLens.size = 19) (h7 : ∀ l ∈ clLens, l ≤ 7)
    (hcode : buildCode clLens = .ok clCode)
    (hpos : ∀ t ∈ (buildCodeLengthTokens lens).toList, 0 < clLens.getD t.code 0)
    (br : BitReader) (rest : List Bool)
    (hbits : restBits br = callsBits (storeFullHuffmanCode lens clLens) ++ rest) :
    ∃ br', readCodeLengthVector n br = .ok (lens, br') ∧ restBits br' = rest ∧ br'.data = br.data :=
  Webp.Proofs.VP8LEntropyCodeLengthsFull.codeLengths_roundtrip lens clLens clCode n hsize hl hn h19 h7 hcode hpos
    br rest hbits

/-- `StoreHuffmanCode` including the SIMPLE codes: the decoder reconstructs `normLens lens` (used
    lengths become 1 in a simple code; an empty code becomes `{symbol 0 : 1}`) -/
theorem storeHuffmanCode_roundtrip (lens clLens : Array Nat) (n : Nat)
    (hsize : lens.size = n) (hn0 : 0 < n) (hl : ∀ l ∈ lens, l ≤ 15) (hn : n ≤ 65539)
    (hfull : ¬ IsSimple lens → clLens.size = 19 ∧ (∀ l ∈ clLens, l ≤ 7) ∧
      (∃ clCode, buildCode clLens = .ok clCode) ∧
      ∀ t ∈ (buildCodeLengthTokens lens).toList, 0 < clLens.getD t.code 0)
    (br : BitReader) (rest : List Bool)
    (hbits : restBits br = callsBits (storeHuffmanCode lens clLens) ++ rest) :
    ∃ br', readCodeLengthVector n br = .ok (normLens lens, br') ∧ restBits br' = rest ∧ br'.data = br.data :=
  Webp.Proofs.VP8LEntropyCodeLengthsFull.storeHuffmanCode_roundtrip lens clLens n hsize hn0 hl hn hfull br rest hbits

/-! ## tokens -/

/-- **tokens_roundtrip** (one token): what `storeImageData` writes for a literal (green, red, blue,
    alpha), a colour-cache index (symbol 256+24+idx) or a copy (length prefix + extra bits, distance
    prefix + extra bits of the PLANE code) is read back by the specification's `readToken` as the
    same token (copy: the same pixel distance) -/
theorem token_roundtrip {w : Nat} (hw : 1 ≤ w) {g r b a d : Array Nat} {grp : Group}
    (hg : GroupFor g r b a d grp) (t : Token) (hv : TokenValid w g r b a d t)
    (br : BitReader) (rest : List Bool)
    (hb : restBits br = callsBits (emitRef (treesOf g r b a d) (tokenRef' w t)) ++ rest) :
    ∃ br', readToken grp w br = .ok (t, br') ∧ restBits br' = rest ∧ br'.data = br.data :=
  Webp.Proofs.VP8LEntropyTokens.token_roundtrip hw hg t hv br rest hb

/-- **tokens_roundtrip** (the pixel data of one image, single histogram): the specification's
    `decodePixels` on the emitted bits yields the pixels the token list stands for -/
theorem tokens_roundtrip {w h cb : Nat} (hw : 1 ≤ w) {g r b a d : Array Nat} {grp : Group}
    (hg : GroupFor g r b a d grp) (toks : List Token) (hv : ∀ t ∈ toks, TokenValid w g r b a d t)
    (br : BitReader) (rest : List Bool) (px : Array UInt32)
    (hb : restBits br =
      callsBits (storeImageData (locality2D w (toks.map tokenRef)) #[0] #[treesOf g r b a d] w 0) ++ rest)
    (hpx : refDecode listSource (fun _ => 0) w h cb toks = .ok (px, [])) :
    ∃ br', decodePixels { width := w, height := h, cacheBits := cb, groups := #[grp] } br = .ok (px, br') ∧
      restBits br' = rest ∧ br'.data = br.data :=
  Webp.Proofs.VP8LEntropyTokens.tokens_roundtrip hw hg toks hv br rest px hb hpx

/-- **The encoder's cache insertion discipline** (`BackwardRefsWithLocalCache`: every pixel is
    inserted, literals already in the cache become cache indices): if the reference list decodes to
    the image `argb`, the rewritten list decodes to the same pixels (and the same final cache) — for
    every cache size, also when the list already contains cache indices.  The hypothesis is
    necessary (`wrongImage_counterexample` in the proofs file). -/
theorem localCache_preserves_pixels (cb : Nat) (argb : Array UInt32) (refs : List PixOrCopy) (npix : Nat)
    (c : Array UInt32)
    (h : Webp.Proofs.VP8LEntropyLocalCache.execAll npix cb (refs.map Webp.Proofs.VP8LEntropyLocalCache.toToken)
      #[] (cacheNew cb) = .ok (argb, c)) :
    Webp.Proofs.VP8LEntropyLocalCache.execAll npix cb
      ((refsWithLocalCache argb cb refs).map Webp.Proofs.VP8LEntropyLocalCache.toToken) #[] (cacheNew cb)
      = .ok (argb, c) :=
  Webp.Proofs.VP8LEntropyLocalCache.localCache_preserves_pixels cb argb refs npix c h

/-! ## capstone -/

/-- one entropy-coded image (colour-cache info, five codes, pixel data; `encodeSubImage` is the
    case `cb = 0`): bytes of the bit writer → specification parser → the plan's pixels -/
theorem entropyImage_roundtrip (cb : Nat) (p : ImagePlan) (hv : ImageValid cb p) :
    ∃ br' pad, readEntropyCodedImage p.width p.height
        { data := ByteArray.mk (runCalls (encodeEntropyImage cb p)).finish } = .ok (planPixels cb p, br') ∧
      br'.data = ByteArray.mk (runCalls (encodeEntropyImage cb p)).finish ∧
      pad < 8 ∧ restBits br' = List.replicate pad false :=
  Webp.Proofs.VP8LEntropyStream.entropyImage_roundtrip_bytes cb p hv

/-- **The capstone for a whole stream**: for every valid stream plan the SPECIFICATION decoder
    parses the emitted bytes into the plan's transforms (with their decoded data) and the pixels the
    plan's tokens produce, and returns those pixels with the inverse transforms applied. -/
theorem stream_roundtrip (sp : StreamPlan) (hv : StreamValid sp) :
    decode (streamBytes sp) = .ok
      { width := sp.width, height := sp.height, hasAlpha := sp.hasAlpha,
        pixels := applyInverseTransforms sp.height (planTransforms sp) (planPixels sp.cacheBits sp.main) } :=
  Webp.Proofs.VP8LEntropyStream.stream_roundtrip_decode sp hv

/-- the specification's inverse transforms are the ones of Props/C01.lean, so the decoder undoes
    the encoder's forward chain (`ChainValid`: see Props/C01.lean `transform_chain_inv`) -/
theorem specDecoder_undoes_encoder (h : Nat) (xfs : List Webp.Spec.LTransform.Xf) (w : Nat)
    (img : Array UInt32) (hv : Webp.Proofs.LTransformChain.ChainValid h xfs w img) (hsz : img.size = w * h) :
    applyInverseTransforms h (Webp.Proofs.VP8LSpecBridge.ofXfs w xfs)
      (Webp.Impl.LTransform.applyForward h xfs w img) = img :=
  Webp.Proofs.VP8LSpecBridge.specDecoder_undoes_encoder' h xfs w img hv hsz

/-- **lossless_roundtrip_partial** (T3 of DESIGN.md §4.1 for single-histogram streams): if the plan
    is valid, its transform data decodes to the parameters `xfs` the encoder applied
    (`planTransforms sp = ofXfs …`: tiles of predictor / cross-colour, the palette), and its main
    tokens stand for the forward-transformed image, then the specification decoder returns the
    source ARGB image `img`, pixel for pixel.
    Full statement (not proved): the same for plans with a meta prefix image, composed with the pixel
    import (`norm`) and the RIFF wrapper:  `Plan.Valid img p → decode (emit p) = ok (norm exact img)`. -/
theorem lossless_roundtrip_partial (sp : StreamPlan) (hv : StreamValid sp) (img : Array UInt32)
    (xfs : List Webp.Spec.LTransform.Xf)
    (hxf : planTransforms sp = Webp.Proofs.VP8LSpecBridge.ofXfs sp.width xfs)
    (hmain : planPixels sp.cacheBits sp.main = Webp.Impl.LTransform.applyForward sp.height xfs sp.width img)
    (hchain : Webp.Proofs.LTransformChain.ChainValid sp.height xfs sp.width img)
    (hsz : img.size = sp.width * sp.height) :
    decode (streamBytes sp) = .ok
      { width := sp.width, height := sp.height, hasAlpha := sp.hasAlpha, pixels := img } := by
  rw [stream_roundtrip sp hv, hxf, hmain, specDecoder_undoes_encoder sp.height xfs sp.width img hchain hsz]

/-! ## non-vacuity -/

/-- `StreamValid` holds for a concrete 2×2 stream with colour cache, `[subtractGreen, predictor]`,
    a normal three-symbol green code, a cache hit and an overlapping copy -/
example : StreamValid Webp.Proofs.VP8LEntropyStream.Examples.sp :=
  Webp.Proofs.VP8LEntropyStream.Examples.sp_valid

example : ∀ c ∈ [((5 : Nat), (3 : Nat)), (1, 1), (65535, 16), (7, 0 + 3)], c.2 ≤ 32 ∧ c.1 < 2 ^ c.2 := by decide

/-- hypotheses of `prefix_roundtrip` / `canonical_codes_prefix_free` -/
example : (buildCode #[2, 1, 3, 3]).isOk = true ∧ offs #[2, 1, 3, 3] 16 ≠ 1 := by
  refine ⟨by decide +kernel, by decide⟩

end Webp.Props.C01Entropy
