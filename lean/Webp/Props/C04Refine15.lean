import Webp.Proofs.C04RefineFrame1
import Webp.Props.C04Refine14
import Webp.Props.C04Refine6
/-
  Property C04, refinement theorems Impl ↔ Spec, part 15 — pieces of `frame_syntax_eq_spec`, and ONE ITERATION of the
  macroblock loop of `parseFrame` vs `Spec.VP8.decodeCore`, both partitions.

  * `parseModes_skip_segment`: beside `ModeRel`, every successful `parseIntraModeRow` yields a segment id below 4 and a skip
    flag that is down when the frame has no skip probability (`useSkipProba = false`).
  * `segment_factors_eq_spec`: the dequantisation matrix Go uses for a macroblock (`dqm[segment]`) is the entry
    `factors.getD m.segment default` of `decodeCore`'s table, for the header state of `header_eq_spec`, any segment id
    below 4, any convention set with `segDefaultAbsolute = false` (the specification's).
  * `NFRel` (frame-wide packed non-zero contexts vs `cctx`): `nfrel_start` (frame start), `nfrel_row_start` (Go zeroes
    `leftNz` / `leftNzDC`, the specification `cctx.left`), `nfrel_gives_nzrel` / `nfrel_after_mb` (in and out of one macroblock).
  * `mb_syntax_step_eq_spec`: one macroblock of the frame loop.  From related mode contexts (`CRel`), related non-zero
    contexts (`NFRel`), a first-partition reader and a token-partition reader each in step with its reference decoder: if
    Go's `parseIntraModeRow` and then `decodeMB`'s token parse (with the matrix of the parsed segment) succeed with `eof`
    down, then with `M = readMBHeader h x sc d0` and `R = readResiduals h.coeffProbs (factors.getD M.segment) x M cc d1` —
    exactly the two calls of `decodeCore`'s loop body — modes related (`ModeRel`), both context pairs related again, both
    readers in step again, coefficients related (`ResRel`).
  NOT done: the induction over the macroblocks / rows with the partition readers (`partition_index_eq_spec` is the index
  fact) and the `decodeCore` invariant carrying `cctx` / `parts` / coefficients, i.e. `frame_syntax_eq_spec` itself; the
  NonZero codes.
-/
namespace Webp.Props.C04Refine15
open Webp.Go (Bytes)
open Webp.Impl.BoolCoder
open Webp.Spec.VP8
open Webp.Impl.VP8SyntaxBytes (P runR rd)
open Webp.Impl.VP8Recon (Slot Coeffs NzCtx TokCtx MBModes segFin decQuantMatrix)
open Webp.Impl.VP8HeaderBytes (DecHeader)
open Webp.Proofs.C04RefineBool Webp.Proofs.C04RefineOps Webp.Proofs.C04RefineTokens Webp.Proofs.C04RefineResid
open Webp.Proofs.C04RefineModes Webp.Proofs.C04RefineFrame
open Webp.Proofs.C04RefineHeader (HdrRel)

theorem parseModes_skip_segment (prob : Slot → UInt8) (um us : Bool) (prev : Fin 16 → Nat) (gc : Webp.Impl.VP8Recon.ModeCtx)
    (r : BoolReader) (g : MBModes) (gc' : Webp.Impl.VP8Recon.ModeCtx) (r' : BoolReader)
    (h : runR prob (Webp.Impl.VP8SyntaxBytes.T.parseModes um us prev gc) r = some ((g, gc'), r')) :
    (us = false → g.skip = false) ∧ g.segment < 4 :=
  parseModes_runR prob um us prev gc r g gc' r' h

theorem segment_factors_eq_spec (g : DecHeader) (h : FrameHdr) (hr : HdrRel g h) (cv : Conv)
    (hcv : cv.segDefaultAbsolute = false) (seg : Nat) (hseg : seg < 4) :
    decQuantMatrix g.qidx (segFin seg) =
      Webp.Proofs.C04RefineRecon.ofSpec (((Array.range 4).map (dequantFactors h cv)).getD seg default) := by
  rw [factors_getD h cv seg hseg, dequant_cv h cv hcv, segFin_lt seg hseg]
  exact Webp.Props.C04Refine2.header_dequant_eq_spec g h hr ⟨seg, hseg⟩

theorem nfrel_start (mbW : Nat) : NFRel mbW TokCtx.init { above := Array.replicate (9 * mbW) 0 } := nfrel_init mbW

theorem nfrel_row_start {mbW : Nat} {c : TokCtx} {cc : CoeffCtx} (h : NFRel mbW c cc) :
    NFRel mbW c.rowStart { cc with left := Array.replicate 9 0 } := nfrel_rowStart h

theorem nfrel_gives_nzrel {mbW : Nat} {c : TokCtx} {cc : CoeffCtx} (h : NFRel mbW c cc) (x : Nat) (hx : x < mbW) :
    NzRel x cc.above (c.nz x) cc := nzrel_of_nfrel h x hx

theorem nfrel_after_mb {mbW : Nat} {c : TokCtx} {cc : CoeffCtx} (h : NFRel mbW c cc) (x : Nat) (hx : x < mbW)
    (m : Webp.Impl.VP8Recon.ModeCtx) (n' : NzCtx) (cc' : CoeffCtx) (hn : NzRel x cc.above n' cc') :
    NFRel mbW ((c.setModes x m).setNz x n') cc' :=
  nfrel_of_nzrel (nfrel_setModes h x m) x hx n' cc' hn

/-- **one macroblock of the frame loop, both partitions** -/
theorem mb_syntax_step_eq_spec (g : DecHeader) (h : FrameHdr) (hr : HdrRel g h) (cv : Conv)
    (hcv : cv.segDefaultAbsolute = false) (K : Webp.Impl.VP8Recon.Kernels) (mbW x : Nat) (hx : x < mbW)
    (prev : Fin 16 → Nat) (stale : Nat → Coeffs) (gc : Webp.Impl.VP8Recon.ModeCtx) (sc : ModeCtx) (hc : CRel x sc.above gc sc)
    (c : TokCtx) (cc : CoeffCtx) (hn : NFRel mbW c cc)
    {F0 : Bytes} {r0 : BoolReader} {d0 : BoolDec} (hs0 : Sim F0 r0 d0)
    {F1 : Bytes} {r1 : BoolReader} {d1 : BoolDec} (hs1 : Sim F1 r1 d1)
    (mm : MBModes × Webp.Impl.VP8Recon.ModeCtx) (r0' : BoolReader)
    (hgm : runR g.prob (Webp.Impl.VP8SyntaxBytes.T.parseModes g.seg.updateMap g.useSkipProba prev gc) r0 = some (mm, r0'))
    (he0 : r0'.eof = false)
    (rn : Webp.Impl.VP8Recon.ResData × NzCtx) (r1' : BoolReader)
    (hgt : runR g.prob (Webp.Impl.VP8SyntaxBytes.T.parseTokens K (decQuantMatrix g.qidx (segFin mm.1.segment)) mm.1.isI4 mm.1.skip
      g.useSkipProba stale (c.nz x)) r1 = some (rn, r1'))
    (he1 : r1'.eof = false) :
    ∃ M q R, M = readMBHeader h x sc d0 ∧ q = ((Array.range 4).map (dequantFactors h cv)).getD M.1.segment default ∧
      R = readResiduals h.coeffProbs q x M.1 cc d1 ∧
      ModeRel mm.1 M.1 ∧ CRel x sc.above mm.2 M.2.1 ∧ Sim F0 r0' M.2.2 ∧
      Sim F1 r1' R.2.2.2 ∧ NFRel mbW ((c.setModes x mm.2).setNz x rn.2) R.2.2.1 ∧
      ∃ y2, (M.1.skip = false → mm.1.isI4 = false → ∀ j : Fin 16, y2 j =
          (readBlock h.coeffProbs 1 0 (c.topNzDC x + c.leftNzDC) q.y2dc q.y2ac (24 * 16) (Array.replicate 400 0) d1).2.1.getD
            (24 * 16 + j.val) 0) ∧
        ResRel K mm.1.isI4 M.1.skip stale
          (readBlock h.coeffProbs 1 0 (c.topNzDC x + c.leftNzDC) q.y2dc q.y2ac (24 * 16) (Array.replicate 400 0) d1).1 y2 rn.1 R.1 := by
  obtain ⟨m, gc'⟩ := mm
  obtain ⟨res, n'⟩ := rn
  have hfree0 := treeFree_of_eof g.prob _ r0 (m, gc') r0' hgm he0
  obtain ⟨m2, gc2, r2, hrun, hM, hC, hS0⟩ := Webp.Props.C04Refine6.mb_modes_eq_spec_of_header g h hr x prev gc sc hc hs0 hfree0
  rw [hgm] at hrun
  cases hrun
  obtain ⟨hskip, hseg⟩ := parseModes_runR g.prob _ _ prev gc r0 m gc' r0' hgm
  have hsegM : (readMBHeader h x sc d0).1.segment = m.segment := hM.seg
  have hq : ((Array.range 4).map (dequantFactors h cv)).getD (readMBHeader h x sc d0).1.segment default =
      dequantFactors h {} m.segment := by
    rw [hsegM, factors_getD h cv _ hseg, dequant_cv h cv hcv]
  have hsk : (readMBHeader h x sc d0).1.skip = (g.useSkipProba && m.skip) := by
    rw [hM.skip]
    cases hu : g.useSkipProba with
    | true => simp
    | false => rw [hskip hu]; rfl
  have hI := Webp.Props.C04Refine14.modeRel_gives_hasY2 m _ hM
  have hfree1 := treeFree_of_eof g.prob _ r1 (res, n') r1' hgt he1
  rw [segFin_lt _ hseg] at hgt hfree1
  obtain ⟨res2, n2, r12, y2, hrun1, hS1, hNz, hy2, hRes⟩ := Webp.Props.C04Refine14.mb_residuals_eq_spec_go_of_header g h hr K
    ⟨m.segment, hseg⟩ m.isI4 m.skip stale (c.nz x) x cc.above (readMBHeader h x sc d0).1 cc hsk hI (nzrel_of_nfrel hn x hx) hs1 hfree1
  rw [hgt] at hrun1
  cases hrun1
  refine ⟨_, _, _, rfl, rfl, rfl, hM, hC, hS0, ?_, ?_, y2, ?_, ?_⟩
  · rw [hq]; exact hS1
  · rw [hq]; exact nfrel_of_nzrel (nfrel_setModes hn x gc') x hx n' _ hNz
  · rw [hq]; exact hy2
  · rw [hq]; exact hRes

#print axioms parseModes_skip_segment
#print axioms segment_factors_eq_spec
#print axioms nfrel_after_mb
#print axioms mb_syntax_step_eq_spec

end Webp.Props.C04Refine15
