import Mathlib.Tactic.SplitIfs
import Webp.Proofs.Opts
/-
  Property C20 — option handling is total and matches its documentation.

  All statements are about `Webp.Impl.Opts.front`, the model of `webp.Encode` up to the codec
  calls (see `Webp/Impl/Opts.lean` for what is and is not modelled: no float arithmetic, the
  dithering amplitude is a free function of Quality, the codecs are outside).  Two option
  values with equal `front` hand byte-for-byte the same inputs to the codecs and to `writeRIFF`
  for the same image, so an equality of `front`s is an equality of output files *provided the
  codecs are functions of their arguments* (properties C10–C12).

  Tie to /repo: suite `opts` (harness/cmd/vcheck/suite_opts.go).
-/
namespace Webp.Props.C20
open Webp.Go Webp.Impl.Opts

/-! ## 1. totality: error or a configuration inside the codec domain; never panic/hang -/

/-- For every options value (including nil) and every image/writer situation, the front end
    of `Encode` either returns an error or hands the codecs a configuration inside the ranges
    they assume.  (`Res.panic` / `Res.hang` are excluded by the disjunction.) -/
theorem front_total (o : Option Opts) (d : ImgDims) :
    (∃ e, front o d = .err e) ∨ (∃ r, front o d = .ok r ∧ InCodecDomain r) := by
  have key : ∀ o : Opts, (∃ e, front (some o) d = .err e) ∨
      (∃ r, front (some o) d = .ok r ∧ InCodecDomain r) := by
    intro o
    rcases front_cases o d with h | ⟨h, _, _, hv, hd⟩
    · exact .inl h
    · exact .inr ⟨_, h, dispatch_inDomain o d ((validate_none_iff o).1 hv) hd⟩
  cases o with
  | none => exact key defaultOptions
  | some o => exact key o

example : ∃ r, front (some defaultOptions) { w := 1, h := 16383, hasAlpha := true } = .ok r ∧
    InCodecDomain r := by
  rcases front_total (some defaultOptions) { w := 1, h := 16383, hasAlpha := true } with ⟨e, h⟩ | h
  · have hk : (front (some defaultOptions) { w := 1, h := 16383, hasAlpha := true }).isOk = true := by decide
    rw [h] at hk; cases hk
  · exact h

/-- Exact characterisation of acceptance: `Encode` gets past its front end iff writer and image
    are non-nil, every field is inside its documented domain (`DocValid`: documented ranges,
    negative sentinels allowed where documented, finite floats) and both dimensions are in
    1..16383. -/
theorem front_ok_iff (o : Opts) (d : ImgDims) :
    (∃ r, front (some o) d = .ok r) ↔
      (d.writerNil = false ∧ d.imgNil = false ∧ DocValid o ∧ DimsOk d.w d.h) := by
  constructor
  · rintro ⟨r, h⟩
    obtain ⟨hw, hi, hv, hd, _⟩ := front_ok_inv o d r h
    exact ⟨hw, hi, (validate_none_iff o).1 hv, hd⟩
  · rintro ⟨hw, hi, hv, hd⟩
    exact ⟨_, front_ok_of o d hw hi ((validate_none_iff o).2 hv) hd⟩

example : (front (some zeroOptions) { w := 7, h := 5 }).isOk = true := by decide

/-- everything outside that domain is an error (contrapositive of `front_ok_iff`, in the form
    used by the per-field corollaries below) -/
theorem rejected_of (o : Opts) (d : ImgDims)
    (h : ¬ (d.writerNil = false ∧ d.imgNil = false ∧ DocValid o ∧ DimsOk d.w d.h)) :
    ∃ e, front (some o) d = .err e := by
  rcases front_cases o d with he | ⟨hok, hw, hi, hv, hd⟩
  · exact he
  · exact absurd ⟨hw, hi, (validate_none_iff o).1 hv, hd⟩ h

/-! ### rejects, per field -/

theorem rejects_nil_writer (o : Option Opts) (d : ImgDims) (h : d.writerNil = true) :
    front o d = .err .nilWriter := by simp [front, h]

theorem rejects_nil_image (o : Option Opts) (d : ImgDims) (hw : d.writerNil = false)
    (h : d.imgNil = true) : front o d = .err .nilImage := by simp [front, h, hw]

theorem rejects_empty_image (o : Opts) (d : ImgDims) (h : d.w ≤ 0 ∨ d.h ≤ 0) :
    ∃ e, front (some o) d = .err e :=
  rejected_of o d (by rintro ⟨_, _, _, h1, _, h2, _⟩; omega)

theorem rejects_oversize_image (o : Opts) (d : ImgDims) (h : d.w > 16383 ∨ d.h > 16383) :
    ∃ e, front (some o) d = .err e :=
  rejected_of o d (by rintro ⟨_, _, _, _, h1, _, h2⟩; omega)

theorem rejects_quality_nan (o : Opts) (d : ImgDims) (h : o.quality = .nan) :
    ∃ e, front (some o) d = .err e :=
  rejected_of o d (by rintro ⟨_, _, hv, _⟩; have := hv.quality.2.2.1; simp [h, F32.isNaN] at this)

theorem rejects_quality_inf (o : Opts) (d : ImgDims) (h : o.quality = .posInf ∨ o.quality = .negInf) :
    ∃ e, front (some o) d = .err e :=
  rejected_of o d (by
    rintro ⟨_, _, hv, _⟩; have := hv.quality.2.2.2
    rcases h with h | h <;> simp [h, F32.isInf] at this)

theorem rejects_quality_negative (o : Opts) (d : ImgDims) (h : o.quality.ltZero = true) :
    ∃ e, front (some o) d = .err e :=
  rejected_of o d (by rintro ⟨_, _, hv, _⟩; have := hv.quality.1; simp [h] at this)

theorem rejects_quality_above_100 (o : Opts) (d : ImgDims) (h : o.quality.gtNat 100 = true) :
    ∃ e, front (some o) d = .err e :=
  rejected_of o d (by rintro ⟨_, _, hv, _⟩; have := hv.quality.2.1; simp [h] at this)

theorem rejects_targetPSNR_nan (o : Opts) (d : ImgDims) (h : o.targetPSNR = .nan) :
    ∃ e, front (some o) d = .err e :=
  rejected_of o d (by rintro ⟨_, _, hv, _⟩; have := hv.targetPSNR.2.1; simp [h, F32.isNaN] at this)

theorem rejects_targetPSNR_inf (o : Opts) (d : ImgDims)
    (h : o.targetPSNR = .posInf ∨ o.targetPSNR = .negInf) : ∃ e, front (some o) d = .err e :=
  rejected_of o d (by
    rintro ⟨_, _, hv, _⟩; have := hv.targetPSNR.2.2
    rcases h with h | h <;> simp [h, F32.isInf] at this)

theorem rejects_targetPSNR_negative (o : Opts) (d : ImgDims) (h : o.targetPSNR.ltZero = true) :
    ∃ e, front (some o) d = .err e :=
  rejected_of o d (by rintro ⟨_, _, hv, _⟩; have := hv.targetPSNR.1; simp [h] at this)

theorem rejects_method (o : Opts) (d : ImgDims) (h : o.method < 0 ∨ o.method > 6) :
    ∃ e, front (some o) d = .err e :=
  rejected_of o d (by rintro ⟨_, _, hv, _⟩; have := hv.method; omega)

theorem rejects_targetSize (o : Opts) (d : ImgDims) (h : o.targetSize < 0) :
    ∃ e, front (some o) d = .err e :=
  rejected_of o d (by rintro ⟨_, _, hv, _⟩; have := hv.targetSize; omega)

theorem rejects_preprocessing (o : Opts) (d : ImgDims) (h : o.preprocessing < 0 ∨ o.preprocessing > 3) :
    ∃ e, front (some o) d = .err e :=
  rejected_of o d (by rintro ⟨_, _, hv, _⟩; have := hv.preprocessing; omega)

theorem rejects_preset (o : Opts) (d : ImgDims) (h : o.preset < 0 ∨ o.preset > 5) :
    ∃ e, front (some o) d = .err e :=
  rejected_of o d (by rintro ⟨_, _, hv, _⟩; have := hv.preset; omega)

theorem rejects_snsStrength (o : Opts) (d : ImgDims) (h : o.snsStrength > 100) :
    ∃ e, front (some o) d = .err e :=
  rejected_of o d (by rintro ⟨_, _, hv, _⟩; have := hv.snsStrength; omega)

theorem rejects_filterStrength (o : Opts) (d : ImgDims) (h : o.filterStrength > 100) :
    ∃ e, front (some o) d = .err e :=
  rejected_of o d (by rintro ⟨_, _, hv, _⟩; have := hv.filterStrength; omega)

theorem rejects_filterSharpness (o : Opts) (d : ImgDims)
    (h : o.filterSharpness < 0 ∨ o.filterSharpness > 7) : ∃ e, front (some o) d = .err e :=
  rejected_of o d (by rintro ⟨_, _, hv, _⟩; have := hv.filterSharpness; omega)

theorem rejects_filterType (o : Opts) (d : ImgDims) (h : o.filterType > 1) :
    ∃ e, front (some o) d = .err e :=
  rejected_of o d (by rintro ⟨_, _, hv, _⟩; have := hv.filterType; omega)

theorem rejects_partitions (o : Opts) (d : ImgDims) (h : o.partitions < 0 ∨ o.partitions > 3) :
    ∃ e, front (some o) d = .err e :=
  rejected_of o d (by rintro ⟨_, _, hv, _⟩; have := hv.partitions; omega)

theorem rejects_segments (o : Opts) (d : ImgDims) (h : o.segments > 4) :
    ∃ e, front (some o) d = .err e :=
  rejected_of o d (by rintro ⟨_, _, hv, _⟩; have := hv.segments; omega)

theorem rejects_pass (o : Opts) (d : ImgDims) (h : o.pass > 10) :
    ∃ e, front (some o) d = .err e :=
  rejected_of o d (by rintro ⟨_, _, hv, _⟩; have := hv.pass; omega)

/-- QMin < 0, QMax > 100, or QMin above the (resolved) QMax -/
theorem rejects_qMinMax (o : Opts) (d : ImgDims)
    (h : o.qMin < 0 ∨ o.qMax > 100 ∨ (0 ≤ o.qMax ∧ o.qMin > o.qMax) ∨ o.qMin > 100) :
    ∃ e, front (some o) d = .err e :=
  rejected_of o d (by
    rintro ⟨_, _, hv, _⟩
    have := hv.qMinMax
    simp only [docMeaning, docDefault] at this
    split_ifs at this <;> omega)

theorem rejects_alphaCompression (o : Opts) (d : ImgDims) (h : o.alphaCompression > 1) :
    ∃ e, front (some o) d = .err e :=
  rejected_of o d (by rintro ⟨_, _, hv, _⟩; have := hv.alphaCompression; omega)

theorem rejects_alphaFiltering (o : Opts) (d : ImgDims) (h : o.alphaFiltering > 2) :
    ∃ e, front (some o) d = .err e :=
  rejected_of o d (by rintro ⟨_, _, hv, _⟩; have := hv.alphaFiltering; omega)

theorem rejects_alphaQuality (o : Opts) (d : ImgDims) (h : o.alphaQuality > 100) :
    ∃ e, front (some o) d = .err e :=
  rejected_of o d (by rintro ⟨_, _, hv, _⟩; have := hv.alphaQuality; omega)

theorem rejects_metadata_too_large (o : Opts) (d : ImgDims)
    (h : lenOf o.icc > 104857600 ∨ lenOf o.exif > 104857600 ∨ lenOf o.xmp > 104857600) :
    ∃ e, front (some o) d = .err e :=
  rejected_of o d (by
    rintro ⟨_, _, hv, _⟩
    have h1 := hv.icc; have h2 := hv.exif; have h3 := hv.xmp
    unfold maxEncoderMetadataSize at h1 h2 h3
    omega)

-- non-vacuity: each rejecting hypothesis is satisfiable, and the predicted class is the coded one
example : front (some { defaultOptions with quality := .nan }) { w := 1, h := 1 } = .err .quality := by decide
example : front (some { defaultOptions with quality := F32.ofBits 0x42C80001 }) { w := 1, h := 1 } = .err .quality := by decide
example : front (some { defaultOptions with quality := F32.ofBits 0x80000001 }) { w := 1, h := 1 } = .err .quality := by decide
example : (front (some { defaultOptions with quality := F32.ofBits 0x80000000 }) { w := 1, h := 1 }).isOk = true := by decide
example : front (some { defaultOptions with targetPSNR := .posInf }) { w := 1, h := 1 } = .err .targetPSNR := by decide
example : front (some { defaultOptions with segments := 5 }) { w := 1, h := 1 } = .err .segments := by decide
example : front (some { defaultOptions with qMin := 60, qMax := 50 }) { w := 1, h := 1 } = .err .qMinMax := by decide
example : front (some { defaultOptions with xmp := some 104857601 }) { w := 1, h := 1 } = .err .xmp := by decide
example : front (some defaultOptions) { w := 16384, h := 1 } = .err .dimsTooLarge := by decide
example : front (some defaultOptions) { w := 0, h := 1 } = .err .dimsEmpty := by decide
example : front none { w := 1, h := 1, imgNil := true } = .err .nilImage := by decide

/-! ## 2. documented sentinels: byte-identical to the explicit documented default

`docDefault f` is the constant copied from the sentence "The default value -1 (or any value
< 0) is treated as N" of the field's doc comment (mechanically re-extracted from
/repo/encode.go and compared by suite `opts`, op `optdoc`).  Each theorem holds for **every**
options value `o` (valid or not: when another field is invalid both sides are the same error)
and every negative `s`, in particular `-1`, `-2` and `math.MinInt`.  The `example` after each
shows (i) an instance, (ii) that both sides are an accepted configuration, (iii) that the
field is not simply ignored (a neighbouring explicit value resolves differently). -/

theorem sentinel_equiv_SNSStrength (o : Opts) (d : ImgDims) (s : Int) (hs : s < 0) :
    front (some { o with snsStrength := s }) d =
      front (some { o with snsStrength := docDefault .snsStrength }) d := by
  apply front_congr
  · have h1 : ¬ s > 100 := by omega
    simp [validateConfig, docDefault, h1]
  · have h2 : ¬ s ≥ 0 := by omega
    simp [dispatch, propagate_eq, alphaConfig, hasMetadata, docDefault, h2]

example : front (some { defaultOptions with snsStrength := -7 }) { w := 9, h := 7, hasAlpha := true } =
      front (some { defaultOptions with snsStrength := 50 }) { w := 9, h := 7, hasAlpha := true } ∧
    (front (some { defaultOptions with snsStrength := 50 }) { w := 9, h := 7, hasAlpha := true }).isOk = true ∧
    front (some { defaultOptions with snsStrength := 49 }) { w := 9, h := 7, hasAlpha := true } ≠
      front (some { defaultOptions with snsStrength := 50 }) { w := 9, h := 7, hasAlpha := true } := by decide

theorem sentinel_equiv_FilterStrength (o : Opts) (d : ImgDims) (s : Int) (hs : s < 0) :
    front (some { o with filterStrength := s }) d =
      front (some { o with filterStrength := docDefault .filterStrength }) d := by
  apply front_congr
  · have h1 : ¬ s > 100 := by omega
    simp [validateConfig, docDefault, h1]
  · have h2 : ¬ s ≥ 0 := by omega
    simp [dispatch, propagate_eq, alphaConfig, hasMetadata, docDefault, h2]

example : front (some { defaultOptions with filterStrength := -1 }) { w := 9, h := 7, hasAlpha := true } =
      front (some { defaultOptions with filterStrength := 60 }) { w := 9, h := 7, hasAlpha := true } ∧
    (front (some { defaultOptions with filterStrength := 60 }) { w := 9, h := 7, hasAlpha := true }).isOk = true ∧
    front (some { defaultOptions with filterStrength := 59 }) { w := 9, h := 7, hasAlpha := true } ≠
      front (some { defaultOptions with filterStrength := 60 }) { w := 9, h := 7, hasAlpha := true } := by decide

theorem sentinel_equiv_FilterType (o : Opts) (d : ImgDims) (s : Int) (hs : s < 0) :
    front (some { o with filterType := s }) d =
      front (some { o with filterType := docDefault .filterType }) d := by
  apply front_congr
  · have h1 : ¬ s > 1 := by omega
    simp [validateConfig, docDefault, h1]
  · have h2 : ¬ s ≥ 0 := by omega
    simp [dispatch, propagate_eq, alphaConfig, hasMetadata, docDefault, h2]

example : front (some { defaultOptions with filterType := -2 }) { w := 9, h := 7, hasAlpha := true } =
      front (some { defaultOptions with filterType := 1 }) { w := 9, h := 7, hasAlpha := true } ∧
    (front (some { defaultOptions with filterType := 1 }) { w := 9, h := 7, hasAlpha := true }).isOk = true ∧
    front (some { defaultOptions with filterType := 0 }) { w := 9, h := 7, hasAlpha := true } ≠
      front (some { defaultOptions with filterType := 1 }) { w := 9, h := 7, hasAlpha := true } := by decide

/-- Segments: negative (documented in the field comment) **and** zero (documented in
    `validateConfig`: "zero acts as a sentinel meaning use default", error text "0 or -1 for default") -/
theorem sentinel_equiv_Segments (o : Opts) (d : ImgDims) (s : Int) (hs : s < 0 ∨ s = 0) :
    front (some { o with segments := s }) d =
      front (some { o with segments := docDefault .segments }) d := by
  apply front_congr
  · have h1 : ¬ s > 4 := by omega
    simp [validateConfig, docDefault, h1]
  · have h2 : ¬ s > 0 := by omega
    simp [dispatch, propagate_eq, alphaConfig, hasMetadata, docDefault, h2]

example : front (some { defaultOptions with segments := -9223372036854775808 }) { w := 9, h := 7, hasAlpha := true } =
      front (some { defaultOptions with segments := 4 }) { w := 9, h := 7, hasAlpha := true } ∧
    (front (some { defaultOptions with segments := 4 }) { w := 9, h := 7, hasAlpha := true }).isOk = true ∧
    front (some { defaultOptions with segments := 3 }) { w := 9, h := 7, hasAlpha := true } ≠
      front (some { defaultOptions with segments := 4 }) { w := 9, h := 7, hasAlpha := true } := by decide
example : front (some { defaultOptions with segments := 0 }) { w := 9, h := 7, hasAlpha := true } =
      front (some { defaultOptions with segments := 4 }) { w := 9, h := 7, hasAlpha := true } ∧
    (front (some { defaultOptions with segments := 4 }) { w := 9, h := 7, hasAlpha := true }).isOk = true ∧
    front (some { defaultOptions with segments := 1 }) { w := 9, h := 7, hasAlpha := true } ≠
      front (some { defaultOptions with segments := 4 }) { w := 9, h := 7, hasAlpha := true } := by decide

/-- Pass: negative and zero, as for Segments -/
theorem sentinel_equiv_Pass (o : Opts) (d : ImgDims) (s : Int) (hs : s < 0 ∨ s = 0) :
    front (some { o with pass := s }) d =
      front (some { o with pass := docDefault .pass }) d := by
  apply front_congr
  · have h1 : ¬ s > 10 := by omega
    simp [validateConfig, docDefault, h1]
  · have h2 : ¬ s > 0 := by omega
    simp [dispatch, propagate_eq, alphaConfig, hasMetadata, docDefault, h2]

example : front (some { defaultOptions with pass := -1 }) { w := 9, h := 7, hasAlpha := true } =
      front (some { defaultOptions with pass := 1 }) { w := 9, h := 7, hasAlpha := true } ∧
    (front (some { defaultOptions with pass := 1 }) { w := 9, h := 7, hasAlpha := true }).isOk = true ∧
    front (some { defaultOptions with pass := 2 }) { w := 9, h := 7, hasAlpha := true } ≠
      front (some { defaultOptions with pass := 1 }) { w := 9, h := 7, hasAlpha := true } := by decide
example : front (some { defaultOptions with pass := 0 }) { w := 9, h := 7, hasAlpha := true } =
      front (some { defaultOptions with pass := 1 }) { w := 9, h := 7, hasAlpha := true } ∧
    (front (some { defaultOptions with pass := 1 }) { w := 9, h := 7, hasAlpha := true }).isOk = true ∧
    front (some { defaultOptions with pass := 10 }) { w := 9, h := 7, hasAlpha := true } ≠
      front (some { defaultOptions with pass := 1 }) { w := 9, h := 7, hasAlpha := true } := by decide

theorem sentinel_equiv_QMax (o : Opts) (d : ImgDims) (s : Int) (hs : s < 0) :
    front (some { o with qMax := s }) d =
      front (some { o with qMax := docDefault .qMax }) d := by
  apply front_congr
  · simp [validateConfig, docDefault, resolveQMax, hs]
  · simp [dispatch, propagate_eq, alphaConfig, hasMetadata, docDefault, resolveQMax, hs]

example : front (some { defaultOptions with qMax := -1 }) { w := 9, h := 7, hasAlpha := true } =
      front (some { defaultOptions with qMax := 100 }) { w := 9, h := 7, hasAlpha := true } ∧
    (front (some { defaultOptions with qMax := 100 }) { w := 9, h := 7, hasAlpha := true }).isOk = true ∧
    front (some { defaultOptions with qMax := 99 }) { w := 9, h := 7, hasAlpha := true } ≠
      front (some { defaultOptions with qMax := 100 }) { w := 9, h := 7, hasAlpha := true } := by decide

theorem sentinel_equiv_AlphaCompression (o : Opts) (d : ImgDims) (s : Int) (hs : s < 0) :
    front (some { o with alphaCompression := s }) d =
      front (some { o with alphaCompression := docDefault .alphaCompression }) d := by
  apply front_congr
  · have h1 : ¬ s > 1 := by omega
    simp [validateConfig, docDefault, h1]
  · simp [dispatch, propagate_eq, alphaConfig, hasMetadata, docDefault, resolveAlphaCompression, hs]

example : front (some { defaultOptions with alphaCompression := -1 }) { w := 9, h := 7, hasAlpha := true } =
      front (some { defaultOptions with alphaCompression := 1 }) { w := 9, h := 7, hasAlpha := true } ∧
    (front (some { defaultOptions with alphaCompression := 1 }) { w := 9, h := 7, hasAlpha := true }).isOk = true ∧
    front (some { defaultOptions with alphaCompression := 0 }) { w := 9, h := 7, hasAlpha := true } ≠
      front (some { defaultOptions with alphaCompression := 1 }) { w := 9, h := 7, hasAlpha := true } := by decide

theorem sentinel_equiv_AlphaFiltering (o : Opts) (d : ImgDims) (s : Int) (hs : s < 0) :
    front (some { o with alphaFiltering := s }) d =
      front (some { o with alphaFiltering := docDefault .alphaFiltering }) d := by
  apply front_congr
  · have h1 : ¬ s > 2 := by omega
    simp [validateConfig, docDefault, h1]
  · simp [dispatch, propagate_eq, alphaConfig, hasMetadata, docDefault, resolveAlphaFiltering, hs]

example : front (some { defaultOptions with alphaFiltering := -3 }) { w := 9, h := 7, hasAlpha := true } =
      front (some { defaultOptions with alphaFiltering := 1 }) { w := 9, h := 7, hasAlpha := true } ∧
    (front (some { defaultOptions with alphaFiltering := 1 }) { w := 9, h := 7, hasAlpha := true }).isOk = true ∧
    front (some { defaultOptions with alphaFiltering := 2 }) { w := 9, h := 7, hasAlpha := true } ≠
      front (some { defaultOptions with alphaFiltering := 1 }) { w := 9, h := 7, hasAlpha := true } := by decide

theorem sentinel_equiv_AlphaQuality (o : Opts) (d : ImgDims) (s : Int) (hs : s < 0) :
    front (some { o with alphaQuality := s }) d =
      front (some { o with alphaQuality := docDefault .alphaQuality }) d := by
  apply front_congr
  · have h1 : ¬ s > 100 := by omega
    simp [validateConfig, docDefault, h1]
  · simp [dispatch, propagate_eq, alphaConfig, hasMetadata, docDefault, resolveAlphaQuality, hs]

example : front (some { defaultOptions with alphaQuality := -1 }) { w := 9, h := 7, hasAlpha := true } =
      front (some { defaultOptions with alphaQuality := 100 }) { w := 9, h := 7, hasAlpha := true } ∧
    (front (some { defaultOptions with alphaQuality := 100 }) { w := 9, h := 7, hasAlpha := true }).isOk = true ∧
    front (some { defaultOptions with alphaQuality := 99 }) { w := 9, h := 7, hasAlpha := true } ≠
      front (some { defaultOptions with alphaQuality := 100 }) { w := 9, h := 7, hasAlpha := true } := by decide


/-! ## 3. nil options -/

/-- `Encode(w, img, nil)` behaves as `Encode(w, img, DefaultOptions())` -/
theorem nil_is_default (d : ImgDims) : front none d = front (some defaultOptions) d := rfl

example : (front none { w := 3, h := 3 }).isOk = true := by decide

/-! ## 4. lossy-only options under Lossless -/

/-- Under `Lossless`, two option values that agree on the fields the lossless path reads
    (`losslessView`: Lossless, Quality, Method, Exact, ICC, EXIF, XMP) and that both pass
    validation resolve identically — whatever TargetSize, TargetPSNR, Preprocessing, SNSStrength,
    FilterStrength, FilterSharpness, FilterType, Partitions, Segments, Pass, QMin, QMax,
    AlphaCompression, AlphaFiltering, AlphaQuality, UseSharpYUV, EmulateJpegSize and Preset are.

    The validity hypotheses cannot be dropped: `validateConfig` runs before the dispatch, so an
    out-of-range lossy-only field is rejected under `Lossless` as well
    (`lossless_still_validates_lossy_fields`).  What the theorem implies: a lossy-only option
    can turn a successful lossless Encode into an *error*, but can never change the bytes of a
    successful one. -/
theorem lossless_ignores_lossy_options (o o' : Opts) (d : ImgDims)
    (hl : o.lossless = true) (hview : losslessView o' = losslessView o)
    (hv : validateConfig o = none) (hv' : validateConfig o' = none) :
    front (some o') d = front (some o) d := by
  apply front_congr
  · rw [hv, hv']
  · simp only [losslessView, Prod.mk.injEq] at hview
    obtain ⟨h1, h2, h3, h4, h5, h6, h7⟩ := hview
    simp [dispatch, hasMetadata, h1, h2, h3, h4, h5, h6, h7, hl]

/-- the same, with every lossy-only field spelled out -/
theorem lossless_ignores_lossy_fields (o : Opts) (d : ImgDims) (hl : o.lossless = true)
    (ts pp sns fs fsh ft pa sg ps qmin qmax ac af aq pr : Int) (psnr : F32) (sharp ej : Bool)
    (hv : validateConfig o = none)
    (hv' : validateConfig { o with
        targetSize := ts, targetPSNR := psnr, preprocessing := pp,
        snsStrength := sns, filterStrength := fs, filterSharpness := fsh, filterType := ft,
        partitions := pa, segments := sg, pass := ps, qMin := qmin, qMax := qmax,
        alphaCompression := ac, alphaFiltering := af, alphaQuality := aq, useSharpYUV := sharp,
        emulateJpegSize := ej, preset := pr } = none) :
    front (some { o with
        targetSize := ts, targetPSNR := psnr, preprocessing := pp,
        snsStrength := sns, filterStrength := fs, filterSharpness := fsh, filterType := ft,
        partitions := pa, segments := sg, pass := ps, qMin := qmin, qMax := qmax,
        alphaCompression := ac, alphaFiltering := af, alphaQuality := aq, useSharpYUV := sharp,
        emulateJpegSize := ej, preset := pr }) d = front (some o) d :=
  lossless_ignores_lossy_options o _ d hl rfl hv hv'

/-- corollary without validity hypotheses: whenever both are accepted, they agree -/
theorem lossless_ignores_lossy_options_ok (o o' : Opts) (d : ImgDims) (r r' : Resolved)
    (hl : o.lossless = true) (hview : losslessView o' = losslessView o)
    (h : front (some o) d = .ok r) (h' : front (some o') d = .ok r') : r' = r := by
  have hv := (front_ok_inv o d r h).2.2.1
  have hv' := (front_ok_inv o' d r' h').2.2.1
  have := lossless_ignores_lossy_options o o' d hl hview hv hv'
  rw [h, h'] at this
  injection this

/-- validation of lossy-only fields still applies under Lossless -/
theorem lossless_still_validates_lossy_fields :
    front (some { defaultOptions with lossless := true, snsStrength := 101 }) { w := 4, h := 4 } =
      .err .snsStrength ∧
    (front (some { defaultOptions with lossless := true }) { w := 4, h := 4 }).isOk = true := by
  decide

example : front (some { defaultOptions with
        lossless := true, snsStrength := 3, segments := 2,
        qMin := 10, qMax := 20, alphaQuality := 0, preprocessing := 3, useSharpYUV := true })
      { w := 4, h := 4, hasAlpha := true } =
    front (some { defaultOptions with lossless := true }) { w := 4, h := 4, hasAlpha := true } ∧
    (front (some { defaultOptions with lossless := true }) { w := 4, h := 4, hasAlpha := true }).isOk = true := by
  decide

/-! ## 5. options documented as having no effect -/

/-- `EmulateJpegSize` ("accepted for API compatibility but has no effect on output") -/
theorem emulateJpeg_no_effect (o : Opts) (d : ImgDims) (b : Bool) :
    front (some { o with emulateJpegSize := b }) d = front (some o) d := by
  apply front_congr
  · rfl
  · rfl

/-- **The `Preset` field has no effect at all beyond its own range check**: `opts.Preset` is read
    only by `validateConfig`.  `EncoderOptions{Preset: PresetPhoto, …}` encodes exactly like
    `Preset: PresetDefault`; the tuning documented for `Preset` ("selects encoding parameters
    tuned for specific content types") happens only inside `OptionsForPreset`, which writes the
    *other* fields. -/
theorem preset_field_no_effect (o : Opts) (d : ImgDims) (p : Int)
    (hp : 0 ≤ p ∧ p ≤ 5) (ho : 0 ≤ o.preset ∧ o.preset ≤ 5) :
    front (some { o with preset := p }) d = front (some o) d := by
  apply front_congr
  · have h1 : ¬ (p < 0 ∨ p > 5) := by omega
    have h2 : ¬ (o.preset < 0 ∨ o.preset > 5) := by omega
    simp [validateConfig, h1, h2]
  · rfl

/-- … so the only way a preset reaches the encoder is through the other fields -/
theorem preset_field_only_via_options (p : Int) (q : F32) (d : ImgDims) (hp : 0 ≤ p ∧ p ≤ 5) :
    front (some (optionsForPreset p q)) d =
      front (some { optionsForPreset p q with preset := 0 }) d := by
  have h : (optionsForPreset p q).preset = p := by
    unfold optionsForPreset; split_ifs <;> rfl
  exact (preset_field_no_effect (optionsForPreset p q) d 0 (by omega) (by rw [h]; exact hp)).symm

example : front (some { defaultOptions with preset := 2 }) { w := 2, h := 2 } =
      front (some defaultOptions) { w := 2, h := 2 } ∧
    front (some (optionsForPreset 2 (F32.ofNat 75))) { w := 2, h := 2 } ≠
      front (some defaultOptions) { w := 2, h := 2 } := by decide

/-! ## 6. OptionsForPreset = libwebp's WebPConfigPreset table (config_enc.c), over DefaultOptions -/

theorem preset_table_default (q : F32) :
    optionsForPreset 0 q = { defaultOptions with quality := q, preset := 0 } := rfl

theorem preset_table_picture (q : F32) :
    optionsForPreset 1 q = { defaultOptions with
        quality := q, preset := 1, snsStrength := 80, filterSharpness := 4, filterStrength := 35, preprocessing := 0 } := rfl

theorem preset_table_photo (q : F32) :
    optionsForPreset 2 q = { defaultOptions with
        quality := q, preset := 2, snsStrength := 80, filterSharpness := 3, filterStrength := 30, preprocessing := 2 } := rfl

theorem preset_table_drawing (q : F32) :
    optionsForPreset 3 q = { defaultOptions with
        quality := q, preset := 3, snsStrength := 25, filterSharpness := 6, filterStrength := 10 } := rfl

theorem preset_table_icon (q : F32) :
    optionsForPreset 4 q = { defaultOptions with
        quality := q, preset := 4, snsStrength := 0, filterStrength := 0, preprocessing := 0 } := rfl

theorem preset_table_text (q : F32) :
    optionsForPreset 5 q = { defaultOptions with
        quality := q, preset := 5, snsStrength := 0, filterStrength := 0, preprocessing := 0, segments := 2 } := rfl

/-- an out-of-range preset falls through the switch (and is then rejected by validateConfig) -/
theorem preset_table_other (p : Int) (q : F32) (hp : p < 1 ∨ p > 5) :
    optionsForPreset p q = { defaultOptions with quality := q, preset := p } := by
  unfold optionsForPreset
  split_ifs <;> first | omega | rfl

example : front (some (optionsForPreset 6 (F32.ofNat 75))) { w := 1, h := 1 } = .err .preset := by decide

/-- every preset with an in-range quality is accepted -/
theorem preset_accepted (p : Int) (q : F32) (hp : 0 ≤ p ∧ p ≤ 5) (hq : q.InRange0to100) :
    validateConfig (optionsForPreset p q) = none := by
  obtain ⟨q1, q2, q3, q4⟩ := hq
  have : p = 0 ∨ p = 1 ∨ p = 2 ∨ p = 3 ∨ p = 4 ∨ p = 5 := by omega
  rcases this with h | h | h | h | h | h <;> subst h <;>
    simp [validateConfig, optionsForPreset, defaultOptions, zeroOptions, q1, q2, q3, q4,
      clearBit1, setBit1, bit1, resolveQMax, lenOf, F32.zero, maxEncoderMetadataSize] <;> decide

/-! ## 7. validation and propagation agree with the documented meaning -/

/-- Wherever `validateConfig` accepts, the configuration built by the propagation block (which
    does not call the `resolve*` helpers for SNS/filter/segments/pass but relies on
    `lossy.DefaultConfig` plus `>= 0` / `> 0` tests) carries, for every sentinel field, exactly
    the documented meaning of the value (`docMeaning`: negative — and zero for Segments/Pass —
    means the documented default, anything else itself); the value range-checked for QMax by
    `validateConfig` is the one propagated; and the alpha enums are the documented ones. -/
theorem validate_two_places_consistent (o : Opts) (ha : Bool) (hv : validateConfig o = none) :
    (propagate o ha).snsStrength = docMeaning .snsStrength o.snsStrength ∧
    (propagate o ha).filterStrength = docMeaning .filterStrength o.filterStrength ∧
    (propagate o ha).filterType = docMeaning .filterType o.filterType ∧
    (propagate o ha).segments = docMeaning .segments o.segments ∧
    (propagate o ha).pass = docMeaning .pass o.pass ∧
    (propagate o ha).qMax = docMeaning .qMax o.qMax ∧
    (propagate o ha).qMax = resolveQMax o.qMax ∧
    (alphaConfig o).quality = docMeaning .alphaQuality o.alphaQuality ∧
    (alphaConfig o).method = docMeaning .alphaCompression o.alphaCompression ∧
    (alphaConfig o).filter =
      (if docMeaning .alphaFiltering o.alphaFiltering = 0 then alphaFilterModeNone
       else if docMeaning .alphaFiltering o.alphaFiltering = 1 then alphaFilterModeFast
       else alphaFilterModeBest) ∧
    -- fields without sentinel are copied
    (propagate o ha).filterSharpness = o.filterSharpness ∧
    (propagate o ha).partitions = o.partitions ∧
    (propagate o ha).qMin = o.qMin ∧
    (propagate o ha).method = o.method ∧
    (propagate o ha).preprocessing = o.preprocessing ∧
    (alphaConfig o).effortLevel = o.method := by
  have hd := (validate_none_iff o).1 hv
  have h1 := hd.alphaCompression
  have h2 := hd.alphaFiltering
  rw [propagate_snsStrength, propagate_filterStrength, propagate_filterType, propagate_segments,
    propagate_pass, propagate_qMax, propagate_filterSharpness, propagate_partitions,
    propagate_qMin, propagate_method, propagate_preprocessing]
  refine ⟨?_, ?_, ?_, ?_, ?_, ?_, ?_, ?_, ?_, ?_, rfl, rfl, rfl, rfl, rfl, rfl⟩ <;>
    simp only [docMeaning, docDefault, resolveQMax, alphaConfig, resolveAlphaQuality,
      resolveAlphaCompression, resolveAlphaFiltering, alphaFilterModeNone, alphaFilterModeFast,
      alphaFilterModeBest] <;>
    split_ifs <;> omega

example : validateConfig { defaultOptions with segments := 0, pass := 0, snsStrength := 0 } = none := by
  decide

/-- The helpers `resolveSNSStrength`, `resolveFilterStrength`, `resolveFilterType`,
    `resolveSegments`, `resolvePass` are not called by the encoder (only `resolveQMax` and the
    three alpha ones are).  They agree with the documented meaning except at 0 for
    Segments/Pass … -/
theorem resolve_matches_doc (v : Int) :
    resolveSNSStrength v = docMeaning .snsStrength v ∧
    resolveFilterStrength v = docMeaning .filterStrength v ∧
    resolveFilterType v = docMeaning .filterType v ∧
    resolveQMax v = docMeaning .qMax v ∧
    resolveAlphaCompression v = docMeaning .alphaCompression v ∧
    resolveAlphaFiltering v = docMeaning .alphaFiltering v ∧
    resolveAlphaQuality v = docMeaning .alphaQuality v ∧
    (v ≠ 0 → resolveSegments v = docMeaning .segments v) ∧
    (v ≠ 0 → resolvePass v = docMeaning .pass v) := by
  refine ⟨rfl, rfl, rfl, rfl, rfl, rfl, rfl, ?_, ?_⟩ <;> intro h <;>
    simp only [resolveSegments, resolvePass, docMeaning, docDefault] <;> split_ifs <;> omega

/-- … where these (unused) helpers return 0 while the encoder uses 4 segments / 1 pass. -/
theorem resolveSegmentsPass_zero_differ (o : Opts) (ha : Bool) :
    resolveSegments 0 = 0 ∧ (propagate { o with segments := 0 } ha).segments = 4 ∧
    resolvePass 0 = 0 ∧ (propagate { o with pass := 0 } ha).pass = 1 := by
  refine ⟨rfl, ?_, rfl, ?_⟩
  · rw [propagate_segments]; rfl
  · rw [propagate_pass]; rfl

/-! ## 8. documentation observations that are *false* of the code (proved on witnesses) -/

/-- Doc comments of ICC / EXIF / XMP: "When non-nil, the encoder uses VP8X extended format".
    The code tests `len(..) > 0`: a non-nil **empty** slice does not select the extended format. -/
theorem empty_nonnil_metadata_not_extended (o : Opts) (h1 : o.exif = none) (h2 : o.xmp = none) :
    hasMetadata { o with icc := some 0 } = false := by
  simp [hasMetadata, lenOf, h1, h2]

example : front (some { defaultOptions with lossless := true, icc := some 0 }) { w := 1, h := 1 } =
    front (some { defaultOptions with lossless := true, icc := none }) { w := 1, h := 1 } := by decide

/-- Comment of `resolveAlphaCompression`: "Negative values (sentinels) and the zero-value …
    map to 1 (lossless)".  The zero value maps to 0 (no compression), as the *field* comment says. -/
theorem resolveAlphaCompression_zero : resolveAlphaCompression 0 = 0 ∧
    (alphaConfig { defaultOptions with alphaCompression := 0 }).method = 0 := by decide

/-! ## 9. the documentation tables are mutually consistent -/

/-- "(lo-hi, default d)" and "treated as N" of the same field name the same default, that
    default lies inside the documented range, and `DefaultOptions()` stores the sentinel `-1` in
    exactly the sentinel fields (so `DefaultOptions()` means the documented defaults). -/
theorem doc_tables_consistent :
    (SField.all.all fun f => docRanges.all fun r =>
      r.1 != f.name ||
        (r.2.2.2 == docDefault f && decide (r.2.1 ≤ docDefault f) && decide (docDefault f ≤ r.2.2.1))) = true ∧
    (defaultOptions.snsStrength, defaultOptions.filterStrength, defaultOptions.filterType,
     defaultOptions.segments, defaultOptions.pass, defaultOptions.qMax,
     defaultOptions.alphaCompression, defaultOptions.alphaFiltering, defaultOptions.alphaQuality) =
      (-1, -1, -1, -1, -1, -1, -1, -1, -1) := by
  refine ⟨by decide, rfl⟩

/-- `DefaultOptions()` resolves to the documented defaults of every field -/
theorem default_options_resolve_to_documented_defaults :
    front (some defaultOptions) { w := 8, h := 8, hasAlpha := true } =
      .ok (.lossy 8 8
        { quality := 75, targetSize := 0, targetPSNR := F32.zero, method := 4, snsStrength := 50,
          filterStrength := 60, filterSharpness := 0, filterType := 1, partitions := 0,
          segments := 4, pass := 1, preprocessing := 0, dithering := none, qMin := 0, qMax := 100,
          hasAlpha := 1 }
        (some { quality := 100, method := 1, filter := alphaFilterModeFast, effortLevel := 4 })
        false false false 0 0 0) := by
  decide

end Webp.Props.C20
