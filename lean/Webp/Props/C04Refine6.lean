import Webp.Proofs.C04RefineModes7
import Webp.Props.C04RefineBMode
import Webp.Props.C04Refine2
/-
  Property C04, refinement theorems Impl ↔ Spec, part 6 — stage B: `mb_modes_eq_spec`.
  `parseIntraModeRow` for one macroblock (the tree `T.parseModes`: segment id, skip flag, `!GetBit(145)` =
  `B_PRED` else the 16×16 mode tree, the sixteen sub-block modes with their contexts or the implied
  contexts `top = left = ymode`, the chroma mode) = RFC 6386 §19.3 `macroblock_header()`
  (`Webp.Spec.VP8.readMBHeader`), for every first partition, probability table and context.
-/
namespace Webp.Props.C04Refine6
open Webp.Go (Bytes)
open Webp.Impl.BoolCoder
open Webp.Spec.VP8
open Webp.Impl.VP8SyntaxBytes (P runR rd)
open Webp.Impl.VP8Recon (Slot)
open Webp.Proofs.C04RefineBool Webp.Proofs.C04RefineOps Webp.Proofs.C04RefineTokens Webp.Proofs.C04RefineModes

/-- `BModeOK` holds for the probability function the Go decoder derives from any parsed header
    (`Webp.Props.C04RefineBMode.go_bmode_prob_is_rfc`) -/
theorem bmodeOK_of_tables (coef : List UInt8) (um : Bool) (sp : Fin 3 → UInt8) (us : Bool) (p : UInt8) :
    BModeOK (Webp.Impl.VP8HeaderBytes.probOfTables coef um sp us p) :=
  fun top left i _ _ _ => Webp.Props.C04RefineBMode.go_bmode_prob_is_rfc coef um sp us p top left i

/-- **`mb_modes_eq_spec`, on the reference decoder.**  With related intra-mode contexts (`CRel`: Go's
    `intraT[4·mbX ..]` / `intraL` as functions in Go numbering, the RFC's `above` / `left` arrays), the Go tree
    returns a record `g` and new contexts `gc'` such that: same segment, same skip flag, luma mode `B_PRED` iff
    `g.isI4` and else `rfcY` of the Go 16×16 mode, the sixteen sub-block modes equal up to `rfcB`, chroma mode
    equal up to `rfcY` (`ModeRel`); the new contexts are related, the other macroblock columns of `above` are
    untouched; and the decoder ends where `readMBHeader` ends. -/
theorem mb_modes_eq_spec_on_spec_decoder (prob : Slot → UInt8) (hfix : FixedOK prob) (hb : BModeOK prob) (h : FrameHdr)
    (hseg : h.seg.updateMap = true → ∀ i, i ≤ 2 → (prob (.seg i)).toNat = h.seg.treeProbs.getD i 255)
    (hskip : h.skipEnabled = true → (prob .skip).toNat = h.probSkipFalse)
    (mbX : Nat) (prev : Fin 16 → Nat) (gc : Webp.Impl.VP8Recon.ModeCtx) (sc : ModeCtx) (hc : CRel mbX sc.above gc sc)
    (d : BoolDec) :
    ∃ g gc', runD prob (Webp.Impl.VP8SyntaxBytes.T.parseModes h.seg.updateMap h.skipEnabled prev gc) d =
        some ((g, gc'), (readMBHeader h mbX sc d).2.2) ∧
      ModeRel g (readMBHeader h mbX sc d).1 ∧ CRel mbX sc.above gc' (readMBHeader h mbX sc d).2.1 :=
  mb_modes_runD prob hfix hb h hseg hskip mbX prev gc sc hc d

/-- **`mb_modes_eq_spec`**: the same on the Go reader, for any first partition (reader in step with the
    reference decoder, no decision started past the end). -/
theorem mb_modes_eq_spec (prob : Slot → UInt8) (hfix : FixedOK prob) (hb : BModeOK prob) (h : FrameHdr)
    (hseg : h.seg.updateMap = true → ∀ i, i ≤ 2 → (prob (.seg i)).toNat = h.seg.treeProbs.getD i 255)
    (hskip : h.skipEnabled = true → (prob .skip).toNat = h.probSkipFalse)
    (mbX : Nat) (prev : Fin 16 → Nat) (gc : Webp.Impl.VP8Recon.ModeCtx) (sc : ModeCtx) (hc : CRel mbX sc.above gc sc)
    {F : Bytes} {r : BoolReader} {d : BoolDec} (hs : Sim F r d)
    (hfree : TreeFree prob (Webp.Impl.VP8SyntaxBytes.T.parseModes h.seg.updateMap h.skipEnabled prev gc) r) :
    ∃ g gc' r', runR prob (Webp.Impl.VP8SyntaxBytes.T.parseModes h.seg.updateMap h.skipEnabled prev gc) r = some ((g, gc'), r') ∧
      ModeRel g (readMBHeader h mbX sc d).1 ∧ CRel mbX sc.above gc' (readMBHeader h mbX sc d).2.1 ∧
      Sim F r' (readMBHeader h mbX sc d).2.2 := by
  obtain ⟨g, gc', hrun, hm, hcr⟩ := mb_modes_runD prob hfix hb h hseg hskip mbX prev gc sc hc d
  have ht := tree_transfer prob _ hs hfree
  rw [hrun] at ht
  cases hrr : runR prob (Webp.Impl.VP8SyntaxBytes.T.parseModes h.seg.updateMap h.skipEnabled prev gc) r with
  | none => rw [hrr] at ht; exact absurd ht (by simp [TRel])
  | some x =>
    obtain ⟨a, r'⟩ := x
    rw [hrr] at ht
    obtain ⟨ha, hs'⟩ := ht
    exact ⟨g, gc', r', by rw [ha], hm, hcr, hs'⟩

/-- the context relation is satisfiable: first macroblock of a row of a one-macroblock-wide frame -/
example : CRel 0 (Array.replicate 4 0) { top := fun _ => 0, left := fun _ => 0 }
    { above := Array.replicate 4 0, left := Array.replicate 4 0 } :=
  ⟨fun j => by have : j = 0 ∨ j = 1 ∨ j = 2 ∨ j = 3 := by omega
               rcases this with rfl | rfl | rfl | rfl <;> rfl,
   fun j => by have : j = 0 ∨ j = 1 ∨ j = 2 ∨ j = 3 := by omega
               rcases this with rfl | rfl | rfl | rfl <;> rfl,
   fun _ _ => rfl, rfl, by decide, by decide, fun _ => by show (0 : Nat) < 10; omega, fun _ => by show (0 : Nat) < 10; omega⟩

open Webp.Proofs.C04RefineHeader in
/-- the segment-tree and skip probabilities the Go decoder uses after `parseHeaders` are the RFC header's,
    wherever the frame uses them -/
theorem header_gives_seg_skip (g : Webp.Impl.VP8HeaderBytes.DecHeader) (h : FrameHdr) (hr : HdrRel g h) :
    (h.seg.updateMap = true → ∀ i, i ≤ 2 → (g.prob (.seg i)).toNat = h.seg.treeProbs.getD i 255) ∧
    (h.skipEnabled = true → (g.prob .skip).toNat = h.probSkipFalse) := by
  constructor
  · intro hm i hi
    have hgm : g.seg.updateMap = true := by rw [hr.seg.map]; exact hm
    show (if g.seg.updateMap then (if hh : i < 3 then g.seg.segProbs ⟨i, hh⟩ else 255) else (255 : UInt8)).toNat = _
    rw [if_pos hgm, dif_pos (by omega)]
    exact hr.seg.probs hm ⟨i, by omega⟩
  · intro hk
    have hgk : g.useSkipProba = true := by rw [hr.skip]; exact hk
    show (if g.useSkipProba then g.skipP else (0 : UInt8)).toNat = _
    rw [if_pos hgk]
    exact hr.skipP hk

open Webp.Proofs.C04RefineHeader in
/-- **`mb_modes_eq_spec` with everything taken from the parsed header**: for the header state `g` the Go
    decoder holds after `parseHeaders` (`header_eq_spec`: `HdrRel g h`), the macroblock-mode parser driven by the
    decoder's own probability function `g.prob` and flags = `readMBHeader h`. -/
theorem mb_modes_eq_spec_of_header (g : Webp.Impl.VP8HeaderBytes.DecHeader) (h : FrameHdr) (hr : HdrRel g h)
    (mbX : Nat) (prev : Fin 16 → Nat) (gc : Webp.Impl.VP8Recon.ModeCtx) (sc : ModeCtx) (hc : CRel mbX sc.above gc sc)
    {F : Bytes} {r : BoolReader} {d : BoolDec} (hs : Sim F r d)
    (hfree : TreeFree g.prob (Webp.Impl.VP8SyntaxBytes.T.parseModes g.seg.updateMap g.useSkipProba prev gc) r) :
    ∃ m gc' r', runR g.prob (Webp.Impl.VP8SyntaxBytes.T.parseModes g.seg.updateMap g.useSkipProba prev gc) r = some ((m, gc'), r') ∧
      ModeRel m (readMBHeader h mbX sc d).1 ∧ CRel mbX sc.above gc' (readMBHeader h mbX sc d).2.1 ∧
      Sim F r' (readMBHeader h mbX sc d).2.2 := by
  obtain ⟨h1, h2⟩ := header_gives_seg_skip g h hr
  rw [hr.seg.map, hr.skip] at hfree ⊢
  exact mb_modes_eq_spec g.prob (Webp.Props.C04Refine2.header_gives_FixedOK g) (bmodeOK_of_tables _ _ _ _ _) h h1 h2
    mbX prev gc sc hc hs hfree

#print axioms header_gives_seg_skip
#print axioms mb_modes_eq_spec_of_header
#print axioms bmodeOK_of_tables
#print axioms mb_modes_eq_spec_on_spec_decoder
#print axioms mb_modes_eq_spec

end Webp.Props.C04Refine6
