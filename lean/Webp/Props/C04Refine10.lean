import Webp.Proofs.C04RefinePart0c
import Webp.Props.C04Refine9
/-
  Property C04, refinement theorems Impl ↔ Spec, part 10 — the first partition against `Spec.VP8.decodeCore` itself.

  * `decodeCore_first_partition`: `specPass` (C04Refine9) is not a second specification: for every byte string that
    `Webp.Spec.VP8.decodeCore` accepts, the header is `parseFrameHdr` on the first-partition decoder, `mbs` has
    `mbW·mbH` entries whose mode fields (`modesOf`: segment, skip flag, luma mode, sub-block modes, chroma mode) are
    the `specPass` outputs, and `overFirst` is the `over` flag of the decoder `specPass` ends with.
  * `frame_modes_eq_spec`: END TO END for the first partition.  For every VP8 key frame `b` the specification
    decodes (`decodeCore cv b = ok D`), and a Go reader in step with the reference decoder at the start of the first
    partition: if `parseHeaders` and then the `mbW·mbH` `parseIntraModeRow` macroblock parses succeed with `eof` down,
    then the Go header state is `HdrRel`-related to `D.hdr` and for EVERY macroblock `k` the Go modes are
    `ModeRel`-related to `D.mbs[k]`; and the specification did not run past the end of the first partition
    (`D.overFirst = false`) when the Go reader did not.
-/
namespace Webp.Props.C04Refine10
open Webp.Go (Bytes)
open Webp.Impl.BoolCoder
open Webp.Spec.VP8
open Webp.Impl.VP8SyntaxBytes (P runR rd)
open Webp.Impl.VP8Recon (Slot MBModes)
open Webp.Impl.VP8HeaderBytes (DecHeader)
open Webp.Proofs.C04RefineBool Webp.Proofs.C04RefineOps Webp.Proofs.C04RefineTokens Webp.Proofs.C04RefineModes
open Webp.Proofs.C04RefineHeader (HdrRel PrevZero)
open Webp.Proofs.C04RefinePart0

/-- **`specPass` is the first-partition thread of `decodeCore`** -/
theorem decodeCore_first_partition (cv : Conv) (b : ByteArray) (D : Decoded) (hD : decodeCore cv b = .ok D) :
    ∃ h0, parseFrameTag b = .ok h0 ∧
      D.hdr = (parseFrameHdr h0 (BoolDec.init b 10 (10 + h0.firstPartSize))).1 ∧
      (0 < D.hdr.mbW → ∃ dF, D.overFirst = dF.over ∧
        PInv D.hdr D.hdr.mbW (parseFrameHdr h0 (BoolDec.init b 10 (10 + h0.firstPartSize))).2 (D.hdr.mbW * D.hdr.mbH) dF D.mbs) :=
  decodeCore_part0 cv b D hD

/-- `ModeRel` only looks at the mode fields -/
theorem modeRel_of_modesOf (g : MBModes) (m m' : MBInfo) (h : modesOf m' = modesOf m) (hr : ModeRel g m) : ModeRel g m' := by
  unfold modesOf at h
  simp only [Prod.mk.injEq] at h
  obtain ⟨h1, h2, h3, h4, h5⟩ := h
  exact ⟨by rw [h1]; exact hr.seg, by rw [h2]; exact hr.skip, by rw [h3]; exact hr.y, hr.y4,
    fun hi b => by rw [h4]; exact hr.b hi b, by rw [h5]; exact hr.uv⟩

/-- **`frame_modes_eq_spec`**: header and all macroblock modes of a key frame, Go syntax layer vs `decodeCore`. -/
theorem frame_modes_eq_spec (cv : Conv) (b : ByteArray) (D : Decoded) (hD : decodeCore cv b = .ok D) (hW : 0 < D.hdr.mbW)
    (h0 : FrameHdr) (ht : parseFrameTag b = .ok h0)
    (prob : Slot → UInt8) (hfix : FixedOK prob) (prev : DecHeader) (hz : PrevZero prev)
    {F : Bytes} {r : BoolReader} (hs : Sim F r (BoolDec.init b 10 (10 + h0.firstPartSize)))
    (im : Nat → Fin 16 → Nat) (g : DecHeader) (r1 : BoolReader) (res : (Nat → Option MBModes) × GoSt × BoolReader)
    (hhdr : runR prob (Webp.Impl.VP8HeaderBytes.T.parseHeader prev) r = some (g, r1))
    (hmb : goPass g.prob g.seg.updateMap g.useSkipProba D.hdr.mbW (List.range (D.hdr.mbW * D.hdr.mbH)) (GoSt.init im) r1
      (fun _ => none) = some res)
    (he : res.2.2.eof = false) :
    HdrRel g D.hdr ∧ D.mbs.size = D.hdr.mbW * D.hdr.mbH ∧
    (∀ k, k < D.hdr.mbW * D.hdr.mbH → ∃ gm, res.1 k = some gm ∧ ModeRel gm (D.mbs.getD k {})) ∧
    ∃ dF, D.overFirst = dF.over ∧ Sim F res.2.2 dF := by
  obtain ⟨h0', ht', hh, hp⟩ := decodeCore_part0 cv b D hD
  rw [ht] at ht'; cases ht'
  obtain ⟨dF, hov, hinv⟩ := hp hW
  obtain ⟨hr, hm, hsim⟩ := Webp.Props.C04Refine9.part0_syntax_eq_spec prob hfix prev hz h0 hs D.hdr.mbW D.hdr.mbH hW im g r1 res
    hhdr hmb he
  rw [← hh] at hr hm hsim
  refine ⟨hr, hinv.sz, ?_, dF, hov, by rw [hinv.d]; exact hsim⟩
  intro k hk
  obtain ⟨gm, sm, h1, h2, h3⟩ := hm k hk
  obtain ⟨sm', h4, h5⟩ := hinv.m k hk
  rw [h2] at h4; cases h4
  exact ⟨gm, h1, modeRel_of_modesOf gm sm _ h5 h3⟩

#print axioms decodeCore_first_partition
#print axioms frame_modes_eq_spec

end Webp.Props.C04Refine10
