import Webp.Props.C01Full
import Webp.Impl.AnimEnc
/-
  C08 ← C01: the frame-codec contract `Webp.Impl.AnimEnc.CodecLossless` (the hypothesis of every
  theorem of Props/C08.lean: "a lossless frame decodes to the picture that was encoded — equal, or
  both pixels fully transparent") restated over VALID PLANS.

  A codec is "plan-based" when its lossless encoder writes, for every picture, the bit stream of SOME
  plan that is valid for the picture's pixels after `cleanupTransparentAreaLossless`
  (`encodeFrameForAnimation` calls `encodeLossless(img, DefaultOptions…)`: `Exact = false`) and its
  decoder is the specification decoder followed by `argbToNRGBA`.  Then `CodecLossless` holds — by
  `lossless_roundtrip`.  What remains per input is, as for C01, that the real encoder's search emits
  a valid plan (suites `c01full`, `animenc`).
-/
namespace Webp.Props.C08Lossless
open Webp.Go
open Webp.Spec.Anim (Px)
open Webp.Impl.AnimEnc (SubImage Codec CodecLossless Bounded pxEqv)
open Webp.Impl.VP8LEntropy (StreamPlanMeta streamBytesMeta)
open Webp.Impl.LosslessAPI (norm)
open Webp.Proofs.C01FullAPI (ValidPlanFor streamList)

/-- `uint32(A)<<24 | uint32(R)<<16 | uint32(G)<<8 | uint32(B)` -/
def pxARGB (p : Px) : UInt32 := p.a.toUInt32 <<< 24 ||| p.r.toUInt32 <<< 16 ||| p.g.toUInt32 <<< 8 ||| p.b.toUInt32

/-- `argbToNRGBA` for one pixel -/
def argbPx (v : UInt32) : Px := ⟨(v >>> 16).toUInt8, (v >>> 8).toUInt8, v.toUInt8, (v >>> 24).toUInt8⟩

/-- the ARGB buffer `encodeLossless` imports from the picture -/
def argbOfSub (img : SubImage) : Array UInt32 := Array.ofFn (n := img.w * img.h) fun i => pxARGB (img.at i.val)

/-- `decodeLossless`: specification decoder + `argbToNRGBA` (any value on a stream that does not decode) -/
def planDec (bs : Bytes) : SubImage :=
  match Webp.Spec.VP8L.decode (ByteArray.mk bs.toArray) with
  | .ok img => ⟨img.width, img.height, img.pixels.map argbPx⟩
  | _ => default

theorem argbPx_pxARGB (p : Px) : argbPx (pxARGB p) = p := by
  obtain ⟨r, g, b, a⟩ := p
  obtain ⟨h1, h2, h3, h4⟩ := Webp.Proofs.C01FullAPI.nrgbaByte_pack r g b a
  simp only [argbPx, pxARGB, h1, h2, h3, h4]

theorem stream_first_byte (sp : StreamPlanMeta) (hv : Webp.Proofs.C01FullStream.StreamValidMeta sp) :
    ∃ t, streamList sp = 0x2f :: t := by
  have h := Webp.Proofs.C01FullAPI.stream_header sp hv
  unfold Webp.Impl.Parser.parseVP8LHeader at h
  split at h
  · cases h
  · split at h
    · cases h
    · rename_i h5 h0
      match hs : streamList sp, h5, h0 with
      | b :: t, _, h0 =>
        refine ⟨t, ?_⟩
        have : b.toNat = 0x2f := by
          have := Classical.not_not.mp h0
          simpa [byteAt] using this
        have hb : b = 0x2f := UInt8.toNat_inj.mp (by simpa using this)
        rw [hb]
      | [], h5, _ => simp at h5

/-- **CodecLossless from valid plans** -/
theorem codecLossless_of_valid_plans (c : Codec) (choose : SubImage → StreamPlanMeta)
    (henc : ∀ img, Bounded img → c.encLossless img = streamList (choose img))
    (hdec : ∀ bs, c.decLossless bs = planDec bs)
    (hvalid : ∀ img, Bounded img → ValidPlanFor img.w img.h (norm false (argbOfSub img)) (choose img)) :
    CodecLossless c where
  vp8l := fun img hb => by
    rw [henc img hb]
    exact stream_first_byte _ (hvalid img hb).valid
  roundtrip := fun img hb => by
    have hv := hvalid img hb
    have hd := Webp.Props.C01Full.lossless_roundtrip (choose img) hv.valid _ hv.encodes
    rw [henc img hb, hdec]
    unfold planDec
    rw [Webp.Proofs.C01FullAPI.streamList_back, hd, hv.width, hv.height]
    refine ⟨rfl, rfl, fun i hi => ?_⟩
    unfold SubImage.at
    simp only
    have hsz : i < (norm false (argbOfSub img)).size := by
      simp [norm, Webp.Impl.LosslessAPI.cleanupTransparentAreaLossless, argbOfSub]; exact hi
    rw [Array.getD_eq_getD_getElem?, Array.getElem?_map, Array.getElem?_eq_getElem hsz]
    simp only [Option.map_some, Option.getD_some, norm, Bool.false_eq_true, if_false,
      Webp.Impl.LosslessAPI.cleanupTransparentAreaLossless, Array.getElem_map, argbOfSub, Array.getElem_ofFn]
    generalize hp : img.px.getD i Px.zero = p
    have hp' : SubImage.at img i = p := hp
    rw [hp']
    obtain ⟨r, g, b, a⟩ := p
    unfold pxEqv
    by_cases ha : a = 0
    · have hz : pxARGB ⟨r, g, b, a⟩ >>> 24 = 0 := (Webp.Proofs.C01FullAPI.alpha_zero_iff r g b a).2 ha
      rw [if_pos hz]
      subst ha
      have e : (argbPx 0).a = 0 := by decide
      simp [e]
    · have hz : ¬ pxARGB ⟨r, g, b, a⟩ >>> 24 = 0 := fun hh => ha ((Webp.Proofs.C01FullAPI.alpha_zero_iff r g b a).1 hh)
      rw [if_neg hz, argbPx_pxARGB]
      simp

end Webp.Props.C08Lossless
