import Webp.Proofs.C04RefineResid14
import Webp.Props.C04Refine2
import Webp.Proofs.C04RefineModes6
/-
  Property C04, refinement theorems Impl ↔ Spec, part 14 — the residuals of ONE macroblock on the GO READER.

  * `mb_residuals_eq_spec_on_spec_decoder`: `decodeMB`'s token side (`T.parseTokens`: `useSkipProba && block.Skip` → nothing
    read; else `parseResiduals` for a `B_PRED` macroblock or one with a Y2 block) = RFC 6386 §13 `residual_data()`
    (`Spec.VP8.readResiduals`), the three cases of C04Refine8 / C04Refine13 in one statement (`ResRel`).
  * `mb_residuals_eq_spec_go`: the same on a Go `BoolReader` in step with the reference decoder (`Sim`), no decision started
    past the end (`TreeFree`; `treeFree_of_eof` gives it from a successful Go run with `eof` down): the Go parse succeeds,
    leaves the reader in step with the decoder `readResiduals` ends on, the packed contexts related (`NzRel`) to the arrays
    `readResiduals` leaves, and the coefficients related (`ResRel`: skipped — stale arrays marked unused vs zeros; `B_PRED` —
    all 384 equal; with Y2 — all equal, Go's luma DC slots holding the inverse-WHT outputs of the Y2 block).
  * `mb_residuals_eq_spec_go_of_header`: with everything taken from the parsed header (`header_eq_spec`: `HdrRel g h`) —
    the decoder's own probability function `g.prob`, its `useSkipProba`, its dequantisation matrix
    `decQuantMatrix g.qidx s` of segment `s` vs the RFC header's `coeffProbs` and `dequantFactors h {} s`; no probability
    or quantiser hypotheses left.
  * `modeRel_gives_hasY2` / `modeRel_gives_skip`: the two hypotheses on the macroblock record follow from `ModeRel`
    (`mb_modes_eq_spec`): `m.hasY2 = !g.isI4`, `m.skip = g.skip`.
  * `partition_index_eq_spec`: `mbY & (numParts − 1) = mbY % numParts` for the four legal partition counts.
  Not stated: `res.nonZeroY` / `res.nonZeroUV` for parsed macroblocks (the 2-bit codes).
-/
namespace Webp.Props.C04Refine14
open Webp.Go (Bytes)
open Webp.Impl.BoolCoder
open Webp.Spec.VP8
open Webp.Impl.VP8SyntaxBytes (P runR rd)
open Webp.Impl.VP8Recon (Slot Coeffs NzCtx)
open Webp.Impl.VP8HeaderBytes (DecHeader)
open Webp.Proofs.C04RefineBool Webp.Proofs.C04RefineOps Webp.Proofs.C04RefineTokens Webp.Proofs.C04RefineResid
open Webp.Proofs.C04RefineHeader (HdrRel)

theorem mb_residuals_eq_spec_on_spec_decoder (prob : Slot → UInt8) (probs : Array Nat) (hc : ∀ t, t ≤ 3 → CoefOK prob probs t)
    (hfix : FixedOK prob) (K : Webp.Impl.VP8Recon.Kernels) (q : DequantFactors) (isI4 skipFlag useSkip : Bool)
    (stale : Nat → Coeffs) (n : NzCtx) (mbX : Nat) (A0 : Array Nat) (m : MBInfo) (cc : CoeffCtx)
    (hsk : m.skip = (useSkip && skipFlag)) (hI : m.hasY2 = !isI4) (h : NzRel mbX A0 n cc) (d : BoolDec) :
    ∃ res n' y2,
      runD prob (Webp.Impl.VP8SyntaxBytes.T.parseTokens K (Webp.Proofs.C04RefineRecon.ofSpec q) isI4 skipFlag useSkip stale n) d =
        some ((res, n'), (readResiduals probs q mbX m cc d).2.2.2) ∧
      NzRel mbX A0 n' (readResiduals probs q mbX m cc d).2.2.1 ∧
      (m.skip = false → isI4 = false → ∀ j : Fin 16, y2 j =
        (readBlock probs 1 0 (n.tnzDC + n.lnzDC) q.y2dc q.y2ac (24 * 16) (Array.replicate 400 0) d).2.1.getD (24 * 16 + j.val) 0) ∧
      ResRel K isI4 m.skip stale
        (readBlock probs 1 0 (n.tnzDC + n.lnzDC) q.y2dc q.y2ac (24 * 16) (Array.replicate 400 0) d).1 y2 res
        (readResiduals probs q mbX m cc d).1 :=
  tokens_runD prob probs hc hfix K q isI4 skipFlag useSkip stale n mbX A0 m cc hsk hI h d

/-- **`mb_residuals_eq_spec_go`**: one macroblock's residuals, Go reader vs `readResiduals`. -/
theorem mb_residuals_eq_spec_go (prob : Slot → UInt8) (probs : Array Nat) (hc : ∀ t, t ≤ 3 → CoefOK prob probs t)
    (hfix : FixedOK prob) (K : Webp.Impl.VP8Recon.Kernels) (q : DequantFactors) (isI4 skipFlag useSkip : Bool)
    (stale : Nat → Coeffs) (n : NzCtx) (mbX : Nat) (A0 : Array Nat) (m : MBInfo) (cc : CoeffCtx)
    (hsk : m.skip = (useSkip && skipFlag)) (hI : m.hasY2 = !isI4) (h : NzRel mbX A0 n cc)
    {F : Bytes} {r : BoolReader} {d : BoolDec} (hs : Sim F r d)
    (hfree : TreeFree prob (Webp.Impl.VP8SyntaxBytes.T.parseTokens K (Webp.Proofs.C04RefineRecon.ofSpec q) isI4 skipFlag useSkip stale n) r) :
    ∃ res n' r' y2,
      runR prob (Webp.Impl.VP8SyntaxBytes.T.parseTokens K (Webp.Proofs.C04RefineRecon.ofSpec q) isI4 skipFlag useSkip stale n) r =
        some ((res, n'), r') ∧
      Sim F r' (readResiduals probs q mbX m cc d).2.2.2 ∧
      NzRel mbX A0 n' (readResiduals probs q mbX m cc d).2.2.1 ∧
      (m.skip = false → isI4 = false → ∀ j : Fin 16, y2 j =
        (readBlock probs 1 0 (n.tnzDC + n.lnzDC) q.y2dc q.y2ac (24 * 16) (Array.replicate 400 0) d).2.1.getD (24 * 16 + j.val) 0) ∧
      ResRel K isI4 m.skip stale
        (readBlock probs 1 0 (n.tnzDC + n.lnzDC) q.y2dc q.y2ac (24 * 16) (Array.replicate 400 0) d).1 y2 res
        (readResiduals probs q mbX m cc d).1 := by
  obtain ⟨res, n', y2, h1, h2, h3, h4⟩ := tokens_runD prob probs hc hfix K q isI4 skipFlag useSkip stale n mbX A0 m cc hsk hI h d
  obtain ⟨r', h5, h6⟩ := runR_of_runD prob _ hs hfree _ _ h1
  exact ⟨res, n', r', y2, h5, h6, h2, h3, h4⟩

/-- **the same with probabilities, skip flag and dequantisation matrix of the parsed header** -/
theorem mb_residuals_eq_spec_go_of_header (g : DecHeader) (h : FrameHdr) (hr : HdrRel g h) (K : Webp.Impl.VP8Recon.Kernels)
    (s : Fin 4) (isI4 skipFlag : Bool) (stale : Nat → Coeffs) (n : NzCtx) (mbX : Nat) (A0 : Array Nat) (m : MBInfo)
    (cc : CoeffCtx) (hsk : m.skip = (g.useSkipProba && skipFlag)) (hI : m.hasY2 = !isI4) (hn : NzRel mbX A0 n cc)
    {F : Bytes} {r : BoolReader} {d : BoolDec} (hs : Sim F r d)
    (hfree : TreeFree g.prob (Webp.Impl.VP8SyntaxBytes.T.parseTokens K (Webp.Impl.VP8Recon.decQuantMatrix g.qidx s) isI4 skipFlag
      g.useSkipProba stale n) r) :
    ∃ res n' r' y2,
      runR g.prob (Webp.Impl.VP8SyntaxBytes.T.parseTokens K (Webp.Impl.VP8Recon.decQuantMatrix g.qidx s) isI4 skipFlag
        g.useSkipProba stale n) r = some ((res, n'), r') ∧
      Sim F r' (readResiduals h.coeffProbs (dequantFactors h {} s.val) mbX m cc d).2.2.2 ∧
      NzRel mbX A0 n' (readResiduals h.coeffProbs (dequantFactors h {} s.val) mbX m cc d).2.2.1 ∧
      (m.skip = false → isI4 = false → ∀ j : Fin 16, y2 j =
        (readBlock h.coeffProbs 1 0 (n.tnzDC + n.lnzDC) (dequantFactors h {} s.val).y2dc (dequantFactors h {} s.val).y2ac (24 * 16)
          (Array.replicate 400 0) d).2.1.getD (24 * 16 + j.val) 0) ∧
      ResRel K isI4 m.skip stale
        (readBlock h.coeffProbs 1 0 (n.tnzDC + n.lnzDC) (dequantFactors h {} s.val).y2dc (dequantFactors h {} s.val).y2ac (24 * 16)
          (Array.replicate 400 0) d).1 y2 res
        (readResiduals h.coeffProbs (dequantFactors h {} s.val) mbX m cc d).1 := by
  rw [Webp.Props.C04Refine2.header_dequant_eq_spec g h hr s] at hfree ⊢
  exact mb_residuals_eq_spec_go g.prob h.coeffProbs (fun t ht => Webp.Props.C04Refine2.header_gives_CoefOK g h hr t ht)
    (Webp.Props.C04Refine2.header_gives_FixedOK g) K _ isI4 skipFlag g.useSkipProba stale n mbX A0 m cc hsk hI hn hs hfree

open Webp.Proofs.C04RefineModes Webp.Proofs.C04RefineSyntax in
/-- the macroblock record `mb_modes_eq_spec` relates to Go's has a Y2 block iff Go's `IsI4x4` is false -/
theorem modeRel_gives_hasY2 (g : Webp.Impl.VP8Recon.MBModes) (m : MBInfo) (hm : ModeRel g m) : m.hasY2 = !g.isI4 := by
  unfold MBInfo.hasY2
  rw [hm.y]
  cases hi : g.isI4 with
  | true => simp [B_PRED]
  | false =>
    have h4 := hm.y4 hi
    have : rfcY (g.imodes 0) ≠ B_PRED := by
      generalize g.imodes 0 = v at h4
      interval_cases v <;> decide
    simp [this]

open Webp.Proofs.C04RefineModes in
theorem modeRel_gives_skip (g : Webp.Impl.VP8Recon.MBModes) (m : MBInfo) (hm : ModeRel g m) : m.skip = g.skip := hm.skip

/-- **partition selection**: Go's `mbY & (numParts − 1)` is §9.5's `mbY mod numParts` for 1, 2, 4, 8 partitions -/
theorem partition_index_eq_spec (mbY numParts : Nat) (hp : numParts = 1 ∨ numParts = 2 ∨ numParts = 4 ∨ numParts = 8) :
    mbY &&& (numParts - 1) = mbY % numParts := by
  rcases hp with rfl | rfl | rfl | rfl
  · exact Nat.and_two_pow_sub_one_eq_mod mbY 0
  · exact Nat.and_two_pow_sub_one_eq_mod mbY 1
  · exact Nat.and_two_pow_sub_one_eq_mod mbY 2
  · exact Nat.and_two_pow_sub_one_eq_mod mbY 3

/-- `ResRel` is satisfiable in each of its three cases (skipped; `B_PRED`; with Y2 and a zero Y2 block) -/
example (K : Webp.Impl.VP8Recon.Kernels) (stale : Nat → Coeffs) :
    ResRel K true true stale 0 Coeffs.zero (Webp.Impl.VP8Recon.decSkipped stale) (Array.replicate 400 0) := by
  unfold ResRel; rw [if_pos rfl]; exact ⟨rfl, rfl⟩

example (K : Webp.Impl.VP8Recon.Kernels) (stale : Nat → Coeffs) :
    ResRel K true false stale 0 Coeffs.zero { coeffs := fun _ => Coeffs.zero, nonZeroY := 0, nonZeroUV := 0 }
      (Array.replicate 400 0) := by
  unfold ResRel; rw [if_neg (by simp), if_pos rfl]; exact stRel_zero 24

#print axioms mb_residuals_eq_spec_on_spec_decoder
#print axioms mb_residuals_eq_spec_go
#print axioms mb_residuals_eq_spec_go_of_header
#print axioms partition_index_eq_spec
#print axioms modeRel_gives_hasY2

end Webp.Props.C04Refine14
