import Generated.Funcs
import Webp.Go.Basic
import Webp.Impl.Mux
import Webp.Impl.Parser
import Webp.Impl.Writer
import Webp.Proofs.FuncsBridge
import Webp.Proofs.FuncsLE
import Webp.Proofs.FuncsLEModels
import Webp.Proofs.MuxBytes
import Webp.Proofs.WriterFrame
import Webp.Proofs.ContainerBounds
import Webp.Proofs.ContainerDemux
import Webp.Props.C05FuncsSites
/-
  C14 (and C02 C05 C15 C16 C17: the same container / frame-header arithmetic) — regenerated
  obligations for the little-endian accessors of `internal/container` (`ReadLE16/32`,
  `PutLE16/32`), the two `putLE24` helpers (mux/mux.go, encode.go), and for the *expression sites*
  of the ANMF / VP8X parsers (container parser and mux demuxer), the area / canvas guards and the
  VP8 frame header (`parseHeaders` dimensions and scales, `assembleFrame` tag).  Each translated
  definition is tied to `Go.le16/le24/le32`, `Go.putLE16/24/32` or to the arithmetic fact the hand
  models use.  `toI l` is the translator's view of a `[]byte` (`l.map fun x => ↑x.toNat`).
-/
namespace Webp.Props.C14FuncsSites
open Webp.Go Webp.Go.IntSem Webp.Proofs.FuncsBridge Webp.Proofs.FuncsListOps Webp.Proofs.FuncsLE

/-! ## 1. `container.ReadLE16` / `ReadLE32` -/

/-- constants.go `ReadLE16(data)` = `Go.le16 data` on at least two bytes -/
theorem tie_ReadLE16 (l : List UInt8) (h : 2 ≤ l.length) :
    Generated.Funcs.ReadLE16 (toI l) = .ok ((le16 l 0 : Nat) : Int) := by
  rw [Generated.Funcs.ReadLE16, leU16_toI l h]; rfl

/-- fewer than two bytes: Go panics (`_ = b[1]`) -/
theorem ReadLE16_short (b : List Int) (h : b.length < 2) : Generated.Funcs.ReadLE16 b = .panic := by
  rw [Generated.Funcs.ReadLE16, leU16_short b h]; rfl

/-- constants.go `ReadLE32(data)` = `Go.le32 data` on at least four bytes -/
theorem tie_ReadLE32 (l : List UInt8) (h : 4 ≤ l.length) :
    Generated.Funcs.ReadLE32 (toI l) = .ok ((le32 l 0 : Nat) : Int) := by
  rw [Generated.Funcs.ReadLE32, leU32_toI l h]; rfl

theorem ReadLE32_short (b : List Int) (h : b.length < 4) : Generated.Funcs.ReadLE32 b = .panic := by
  rw [Generated.Funcs.ReadLE32, leU32_short b h]; rfl

example : Generated.Funcs.ReadLE16 (toI [0x34, 0x12, 0xff]) = .ok 0x1234 := by decide
example : Generated.Funcs.ReadLE32 (toI [0x78, 0x56, 0x34, 0x12]) = .ok 0x12345678 := by decide
example : Generated.Funcs.ReadLE32 (toI [0x78, 0x56, 0x34]) = .panic := by decide

example : Generated.Funcs.ReadLE16 [5] = .panic := by decide

/-! ## 2. `container.PutLE16` / `PutLE32`, `mux.putLE24`, `webp.putLE24` -/

/-- constants.go `PutLE16(data, v)`: the first two bytes become `Go.putLE16 v`, the rest is kept
    (`v` is a `uint16`, i.e. `n < 65536`; the statement needs no range) -/
theorem tie_PutLE16 (data : List Int) (n : Nat) (h : 2 ≤ data.length) :
    Generated.Funcs.PutLE16 data (n : Int) = .ok (toI (putLE16 n) ++ data.drop 2) := by
  match data, h with
  | _ :: _ :: r, _ =>
    simp only [Generated.Funcs.PutLE16, lePutU16, ok_bind, toI_putLE16, wrapU8_nat, wrapU8_shr_nat,
      Nat.reducePow, List.drop_succ_cons, List.drop_zero, List.cons_append, List.nil_append]

theorem PutLE16_short (data : List Int) (v : Int) (h : data.length < 2) :
    Generated.Funcs.PutLE16 data v = .panic := by
  match data, h with
  | [], _ => rfl
  | [_], _ => rfl

/-- constants.go `PutLE32(data, v)` -/
theorem tie_PutLE32 (data : List Int) (n : Nat) (h : 4 ≤ data.length) :
    Generated.Funcs.PutLE32 data (n : Int) = .ok (toI (putLE32 n) ++ data.drop 4) := by
  match data, h with
  | _ :: _ :: _ :: _ :: r, _ =>
    simp only [Generated.Funcs.PutLE32, lePutU32, ok_bind, toI_putLE32, wrapU8_nat, wrapU8_shr_nat,
      Nat.reducePow, List.drop_succ_cons, List.drop_zero, List.cons_append, List.nil_append]

theorem PutLE32_short (data : List Int) (v : Int) (h : data.length < 4) :
    Generated.Funcs.PutLE32 data v = .panic := by
  match data, h with
  | [], _ => rfl
  | [_], _ => rfl
  | [_, _], _ => rfl
  | [_, _, _], _ => rfl

/-- write then read: `ReadLE16 ∘ PutLE16` is the identity on `uint16`, `ReadLE32 ∘ PutLE32` on `uint32` -/
theorem ReadLE16_PutLE16 (rest : List UInt8) (d0 d1 : Int) (n : Nat) (h : n < 65536) :
    (Generated.Funcs.PutLE16 (d0 :: d1 :: toI rest) (n : Int)).bind Generated.Funcs.ReadLE16 = .ok (n : Int) := by
  rw [tie_PutLE16 _ n (by simp), ok_bind]
  show Generated.Funcs.ReadLE16 (toI (putLE16 n) ++ toI rest) = _
  rw [← toI_append, tie_ReadLE16 _ (by simp [putLE16]),
    Webp.Proofs.MuxBytes.le16_append_left (by simp [putLE16]), Webp.Proofs.MuxBytes.le16_putLE16,
    Nat.mod_eq_of_lt h]

theorem ReadLE32_PutLE32 (rest : List UInt8) (d0 d1 d2 d3 : Int) (n : Nat) (h : n < 4294967296) :
    (Generated.Funcs.PutLE32 (d0 :: d1 :: d2 :: d3 :: toI rest) (n : Int)).bind Generated.Funcs.ReadLE32
      = .ok (n : Int) := by
  rw [tie_PutLE32 _ n (by simp), ok_bind]
  show Generated.Funcs.ReadLE32 (toI (putLE32 n) ++ toI rest) = _
  rw [← toI_append, tie_ReadLE32 _ (by simp [putLE32])]
  have e : le32 (putLE32 n ++ rest) 0 = le32 (putLE32 n) 0 := by
    simp only [le32, byteAt, putLE32, List.getD, List.cons_append, List.getElem?_cons_zero,
      List.getElem?_cons_succ]
  rw [e, Webp.Proofs.MuxBytes.le32_putLE32_lt h]

/-- mux/mux.go `putLE24(buf, v int)`: for **every** Go `int` `v` (negative or above `2^24`
    included) the three bytes written are `Go.putLE24` of the low 24 bits of `v` -/
theorem tie_mux_putLE24 (buf : List Int) (v : Int) (h : 3 ≤ buf.length) :
    Generated.Funcs.mux_putLE24 buf v = .ok (toI (putLE24 (v % 16777216).toNat) ++ buf.drop 3) := by
  match buf, h with
  | a :: b :: c :: r, _ =>
    obtain ⟨e0, e1, e2⟩ := wrapU8_low24 v
    have hm : ∃ m : Nat, v % 16777216 = (m : Int) :=
      ⟨_, (Int.toNat_of_nonneg (Int.emod_nonneg _ (by decide))).symm⟩
    obtain ⟨m, hm⟩ := hm
    rw [Generated.Funcs.mux_putLE24, setI3, e0, e1, e2, hm]
    simp only [Int.toNat_natCast, toI_putLE24, wrapU8_nat, wrapU8_shr_nat, Nat.reducePow,
      List.drop_succ_cons, List.drop_zero, List.cons_append, List.nil_append]

/-- in the range the callers use (`clampDuration`, offsets / 2, dimensions − 1) -/
theorem mux_putLE24_small (buf : List Int) (v : Int) (h : 3 ≤ buf.length) (h0 : 0 ≤ v) (h1 : v < 16777216) :
    Generated.Funcs.mux_putLE24 buf v = .ok (toI (putLE24 v.toNat) ++ buf.drop 3) := by
  rw [tie_mux_putLE24 buf v h, Int.emod_eq_of_lt h0 h1]

theorem mux_putLE24_short (buf : List Int) (v : Int) (h : buf.length < 3) :
    Generated.Funcs.mux_putLE24 buf v = .panic := by
  match buf, h with
  | [], _ => rfl
  | [_], _ => rfl
  | [_, _], _ => rfl

/-- encode.go `putLE24(buf, v uint32)`: the same three bytes (`v` a `uint32`: low 24 bits) -/
theorem tie_webp_putLE24 (buf : List Int) (n : Nat) (h : 3 ≤ buf.length) :
    Generated.Funcs.webp_putLE24 buf (n : Int) = .ok (toI (putLE24 n) ++ buf.drop 3) := by
  match buf, h with
  | a :: b :: c :: r, _ =>
    rw [Generated.Funcs.webp_putLE24, setI3]
    simp only [toI_putLE24, wrapU8_nat, wrapU8_shr_nat, Nat.reducePow,
      List.drop_succ_cons, List.drop_zero, List.cons_append, List.nil_append]

theorem webp_putLE24_short (buf : List Int) (v : Int) (h : buf.length < 3) :
    Generated.Funcs.webp_putLE24 buf v = .panic := by
  match buf, h with
  | [], _ => rfl
  | [_], _ => rfl
  | [_, _], _ => rfl

/-- mux model: the bytes are `Impl.Mux.putLE24I v` (the model of mux.go `putLE24`), for every `int` -/
theorem tie_mux_putLE24_model (buf : List Int) (v : Int) (h : 3 ≤ buf.length) :
    Generated.Funcs.mux_putLE24 buf v = .ok (toI (Webp.Impl.Mux.putLE24I v) ++ buf.drop 3) := by
  match buf, h with
  | a :: b :: c :: r, _ =>
    have key : ∀ x : Int, ((UInt8.ofNat (x % 256).toNat).toNat : Int) = x % 256 := by
      intro x
      have h0 := Int.emod_nonneg x (show (256 : Int) ≠ 0 by decide)
      have h1 := Int.emod_lt_of_pos x (show (0 : Int) < 256 by decide)
      simp only [UInt8.toNat_ofNat', Nat.reducePow]
      omega
    rw [Generated.Funcs.mux_putLE24, setI3]
    simp only [toI, Webp.Impl.Mux.putLE24I, List.map_cons, List.map_nil, key, wrapU8_eq, shr_lit_eq_div,
      Int.reducePow, List.drop_succ_cons, List.drop_zero, List.cons_append, List.nil_append]

/-- encoder model: `putLE24(buf, v)` on a byte slice is `Impl.Writer.putAt buf 0 (putLE24 v)` (the
    store `Impl.Writer.W.put24` performs), panic case included -/
theorem tie_webp_putLE24_model (buf : Bytes) (n : Nat) :
    (3 ≤ buf.length →
      Webp.Impl.Writer.putAt buf 0 (putLE24 n) = .ok (putLE24 n ++ buf.drop 3)
      ∧ Generated.Funcs.webp_putLE24 (toI buf) (n : Int) = .ok (toI (putLE24 n ++ buf.drop 3)))
    ∧ (buf.length < 3 →
      Webp.Impl.Writer.putAt buf 0 (putLE24 n) = .panic
      ∧ Generated.Funcs.webp_putLE24 (toI buf) (n : Int) = .panic) := by
  have hl : (putLE24 n).length = 3 := rfl
  constructor
  · intro h
    refine ⟨?_, ?_⟩
    · unfold Webp.Impl.Writer.putAt
      rw [hl, if_pos (by omega)]
      simp only [List.take_zero, List.nil_append, Nat.zero_add]
    · rw [tie_webp_putLE24 _ n (by rw [toI_length]; exact h), toI_append, toI_drop]
  · intro h
    refine ⟨?_, webp_putLE24_short _ _ (by rw [toI_length]; exact h)⟩
    unfold Webp.Impl.Writer.putAt
    rw [hl, if_neg (by omega)]

/-- `putLE24` then `readLE24` gives back the low 24 bits (so the identity below `2^24`) -/
theorem readLE24_mux_putLE24 (rest : List UInt8) (d0 d1 d2 : Int) (v : Int) :
    (Generated.Funcs.mux_putLE24 (d0 :: d1 :: d2 :: toI rest) v).bind Generated.Funcs.readLE24
      = .ok (v % 16777216) := by
  rw [tie_mux_putLE24 _ v (by simp), ok_bind]
  show Generated.Funcs.readLE24 (toI (putLE24 _) ++ toI rest) = _
  rw [← toI_append, readLE24_toI _ (by simp [putLE24]),
    Webp.Proofs.MuxBytes.le24_append_left (by simp [putLE24]), Webp.Proofs.MuxBytes.le24_putLE24]
  congr 1
  have := Int.emod_nonneg v (show (16777216 : Int) ≠ 0 by decide)
  have := Int.emod_lt_of_pos v (show (0 : Int) < 16777216 by decide)
  omega

example : Generated.Funcs.PutLE16 [9, 9, 7] 0x1234 = .ok [0x34, 0x12, 7] := by decide
example : Generated.Funcs.PutLE32 [9, 9, 9, 9] 0x12345678 = .ok [0x78, 0x56, 0x34, 0x12] := by decide
example : Generated.Funcs.mux_putLE24 [9, 9, 9, 5] 0x123456 = .ok [0x56, 0x34, 0x12, 5] := by decide
example : Generated.Funcs.mux_putLE24 [9, 9, 9] (-1) = .ok [255, 255, 255] := by decide
example : Generated.Funcs.mux_putLE24 [9, 9, 9] 0x1000001 = .ok [1, 0, 0] := by decide
example : Generated.Funcs.webp_putLE24 [9, 9, 9] 0x123456 = .ok [0x56, 0x34, 0x12] := by decide
example : Generated.Funcs.webp_putLE24 [9, 9] 1 = .panic := by decide
example : Webp.Impl.Writer.putAt [9, 9, 9, 5] 0 (putLE24 0x123456) = .ok [0x56, 0x34, 0x12, 5]
    ∧ Webp.Impl.Writer.putAt [9, 9] 0 (putLE24 1) = .panic := by decide

example : Generated.Funcs.PutLE16 [9] 1 = .panic ∧ Generated.Funcs.PutLE32 [9, 9, 9] 1 = .panic
    ∧ Generated.Funcs.mux_putLE24 [9, 9] 1 = .panic := by decide
example : (Generated.Funcs.PutLE16 (9 :: 9 :: toI [7]) 0xabcd).bind Generated.Funcs.ReadLE16 = .ok 0xabcd := by decide
example : (Generated.Funcs.PutLE32 (9 :: 9 :: 9 :: 9 :: toI [7]) 0xabcd1234).bind Generated.Funcs.ReadLE32
    = .ok 0xabcd1234 := by decide
example : (Generated.Funcs.mux_putLE24 (9 :: 9 :: 9 :: toI [7]) 0x1abcdef).bind Generated.Funcs.readLE24
    = .ok 0xabcdef := by decide

/-! ## 3. ANMF / VP8X field sites -/

/-- parser.go `parseANMF`: `XOffset: 2 * readLE24(payload[0:3])` -/
theorem tie_parseANMF_XOffset (p : List UInt8) (h : 3 ≤ p.length) :
    Generated.Funcs.parseANMF_XOffset (toI p) = .ok ((2 * le24 p 0 : Nat) : Int) := by
  rw [Generated.Funcs.parseANMF_XOffset, sliceI_readLE24 p 0 3 rfl h, lit_mul_nat]

theorem tie_parseANMF_YOffset (p : List UInt8) (h : 6 ≤ p.length) :
    Generated.Funcs.parseANMF_YOffset (toI p) = .ok ((2 * le24 p 3 : Nat) : Int) := by
  rw [Generated.Funcs.parseANMF_YOffset, sliceI_readLE24 p 3 6 rfl h, lit_mul_nat]

theorem tie_parseANMF_Width (p : List UInt8) (h : 9 ≤ p.length) :
    Generated.Funcs.parseANMF_Width (toI p) = .ok ((1 + le24 p 6 : Nat) : Int) := by
  rw [Generated.Funcs.parseANMF_Width, sliceI_readLE24 p 6 9 rfl h, lit_add_nat]

theorem tie_parseANMF_Height (p : List UInt8) (h : 12 ≤ p.length) :
    Generated.Funcs.parseANMF_Height (toI p) = .ok ((1 + le24 p 9 : Nat) : Int) := by
  rw [Generated.Funcs.parseANMF_Height, sliceI_readLE24 p 9 12 rfl h, lit_add_nat]

theorem tie_parseANMF_Duration (p : List UInt8) (h : 15 ≤ p.length) :
    Generated.Funcs.parseANMF_Duration (toI p) = .ok ((le24 p 12 : Nat) : Int) := by
  rw [Generated.Funcs.parseANMF_Duration, sliceI_readLE24 p 12 15 rfl h]

/-- the bound is exact: with 14 bytes `payload[12:15]` panics (the parser checks
    `len(payload) < ANMFChunkSize = 16` first).  NB: `sliceI` is strict (`hi ≤ len`); real Go lets a
    slice expression reach up to `cap`, so this `.panic` (like the other `_short` facts about sliced
    sites below) describes a slice with `cap = len` — the callers' length guards make it moot. -/
theorem parseANMF_Duration_short (p : List UInt8) (h : p.length < 15) :
    Generated.Funcs.parseANMF_Duration (toI p) = .panic := by
  rw [Generated.Funcs.parseANMF_Duration, sliceI_toI_lit_short p 12 15 h]; rfl

/-- parser.go `parseVP8X`: `CanvasWidth: 1 + readLE24(payload[4:7])` -/
theorem tie_parseVP8X_CanvasWidth (p : List UInt8) (h : 7 ≤ p.length) :
    Generated.Funcs.Parser_parseVP8X_CanvasWidth (toI p) = .ok ((1 + le24 p 4 : Nat) : Int) := by
  rw [Generated.Funcs.Parser_parseVP8X_CanvasWidth, sliceI_readLE24 p 4 7 rfl h, lit_add_nat]

theorem tie_parseVP8X_CanvasHeight (p : List UInt8) (h : 10 ≤ p.length) :
    Generated.Funcs.Parser_parseVP8X_CanvasHeight (toI p) = .ok ((1 + le24 p 7 : Nat) : Int) := by
  rw [Generated.Funcs.Parser_parseVP8X_CanvasHeight, sliceI_readLE24 p 7 10 rfl h, lit_add_nat]

theorem parseVP8X_CanvasHeight_short (p : List UInt8) (h : p.length < 10) :
    Generated.Funcs.Parser_parseVP8X_CanvasHeight (toI p) = .panic := by
  rw [Generated.Funcs.Parser_parseVP8X_CanvasHeight, sliceI_toI_lit_short p 7 10 h]; rfl

example : Generated.Funcs.parseANMF_XOffset (toI [1, 2, 3]) = .ok (2 * 0x030201) := by decide
example : Generated.Funcs.parseANMF_Duration (toI [0,0,0, 0,0,0, 0,0,0, 0,0,0, 1,2,3]) = .ok 0x030201 := by decide
example : Generated.Funcs.parseANMF_Duration (toI [0,0,0, 0,0,0, 0,0,0, 0,0,0, 1,2]) = .panic := by decide
example : Generated.Funcs.Parser_parseVP8X_CanvasHeight (toI [0, 0,0,0, 0,0,0, 1,2,3]) = .ok (1 + 0x030201) := by decide

example : Generated.Funcs.parseANMF_YOffset (toI [2,0,0, 4,0,0, 9,0,0, 19,0,0, 100,0,0, 3]) = .ok 8
    ∧ Generated.Funcs.parseANMF_Width (toI [2,0,0, 4,0,0, 9,0,0, 19,0,0, 100,0,0, 3]) = .ok 10
    ∧ Generated.Funcs.parseANMF_Height (toI [2,0,0, 4,0,0, 9,0,0, 19,0,0, 100,0,0, 3]) = .ok 20 := by decide
example : Generated.Funcs.Parser_parseVP8X_CanvasWidth (toI [0, 0,0,0, 1,2,3]) = .ok (1 + 0x030201) := by decide
example : Generated.Funcs.Parser_parseVP8X_CanvasHeight (toI [0, 0,0,0, 0,0,0, 1,2]) = .panic := by decide

/-- mux/demux.go `parseANMF` reads the same fields by direct indexing -/
theorem tie_Demuxer_parseANMF_offsetX (d : List UInt8) (h : 3 ≤ d.length) :
    Generated.Funcs.Demuxer_parseANMF_offsetX (toI d) = .ok ((le24 d 0 * 2 : Nat) : Int) := by
  simp only [Generated.Funcs.Demuxer_parseANMF_offsetX, idxI_toI_lit d 0 (by omega),
    idxI_toI_lit d 1 (by omega), idxI_toI_lit d 2 (by omega), ok_bind,
    bor24 _ _ _ (byteAt_lt256 d 0) (byteAt_lt256 d 1), mul_nat_lit, le24]

theorem tie_Demuxer_parseANMF_offsetY (d : List UInt8) (h : 6 ≤ d.length) :
    Generated.Funcs.Demuxer_parseANMF_offsetY (toI d) = .ok ((le24 d 3 * 2 : Nat) : Int) := by
  simp only [Generated.Funcs.Demuxer_parseANMF_offsetY, idxI_toI_lit d 3 (by omega),
    idxI_toI_lit d 4 (by omega), idxI_toI_lit d 5 (by omega), ok_bind,
    bor24 _ _ _ (byteAt_lt256 d 3) (byteAt_lt256 d 4), mul_nat_lit, le24]

theorem tie_Demuxer_parseANMF_width (d : List UInt8) (h : 9 ≤ d.length) :
    Generated.Funcs.Demuxer_parseANMF_width (toI d) = .ok ((le24 d 6 + 1 : Nat) : Int) := by
  simp only [Generated.Funcs.Demuxer_parseANMF_width, idxI_toI_lit d 6 (by omega),
    idxI_toI_lit d 7 (by omega), idxI_toI_lit d 8 (by omega), ok_bind,
    bor24 _ _ _ (byteAt_lt256 d 6) (byteAt_lt256 d 7), add_nat_lit, le24]

theorem tie_Demuxer_parseANMF_height (d : List UInt8) (h : 12 ≤ d.length) :
    Generated.Funcs.Demuxer_parseANMF_height (toI d) = .ok ((le24 d 9 + 1 : Nat) : Int) := by
  simp only [Generated.Funcs.Demuxer_parseANMF_height, idxI_toI_lit d 9 (by omega),
    idxI_toI_lit d 10 (by omega), idxI_toI_lit d 11 (by omega), ok_bind,
    bor24 _ _ _ (byteAt_lt256 d 9) (byteAt_lt256 d 10), add_nat_lit, le24]

theorem tie_Demuxer_parseANMF_duration (d : List UInt8) (h : 15 ≤ d.length) :
    Generated.Funcs.Demuxer_parseANMF_duration (toI d) = .ok ((le24 d 12 : Nat) : Int) := by
  simp only [Generated.Funcs.Demuxer_parseANMF_duration, idxI_toI_lit d 12 (by omega),
    idxI_toI_lit d 13 (by omega), idxI_toI_lit d 14 (by omega), ok_bind,
    bor24 _ _ _ (byteAt_lt256 d 12) (byteAt_lt256 d 13), le24]

/-- exact bound: `data[14]` panics on 14 bytes (the demuxer checks `len(data) < 16` first) -/
theorem Demuxer_parseANMF_duration_short (d : List UInt8) (h12 : 14 ≤ d.length) (h : d.length < 15) :
    Generated.Funcs.Demuxer_parseANMF_duration (toI d) = .panic := by
  simp only [Generated.Funcs.Demuxer_parseANMF_duration, idxI_toI_lit d 12 (by omega),
    idxI_toI_lit d 13 (by omega), idxI_toI_lit_ge d 14 (by omega), ok_bind]
  rfl

example : Generated.Funcs.Demuxer_parseANMF_offsetY (toI [0,0,0, 1,2,3]) = .ok (0x030201 * 2) := by decide
example : Generated.Funcs.Demuxer_parseANMF_duration (toI [0,0,0, 0,0,0, 0,0,0, 0,0,0, 1,2,3]) = .ok 0x030201 := by
  decide
example : Generated.Funcs.Demuxer_parseANMF_duration (toI [0,0,0, 0,0,0, 0,0,0, 0,0,0, 1,2]) = .panic := by decide

example : Generated.Funcs.Demuxer_parseANMF_offsetX (toI [2,0,0, 4,0,0, 9,0,0, 19,0,0, 100,0,0, 3]) = .ok 4
    ∧ Generated.Funcs.Demuxer_parseANMF_width (toI [2,0,0, 4,0,0, 9,0,0, 19,0,0, 100,0,0, 3]) = .ok 10
    ∧ Generated.Funcs.Demuxer_parseANMF_height (toI [2,0,0, 4,0,0, 9,0,0, 19,0,0, 100,0,0, 3]) = .ok 20 := by decide

/-! ### connection with the hand models -/

/-- container model: when `Impl.Parser.parseANMF` accepts a payload, the five translated field
    sites evaluated on that payload are exactly the geometry fields of the frame it returns -/
theorem parseANMF_sites_model (p : Bytes) (f : Webp.Impl.Parser.FrameInfo)
    (h : Webp.Impl.Parser.parseANMF p = .ok f) :
    Generated.Funcs.parseANMF_XOffset (toI p) = .ok (f.xOffset : Int)
    ∧ Generated.Funcs.parseANMF_YOffset (toI p) = .ok (f.yOffset : Int)
    ∧ Generated.Funcs.parseANMF_Width (toI p) = .ok (f.width : Int)
    ∧ Generated.Funcs.parseANMF_Height (toI p) = .ok (f.height : Int)
    ∧ Generated.Funcs.parseANMF_Duration (toI p) = .ok (f.duration : Int) := by
  obtain ⟨⟨gx, gy, gw, gh, gd, _, _⟩, _, _, _, _, _, hl⟩ := Webp.Impl.Parser.parseANMF_ok h
  have hl : 16 ≤ p.length := by omega
  rw [gx, gy, gw, gh, gd]
  exact ⟨tie_parseANMF_XOffset p (by omega), tie_parseANMF_YOffset p (by omega),
    tie_parseANMF_Width p (by omega), tie_parseANMF_Height p (by omega),
    tie_parseANMF_Duration p (by omega)⟩

/-- container model: the canvas fields of the `Features` record `Impl.Parser.parseVP8X` builds from
    the 10-byte VP8X payload (`Parser.vp8xFeatures`, see `Parser.parseVP8X_cases`) -/
theorem parseVP8X_sites_model (p : Bytes) (h : 10 ≤ p.length) :
    Generated.Funcs.Parser_parseVP8X_CanvasWidth (toI p)
      = .ok ((Webp.Impl.Parser.vp8xFeatures p).canvasWidth : Int)
    ∧ Generated.Funcs.Parser_parseVP8X_CanvasHeight (toI p)
      = .ok ((Webp.Impl.Parser.vp8xFeatures p).canvasHeight : Int) := by
  have e1 : (Webp.Impl.Parser.vp8xFeatures p).canvasWidth = 1 + le24 p 4 := by
    show 1 + le24 ((p.take 7).drop 4) 0 = _
    rw [le24_slice p 4 7 0 (by omega)]
  have e2 : (Webp.Impl.Parser.vp8xFeatures p).canvasHeight = 1 + le24 p 7 := by
    show 1 + le24 ((p.take 10).drop 7) 0 = _
    rw [le24_slice p 7 10 0 (by omega)]
  rw [e1, e2]
  exact ⟨tie_parseVP8X_CanvasWidth p (by omega), tie_parseVP8X_CanvasHeight p h⟩

/-- demuxer model: when `Impl.Demux.parseANMF` accepts the ANMF payload, the frame it appends has
    the values of the five translated sites -/
theorem Demuxer_parseANMF_sites_model (st st' : Webp.Impl.Demux.State) (d : Bytes)
    (h : Webp.Impl.Demux.parseANMF st d = .ok st') :
    ∃ fi, st'.frames = st.frames ++ [fi]
    ∧ Generated.Funcs.Demuxer_parseANMF_offsetX (toI d) = .ok (fi.offsetX : Int)
    ∧ Generated.Funcs.Demuxer_parseANMF_offsetY (toI d) = .ok (fi.offsetY : Int)
    ∧ Generated.Funcs.Demuxer_parseANMF_width (toI d) = .ok (fi.width : Int)
    ∧ Generated.Funcs.Demuxer_parseANMF_height (toI d) = .ok (fi.height : Int)
    ∧ Generated.Funcs.Demuxer_parseANMF_duration (toI d) = .ok (fi.duration : Int) := by
  obtain ⟨_, hl, img, alph, _, rfl⟩ := Webp.Impl.Demux.parseANMF_ok h
  exact ⟨Webp.Impl.Demux.anmfFrameInfo st d img alph, rfl,
    tie_Demuxer_parseANMF_offsetX d (by omega), tie_Demuxer_parseANMF_offsetY d (by omega),
    tie_Demuxer_parseANMF_width d (by omega), tie_Demuxer_parseANMF_height d (by omega),
    tie_Demuxer_parseANMF_duration d (by omega)⟩

/-- non-vacuity of the three model hypotheses: a bare 16-byte ANMF payload is accepted by both models -/
example : Webp.Impl.Parser.parseANMF [2,0,0, 4,0,0, 9,0,0, 19,0,0, 100,0,0, 3]
    = .ok { xOffset := 4, yOffset := 8, width := 10, height := 20, duration := 100,
            disposeBG := true, blendNone := true } := by decide
example : Webp.Impl.Demux.parseANMF {} [2,0,0, 4,0,0, 9,0,0, 19,0,0, 100,0,0, 3]
    = .ok { frames := [{ width := 10, height := 20, offsetX := 4, offsetY := 8, duration := 100,
                         isKeyframe := true, blendNone := true, disposeBG := true }] } := by decide
example : (Webp.Impl.Parser.vp8xFeatures [0, 0,0,0, 9,0,0, 19,0,0]).canvasWidth = 10 := by decide

/-! ## 4. area and canvas guards -/

/-- mux/mux.go `validate`: `uint64(canvasW)*uint64(canvasH) >= MaxImageArea` for **all** Go `int`s
    (negative ones wrap to huge `uint64`s, the product wraps mod `2^64`): literally the condition of
    `Impl.Mux.validateWith` -/
theorem tie_Muxer_validate_areaGuard (w h : Int) :
    Generated.Funcs.Muxer_validate_areaGuard w h
      = decide ((Webp.Impl.Mux.u64 w * Webp.Impl.Mux.u64 h) % 18446744073709551616
          ≥ Webp.Impl.Parser.maxImageArea) := by
  rw [Generated.Funcs.Muxer_validate_areaGuard, wrapU64_eq w, wrapU64_eq h, ← Int.natCast_mul, wrapU_nat]
  show decide (((((w % 18446744073709551616).toNat * (h % 18446744073709551616).toNat)
      % 18446744073709551616 : Nat) : Int) ≥ 1073741824)
    = decide (((w % 18446744073709551616).toNat * (h % 18446744073709551616).toNat)
      % 18446744073709551616 ≥ 1073741824)
  generalize ((w % 18446744073709551616).toNat * (h % 18446744073709551616).toNat)
    % 18446744073709551616 = m
  apply decide_eq_decide.mpr
  omega

/-- no 64-bit wrap for operands in `[0, 2^32)`: the guard is the plain product test -/
theorem Muxer_validate_areaGuard_small (w h : Nat) (hw : w < 4294967296) (hh : h < 4294967296) :
    Generated.Funcs.Muxer_validate_areaGuard (w : Int) (h : Int)
      = decide (w * h ≥ Webp.Impl.Parser.maxImageArea) := by
  have hlt : w * h < 2 ^ 64 := by
    calc w * h < 4294967296 * 4294967296 := Nat.mul_lt_mul'' hw hh
      _ = 2 ^ 64 := by decide
  rw [Generated.Funcs.Muxer_validate_areaGuard, wrapU_nat, wrapU_nat,
    Nat.mod_eq_of_lt (show w < 2 ^ 64 by omega), Nat.mod_eq_of_lt (show h < 2 ^ 64 by omega),
    ← Int.natCast_mul, wrapU_nat, Nat.mod_eq_of_lt hlt]
  show decide (((w * h : Nat) : Int) ≥ 1073741824) = decide (w * h ≥ 1073741824)
  generalize w * h = m
  apply decide_eq_decide.mpr
  omega

/-- mux/demux.go `parseANMF`: the same expression; `width`, `height` are `le24 + 1 ≤ 2^24` there, so
    the guard is the (wrap-free) test `width * height ≥ maxImageArea` of `Impl.Demux.parseANMF` -/
theorem tie_Demuxer_parseANMF_areaGuard (w h : Nat) (hw : w < 4294967296) (hh : h < 4294967296) :
    Generated.Funcs.Demuxer_parseANMF_areaGuard (w : Int) (h : Int)
      = decide (w * h ≥ Webp.Impl.Parser.maxImageArea) :=
  Muxer_validate_areaGuard_small w h hw hh

/-- with the demuxer's own field expressions -/
theorem Demuxer_parseANMF_areaGuard_fields (d : Bytes) :
    Generated.Funcs.Demuxer_parseANMF_areaGuard ((le24 d 6 + 1 : Nat) : Int) ((le24 d 9 + 1 : Nat) : Int)
      = decide ((le24 d 6 + 1) * (le24 d 9 + 1) ≥ Webp.Impl.Parser.maxImageArea) := by
  have b6 := byteAt_lt256 d 6; have b7 := byteAt_lt256 d 7; have b8 := byteAt_lt256 d 8
  have b9 := byteAt_lt256 d 9; have b10 := byteAt_lt256 d 10; have b11 := byteAt_lt256 d 11
  apply tie_Demuxer_parseANMF_areaGuard <;> (simp only [le24, Nat.reduceAdd]; omega)

/-- the range hypothesis is needed: at `2^32 × 2^32` the `uint64` product wraps to 0 -/
example : Generated.Funcs.Muxer_validate_areaGuard 4294967296 4294967296 = false := by decide +kernel
example : Generated.Funcs.Muxer_validate_areaGuard 32768 32768 = true
    ∧ Generated.Funcs.Muxer_validate_areaGuard 32768 32767 = false := by decide +kernel
/-- a negative operand: `uint64(-1) * uint64(-1) = 1 (mod 2^64)`, below the limit -/
example : Generated.Funcs.Muxer_validate_areaGuard (-1) (-1) = false := by decide +kernel
example : Generated.Funcs.Demuxer_parseANMF_areaGuard 65536 16384 = true := by decide +kernel

/-- mux/mux.go `validate`: `canvasW > MaxCanvasSize || canvasH > MaxCanvasSize`, the condition of
    `Impl.Mux.validateWith` -/
theorem tie_Muxer_validate_canvasGuard (w h : Int) :
    Generated.Funcs.Muxer_validate_canvasGuard w h
      = decide (w > Webp.Impl.Mux.maxCanvasSize ∨ h > Webp.Impl.Mux.maxCanvasSize) := by
  simp [Generated.Funcs.Muxer_validate_canvasGuard, Webp.Impl.Mux.maxCanvasSize]

example : Generated.Funcs.Muxer_validate_canvasGuard 16777217 1 = true
    ∧ Generated.Funcs.Muxer_validate_canvasGuard 16777216 16777216 = false := by decide

/-! ## 5. VP8 frame header sites -/

/-- decode.go `parseHeaders`: `int(binary.LittleEndian.Uint16(buf[3:5])) & 0x3FFF`
    (`buf = data[3:]`, so this is `le16 data 6 % 16384` of the models) -/
theorem tie_parseHeaders_Width (buf : List UInt8) (h : 5 ≤ buf.length) :
    Generated.Funcs.Decoder_parseHeaders_Width (toI buf) = .ok ((le16 buf 3 % 16384 : Nat) : Int) := by
  rw [Generated.Funcs.Decoder_parseHeaders_Width, sliceI_leU16 buf 3 5 rfl h, band_nat_lit, nat_and_16383]

theorem tie_parseHeaders_Height (buf : List UInt8) (h : 7 ≤ buf.length) :
    Generated.Funcs.Decoder_parseHeaders_Height (toI buf) = .ok ((le16 buf 5 % 16384 : Nat) : Int) := by
  rw [Generated.Funcs.Decoder_parseHeaders_Height, sliceI_leU16 buf 5 7 rfl h, band_nat_lit, nat_and_16383]

/-- `buf[4] >> 6`, `buf[6] >> 6`: the two scale bits above each 14-bit dimension -/
theorem tie_parseHeaders_XScale (buf : List UInt8) (h : 5 ≤ buf.length) :
    Generated.Funcs.Decoder_parseHeaders_XScale (toI buf) = .ok ((byteAt buf 4 / 64 : Nat) : Int) := by
  rw [Generated.Funcs.Decoder_parseHeaders_XScale, idxI_toI_lit buf 4 (by omega), ok_bind, shr_nat_lit, nat_shr]

theorem tie_parseHeaders_YScale (buf : List UInt8) (h : 7 ≤ buf.length) :
    Generated.Funcs.Decoder_parseHeaders_YScale (toI buf) = .ok ((byteAt buf 6 / 64 : Nat) : Int) := by
  rw [Generated.Funcs.Decoder_parseHeaders_YScale, idxI_toI_lit buf 6 (by omega), ok_bind, shr_nat_lit, nat_shr]

/-- scale and dimension are the two halves of the same 16-bit field -/
theorem parseHeaders_scale_eq (buf : Bytes) :
    byteAt buf 4 / 64 = le16 buf 3 / 16384 ∧ byteAt buf 6 / 64 = le16 buf 5 / 16384 := by
  have := byteAt_lt256 buf 3; have := byteAt_lt256 buf 5
  simp only [le16, Nat.reduceAdd]; omega

theorem parseHeaders_Height_short (buf : List UInt8) (h : buf.length < 7) :
    Generated.Funcs.Decoder_parseHeaders_Height (toI buf) = .panic := by
  rw [Generated.Funcs.Decoder_parseHeaders_Height, sliceI_toI_lit_short buf 5 7 h]; rfl

example : Generated.Funcs.Decoder_parseHeaders_Width (toI [0x9d, 0x01, 0x2a, 0x34, 0xd2]) = .ok 0x1234 := by decide
example : Generated.Funcs.Decoder_parseHeaders_XScale (toI [0x9d, 0x01, 0x2a, 0x34, 0xd2]) = .ok 3 := by decide
example : Generated.Funcs.Decoder_parseHeaders_Height (toI [0x9d, 0x01, 0x2a, 0, 0, 0x34, 0x52]) = .ok 0x1234 := by
  decide
example : Generated.Funcs.Decoder_parseHeaders_YScale (toI [0x9d, 0x01, 0x2a, 0, 0, 0x34, 0x52]) = .ok 1 := by decide
example : Generated.Funcs.Decoder_parseHeaders_Height (toI [0x9d, 0x01, 0x2a, 0, 0, 0x34]) = .panic := by decide

/-- encode_syntax.go `assembleFrame`: `tag |= uint32(len(part0)) << 5` for a tag below 32 (the flag
    bits): the length lands above the flags, truncated to 27 bits by the `uint32` shift -/
theorem tie_assembleFrame_tag (tag : Nat) (part0 : List Int) (ht : tag < 32) :
    Generated.Funcs.assembleFrame_tag (tag : Int) part0
      = ((tag + part0.length % 134217728 * 32 : Nat) : Int) := by
  simp only [Generated.Funcs.assembleFrame_tag, lenI, wrapU_nat, shl_nat_lit, bor_nat]
  congr 1
  have e2 : (part0.length % 2 ^ 32) <<< 5 % 2 ^ 32 = (part0.length % 134217728) <<< 5 := by
    rw [Nat.shiftLeft_eq, Nat.shiftLeft_eq]; omega
  rw [e2, Nat.or_comm, ← Nat.shiftLeft_add_eq_or_of_lt (show tag < 2 ^ 5 by omega), Nat.shiftLeft_eq]
  omega

theorem assembleFrame_tag_16 (part0 : List Int) :
    Generated.Funcs.assembleFrame_tag 16 part0 = ((16 + part0.length % 134217728 * 32 : Nat) : Int) :=
  tie_assembleFrame_tag 16 part0 (by decide)

/-- with the tag `assembleFrame` starts from (key frame, profile 0, show = 1): `Impl.Writer.frameTag` -/
theorem assembleFrame_tag_model (part0 : List Int) :
    Generated.Funcs.assembleFrame_tag 16 part0 = ((Webp.Impl.Writer.frameTag part0.length : Nat) : Int) := by
  rw [Webp.Impl.Writer.frameTag_eq]
  exact assembleFrame_tag_16 part0

/-- round trip through the three tag bytes (`putLE24` keeps `tag mod 2^24`) and the decoder's field
    sites: key frame, profile 0, shown; the partition length comes back **mod `2^19`** — nothing in
    `assembleFrame` checks `len(part0) < 2^19` -/
theorem assembleFrame_tag_roundtrip (part0 : List Int) :
    ∃ tag : Nat, Generated.Funcs.assembleFrame_tag 16 part0 = (tag : Int)
    ∧ Generated.Funcs.Decoder_parseHeaders_KeyFrame ((tag % 16777216 : Nat) : Int) = true
    ∧ Generated.Funcs.Decoder_parseHeaders_Profile ((tag % 16777216 : Nat) : Int) = 0
    ∧ Generated.Funcs.Decoder_parseHeaders_Show ((tag % 16777216 : Nat) : Int) = true
    ∧ Generated.Funcs.Decoder_parseHeaders_PartitionLength ((tag % 16777216 : Nat) : Int)
        = ((part0.length % 524288 : Nat) : Int) := by
  refine ⟨16 + part0.length % 134217728 * 32, assembleFrame_tag_16 part0, ?_⟩
  obtain ⟨hk, hp, hs, hl⟩ :=
    Webp.Props.C05FuncsSites.parseHeaders_fields ((16 + part0.length % 134217728 * 32) % 16777216)
  rw [hk, hp, hs, hl]
  refine ⟨?_, ?_, ?_, ?_⟩
  · apply decide_eq_true; omega
  · omega
  · apply decide_eq_true; omega
  · omega

/-- hence the identity exactly below `2^19` -/
theorem assembleFrame_tag_roundtrip_small (part0 : List Int) (h : part0.length < 524288) :
    ∃ tag : Nat, tag < 16777216 ∧ Generated.Funcs.assembleFrame_tag 16 part0 = (tag : Int)
    ∧ Generated.Funcs.Decoder_parseHeaders_KeyFrame (tag : Int) = true
    ∧ Generated.Funcs.Decoder_parseHeaders_Show (tag : Int) = true
    ∧ Generated.Funcs.Decoder_parseHeaders_PartitionLength (tag : Int) = (part0.length : Int) := by
  obtain ⟨tag, h1, h2, _, h4, h5⟩ := assembleFrame_tag_roundtrip part0
  have ht : tag = 16 + part0.length % 134217728 * 32 := by
    have := assembleFrame_tag_16 part0
    rw [h1] at this; exact Int.ofNat.inj this
  have hlt : tag < 16777216 := by omega
  rw [Nat.mod_eq_of_lt hlt] at h2 h4 h5
  rw [Nat.mod_eq_of_lt h] at h5
  exact ⟨tag, hlt, h1, h2, h4, h5⟩

example : Generated.Funcs.assembleFrame_tag 16 [1, 2, 3] = 16 + 3 * 32 := by decide
example : Generated.Funcs.Decoder_parseHeaders_PartitionLength (Generated.Funcs.assembleFrame_tag 16 [1, 2, 3]) = 3
    ∧ Generated.Funcs.Decoder_parseHeaders_Show (Generated.Funcs.assembleFrame_tag 16 [1, 2, 3]) = true
    ∧ Generated.Funcs.Decoder_parseHeaders_KeyFrame (Generated.Funcs.assembleFrame_tag 16 [1, 2, 3]) = true := by
  decide

/-! ### connection with the hand models of the VP8 header -/

/-- `parseHeaders` works on `buf = data[3:]`: offsets 3 / 5 of `buf` are offsets 6 / 8 of the VP8
    payload, where `Impl.Parser.parseVP8Header`, `Impl.Demux` and `Spec.Riff` read the dimensions -/
theorem parseHeaders_dims_data (data : List UInt8) (h : 10 ≤ data.length) :
    Generated.Funcs.Decoder_parseHeaders_Width (toI (data.drop 3)) = .ok ((le16 data 6 % 16384 : Nat) : Int)
    ∧ Generated.Funcs.Decoder_parseHeaders_Height (toI (data.drop 3)) = .ok ((le16 data 8 % 16384 : Nat) : Int) := by
  have hl : (data.drop 3).length = data.length - 3 := List.length_drop
  have e : ∀ j, byteAt (data.drop 3) j = byteAt data (3 + j) := fun j => by
    simp only [byteAt, List.getD, List.getElem?_drop]
  rw [tie_parseHeaders_Width _ (by omega), tie_parseHeaders_Height _ (by omega)]
  simp only [le16, e, Nat.reduceAdd, and_self]

/-- container model: the dimensions `Impl.Parser.parseVP8Header` returns are the translated
    `Width` / `Height` sites of the decoder on the same payload -/
theorem parseVP8Header_sites_model (data : Bytes) (w h : Nat)
    (hm : Webp.Impl.Parser.parseVP8Header data = .ok (w, h)) :
    Generated.Funcs.Decoder_parseHeaders_Width (toI (data.drop 3)) = .ok (w : Int)
    ∧ Generated.Funcs.Decoder_parseHeaders_Height (toI (data.drop 3)) = .ok (h : Int) := by
  unfold Webp.Impl.Parser.parseVP8Header at hm
  by_cases h1 : data.length < 10
  · rw [if_pos h1] at hm; cases hm
  rw [if_neg h1] at hm
  split at hm
  · cases hm
  split at hm
  · cases hm
  dsimp only at hm
  split at hm
  · cases hm
  · cases hm
    exact parseHeaders_dims_data data (by omega)

/-- decode.go `parseHeaders` `bits` on any list of at least three bytes (`toI` form of
    `C05FuncsSites.tie_parseHeaders_bits`) -/
theorem parseHeaders_bits_toI (l : List UInt8) (h : 3 ≤ l.length) :
    Generated.Funcs.Decoder_parseHeaders_bits (toI l) = .ok ((le24 l 0 : Nat) : Int) := by
  simp only [Generated.Funcs.Decoder_parseHeaders_bits, idxI_toI_lit l 0 (by omega),
    idxI_toI_lit l 1 (by omega), idxI_toI_lit l 2 (by omega), ok_bind,
    bor24_u32 _ _ _ (byteAt_lt256 l 0) (byteAt_lt256 l 1) (byteAt_lt256 l 2), le24]

/-- the encoder's `putLE24(buf, tag)` followed by the decoder's `bits` expression: `tag mod 2^24` -/
theorem parseHeaders_bits_webp_putLE24 (rest : List UInt8) (d0 d1 d2 : Int) (n : Nat) :
    (Generated.Funcs.webp_putLE24 (d0 :: d1 :: d2 :: toI rest) (n : Int)).bind
      Generated.Funcs.Decoder_parseHeaders_bits = .ok ((n % 16777216 : Nat) : Int) := by
  rw [tie_webp_putLE24 _ n (by simp), ok_bind]
  show Generated.Funcs.Decoder_parseHeaders_bits (toI (putLE24 n) ++ toI rest) = _
  rw [← toI_append, parseHeaders_bits_toI _ (by simp [putLE24]),
    Webp.Proofs.MuxBytes.le24_append_left (by simp [putLE24]), Webp.Proofs.MuxBytes.le24_putLE24]

/-- decoder model: when `Impl.CodecFront.frameTag` accepts `data`, every translated `parseHeaders`
    site evaluated on the same bytes gives the corresponding field of the `Tag` it returns (and the
    key-frame / show tests it passed) -/
theorem frameTag_sites_model (data : Bytes) (t : Webp.Impl.CodecFront.Tag)
    (hm : Webp.Impl.CodecFront.frameTag data = .ok t) :
    ∃ bits : Nat, Generated.Funcs.Decoder_parseHeaders_bits (toI data) = .ok (bits : Int)
    ∧ Generated.Funcs.Decoder_parseHeaders_KeyFrame (bits : Int) = true
    ∧ Generated.Funcs.Decoder_parseHeaders_Profile (bits : Int) = (t.profile : Int)
    ∧ Generated.Funcs.Decoder_parseHeaders_Show (bits : Int) = true
    ∧ Generated.Funcs.Decoder_parseHeaders_PartitionLength (bits : Int) = (t.partLen : Int)
    ∧ Generated.Funcs.Decoder_parseHeaders_Width (toI (data.drop 3)) = .ok (t.width : Int)
    ∧ Generated.Funcs.Decoder_parseHeaders_Height (toI (data.drop 3)) = .ok (t.height : Int)
    ∧ Generated.Funcs.Decoder_parseHeaders_XScale (toI (data.drop 3)) = .ok (t.xScale : Int)
    ∧ Generated.Funcs.Decoder_parseHeaders_YScale (toI (data.drop 3)) = .ok (t.yScale : Int) := by
  have g := Webp.Impl.CodecFront.frameTag_ok_fields hm
  have hl : (data.drop 3).length = data.length - 3 := List.length_drop
  have hlen := g.len
  obtain ⟨hk, hp, hs, hpl⟩ := Webp.Props.C05FuncsSites.parseHeaders_fields (le24 data 0)
  refine ⟨le24 data 0, parseHeaders_bits_toI data (by omega), ?_, ?_, ?_, ?_, ?_, ?_, ?_, ?_⟩
  · rw [hk]; exact decide_eq_true g.key
  · rw [hp, g.profile]
  · rw [hs]; exact decide_eq_true g.shown
  · rw [hpl, g.partLen]
  · rw [g.width]; exact tie_parseHeaders_Width _ (by omega)
  · rw [g.height]; exact tie_parseHeaders_Height _ (by omega)
  · rw [g.xScale]; exact tie_parseHeaders_XScale _ (by omega)
  · rw [g.yScale]; exact tie_parseHeaders_YScale _ (by omega)

example : Generated.Funcs.Decoder_parseHeaders_bits (toI [0x10, 0x02, 0x03]) = .ok 0x030210 := by decide
example : Generated.Funcs.Decoder_parseHeaders_Width (toI (([0x10, 0, 0, 0x9d, 0x01, 0x2a, 7, 0, 9, 0] : List UInt8).drop 3))
    = .ok 7 := by decide
/-- non-vacuity: a 10-byte key frame header (`part0` length 0, 1 × 1) accepted by both models -/
example : Webp.Impl.Parser.parseVP8Header [0x10, 0, 0, 0x9d, 0x01, 0x2a, 1, 0, 1, 0] = .ok (1, 1) := by decide
example : Webp.Impl.CodecFront.frameTag [0x10, 0, 0, 0x9d, 0x01, 0x2a, 1, 0x40, 1, 0x80]
    = .ok { profile := 0, partLen := 0, width := 1, height := 1, xScale := 1, yScale := 2, rest := [] } := by
  decide

end Webp.Props.C14FuncsSites
