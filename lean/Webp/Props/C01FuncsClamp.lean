import Generated.Funcs
import Webp.Proofs.FuncsLoops
/-
  C01 — regenerated obligation (fact only): `lossless.clampBits` (two `for cond {…}` loops, the second
  with `break`; loop fuel 64), translated from the Go AST on this run, neither panics nor runs out
  of fuel and returns a value in `[minBits, maxBits]` whenever `0 ≤ minBits ≤ maxBits ≤ minBits + 63`
  (the encoder calls it with constant bit ranges inside 2..9).  No hand model of `clampBits` exists:
  the transform bit counts are encoder choices (oracles) in `Webp.Impl.LTransform`; the C01
  theorems only need them in range.
-/
namespace Webp.Props.C01FuncsClamp
open Webp.Go Webp.Go.IntSem Webp.Proofs.FuncsBridge Webp.Proofs.FuncsLoops

theorem SS_ok (w b : Int) (hb : 0 ≤ b) : ∃ v, Generated.Funcs.VP8LSubSampleSize w b = .ok v := by
  unfold Generated.Funcs.VP8LSubSampleSize
  rw [chkShift_of_nonneg b hb]
  exact ⟨_, rfl⟩

theorem clampBits_range (w h bits minBits maxBits imax : Int)
    (h0 : 0 ≤ minBits) (h1 : minBits ≤ maxBits) (h2 : maxBits - minBits ≤ 63) :
    ∃ r, Generated.Funcs.clampBits w h bits minBits maxBits imax = .ok r ∧ (minBits ≤ r ∧ r ≤ maxBits) := by
  unfold Generated.Funcs.clampBits
  simp only []
  generalize hb0 : (if decide (bits < minBits) = true then minBits
      else if decide (bits > maxBits) = true then maxBits else bits) = b0
  have hb0r : minBits ≤ b0 ∧ b0 ≤ maxBits := by
    subst hb0
    simp only [decide_eq_true_eq]
    split
    · omega
    · split <;> omega
  obtain ⟨t1, ht1⟩ := SS_ok w b0 (by omega)
  obtain ⟨t2, ht2⟩ := SS_ok h b0 (by omega)
  rw [ht1, ok_bind, ht2, ok_bind]
  apply whileFuel_bind_ok (I := fun s => minBits ≤ s.1 ∧ s.1 ≤ maxBits) (μ := fun s => (maxBits - s.1).toNat)
  · intro ⟨b, im⟩ hI hc
    simp only [Bool.and_eq_true, decide_eq_true_eq] at hc hI
    obtain ⟨t3, ht3⟩ := SS_ok w (b + 1) (by omega)
    obtain ⟨t4, ht4⟩ := SS_ok h (b + 1) (by omega)
    refine ⟨(b + 1, t3 * t4), ?_, ?_, ?_⟩
    · simp only [ht3, ht4, ok_bind]
    · simp only []; omega
    · simp only []; omega
  · exact hb0r
  · simp only []; omega
  intro ⟨b1, im1⟩ hI1
  simp only [] at hI1 ⊢
  apply whileFuelRet_bind_ok (I := fun s => minBits ≤ s.2 ∧ s.2 ≤ maxBits) (μ := fun s => (s.2 - minBits).toNat)
  · intro ⟨im, b⟩ hI hc
    simp only [Bool.and_eq_true, decide_eq_true_eq] at hc hI
    obtain ⟨t5, ht5⟩ := SS_ok w (b - 1) (by omega)
    obtain ⟨t6, ht6⟩ := SS_ok h (b - 1) (by omega)
    by_cases hne : t5 * t6 ≠ 1
    · right
      refine ⟨(t5 * t6, b), ?_, hI⟩
      simp only [ht5, ht6, ok_bind]
      simp [hne]
    · left
      refine ⟨(t5 * t6, b - 1), ?_, ?_, ?_⟩
      · simp only [ht5, ht6, ok_bind]
        simp [hne]
      · simp only []; omega
      · simp only []; omega
  · exact hI1
  · simp only []; omega
  intro ⟨im2, b2⟩ hI2
  exact ⟨b2, rfl, hI2⟩

example : Generated.Funcs.clampBits 100 100 1 2 9 16 = .ok 5 := by decide

end Webp.Props.C01FuncsClamp
