import Webp.Proofs.VP8HeaderBytes
import Webp.Props.C06Bytes
import Webp.Props.C02
/-
  C06, the first-partition header and the transport of the probability tables: `Webp.Props.C06Bytes`
  closed — no shared `prob` / `hdr` parameters any more.

  * `Webp.Impl.VP8HeaderBytes`: `headerOps` = everything `emitPartition0` writes before
    `writeMBModes`, as `BoolWriter` calls; `T.parseHeader` = `parseHeaders` from the first boolean of
    partition 0 to the end of `parseProba`, as a decision tree (`GetBit(0x80)`, `GetValue`,
    `GetSignedValue`, `GetBit(CoeffsUpdateProba[…])`); `emitFrameFull` / `decodeFrameFull`.
  * A field the stream does not carry keeps the decoder's previous value (`prev`): segment values
    without `use_segment`, segment-map probabilities without `update_map`, ZERO loop-filter deltas
    (a zero delta is written as "absent"), the skip probability without the skip flag.  The
    theorems state the decoder's state exactly (`decSeg`, `decFilt`, `decHdr`); `filter_params_equal`
    is the corollary for a decoder whose deltas start at 0 (`acquireDecoder`).
  * Bounds (`HdrWF`): what the bit widths of the fields force (|segment quantiser| < 128,
    |filter strength| < 64, level < 64, sharpness < 8, |lf delta| < 64, base index < 128,
    |dq| < 16, 1/2/4/8 partitions, 1056 coefficient probabilities).  The encoder's setters clamp to
    these ranges (`EncQuant.WF` of `Webp.Props.C06` for the quantiser).
-/
namespace Webp.Props.C06Header
open Webp.Go (Bytes)
open Webp.Impl.VP8Recon Webp.Impl.VP8SyntaxBytes Webp.Impl.VP8HeaderBytes Webp.Impl.BoolCoder
open Webp.Proofs.VP8SyntaxTrees Webp.Proofs.VP8SyntaxTransfer Webp.Proofs.VP8SyntaxBytesP
open Webp.Proofs.VP8HeaderStream Webp.Proofs.VP8HeaderRoundtrip Webp.Proofs.VP8HeaderBytesP
open Webp.Proofs.VP8ReconSyntax Webp.Proofs.VP8ReconAgree

/-- **`segment_header_roundtrip`**: `parseSegmentHeader` reads back what `writeSegmentHeader` wrote:
    the flags, the four quantiser and filter-strength values with their signs (7 / 6 magnitude bits),
    the three segment-map probabilities (255 when not transmitted). -/
theorem segment_header_roundtrip (h prev : SegHdr) (wf : SegWF h) (rest : Stream) :
    runS (T.parseSegmentHeader prev) (opsStream (segHdrOps h) ++ rest) = some (decSeg h prev, rest) :=
  runS_segHdr h prev wf rest

/-- **`filter_header_roundtrip`**: `parseFilterHeader` reads back `writeFilterHeader` (type, level,
    sharpness, `use_lf_delta`, the update flag, the eight deltas; absent = keep). -/
theorem filter_header_roundtrip (h prev : FilterHdr) (wf : FiltWF h) (rest : Stream) :
    runS (T.parseFilterHeader prev) (opsStream (filterHdrOps h) ++ rest) = some (decFilt h prev, rest) :=
  runS_filterHdr h prev wf rest

/-- the loop-filter parameters the decoder ends with are the encoder's, for a decoder whose deltas
    start at zero: type, level, sharpness, `use_lf_delta`, and — whenever deltas are in use — all
    eight deltas; with segments, the per-segment strengths and the absolute/delta mode. -/
theorem filter_params_equal (h : EncHeader) (prev : DecHeader)
    (hr : ∀ i, prev.filt.refLFDelta i = 0) (hm : ∀ i, prev.filt.modeLFDelta i = 0) :
    (decHdr h prev).filt.simple = h.filt.simple ∧ (decHdr h prev).filt.level = h.filt.level ∧
    (decHdr h prev).filt.sharpness = h.filt.sharpness ∧ (decHdr h prev).filt.useLFDelta = h.filt.useLFDelta ∧
    (h.filt.useLFDelta = true →
      (decHdr h prev).filt.refLFDelta = h.filt.refLFDelta ∧ (decHdr h prev).filt.modeLFDelta = h.filt.modeLFDelta) ∧
    (decHdr h prev).seg.useSegment = h.seg.useSegment ∧
    (h.seg.useSegment = true →
      (decHdr h prev).seg.filterStrength = h.seg.filterStrength ∧
      (decHdr h prev).seg.absoluteDelta = h.seg.absoluteDelta) := by
  refine ⟨rfl, rfl, rfl, rfl, ?_, ?_, ?_⟩
  · intro hu
    unfold decHdr decFilt
    simp only [hu, Bool.true_and]
    by_cases hn : (decide (∃ i, h.filt.refLFDelta i ≠ 0) || decide (∃ i, h.filt.modeLFDelta i ≠ 0)) = true
    · simp only [hn, if_true]
      constructor
      · funext i; by_cases h0 : h.filt.refLFDelta i ≠ 0
        · simp [h0]
        · have : h.filt.refLFDelta i = 0 := by simpa using h0
          simp [this, hr i]
      · funext i; by_cases h0 : h.filt.modeLFDelta i ≠ 0
        · simp [h0]
        · have : h.filt.modeLFDelta i = 0 := by simpa using h0
          simp [this, hm i]
    · simp only [hn, if_false]
      simp only [Bool.or_eq_true, decide_eq_true_eq, not_or, not_exists, not_not] at hn
      constructor
      · funext i; simp only [Bool.false_eq_true, if_false]; rw [hr i, hn.1 i]
      · funext i; simp only [Bool.false_eq_true, if_false]; rw [hm i, hn.2 i]
  · unfold decHdr decSeg; cases h.seg.useSegment <;> rfl
  · intro hu
    unfold decHdr decSeg
    simp [hu]

/-- how `buildSegmentHeader` / `writeQuantParams` fill the header from the quantiser state of
    `Webp.Props.C06` -/
structure QuantFrom (st : EncQuant) (h : EncHeader) : Prop where
  use : h.seg.useSegment = (encHeader st).useSegment
  abs : h.seg.useSegment = true → h.seg.absoluteDelta = (encHeader st).absolute
  segq : h.seg.useSegment = true → ∀ i, h.seg.quantizer i = (encHeader st).segQ i
  base : (h.baseQ : Int) = (encHeader st).base
  d1 : h.dqY1DC = (encHeader st).dqY1DC
  d2 : h.dqY2DC = (encHeader st).dqY2DC
  d3 : h.dqY2AC = (encHeader st).dqY2AC
  d4 : h.dqUVDC = (encHeader st).dqUVDC
  d5 : h.dqUVAC = (encHeader st).dqUVAC

/-- **`quant_header_roundtrip`**: the dequantisation factors `ParseQuant` derives from the parsed
    header (base index, five deltas, per-segment values, absolute/delta) are those of the written
    quantiser state — for every segment; composes with `Webp.Props.C06.dequant_agree`. -/
theorem quant_header_roundtrip (st : EncQuant) (h : EncHeader) (prev : DecHeader) (hq : QuantFrom st h) :
    decQuantMatrix (decHdr h prev).qidx = decQuantMatrix (encHeader st) := by
  funext s
  have hu : (decHdr h prev).seg.useSegment = (encHeader st).useSegment := by
    rw [← hq.use]; unfold decHdr decSeg; cases h.seg.useSegment <;> rfl
  have hseg : decSegQ (decHdr h prev).qidx s = decSegQ (encHeader st) s := by
    unfold decSegQ DecHeader.qidx
    simp only [hu]
    cases hus : (encHeader st).useSegment
    · simp only [Bool.false_eq_true, if_false]
      show ((decHdr h prev).baseQ0 : Int) = _
      exact hq.base
    · have huh : h.seg.useSegment = true := by rw [hq.use, hus]
      have ha : (decHdr h prev).seg.absoluteDelta = (encHeader st).absolute := by
        rw [← hq.abs huh]; unfold decHdr decSeg; simp [huh]
      have hsq : (decHdr h prev).seg.quantizer s = (encHeader st).segQ s := by
        rw [← hq.segq huh s]; unfold decHdr decSeg; simp [huh]
      simp only [if_true, ha, hsq]
      have hb : ((decHdr h prev).baseQ0 : Int) = (encHeader st).base := hq.base
      rw [hb]
  unfold decQuantMatrix
  rw [hseg]
  have e1 : (decHdr h prev).qidx.dqY1DC = (encHeader st).dqY1DC := hq.d1
  have e2 : (decHdr h prev).qidx.dqY2DC = (encHeader st).dqY2DC := hq.d2
  have e3 : (decHdr h prev).qidx.dqY2AC = (encHeader st).dqY2AC := hq.d3
  have e4 : (decHdr h prev).qidx.dqUVDC = (encHeader st).dqUVDC := hq.d4
  have e5 : (decHdr h prev).qidx.dqUVAC = (encHeader st).dqUVAC := hq.d5
  rw [e1, e2, e3, e4, e5]

/-- **`probas_roundtrip`**: for ALL coefficient probability tables (any 1056 bytes — in fact any
    length matching the update table), `parseProba`'s loops return exactly the encoder's table:
    an entry equal to the default is sent as "no update" and the decoder installs the default. -/
theorem probas_roundtrip (coef : List UInt8) (hlen : coef.length = 1056) (rest : Stream) :
    runS (T.parseProbaLoop updDef) (opsStream (probaOps coef updDef) ++ rest) = some (coef, rest) :=
  runS_parseProbaLoop updDef coef (by rw [hlen, updDef_length]) rest

/-- the "no update" case: the default table is transmitted as 1056 zero flags and read back as itself -/
theorem probas_roundtrip_default (rest : Stream) :
    runS (T.parseProbaLoop updDef) (opsStream (probaOps defaultCoef updDef) ++ rest) = some (defaultCoef, rest) :=
  runS_parseProbaLoop updDef defaultCoef (by simp [defaultCoef]) rest

/-- **the whole header on bytes** (`skip_proba_roundtrip` included: `useSkipProba` / `skipP` are
    fields of `decHdr`): `parseHeaders` on the reader over the written partition 0 returns `decHdr`,
    and the reader then reproduces the macroblock-mode decisions without raising `eof`. -/
theorem header_roundtrip_bytes (h : EncHeader) (wf : HdrWF h) (prev : DecHeader) (s : Stream) :
    let r := newReader (emitPartitionBytes h.prob (headerOps h) s)
    runR fixedProb (T.parseHeader prev) r = some (decHdr h prev, after h.prob r (headerStream h)) ∧
    Repro h.prob (after h.prob r (headerStream h)) s ∧
    (after h.prob (after h.prob r (headerStream h)) s).eof = false :=
  header_on_reader h.prob (fixedOK_tables _ _ _ _ _) h wf prev s

/-- **`skip_proba_roundtrip`** -/
theorem skip_proba_roundtrip (h : EncHeader) (prev : DecHeader) :
    (decHdr h prev).useSkipProba = h.useSkip ∧ (h.useSkip = true → (decHdr h prev).skipP = h.skipProba) ∧
    (decHdr h prev).coef = h.coef ∧ (decHdr h prev).prob = h.prob := by
  refine ⟨rfl, fun hu => ?_, rfl, decHdr_prob h prev⟩
  unfold decHdr; simp [hu]

/-- **`frame_roundtrip_bytes_full`**: from an encoder frame state (decisions `e.f`, header state
    `e.hdr` with the probability tables) to the decoder's state, through bytes only.  Decoding
    partition 0 and the token partitions written by `emitFrame` — header parsed from partition 0, the
    probability tables, partition count, segment-map and skip flags, quantiser all taken from the
    parsed header — yields the encoder's reconstruction (before the loop filter), the header state
    `decHdr` (whose loop-filter parameters are the encoder's: `filter_params_equal`), and no reader
    raised `eof`. -/
theorem frame_roundtrip_bytes_full (K : Kernels) {B Bw : Int} (F : KernelFacts K B Bw) (hBw : 0 ≤ Bw)
    (e : EncFull) (wf : HdrWF e.hdr) (hq : QuantFrom e.f.quant e.hdr)
    (hskip : e.hdr.useSkip = (emitFrame e.f e.hdr.numParts e.updateMap).useSkip)
    (prev : DecHeader) (srcY srcU srcV : Plane) (col0 : ColData)
    (hw : e.f.w < 16384) (hh : e.f.h < 16384) (hqw : e.f.quant.WF)
    (hd : ∀ k, k < e.f.mbW * e.f.mbH → MBOk K e.f e.updateMap B Bw k) :
    decodeFrameFull K (emitFrameFull e) prev col0 =
      some (encoderReconFrame e.f (encodeFrameRecon K e.f srcY srcU srcV).y.plane
              (encodeFrameRecon K e.f srcY srcU srcV).u.plane (encodeFrameRecon K e.f srcY srcU srcV).v.plane,
            decHdr e.hdr prev, false) :=
  full_of_decode K e wf prev col0 _ hskip (quant_header_roundtrip e.f.quant e.hdr prev hq)
    (Webp.Props.C06.frame_recon_agree K F hBw e.f e.hdr.numParts e.updateMap srcY srcU srcV col0 hw hh hqw hd)

/-- … for the portable kernels (no hypothesis on coefficient ranges) -/
theorem frame_roundtrip_bytes_full_portable (pred16 : Nat → Edge16 → Blk16) (pred8 : Nat → Edge8 → Blk8)
    (pred4 : Nat → Edge4 → Blk4) (e : EncFull) (wf : HdrWF e.hdr) (hq : QuantFrom e.f.quant e.hdr)
    (hskip : e.hdr.useSkip = (emitFrame e.f e.hdr.numParts e.updateMap).useSkip)
    (prev : DecHeader) (srcY srcU srcV : Plane) (col0 : ColData)
    (hw : e.f.w < 16384) (hh : e.f.h < 16384) (hqw : e.f.quant.WF)
    (hwf : ∀ k, k < e.f.mbW * e.f.mbH → (e.f.descs k).WF)
    (hseg : ∀ k, k < e.f.mbW * e.f.mbH → (e.f.descs k).segment < e.f.quant.numSegs)
    (hseg0 : e.updateMap = false → ∀ k, k < e.f.mbW * e.f.mbH → (e.f.descs k).segment = 0) :
    decodeFrameFull (refKernels pred16 pred8 pred4) (emitFrameFull e) prev col0 =
      some (encoderReconFrame e.f (encodeFrameRecon (refKernels pred16 pred8 pred4) e.f srcY srcU srcV).y.plane
              (encodeFrameRecon (refKernels pred16 pred8 pred4) e.f srcY srcU srcV).u.plane
              (encodeFrameRecon (refKernels pred16 pred8 pred4) e.f srcY srcU srcV).v.plane,
            decHdr e.hdr prev, false) :=
  full_of_decode _ e wf prev col0 _ hskip (quant_header_roundtrip e.f.quant e.hdr prev hq)
    (Webp.Props.C06.frame_recon_agree_portable pred16 pred8 pred4 e.f e.hdr.numParts e.updateMap srcY srcU srcV col0
      hw hh hqw hwf hseg hseg0)

/-- **from the VP8 chunk payload** (C02's `assembleFrame_parse`): the payload `assembleFrame` builds from
    the written partitions — frame tag, start code, dimensions, partition 0, the partition-size table,
    the token partitions — is split by the frame-layout reader, with the partition count the decoder
    read from the header, into exactly those partitions, and decoding them gives the same conclusion.
    Bounds: partition 0 below 2^19 bytes, every token partition but the last below 2^24 (the encoder
    returns an error otherwise), dimensions 1..16383. -/
theorem frame_roundtrip_payload (K : Kernels) {B Bw : Int} (F : KernelFacts K B Bw) (hBw : 0 ≤ Bw)
    (e : EncFull) (wf : HdrWF e.hdr) (hq : QuantFrom e.f.quant e.hdr)
    (hskip : e.hdr.useSkip = (emitFrame e.f e.hdr.numParts e.updateMap).useSkip)
    (prev : DecHeader) (srcY srcU srcV : Plane) (col0 : ColData)
    (hw1 : 1 ≤ e.f.w) (hw : e.f.w ≤ 16383) (hh1 : 1 ≤ e.f.h) (hh : e.f.h ≤ 16383) (hqw : e.f.quant.WF)
    (hd : ∀ k, k < e.f.mbW * e.f.mbH → MBOk K e.f e.updateMap B Bw k)
    (hp0 : (emitFrameFull e).part0.length < 2 ^ 19)
    (hsz : ∀ p ∈ ((List.range e.hdr.numParts).map (emitFrameFull e).parts).dropLast, p.length < 2 ^ 24) :
    ∃ payload, Webp.Impl.Writer.assembleFrame e.f.w e.f.h (emitFrameFull e).part0
        ((List.range e.hdr.numParts).map (emitFrameFull e).parts) = .ok payload ∧
      Webp.Spec.VP8Layout.splitFrame ((decHdr e.hdr prev).numPartsMinusOne + 1) payload =
        some { width := e.f.w, height := e.f.h, xScale := 0, yScale := 0, part0 := (emitFrameFull e).part0
               parts := (List.range e.hdr.numParts).map (emitFrameFull e).parts } ∧
      decodeFrameFull K (emitFrameFull e) prev col0 =
        some (encoderReconFrame e.f (encodeFrameRecon K e.f srcY srcU srcV).y.plane
                (encodeFrameRecon K e.f srcY srcU srcV).u.plane (encodeFrameRecon K e.f srcY srcU srcV).v.plane,
              decHdr e.hdr prev, false) := by
  have hlen : ((List.range e.hdr.numParts).map (emitFrameFull e).parts).length = e.hdr.numParts := by simp
  obtain ⟨payload, h1, h2, _, _⟩ := Webp.Props.C02.assembleFrame_parse e.f.w e.f.h (emitFrameFull e).part0
    ((List.range e.hdr.numParts).map (emitFrameFull e).parts) hp0 hsz (by rw [hlen]; exact wf.parts) hw1 hw hh1 hh
  refine ⟨payload, h1, ?_, frame_roundtrip_bytes_full K F hBw e wf hq hskip prev srcY srcU srcV col0 (by omega) (by omega) hqw hd⟩
  rw [hlen] at h2
  have hnp : (decHdr e.hdr prev).numPartsMinusOne + 1 = e.hdr.numParts := by
    show e.hdr.numParts - 1 + 1 = _
    rcases wf.parts with h' | h' | h' | h' <;> rw [h']
  rw [hnp]; exact h2

/-! ## non-vacuity -/

/-- a header state that meets `HdrWF` and is built from the quantiser state `Webp.Props.C06.exQuant`:
    two segments with map update, non-255 segment probabilities, loop-filter deltas with zeros among
    them, 4 partitions, the default coefficient table with entries changed, the skip probability -/
def exHeader : EncHeader :=
  { seg := { useSegment := true, updateMap := true, absoluteDelta := true
             quantizer := (encHeader Webp.Props.C06.exQuant).segQ
             filterStrength := fun i => if i.val = 1 then -5 else if i.val = 2 then 63 else 0
             segProbs := fun i => if i.val = 0 then 255 else if i.val = 1 then 128 else 7 }
    filt := { simple := false, level := 20, sharpness := 3, useLFDelta := true
              refLFDelta := fun i => if i.val = 0 then 1 else if i.val = 2 then -2 else 0
              modeLFDelta := fun i => if i.val = 3 then 4 else 0 }
    numParts := 4, baseQ := 36, dqY1DC := 0, dqY2DC := 0, dqY2AC := 0, dqUVDC := -4, dqUVAC := 2
    coef := (defaultCoef.take 500 ++ [0, 255, 1]) ++ defaultCoef.drop 503
    useSkip := true, skipProba := 200 }

example : HdrWF exHeader :=
  { seg := ⟨by decide +kernel, by decide +kernel⟩
    filt := ⟨by decide, by decide, by decide +kernel, by decide +kernel⟩
    parts := by decide, base := by decide, d1 := by decide, d2 := by decide, d3 := by decide
    d4 := by decide, d5 := by decide
    coef := by simp [exHeader, defaultCoef, updDef] }

example : QuantFrom Webp.Props.C06.exQuant exHeader :=
  { use := by decide, abs := fun _ => rfl, segq := fun _ _ => rfl, base := by decide +kernel
    d1 := by decide +kernel, d2 := by decide +kernel, d3 := by decide +kernel, d4 := by decide +kernel
    d5 := by decide +kernel }

/-- the probabilities differ from the default in the transmitted table -/
example : exHeader.coef ≠ defaultCoef := by decide +kernel

/-- a decoder fresh from `acquireDecoder` + `ResetProba` -/
def freshDec : DecHeader :=
  { colorspace := false, clampType := false
    seg := { useSegment := false, updateMap := false, absoluteDelta := false, quantizer := fun _ => 0
             filterStrength := fun _ => 0, segProbs := fun _ => 255 }
    filt := { simple := false, level := 0, sharpness := 0, useLFDelta := false, refLFDelta := fun _ => 0
              modeLFDelta := fun _ => 0 }
    numPartsMinusOne := 0, baseQ0 := 0, dqY1DC := 0, dqY2DC := 0, dqY2AC := 0, dqUVDC := 0, dqUVAC := 0
    coef := defaultCoef, useSkipProba := false, skipP := 0 }

example : ∀ i, freshDec.filt.refLFDelta i = 0 := fun _ => rfl

/-- small concrete checks on the decision stream: a segment header and a filter header read back -/
example : (runS (T.parseSegmentHeader freshDec.seg) (opsStream (segHdrOps exHeader.seg))).map (·.2) = some [] := by
  rw [← List.append_nil (opsStream _), segment_header_roundtrip exHeader.seg freshDec.seg ⟨by decide +kernel, by decide +kernel⟩ []]
  rfl

#print axioms segment_header_roundtrip
#print axioms filter_header_roundtrip
#print axioms filter_params_equal
#print axioms quant_header_roundtrip
#print axioms probas_roundtrip
#print axioms header_roundtrip_bytes
#print axioms skip_proba_roundtrip
#print axioms frame_roundtrip_bytes_full
#print axioms frame_roundtrip_bytes_full_portable
#print axioms frame_roundtrip_payload

end Webp.Props.C06Header
