import Generated.Funcs
import Webp.Impl.LTransform
import Webp.Proofs.FuncsBridge
import Webp.Proofs.FuncsListOps
/-
  C03 (and C01) — regenerated obligations: the arithmetic of `getCopyDistance` / `getCopyLength`
  (decode_image.go; the bit reading is outside the subset, so the three integer expressions are
  translated as expression sites) is the LZ77 prefix value map `Impl.LTransform.getCopyDistance`
  (`extra` = the bits read); `(*ColorCache).Lookup` is a bounds-checked read of `Colors`.
-/
namespace Webp.Props.C03FuncsSites
open Webp.Go Webp.Go.IntSem Webp.Proofs.FuncsBridge Webp.Proofs.FuncsListOps

theorem ColorCache_Lookup_eq (c : Generated.Funcs.ColorCache) (key : Int) :
    Generated.Funcs.ColorCache_Lookup c key = idxI c.Colors key := by
  unfold Generated.Funcs.ColorCache_Lookup; exact bind_ok_id _

theorem tie_getCopyDistance_small (sym : Nat) (extra : Nat) (h : sym < 4) :
    Generated.Funcs.getCopyDistance_return0 sym = ((Webp.Impl.LTransform.getCopyDistance sym extra : Nat) : Int) := by
  simp [Generated.Funcs.getCopyDistance_return0, Webp.Impl.LTransform.getCopyDistance, h]

theorem tie_getCopyDistance_large (sym : Nat) (extra : Nat) (h : 4 ≤ sym) :
    (Generated.Funcs.getCopyDistance_offset sym (Generated.Funcs.getCopyDistance_extraBits sym)).bind
        (fun off => .ok (off + (extra : Int) + 1))
      = .ok ((Webp.Impl.LTransform.getCopyDistance sym extra : Nat) : Int) := by
  have hn : ¬ sym < 4 := by omega
  have e1 : Generated.Funcs.getCopyDistance_extraBits sym = (((sym - 2) >>> 1 : Nat) : Int) := by
    unfold Generated.Funcs.getCopyDistance_extraBits
    have : ((sym : Int) - 2) = ((sym - 2 : Nat) : Int) := by omega
    rw [this, shr_nat_lit]
  rw [e1]
  unfold Generated.Funcs.getCopyDistance_offset
  rw [chkShift_nat, ok_bind, band_nat_lit, lit_add_nat, shl_nat, ok_bind]
  simp only [Webp.Impl.LTransform.getCopyDistance, hn, if_false]
  congr 1

example : Generated.Funcs.getCopyDistance_offset 9 (Generated.Funcs.getCopyDistance_extraBits 9) = .ok 24 := by decide

end Webp.Props.C03FuncsSites
