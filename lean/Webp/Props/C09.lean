import Webp.Proofs.AnimDecPlay
/-
  Property C09 — playback implements the container's compositing rules.

  "For every animation - any frame rectangles (inside, or partly outside, the canvas), blend and
   dispose methods, alpha content and frame order - canvas reconstruction returns for each frame
   exactly the picture defined by the WebP container specification […].  Treating some frames as
   key frames never changes a result, Reset replays identically, and snapshots already returned
   are not modified by later calls."

  Models: `Webp.Spec.Anim` (specification), `Webp.Impl.AnimDec` (animation.AnimDecoder).
  Snapshot value semantics (the last clause) is invisible in a pure model; it is checked on the
  Go code by the harness suite `animdec` (re-hash of every earlier snapshot after every call).
-/
namespace Webp.Props.C09
open Webp.Spec.Anim Webp.Impl.AnimDec
open Webp.Proofs.AnimDecBlend Webp.Proofs.AnimDecPlay

/-! ## Playback -/

/-- **Main theorem.**  For every canvas size and every list of frames — any offsets (negative,
    partly or fully outside, up to the limits of Go's `int`, where `Frame.Bounds`' overflow guard
    fires), any sizes, any blend × dispose, any pixel alphas — the snapshots returned by
    `NextFrame` are exactly the pictures of the specification.
    `GoTyped` is typing (all numbers are Go `int`s).  `FlagsConsistent` is needed: see
    `flags_inconsistent_counterexample`. -/
theorem impl_eq_spec (w h : Nat) (frames : List Frame)
    (hty : GoTyped w h frames) (hfl : FlagsConsistent frames) :
    playAll w h frames = play w h frames := by
  unfold playAll play
  rw [playAllO_eq_playWith _ w h frames hty hfl, blend_fun_eq]

/-- Treating some frames as key frames never changes a result: with any subset of the key-frame
    decisions forced to `false` (`oracle i = false` disables the shortcut for frame `i`) the
    decoder returns the same snapshots. -/
theorem keyframe_irrelevant (oracle : Nat → Bool) (w h : Nat) (frames : List Frame)
    (hty : GoTyped w h frames) (hfl : FlagsConsistent frames) :
    playAllO oracle w h frames = playAll w h frames := by
  unfold playAll
  rw [playAllO_eq_playWith _ w h frames hty hfl, playAllO_eq_playWith _ w h frames hty hfl]

/-- `Reset` replays identically: after any number `k` of `NextFrame` calls, `Reset` followed by a
    full run returns the snapshots of a fresh decoder.  No hypothesis. -/
theorem reset_replays (w h : Nat) (frames : List Frame) (k : Nat) :
    (runN (fun _ => true) w h frames frames.length
        (reset (runN (fun _ => true) w h frames k (init w h)).2)).1
      = playAll w h frames := by
  obtain ⟨h1, h2⟩ := runN_sizes (fun _ => true) w h (w * h) frames k (init w h)
    (by simp [init]) (by simp [init])
  rw [reset_eq_init w h _ h1 h2]
  rfl

/-- the animation of `flags_inconsistent_counterexample`: 1×1 canvas; an opaque red frame, then a
    half-transparent blue full-canvas frame, alpha-blended, whose `hasAlpha` flag lies -/
def lyingFrames : List Frame :=
  [ { offX := 0, offY := 0, fw := 1, fh := 1, px := #[⟨255, 0, 0, 255⟩],
      blendNone := true, disposeBG := false, hasAlpha := false },
    { offX := 0, offY := 0, fw := 1, fh := 1, px := #[⟨0, 0, 255, 128⟩],
      blendNone := false, disposeBG := false, hasAlpha := false } ]

/-- The hypothesis `FlagsConsistent` of `impl_eq_spec` is necessary (design finding D13): the
    key-frame shortcut trusts `HasAlpha = false` and drops the red frame underneath. -/
theorem flags_inconsistent_counterexample :
    GoTyped 1 1 lyingFrames ∧ ¬ FlagsConsistent lyingFrames ∧
    playAll 1 1 lyingFrames = [#[⟨255, 0, 0, 255⟩], #[⟨0, 0, 255, 128⟩]] ∧
    play 1 1 lyingFrames = [#[⟨255, 0, 0, 255⟩], #[⟨126, 0, 127, 255⟩]] ∧
    playAll 1 1 lyingFrames ≠ play 1 1 lyingFrames := by
  refine ⟨?_, ?_, ?_, ?_, ?_⟩
  · refine ⟨by decide, by decide, ?_⟩
    intro f hf
    simp only [lyingFrames, List.mem_cons, List.mem_nil_iff, or_false] at hf
    rcases hf with rfl | rfl <;> decide
  · intro hfl
    have := hfl _ (List.mem_cons_of_mem _ (List.mem_cons_self)) rfl 0 0 (by decide) (by decide)
    exact absurd this (by decide)
  · decide
  · decide
  · decide


/-! ### non-vacuity of the playback hypotheses -/

/-- a three-frame animation on a 2×2 canvas exercising: a frame partly outside the canvas with
    dispose-to-background, a blended translucent frame at a negative offset, a full-canvas opaque
    frame with `hasAlpha = false` (key-frame shortcut) -/
def sampleFrames : List Frame :=
  [ { offX := 1, offY := -1, fw := 2, fh := 2,
      px := #[⟨1, 2, 3, 255⟩, ⟨4, 5, 6, 128⟩, ⟨7, 8, 9, 0⟩, ⟨10, 11, 12, 77⟩],
      blendNone := true, disposeBG := true, hasAlpha := true },
    { offX := -1, offY := 0, fw := 3, fh := 1,
      px := #[⟨90, 91, 92, 200⟩, ⟨93, 94, 95, 100⟩, ⟨96, 97, 98, 255⟩],
      blendNone := false, disposeBG := false, hasAlpha := true },
    { offX := 0, offY := 0, fw := 2, fh := 2,
      px := #[⟨1, 1, 1, 255⟩, ⟨2, 2, 2, 255⟩, ⟨3, 3, 3, 255⟩, ⟨4, 4, 4, 255⟩],
      blendNone := false, disposeBG := false, hasAlpha := false } ]

theorem sampleFrames_typed : GoTyped 2 2 sampleFrames := by
  refine ⟨by decide, by decide, ?_⟩
  intro f hf
  simp only [sampleFrames, List.mem_cons, List.mem_nil_iff, or_false] at hf
  rcases hf with rfl | rfl | rfl <;> decide

theorem sampleFrames_consistent : FlagsConsistent sampleFrames := by
  intro f hf
  simp only [sampleFrames, List.mem_cons, List.mem_nil_iff, or_false] at hf
  rcases hf with rfl | rfl | rfl
  · intro h; cases h
  · intro h; cases h
  · intro _ sx sy hx hy
    have hx : sx = 0 ∨ sx = 1 := by simp only [] at hx; omega
    have hy : sy = 0 ∨ sy = 1 := by simp only [] at hy; omega
    rcases hx with rfl | rfl <;> rcases hy with rfl | rfl <;> decide

/-- the hypotheses of `impl_eq_spec` / `keyframe_irrelevant` hold for a non-trivial animation, and
    the conclusion is not an equation between empty lists -/
example : GoTyped 2 2 sampleFrames ∧ FlagsConsistent sampleFrames ∧
    (play 2 2 sampleFrames).length = 3 ∧
    play 2 2 sampleFrames ≠ List.replicate 3 (transparent 2 2) :=
  ⟨sampleFrames_typed, sampleFrames_consistent, by decide, by decide⟩

/-- the key-frame shortcut does fire on `sampleFrames` (third frame), so `keyframe_irrelevant`
    compares two different computations -/
example : isKeyFrame 2 2 (sampleFrames[2]!) 2
    (runN (fun _ => true) 2 2 sampleFrames 2 (init 2 2)).2 = true := by decide

/-- extreme offsets are covered by the typing hypothesis (`Frame.Bounds` overflow guard) -/
def extremeFrame : Frame :=
  { offX := 9223372036854775807, offY := -9223372036854775808, fw := 5, fh := 5,
    px := #[], blendNone := false, disposeBG := true, hasAlpha := true }

example : GoTyped 2 2 [extremeFrame] := by
  refine ⟨by decide, by decide, ?_⟩
  intro f hf
  simp only [List.mem_cons, List.mem_nil_iff, or_false] at hf
  subst hf; decide

/-! ## Blend arithmetic (`alphaBlendNRGBA`) — all `2^64` pixel pairs, by arithmetic -/

theorem blend_src0 (s d : Px) (h : s.a = 0) : alphaBlendNRGBA s d = d := alphaBlend_src0 s d h

theorem blend_src255 (s d : Px) (h : s.a = 255) : alphaBlendNRGBA s d = s := alphaBlend_src255 s d h

theorem blend_dst0 (s d : Px) (hs : s.a ≠ 0) (h : d.a = 0) : alphaBlendNRGBA s d = s :=
  alphaBlend_dst0 s d hs h

/-- result alpha = `src_a + ((dst_a * (256 - src_a)) >> 8)` -/
theorem blend_alpha_formula (s d : Px) (hs0 : s.a ≠ 0) (hs255 : s.a ≠ 255) (hd0 : d.a ≠ 0) :
    (alphaBlendNRGBA s d).a.toNat = s.a.toNat + (d.a.toNat * (256 - s.a.toNat)) >>> 8 := by
  rw [alphaBlend_general s d hs0 hs255 hd0, blendFormula_eq]
  simp only [UInt8.toNat_ofNat', baN, dfaN, Nat.shiftRight_eq_div_pow]
  have := (nat_bounds s.a.toNat d.a.toNat 0 0 (u8_pos_of_ne_zero hs0) (u8_le _) (u8_le _)
    (by omega) (by omega)).2.1
  omega

/-- No `uint32` intermediate of `alphaBlendNRGBA` overflows: over ℕ, for `src.A ≠ 0`,
    `256 - srcA` does not underflow and every product / sum stays below `2^32` … -/
theorem blend_no_overflow (sa da sc dc : UInt8) (hs : sa ≠ 0) :
    sa.toNat ≤ 256 ∧
    da.toNat * (256 - sa.toNat) < 2 ^ 32 ∧
    sa.toNat + dfaN sa.toNat da.toNat < 2 ^ 32 ∧
    0 < baN sa.toNat da.toNat ∧
    sc.toNat * sa.toNat + dc.toNat * dfaN sa.toNat da.toNat < 2 ^ 32 ∧
    (sc.toNat * sa.toNat + dc.toNat * dfaN sa.toNat da.toNat) * scaleN sa.toNat da.toNat < 2 ^ 32 := by
  have h0 := u8_pos_of_ne_zero hs
  obtain ⟨b1, b2, b3, b4, -⟩ := nat_bounds sa.toNat da.toNat sc.toNat dc.toNat h0 (u8_le _) (u8_le _) (u8_le _) (u8_le _)
  have := u8_le sa
  unfold scaleN baN dfaN
  refine ⟨by omega, b1, by omega, by omega, by omega, by omega⟩

/-- … hence the `uint32` value the code computes is the value of the formula over ℕ. -/
theorem blend_uint32_eq_nat (sa da sc dc : UInt8) (hs : sa ≠ 0) :
    (blendV sa.toUInt32 (dstFactor sa.toUInt32 da.toUInt32)
        (((1 : UInt32) <<< 24) / (sa.toUInt32 + dstFactor sa.toUInt32 da.toUInt32)) sc dc).toNat
      = (sc.toNat * sa.toNat + dc.toNat * ((da.toNat * (256 - sa.toNat)) / 256))
          * (2 ^ 24 / (sa.toNat + (da.toNat * (256 - sa.toNat)) / 256)) / 2 ^ 24 :=
  blendV_toNat sa da sc dc (u8_pos_of_ne_zero hs)

/-- The clamp `if v > 255 { v = 255 }` is dead code: `v ≤ 255` always. -/
theorem blend_clamp_dead (sa da sc dc : UInt8) (hs : sa ≠ 0) :
    blendV sa.toUInt32 (dstFactor sa.toUInt32 da.toUInt32)
        (((1 : UInt32) <<< 24) / (sa.toUInt32 + dstFactor sa.toUInt32 da.toUInt32)) sc dc ≤ 255 := by
  rw [UInt32.le_iff_toNat_le, blendV_toNat sa da sc dc (u8_pos_of_ne_zero hs)]
  exact chanN_le sa da sc dc (u8_pos_of_ne_zero hs)

/-- **The implementation's blend is the specification's blend** for all `s d`: the three exact
    cases of the container formula and libwebp's integer formula otherwise. -/
theorem impl_blend_eq_spec_blend (s d : Px) : alphaBlendNRGBA s d = blend s d :=
  alphaBlend_eq_spec s d

/-! ### relation to libwebp's literal `BlendPixelNonPremult` (which has no `dst_a == 0` case) -/

/-- on a destination that is not fully transparent the two coincide -/
theorem blend_eq_libwebp (s d : Px) (hd : d.a ≠ 0) : blend s d = blendLibwebp s d :=
  blend_eq_libwebp_of_dst_ne0 s d hd

/-- over a fully transparent destination libwebp's integer formula does **not** return the
    source: each non-zero channel loses 1 unless `src.A` divides `2^24` -/
theorem libwebp_over_transparent (s d : Px) (hs0 : s.a ≠ 0) (hs255 : s.a ≠ 255) (hd : d.a = 0) :
    blendLibwebp s d =
      ⟨libwebpOverTransparent s.a s.r, libwebpOverTransparent s.a s.g,
       libwebpOverTransparent s.a s.b, s.a⟩ := blendLibwebp_dst0 s d hs0 hs255 hd

/-- concrete instance: `(200,0,0,100)` over transparent — Go/spec keep 200, libwebp's formula
    gives 199 -/
theorem blend_ne_libwebp_counterexample :
    alphaBlendNRGBA ⟨200, 0, 0, 100⟩ Px.zero = ⟨200, 0, 0, 100⟩ ∧
    blendLibwebp ⟨200, 0, 0, 100⟩ Px.zero = ⟨199, 0, 0, 100⟩ := by decide

/-- a single translucent 1×1 frame, alpha-blended -/
def translucentFrame : Frame :=
  { offX := 0, offY := 0, fw := 1, fh := 1, px := #[⟨200, 0, 0, 100⟩],
    blendNone := false, disposeBG := false, hasAlpha := true }

/-- The property's own key-frame clause excludes libwebp's literal formula as the blend of the
    specification: with it, a first frame rendered by the rule (blend over the transparent
    canvas) is not the frame itself, while every decoder (libwebp included) shows a key frame
    unblended. -/
theorem libwebp_formula_not_keyframe_invariant :
    playWith blendLibwebp 1 1 [translucentFrame] = [#[⟨199, 0, 0, 100⟩]] ∧
    play 1 1 [translucentFrame] = [#[⟨200, 0, 0, 100⟩]] := by decide

/-! ### non-vacuity of the blend hypotheses -/

example : ∃ s d : Px, s.a ≠ 0 ∧ s.a ≠ 255 ∧ d.a ≠ 0 ∧
    alphaBlendNRGBA s d = ⟨136, 14, 25, 192⟩ :=
  ⟨⟨200, 16, 32, 128⟩, ⟨10, 11, 12, 128⟩, by decide, by decide, by decide, by decide⟩

example : ∃ s d : Px, s.a = 0 ∧ alphaBlendNRGBA s d ≠ s := ⟨⟨1, 2, 3, 0⟩, ⟨4, 5, 6, 7⟩, rfl, by decide⟩
example : ∃ s d : Px, s.a = 255 ∧ d.a ≠ 0 ∧ alphaBlendNRGBA s d ≠ d :=
  ⟨⟨1, 2, 3, 255⟩, ⟨4, 5, 6, 7⟩, rfl, by decide, by decide⟩
example : ∃ s d : Px, s.a ≠ 0 ∧ d.a = 0 ∧ s.a ≠ 255 := ⟨⟨1, 2, 3, 9⟩, ⟨4, 5, 6, 0⟩, by decide, rfl, by decide⟩
example : ∃ sa : UInt8, sa ≠ 0 := ⟨1, by decide⟩
example : ∃ s d : Px, s.a ≠ 0 ∧ s.a ≠ 255 ∧ d.a = 0 ∧ blendLibwebp s d ≠ blend s d :=
  ⟨⟨200, 0, 0, 100⟩, Px.zero, by decide, by decide, rfl, by decide⟩

end Webp.Props.C09
