import Generated.Funcs
import Webp.Impl.Mux
import Webp.Proofs.FuncsBridge
/-
  C14 (and C02/C05/C15: the same container arithmetic) — regenerated obligations: the container
  integer helpers translated from the Go AST on this run are the functions of the hand models.
-/
namespace Webp.Props.C14Funcs
open Webp.Go Webp.Go.IntSem Webp.Proofs.FuncsBridge

/-- mux.go `clampDuration` = `Impl.Mux.clampDuration` (the 24-bit ANMF duration field) -/
theorem tie_clampDuration : Generated.Funcs.clampDuration = Webp.Impl.Mux.clampDuration := by
  funext d
  simp only [Generated.Funcs.clampDuration, Webp.Impl.Mux.clampDuration, Webp.Impl.Mux.maxDuration,
    decide_eq_true_eq]
  split <;> try split
  all_goals first | rfl | omega

/-- riff.go `PaddedSize(size) = size + (size & 1)` in `uint32` arithmetic: the even padding of the
    models (`n + n % 2`), wrapping only at `2^32 - 1` -/
theorem tie_PaddedSize (size : UInt32) :
    Generated.Funcs.PaddedSize size.toNat = (((size.toNat + size.toNat % 2) % 2 ^ 32 : Nat) : Int) := by
  simp only [Generated.Funcs.PaddedSize, band_nat_lit, nat_and_1, ← Int.natCast_add, wrapU_nat]

/-- no wrap below the chunk-size limit: `PaddedSize n = n + n % 2` -/
theorem PaddedSize_small (n : Nat) (h : n < 2 ^ 32 - 1) :
    Generated.Funcs.PaddedSize n = ((n + n % 2 : Nat) : Int) := by
  simp only [Generated.Funcs.PaddedSize, band_nat_lit, nat_and_1, ← Int.natCast_add, wrapU_nat]
  congr 1
  have : (2 : Nat) ^ 32 = 4294967296 := by decide
  omega

/-- constants.go `FourCC(a,b,c,d)` is the little-endian `uint32` of the four bytes (`Go.le32`) -/
theorem tie_FourCC (a b c d : UInt8) :
    Generated.Funcs.FourCC a.toNat b.toNat c.toNat d.toNat = ((le32 [a, b, c, d] : Nat) : Int) := by
  have := a.toNat_lt; have := b.toNat_lt; have := c.toNat_lt; have := d.toNat_lt
  simp only [Generated.Funcs.FourCC, shl_nat_lit, wrapU_nat, bor_nat, le32, byteAt, List.getD]
  congr 1
  have e1 : b.toNat <<< 8 % 2 ^ 32 = b.toNat <<< 8 := by
    rw [Nat.shiftLeft_eq]; apply Nat.mod_eq_of_lt; omega
  have e2 : c.toNat <<< 16 % 2 ^ 32 = c.toNat <<< 16 := by
    rw [Nat.shiftLeft_eq]; apply Nat.mod_eq_of_lt; omega
  have e3 : d.toNat <<< 24 % 2 ^ 32 = d.toNat <<< 24 := by
    rw [Nat.shiftLeft_eq]; apply Nat.mod_eq_of_lt; omega
  rw [e1, e2, e3]
  have o1 : a.toNat ||| b.toNat <<< 8 = b.toNat <<< 8 + a.toNat := by
    rw [Nat.or_comm]; exact (Nat.shiftLeft_add_eq_or_of_lt (by omega) _).symm
  have l1 : b.toNat <<< 8 + a.toNat < 2 ^ 16 := by rw [Nat.shiftLeft_eq]; omega
  have o2 : (b.toNat <<< 8 + a.toNat) ||| c.toNat <<< 16 = c.toNat <<< 16 + (b.toNat <<< 8 + a.toNat) := by
    rw [Nat.or_comm]; exact (Nat.shiftLeft_add_eq_or_of_lt l1 _).symm
  have l2 : c.toNat <<< 16 + (b.toNat <<< 8 + a.toNat) < 2 ^ 24 := by
    rw [Nat.shiftLeft_eq, Nat.shiftLeft_eq]; omega
  have o3 : (c.toNat <<< 16 + (b.toNat <<< 8 + a.toNat)) ||| d.toNat <<< 24
      = d.toNat <<< 24 + (c.toNat <<< 16 + (b.toNat <<< 8 + a.toNat)) := by
    rw [Nat.or_comm]; exact (Nat.shiftLeft_add_eq_or_of_lt l2 _).symm
  rw [o1, o2, o3]
  simp only [Nat.shiftLeft_eq, List.getElem?_cons_zero, List.getElem?_cons_succ, Option.getD_some]
  omega

end Webp.Props.C14Funcs
