import Webp.Proofs.VP8LWindow2Image
import Generated.Fills
/-
  Property C03 — THE WINDOW BUDGET, continued: PREFIX-CODE READING on the window reader.

  `readHuffmanCodeLengths` (/repo/internal/lossless/decode_image.go) mixes the two ways of using the
  64-bit window reader: `ReadBits` (which shifts bytes in after every read) and the
  `FillBitWindow / PrefetchBits / table lookup / SetBitPos` pattern of the pixel loop, with a
  `ReadBits(extraBits)` directly after a `SetBitPos`.  This file proves that its loop — code-length
  symbols 0…15, the repeat codes 16 / 17 / 18 with their 2 / 3 / 7 extra bits and offsets 3 / 3 / 11,
  the previous-length rule, `max_symbol` as the token budget `remaining` — reads exactly what the
  specification's `readCodeLengthsLoop` reads, from every window state with register position ≤ 39,
  and that `ReadBits` is correct in window states that are NOT between two `ReadBits` calls (the
  first read after a pixel loop or after a lookup).

    readBits_in_window              `ReadBits(n)` from register position ≤ k, k + n ≤ 64
    codeLength_lookup_in_budget     the one-level lookup `clTable[prefetch & 127]` after the refill
    codeLengthLoop_eq_spec          the loop of `readHuffmanCodeLengths` = `readCodeLengthsLoop`
    codeLengthLoop_after_eos        … and once the end of the input is passed it cannot succeed silently
    fills_match_codes(_loop), fills_match_lengths(_loop)
                                    the reader calls of `readHuffmanCode` / `readHuffmanCodeLengths` and
                                    of their loop bodies in the model are those of the Go source

    readHuffmanCodeLens_eq_spec     `readHuffmanCode` up to its code lengths = `readCodeLengthVector`
                                    (simple codes, the 4 + n code-length-code lengths in `CodeLengthCodeOrder`,
                                    `BuildHuffmanTable(7, ·)`, `max_symbol`, the loop, both `IsEndOfStream` exits)
    readHuffmanCode_eq_spec         … with `BuildHuffmanTable(8, ·)` and `maxCodeLen` = `readCode`
    readGroup_eq_spec               five codes + the flag computation (`mkGroup`) = `readGroup`, as `GroupFor`
    decodeEntropyImage_eq_spec_window   colour-cache info + codes + pixel loop of ONE entropy-coded image
                                    (`decodeSubImage`) from ANY window state with register position ≤ 63
    decodeEntropyImage_from_start   … in particular from `NewLosslessReader(data)`: the precondition of
                                    `decodeImageData_eq_spec_window` is discharged from the first bit

  Error exits: Go has the single error `ErrBitstream`; when the specification fails, the Go model fails
  (`∃ e', … = err e'`) — with the same class while no read has passed the end of the input, through
  whichever exit comes first afterwards (Go reads on with zeros and tests `IsEndOfStream()` at the end).

  Axioms of every theorem below: `propext`, `Classical.choice`, `Quot.sound` only.
-/
namespace Webp.Props.C03Window2
open Webp.Go (Res)
open Webp.Spec.VP8L (BitReader Err Code Group readCodeLengthsLoop readCodeLengthVector readCode readGroup
  readEntropyCodedImage)
open Webp.Impl.VP8LEntropy
open Webp.Impl.VP8LWindow
open Webp.Proofs.VP8LEntropyReader (pad8 Win Inv)
open Webp.Proofs.VP8LWindow

/-- **`ReadBits(n)` in a window state.**  `Good buf r P k`: consistent reader, `P` bits consumed,
    register position `≤ k` (or the end of the data in the register).  With `k + n ≤ 64`, `n ≤ 24`
    the value is the specification's and the reader is afterwards in the state between two
    `ReadBits` calls (`Good … 7`) — or the read runs past the end of the input on both sides.
    Instances: every read of a `ReadBits` sequence (`k = 7`, any `n ≤ 24`); `ReadBits(extraBits ≤ 7)`
    after a code-length lookup (`k = 39`); the first `ReadBits(1)` after a pixel loop (`k ≤ 63`). -/
theorem readBits_in_window {buf : Array UInt8} {r : Reader} {P k : Nat} (hg : Good buf r P k) (n : Nat)
    (hk : k + n ≤ 64) (hn : n ≤ 24) :
    (({ data := ⟨pad8 buf⟩, pos := P } : BitReader).readBits n =
        .ok ((r.readBits n).1.toNat, { data := ⟨pad8 buf⟩, pos := P + n }) ∧
      Good buf (r.readBits n).2 (P + n) 7) ∨
    (({ data := ⟨pad8 buf⟩, pos := P } : BitReader).readBits n = .err .eos ∧
      (r.readBits n).2.isEndOfStream = true) :=
  readBits_good hg n hk hn

/-- every state reached from `NewLosslessReader` by `ReadBits` calls that did not overrun is such a
    window state -/
theorem readBits_states_good {buf : Array UInt8} {r : Reader} {P : Nat} (hi : Inv buf r P) : Good buf r P 7 :=
  Inv.good hi

/-- the table `BuildHuffmanTable(7, ·)` builds for 19 code-length-code lengths ≤ 7 that the
    specification accepts -/
theorem clTab_of_build {cl : Array Nat} {c : Code} {t : Table} (h : Webp.Spec.VP8L.buildCode cl = .ok c)
    (ht : buildTable 7 cl = .ok t) (hsz : cl.size = 19) (h7 : ∀ x ∈ cl, x ≤ 7) : CLTab c t :=
  Webp.Proofs.VP8LWindow.clTab_of_build h ht hsz h7

/-- **The code-length lookup inside the budget**: `FillBitWindow(); entry := clTable[PrefetchBits() &
    127]; SetBitPos(BitPos() + entry.Bits)` from any window state: the cell exists (no index panic),
    `Bits ≤ 7`, `Value < 19` (so `CodeLengthExtraBits[Value − 16]` exists), and it is the
    specification's next code-length symbol, register position `≤ 32 + 7 = 39` afterwards — or the
    code word runs past the end of the input on both sides. -/
theorem codeLength_lookup_in_budget {c : Code} {t : Table} (hT : CLTab c t) {buf : Array UInt8} {r : Reader}
    {P k : Nat} (hg : Good buf r P k) (hk : k ≤ 64) :
    ∃ v used, t[r.fillBitWindow.prefetchBits.toNat &&& 127]? = some ⟨used, v⟩ ∧ used ≤ 7 ∧ v < 19 ∧
      ((Webp.Spec.VP8L.readSymbol c (brAt buf P) = .ok (v, brAt buf (P + used)) ∧
          Good buf (r.fillBitWindow.advance used) (P + used) 39) ∨
       (Webp.Spec.VP8L.readSymbol c (brAt buf P) = .err .eos ∧
          (r.fillBitWindow.advance used).isEndOfStream = true)) :=
  clLookup_good hT hg hk

/-- **codeLengthLoop_eq_spec.**  The loop `for symbol < numSymbols { if remaining == 0 { break };
    remaining--; … }` of `readHuffmanCodeLengths` (`clLoop`, refills and `ReadBits` included), started
    in a window state with register position `≤ 39` with `codeLengths = acc ++ zeros`, `symbol =
    len acc`, `prevCodeLen = prev` (`CLRel`), against the specification's `readCodeLengthsLoop` with
    token budget `remaining`:
    * the specification returns the length vector `lens` at `br'` ⇒ the Go loop ends with
      `codeLengths = lens` and a consistent reader at `br'` (register position ≤ 39);
    * the specification fails with `e` ⇒ the Go loop fails with `e` (`repeatOverflow`), or `e = eos`
      and the Go loop fails through some exit or ends with `IsEndOfStream()` raised (the test that
      follows it in `readHuffmanCodeLengths` then returns `ErrBitstream`);
    * the Go loop neither panics (table / `CodeLengthExtraBits` index) nor hangs in these cases. -/
theorem codeLengthLoop_eq_spec {c : Code} {t : Table} (hT : CLTab c t) {buf : Array UInt8} {A : Nat}
    (remaining : Nat) (st : CLState) (acc : Array Nat) (prev : Nat) (r : Reader) (P : Nat)
    (hg : Good buf r P 39) (hrel : CLRel A st acc prev) :
    match readCodeLengthsLoop c A remaining prev acc { data := ⟨pad8 buf⟩, pos := P } with
    | .ok (lens, br') =>
      ∃ st' r' P', clLoop goOps2 t A remaining st r = .ok (st', r') ∧ st'.codeLengths = lens ∧
        br' = { data := ⟨pad8 buf⟩, pos := P' } ∧ Good buf r' P' 39
    | .err e =>
      clLoop goOps2 t A remaining st r = .err e ∨
      (e = .eos ∧ ((∃ e', clLoop goOps2 t A remaining st r = .err e') ∨
        ∃ st' r', clLoop goOps2 t A remaining st r = .ok (st', r') ∧ r'.isEndOfStream = true))
    | .panic => True
    | .hang => True :=
  clLoop_agree hT remaining st acc prev r P hg hrel

/-- the initial loop state of `readHuffmanCodeLengths` (hypothesis `CLRel` of `codeLengthLoop_eq_spec`):
    all-zero `codeLengths`, `symbol = 0`, `prevCodeLen = 8` against the empty accumulator -/
theorem clRel_init (A : Nat) :
    CLRel A { codeLengths := Array.replicate A 0, symbol := 0, prev := 8 } (Array.emptyWithCapacity A) 8 :=
  ⟨rfl, Nat.zero_le _, by simp [pad], rfl⟩

/-- **codeLengthLoop_after_eos.**  Once `IsEndOfStream()` holds the loop keeps it (or leaves through
    an error exit): reading on with the zeros `ReadBits` returns cannot make it succeed silently. -/
theorem codeLengthLoop_after_eos {c : Code} {t : Table} (hT : CLTab c t) {A : Nat} (remaining : Nat)
    (st : CLState) (r : Reader) (hd : r.isEndOfStream = true) :
    (∃ e, clLoop goOps2 t A remaining st r = .err e) ∨
    ∃ st' r', clLoop goOps2 t A remaining st r = .ok (st', r') ∧ r'.isEndOfStream = true :=
  clLoop_doomed hT remaining st r hd

/-! ## whole functions -/

/-- **readHuffmanCodeLens_eq_spec.**  `readHuffmanCode(alphabetSize)` up to its code lengths, on the
    window reader from any window state in which one more bit fits (`Good … 63`: after a pixel
    loop, after a previous code, between `ReadBits` calls): the specification's
    `readCodeLengthVector` returns `lens` at `br'` ⇒ Go returns `lens` with a consistent reader at
    `br'` (register position ≤ 39); the specification fails ⇒ Go fails. -/
theorem readHuffmanCodeLens_eq_spec {buf : Array UInt8} (A : Nat) {r : Reader} {P : Nat} (hg : Good buf r P 63) :
    match readCodeLengthVector A { data := ⟨pad8 buf⟩, pos := P } with
    | .ok (lens, br') => ∃ r' P', readHuffmanCodeLensGo A r = .ok (lens, r') ∧
        br' = { data := ⟨pad8 buf⟩, pos := P' } ∧ Good buf r' P' 39
    | .err _ => ∃ e', readHuffmanCodeLensGo A r = .err e'
    | .panic => True
    | .hang => True := by
  have hh := readHuffmanCodeLens_agree (buf := buf) A hg
  unfold TopOut at hh
  show match readCodeLengthVector A (brAt buf P) with
    | .ok (lens, br') => _ | .err _ => _ | .panic => _ | .hang => _
  cases hsp : readCodeLengthVector A (brAt buf P) with
  | ok x => rw [hsp] at hh; exact hh
  | err e => rw [hsp] at hh; exact hh
  | panic => trivial
  | hang => trivial

/-- **readHuffmanCode_eq_spec.**  … and with `BuildHuffmanTableScratch(8, codeLengths)` and
    `maxCodeLen`: the table / max length Go returns were built from a length vector of `A` symbols
    whose canonical code is the code the specification's `readCode` returns (`CodeBuilt`). -/
theorem readHuffmanCode_eq_spec {buf : Array UInt8} (A : Nat) {r : Reader} {P : Nat} (hg : Good buf r P 63) :
    match readCode A { data := ⟨pad8 buf⟩, pos := P } with
    | .ok (c, br') => ∃ tm r' P', readHuffmanCodeGo A r = .ok (tm, r') ∧ CodeBuilt A c tm ∧
        br' = { data := ⟨pad8 buf⟩, pos := P' } ∧ Good buf r' P' 39
    | .err _ => ∃ e', readHuffmanCodeGo A r = .err e'
    | .panic => True
    | .hang => True := by
  have hh := readHuffmanCodeGo_agree (buf := buf) A hg
  unfold RelOut at hh
  show match readCode A (brAt buf P) with
    | .ok (c, br') => _ | .err _ => _ | .panic => _ | .hang => _
  cases hsp : readCode A (brAt buf P) with
  | ok x => rw [hsp] at hh; exact hh
  | err e => rw [hsp] at hh; exact hh
  | panic => trivial
  | hang => trivial

/-- **readGroup_eq_spec.**  The five `readHuffmanCode` calls of `readHuffmanCodes` (alphabets `256 + 24 +
    cache size`, 256, 256, 256, 40) and its flag computation: the group stands for the
    specification's (`GroupFor`, the hypothesis of `readTokenGo_eq_spec`). -/
theorem readGroup_eq_spec {buf : Array UInt8} (cb : Nat) (hcb : cb ≤ 11) {r : Reader} {P : Nat} (hg : Good buf r P 63) :
    match readGroup cb { data := ⟨pad8 buf⟩, pos := P } with
    | .ok (G, br') => ∃ g r' P', readGroupGo cb r = .ok (g, r') ∧ GroupFor G g ∧
        br' = { data := ⟨pad8 buf⟩, pos := P' } ∧ Good buf r' P' 63
    | .err _ => ∃ e', readGroupGo cb r = .err e'
    | .panic => True
    | .hang => True := by
  have hh := readGroup_agree (buf := buf) cb hcb hg
  unfold RelOut at hh
  show match readGroup cb (brAt buf P) with
    | .ok (G, br') => _ | .err _ => _ | .panic => _ | .hang => _
  cases hsp : readGroup cb (brAt buf P) with
  | ok x => rw [hsp] at hh; exact hh
  | err e => rw [hsp] at hh; exact hh
  | panic => trivial
  | hang => trivial

/-- **decodeEntropyImage_eq_spec_window.**  One entropy-coded image as `decodeSubImage` decodes it —
    colour-cache info by `ReadBits`, five prefix codes by `readHuffmanCode` (refill pattern and all),
    flags, `updateDecoder`, the pixel loop of `decodeImageData` with its refills — from any window
    state in which one more bit fits, against the specification's `readEntropyCodedImage`: the same
    pixels and a consistent reader at the specification's final position (`bitPos ≤ 64`), or both fail. -/
theorem decodeEntropyImage_eq_spec_window {buf : Array UInt8} (w h : Nat) (hw : w ≤ 153391689) {r : Reader} {P : Nat}
    (hg : Good buf r P 63) :
    match readEntropyCodedImage w h { data := ⟨pad8 buf⟩, pos := P } with
    | .ok (px, br') => ∃ r' P', decodeEntropyImageGo w h r = .ok (px, r') ∧
        br' = { data := ⟨pad8 buf⟩, pos := P' } ∧ Win buf r' P' ∧ r'.bitPos ≤ 64
    | .err _ => ∃ e', decodeEntropyImageGo w h r = .err e'
    | .panic => True
    | .hang => True := by
  have hh := decodeEntropyImage_agree (buf := buf) w h hw hg
  unfold RelOut at hh
  show match readEntropyCodedImage w h (brAt buf P) with
    | .ok (px, br') => _ | .err _ => _ | .panic => _ | .hang => _
  cases hsp : readEntropyCodedImage w h (brAt buf P) with
  | ok x =>
    obtain ⟨px, br'⟩ := x
    rw [hsp] at hh
    obtain ⟨a, r', P', hgo, rfl, hbr, hg'⟩ := hh
    exact ⟨r', P', hgo, hbr, hg'.win, hg'.le64 (Nat.le_refl _)⟩
  | err e => rw [hsp] at hh; exact hh
  | panic => trivial
  | hang => trivial

/-- **decodeEntropyImage_from_start.**  From `NewLosslessReader(data)`: nothing is assumed about the
    reader state any more — the loop-entry precondition of `decodeImageData_eq_spec_window` is
    established by the code reading itself. -/
theorem decodeEntropyImage_from_start (buf : Array UInt8) (w h : Nat) (hw : w ≤ 153391689) :
    match readEntropyCodedImage w h { data := ⟨pad8 buf⟩, pos := 0 } with
    | .ok (px, br') => ∃ r' P', decodeEntropyImageGo w h (Reader.new buf) = .ok (px, r') ∧
        br' = { data := ⟨pad8 buf⟩, pos := P' } ∧ Win buf r' P' ∧ r'.bitPos ≤ 64
    | .err _ => ∃ e', decodeEntropyImageGo w h (Reader.new buf) = .err e'
    | .panic => True
    | .hang => True :=
  decodeEntropyImage_eq_spec_window w h hw
    ((Inv.good (Webp.Proofs.VP8LEntropyReader.new_inv buf)).mono (by omega))

/-! ## the tie -/

/-- the reader calls of `readHuffmanCode` per path (`<loop`: the `numCodes` loop, `<readHuffmanCodeLengths`:
    the callee), regenerated from the Go source on every run, are those of the model -/
theorem fills_match_codes : Generated.Fills.readHuffmanCode = codeShape := by decide +kernel
theorem fills_match_codes_loop : Generated.Fills.readHuffmanCodeLoop = codeLoopShape := by decide +kernel
/-- … of `readHuffmanCodeLengths` around its loop, and of the loop body (the `FillBitWindow` before
    the lookup, the `ReadBits` after it) -/
theorem fills_match_lengths : Generated.Fills.readHuffmanCodeLengths = lengthsShape := by decide +kernel
theorem fills_match_lengths_loop : Generated.Fills.readHuffmanCodeLengthsLoop = lengthsLoopShape := by decide +kernel

/-! ## non-vacuity -/

/-- a code-length code the specification accepts (`CLTab` exists): lengths 1, 1 on the symbols 0, 8 -/
example : ∃ c t, CLTab c t := by
  let cl : Array Nat := #[1, 0, 0, 0, 0, 0, 0, 0, 1, 0, 0, 0, 0, 0, 0, 0, 0, 0, 0]
  obtain ⟨c, hc⟩ := exists_ok_of_isOk (show (Webp.Spec.VP8L.buildCode cl).isOk = true by decide +kernel)
  obtain ⟨t, ht⟩ := Webp.Proofs.VP8LEntropyTableF.buildTable_ok_of_buildCode hc 7 (by omega) (by omega)
  exact ⟨c, t, Webp.Proofs.VP8LWindow.clTab_of_build hc ht rfl (by decide)⟩

/-- window states for `readBits_in_window` / `codeLengthLoop_eq_spec`: the fresh reader -/
example (buf : Array UInt8) : Good buf (Reader.new buf) 0 39 :=
  (Inv.good (Webp.Proofs.VP8LEntropyReader.new_inv buf)).mono (by omega)

end Webp.Props.C03Window2
