import Webp.Proofs.C04RefinePart0
/-
  Property C04, refinement theorems Impl ↔ Spec, part 9 — frame-level syntax of the FIRST partition.

  * `part0_modes_eq_spec`: the macroblock loop.  `goPass` = the first-partition thread of `parseFrame`
    (`parseIntraModeRow` per macroblock in raster order; `intraL` zeroed at each row start, `intraT[4·mbX ..]` and
    `mbData[mbX].IModes` carried from the row above) vs `specPass` = the same thread of `Spec.VP8.decodeCore`
    (`readMBHeader h mbX mctx d0` per macroblock, `mctx.left := B_DC_PRED ×4` at each row start): for EVERY list of
    macroblocks, probability function, header and frame width the outputs are related macroblock by macroblock
    (`ModeRel`), the contexts stay related (`FRel`) and the reader ends in step with the reference decoder.
  * `goPass_is_parseMBsBytes`: `goPass` is what the decoder model `Webp.Impl.VP8SyntaxBytes.parseMBsBytes` does with
    its first-partition reader and reports as the modes of each macroblock.
  * `part0_syntax_eq_spec`: composed with `header_eq_spec` — from the start of the first partition of any key frame:
    the header parse and then all `mbW·mbH` macroblock-mode parses succeed on the Go reader with `eof` down ⇒
    `HdrRel` between the Go header state and `parseFrameHdr`, and for every macroblock `k < mbW·mbH` both sides
    have an entry and they are related by `ModeRel` (segment, skip flag, luma mode, sixteen sub-block modes, chroma
    mode, up to the renumberings `rfcY` / `rfcB`), the probabilities, flags and segment map being the ones the
    decoder itself derived from the header it parsed.
-/
namespace Webp.Props.C04Refine9
open Webp.Go (Bytes)
open Webp.Impl.BoolCoder
open Webp.Spec.VP8
open Webp.Impl.VP8SyntaxBytes (P runR rd)
open Webp.Impl.VP8Recon (Slot MBModes)
open Webp.Impl.VP8HeaderBytes (DecHeader)
open Webp.Proofs.C04RefineBool Webp.Proofs.C04RefineOps Webp.Proofs.C04RefineTokens Webp.Proofs.C04RefineModes
open Webp.Proofs.C04RefineHeader (HdrRel PrevZero)
open Webp.Proofs.C04RefinePart0

/-- **the macroblock loop of the first partition** (any macroblock list, any related starting contexts) -/
theorem part0_modes_eq_spec (prob : Slot → UInt8) (hfix : FixedOK prob) (hb : BModeOK prob) (h : FrameHdr)
    (hseg : h.seg.updateMap = true → ∀ i, i ≤ 2 → (prob (.seg i)).toNat = h.seg.treeProbs.getD i 255)
    (hskip : h.skipEnabled = true → (prob .skip).toNat = h.probSkipFalse) (mbW : Nat) (hW : 0 < mbW) (F : Bytes)
    (ks : List Nat) (st : GoSt) (r : BoolReader) (out : Nat → Option MBModes) (sc : ModeCtx) (d : BoolDec)
    (sout : Nat → Option MBInfo) (res : (Nat → Option MBModes) × GoSt × BoolReader)
    (hf : FRel mbW st sc) (hs : Sim F r d) (ho : ∀ k, ORel (out k) (sout k))
    (hg : goPass prob h.seg.updateMap h.skipEnabled mbW ks st r out = some res) (he : res.2.2.eof = false) :
    (∀ k, ORel (res.1 k) ((specPass h mbW ks sc d sout).1 k)) ∧
      FRel mbW res.2.1 (specPass h mbW ks sc d sout).2.1 ∧ Sim F res.2.2 (specPass h mbW ks sc d sout).2.2 :=
  pass_sim prob hfix hb h hseg hskip mbW hW F ks st r out sc d sout res hf hs ho hg he

/-- `goPass` is the first-partition thread of the decoder model `parseMBsBytes` (tied to `parseFrame` by suite
    `vp8syntax`), and its outputs are the modes that model reports -/
theorem goPass_is_parseMBsBytes (K : Webp.Impl.VP8Recon.Kernels) (dqm : Fin 4 → Webp.Impl.VP8Recon.QuantMatrix)
    (fs : Webp.Impl.VP8Recon.FrameSyntax) (prob : Slot → UInt8) (ks : List Nat) (r0 : BoolReader) (rp : Nat → BoolReader)
    (col : Webp.Impl.VP8Recon.ColData) (out : Nat → MBModes × Webp.Impl.VP8Recon.ResData)
    (res : (Nat → MBModes × Webp.Impl.VP8Recon.ResData) × BoolReader × (Nat → BoolReader))
    (hp : Webp.Impl.VP8SyntaxBytes.parseMBsBytes K dqm fs prob ks Webp.Impl.VP8Recon.TokCtx.init r0 rp col out = some res) :
    ∃ gres, goPass prob fs.updateMap fs.useSkip fs.mbW ks (GoSt.init col.imodes) r0 (fun _ => none) = some gres ∧
      gres.2.2 = res.2.1 ∧ (∀ k m, gres.1 k = some m → (res.1 k).1 = m) :=
  goPass_of_parseMBs K dqm fs prob ks _ r0 rp col out (fun _ => none) res hp (fun _ _ hk => by cases hk)

/-- **`part0_syntax_eq_spec`**: header + every macroblock's modes, from the start of the first partition. -/
theorem part0_syntax_eq_spec (prob : Slot → UInt8) (hfix : FixedOK prob) (prev : DecHeader) (hz : PrevZero prev)
    (h0 : FrameHdr) {F : Bytes} {r : BoolReader} {d : BoolDec} (hs : Sim F r d)
    (mbW mbH : Nat) (hW : 0 < mbW) (im : Nat → Fin 16 → Nat)
    (g : DecHeader) (r1 : BoolReader) (res : (Nat → Option MBModes) × GoSt × BoolReader)
    (hhdr : runR prob (Webp.Impl.VP8HeaderBytes.T.parseHeader prev) r = some (g, r1))
    (hmb : goPass g.prob g.seg.updateMap g.useSkipProba mbW (List.range (mbW * mbH)) (GoSt.init im) r1 (fun _ => none) = some res)
    (he : res.2.2.eof = false) :
    HdrRel g (parseFrameHdr h0 d).1 ∧
    (∀ k, k < mbW * mbH → ∃ gm sm, res.1 k = some gm ∧
      (specPass (parseFrameHdr h0 d).1 mbW (List.range (mbW * mbH)) { above := Array.replicate (4 * mbW) B_DC_PRED }
        (parseFrameHdr h0 d).2 (fun _ => none)).1 k = some sm ∧ ModeRel gm sm) ∧
    Sim F res.2.2 (specPass (parseFrameHdr h0 d).1 mbW (List.range (mbW * mbH)) { above := Array.replicate (4 * mbW) B_DC_PRED }
        (parseFrameHdr h0 d).2 (fun _ => none)).2.2 := by
  have he1 : r1.eof = false := by
    cases hre : r1.eof with
    | false => rfl
    | true => rw [goPass_eof_mono g.prob _ _ mbW _ _ r1 _ res hmb hre] at he; cases he
  have hfree := treeFree_of_eof prob _ r g r1 hhdr he1
  obtain ⟨g', r', hrun, hr, hs1⟩ := Webp.Props.C04Refine2.header_eq_spec prob hfix prev hz h0 hs hfree
  rw [hhdr] at hrun; cases hrun
  obtain ⟨h1, h2⟩ := Webp.Props.C04Refine6.header_gives_seg_skip g _ hr
  rw [hr.seg.map, hr.skip] at hmb
  obtain ⟨ho, _, hs2⟩ := pass_sim g.prob (Webp.Props.C04Refine2.header_gives_FixedOK g)
    (Webp.Props.C04Refine6.bmodeOK_of_tables _ _ _ _ _) _ h1 h2 mbW hW F _ _ r1 (fun _ => none) _ _ (fun _ => none) res
    (frel_init mbW im) hs1 (fun _ => trivial) hmb he
  refine ⟨hr, ?_, hs2⟩
  intro k hk
  have hsome := specPass_some (parseFrameHdr h0 d).1 mbW (List.range (mbW * mbH)) { above := Array.replicate (4 * mbW) B_DC_PRED }
    (parseFrameHdr h0 d).2 (fun _ => none) k (Or.inl (List.mem_range.mpr hk))
  have hok := ho k
  generalize (specPass (parseFrameHdr h0 d).1 mbW (List.range (mbW * mbH)) { above := Array.replicate (4 * mbW) B_DC_PRED }
    (parseFrameHdr h0 d).2 (fun _ => none)).1 k = so at hsome hok ⊢
  cases so with
  | none => cases hsome
  | some sm =>
    cases hg : res.1 k with
    | none => rw [hg] at hok; exact absurd hok (by simp [ORel])
    | some gm => rw [hg] at hok; exact ⟨gm, sm, rfl, rfl, hok⟩

/-- `FRel` is satisfiable: the contexts every frame starts with -/
example : FRel 3 (GoSt.init fun _ _ => 0) { above := Array.replicate (4 * 3) B_DC_PRED } := frel_init 3 _

#print axioms part0_modes_eq_spec
#print axioms goPass_is_parseMBsBytes
#print axioms part0_syntax_eq_spec

end Webp.Props.C04Refine9
