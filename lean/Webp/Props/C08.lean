import Webp.Proofs.AnimEncRun
import Webp.Proofs.AnimEncToy
/-
  Property C08 — lossless animations play back as the pictures that were added.

  "For every canvas size, every sequence of frames with durations and every keyframe setting, an
   animation written by the lossless animation encoder plays back (read, decode all frames,
   reconstruct canvases in order) as the same sequence of pictures: each distinct input canvas is
   reproduced exactly, in order (fully transparent pixels compare equal whatever their colour).
   Consecutive identical inputs may be merged, but the canvas size is always preserved and,
   whenever the animation has at least two distinct pictures, so are the display time of every
   picture, the total duration and the loop count (a single picture may legitimately be stored as
   a plain still image, which carries no timing)."

  Models: `Webp.Impl.AnimEnc` (animation.AnimEncoder, the muxer calls it makes, frame payloads),
  `Webp.Spec.Anim.play` (playback; equal to the Go AnimDecoder by property C09).
  The frame codec is a parameter with the contract `CodecLossless` (property C01); every size
  comparison of the encoder is an oracle bit and all theorems hold for all oracles.

  Domain of the timing clauses (decided here, see `durations_kept` and the two
  `duration_…_counterexample`s): every input duration `d` with `0 ≤ d ≤ 2^24 − 1` ms.  The sum over
  merged duplicates may exceed `2^24 − 1`: it is then spread over filler frames and still
  preserved.  A single input duration outside that range cannot be stored in one ANMF frame; the
  encoder silently clamps it (negative ↦ 0, `≥ 2^24` ↦ `2^24 − 1`; libwebp rejects such a frame
  instead).  Loop counts are preserved in `[0, 65535]` and clamped outside (documented behaviour
  of `SetLoopCount`).
-/
namespace Webp.Props.C08
open Webp.Spec.Anim Webp.Impl Webp.Impl.AnimEnc Webp.Impl.AnimDec Webp.Proofs.AnimDecLoops
open Webp.Proofs.AnimDecPlay Webp.Proofs.AnimEncRect Webp.Proofs.AnimEncBlend
open Webp.Proofs.AnimEncPlay Webp.Proofs.AnimEncCodec Webp.Proofs.AnimEncStep
open Webp.Proofs.AnimEncRun Webp.Proofs.AnimEncToy

/-- "equal, or both fully transparent", for two canvases of `n` pixels -/
abbrev sameCanvas (n : Nat) : Canvas → Canvas → Bool := canvasRel pxEqv n

/-! ## `findChangedRect`, `snapToEven`, sub-frames -/

/-- **Every differing pixel lies in `findChangedRect p c`** — for all canvas sizes and contents;
    the progressive-narrowing loops (scan left only up to the current `minX`, right only beyond
    the current `maxX`, early exit) lose nothing. -/
theorem findChangedRect_bbox (w h : Nat) (p c : Canvas) (x y : Nat) (hx : x < w) (hy : y < h)
    (hd : p.px (y * w + x) ≠ c.px (y * w + x)) : (findChangedRect w h p c).has x y = true :=
  Webp.Proofs.AnimEncRect.findChangedRect_bbox w h p c x y hx hy (by unfold pxDiff; simpa using hd)

/-- **The rectangle is empty iff the canvases are equal.** -/
theorem findChangedRect_empty_iff (w h : Nat) (p c : Canvas) (hp : p.size = w * h) (hc : c.size = w * h) :
    (findChangedRect w h p c).empty = true ↔ p = c :=
  findChangedRect_empty_iff_eq w h p c hp hc

/-- a non-empty result lies inside the canvas -/
theorem findChangedRect_inside (w h : Nat) (p c : Canvas)
    (hne : (findChangedRect w h p c).empty = false) : RectOK w h (findChangedRect w h p c) := by
  obtain ⟨b1, b2, b3, b4⟩ := findChangedRect_bounds w h p c hne
  unfold Rect.empty at hne
  simp only [Bool.or_eq_false_iff, decide_eq_false_iff_not, ge_iff_le] at hne
  exact ⟨b1, by omega, b2, b3, by omega, b4⟩

/-- **`snapToEven` covers its argument**: even offsets, moved by at most one pixel towards the
    origin, same far corner, every pixel of `r` still inside. -/
theorem snapToEven_covers (r : Rect) (hx : r.minX ≤ r.maxX) (hy : r.minY ≤ r.maxY) :
    (snapToEven r).minX % 2 = 0 ∧ (snapToEven r).minY % 2 = 0 ∧
    (snapToEven r).minX ≤ r.minX ∧ r.minX ≤ (snapToEven r).minX + 1 ∧
    (snapToEven r).minY ≤ r.minY ∧ r.minY ≤ (snapToEven r).minY + 1 ∧
    (snapToEven r).maxX = r.maxX ∧ (snapToEven r).maxY = r.maxY ∧
    ∀ x y, r.has x y = true → (snapToEven r).has x y = true :=
  Webp.Proofs.AnimEncRect.snapToEven_covers r hx hy

/-- the rectangle of a candidate (changed rectangle or 1×1, snapped, clipped) lies inside the
    canvas, is not empty, has even offsets and contains every differing pixel -/
theorem candidateRect_covers (w h : Nat) (base curr : Canvas) (hw : 0 < w) (hh : 0 < h) :
    RectOK w h (candidateRect w h base curr) ∧
    (candidateRect w h base curr).minX % 2 = 0 ∧ (candidateRect w h base curr).minY % 2 = 0 ∧
    ∀ x y, x < w → y < h → base.px (y * w + x) ≠ curr.px (y * w + x) →
      (candidateRect w h base curr).has x y = true := by
  obtain ⟨a, b, c, d⟩ := candidateRect_spec w h base curr hw hh
  exact ⟨a, b, c, fun x y hx hy hd => d x y hx hy (by unfold pxDiff; simpa using hd)⟩

/-- **`subframe_exact`**: the sub-image cut out of the target `T` on a rectangle inside the canvas
    has the rectangle's size, and drawing it back without blending at the rectangle's corner
    gives `T` inside the rectangle and leaves everything else as it was. -/
theorem subframe_exact (w h : Nat) (T B : Canvas) (r : Rect) (hr : RectOK w h r) :
    (extractSubImage w T r).w = (r.maxX - r.minX).toNat ∧
    (extractSubImage w T r).h = (r.maxY - r.minY).toNat ∧
    (extractSubImage w T r).px.size = (extractSubImage w T r).w * (extractSubImage w T r).h ∧
    ∀ i, i < w * h →
      (draw blend w h
        { offX := r.minX, offY := r.minY, fw := (extractSubImage w T r).w,
          fh := (extractSubImage w T r).h, px := (extractSubImage w T r).px, blendNone := true,
          disposeBG := false, hasAlpha := true } B).px i =
        if r.has (i % w) (i / w) then T.px i else B.px i := by
  obtain ⟨e1, e2, e3, e4⟩ := extractSubImage_spec w h T r hr
  refine ⟨e1, e2, by rw [e3, e1, e2], fun i hi => ?_⟩
  -- the canvas "T inside r, B outside"
  let T' : Canvas := Array.ofFn (n := w * h) fun k =>
    if r.has (k.val % w) (k.val / w) then T.px k.val else B.px k.val
  have hT' : ∀ k, k < w * h → T'.px k = if r.has (k % w) (k / w) then T.px k else B.px k := by
    intro k hk
    show T'.getD k Px.zero = _
    rw [getD_ofFn _ k hk]
  have hrel := draw_rel (r := fun a b => a == b) (ok := fun _ _ => false)
    (fun _ _ _ _ _ _ h => by cases h) w h
    { offX := r.minX, offY := r.minY, fw := (extractSubImage w T r).w,
      fh := (extractSubImage w T r).h, px := (extractSubImage w T r).px, blendNone := true,
      disposeBG := false, hasAlpha := true } B B T' r hr (extractSubImage w T r) false
    rfl rfl e1 e2 rfl
    (by intro k _; exact beq_self_eq_true _)
    (by
      intro a b ha hb
      simp only [] at ha hb
      rw [e1] at ha; rw [e2] at hb
      simp only [Bool.false_eq_true, if_false]
      rw [e1, e4 a b ha hb]
      obtain ⟨a1, a2, a3, a4, a5, a6⟩ := hr
      have hxx : r.minX.toNat + a < w := by omega
      have hyy : r.minY.toNat + b < h := by omega
      rw [hT' _ (idx_lt hxx hyy), idx_mod hxx, idx_div hxx, if_pos]
      unfold Rect.has
      simp only [Bool.and_eq_true, decide_eq_true_eq]
      omega)
    (by intro k _; exact beq_self_eq_true _)
    (by intro hf; cases hf)
    (by
      intro x y hx hy hd
      by_cases hh : r.has x y = true
      · exact hh
      · exfalso
        unfold pxDiff at hd
        rw [hT' _ (idx_lt hx hy), idx_mod hx, idx_div hx, if_neg hh] at hd
        simp at hd)
    i hi
  rw [eq_of_beq hrel, hT' i hi]

/-! ## blending -/

/-- **`blend_ok_sound`** (true for the repaired code): where the lossless blend predicate holds on
    a rectangle inside the canvas, blending the *cleared* target pixel over the carried pixel
    reproduces the target pixel (`≈`), for every pixel of the rectangle. -/
theorem blend_ok_sound (w h : Nat) (P T : Canvas) (r : Rect) (hr : RectOK w h r)
    (hb : isLosslessBlendingPossible w h P T r = true) :
    ∀ x y, x < w → y < h → r.has x y = true →
      pxEqv (blend (clearPx (T.px (y * w + x))) (P.px (y * w + x))) (T.px (y * w + x)) = true := by
  intro x y hx hy hh
  let cfg : Config := { w := w, h := h, lossless := true, allowMixed := false, quality := 0,
                        kmax := 0, loop := 0 }
  have hok := blendOK_lossless cfg rfl P T r hr (by simpa [blendPossible, cfg] using hb) x y hx hy hh
  exact blend_eqv_sound _ _ _ _ (pxEqv_refl _) (pxEqv_refl _) hok

/-- the same for any played-back approximations `s ≈ cleared target`, `d ≈ carried pixel` -/
theorem blend_ok_sound_played (s d P T : Px) (hs : pxEqv s (clearPx T) = true)
    (hd : pxEqv d P = true) (hok : (T.a ≠ 255 → P = T)) : pxEqv (blend s d) T = true :=
  blend_eqv_sound s d P T hs hd ((okLossless_iff P T).mpr hok)

/-- a half-transparent pixel -/
def S : Px := ⟨200, 16, 32, 128⟩
/-- oracle: every comparison answers "not smaller" -/
def o0 : StepOracle := ⟨false, false, false, false, false, false⟩

/-- 2×1 canvas, lossless; `blend := true` is the code before the first of today's repairs -/
def cfg21 (pins : Pins) : Config :=
  { w := 2, h := 1, lossless := true, allowMixed := false, quality := 75, kmax := maxInt, loop := 0,
    pins := pins }

/-- the half-transparent pixel stays, the opaque pixel next to it changes: the changed
    rectangle `(1,0)-(2,1)` is snapped to `(0,0)-(2,1)` and so contains the unchanged pixel -/
def selfBlendInputs : List (SubImage × Int) :=
  [(⟨2, 1, #[S, ⟨1, 2, 3, 255⟩]⟩, 10), (⟨2, 1, #[S, ⟨4, 5, 6, 255⟩]⟩, 20)]

set_option maxRecDepth 100000 in
/-- **`blend_selfblend_counterexample`** (pinned code, defect D3): the blend predicate accepts the
    rectangle, the sub-frame is blended, and the unchanged half-transparent pixel is blended onto
    itself: alpha 128 ↦ 192.  The played-back second picture is not the second input.  With
    today's `clearBlendedTranslucent` the same input plays back exactly. -/
theorem blend_selfblend_counterexample :
    isLosslessBlendingPossible 2 1 #[S, ⟨1, 2, 3, 255⟩] #[S, ⟨4, 5, 6, 255⟩] ⟨0, 0, 2, 1⟩ = true ∧
    blend S S = ⟨199, 15, 31, 192⟩ ∧
    (encodeAll (cfg21 { blend := true }) (fun _ => o0) false selfBlendInputs).map
        (playback (cfg21 { blend := true }) Toy.codec) =
      some [#[S, ⟨1, 2, 3, 255⟩], #[⟨199, 15, 31, 192⟩, ⟨4, 5, 6, 255⟩]] ∧
    (encodeAll (cfg21 {}) (fun _ => o0) false selfBlendInputs).map (playback (cfg21 {}) Toy.codec) =
      some [#[S, ⟨1, 2, 3, 255⟩], #[S, ⟨4, 5, 6, 255⟩]] := by
  refine ⟨by decide, by decide, by decide, by decide⟩

/-! ## the state invariant -/

/-- what holds for a lossless, non-mixed encoder on today's code -/
structure LosslessEncoder (cfg : Config) : Prop where
  valid : Config.Valid cfg
  lossless : cfg.lossless = true
  notMixed : cfg.allowMixed = false

/-- **`state_invariant`**: after every `AddFrame` call (every non-empty list of inputs is a prefix
    of a longer run), for every codec satisfying C01 and every oracle:
    (1) playing the emitted frames back ends on a picture `≈ prevCanvas`;
    (2) the emitted frame number `prevMuxIndex` is the last one, still has dispose-none, and its
        rectangle is `prevFrameRect`;
    (3) `prevCanvas` is the last input as placed on the canvas;
    (4) every emitted frame lies inside the canvas at even offsets. -/
theorem state_invariant (cfg : Config) (he : LosslessEncoder cfg) (c : Codec) (hc : CodecLossless c)
    (oracle : Nat → StepOracle) (inputs : List (SubImage × Int)) (hwf : WF inputs) (hne : inputs ≠ []) :
    (∃ last, (play cfg.w cfg.h ((run cfg oracle inputs).frames.map (EFrame.played cfg c))).getLast? = some last ∧
        sameCanvas (cfg.w * cfg.h) last (run cfg oracle inputs).prevCanvas = true) ∧
    (∃ l, (run cfg oracle inputs).frames[(run cfg oracle inputs).prevMuxIndex.toNat]? = some l ∧
        (run cfg oracle inputs).frames.getLast? = some l ∧
        l.rect = (run cfg oracle inputs).prevRect ∧ l.disposeBG = false) ∧
    (∃ x, inputs.getLast? = some x ∧
        (run cfg oracle inputs).prevCanvas = placeOnCanvas cfg.w cfg.h x.1) ∧
    (∀ f, f ∈ (run cfg oracle inputs).frames →
        RectOK cfg.w cfg.h f.rect ∧ f.offX % 2 = 0 ∧ f.offY % 2 = 0) := by
  have hrun := run_inv pxRel_eqv_lossless cfg c he.valid (blendOK_lossless cfg he.lossless)
    (decodesAll_lossless cfg c hc he.lossless he.notMixed) oracle inputs hwf hne
  generalize run cfg oracle inputs = st at hrun
  obtain ⟨init, l, hf, hl1, hl2⟩ := hrun.inv.snoc
  refine ⟨?_, ?_, ?_, ?_⟩
  · refine ⟨(E cfg c st.frames).1, ?_, (ce_iff _ _ _ _).mpr hrun.inv.rel⟩
    exact playFrom_getLast blend cfg.w cfg.h (transparent cfg.w cfg.h) none _ (by rw [hf]; simp)
  · refine ⟨l, ?_, by rw [hf]; simp, hl2, hl1⟩
    rw [hrun.inv.idx, hf]
    simp only [List.length_append, List.length_cons, List.length_nil]
    have : (((init.length + (0 + 1) : Nat) : Int) - 1).toNat = init.length := by omega
    rw [this]
    simp
  · obtain ⟨insI, dl, hins⟩ := hrun.last
    have hl : (placed cfg inputs).getLast? = some (st.prevCanvas, dl) := by rw [hins]; simp
    unfold placed at hl
    rw [List.getLast?_map] at hl
    cases hx : inputs.getLast? with
    | none => rw [hx] at hl; cases hl
    | some x =>
      rw [hx] at hl
      simp only [Option.map_some, Option.some.injEq, Prod.mk.injEq] at hl
      exact ⟨x, rfl, hl.1.symm⟩
  · intro f hfm
    obtain ⟨a, b, c', _⟩ := hrun.inv.framesOK f hfm
    exact ⟨a, b, c'⟩

/-- picture shown for a long time, shown again, then partly cleared -/
def fillerInputs : List (SubImage × Int) :=
  [(⟨2, 1, #[⟨1, 2, 3, 255⟩, ⟨1, 2, 3, 255⟩]⟩, 16777215),
   (⟨2, 1, #[⟨1, 2, 3, 255⟩, ⟨1, 2, 3, 255⟩]⟩, 5),
   (⟨2, 1, #[⟨1, 2, 3, 255⟩, ⟨0, 0, 0, 0⟩]⟩, 7)]

/-- oracle that lets the dispose-to-background candidate win in the third call -/
def oBG : Nat → StepOracle := fun i => if i = 2 then { o0 with useBG := true } else o0

set_option maxRecDepth 100000 in
/-- **`filler_rect_counterexample`** (pinned code, defect D12): after the duration-overflow filler
    frame `prevMuxIndex` points at the 1×1 filler while `prevFrameRect` is still the whole canvas —
    the second conjunct of `state_invariant` fails — and when a later call chooses
    dispose-to-background the wrong rectangle is cleared on playback: the third picture comes back
    as the first.  Today's code keeps the invariant and plays the third picture back. -/
theorem filler_rect_counterexample :
    ((run (cfg21 { filler := true }) oBG (fillerInputs.take 2)).frames.getLast?.map EFrame.rect =
        some ⟨0, 0, 1, 1⟩ ∧
     (run (cfg21 { filler := true }) oBG (fillerInputs.take 2)).prevRect = ⟨0, 0, 2, 1⟩) ∧
    (encodeAll (cfg21 { filler := true }) oBG false fillerInputs).map
        (playback (cfg21 { filler := true }) Toy.codec) =
      some [#[⟨1, 2, 3, 255⟩, ⟨1, 2, 3, 255⟩], #[⟨1, 2, 3, 255⟩, ⟨1, 2, 3, 255⟩],
            #[⟨1, 2, 3, 255⟩, ⟨1, 2, 3, 255⟩]] ∧
    (run (cfg21 {}) oBG (fillerInputs.take 2)).prevRect = ⟨0, 0, 1, 1⟩ ∧
    (encodeAll (cfg21 {}) oBG false fillerInputs).map (playback (cfg21 {}) Toy.codec) =
      some [#[⟨1, 2, 3, 255⟩, ⟨1, 2, 3, 255⟩], #[⟨1, 2, 3, 255⟩, ⟨1, 2, 3, 255⟩],
            #[⟨1, 2, 3, 255⟩, ⟨0, 0, 0, 0⟩]] := by
  refine ⟨⟨by decide, by decide⟩, by decide, by decide, by decide⟩

/-! ## the capstone: playback of the written animation -/

/-- the input pictures as placed on the canvas -/
def inputCanvases (cfg : Config) (inputs : List (SubImage × Int)) : List Canvas :=
  (placed cfg inputs).map Prod.fst

/-- every input duration can be stored in one ANMF frame: `0 ≤ d ≤ 2^24 − 1` -/
def DurationsInRange (inputs : List (SubImage × Int)) : Prop :=
  ∀ x, x ∈ inputs → 0 ≤ x.2 ∧ x.2 ≤ 16777215

theorem dom_of_inRange (cfg : Config) (inputs : List (SubImage × Int)) (h : DurationsInRange inputs) :
    Dom (placed cfg inputs) := by
  intro x hx
  unfold placed at hx
  rw [List.mem_map] at hx
  obtain ⟨y, hy, rfl⟩ := hx
  exact h y hy

/-- **`encode_playback`** — for every canvas size, every list of input pictures (any sizes, any
    content), all durations, every Kmin/Kmax and loop count (all part of `cfg`), every oracle and
    every codec satisfying C01: the written file plays back, after removal of consecutive
    duplicates on both sides, as the input pictures, one by one and in order, up to `≈`. -/
theorem encode_playback (cfg : Config) (he : LosslessEncoder cfg) (c : Codec) (hc : CodecLossless c)
    (oracle : Nat → StepOracle) (stillSmaller : Bool) (inputs : List (SubImage × Int)) (hwf : WF inputs)
    (out : Output) (hout : encodeAll cfg oracle stillSmaller inputs = some out) :
    listRel (sameCanvas (cfg.w * cfg.h))
      (dedup (sameCanvas (cfg.w * cfg.h)) (playback cfg c out))
      (dedup (sameCanvas (cfg.w * cfg.h)) (inputCanvases cfg inputs)) = true :=
  (close_spec pxRel_eqv_lossless cfg c he.valid (blendOK_lossless cfg he.lossless)
    (decodesAll_lossless cfg c hc he.lossless he.notMixed) oracle stillSmaller inputs hwf out hout).2.2.2.1

/-- **`canvas_size_kept`**: the canvas size of the output is the encoder's, always (animation or
    still), and every played-back picture has that size. -/
theorem canvas_size_kept (cfg : Config) (he : LosslessEncoder cfg) (c : Codec) (hc : CodecLossless c)
    (oracle : Nat → StepOracle) (stillSmaller : Bool) (inputs : List (SubImage × Int)) (hwf : WF inputs)
    (out : Output) (hout : encodeAll cfg oracle stillSmaller inputs = some out) :
    out.w = cfg.w ∧ out.h = cfg.h ∧ ∀ cv, cv ∈ playback cfg c out → cv.size = cfg.w * cfg.h := by
  obtain ⟨a, b, c', _⟩ := close_spec pxRel_eqv_lossless cfg c he.valid (blendOK_lossless cfg he.lossless)
    (decodesAll_lossless cfg c hc he.lossless he.notMixed) oracle stillSmaller inputs hwf out hout
  exact ⟨a, b, c'⟩

/-- **`durations_kept`**: with at least two distinct pictures the output is an animation (never
    the still shortcut) carrying the encoder's loop count, and — when every input duration lies
    in `[0, 2^24 − 1]` — the display time of every picture (sum over its merged duplicates,
    filler frames included) and the total duration are those of the input. -/
theorem durations_kept (cfg : Config) (he : LosslessEncoder cfg) (c : Codec) (hc : CodecLossless c)
    (oracle : Nat → StepOracle) (stillSmaller : Bool) (inputs : List (SubImage × Int)) (hwf : WF inputs)
    (out : Output) (hout : encodeAll cfg oracle stillSmaller inputs = some out)
    (h2 : 2 ≤ (dedup (sameCanvas (cfg.w * cfg.h)) (inputCanvases cfg inputs)).length) :
    out.still = false ∧ out.loop = cfg.loop ∧
    (DurationsInRange inputs →
      (dedupDur (sameCanvas (cfg.w * cfg.h)) ((playback cfg c out).zip (out.frames.map (·.dur)))).map Prod.snd =
        (dedupDur (sameCanvas (cfg.w * cfg.h)) (placed cfg inputs)).map Prod.snd ∧
      (out.frames.map (·.dur)).sum = (inputs.map Prod.snd).sum) := by
  obtain ⟨_, _, _, _, hstill, hanim⟩ := close_spec pxRel_eqv_lossless cfg c he.valid
    (blendOK_lossless cfg he.lossless) (decodesAll_lossless cfg c hc he.lossless he.notMixed)
    oracle stillSmaller inputs hwf out hout
  have hns : out.still = false := by
    cases hs : out.still with
    | false => rfl
    | true =>
      have := hstill hs
      unfold inputCanvases sameCanvas at h2
      omega
  obtain ⟨hloop, htime⟩ := hanim hns
  refine ⟨hns, hloop, fun hdom => ?_⟩
  have ht := htime (dom_of_inRange cfg inputs hdom)
  refine ⟨ht, ?_⟩
  have hlen : (playback cfg c out).length = (out.frames.map (·.dur)).length := by
    unfold playback play playWith
    rw [playFrom_length, List.length_map, List.length_map]
  have h1 : (out.frames.map (·.dur)) = ((playback cfg c out).zip (out.frames.map (·.dur))).map Prod.snd :=
    (List.map_snd_zip (by rw [hlen]; exact Nat.le_refl _)).symm
  have h3 : (inputs.map Prod.snd) = (placed cfg inputs).map Prod.snd := by
    unfold placed; rw [List.map_map]; rfl
  rw [h1, h3, ← dedupDur_sum (sameCanvas (cfg.w * cfg.h)), ← dedupDur_sum (sameCanvas (cfg.w * cfg.h))
    (placed cfg inputs), ht]

/-- the loop count handed to `NewEncoder` is the loop count of the output whenever it is in
    `[0, 65535]` -/
theorem loop_count_kept (cw ch : Int) (ll mx : Bool) (q : Nat) (kmin kmax loop : Int) (cfg : Config)
    (hcfg : newEncoder cw ch ll mx q kmin kmax loop = some cfg) (h0 : 0 ≤ loop) (h1 : loop ≤ 65535) :
    cfg.loop = loop := by
  unfold newEncoder at hcfg
  split at hcfg
  · cases hcfg
  · simp only [Option.some.injEq] at hcfg
    subst hcfg
    show clampLoopCount loop = loop
    unfold clampLoopCount
    rw [if_neg (by omega), if_neg (by unfold maxLoopCount; omega)]

/-- `NewEncoder` produces a configuration the theorems apply to, for every Kmin/Kmax/loop count -/
theorem newEncoder_lossless (cw ch : Int) (q : Nat) (kmin kmax loop : Int) (cfg : Config)
    (hcfg : newEncoder cw ch true false q kmin kmax loop = some cfg) : LosslessEncoder cfg := by
  refine ⟨newEncoder_valid cw ch true false q kmin kmax loop cfg hcfg, ?_, ?_⟩ <;>
  · unfold newEncoder at hcfg
    split at hcfg
    · cases hcfg
    · simp only [Option.some.injEq] at hcfg
      subst hcfg
      rfl

/-! ### outside the duration domain: silent clamping -/

/-- 1×1 canvas, two different opaque pictures -/
def twoPictures (d0 d1 : Int) : List (SubImage × Int) :=
  [(⟨1, 1, #[⟨1, 2, 3, 255⟩]⟩, d0), (⟨1, 1, #[⟨4, 5, 6, 255⟩]⟩, d1)]

def cfg11 : Config :=
  { w := 1, h := 1, lossless := true, allowMixed := false, quality := 75, kmax := maxInt, loop := 0 }

set_option maxRecDepth 100000 in
/-- a display time of `2^24` ms is stored as `2^24 − 1` (1 ms lost, silently), … -/
theorem duration_too_long_counterexample :
    (encodeAll cfg11 (fun _ => o0) false (twoPictures 16777216 10)).map (fun o => o.frames.map (·.dur)) =
      some [16777215, 10] := by decide

set_option maxRecDepth 100000 in
/-- … a negative one as 0, and a negative duration of a repeated picture shortens the picture
    shown before it -/
theorem duration_negative_counterexample :
    (encodeAll cfg11 (fun _ => o0) false (twoPictures (-5) 10)).map (fun o => o.frames.map (·.dur)) =
      some [0, 10] ∧
    (encodeAll cfg11 (fun _ => o0) false
        [(⟨1, 1, #[⟨1, 2, 3, 255⟩]⟩, 50), (⟨1, 1, #[⟨1, 2, 3, 255⟩]⟩, -20),
         (⟨1, 1, #[⟨4, 5, 6, 255⟩]⟩, 10)]).map (fun o => o.frames.map (·.dur)) =
      some [30, 10] := by
  refine ⟨by decide, by decide⟩

/-! ## non-vacuity -/

/-- the codec contract is satisfiable: the toy codec of the model is lossless up to `≈` -/
example : CodecLossless Toy.codec := toy_lossless

/-- a configuration produced by `NewEncoder` -/
example : ∃ cfg, newEncoder 2 1 true false 75 3 9 7 = some cfg ∧ LosslessEncoder cfg ∧ cfg.loop = 7 := by
  refine ⟨_, rfl, newEncoder_lossless 2 1 75 3 9 7 _ rfl, rfl⟩

theorem cfg21_ok : LosslessEncoder (cfg21 {}) :=
  ⟨⟨by decide, by decide, by decide, by decide, rfl, rfl, rfl⟩, rfl, rfl⟩

theorem selfBlend_wf : WF selfBlendInputs := by
  intro x hx
  simp only [selfBlendInputs, List.mem_cons, List.mem_nil_iff, or_false] at hx
  rcases hx with rfl | rfl <;> rfl

set_option maxRecDepth 100000 in
/-- the hypotheses of `encode_playback` / `durations_kept` / `state_invariant` hold on a
    non-trivial instance (a sub-frame with a half-transparent pixel, two distinct pictures,
    durations in range), and the conclusion is about two different pictures -/
example : ∃ out, encodeAll (cfg21 {}) (fun _ => o0) false selfBlendInputs = some out ∧
    WF selfBlendInputs ∧ DurationsInRange selfBlendInputs ∧
    2 ≤ (dedup (sameCanvas 2) (inputCanvases (cfg21 {}) selfBlendInputs)).length ∧
    out.frames.length = 2 ∧ (playback (cfg21 {}) Toy.codec out).length = 2 := by
  refine ⟨_, rfl, selfBlend_wf, ?_, by decide, by decide, by decide⟩
  intro x hx
  simp only [selfBlendInputs, List.mem_cons, List.mem_nil_iff, or_false] at hx
  rcases hx with rfl | rfl <;> decide

set_option maxRecDepth 100000 in
/-- filler frames do occur (duration overflow) and the still shortcut does occur -/
example : (encodeAll (cfg21 {}) oBG false fillerInputs).map (fun o => o.frames.map (·.dur)) =
      some [16777215, 5, 7] ∧
    (encodeAll (cfg21 {}) (fun _ => o0) true (selfBlendInputs.take 1)).map (·.still) = some true := by
  refine ⟨by decide, by decide⟩

/-- the hypotheses of `blend_ok_sound` hold with a half-transparent pixel inside the rectangle -/
example : RectOK 2 1 ⟨0, 0, 2, 1⟩ ∧
    isLosslessBlendingPossible 2 1 #[S, ⟨1, 2, 3, 255⟩] #[S, ⟨4, 5, 6, 255⟩] ⟨0, 0, 2, 1⟩ = true :=
  ⟨⟨by decide, by decide, by decide, by decide, by decide, by decide⟩, by decide⟩

/-- `findChangedRect` on a 3×3 canvas where only the centre differs; `snapToEven` moves it -/
example : findChangedRect 3 3 (Array.replicate 9 Px.zero) ((Array.replicate 9 Px.zero).set! 4 S) = ⟨1, 1, 2, 2⟩ ∧
    snapToEven ⟨1, 1, 2, 2⟩ = ⟨0, 0, 2, 2⟩ := by
  refine ⟨by decide, by decide⟩

end Webp.Props.C08
