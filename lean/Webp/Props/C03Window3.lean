import Webp.Proofs.VP8LWindow3Meta
import Generated.Fills
/-
  Property C03 — THE WINDOW BUDGET, part 3: THE LEVEL-0 SEQUENCE on the window reader.

  `decodeImageStream(width, height, true)` of /repo/internal/lossless/decode.go (transform loop with
  `readTransform` and its sub-images, colour-cache info, `readHuffmanCodes` with the meta bit) followed by
  the `decodeImageData` call of `DecodeVP8L`, transcribed in Webp/Impl/VP8LWindow3.lean over the reader
  interface of the earlier parts (`decodeStreamGo`), against the specification's stream decode after the
  header (`specStream` = the body of `Spec.VP8L.decodeStream` behind `readHeader`).

    token_leaves_61, pixelLoop_leaves_62, subImage_leaves_62
                                     the register bound of the final state is now a PARAMETER of the token
                                     theorem (`AgreeK`, `oToken`): for the refills of the Go source a token
                                     read leaves the register position ≤ 61, the pixel loop and a whole
                                     sub-image ≤ 62 …
    readBits_after_subImage          … so the `ReadBits(1)` that follows a sub-image is a correct read
    readTransform_eq_spec            `readTransform` after its type bits = `readTransformData`
    transformLoop_eq_spec            the transform loop = `readTransforms` (each type once: dup ⇔ dup)
    singleGroup_eq_spec              codes + pixels of the single-group case (meta bit 0)
    metaCodes_eq_spec                the meta-code branch: meta image, group count, groups loop, pixel loop
                                     with a meta image (the model stops where Go would remap the groups)
    decodeImageStream_eq_spec_window the whole level-0 sequence = `specStream`, unconditionally; the only
                                     gap is the group REMAPPING of `readHuffmanCodes` (> 1000 groups or more
                                     groups than pixels), which the model does not have: there the model
                                     leaves with `remapNotModelled` (suite: `skip remap`)
    decodeImageStream_eq_spec_window_partial   the earlier, conditional form (kept: it has no remap exit)
    fills_match_header, fills_match_stream, fills_match_stream_loop, fills_match_transform
                                     reader calls of `decodeHeader`, `decodeImageStream` (level 0),
                                     its transform loop and `readTransform` = those of the model

  Axioms of every theorem below: `propext`, `Classical.choice`, `Quot.sound` only.
-/
namespace Webp.Props.C03Window3
open Webp.Go (Res)
open Webp.Spec.VP8L (BitReader Err Code Group EntropyParams Transform readEntropyCodedImage readTransformData
  readTransforms decodePixels)
open Webp.Impl.VP8LEntropy
open Webp.Impl.VP8LWindow
open Webp.Impl.VP8LFastPaths (mkGroup)
open Webp.Proofs.VP8LEntropyReader (pad8 Win)
open Webp.Proofs.VP8LWindow

/-! ## the register position a read leaves -/

/-- **token_leaves_61.**  `readTokenGo_eq_spec` with the register bound of the final state: for a group
    as `readHuffmanCodes` builds it (`Built`), from register position `≤ k0` one trip through the loop
    body leaves the register position `≤ max k0 61` (61 = refill 31 + blue 15 + alpha 15; the other
    paths stay below: backward reference ≤ 49, cache / trivial literal ≤ 47, packed ≤ 37; a trivial
    code leaves the reader untouched). -/
theorem token_leaves_61 {G : Group} {t : Webp.Impl.VP8LFastPaths.Tables5} {m : Webp.Impl.VP8LFastPaths.MaxLens5}
    {Ng : Nat} (hB : Built G t m Ng) {buf : Array UInt8} {r : Reader} {P k0 : Nat} (hg : Good buf r P k0)
    (hk0 : k0 ≤ 64) {xsize : Nat} (hx : xsize ≤ 153391689) :
    (∃ tk r' P', readTokenGo (mkGroup t m) xsize r = .ok (tk, r') ∧
        Webp.Spec.VP8L.readToken G xsize (brAt buf P) = .ok (tk, brAt buf P') ∧ Good buf r' P' (max k0 61)) ∨
    (readTokenGo (mkGroup t m) xsize r = .err .eos ∧ Webp.Spec.VP8L.readToken G xsize (brAt buf P) = .err .eos) := by
  have h := readTokenAt_agree_builtK hB (fs := goFills) (by decide) hg hk0 hx
  rw [oToken_go] at h
  exact h

/-- **pixelLoop_leaves_62.**  `decodeImageData_eq_spec_window` with the register bound: started at
    register position `≤ 62` the pixel loop ends at register position `≤ 62` (`AtBit62`). -/
theorem pixelLoop_leaves_62 {ep : EntropyParams} {gs : Array Webp.Impl.VP8LFastPaths.HTreeGroup}
    (hgs : GroupsBuilt ep gs) (hidx : ∀ e ∈ ep.entropy, e < ep.groups.size) (hx : ep.width ≤ 153391689)
    {buf : Array UInt8} {r : Reader} {P : Nat} (hg : Good buf r P 62) :
    SimRes (AtBit62 buf) (decodePixelLoop (goSource gs ep.width) (LoopParams.ofSpec ep) r)
      (decodePixels ep (brAt buf P)) :=
  decodePixelLoop_window62 hgs hidx hx hg

/-- **subImage_leaves_62.**  `decodeEntropyImage_eq_spec_window` with the register bound: one
    entropy-coded image (`decodeSubImage`) from register position `≤ 63` leaves it `≤ 62`. -/
theorem subImage_leaves_62 {buf : Array UInt8} (w h : Nat) (hw : w ≤ 153391689) {r : Reader} {P : Nat}
    (hg : Good buf r P 63) :
    RelOut (fun a b => a = b) buf 62 (decodeEntropyImageGo w h r) (readEntropyCodedImage w h (brAt buf P)) :=
  decodeEntropyImage_agree62 w h hw hg

/-- **readBits_after_subImage.**  … hence the `ReadBits(1)` that follows a sub-image in
    `decodeImageStream` / `readHuffmanCodes` (next-transform bit, colour-cache bit, `simpleCode` bit) reads
    the specification's bit. -/
theorem readBits_after_subImage {buf : Array UInt8} {r : Reader} {P : Nat} (hg : Good buf r P 62) :
    ((brAt buf P).readBits 1 = .ok ((r.readBits 1).1.toNat, brAt buf (P + 1)) ∧ Good buf (r.readBits 1).2 (P + 1) 7) ∨
    ((brAt buf P).readBits 1 = .err .eos ∧ (r.readBits 1).2.isEndOfStream = true) :=
  readBits_good hg 1 (by omega) (by omega)

/-! ## transforms -/

/-- **readTransform_eq_spec.**  `readTransform` behind its two type bits (`transformData`: the `switch`
    with `ReadBits(3)` / `ReadBits(8)` and `decodeSubImage`) against the specification's
    `readTransformData`: the same transform (`xformSpec`: the raw sub-image, delta-decoded for a
    palette), the same following width, register position `≤ 62`. -/
theorem readTransform_eq_spec {buf : Array UInt8} (ty w h : Nat) (hty : ty < 4) (hw : w ≤ 100000000)
    (hh : h ≤ 100000000) {r : Reader} {P : Nat} (hg : Good buf r P 7) :
    match readTransformData ty w h (brAt buf P) with
    | .ok (t, w', br') => ∃ x r' P', transformData goOps2 goSubs ty w h r = .ok ((x, w'), r') ∧ t = xformSpec x ∧
        x.ty = ty ∧ x.xsize = w ∧ w' ≤ w ∧ br' = brAt buf P' ∧ Good buf r' P' 62
    | .err _ => ∃ e', transformData goOps2 goSubs ty w h r = .err e'
    | .panic => True
    | .hang => True := by
  have hh' := transformData_agree (buf := buf) ty w h hty hw hh hg
  unfold XOut at hh'
  cases hsp : readTransformData ty w h (brAt buf P) with
  | ok x => rw [hsp] at hh'; exact hh'
  | err e => rw [hsp] at hh'; exact hh'
  | panic => trivial
  | hang => trivial

/-- **transformLoop_eq_spec.**  `for dec.br.ReadBits(1) == 1 { readTransform }` (Go fuel = spec fuel + 1)
    against `readTransforms`: the recorded transforms are the specification's list, in order, with
    the widths; a repeated type is rejected on both sides.  When the specification fails Go fails —
    or leaves the loop with `IsEndOfStream()` raised (`FailOr2`; the test in `readHuffmanCodes` follows). -/
theorem transformLoop_eq_spec (buf : Array UInt8) (h : Nat) (hh : h ≤ 100000000) (f w : Nat) (seen : List Nat)
    (acc : Array XForm) (ts : Array (Transform × Nat)) (r : Reader) (P : Nat) (hw : w ≤ 100000000)
    (hg : Good buf r P 62) (hinv : TInv seen acc ts) :
    LoopOutT buf (transformLoop goOps2 goSubs h (f + 1) w seen acc r) (readTransforms h f w ts (brAt buf P)) :=
  transformLoop_agree buf h hh f w seen acc ts r P hw hg hinv

/-! ## codes and pixels -/

/-- **singleGroup_eq_spec.**  The single-group case of `readHuffmanCodes` (behind a meta bit 0): the
    `IsEndOfStream` test, five codes, flags, `updateDecoder`, `decodeImageData` = the specification's
    `readGroup` + `decodePixels`. -/
theorem singleGroup_eq_spec {buf : Array UInt8} (w h cb : Nat) (hcb : cb ≤ 11) (hw : w ≤ 100000000) {r : Reader}
    {P : Nat} (hg : Good buf r P 7) :
    RelOut (fun a b => a = b) buf 62 (singleGroupPart goOps2 goSubs w h cb r) (specBody w h cb (brAt buf P)) :=
  singleGroupPart_agree w h cb hcb hw hg

/-- **decodeImageStream_eq_spec_window_partial.**  The level-0 sequence on the window reader from
    any window state with register position `≤ 62` (after `decodeHeader`'s `ReadBits`: `≤ 7`) against
    `specStream` (transforms, colour cache, meta prefix, pixels): the same transforms (`xformSpec`), the
    same width after them, the same entropy-coded pixels, a consistent reader at the specification's
    final position — or both fail.
    FULL STATEMENT = this without `hmeta`.  `MetaAgree buf` is the same kind of statement for the
    meta-code branch alone (`metaPart` vs `specMetaPixels`: meta image, `numHTreeGroupsMax`, the groups
    loop, the pixel loop with a meta image, WITHOUT the > 1000-groups remapping, which the model does
    not have); it is what remains to be proved.  Everything else — transform loop with sub-images,
    colour cache, meta bit, single group, pixel loop — is proved here. -/
theorem decodeImageStream_eq_spec_window_partial {buf : Array UInt8} (hmeta : MetaAgree buf) (w h : Nat)
    (hw : w ≤ 100000000) (hh : h ≤ 100000000) {r : Reader} {P : Nat} (hg : Good buf r P 62) :
    match specStream w h (brAt buf P) with
    | .ok ((ts, w', px), br') => ∃ l0 r' P', decodeStreamGo w h r = .ok (l0, r') ∧
        ts = l0.transforms.map (fun x => (xformSpec x, x.xsize)) ∧ w' = l0.width ∧ px = l0.pixels ∧
        br' = brAt buf P' ∧ Good buf r' P' 62
    | .err _ => ∃ e', decodeStreamGo w h r = .err e'
    | .panic => True
    | .hang => True :=
  decodeStream_agree hmeta w h hw hh hg

/-- **metaCodes_eq_spec.**  The meta-code branch of `readHuffmanCodes` behind the meta bit
    (`ReadBits(3)`, the meta image as a sub-image, `group = (px >> 8) & 0xffff`, `numHTreeGroupsMax`, the
    `IsEndOfStream` test, one `readHuffmanCode` group per index, `updateDecoder`) and `decodeImageData`
    with the meta image, against the specification's branch of `readMetaPrefix` + `decodePixels`.
    `RelOutR`: equal pixels and a consistent reader (register position ≤ 62), or the model stopped
    at the remapping it does not have, or both fail. -/
theorem metaCodes_eq_spec {buf : Array UInt8} (w h cb : Nat) (hw : w ≤ 100000000) (hh : h ≤ 100000000) (hcb : cb ≤ 11)
    {r : Reader} {P : Nat} (hg : Good buf r P 7) :
    RelOutR buf 62 (metaPart goOps2 goSubs w h cb r) (specMetaPixels w h cb (brAt buf P)) :=
  metaPart_agree w h cb hw hh hcb hg

/-- **decodeImageStream_eq_spec_window.**  The level-0 sequence on the window reader — transform loop
    with its sub-images, colour-cache info, meta bit, single group or meta image with its groups,
    `decodeImageData` — from any window state with register position `≤ 62` (behind `decodeHeader`:
    `≤ 7`) against the specification's stream decode after the header (`specStream`): the same
    transforms, width and entropy-coded pixels with a consistent reader at the specification's final
    position; or the model stopped at the group remapping; or both fail.  No hypothesis on the stream. -/
theorem decodeImageStream_eq_spec_window {buf : Array UInt8} (w h : Nat)
    (hw : w ≤ 100000000) (hh : h ≤ 100000000) {r : Reader} {P : Nat} (hg : Good buf r P 62) :
    match specStream w h (brAt buf P) with
    | .ok ((ts, w', px), br') =>
      (∃ l0 r' P', decodeStreamGo w h r = .ok (l0, r') ∧
        ts = l0.transforms.map (fun x => (xformSpec x, x.xsize)) ∧ w' = l0.width ∧ px = l0.pixels ∧
        br' = brAt buf P' ∧ Good buf r' P' 62) ∨ decodeStreamGo w h r = .err remapNotModelled
    | .err _ => ∃ e', decodeStreamGo w h r = .err e'
    | .panic => True
    | .hang => True :=
  decodeStream_agreeR w h hw hh hg

/-- `specStream` is the body of the specification's `decodeStream` behind `readHeader` (the entropy
    parameters aside, which `decodeStream` also reports) -/
theorem specStream_is_decodeStream_tail (w h : Nat) (br : BitReader) :
    specStream w h br = (do
      let (ts, w', br) ← readTransforms h 5 w (Array.emptyWithCapacity 4) br
      let (cacheBits, br) ← Webp.Spec.VP8L.readColorCacheInfo br
      let (params, br) ← Webp.Spec.VP8L.readMetaPrefix w' h cacheBits br
      let (px, br) ← decodePixels params br
      pure ((ts, w', px), br)) := by
  unfold specStream specTail
  simp only [bind, Res.bind, pure]
  cases readTransforms h 5 w (Array.emptyWithCapacity 4) br with
  | ok x =>
    obtain ⟨ts, w', br1⟩ := x
    dsimp only
    cases Webp.Spec.VP8L.readColorCacheInfo br1 with
    | ok y =>
      obtain ⟨cb, br2⟩ := y
      dsimp only
      cases Webp.Spec.VP8L.readMetaPrefix w' h cb br2 with
      | ok z =>
        obtain ⟨params, br3⟩ := z
        rfl
      | err e => rfl
      | panic => rfl
      | hang => rfl
    | err e => rfl
    | panic => rfl
    | hang => rfl
  | err e => rfl
  | panic => rfl
  | hang => rfl

/-! ## the tie -/

theorem fills_match_header : Generated.Fills.decodeHeader = headerShape := by decide +kernel
/-- the level-0 paths of `decodeImageStream` (the `isLevel0 = false` paths are `decodeEntropyImageGo`) -/
theorem fills_match_stream :
    Generated.Fills.decodeImageStream.take 2 = streamShape ∧
    (Generated.Fills.decodeImageStream.drop 2).map Prod.snd =
      [["ReadBits", "ReadBits", "<readHuffmanCodes"], ["ReadBits", "<readHuffmanCodes"]] := by decide +kernel
theorem fills_match_stream_loop : Generated.Fills.decodeImageStreamLoop = streamLoopShape := by decide +kernel
theorem fills_match_transform : Generated.Fills.readTransform = transformShape := by decide +kernel

/-! ## non-vacuity -/

/-- hypotheses of `decodeImageStream_eq_spec_window_partial` / `transformLoop_eq_spec`: the state behind
    `decodeHeader`'s reads, the empty bookkeeping -/
example (buf : Array UInt8) : Good buf (Reader.new buf) 0 62 ∧ TInv [] #[] (Array.emptyWithCapacity 4) :=
  ⟨(Inv.good (Webp.Proofs.VP8LEntropyReader.new_inv buf)).mono (by omega),
   ⟨fun t => by simp, fun x hx => by simp at hx, by simp⟩⟩

end Webp.Props.C03Window3
