import Webp.Proofs.VP8Filter
import Webp.Proofs.VP8Upsample
/-
  Property C04 — "VP8 and ALPH decoding returns the samples the format defines", kernel half.

  The whole-stream reference decoder lives in `Webp/Spec/VP8*.lean` (separate work).  This file is about
  the places where the Go decoder's kernels deviate *structurally* from the format's formulas:

  * fast paths of the inverse DCT (`transformDC`, `transformAC3`, the inline DC code of `doTransform` /
    `doUVTransform`) and the dispatch that selects them (`nzCodeBits`, from the zig-zag position where
    coefficient parsing stopped); the DC-only shortcut of the inverse WHT in `parseResiduals`;
  * loop filters written with libwebp's clip tables (`sclip1`, `sclip2`, `clip1`, `abs0`) instead of the
    RFC's clamps, and with `4·|p0−q0| + |p1−q1| ≤ 2·E+1` instead of `|p0−q0|·2 + |p1−q1|/2 ≤ E`;
  * the `vp8kClip` table of YUV→RGB and the packed two-channels-per-word upsampler arithmetic.

  Models: `Webp.Impl.VP8Kernels` (Go, statement by statement; `RFC.*` = RFC 6386 §15 as written).
  Tie to the Go code: harness suite `kernels` (`kernel-model:*` correspondences; the Go tables themselves
  are compared with `sclip1Table` … by digest, op `k_cliptab`).
-/
namespace Webp.Props.C04Kernels
open Webp.Impl.VP8Kernels
open Webp.Proofs.VP8Kernels Webp.Proofs.VP8Filter Webp.Proofs.VP8Upsample

/-! ## Inverse-transform fast paths -/

/-- **fastpath_eq_full.**  Coefficients supported on `{0}`: `transformDC` (and the decoder's inline DC
    code) equal the full inverse DCT; supported on `{0,1,4}`: `transformAC3` equals it.  For every
    prediction block `p` (no range hypothesis) and every coefficient value (no `int16` hypothesis). -/
theorem fastpath_eq_full (c p : Nat → Int) :
    (DCOnly c → ∀ k, k < 16 → transformDC c p k = transformOne c p k) ∧
    (DCOnly c → ∀ k, k < 16 → dcInline c p k = transformOne c p k) ∧
    (AC3Only c → ∀ k, k < 16 → transformAC3 c p k = transformOne c p k) :=
  ⟨fun h k hk => transformDC_eq c p h k hk,
   fun h k hk => (dcInline_eq_transformDC c p k).trans (transformDC_eq c p h k hk),
   fun h k hk => transformAC3_eq c p h k hk⟩

example : DCOnly (fun k => if k = 0 then -2048 else 0) := by intro k h1 _; simp; omega
example : AC3Only (fun k => if k = 0 then 7 else if k = 1 then -300 else if k = 4 then 2047 else 0) := by
  intro k _ h0 h1 h4; simp [h0, h1, h4]
/-- the hypotheses are needed: one coefficient outside the support and the fast path differs -/
example : transformAC3 (fun k => if k = 2 then 64 else 0) (fun _ => 100) 0
    ≠ transformOne (fun k => if k = 2 then 64 else 0) (fun _ => 100) 0 := by decide

/-- **nzCodeBits_sound.**  `getCoeffs` zeroes the block and writes only zig-zag positions below the
    `nz` it returns (`ZeroFrom c nz`); `nzCodeBits` maps `nz > 3 ↦ 3`, `nz > 1 ↦ 2`, else `dst[0] != 0`;
    `doTransform` runs full / AC3 / inline-DC / nothing on that code.  Whatever `nz` is, the result is the
    full inverse DCT.  (`0 ≤ p ≤ 255` is only used for code 0, where nothing is written.) -/
theorem nzCodeBits_sound (c p : Nat → Int) (nz : Nat) (h : ZeroFrom c nz)
    (hp : ∀ k, k < 16 → 0 ≤ p k ∧ p k ≤ 255) :
    ∀ k, k < 16 → doTransform (nzCode nz (decide (c 0 ≠ 0))) c p k = transformOne c p k :=
  fun k hk => doTransform_nzCode c p nz h k hk (hp k hk)

/-- what the code implies about the support (the statement of DESIGN §4.4) -/
theorem nzCode_support (c : Nat → Int) (nz : Nat) (h : ZeroFrom c nz) :
    (nzCode nz (decide (c 0 ≠ 0)) = 2 → AC3Only c) ∧
    (nzCode nz (decide (c 0 ≠ 0)) = 1 → DCOnly c) ∧
    (nzCode nz (decide (c 0 ≠ 0)) = 0 → DCOnly c ∧ c 0 = 0) := by
  unfold nzCode
  refine ⟨?_, ?_, ?_⟩ <;> intro hc
  · by_cases h3 : nz > 3
    · simp [h3] at hc
    · exact zeroFrom_le3 c nz h (by omega)
  · by_cases h3 : nz > 3
    · simp [h3] at hc
    · by_cases h1 : nz > 1
      · simp [h3, h1] at hc
      · exact zeroFrom_le1 c nz h (by omega)
  · by_cases h3 : nz > 3
    · simp [h3] at hc
    · by_cases h1 : nz > 1
      · simp [h3, h1] at hc
      · refine ⟨zeroFrom_le1 c nz h (by omega), ?_⟩
        by_cases h0 : c 0 = 0
        · exact h0
        · simp [h3, h1, h0] at hc

example : ZeroFrom (fun k => if k = 0 then 5 else if k = 1 then -3 else 0) 2 := by
  intro n h1 h2
  have : n = 2 ∨ n = 3 ∨ n = 4 ∨ n = 5 ∨ n = 6 ∨ n = 7 ∨ n = 8 ∨ n = 9 ∨ n = 10 ∨ n = 11 ∨ n = 12 ∨ n = 13 ∨
      n = 14 ∨ n = 15 := by omega
  rcases this with rfl | rfl | rfl | rfl | rfl | rfl | rfl | rfl | rfl | rfl | rfl | rfl | rfl | rfl <;> decide

/-- the chroma analogue: `doUVTransform` on the four codes of a plane (any code ≥ 2 → `TransformUV` on all
    four blocks; otherwise inline DC where `src[0] != 0`) is the full inverse DCT of every block -/
theorem uv_dispatch_sound (c p : Nat → Nat → Int) (nz : Nat → Nat)
    (h : ∀ b, b < 4 → ZeroFrom (c b) (nz b)) (hp : ∀ b k, b < 4 → k < 16 → 0 ≤ p b k ∧ p b k ≤ 255) :
    ∀ b k, b < 4 → k < 16 →
      doUVTransform (fun b => nzCode (nz b) (decide (c b 0 ≠ 0))) c p b k = transformOne (c b) (p b) k :=
  fun b k hb hk => doUVTransform_nzCode c p nz h b hb k hk (hp b k hb hk)

/-- **wht_dc_only_shortcut.**  `parseResiduals` skips `TransformWHT` when `nz ≤ 1` and stores
    `int16((dc[0] + 3) >> 3)` in all 16 blocks: that is the inverse WHT of a DC-only input. -/
theorem wht_dc_only_shortcut (c : Nat → Int) (h : DCOnly c) :
    ∀ k, k < 16 → whtDCOnly c k = transformWHT c k :=
  fun k hk => whtDCOnly_eq c h k hk

/-- **itransform_output_in_range.**  Every sample any of the inverse-transform variants writes is a byte. -/
theorem itransform_output_in_range (c p : Nat → Int) (k : Nat) :
    (0 ≤ transformOne c p k ∧ transformOne c p k ≤ 255) ∧ (0 ≤ transformDC c p k ∧ transformDC c p k ≤ 255) ∧
    (0 ≤ transformAC3 c p k ∧ transformAC3 c p k ≤ 255) ∧ (0 ≤ dcInline c p k ∧ dcInline c p k ≤ 255) := by
  have r : ∀ v, 0 ≤ clip8b v ∧ clip8b v ≤ 255 := by
    intro v; unfold clip8b; split <;> (try split) <;> omega
  exact ⟨r _, r _, r _, r _⟩

/-! ## Clip tables and loop filters -/

/-- **cliptables_eq_clamp.**  Each table, at every index of its range, holds the clamp; outside the range
    the Go index expression is out of bounds (shown for `sclip1`, whose range the filters use up to both
    ends).  The tables are `initClipTables`' loops; the process's real tables are compared with them by the
    harness. -/
theorem cliptables_eq_clamp :
    (∀ v, -893 ≤ v → v ≤ 892 → ksclip1 v = some (clamp v (-128) 127)) ∧
    (∀ v, -112 ≤ v → v ≤ 112 → ksclip2 v = some (clamp v (-16) 15)) ∧
    (∀ v, -255 ≤ v → v ≤ 511 → kclip1 v = some (clamp v 0 255)) ∧
    (∀ v, -255 ≤ v → v ≤ 255 → kabs0 v = some (RFC.iabs v)) ∧
    (∀ v, v < -893 ∨ 892 < v → ksclip1 v = none) ∧
    sclip1Table.size = 1786 ∧ sclip2Table.size = 225 ∧ clip1Table.size = 767 ∧ abs0Table.size = 511 :=
  ⟨ksclip1_eq, ksclip2_eq, kclip1_eq, kabs0_eq, ksclip1_oob,
   by simp only [sclip1Table, List.size_toArray, List.length_map, List.length_range],
   by simp only [sclip2Table, List.size_toArray, List.length_map, List.length_range],
   by simp only [clip1Table, List.size_toArray, List.length_map, List.length_range],
   by simp only [abs0Table, List.size_toArray, List.length_map, List.length_range]⟩

/-- **filter_index_in_range.**  For all byte inputs and *all* integer thresholds, every table lookup of
    the simple filter, the macroblock-edge filter (`filterLoop26`) and the inner-edge filter
    (`filterLoop24`) is inside its table (the result is `some`, i.e. no Go panic), and the result is
    RFC 6386's `simple_segment` / `MBfilter` / `subblock_filter` with `edge_limit = thresh`,
    `interior_limit = ithresh`. -/
theorem filter_index_in_range (s : Seg) (hb : IsBytes s) (thresh ithresh hevT : Int) :
    simpleFilterGo thresh s = some (RFC.simpleSegment thresh s) ∧
    filterLoop26Go thresh ithresh hevT s = some (RFC.mbFilter hevT ithresh thresh s) ∧
    filterLoop24Go thresh ithresh hevT s = some (RFC.subblockFilter hevT ithresh thresh s) :=
  ⟨simpleFilterGo_rfc thresh s hb, filterLoop26Go_rfc thresh ithresh hevT s hb,
   filterLoop24Go_rfc thresh ithresh hevT s hb⟩

/-- the predicates themselves (used by both decoder copies of the filters) -/
theorem filter_predicates (s : Seg) (hb : IsBytes s) (e i t : Int) :
    needsFilter s.p1 s.p0 s.q0 s.q1 (2 * e + 1) = some (RFC.edgeTest e s.p1 s.p0 s.q0 s.q1) ∧
    needsFilter2 s.p3 s.p2 s.p1 s.p0 s.q0 s.q1 s.q2 s.q3 (2 * e + 1) i = some (RFC.filterYes i e s) ∧
    hev s.p1 s.p0 s.q0 s.q1 t = some (RFC.hevTest t s) :=
  ⟨needsFilter_rfc s hb e, needsFilter2_rfc s hb e i, hev_rfc s hb t⟩

example : IsBytes ⟨0, 255, 17, 128, 131, 20, 255, 0⟩ := by constructor <;> decide
/-- the byte hypothesis is needed: with `p1 - q1 = 1200` the index `sclip1[893 + 1200]` is out of range -/
example : doFilter2 ⟨0, 0, 1200, 0, 0, 0, 0, 0⟩ = none := by
  unfold doFilter2
  rw [ksclip1_oob _ (by decide)]
  rfl

/-! ## YUV → RGB and the upsampler -/

/-- **yuv2rgb_in_range.**  For all integers `y u v` (bytes in practice) the three conversions index
    `vp8kClip` inside its 16384 entries (they return `some`), return bytes, and equal libwebp's
    `VP8Clip8((…) >> 6)` clamp formula. -/
theorem yuv2rgb_in_range (y u v : Int) :
    yuvToR y v = some (clip8Ref (multHi y 19077 + multHi v 26149 - 14234)) ∧
    yuvToG y u v = some (clip8Ref (multHi y 19077 - multHi u 6419 - multHi v 13320 + 8708)) ∧
    yuvToB y u = some (clip8Ref (multHi y 19077 + multHi u 33050 - 17685)) ∧
    ∀ x, 0 ≤ clip8Ref x ∧ clip8Ref x ≤ 255 :=
  ⟨yuvClip_eq _, yuvClip_eq _, yuvClip_eq _, clip8Ref_range⟩

/-- **upsample_packed_eq_formula.**  U in bits 0..15 and V in bits 16..31 of one `uint32`: the first/last
    pixel formula `(3a + b + 0x00020002) >> 2` and all four outputs of the diamond kernel give, in each lane
    after `& 0xff` / `>> 16 & 0xff`, exactly `(3a + b + 2) / 4` and `(9a + 3b + 3c + d + 8) / 16` of that
    channel — for all byte values, no carry from the U lane ever reaches the V lane.
    (Proved with `UInt32.toNat` lemmas and `omega`; no `bv_decide`.) -/
theorem upsample_packed_eq_formula (tlu tlv tu tv lu lv cu cv : UInt8) :
    lanes (packedEdge (loadUV tlu tlv) (loadUV lu lv)) = (edgeRef tlu.toNat lu.toNat, edgeRef tlv.toNat lv.toNat) ∧
    (let d := packedDiamond (loadUV tlu tlv) (loadUV tu tv) (loadUV lu lv) (loadUV cu cv)
     lanes d.1 = (diamondRef tlu.toNat tu.toNat lu.toNat cu.toNat, diamondRef tlv.toNat tv.toNat lv.toNat cv.toNat) ∧
     lanes d.2.1 = (diamondRef tu.toNat tlu.toNat cu.toNat lu.toNat, diamondRef tv.toNat tlv.toNat cv.toNat lv.toNat) ∧
     lanes d.2.2.1 = (diamondRef lu.toNat tlu.toNat cu.toNat tu.toNat, diamondRef lv.toNat tlv.toNat cv.toNat tv.toNat) ∧
     lanes d.2.2.2 = (diamondRef cu.toNat tu.toNat lu.toNat tlu.toNat, diamondRef cv.toNat tv.toNat lv.toNat tlv.toNat)) :=
  ⟨packedEdge_lanes tlu tlv lu lv, packedDiamond_lanes tlu tlv tu tv lu lv cu cv⟩

end Webp.Props.C04Kernels
