import Webp.Proofs.C04RefineDoFilter4
import Webp.Impl.VP8DecFilter
/-
  Property C04, refinement theorems Impl ↔ Spec, part 7 — stage D: the loop filter of ONE MACROBLOCK.

  `Webp.Impl.VP8DecEdges` transcribes decode_frame.go `doFilter` and the edge loops it calls
  (`simpleHFilter16At`, `SimpleVFilter16(i)`, `filterLoop26(V/H)At`, `filterLoop24(V/H)At`, `h/vFilter16iAt`,
  `h/vFilter8iAt`, `needsFilter2At`, `isHEV`, `doSimpleFilter2/4/6`) on byte buffers with explicit offsets; suite
  `vp8dec` (op `dofilter`, hook `lossy.VerifDoFilter`) ties it to the real code.  Theorems:

  * `dofilter_step_eq_spec`: at every position, the Go edge-loop body = the body of `Spec.VP8.filterEdge`;
  * `dofilter_plane_eq_spec`: for one plane, the four groups of edges (left macroblock edge unless `mbX = 0`,
    inner vertical edges, top macroblock edge unless `mbY = 0`, inner horizontal edges), in this order, with
    `limit + 4` / `limit` / `ilevel` / `hevThresh` = `Spec.VP8.filterMBPlane` with the RFC's parameters;
  * `dofilter_eq_spec`: `doFilter(mbX, mbY)` on the three cache planes = one iteration of the macroblock loop of
    `Spec.VP8.loopFilter` (luma only for the simple filter);
  * `paramRel_of_edgeParams`: the parameter relation is what `loopfilter_params_eq_spec` delivers.
-/
namespace Webp.Props.C04Refine7
open Webp.Spec.VP8 (filterEdge filterMBPlane FilterParams Plane)
open Webp.Impl.VP8DecEdges
open Webp.Proofs.C04RefineEdge (edgeStep)
open Webp.Proofs.C04RefineDoFilter

/-- **one position**: the bodies of the Go edge loops are the body of `Spec.VP8.filterEdge` (kinds 0 simple,
    1 macroblock edge, 2 sub-block edge), for every buffer, whenever the stores hit distinct bytes. -/
theorem dofilter_step_eq_spec (thresh ithresh hevT : Nat) (p : ByteArray) (off step : Nat) (hs : 0 < step)
    (ho : 3 * step ≤ off) :
    simpleStep thresh p off step = edgeStep 0 thresh ithresh hevT p off step ∧
    mbStep thresh ithresh hevT p off step = edgeStep 1 thresh ithresh hevT p off step ∧
    subStep thresh ithresh hevT p off step = edgeStep 2 thresh ithresh hevT p off step :=
  ⟨simpleStep_eq thresh ithresh hevT p off step, mbStep_eq thresh ithresh hevT p off step hs ho,
   subStep_eq thresh ithresh hevT p off step hs (by omega)⟩

/-- **one macroblock, one plane** (`n` = 16 luma, 8 chroma; any stride `s > 0`) -/
theorem dofilter_plane_eq_spec (simple : Bool) (f : FParams) (fp : FilterParams) (hr : ParamRel f fp)
    (mbX mbY n : Nat) (hn : 8 ≤ n) (data : ByteArray) (s rows : Nat) (hs : 0 < s) :
    filterMBPlane simple fp f.inner mbX mbY n ⟨data, s, rows⟩ =
      ⟨filterPlane simple f mbX mbY n s (n * mbY * s + n * mbX) data, s, rows⟩ :=
  filterPlane_eq_spec simple f fp hr mbX mbY n hn data s rows hs

/-- **one macroblock, the three planes**: `doFilter(mbX, mbY)` = the body of `Spec.VP8.loopFilter`'s
    macroblock loop for a macroblock whose level is not 0 (`limit ≠ 0`). -/
theorem dofilter_eq_spec (simple : Bool) (f : FParams) (fp : FilterParams) (hr : ParamRel f fp) (hl : f.limit ≠ 0)
    (mbX mbY : Nat) (Y U V : Plane) (hy : 0 < Y.stride) (hu : 0 < U.stride) (hv : V.stride = U.stride) :
    doFilter (if simple then 1 else 2) f mbX mbY Y.stride U.stride Y.data U.data V.data =
      ((filterMBPlane simple fp f.inner mbX mbY 16 Y).data,
       (if simple then U else filterMBPlane false fp f.inner mbX mbY 8 U).data,
       (if simple then V else filterMBPlane false fp f.inner mbX mbY 8 V).data) := by
  obtain ⟨yd, ys, yr⟩ := Y
  obtain ⟨ud, us, ur⟩ := U
  obtain ⟨vd, vs, vr⟩ := V
  simp only at hy hu hv
  subst hv
  have e16 : mbY * 16 * ys + mbX * 16 = 16 * mbY * ys + 16 * mbX := by rw [Nat.mul_comm mbY 16, Nat.mul_comm mbX 16]
  have e8 : mbY * 8 * vs + mbX * 8 = 8 * mbY * vs + 8 * mbX := by rw [Nat.mul_comm mbY 8, Nat.mul_comm mbX 8]
  unfold doFilter
  rw [if_neg hl]
  cases simple
  · simp only [Bool.false_eq_true, if_false, show ¬ (2 = 1) by decide]
    rw [filterPlane_eq_spec false f fp hr mbX mbY 16 (by omega) yd ys yr hy,
      filterPlane_eq_spec false f fp hr mbX mbY 8 (by omega) ud vs ur hu,
      filterPlane_eq_spec false f fp hr mbX mbY 8 (by omega) vd vs vr hu, e16, e8]
  · simp only [if_true]
    rw [filterPlane_eq_spec true f fp hr mbX mbY 16 (by omega) yd ys yr hy, e16]

open Webp.Impl.VP8DecFilter in
/-- the thresholds `Webp.Props.C04Refine.loopfilter_params_eq_spec` proves equal to the RFC's are `ParamRel` -/
theorem paramRel_of_edgeParams (fi : FInfo) (lvl mbLimit subLimit interior hevT : Nat)
    (h : edgeParams fi = some (mbLimit, subLimit, interior, hevT)) :
    ParamRel { limit := fi.fLimit, ilevel := fi.fILevel, hevT := fi.hevThresh, inner := fi.fInner }
      { level := lvl, interior := interior, hevThreshold := hevT, mbLimit := mbLimit, subLimit := subLimit } ∧
    fi.fLimit ≠ 0 := by
  unfold edgeParams at h
  by_cases h0 : fi.fLimit = 0
  · rw [if_pos h0] at h; cases h
  · rw [if_neg h0] at h
    have e := Option.some.inj h
    obtain ⟨e1, e2⟩ := Prod.mk.inj e
    obtain ⟨e3, e4⟩ := Prod.mk.inj e2
    obtain ⟨e5, e6⟩ := Prod.mk.inj e4
    exact ⟨⟨e1.symm, e3.symm, e5.symm, e6.symm⟩, h0⟩

/-- the relation is satisfiable -/
example : ParamRel { limit := 45, ilevel := 5, hevT := 1, inner := true }
    { level := 20, interior := 5, hevThreshold := 1, mbLimit := 49, subLimit := 45 } := ⟨rfl, rfl, rfl, rfl⟩

#print axioms dofilter_step_eq_spec
#print axioms dofilter_plane_eq_spec
#print axioms dofilter_eq_spec
#print axioms paramRel_of_edgeParams

end Webp.Props.C04Refine7
