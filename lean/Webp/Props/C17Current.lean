import Webp.Proofs.ModelCurrent
/-
  C17 — model-currency obligation, re-established from /repo on every run.

  `Webp.Impl.Transcribed.expected_C17` lists the Go functions that the models and claims of C17
  transcribe or speak about (groups `config`, `parser`, `demux`, plus `extra_C17`), each with the
  fingerprint of its source text at the time the model was validated.  `Generated.Fingerprints`
  holds the fingerprints of the text in /repo NOW.  The theorem says that no entry is stale
  (`Webp.Impl.Transcribed.stale_eq_nil_iff`: every current fingerprint equals the recorded one).

  This is a SYNTACTIC staleness guard, not a statement about behaviour: when it fails, the claim
  "this model transcribes that function" is no longer established for the functions named in the
  error message; the model has to be re-validated against the new text and the expectation
  updated (tools/update_fingerprints.py).
-/
namespace Webp.Props.C17Current
open Webp.Impl.Transcribed

theorem model_current_C17 : stale_C17 = [] := by model_current

/-- non-vacuity: the list of pinned functions is not empty -/
example : expected_C17 ≠ [] := by decide

end Webp.Props.C17Current
