import Webp.Proofs.C01FullCheck
import Webp.Props.C01Entropy
import Webp.Props.C19
/-
  Property C01 — lossless encode/decode round trip — THE FULL STATEMENT.

  "For every image and every accepted lossless option set, decoding the bytes written by Encode yields
   an image of the same width and height whose every pixel (non-premultiplied 8-bit RGBA) equals the
   source pixel; pixels with alpha 0 may come back as transparent black; with Exact they are unchanged."

  Props/C01.lean: transform layer and value codes.  Props/C01Entropy.lean: entropy layer and the
  capstone for single-histogram streams (`lossless_roundtrip_partial`).  This file closes what that
  capstone left open:

    Stage 1  `stream_roundtrip_meta`     streams whose main image uses a META PREFIX IMAGE (several
                                         prefix-code groups selected by position) — model
                                         `Webp.Impl.VP8LEntropy.encodeStreamMeta` (encode.go:501-679)
    Stage 2  `lossless_roundtrip`        ANY valid plan (with/without meta image, colour cache 0..11,
                                         any list of distinct transforms): the specification decoder
                                         returns the source ARGB image
    Stage 3  `encode_decode_roundtrip`   the public API: import (every Go image type → ARGB, C19) →
                                         `cleanupTransparentAreaLossless` unless Exact → bit stream →
                                         RIFF container (streaming / buffered with metadata, C02) →
                                         `container.NewParser` → Decode dispatch (C16) → lossless
                                         decoder → `argbToNRGBA`
    Stage 4  `certificate_implies_roundtrip`   the per-input certificate evaluated by suite `c01full`
                                         (`Webp.Impl.PlanCheck.validPlanFor` + file equality) is exactly
                                         the hypothesis of Stage 3.

  WHAT STAYS PER INPUT (and only this): that the real encoder's SEARCH — backward references, colour
  cache size, histogram clustering, `CreateHuffmanTree`, transform parameter choice — emits a plan that
  is valid for its input (`ValidPlanFor`).  The theorems quantify over every such plan; suite `c01full`
  reconstructs the plan from the bytes of real `webp.Encode` outputs and checks `ValidPlanFor`
  decidably (and that the model emitter reproduces the file byte for byte), suites `vp8lentropy` /
  `roundtrip` check the same from the other side.  Second residue: the lossless decoder inside
  `decodeAPI` is the SPECIFICATION decoder; that Go's `DecodeVP8L` returns the same pixels is
  property C03.

  A HYPOTHESIS FORCED BY THE PROOF, VIOLATED BY THE REAL ENCODER (finding `c01full-model:emitter`,
  DESIGN "D15"): `MainValid.entropy` demands `groups.length = max(symbols) + 1` — the decoder reads
  `max + 1` groups (decode_image.go:198-205, spec `readMetaPrefix`), the encoder writes
  `histoSet.Size()` groups (encode.go:593, 666).  `GetHistoImageSymbols` at Quality ≥ 90 re-assigns
  every tile to its cheapest cluster (`histogramRemap`) and never removes a cluster that lost all its
  tiles (libwebp: `RemoveEmptyHistograms` + `OptimizeHistogramSymbols`).  When the cluster with the
  highest index ends up unused, one group more is written than read and the surplus code bits are
  decoded as pixels: `webp.Encode` and `webp.Decode` both succeed, every pixel is wrong (96×96 noise,
  gradient alpha, Quality 100, Method 5/6: 9216 of 9216 pixels; suite `c01full` thorough seed 7 case
  5379; patch in work/patches/c01_d15_unused_trailing_histogram.diff).

  Axioms: `propext`, `Classical.choice`, `Quot.sound` + the `bv_decide` certificates of word-level
  lemmas (as in Props/C01Entropy.lean, plus `nrgbaByte_pack`, `alpha_zero_iff` in
  Webp.Proofs.C01FullAPI: byte extraction from a packed ARGB word).
-/
namespace Webp.Props.C01Full
open Webp.Go
open Webp.Spec.VP8L
open Webp.Impl.VP8LEntropy
open Webp.Impl.LosslessAPI
open Webp.Proofs.C01FullStream (MainValid StreamValidMeta planPixelsMain planTransformsMeta)
open Webp.Proofs.C01FullAPI (PlanEncodes ValidPlanFor planXfs streamList normPx)
open Webp.Props.C02 (SimpleSizeOK SizesOK)

/-! ## Stage 1: meta prefix image -/

/-- **stream_roundtrip_meta**: for every valid stream plan — one histogram or several with an
    entropy (meta prefix) image, the groups' codes written in index order, every token written with
    the trees of the histogram at its START position `symbols[(y >> bits) * ⌈w/2^bits⌉ + (x >> bits)]`
    (encode.go:968-982) — the SPECIFICATION decoder (`readMetaPrefix`: `max + 1` groups,
    `groupIndexAt`: the same index from `out.size`) parses the emitted bytes into the plan's
    transforms and pixels and returns them with the inverse transforms applied. -/
theorem stream_roundtrip_meta (sp : StreamPlanMeta) (hv : StreamValidMeta sp) :
    decode (streamBytesMeta sp) = .ok
      { width := sp.width, height := sp.height, hasAlpha := sp.hasAlpha,
        pixels := applyInverseTransforms sp.height (planTransformsMeta sp)
          (planPixelsMain sp.cacheBits sp.main) } :=
  Webp.Proofs.C01FullStream.stream_roundtrip_meta_decode sp hv

/-- the single-histogram emitter of Props/C01Entropy.lean is the special case `groups = [g]` -/
theorem single_histogram_is_special_case (sp : StreamPlan) :
    streamBytesMeta sp.toMeta = Webp.Proofs.VP8LEntropyStream.streamBytes sp :=
  Webp.Proofs.C01FullStream.toMeta_bytes sp

/-! ## Stage 2: any valid plan -/

/-- **lossless_roundtrip** (T3 of DESIGN.md §4.1, unconditional in the plan shape): if the plan is
    valid and stands for the image `argb` (`PlanEncodes`: its main tokens produce the forward
    transforms — with the parameters its transform data decodes to — of `argb`, and each transform is
    invertible on what it is applied to), the specification decoder returns `argb`, pixel for pixel. -/
theorem lossless_roundtrip (sp : StreamPlanMeta) (hv : StreamValidMeta sp) (argb : Array UInt32)
    (he : PlanEncodes sp argb) :
    decode (streamBytesMeta sp) = .ok
      { width := sp.width, height := sp.height, hasAlpha := sp.hasAlpha, pixels := argb } :=
  Webp.Proofs.C01FullAPI.lossless_roundtrip sp hv argb he

/-! ## Stage 3: the API -/

/-- the container's size arithmetic does not overflow (`writeRIFFExtended` checks it itself; the
    streaming path does not — unreachable for a ≤ 16383² picture, see Props/C02.lean) and the
    metadata blobs passed `validateConfig` -/
def ContainerSizeOK (m : Webp.Impl.Writer.Meta) (bs : Bytes) : Prop :=
  if m.any then SizesOK bs [] m.icc m.exif m.xmp else SimpleSizeOK bs

/-- **encode_decode_roundtrip** (C01 at the API).  `f x y` is the non-premultiplied colour the source
    shows at `(x, y)` (`color.NRGBAModel.Convert(img.At(…))`; every import path of `Encode` yields
    `importARGB f w h`: property C19, corollaries below), `1 ≤ w, h ≤ 16383` is `Encode`'s own check.
    For EVERY plan `sp` that is valid for the imported, normalised pixels
    (`ValidPlanFor w h (norm exact (importARGB f w h)) sp`) — the encoder's search is universally
    quantified; that the real encoder emits such a plan for its input is the per-input obligation
    checked by suites `c01full` / `vp8lentropy` / `roundtrip` — the file `Encode` writes
    (streaming path without metadata, buffered `writeRIFFExtended` with metadata) is accepted by
    `Decode`, which returns an NRGBA image of the same size whose every pixel is the source pixel,
    or transparent black where the source has alpha 0 and `Exact` is off. -/
theorem encode_decode_roundtrip (f : Nat → Nat → Webp.Impl.Import.RGBA8) (w h : Nat) (exact : Bool)
    (m : Webp.Impl.Writer.Meta) (sp : StreamPlanMeta)
    (hw : 1 ≤ w ∧ w ≤ 16383) (hh : 1 ≤ h ∧ h ≤ 16383)
    (hv : ValidPlanFor w h (norm exact (importARGB f w h)) sp)
    (hsz : ContainerSizeOK m (streamList sp)) :
    ∃ file out, encodeAPIWith sp w h m = .ok file ∧ decodeAPI file = .ok out ∧
      out = argbToNRGBA (norm exact (importARGB f w h)) w h ∧ out.w = w ∧ out.h = h ∧
      ∀ x y, x < w → y < h →
        out.at x y = if !exact ∧ (f x y).a = 0 then Webp.Impl.Import.RGBA8.zero else f x y := by
  have hpix : ∀ x y, x < w → y < h →
      (argbToNRGBA (norm exact (importARGB f w h)) w h).at x y =
        if !exact ∧ (f x y).a = 0 then Webp.Impl.Import.RGBA8.zero else f x y := by
    intro x y hx hy
    rw [Webp.Proofs.C01FullAPI.norm_import, Webp.Proofs.C01FullAPI.nrgba_at_import _ w h x y hx hy]
    rfl
  unfold ContainerSizeOK at hsz
  by_cases hm : m.any = true
  · rw [if_pos hm] at hsz
    obtain ⟨file, h1, h2⟩ := Webp.Proofs.C01FullAPI.api_roundtrip_meta sp w h _ hv m hm hw.1 hw.2 hh.1 hh.2 hsz
    exact ⟨file, _, h1, h2, rfl, rfl, rfl, hpix⟩
  · rw [if_neg hm] at hsz
    obtain ⟨file, h1, h2⟩ := Webp.Proofs.C01FullAPI.api_roundtrip_simple sp w h _ hv m (by simpa using hm) hsz
    exact ⟨file, _, h1, h2, rfl, rfl, rfl, hpix⟩

/-- with `Exact` every pixel comes back unchanged -/
theorem encode_decode_roundtrip_exact (f : Nat → Nat → Webp.Impl.Import.RGBA8) (w h : Nat)
    (m : Webp.Impl.Writer.Meta) (sp : StreamPlanMeta)
    (hw : 1 ≤ w ∧ w ≤ 16383) (hh : 1 ≤ h ∧ h ≤ 16383)
    (hv : ValidPlanFor w h (norm true (importARGB f w h)) sp)
    (hsz : ContainerSizeOK m (streamList sp)) :
    ∃ file out, encodeAPIWith sp w h m = .ok file ∧ decodeAPI file = .ok out ∧ out.w = w ∧ out.h = h ∧
      ∀ x y, x < w → y < h → out.at x y = f x y := by
  obtain ⟨file, out, h1, h2, _, h4, h5, h6⟩ := encode_decode_roundtrip f w h true m sp hw hh hv hsz
  exact ⟨file, out, h1, h2, h4, h5, fun x y hx hy => by simpa using h6 x y hx hy⟩

/-- the metadata case spelled out (buffered path: `writeRIFF` → `writeRIFFExtended`), and the
    metadata-free case as the STREAMING path, which `streaming_eq_buffered` (C02) identifies with the
    buffered `writeRIFFSimple` -/
theorem encode_container_paths (sp : StreamPlanMeta) (w h : Nat) (m : Webp.Impl.Writer.Meta) :
    (m.any = false → encodeAPIWith sp w h m = .ok (Webp.Impl.Writer.streamingWrite (streamList sp))) ∧
    (m.any = true → encodeAPIWith sp w h m =
      Webp.Impl.Writer.writeRIFFExtended Webp.Impl.Parser.ccVP8L (streamList sp) [] w h m.icc m.exif m.xmp) := by
  constructor
  · intro hm
    unfold encodeAPIWith Webp.Impl.Writer.encodeContainer
    simp [hm, streamList]
  · intro hm
    unfold encodeAPIWith Webp.Impl.Writer.encodeContainer Webp.Impl.Writer.writeRIFF
    simp [hm, Webp.Impl.Writer.hasMetadata, Webp.Impl.Writer.metaOf, streamList]

/-! ### the import, per Go image type (C19) -/

/-- an `*image.NRGBA` (any origin, stride, parent buffer) through the fast path of
    `encodeLosslessToWriter` / `encodeLossless`: the buffer handed to the codec is `importARGB img.rel`,
    whatever stale data the pooled buffer held -/
theorem import_nrgba (img : Webp.Impl.Import.Img) (v : Webp.Impl.Import.Valid img) (buf : Array UInt32)
    (hb : buf.size = img.w * img.h) :
    Webp.Impl.Import.encodeLosslessToWriterNRGBA img buf = .ok (importARGB img.rel img.w img.h) ∧
    Webp.Impl.Import.encodeLosslessNRGBA img buf = .ok (importARGB img.rel img.w img.h) :=
  ⟨(Webp.Props.C19.fast_eq_generic_lossless_streaming img v buf buf hb hb).2,
   (Webp.Props.C19.fast_eq_generic_lossless_buffered img v buf buf hb hb).2⟩

/-- an opaque `*image.RGBA` through the RGBA fast path (a translucent one is converted with
    `rgbaToNRGBA` first, encode.go:450-452) and any other type through the generic
    `color.NRGBAModel.Convert(img.At(…))` loop -/
theorem import_rgba_and_generic (img : Webp.Impl.Import.Img) (v : Webp.Impl.Import.Valid img)
    (buf₁ buf₂ : Array UInt32) (h₁ : buf₁.size = img.w * img.h) (h₂ : buf₂.size = img.w * img.h) :
    Webp.Impl.Import.encodeLosslessRGBA img buf₁ =
      .ok (importARGB (fun x y => Webp.Impl.Import.rgbaFastLossless (img.rel x y)) img.w img.h) ∧
    Webp.Impl.Import.losslessGeneric img.atRGBA img.bounds buf₂ =
      .ok (importARGB (fun x y => Webp.Impl.Import.nrgbaModelRGBA (img.rel x y)) img.w img.h) :=
  Webp.Props.C19.rgba_lossless_paths img v buf₁ buf₂ h₁ h₂

/-! ## Stage 4: the per-input certificate -/

/-- soundness of the executable checker the driver evaluates on the plan it reconstructs from the bytes -/
theorem validPlanFor_sound (w h : Nat) (argb : Array UInt32) (sp : StreamPlanMeta)
    (hc : Webp.Impl.PlanCheck.validPlanFor w h argb sp = true) : ValidPlanFor w h argb sp :=
  Webp.Proofs.C01FullCheck.validPlanFor_sound w h argb sp hc

theorem containerSizeOK_sound (m : Webp.Impl.Writer.Meta) (bs : Bytes)
    (h : Webp.Impl.PlanCheck.containerSizeOK m bs = true) : ContainerSizeOK m bs := by
  unfold Webp.Impl.PlanCheck.containerSizeOK at h
  unfold ContainerSizeOK
  by_cases hm : m.any = true
  · rw [if_pos hm] at h ⊢
    simp only [Bool.and_eq_true, decide_eq_true_eq] at h
    exact ⟨h.1.1.1, h.1.1.2, h.1.2, h.2⟩
  · rw [if_neg hm] at h ⊢
    unfold SimpleSizeOK
    exact of_decide_eq_true h

/-- **certificate_implies_roundtrip**: what suite `c01full` establishes for one real `Encode` output
    `file` — some plan (reconstructed from the bytes; how is irrelevant) passes the checker for the
    normalised source pixels, the model emitter + container writer fed with it give exactly `file`, the
    dimensions and the container sizes are in range (all four are Bool computations of the driver) —
    implies, by `encode_decode_roundtrip`, that `Decode file` is the source picture.  No decoder is run
    on `file`. -/
theorem certificate_implies_roundtrip (f : Nat → Nat → Webp.Impl.Import.RGBA8) (w h : Nat) (exact : Bool)
    (m : Webp.Impl.Writer.Meta) (sp : StreamPlanMeta) (file : Bytes)
    (hdims : Webp.Impl.PlanCheck.dimsOK w h = true)
    (hcheck : Webp.Impl.PlanCheck.validPlanFor w h (norm exact (importARGB f w h)) sp = true)
    (hfile : encodeAPIWith sp w h m = .ok file)
    (hsize : Webp.Impl.PlanCheck.containerSizeOK m (streamList sp) = true) :
    ∃ out, decodeAPI file = .ok out ∧ out.w = w ∧ out.h = h ∧
      ∀ x y, x < w → y < h →
        out.at x y = if !exact ∧ (f x y).a = 0 then Webp.Impl.Import.RGBA8.zero else f x y := by
  have hsz := containerSizeOK_sound m _ hsize
  unfold Webp.Impl.PlanCheck.dimsOK at hdims
  simp only [Bool.and_eq_true, decide_eq_true_eq] at hdims
  have hw : 1 ≤ w ∧ w ≤ 16383 := ⟨hdims.1.1.1, hdims.1.1.2⟩
  have hh : 1 ≤ h ∧ h ≤ 16383 := ⟨hdims.1.2, hdims.2⟩
  obtain ⟨file', out, h1, h2, _, h4, h5, h6⟩ :=
    encode_decode_roundtrip f w h exact m sp hw hh (validPlanFor_sound _ _ _ _ hcheck) hsz
  rw [hfile] at h1
  injection h1 with h1
  subst h1
  exact ⟨out, h2, h4, h5, h6⟩

/-! ## non-vacuity: a stream with a meta prefix image and two prefix-code groups -/
namespace Example
open Webp.Proofs.VP8LEntropyStream (VecValid ImageValid)
open Webp.Proofs.VP8LEntropyStream.Examples (one one_valid zero_valid)
open Webp.Proofs.VP8LEntropyCanon (offs ks)
open Webp.Proofs.C01FullMeta (GroupValid)

def pxA : UInt32 := 0xff102030
def pxB : UInt32 := 0x80405060

def groupA : GroupPlan :=
  { lens5 := [one 280 0x20, one 256 0x10, one 256 0x30, one 256 0xff, Array.replicate 40 0], cl5 := [#[], #[], #[], #[], #[]] }
def groupB : GroupPlan :=
  { lens5 := [one 280 0x50, one 256 0x40, one 256 0x60, one 256 0x80, Array.replicate 40 0], cl5 := [#[], #[], #[], #[], #[]] }

/-- symbols 0 and 1, one bit each: the green code of the histogram image -/
def two01 : Array Nat := (one 280 0).setIfInBounds 1 1

/-- the 2×1 histogram image `symbol << 8`: tiles of 4×4 pixels, left tile → group 0, right tile → group 1 -/
def entropyPlan : ImagePlan :=
  { width := 2, height := 1, refs := [.literal 0x00000000, .literal 0x00000100],
    lens5 := [two01, one 256 0, one 256 0, one 256 0, Array.replicate 40 0],
    cl5 := [#[], #[], #[], #[], #[]] }

/-- an 8×1 picture: four pixels `pxA` (group 0: every code a single symbol), four pixels `pxB` (group 1) -/
def plan : StreamPlanMeta :=
  { width := 8, height := 1, hasAlpha := true, transforms := [], cacheBits := 0,
    main := { width := 8, height := 1,
              refs := [.literal pxA, .literal pxA, .literal pxA, .literal pxA, .literal pxB, .literal pxB,
                       .literal pxB, .literal pxB],
              groups := [groupA, groupB], histoBits := 2, symbols := #[0, 1], entropy := entropyPlan } }

def argb : Array UInt32 := #[pxA, pxA, pxA, pxA, pxB, pxB, pxB, pxB]

theorem two01_valid : VecValid 280 two01 #[] := by
  have h15 : ∀ l ∈ two01, l ≤ 15 := by
    have : ∀ l ∈ two01.toList, l ≤ 15 := by decide +kernel
    exact fun l hl => this l (Array.mem_toList_iff.mpr hl)
  have hks : ks two01 16 = 2 ^ 15 := by decide +kernel
  have hoffs : offs two01 16 = 2 := by decide +kernel
  refine ⟨by decide +kernel, h15,
    Or.inr (Webp.Proofs.VP8LEntropyTokens.buildCode_of _ h15 (by omega) (Or.inr hks)), fun h => absurd ?_ h⟩
  right
  exact ⟨by decide +kernel, by decide +kernel⟩

theorem group_valid (s0 s1 s2 s3 : Nat) (h0 : s0 < 256) (h1 : s1 < 256) (h2 : s2 < 256) (h3 : s3 < 256) :
    GroupValid 0 { lens5 := [one 280 s0, one 256 s1, one 256 s2, one 256 s3, Array.replicate 40 0],
                   cl5 := [#[], #[], #[], #[], #[]] } := by
  refine ⟨rfl, rfl, fun i hi => ?_⟩
  have : i = 0 ∨ i = 1 ∨ i = 2 ∨ i = 3 ∨ i = 4 := by omega
  have hg : greenAlphabetSize 0 = 280 := by decide
  rcases this with rfl | rfl | rfl | rfl | rfl <;>
    simp only [List.getD_cons_zero, List.getD_cons_succ, Webp.Proofs.VP8LEntropyStream.alphabetSize, hg,
      numDistanceCodes]
  · exact one_valid 280 s0 (by omega) h0 _
  · exact one_valid 256 s1 h1 h1 _
  · exact one_valid 256 s2 h2 h2 _
  · exact one_valid 256 s3 h3 h3 _
  · exact zero_valid 40 _

theorem entropy_valid : ImageValid 0 entropyPlan where
  width_pos := by decide
  cache := Or.inl rfl
  lens5_len := rfl
  cl5_len := rfl
  vecs := by
    intro i hi
    have : i = 0 ∨ i = 1 ∨ i = 2 ∨ i = 3 ∨ i = 4 := by omega
    have hg : greenAlphabetSize 0 = 280 := by decide
    rcases this with rfl | rfl | rfl | rfl | rfl <;>
      simp only [entropyPlan, List.getD_cons_zero, List.getD_cons_succ,
        Webp.Proofs.VP8LEntropyStream.alphabetSize, hg, numDistanceCodes]
    · exact two01_valid
    · exact one_valid 256 0 (by omega) (by omega) _
    · exact one_valid 256 0 (by omega) (by omega) _
    · exact one_valid 256 0 (by omega) (by omega) _
    · exact zero_valid 40 _
  tokens := by decide +kernel
  exec := by decide +kernel

theorem main_valid : MainValid 0 plan.main where
  width_pos := by decide
  cache := Or.inl rfl
  groups_pos := by decide
  groups := by
    intro g hg
    simp only [plan, List.mem_cons, List.not_mem_nil, or_false] at hg
    rcases hg with rfl | rfl
    · exact group_valid 0x20 0x10 0x30 0xff (by omega) (by omega) (by omega) (by omega)
    · exact group_valid 0x50 0x40 0x60 0x80 (by omega) (by omega) (by omega) (by omega)
  entropy := fun _ => ⟨by decide, by decide, by decide, by decide, entropy_valid, by decide +kernel, by decide +kernel⟩
  tokens := by
    show Webp.Proofs.C01FullMeta.TokensValidFrom plan.main 0 _
    simp only [Webp.Proofs.VP8LEntropyStream.planTokens, MainPlan.asImage, plan, List.map_cons, List.map_nil,
      Webp.Proofs.C01FullMeta.TokensValidFrom]
    decide +kernel
  exec := by decide +kernel

theorem plan_valid : ValidPlanFor 8 1 argb plan where
  width := rfl
  height := rfl
  valid :=
    { width := by decide, height := by decide, kinds := List.Pairwise.nil, xfs := trivial,
      main_width := rfl, main_height := rfl, main := main_valid }
  encodes :=
    { size := by decide
      main := by
        show planPixelsMain 0 plan.main = argb
        decide +kernel
      chain := trivial }

/-- the hypotheses of Stages 1–3 hold for a plan with a meta prefix image and two groups -/
example : StreamValidMeta plan := plan_valid.valid
example : plan.main.groups.length = 2 := rfl

example : decode (streamBytesMeta plan) = .ok { width := 8, height := 1, hasAlpha := true, pixels := argb } :=
  lossless_roundtrip plan plan_valid.valid argb plan_valid.encodes

end Example

end Webp.Props.C01Full
