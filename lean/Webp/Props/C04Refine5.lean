import Webp.Proofs.C04RefineModes4
/-
  Property C04, refinement theorems Impl ↔ Spec, part 5 — stage B (macroblock-level syntax), first partition:

  * `readMBHeader_staged`: `Webp.Spec.VP8.readMBHeader` (§19.3 `macroblock_header()`) with its `for` loops as folds
    (`specModes`, `bStep` / `bRow` / `bAll`, `implied`) — machine-checked restatement;
  * `bmodes16_eq_spec`: the sixteen sub-block modes of a `B_PRED` macroblock.  Go `parseIntraModeRow`'s inner
    loops (`T.decI4Rows`: contexts as functions `top`, `left` in Go numbering, `intraT` / `intraL`) and the
    specification's loops (`bAll`: arrays `above[4·mbX + bx]`, `left[by]`, `bmodes` in RFC numbering, contextual
    probabilities `kf_bmode_probs[above][left]`) read the same sixteen modes and carry the same contexts on,
    for every probability function that holds the RFC table at the renumbered contexts (`BModeOK`).

  NOT proved here (statement kept): `mb_modes_eq_spec` — the assembly with the segment id
  (`segment_id_eq_spec`), the skip flag, the luma mode (`ymode_eq_spec`; Go branches on `!GetBit(145)` before the
  16×16 tree), the implied contexts of a non-`B_PRED` macroblock (`implied` = Go's `top = left = ymode`,
  `impliedBMode (rfcY g) = rfcB g` for `g < 4`) and the chroma mode (`uvmode_eq_spec`):
    ∃ g gc', runR prob (T.parseModes h.seg.updateMap h.skipEnabled prev gc) r = some ((g, gc'), r') ∧
      ModeRel g (readMBHeader h mbX sc d).1 ∧ CRel mbX sc.above gc' (readMBHeader h mbX sc d).2.1 ∧
      Sim F r' (readMBHeader h mbX sc d).2.2.
-/
namespace Webp.Props.C04Refine5
open Webp.Go (Bytes)
open Webp.Impl.BoolCoder
open Webp.Spec.VP8
open Webp.Impl.VP8SyntaxBytes (P runR rd)
open Webp.Impl.VP8Recon (Slot)
open Webp.Proofs.C04RefineBool Webp.Proofs.C04RefineOps Webp.Proofs.C04RefineModes

/-- **`readMBHeader` with its loops as folds** -/
theorem readMBHeader_staged (h : FrameHdr) (mbX : Nat) (ctx : ModeCtx) (d : BoolDec) :
    readMBHeader h mbX ctx d = specModes h mbX ctx d :=
  readMBHeader_eq h mbX ctx d

theorem all16 (b : Fin 16) : ∃ y ∈ List.finRange 4, ∃ x : Fin 4, b.val = 4 * y.val + x.val :=
  ⟨⟨b.val / 4, by omega⟩, List.mem_finRange _, ⟨b.val % 4, by omega⟩, by simp only; omega⟩

/-- **`bmodes16_eq_spec`, on the reference decoder.**  From related contexts (`BRel` with no sub-block decoded),
    the Go loops return sixteen modes whose renumbering `rfcB` is what the specification stored in `bmodes`,
    new contexts related to the specification's `above` / `left` (other macroblock columns of `above`
    untouched), and the decoder state the specification's loops end in. -/
theorem bmodes16_eq_spec_on_spec_decoder (prob : Slot → UInt8) (hb : BModeOK prob) (mbX : Nat) (A0 : Array Nat)
    (m : Webp.Impl.VP8Recon.ModeCtx) (modes : Fin 16 → Nat) (s : BSt)
    (h : BRel mbX A0 m.top m.left modes (fun _ => False) s) :
    ∃ m' modes',
      runD prob (Webp.Impl.VP8SyntaxBytes.T.decI4Rows (List.finRange 4) m modes) s.1 = some ((m', modes'), (bAll mbX s).1) ∧
      BRel mbX A0 m'.top m'.left modes' (fun _ => True) (bAll mbX s) := by
  obtain ⟨m', modes', hrun, h2⟩ := rows_sim prob hb mbX A0 (List.finRange 4) m modes (fun _ => False) s h
  rw [← bAll_fin] at hrun h2
  exact ⟨m', modes', hrun, brel_congr h2 (fun _ => rfl) (fun b _ => Or.inr (all16 b))⟩

/-- **`bmodes16_eq_spec`, on the Go reader**: any first partition, reader in step with the reference decoder. -/
theorem bmodes16_eq_spec (prob : Slot → UInt8) (hb : BModeOK prob) (mbX : Nat) (A0 : Array Nat)
    (m : Webp.Impl.VP8Recon.ModeCtx) (modes : Fin 16 → Nat) (s : BSt)
    (h : BRel mbX A0 m.top m.left modes (fun _ => False) s)
    {F : Bytes} {r : BoolReader} (hs : Sim F r s.1)
    (hfree : TreeFree prob (Webp.Impl.VP8SyntaxBytes.T.decI4Rows (List.finRange 4) m modes) r) :
    ∃ m' modes' r',
      runR prob (Webp.Impl.VP8SyntaxBytes.T.decI4Rows (List.finRange 4) m modes) r = some ((m', modes'), r') ∧
      BRel mbX A0 m'.top m'.left modes' (fun _ => True) (bAll mbX s) ∧ Sim F r' (bAll mbX s).1 := by
  obtain ⟨m', modes', hrun, h2⟩ := bmodes16_eq_spec_on_spec_decoder prob hb mbX A0 m modes s h
  have ht := tree_transfer prob _ hs hfree
  rw [hrun] at ht
  cases hrr : runR prob (Webp.Impl.VP8SyntaxBytes.T.decI4Rows (List.finRange 4) m modes) r with
  | none => rw [hrr] at ht; exact absurd ht (by simp [TRel])
  | some x =>
    obtain ⟨a, r'⟩ := x
    rw [hrr] at ht
    obtain ⟨ha, hs'⟩ := ht
    exact ⟨m', modes', r', by rw [ha], h2, hs'⟩

/-- the relation is satisfiable: first macroblock of a frame, all contexts `B_DC_PRED` -/
example : BRel 0 (Array.replicate 4 0) (fun _ => 0) (fun _ => 0) (fun _ => 0) (fun _ => False)
    (BoolDec.init ByteArray.empty 0 0, Array.replicate 4 0, Array.replicate 4 0, Array.replicate 16 0) :=
  ⟨fun j => by have : j = 0 ∨ j = 1 ∨ j = 2 ∨ j = 3 := by omega
               rcases this with rfl | rfl | rfl | rfl <;> rfl,
   fun j => by have : j = 0 ∨ j = 1 ∨ j = 2 ∨ j = 3 := by omega
               rcases this with rfl | rfl | rfl | rfl <;> rfl,
   fun _ h => h.elim, fun _ _ => rfl, rfl, by decide, by decide, by decide, fun _ => by decide, fun _ => by decide⟩

#print axioms readMBHeader_staged
#print axioms bmodes16_eq_spec_on_spec_decoder
#print axioms bmodes16_eq_spec

end Webp.Props.C04Refine5
