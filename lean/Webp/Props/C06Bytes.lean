import Webp.Proofs.VP8SyntaxBytes
import Webp.Props.C06
/-
  C06 at the level of BYTES: the syntax theorems of `Webp.Props.C06` (`token_symbol_roundtrip`,
  `mode_trees_roundtrip`, `frame_syntax_roundtrip`, `frame_recon_agree`), which are stated over an
  abstract decision stream (an exact channel), lifted through the boolean coder
  (`Webp.Props.C06Bool`): the encoder's decisions are written with the `BoolWriter` model, the
  decoder's parse functions draw every decision from the `BoolReader` model.

  * `Webp.Impl.VP8SyntaxBytes`: `P` (decision trees — the shape of every parse function of the
    decoder), `runS` / `runR`, the parse functions as trees `T.*`, `emitPartitionBytes`,
    `parseMBsBytes`, `emitFrameBytes`, `decodeFrameUnfilteredBytes`.
  * Probabilities: `prob : Slot → UInt8` is universally quantified — the theorems hold for WHATEVER
    bytes the frame's tables hold for the coefficient / segment-map / skip / sub-block-mode slots
    (default or adapted), including 0; both sides resolve a slot through the same function.  That the
    header transports the tables (`refreshProbas`/`writeProbas` ↔ `parseProba`, segment-map
    probabilities, `skipProba`) is NOT modelled; neither are the header fields themselves: partition
    0 starts with arbitrary header calls `hdr : List Op` (any valid mix of
    `PutBit`/`PutBitUniform`/`PutBits`/`PutSignedBits`), which the reader calls read back before the
    macroblock modes (`partition_readers`).
  * Partitions: one `BoolWriter`/`BoolReader` pair per partition (partition 0 and `numParts` token
    partitions selected by `mbY & (numParts-1)`), exactly as `parseMBs` / `emitMBs` split them.
-/
namespace Webp.Props.C06Bytes
open Webp.Go (Bytes)
open Webp.Impl.VP8Recon Webp.Impl.VP8SyntaxBytes Webp.Impl.BoolCoder
open Webp.Proofs.VP8SyntaxTrees Webp.Proofs.VP8SyntaxTransfer Webp.Proofs.VP8SyntaxBytesP
open Webp.Proofs.VP8ReconSyntax Webp.Proofs.VP8ReconModes Webp.Proofs.VP8ReconAgree Webp.Proofs.VP8ReconFrame

/-- **The parse functions of the decoder are decision trees**: on the abstract decision stream the
    trees `T.parseModes` (`parseIntraModeRow`) and `T.parseTokens` (`decodeMB`: `parseResiduals`,
    `getCoeffsInline`) compute exactly `VP8Recon.parseModes` / `VP8Recon.parseTokens`. -/
theorem parsers_are_trees (K : Kernels) (qm : QuantMatrix) (isI4 skipFlag updateMap useSkip : Bool)
    (stale : Nat → Coeffs) (n : NzCtx) (prev : Fin 16 → Nat) (m : ModeCtx) (s : Stream) :
    (runS (T.parseModes updateMap useSkip prev m) s).map fl3 = parseModes updateMap useSkip prev m s ∧
    (runS (T.parseTokens K qm isI4 skipFlag useSkip stale n) s).map fl3 =
      parseTokens K qm isI4 skipFlag useSkip stale n s :=
  ⟨parseModes_eq updateMap useSkip prev m s, parseTokens_eq K qm isI4 skipFlag useSkip stale n s⟩

/-- **Transfer lemma**: a decision tree that succeeds on a decision stream consumed a prefix `pre` of
    it; on every boolean reader on which `GetBit` with `pre`'s probabilities returns `pre`'s bits it
    returns the same result and leaves the reader where `pre` ends. -/
theorem syntax_transfer (prob : Slot → UInt8) {α : Type} (x : P α) (full rest : Stream) (a : α)
    (h : runS x full = some (a, rest)) :
    ∃ pre, full = pre ++ rest ∧ ∀ r, Repro prob r pre → runR prob x r = some (a, after prob r pre) :=
  transfer prob x full rest a h

/-- **The readers over written partitions**: after the reader calls for the header operations (which
    return the header values), `GetBit` with the stream's probabilities returns the stream's bits,
    and `eof` is still false after the last decision. -/
theorem partition_readers (prob : Slot → UInt8) (hdr : List Op) (hh : ∀ op ∈ hdr, op.Valid) (s : Stream) :
    (readOpsSt (newReader (emitPartitionBytes prob hdr s)) hdr).1 = hdr ∧
    Repro prob (readOpsSt (newReader (emitPartitionBytes prob hdr s)) hdr).2 s ∧
    (after prob (readOpsSt (newReader (emitPartitionBytes prob hdr s)) hdr).2 s).eof = false :=
  partition_repro prob hdr hh s

/-- **`mode_trees_roundtrip` on bytes** (one macroblock, anywhere in partition 0): if the reader
    reproduces the macroblock's mode decisions, `parseIntraModeRow` on the reader returns the modes. -/
theorem mode_trees_roundtrip_bytes (prob : Slot → UInt8) (d : MBDesc) (wf : d.WF) (updateMap useSkip : Bool)
    (prev : Fin 16 → Nat) (m : ModeCtx) (r : BoolReader)
    (hr : Repro prob r (emitModes d updateMap useSkip m).1) :
    runR prob (T.parseModes updateMap useSkip prev m) r =
      some ((modesOf d updateMap useSkip prev, (emitModes d updateMap useSkip m).2),
            after prob r (emitModes d updateMap useSkip m).1) := by
  have h := Webp.Props.C06.mode_trees_roundtrip d wf updateMap useSkip prev m []
  rw [← parseModes_eq] at h
  obtain ⟨pre, hpre, hrun⟩ := transfer prob _ _ _ _ (map_fl3_some h)
  rw [List.append_nil, List.append_nil] at hpre
  rw [← hpre] at hrun
  exact hrun r hr

/-- **`token_symbol_roundtrip` on bytes** (one macroblock, anywhere in its token partition). -/
theorem token_symbol_roundtrip_bytes (prob : Slot → UInt8) (K : Kernels) (qm : QuantMatrix) (d : MBDesc)
    (wf : d.WF) (useSkip : Bool) (hs : d.skip = true → useSkip = true) (stale : Nat → Coeffs) (n : NzCtx)
    (hn : n.WF) (r : BoolReader) (hr : Repro prob r (emitTokens d n).1) :
    runR prob (T.parseTokens K qm d.isI4 (if useSkip then d.skip else false) useSkip stale n) r =
      some ((if d.skip then decSkipped stale else decCoeffs K qm d, (emitTokens d n).2),
            after prob r (emitTokens d n).1) := by
  have h := (Webp.Props.C06.token_symbol_roundtrip K qm d wf useSkip hs stale n hn []).1
  rw [← parseTokens_eq] at h
  obtain ⟨pre, hpre, hrun⟩ := transfer prob _ _ _ _ (map_fl3_some h)
  rw [List.append_nil, List.append_nil] at hpre
  rw [← hpre] at hrun
  exact hrun r hr

/-- **`frame_syntax_roundtrip` on bytes** (any partition count, any probability bytes, any header
    calls): parsing the partitions the boolean writer produced for the frame's decisions yields a
    record that is `ParsedOK` for every macroblock, the header calls are read back, and NO partition
    reader has raised `eof` when the last macroblock has been parsed — the decoder's
    premature-end-of-data check cannot fire on the encoder's own output. -/
theorem frame_syntax_roundtrip_bytes (prob : Slot → UInt8) (hdr : List Op) (hh : ∀ op ∈ hdr, op.Valid)
    (K : Kernels) (dqm : Fin 4 → QuantMatrix) (fs : FrameSyntax) (descs : Nat → MBDesc) (n : Nat)
    (hwf : ∀ k, k < n → (descs k).WF) (hskip : ∀ k, k < n → (descs k).skip = true → fs.useSkip = true)
    (col : ColData) (out : Nat → MBModes × ResData) :
    let S := emitMBs descs fs (List.range n) TokCtx.init
    let p0 := emitPartitionBytes prob hdr S.part0
    (readOpsSt (newReader p0) hdr).1 = hdr ∧
    ∃ out' r0' rp',
      parseMBsBytes K dqm fs prob (List.range n) TokCtx.init (readOpsSt (newReader p0) hdr).2
        (fun p => newReader (emitPartitionBytes prob [] (S.parts p))) col out = some (out', r0', rp') ∧
      (∀ k, k < n → ParsedOK K dqm fs (descs k) (out' k)) ∧
      r0'.eof = false ∧ ∀ p, (rp' p).eof = false := by
  intro S p0
  obtain ⟨out', hparse, hok⟩ := Webp.Props.C06.frame_syntax_roundtrip K dqm fs descs n hwf hskip col out
  obtain ⟨r0', rp', hrun, he0, hep⟩ := parseMBsBytes_written prob K dqm fs hdr hh S _ _ col out out' hparse
  exact ⟨(partition_repro prob hdr hh S.part0).1, out', r0', rp', hrun, hok, he0, hep⟩

/-- from the stream-level frame decoder to the byte-level one -/
theorem decode_bytes_of_decode (prob : Slot → UInt8) (hdr : List Op) (hh : ∀ op ∈ hdr, op.Valid) (K : Kernels)
    (f : EncFrame) (numParts : Nat) (updateMap : Bool) (col0 : ColData) (fr : Frame)
    (h : decodeFrameUnfiltered K (emitFrame f numParts updateMap) col0 = some fr) :
    decodeFrameUnfilteredBytes K prob (emitFrameBytes f numParts updateMap prob hdr) col0 = some (fr, false) := by
  unfold decodeFrameUnfiltered at h
  simp only [Option.map_eq_some_iff] at h
  obtain ⟨parsed, hparse, hfr⟩ := h
  obtain ⟨r0', rp', hrun, he0, hep⟩ := parseMBsBytes_written prob K _ _ hdr hh _ _ _ col0 _ parsed hparse
  unfold decodeFrameUnfilteredBytes emitFrameBytes
  simp only
  rw [hrun]
  simp only [Option.map_some, Option.some.injEq, Prod.mk.injEq]
  refine ⟨hfr, ?_⟩
  rw [he0, Bool.false_or, List.any_eq_false]
  intro p _
  simp [hep p]

/-- **`frame_recon_agree` from the written bytes**: the decoder before the loop filter, reading the
    partitions the boolean writer produced (any probability bytes, any header calls, any partition
    count), returns exactly the visible part of the encoder's reconstruction — and no reader raised
    `eof`. -/
theorem frame_recon_agree_bytes (prob : Slot → UInt8) (hdr : List Op) (hh : ∀ op ∈ hdr, op.Valid)
    (K : Kernels) {B Bw : Int} (F : KernelFacts K B Bw) (hBw : 0 ≤ Bw) (f : EncFrame)
    (numParts : Nat) (updateMap : Bool) (srcY srcU srcV : Plane) (col0 : ColData)
    (hw : f.w < 16384) (hhh : f.h < 16384) (hq : f.quant.WF)
    (hd : ∀ k, k < f.mbW * f.mbH → MBOk K f updateMap B Bw k) :
    decodeFrameUnfilteredBytes K prob (emitFrameBytes f numParts updateMap prob hdr) col0 =
      some (encoderReconFrame f (encodeFrameRecon K f srcY srcU srcV).y.plane
        (encodeFrameRecon K f srcY srcU srcV).u.plane (encodeFrameRecon K f srcY srcU srcV).v.plane, false) :=
  decode_bytes_of_decode prob hdr hh K f numParts updateMap col0 _
    (Webp.Props.C06.frame_recon_agree K F hBw f numParts updateMap srcY srcU srcV col0 hw hhh hq hd)

/-- … for the row-parallel encoder path -/
theorem frame_recon_agree_parallel_bytes (prob : Slot → UInt8) (hdr : List Op) (hh : ∀ op ∈ hdr, op.Valid)
    (K : Kernels) {B Bw : Int} (F : KernelFacts K B Bw) (hBw : 0 ≤ Bw) (f : EncFrame)
    (numParts : Nat) (updateMap : Bool) (srcY srcU srcV : Plane) (col0 : ColData)
    (hw0 : 0 < f.w) (hw : f.w < 16384) (hhh : f.h < 16384) (hq : f.quant.WF)
    (hd : ∀ k, k < f.mbW * f.mbH → MBOk K f updateMap B Bw k) :
    decodeFrameUnfilteredBytes K prob (emitFrameBytes f numParts updateMap prob hdr) col0 =
      some (encoderReconFrame f (encodeFrameReconPar K f srcY srcU srcV).yPlane
        (encodeFrameReconPar K f srcY srcU srcV).uPlane (encodeFrameReconPar K f srcY srcU srcV).vPlane, false) :=
  decode_bytes_of_decode prob hdr hh K f numParts updateMap col0 _
    (Webp.Props.C06.frame_recon_agree_parallel K F hBw f numParts updateMap srcY srcU srcV col0 hw0 hw hhh hq hd)

/-- … for the portable kernels: no hypothesis about coefficient ranges -/
theorem frame_recon_agree_portable_bytes (prob : Slot → UInt8) (hdr : List Op) (hh : ∀ op ∈ hdr, op.Valid)
    (pred16 : Nat → Edge16 → Blk16) (pred8 : Nat → Edge8 → Blk8)
    (pred4 : Nat → Edge4 → Blk4) (f : EncFrame) (numParts : Nat) (updateMap : Bool) (srcY srcU srcV : Plane)
    (col0 : ColData) (hw : f.w < 16384) (hhh : f.h < 16384) (hq : f.quant.WF)
    (hwf : ∀ k, k < f.mbW * f.mbH → (f.descs k).WF)
    (hseg : ∀ k, k < f.mbW * f.mbH → (f.descs k).segment < f.quant.numSegs)
    (hseg0 : updateMap = false → ∀ k, k < f.mbW * f.mbH → (f.descs k).segment = 0) :
    decodeFrameUnfilteredBytes (refKernels pred16 pred8 pred4) prob (emitFrameBytes f numParts updateMap prob hdr) col0 =
      some (encoderReconFrame f (encodeFrameRecon (refKernels pred16 pred8 pred4) f srcY srcU srcV).y.plane
        (encodeFrameRecon (refKernels pred16 pred8 pred4) f srcY srcU srcV).u.plane
        (encodeFrameRecon (refKernels pred16 pred8 pred4) f srcY srcU srcV).v.plane, false) :=
  decode_bytes_of_decode prob hdr hh _ f numParts updateMap col0 _
    (Webp.Props.C06.frame_recon_agree_portable pred16 pred8 pred4 f numParts updateMap srcY srcU srcV col0 hw hhh hq
      hwf hseg hseg0)

/-! ## non-vacuity -/

/-- header calls of the kind partition 0 starts with -/
def exHdr : List Op := [.ubit false, .ubit false, .ubit true, .bits 37 7, .sbits (-3) 4, .sbits 0 4, .bits 2 2, .bit true 237]

example : ∀ op ∈ exHdr, op.Valid := by
  intro op hop
  simp only [exHdr, List.mem_cons, List.mem_nil_iff, or_false] at hop
  rcases hop with h | h | h | h | h | h | h | h <;> subst h <;> simp [Op.Valid]

/-- probabilities that differ per slot, with the extremes 0 and 255 -/
def exProb : Slot → UInt8
  | .coef t n ctx i => UInt8.ofNat (3 + 37 * t + 11 * n + 5 * ctx + 17 * i)
  | .fixed p => UInt8.ofNat p
  | .bmode top left i => UInt8.ofNat (255 - 7 * top - 3 * left - i)
  | .seg _ => 255
  | .skip => 0

/-- the chroma-mode decisions of `exDesc` as bytes, and read back -/
example : (runR exProb T.readUVMode (newReader (emitPartitionBytes exProb [] (writeUVMode 3)))).map (·.1) = some 3 := by
  decide

/-- the hypotheses of `frame_syntax_roundtrip_bytes` are met: the example macroblocks of
    `Webp.Props.C06` (an I4 macroblock with every token category, and a skipped one) alternating,
    4 token partitions, segment map and skip flag in use, the header calls and probabilities above -/
theorem exDesc_wf : Webp.Props.C06.exDesc.WF :=
  ⟨by decide, fun b => by unfold Webp.Props.C06.exDesc; dsimp only; omega, by decide, by decide,
   fun b i => by
    unfold Webp.Props.C06.exDesc Webp.Props.C06.exLevels
    dsimp only
    repeat' split
    all_goals decide⟩

theorem exSkip_wf : Webp.Props.C06.exSkip.WF :=
  ⟨by decide, fun b => by unfold Webp.Props.C06.exSkip Webp.Props.C06.exDesc; dsimp only; omega, by decide, by decide,
   fun b i => by unfold Webp.Props.C06.exSkip; dsimp only; decide⟩

example (K : Kernels) (dqm : Fin 4 → QuantMatrix) (col : ColData) (out : Nat → MBModes × ResData) :=
  frame_syntax_roundtrip_bytes exProb exHdr
    (by
      intro op hop
      simp only [exHdr, List.mem_cons, List.mem_nil_iff, or_false] at hop
      rcases hop with h | h | h | h | h | h | h | h <;> subst h <;> simp [Op.Valid])
    K dqm { mbW := 2, numParts := 4, updateMap := true, useSkip := true } Webp.Props.C06.exFrame.descs 6
    (fun k _ => by unfold Webp.Props.C06.exFrame; dsimp only; split; exact exDesc_wf; exact exSkip_wf)
    (fun _ _ _ => rfl) col out

#print axioms parsers_are_trees
#print axioms syntax_transfer
#print axioms partition_readers
#print axioms mode_trees_roundtrip_bytes
#print axioms token_symbol_roundtrip_bytes
#print axioms frame_syntax_roundtrip_bytes
#print axioms frame_recon_agree_bytes
#print axioms frame_recon_agree_parallel_bytes
#print axioms frame_recon_agree_portable_bytes

end Webp.Props.C06Bytes
