import Webp.Proofs.C04RefineEdge2
import Webp.Proofs.VP8Filter
/-
  Property C04, refinement theorems Impl ↔ Spec, part 4 — stage D (loop filter), one edge:
  `Webp.Spec.VP8.filterEdge` (RFC 6386 §15.2 / §15.3) is, position by position, the Go filter of that kind
  (`simpleFilterGo`, `filterLoop26Go`, `filterLoop24Go` of `Webp.Impl.VP8Kernels`, with their clip-table
  lookups; tied to the translated Go code by `Webp.Props.C04FuncsFilterApply`) applied to the eight samples
  across the edge, with the thresholds `doFilter` passes (`Webp.Props.C04Refine.loopfilter_params_eq_spec`:
  `limit + 4` = the RFC's macroblock edge limit, `limit` = the sub-block edge limit).
-/
namespace Webp.Props.C04Refine4
open Webp.Spec.VP8 (filterEdge)
open Webp.Impl.VP8Kernels
open Webp.Proofs.C04RefineEdge Webp.Proofs.VP8Filter

/-- **`filterEdge` = `edgeStep` at its `n` positions, in order.**  (`edgeStep` is the loop body; this
    theorem machine-checks the transcription.) -/
theorem filterEdge_is_steps (kind E I hevT : Nat) (d : ByteArray) (base along across n : Nat) :
    filterEdge kind E I hevT d base along across n =
      (List.range' 0 n).foldl (fun d k => edgeStep kind E I hevT d (base + k * along) across) d :=
  filterEdge_fold kind E I hevT d base along across n

/-- samples read from a byte array are bytes -/
theorem readSeg_bytes (d : ByteArray) (o across : Nat) : IsBytes (readSeg d o across) := by
  have hb : ∀ k, (0 : Int) ≤ ((d.get! k).toNat : Int) ∧ ((d.get! k).toNat : Int) ≤ 255 := fun k => by
    have := (d.get! k).toNat_lt; omega
  exact ⟨hb _, hb _, hb _, hb _, hb _, hb _, hb _, hb _⟩

/-- **Simple filter (§15.2), one position**: the Go `SimpleVFilter16` / `SimpleHFilter16` step on the
    samples across the edge succeeds (no table index out of range) and the specification writes its `p0`, `q0`. -/
theorem edge_simple_eq_go (E I hevT : Nat) (d : ByteArray) (o across : Nat) :
    ∃ G, simpleFilterGo E (readSeg d o across) = some G ∧
      edgeStep 0 E I hevT d o across =
        if RFC.edgeTest E (readSeg d o across).p1 (readSeg d o across).p0 (readSeg d o across).q0 (readSeg d o across).q1 then
          (d.set! (o - across) (u8 G.p0)).set! o (u8 G.q0)
        else d :=
  ⟨_, simpleFilterGo_rfc E _ (readSeg_bytes d o across), edgeStep_simple E I hevT d o across⟩

/-- **Normal filter on a macroblock edge (§15.3 `MBfilter`), one position**: Go `filterLoop26`
    (`doFilter2` under high edge variance, else `doFilter6`). -/
theorem edge_mb_eq_go (E I hevT : Nat) (d : ByteArray) (o across : Nat) :
    ∃ G, filterLoop26Go E I hevT (readSeg d o across) = some G ∧
      edgeStep 1 E I hevT d o across =
        if RFC.filterYes I E (readSeg d o across) then
          (if RFC.hevTest hevT (readSeg d o across) then
            (d.set! (o - across) (u8 G.p0)).set! o (u8 G.q0)
           else
            ((((((d.set! o (u8 G.q0)).set! (o - across) (u8 G.p0)).set! (o + across) (u8 G.q1)).set! (o - 2 * across)
              (u8 G.p1)).set! (o + 2 * across) (u8 G.q2)).set! (o - 3 * across) (u8 G.p2)))
        else d :=
  ⟨_, filterLoop26Go_rfc E I hevT _ (readSeg_bytes d o across), edgeStep_mb E I hevT d o across⟩

/-- **Normal filter on a sub-block edge (§15.3 `subblock_filter`), one position**: Go `filterLoop24`
    (`doFilter2` under high edge variance, else `doFilter4`). -/
theorem edge_sub_eq_go (E I hevT : Nat) (d : ByteArray) (o across : Nat) :
    ∃ G, filterLoop24Go E I hevT (readSeg d o across) = some G ∧
      edgeStep 2 E I hevT d o across =
        if RFC.filterYes I E (readSeg d o across) then
          (if RFC.hevTest hevT (readSeg d o across) then
            (d.set! (o - across) (u8 G.p0)).set! o (u8 G.q0)
           else
            ((((d.set! (o - across) (u8 G.p0)).set! o (u8 G.q0)).set! (o + across) (u8 G.q1)).set! (o - 2 * across)
              (u8 G.p1)))
        else d :=
  ⟨_, filterLoop24Go_rfc E I hevT _ (readSeg_bytes d o across), edgeStep_sub E I hevT d o across⟩

#print axioms filterEdge_is_steps
#print axioms edge_simple_eq_go
#print axioms edge_mb_eq_go
#print axioms edge_sub_eq_go

end Webp.Props.C04Refine4
