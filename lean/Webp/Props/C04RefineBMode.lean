import Webp.Props.C04Refine
import Webp.Props.C06Header
/-
  C04 refinement, sub-block mode probabilities: the bytes the Go decoder drives `parseIntraModeRow`'s
  sub-block tree with (`KBModesProba[top][left][i]`, modelled by `VP8HeaderBytes.kBModesProba` and tied
  to the real table slot by slot by the suite "boolcoder", op `bmodeprob`) are RFC 6386's
  `kf_bmode_probs[A][L][i]` for the RFC numbers `A = rfcB top`, `L = rfcB left` of the context modes.
  This discharges the probability hypothesis `hp` of `Webp.Props.C04Refine.bmode_eq_spec` for every
  probability function the decoder derives from a parsed header (`DecHeader.prob`), in particular
  for the encoder's own (`EncHeader.prob`).
-/
namespace Webp.Props.C04RefineBMode
open Webp.Go (Bytes)
open Webp.Impl.BoolCoder
open Webp.Spec.VP8 (BoolDec)
open Webp.Impl.VP8SyntaxBytes (P runR rd)
open Webp.Impl.VP8Recon (Slot)
open Webp.Impl.VP8HeaderBytes
open Webp.Proofs.C04RefineBool Webp.Proofs.C04RefineOps Webp.Proofs.C04RefineSyntax

/-- the Go→RFC renumbering of `VP8HeaderBytes` is the one of the refinement proofs -/
theorem bmodeRFC_eq_rfcB : bmodeRFC = rfcB := by
  funext n
  match n with
  | 0 | 1 | 2 | 3 | 4 | 5 | 6 => rfl
  | n + 7 => rfl

theorem kfBMode_all : (List.range 900).all (fun j => decide (Webp.Spec.VP8.Tables.kfBModeProbs.getD j 128 ≤ 255)) = true := by
  decide +kernel

theorem kfBMode_size : Webp.Spec.VP8.Tables.kfBModeProbs.size = 900 := by decide +kernel

/-- every entry of `kf_bmode_probs` is a byte -/
theorem kfBMode_le (j : Nat) : Webp.Spec.VP8.Tables.kfBModeProbs.getD j 128 ≤ 255 := by
  by_cases hj : j < 900
  · have := List.all_eq_true.mp kfBMode_all j (List.mem_range.mpr hj)
    simpa using this
  · have : Webp.Spec.VP8.Tables.kfBModeProbs.getD j 128 = 128 := by
      rw [Array.getD_eq_getD_getElem?, Array.getElem?_eq_none (by rw [kfBMode_size]; omega)]
      rfl
    omega

/-- **The sub-block-mode probability of the Go decoder is the RFC's**, in every context and at every
    tree node: `KBModesProba[top][left][i] = kf_bmode_probs[rfcB top][rfcB left][i]`. -/
theorem go_bmode_prob_is_rfc (coef : List UInt8) (um : Bool) (sp : Fin 3 → UInt8) (us : Bool) (p : UInt8)
    (top left i : Nat) :
    (probOfTables coef um sp us p (.bmode top left i)).toNat =
      Webp.Spec.VP8.Tables.kfBModeProbs.getD ((rfcB top * 10 + rfcB left) * 9 + i) 128 := by
  show (UInt8.ofNat (kBModesProba top left i)).toNat = _
  unfold kBModesProba
  rw [bmodeRFC_eq_rfcB, UInt8.toNat_ofNat']
  have := kfBMode_le ((rfcB top * 10 + rfcB left) * 9 + i)
  omega

/-- **`bmode_eq_spec` without a probability hypothesis**: for the probability function the decoder
    derives from ANY parsed header, Go's sub-block mode walk with `KBModesProba[top][left]` returns
    (renumbered) what RFC 6386's `bmode_tree` returns with `kf_bmode_probs[rfcB top][rfcB left]` —
    the lookup `Webp.Spec.VP8`'s macroblock parser performs — and the two decoders stay in step. -/
theorem bmode_eq_spec_go (hd : DecHeader) (top left : Nat)
    {F : Bytes} {r : BoolReader} {d : BoolDec} (hs : Sim F r d)
    (hfree : TreeFree hd.prob (Webp.Impl.VP8SyntaxBytes.T.readI4Mode top left) r) :
    ∃ m r', runR hd.prob (Webp.Impl.VP8SyntaxBytes.T.readI4Mode top left) r = some (m, r') ∧
      rfcB m = (BoolDec.readTree Webp.Spec.VP8.bModeTree
        (fun i => Webp.Spec.VP8.Tables.kfBModeProbs.getD ((rfcB top * 10 + rfcB left) * 9 + i) 128) d).1 ∧
      Sim F r' (BoolDec.readTree Webp.Spec.VP8.bModeTree
        (fun i => Webp.Spec.VP8.Tables.kfBModeProbs.getD ((rfcB top * 10 + rfcB left) * 9 + i) 128) d).2 :=
  Webp.Props.C04Refine.bmode_eq_spec hd.prob top left _
    (fun i => go_bmode_prob_is_rfc hd.coef hd.seg.updateMap hd.seg.segProbs hd.useSkipProba hd.skipP top left i) hs hfree

/-- the same for the encoder's probability function (`(decHdr h prev).prob = h.prob`) -/
theorem enc_bmode_prob_is_rfc (h : EncHeader) (top left i : Nat) :
    (h.prob (.bmode top left i)).toNat =
      Webp.Spec.VP8.Tables.kfBModeProbs.getD ((rfcB top * 10 + rfcB left) * 9 + i) 128 :=
  go_bmode_prob_is_rfc _ _ _ _ _ top left i

/-- the renumbering matters: Go's `[4][0][0]` (above = B_RD_PRED, left = B_DC_PRED) is the RFC's
    `[5][0][0] = 138`, not the RFC's `[4][0][0] = 125` -/
example : kBModesProba 4 0 0 = 138 ∧ Webp.Spec.VP8.Tables.kfBModeProbs.getD ((4 * 10 + 0) * 9 + 0) 128 = 125 := by
  decide +kernel

#print axioms go_bmode_prob_is_rfc
#print axioms bmode_eq_spec_go
#print axioms enc_bmode_prob_is_rfc

end Webp.Props.C04RefineBMode
