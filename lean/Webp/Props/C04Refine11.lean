import Webp.Proofs.C04RefineResid4
import Webp.Proofs.C04RefineResid5
/-
  Property C04, refinement theorems Impl ↔ Spec, part 11 — residuals, block framing (pieces of `mb_residuals_eq_spec`):

  * `getCoeffs_first1_leaves_dc`: Go — `getCoeffsInline` started at `first ≥ 1` (the luma blocks of a macroblock with
    a Y2 block) returns its output block with slot 0 untouched, on every reader and every bit sequence; so the DC
    the inverse WHT stored there beforehand survives the block parse.
  * `readBlock_first1_leaves_dc`: the specification — `readBlock … first = 1` leaves `coeffs[base]` alone.
  * `readBlock_frame`: a block read keeps the array size and every slot outside `[base, base+16)`: the 25 blocks of
    `readResiduals` do not interfere.
  With `tokens_eq_spec` (same end-of-block position and same sixteen slots per block) these are the per-block facts
  of `mb_residuals_eq_spec`; its packed-word context simulation through the row loops is still NOT proved.
-/
namespace Webp.Props.C04Refine11
open Webp.Impl.BoolCoder
open Webp.Spec.VP8
open Webp.Impl.VP8SyntaxBytes (P runR)
open Webp.Impl.VP8Recon (Slot Coeffs)
open Webp.Proofs.C04RefineResid

theorem getCoeffs_first1_leaves_dc (prob : Slot → UInt8) (t ctx : Nat) (dq0 dq1 : Int) (first : Nat) (hf : 1 ≤ first)
    (out : Coeffs) (r : BoolReader) (eob : Nat) (out' : Coeffs) (r' : BoolReader)
    (h : runR prob (Webp.Impl.VP8SyntaxBytes.T.getCoeffs t ctx dq0 dq1 first out) r = some ((eob, out'), r')) :
    out' 0 = out 0 :=
  getCoeffs_first1_dc prob t ctx dq0 dq1 first hf out r eob out' r' h

theorem readBlock_first1_leaves_dc (probs : Array Nat) (t ctx : Nat) (dcQ acQ : Int) (base : Nat) (coeffs : Array Int)
    (d : BoolDec) : (readBlock probs t 1 ctx dcQ acQ base coeffs d).2.1.getD base 0 = coeffs.getD base 0 :=
  readBlock_first1_dc probs t ctx dcQ acQ base coeffs d

theorem readBlock_frame (probs : Array Nat) (t first ctx : Nat) (dcQ acQ : Int) (base : Nat) (coeffs : Array Int) (d : BoolDec) :
    (readBlock probs t first ctx dcQ acQ base coeffs d).2.1.size = coeffs.size ∧
    ∀ k, (k < base ∨ base + 16 ≤ k) → (readBlock probs t first ctx dcQ acQ base coeffs d).2.1.getD k 0 = coeffs.getD k 0 :=
  Webp.Proofs.C04RefineResid.readBlock_frame probs t first ctx dcQ acQ base coeffs d

#print axioms getCoeffs_first1_leaves_dc
#print axioms readBlock_first1_leaves_dc
#print axioms readBlock_frame

end Webp.Props.C04Refine11
