import Webp.Proofs.VP8ReconPar
import Webp.Proofs.VP8ReconRefKernels
/-
  Property C06 — lossy decode equals the encoder's own reconstruction.

  "For every image and lossy option set, the picture a decoder obtains from the emitted file is,
   before in-loop deblocking, bit-identical to the reconstruction the encoder itself used as
   prediction reference while encoding; with the loop filter disabled (FilterStrength 0) the decoded
   Y, Cb and Cr planes equal that reconstruction exactly.  Encoder and decoder therefore never drift
   apart across macroblocks, and the decoded image always has the source's width and height."

  Model: `Webp.Impl.VP8Recon` (transcriptions of internal/lossy: `setupSegment`, `buildSegmentHeader`,
  `writeSegmentHeader`, `writeQuantParams`, `ParseQuant`; `RecordCoeffs`, `recordMBTokens`, the skip
  branch of the token passes, `getCoeffsInline`, `parseResiduals`, `decodeMB`; `writeMBModes`,
  `parseIntraModeRow`; `reconstructMB` + the in-loop I4 reconstruction, `reconstructMBParallel`,
  `reconstructRow`/`doTransform`/`doUVTransform`; `MBIterator` (`FillPredContext`, `Export`),
  `encodeRow`/`fillPredContextParallel`/`exportParallel`, the `yuvT`/work-buffer handling of
  `reconstructRow`).

  Quantification.  What the encoder *decides* — modes, segments, quantised levels, i.e. the whole
  of analysis, RD search, trellis and rate control — is an arbitrary `MBDesc` per macroblock; all
  theorems hold for every choice (`MBDesc.WF`: mode numbers in range, |level| ≤ 2114, which is what
  the token syntax can carry; both quantisers clamp to 2047).  Quantiser indices 0..127 with all
  deltas of ±15, 1–4 segments (`EncQuant.WF`).  Any width and height below 2^14 (incl. non-multiples
  of 16), any number of token partitions, any source planes, any stale decoder state (`ColData`).
  The boolean coder is an exact channel (`readBit` fails when the reader's probability slot is not
  the writer's); its own round trip is tied differentially (suites `reconmodel`, `recon`, `vp8`).

  Kernels.  The DSP kernels are parameters (`Kernels`); the theorems need the facts
  `KernelFacts K B Bw` — `idct_same`, `idct_zero`, `idct_dc`, `idct_ac3`, `idct_uv`, `wht_dc`,
  `pred16_same`, `pred8_same` — on coefficient blocks within `[-B, B]` (Y2 blocks within `[-Bw, Bw]`),
  and then `CoeffsWithin K qm d B Bw` for every macroblock.  `refKernels_facts` discharges them for
  the pure-Go kernels with any bound, so for those no range hypothesis remains
  (`frame_recon_agree_portable`).  The SIMD kernels meet the facts only below a threshold (see
  `KernelFacts`); the decoder's DC/AC3 shortcuts are exact-integer Go while the encoder's inverse
  DCT is 16-bit SIMD, so outside the threshold the two reconstructions DO differ (e.g. an I4 block
  whose only level is 381 with DC factor 86: coefficient 32766, decoder adds +4096, encoder −4096).
  No 8-bit source can make the quantiser emit such a level (|DCT coefficient| ≤ 2040 + rounding), but
  the hypothesis is needed and is stated.
-/
namespace Webp.Props.C06
open Webp.Impl.VP8Recon
open Webp.Proofs.VP8ReconTokens Webp.Proofs.VP8ReconMB Webp.Proofs.VP8ReconModes Webp.Proofs.VP8ReconSyntax
open Webp.Proofs.VP8ReconXform Webp.Proofs.VP8ReconAgree Webp.Proofs.VP8ReconPar Webp.Proofs.VP8ReconRefKernels

/-! ## quantisers -/

/-- **`dequant_agree`**: for every segment the encoder uses, the factors the decoder derives
    (`ParseQuant`) from the header the encoder writes (`buildSegmentHeader`, `writeSegmentHeader`,
    `writeQuantParams`) are the factors the encoder dequantises with (`setupSegment`) — including
    `y2dc·2`, the encoder's separate `KAcTable2` against the decoder's `·101581 >> 16` with floor 8,
    the `uvdc` index clamp at 117, absolute segment values, and the case without segmentation. -/
theorem dequant_agree (st : EncQuant) (wf : st.WF) (s : Fin 4) (hs : s.val < st.numSegs) :
    decQuantMatrix (encHeader st) s = encQuantMatrix st s :=
  Webp.Proofs.VP8ReconQuant.dequant_agree st wf s hs

/-- **`coeffs_agree`**: what `parseResiduals` stores for a block is what `reconstructMB` hands to
    its inverse transform: `int16(level·q)` (both sides wrap to 16 bits in the same way, so no range
    hypothesis is needed here), with the WHT output at position 0 of the luma blocks of an I16
    macroblock. -/
theorem coeffs_agree (K : Kernels) {B Bw : Int} (F : KernelFacts K B Bw) (qm : QuantMatrix) (d : MBDesc)
    (hw : CoeffsWithin K qm d B Bw) :
    (d.isI4 = true → ∀ b : Fin 16, (decCoeffs K qm d).coeffs b.val = dequant qm.y1dc qm.y1ac (d.levels b.val)) ∧
    (d.isI4 = false → ∀ b : Fin 16, (decCoeffs K qm d).coeffs b.val = encCoeffsY16 K qm d b) ∧
    (∀ b, 16 ≤ b → b < 24 → (decCoeffs K qm d).coeffs b = dequant qm.uvdc qm.uvac (d.levels b)) :=
  ⟨fun hI b => decBlock_i4 K qm d hI b, fun hI b => decBlock_i16 K F qm d hw hI b,
   fun b h1 h2 => decBlock_uv K qm d b h1 h2⟩

/-! ## syntax -/

/-- **`token_symbol_roundtrip`, one block**: `getCoeffsInline` reads back what `RecordCoeffs` wrote
    (contexts 0/1/2 from the previous token, end-of-block rules, the zero-run loop, the six value
    categories with their extra bits, sign; `first = 1` for luma after Y2), returns the
    end-of-block position and has stored `int16(level·dq)` at the coded positions. -/
theorem token_symbol_roundtrip_block (c : Coeffs) (t first ctx : Nat) (dq0 dq1 : Int) (hf : first ≤ 1)
    (hlev : LevelsInRange c) (out : Coeffs) (rest : Stream) :
    getCoeffs t ctx dq0 dq1 first out (recordCoeffs c (nzCountFrom first c) t first ctx ++ rest) =
      some (decNz first (nzCountFrom first c), fillFrom c dq0 dq1 first out, rest) :=
  block_roundtrip c t first ctx dq0 dq1 hf hlev out rest

/-- **`token_symbol_roundtrip`, one macroblock**: `decodeMB` (skip flag, `parseResiduals` with the
    WHT step and the 2-bit codes) reads back what the encoder's token pass wrote for `d`, stores
    `decCoeffs`, and leaves *the same* non-zero context as the encoder's pass
    (`(emitTokens d n).2` on both sides: the top/left flags are the same function). -/
theorem token_symbol_roundtrip (K : Kernels) (qm : QuantMatrix) (d : MBDesc) (wf : d.WF) (useSkip : Bool)
    (hs : d.skip = true → useSkip = true) (stale : Nat → Coeffs) (n : NzCtx) (hn : n.WF) (rest : Stream) :
    parseTokens K qm d.isI4 (if useSkip then d.skip else false) useSkip stale n ((emitTokens d n).1 ++ rest) =
      some (if d.skip then decSkipped stale else decCoeffs K qm d, (emitTokens d n).2, rest) ∧
    (emitTokens d n).2.WF :=
  ⟨tokens_roundtrip K qm d wf.lev useSkip hs stale n hn rest, emitTokens_wf d n hn⟩

/-- **mode trees**: segment id, skip flag, the I16/I4 selector, the 16×16 mode, the sixteen
    sub-block modes with their top/left contexts, the chroma mode — `parseIntraModeRow` reads back
    what `writeMBModes` wrote and both sides carry the same mode context on. -/
theorem mode_trees_roundtrip (d : MBDesc) (wf : d.WF) (updateMap useSkip : Bool) (prev : Fin 16 → Nat)
    (m : ModeCtx) (rest : Stream) :
    parseModes updateMap useSkip prev m ((emitModes d updateMap useSkip m).1 ++ rest) =
      some (modesOf d updateMap useSkip prev, (emitModes d updateMap useSkip m).2, rest) :=
  modes_roundtrip d wf updateMap useSkip prev m rest

/-- the syntax of a whole frame (any partition count): every macroblock's record is `ParsedOK` -/
theorem frame_syntax_roundtrip (K : Kernels) (dqm : Fin 4 → QuantMatrix) (fs : FrameSyntax) (descs : Nat → MBDesc)
    (n : Nat) (hwf : ∀ k, k < n → (descs k).WF) (hskip : ∀ k, k < n → (descs k).skip = true → fs.useSkip = true)
    (col : ColData) (out : Nat → MBModes × ResData) :
    ∃ out', parseMBs K dqm fs (List.range n) TokCtx.init (emitMBs descs fs (List.range n) TokCtx.init) col out = some out' ∧
      ∀ k, k < n → ParsedOK K dqm fs (descs k) (out' k) := by
  obtain ⟨out', h1, h2, _⟩ := parseMBs_roundtrip K dqm fs descs (List.range n) List.nodup_range
    (fun k hk => hwf k (List.mem_range.mp hk)) (fun k hk => hskip k (List.mem_range.mp hk))
    TokCtx.init ctxWF_init [] (fun _ => []) col out
  simp only [List.append_nil] at h1
  exact ⟨out', h1, fun k hk => h2 k (List.mem_range.mpr hk)⟩

/-! ## transforms -/

/-- **`wht_dc_only_shortcut`**: `parseResiduals`' `(dc[0] + 3) >> 3` for a Y2 block with at most one
    token position is `TransformWHT` of the dequantised block. -/
theorem wht_dc_only_shortcut (K : Kernels) {B Bw : Int} (F : KernelFacts K B Bw) (qm : QuantMatrix) (lv : Coeffs)
    (hb : Bounded Bw (dequant qm.y2dc qm.y2ac lv)) :
    decWht K qm lv = K.iwht (dequant qm.y2dc qm.y2ac lv) :=
  Webp.Proofs.VP8ReconXform.wht_dc_only_shortcut K F qm lv hb

/-- **`nz_dispatch_sound`**: the decoder's choice among nothing / inlined DC / `TransformAC3` /
    `Transform` by the 2-bit code computes the encoder's full inverse transform. -/
theorem nz_dispatch_sound (K : Kernels) {B Bw : Int} (F : KernelFacts K B Bw) (c : Coeffs) (hr : Bounded B c) (nz : Nat)
    (hz : ∀ k (hk : k < 16), nz ≤ k → c (zz ⟨k, hk⟩) = 0) (p : Blk4) (bits : Nat)
    (hb : bits >>> 30 = nzCode nz (if c 0 ≠ 0 then 1 else 0)) :
    doTransform K bits c p = K.encIdct c p :=
  Webp.Proofs.VP8ReconXform.nz_dispatch_sound K F c hr nz hz p bits hb

/-- **`skip_consistent`**: a macroblock the encoder marks as skipped has no coded level at all, emits
    no token, and the decoder's skip path (prediction only, whatever the stale coefficient array
    holds) yields the encoder's reconstruction. -/
theorem skip_consistent (K : Kernels) {B Bw : Int} (F : KernelFacts K B Bw) (hBw : 0 ≤ Bw) (qm : QuantMatrix)
    (mbX mbY : Nat) (c : Ctx) (d : MBDesc) (wf : d.WF) (hs : d.skip = true) (n : NzCtx)
    (updateMap useSkip : Bool) (prev : Fin 16 → Nat) (stale : Nat → Coeffs) :
    (∀ b, b < 24 → d.nz b = 0) ∧ (d.isI4 = false → d.nz 24 = 0) ∧
    emitTokens d n = ([], skipNz d.isI4 n) ∧
    decRecon K mbX mbY c (modesOf d updateMap useSkip prev) (decSkipped stale) = encRecon K qm mbX mbY c d := by
  refine ⟨(skip_nz d hs).1, (skip_nz d hs).2, by simp [emitTokens, hs], ?_⟩
  apply skip_recon K F hBw qm mbX mbY c d wf hs _ rfl
  · intro hI; simp [modesOf, hI]
  · intro hI; simp [modesOf, hI]
  · rfl

/-! ## one macroblock -/

/-- **`recon_agree`**: from the decisions `writeMBModes` and the token pass emit for `d`, the
    decoder parses modes and residuals and reconstructs — in the same neighbourhood `c` — exactly
    the samples the encoder reconstructed. -/
theorem recon_agree (K : Kernels) {B Bw : Int} (F : KernelFacts K B Bw) (hBw : 0 ≤ Bw) (qm : QuantMatrix)
    (mbX mbY : Nat) (c : Ctx) (d : MBDesc) (wf : d.WF) (hw : CoeffsWithin K qm d B Bw)
    (updateMap useSkip : Bool) (hs : d.skip = true → useSkip = true)
    (prev : Fin 16 → Nat) (stale : Nat → Coeffs) (mc : ModeCtx) (n : NzCtx) (hn : n.WF) (rest0 rest : Stream) :
    ∃ m r,
      parseModes updateMap useSkip prev mc ((emitModes d updateMap useSkip mc).1 ++ rest0) =
        some (m, (emitModes d updateMap useSkip mc).2, rest0) ∧
      parseTokens K qm m.isI4 m.skip useSkip stale n ((emitTokens d n).1 ++ rest) = some (r, (emitTokens d n).2, rest) ∧
      decRecon K mbX mbY c m r = encRecon K qm mbX mbY c d := by
  refine ⟨modesOf d updateMap useSkip prev, if d.skip then decSkipped stale else decCoeffs K qm d,
    modes_roundtrip d wf updateMap useSkip prev mc rest0,
    tokens_roundtrip K qm d wf.lev useSkip hs stale n hn rest, ?_⟩
  have h2 : d.isI4 = true → (modesOf d updateMap useSkip prev).imodes = d.i4modes := by
    intro hI; simp [modesOf, hI]
  have h3 : d.isI4 = false → (modesOf d updateMap useSkip prev).imodes 0 = d.i16mode := by
    intro hI; simp [modesOf, hI]
  cases hsk : d.skip
  · simp only [Bool.false_eq_true, if_false]
    exact parsed_recon K F qm mbX mbY c d wf hw _ rfl h2 h3 rfl
  · simp only [if_true]
    exact skip_recon K F hBw qm mbX mbY c d wf hsk _ rfl h2 h3 rfl stale

/-- the row-parallel copy of the per-macroblock reconstruction is the serial one -/
theorem encReconPar_eq (K : Kernels) (qm : QuantMatrix) (mbX mbY : Nat) (c : Ctx) (d : MBDesc) :
    encReconPar K qm mbX mbY c d = encRecon K qm mbX mbY c d :=
  Webp.Proofs.VP8ReconXform.encReconPar_eq K qm mbX mbY c d

/-! ## the frame -/

/-- **`frame_recon_agree`** (no drift): the decoder, before the loop filter, obtains from the
    emitted frame exactly the visible part of the planes the serial encoder ended with — the
    reconstruction it predicted from.  Proved by showing that the encoder's `topY/leftY/topLeft`
    bookkeeping and the decoder's `yuvT`/rotating buffer hand every macroblock the neighbourhood
    defined by the macroblocks reconstructed before (127 above the frame, 129 to its left, the
    top-right samples from the row above the *macroblock*, the last sample repeated at the right
    edge), that the syntax round-trips with equal contexts, and `recon_agree`. -/
theorem frame_recon_agree (K : Kernels) {B Bw : Int} (F : KernelFacts K B Bw) (hBw : 0 ≤ Bw) (f : EncFrame)
    (numParts : Nat) (updateMap : Bool) (srcY srcU srcV : Plane) (col0 : ColData)
    (hw : f.w < 16384) (hh : f.h < 16384) (hq : f.quant.WF)
    (hd : ∀ k, k < f.mbW * f.mbH → MBOk K f updateMap B Bw k) :
    decodeFrameUnfiltered K (emitFrame f numParts updateMap) col0 =
      some (encoderReconFrame f (encodeFrameRecon K f srcY srcU srcV).y.plane
        (encodeFrameRecon K f srcY srcU srcV).u.plane (encodeFrameRecon K f srcY srcU srcV).v.plane) :=
  Webp.Proofs.VP8ReconAgree.frame_recon_agree K F hBw f numParts updateMap srcY srcU srcV col0 hw hh hq hd

/-- **`serial_eq_parallel_recon`**: the row-parallel encoder (`encodeRow` with its own left context,
    shared `topY/topU/topV`, `fillPredContextParallel`, `reconstructMBParallel`, `exportParallel`)
    ends with the same planes as the serial one for the same decisions. -/
theorem serial_eq_parallel_recon (K : Kernels) (f : EncFrame) (srcY srcU srcV : Plane) (hw : 0 < f.w) :
    (encodeFrameReconPar K f srcY srcU srcV).yPlane = (encodeFrameRecon K f srcY srcU srcV).y.plane ∧
    (encodeFrameReconPar K f srcY srcU srcV).uPlane = (encodeFrameRecon K f srcY srcU srcV).u.plane ∧
    (encodeFrameReconPar K f srcY srcU srcV).vPlane = (encodeFrameRecon K f srcY srcU srcV).v.plane :=
  Webp.Proofs.VP8ReconPar.serial_eq_parallel_recon K f srcY srcU srcV hw

/-- `frame_recon_agree` for the row-parallel encoder path -/
theorem frame_recon_agree_parallel (K : Kernels) {B Bw : Int} (F : KernelFacts K B Bw) (hBw : 0 ≤ Bw) (f : EncFrame)
    (numParts : Nat) (updateMap : Bool) (srcY srcU srcV : Plane) (col0 : ColData)
    (hw0 : 0 < f.w) (hw : f.w < 16384) (hh : f.h < 16384) (hq : f.quant.WF)
    (hd : ∀ k, k < f.mbW * f.mbH → MBOk K f updateMap B Bw k) :
    decodeFrameUnfiltered K (emitFrame f numParts updateMap) col0 =
      some (encoderReconFrame f (encodeFrameReconPar K f srcY srcU srcV).yPlane
        (encodeFrameReconPar K f srcY srcU srcV).uPlane (encodeFrameReconPar K f srcY srcU srcV).vPlane) := by
  obtain ⟨e1, e2, e3⟩ := serial_eq_parallel_recon K f srcY srcU srcV hw0
  rw [e1, e2, e3]
  exact frame_recon_agree K F hBw f numParts updateMap srcY srcU srcV col0 hw hh hq hd

/-- **`dims_kept`**: the decoded picture has the source's width and height (14-bit fields). -/
theorem dims_kept (K : Kernels) (f : EncFrame) (numParts : Nat) (updateMap : Bool) (col0 : ColData) (fr : Frame)
    (hw : f.w < 16384) (hh : f.h < 16384)
    (hdec : decodeFrameUnfiltered K (emitFrame f numParts updateMap) col0 = some fr) :
    fr.w = f.w ∧ fr.h = f.h := by
  unfold decodeFrameUnfiltered at hdec
  simp only [Option.map_eq_some_iff] at hdec
  obtain ⟨_, _, h⟩ := hdec
  subst h
  exact ⟨Nat.mod_eq_of_lt hw, Nat.mod_eq_of_lt hh⟩

/-- the facts of `KernelFacts` hold for the pure-Go kernels, for every coefficient value -/
theorem kernel_facts_portable (pred16 : Nat → Edge16 → Blk16) (pred8 : Nat → Edge8 → Blk8) (pred4 : Nat → Edge4 → Blk4)
    (B Bw : Int) : KernelFacts (refKernels pred16 pred8 pred4) B Bw :=
  refKernels_facts pred16 pred8 pred4 B Bw

/-- **`frame_recon_agree` for the portable kernels: no hypothesis about coefficient ranges.**
    For every size, every decision of the encoder (`MBDesc.WF` only), every quantiser setting. -/
theorem frame_recon_agree_portable (pred16 : Nat → Edge16 → Blk16) (pred8 : Nat → Edge8 → Blk8)
    (pred4 : Nat → Edge4 → Blk4) (f : EncFrame) (numParts : Nat) (updateMap : Bool) (srcY srcU srcV : Plane)
    (col0 : ColData) (hw : f.w < 16384) (hh : f.h < 16384) (hq : f.quant.WF)
    (hwf : ∀ k, k < f.mbW * f.mbH → (f.descs k).WF)
    (hseg : ∀ k, k < f.mbW * f.mbH → (f.descs k).segment < f.quant.numSegs)
    (hseg0 : updateMap = false → ∀ k, k < f.mbW * f.mbH → (f.descs k).segment = 0) :
    decodeFrameUnfiltered (refKernels pred16 pred8 pred4) (emitFrame f numParts updateMap) col0 =
      some (encoderReconFrame f (encodeFrameRecon (refKernels pred16 pred8 pred4) f srcY srcU srcV).y.plane
        (encodeFrameRecon (refKernels pred16 pred8 pred4) f srcY srcU srcV).u.plane
        (encodeFrameRecon (refKernels pred16 pred8 pred4) f srcY srcU srcV).v.plane) :=
  frame_recon_agree _ (refKernels_facts pred16 pred8 pred4 32768 32768) (by omega) f numParts updateMap srcY srcU srcV
    col0 hw hh hq
    (fun k hk => ⟨hwf k hk, hseg k hk, fun h => hseg0 h k hk,
      coeffsWithin_full _ (fun c => iwhtRef_range c) _ _⟩)

/-! ## non-vacuity -/

/-- a quantiser state that meets the hypotheses: two segments, chroma deltas as `setSegmentParams` sets them -/
def exQuant : EncQuant :=
  { numSegs := 2, quant := fun i => if i.val = 0 then 36 else 61, dqY1DC := 0, dqY2DC := 0, dqY2AC := 0,
    dqUVDC := -4, dqUVAC := 2, staleQ := fun _ => -77 }

example : exQuant.WF :=
  ⟨by decide, fun i => by unfold exQuant; dsimp only; split <;> omega,
   by decide, by decide, by decide, by decide, by decide⟩

example : decQuantMatrix (encHeader exQuant) 1 = encQuantMatrix exQuant 1 := by decide +kernel
example : encQuantMatrix exQuant 1 = { y1dc := 56, y1ac := 72, y2dc := 112, y2ac := 111, uvdc := 52, uvac := 76 } := by
  decide +kernel

/-- an I4 macroblock with coefficients of every token category and a DC-only chroma block -/
def exLevels : Nat → Coeffs := fun b i =>
  if b = 0 then (if i.val = 0 then 2047 else if i.val = 1 then -1 else if i.val = 4 then 3 else if i.val = 15 then -70 else 0)
  else if b = 5 then (if i.val = 2 then 12 else 0)
  else if b = 17 then (if i.val = 0 then -5 else 0)
  else 0

def exDesc : MBDesc :=
  { isI4 := true, i16mode := 0, i4modes := fun b => b.val % 10, uvmode := 3, segment := 1, levels := exLevels }

example : exDesc.WF :=
  ⟨by decide, fun b => by unfold exDesc; dsimp only; omega, by decide, by decide,
   fun b i => by
    unfold exDesc exLevels
    dsimp only
    repeat' split
    all_goals decide⟩

example : exDesc.skip = false := by decide +kernel
example : exDesc.nz 0 = 16 ∧ exDesc.nz 5 = 6 ∧ exDesc.nz 17 = 1 ∧ exDesc.nz 3 = 0 := by decide +kernel

/-- the all-zero macroblock is skipped -/
def exSkip : MBDesc := { exDesc with levels := fun _ _ => 0 }
example : exSkip.skip = true := by decide +kernel

/-- a 17×33 frame (2×3 macroblocks, not a multiple of 16) meets the hypotheses of
    `frame_recon_agree_portable` -/
def exFrame : EncFrame :=
  { w := 17, h := 33, descs := fun k => if k % 2 = 0 then exDesc else exSkip, quant := exQuant }

example : exFrame.mbW * exFrame.mbH = 6 := by decide
example : ∀ k, k < exFrame.mbW * exFrame.mbH → (exFrame.descs k).segment < exFrame.quant.numSegs := by
  intro k _
  unfold exFrame
  dsimp only
  split <;> decide

end Webp.Props.C06
