import Generated.Funcs
import Webp.Go.Basic
import Webp.Proofs.FuncsBridge
import Webp.Props.C05Funcs
/-
  C05 (and C02 C04 C14 C16 C17) — regenerated obligations for *expression sites*: integer
  expressions inside larger Go functions (partition sizes, frame tag fields, ANMF fields, dimension
  and area guards), translated from the Go AST on this run with their free variables as
  parameters.  Each is tied to the little-endian readers of `Webp.Go` or to the arithmetic fact the
  parser / header models use.
-/
namespace Webp.Props.C05FuncsSites
open Webp.Go Webp.Go.IntSem Webp.Proofs.FuncsBridge

/-- decode.go `parsePartitions`: `psize := int(sz[0]) | int(sz[1])<<8 | int(sz[2])<<16` is the
    translated `readLE24` (same expression), hence `Go.le24` -/
theorem tie_parsePartitions_psize (b0 b1 b2 : UInt8) (rest : List UInt8) :
    Generated.Funcs.Decoder_parsePartitions_psize ((b0 :: b1 :: b2 :: rest).map (fun x => (x.toNat : Int)))
      = .ok ((le24 (b0 :: b1 :: b2 :: rest) : Nat) : Int) :=
  Webp.Props.C05Funcs.tie_readLE24 b0 b1 b2 rest

/-- fewer than three size bytes: Go panics (the caller checks `len(buf) < 3*lastPart` first) -/
theorem parsePartitions_psize_short (b : List Int) (h : b.length < 3) :
    Generated.Funcs.Decoder_parsePartitions_psize b = .panic :=
  Webp.Props.C05Funcs.readLE24_short b h

/-- decode.go `parseHeaders`: the 3-byte frame tag, `uint32` arithmetic -/
theorem tie_parseHeaders_bits (b0 b1 b2 : UInt8) (rest : List UInt8) :
    Generated.Funcs.Decoder_parseHeaders_bits ((b0 :: b1 :: b2 :: rest).map (fun x => (x.toNat : Int)))
      = .ok ((le24 (b0 :: b1 :: b2 :: rest) : Nat) : Int) := by
  have := b0.toNat_lt; have := b1.toNat_lt; have := b2.toNat_lt
  rw [← Webp.Props.C05Funcs.tie_readLE24 b0 b1 b2 rest]
  simp only [Generated.Funcs.Decoder_parseHeaders_bits, Generated.Funcs.readLE24, List.map_cons, idxI]
  simp only [Int.lt_irrefl, if_false, Int.toNat_zero, List.getElem?_cons_zero, ok_bind,
    show ¬ ((1 : Int) < 0) by decide, show ¬ ((2 : Int) < 0) by decide,
    show (1 : Int).toNat = 1 by rfl, show (2 : Int).toNat = 2 by rfl, List.getElem?_cons_succ,
    shl_nat_lit, wrapU_nat]
  have e1 : b1.toNat <<< 8 % 2 ^ 32 = b1.toNat <<< 8 := by
    rw [Nat.shiftLeft_eq]; apply Nat.mod_eq_of_lt; omega
  have e2 : b2.toNat <<< 16 % 2 ^ 32 = b2.toNat <<< 16 := by
    rw [Nat.shiftLeft_eq]; apply Nat.mod_eq_of_lt; omega
  rw [e1, e2]

/-- frame tag fields (RFC 6386 §9.1) as `/` and `%` of the 24-bit tag -/
theorem parseHeaders_fields (bits : Nat) :
    Generated.Funcs.Decoder_parseHeaders_KeyFrame bits = decide (bits % 2 = 0)
    ∧ Generated.Funcs.Decoder_parseHeaders_Profile bits = ((bits / 2 % 8 : Nat) : Int)
    ∧ Generated.Funcs.Decoder_parseHeaders_Show bits = decide (bits / 16 % 2 ≠ 0)
    ∧ Generated.Funcs.Decoder_parseHeaders_PartitionLength bits = ((bits / 32 : Nat) : Int) := by
  have a7 : ∀ n : Nat, n &&& 7 = n % 8 := fun n => Nat.and_two_pow_sub_one_eq_mod n 3
  refine ⟨?_, ?_, ?_, ?_⟩
  · simp only [Generated.Funcs.Decoder_parseHeaders_KeyFrame, band_nat_lit, nat_and_1]
    congr 1; apply propext; constructor <;> intro h <;> omega
  · simp only [Generated.Funcs.Decoder_parseHeaders_Profile, shr_nat_lit, band_nat_lit, a7, nat_shr, wrapU_nat]
    congr 1; simp only [Nat.reducePow]; omega
  · simp only [Generated.Funcs.Decoder_parseHeaders_Show, shr_nat_lit, band_nat_lit, nat_and_1, nat_shr]
    congr 1; apply propext; simp only [Nat.reducePow]; constructor <;> intro h <;> omega
  · simp only [Generated.Funcs.Decoder_parseHeaders_PartitionLength, shr_nat_lit, nat_shr]

/-- dimension guards (encode.go `Encode`, lossless `Encode`): the translated conditions -/
theorem Encode_guards (w h : Int) :
    Generated.Funcs.Encode_dimGuard w h = decide (w > 16383 ∨ h > 16383)
    ∧ Generated.Funcs.Encode_posGuard w h = decide (w ≤ 0 ∨ h ≤ 0)
    ∧ Generated.Funcs.lossless_Encode_dimGuard w h = decide (w ≤ 0 ∨ h ≤ 0 ∨ w > 16383 ∨ h > 16383) := by
  refine ⟨?_, ?_, ?_⟩
  · simp [Generated.Funcs.Encode_dimGuard]
  · simp [Generated.Funcs.Encode_posGuard]
  · simp [Generated.Funcs.lossless_Encode_dimGuard, Bool.or_assoc]

/-- non-vacuity -/
example : Generated.Funcs.Decoder_parsePartitions_psize [0x01, 0x02, 0x03] = .ok 0x030201 := by decide
example : Generated.Funcs.Encode_dimGuard 16384 1 = true ∧ Generated.Funcs.Encode_dimGuard 16383 16383 = false := by decide

end Webp.Props.C05FuncsSites
