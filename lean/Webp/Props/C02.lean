import Webp.Proofs.WriterProps
import Webp.Proofs.WriterFrame
import Webp.Proofs.WriterFrameSpec
/-
  C02 — "Whenever Encode returns nil, the bytes written form exactly one well-formed RIFF/WebP
  file: all size fields, padding, chunk order, VP8X flags and canvas size are consistent with the
  payload, and the declared dimensions and alpha flag match the source image.  The file is
  accepted both by this package's decoder and by an independent implementation of the format,
  and both yield the same pixels; Encode never reports success for a stream that cannot be
  decoded."

  This file: the *container* half (everything `Encode` does after the codec returned a
  bitstream) and the VP8 *frame assembler*, for ALL payloads, blobs and sizes.

  Models (tied to /repo by suite `writer`, ops `wsimple wext wriff wriffnil wstream asmframe`):
    `Impl.Writer.writeRIFFSimple / writeRIFFExtended / writeRIFF / streamingWrite / assembleFrame`.
  Readers: `Impl.Parser.parse` (= `container.NewParser`, the package's decoder front end),
    `Impl.Demux.parseWith true` (= `mux.NewDemuxer`), `Spec.RiffStill.wellFormed` (independent
    walker written from the container specification), `Spec.VP8Layout.splitFrame` and
    `Spec.VP8.parseFrameTag` (frame layout of RFC 6386).
  The pixel half of C02 (both decoders yield the same pixels) is the end-to-end suite `conform`.

  Hypotheses and where they come from:
    * `SimpleSizeOK` / `SizesOK`: the RIFF size fits the 32-bit field with the margin the code
      itself uses.  `writeRIFFExtended` *checks* it (`writeExtended_tooLarge`); the simple writer
      and the streaming path do not check (`writeSimple_unchecked_wrap`: at the first excluded
      even length the Go code panics on a slice bound) — unreachable through `Encode` because a
      ≤ 16383² picture cannot produce a 4 GiB bitstream (argued, not proved; no codec model).
    * blobs ≤ 100 MiB: `validateConfig` rejects larger ones before any writer runs
      (`Impl.Opts.maxEncoderMetadataSize` = `Parser.maxMetadataSize`; probed on the real
      `Encode`: 100 MiB accepted and decodable, 100 MiB + 1 → error).
    * `1 ≤ w, h ≤ 16383`: checked at the top of `Encode`.
    * `HeaderOK`: the bitstream starts with a parsable VP8 / VP8L header (codec contract).
    * `fourcc = VP8L → alpha = []`: `Encode` passes `nil` alpha on the lossless path.
    * `len(part0) < 2^19`, `len(partition) < 2^24`: NOT checked by the code — see
      `assembleFrame_overflow_*` (DESIGN.md D10, confirmed on the real encoder).
-/
namespace Webp.Props.C02
open Webp.Go Webp.Impl Webp.Impl.Writer
open Webp.Impl.Parser (ccVP8 ccVP8L ccICCP ccEXIF ccXMP ccALPH ccVP8X maxChunkPayload maxMetadataSize)

/-- the simple file (RIFF size = 12 + padded payload) fits the parser's RIFF size limit -/
def SimpleSizeOK (bs : Bytes) : Prop := 12 + (bs.length + bs.length % 2) ≤ maxChunkPayload

/-- `writeRIFFExtended`'s own check (RIFF size ≤ MaxUint32 − 8) and `validateConfig`'s blob limit -/
def SizesOK (bs alpha icc exif xmp : Bytes) : Prop :=
  22 + optLen icc + optLen alpha + (8 + bs.length + bs.length % 2) + optLen exif + optLen xmp
      ≤ 4294967287 ∧
  icc.length ≤ maxMetadataSize ∧ exif.length ≤ maxMetadataSize ∧ xmp.length ≤ maxMetadataSize

theorem SizesOK.body {bs alpha icc exif xmp : Bytes} (h : SizesOK bs alpha icc exif xmp)
    (fourcc : Nat) (w hh : Int) :
    4 + (extBody fourcc bs alpha w hh icc exif xmp).length ≤ 4294967287 := by
  rw [extBody_length]; have := h.1; omega

/-! ## simple layout -/

/-- **writeSimple_parse.**  The simple writer's output is accepted by `container.NewParser`,
    which finds exactly one frame whose payload is the bitstream, with the dimensions and alpha
    bit of the bitstream header; the RIFF size field is the file length − 8. -/
theorem writeSimple_parse (fourcc : Nat) (bs : Bytes) (w' h' : Nat) (a' : Bool)
    (hsz : SimpleSizeOK bs) (hh : HeaderOK fourcc bs w' h' a') :
    ∃ out s f, writeRIFFSimple fourcc bs = .ok out ∧
      out.length = 20 + (bs.length + bs.length % 2) ∧ le32 out 4 + 8 = out.length ∧
      Parser.parse out = .ok s ∧ s.frames = [f] ∧ f.payload = some bs ∧ f.alphaData = none ∧
      f.width = w' ∧ f.height = h' ∧ f.isLossless = decide (fourcc = ccVP8L) ∧ f.hasAlpha = a' ∧
      s.chunks = [] ∧ s.features.width = w' ∧ s.features.height = h' ∧
      s.features.canvasWidth = w' ∧ s.features.canvasHeight = h' ∧ s.features.hasAlpha = a' := by
  have hM := maxChunkPayload_val
  unfold SimpleSizeOK at hsz
  have hlen : (simpleFile fourcc bs).length = 20 + (bs.length + bs.length % 2) := by
    unfold simpleFile; rw [riffFile_length, chunkBytes_length]; omega
  have hsf : le32 (simpleFile fourcc bs) 4 + 8 = (simpleFile fourcc bs).length := by
    rw [hlen]; unfold simpleFile
    rw [riffFile_size_field _ (by rw [chunkBytes_length]; omega), chunkBytes_length]; omega
  have hw := writeRIFFSimple_eq fourcc bs (by omega)
  have hne : ccVP8 ≠ ccVP8L := fun h => cc_ne.2.2.1 h.symm
  rcases hh with ⟨hf, hp, ha⟩ | ⟨hf, hp⟩
  · subst ha
    rw [hf] at hw hlen hsf ⊢
    exact ⟨_, _, _, hw, hlen, hsf, parse_simple_vp8 bs hsz hp, rfl, rfl, rfl, rfl, rfl,
      by simp [hne], rfl, rfl, rfl, rfl, rfl, rfl, rfl⟩
  · rw [hf] at hw hlen hsf ⊢
    exact ⟨_, _, _, hw, hlen, hsf, parse_simple_vp8l bs hsz hp, rfl, rfl, rfl, rfl, rfl,
      by simp, rfl, rfl, rfl, rfl, rfl, rfl, rfl⟩

/-- **writeSimple_wf.**  The independent walker accepts the simple writer's output (RIFF size =
    length − 8, even length, zero pad byte, single image chunk) and returns the bitstream. -/
theorem writeSimple_wf (fourcc : Nat) (bs : Bytes) (l la : Bool) (w h : Nat)
    (hfcc : fourcc = ccVP8 ∨ fourcc = ccVP8L) (hsz : SimpleSizeOK bs)
    (himg : Spec.RiffStill.imageInfo (putLE32 fourcc) bs = some (l, w, h, la)) :
    ∃ out, writeRIFFSimple fourcc bs = .ok out ∧ out.length % 2 = 0 ∧
      Spec.RiffStill.wellFormed out = .ok
        { extended := false, lossless := l, image := bs, alpha := none, icc := none, exif := none,
          xmp := none, flags := 0, canvasW := w, canvasH := h, imageW := w, imageH := h,
          vp8lAlpha := la } := by
  have hM := maxChunkPayload_val
  unfold SimpleSizeOK at hsz
  have hlen : (simpleFile fourcc bs).length = 20 + (bs.length + bs.length % 2) := by
    unfold simpleFile; rw [riffFile_length, chunkBytes_length]; omega
  refine ⟨_, writeRIFFSimple_eq fourcc bs (by omega), by rw [hlen]; omega, ?_⟩
  unfold Spec.RiffStill.imageInfo at himg
  rcases hfcc with hf | hf
  · rw [hf] at himg ⊢
    rw [tag_VP8, if_pos rfl] at himg
    cases hd : Spec.RiffStill.vp8Dims bs with
    | none => rw [hd] at himg; cases himg
    | some p =>
      obtain ⟨w0, h0⟩ := p
      rw [hd] at himg
      injection himg with himg
      injection himg with e1 himg
      injection himg with e2 himg
      injection himg with e3 e4
      subst e1 e2 e3 e4
      exact wf_simple_vp8 bs (by omega) hd
  · rw [hf] at himg ⊢
    rw [tag_VP8L, if_neg tags_ne.2.2.1, if_pos rfl] at himg
    cases hd : Spec.RiffStill.vp8lDims bs with
    | none => rw [hd] at himg; cases himg
    | some p =>
      obtain ⟨w0, h0, a0⟩ := p
      rw [hd] at himg
      injection himg with himg
      injection himg with e1 himg
      injection himg with e2 himg
      injection himg with e3 e4
      subst e1 e2 e3 e4
      exact wf_simple_vp8l bs (by omega) hd

/-- The simple writer does not check its size arithmetic: at the first even length beyond
    `SimpleSizeOK` (`len = 2^32 − 20`) `8 + riffSize` wraps to 0, the buffer is empty and the
    first store panics.  (Unreachable through `Encode`: see the file header.) -/
theorem writeSimple_unchecked_wrap (fourcc : Nat) (bs : Bytes) (h : bs.length = 4294967276) :
    writeRIFFSimple fourcc bs = .panic := by
  unfold writeRIFFSimple Parser.chunkHeaderSize
  have e1 : u32 bs.length = 4294967276 := by unfold u32; omega
  have e2 : u32 (4294967276 + 4294967276 % 2) = 4294967276 := by decide
  have e3 : u32 (4 + 8 + 4294967276) = 4294967288 := by decide
  have e4 : u32 (8 + 4294967288) = 0 := by decide
  dsimp only
  rw [e1, e2, e3, e4]
  rfl

/-! ## streaming path -/

/-- **streaming_eq_buffered.**  What `encodeLosslessToWriter` streams (header callback,
    bitstream, pad byte) is byte for byte what the buffered `writeRIFFSimple('VP8L', bs)` writes. -/
theorem streaming_eq_buffered (bs : Bytes) (h : 20 + bs.length + bs.length % 2 < 4294967296) :
    writeRIFFSimple ccVP8L bs = .ok (streamingWrite bs) ∧
    streamingWrite bs =
      streamingHeader bs.length ++ bs ++ (if bs.length % 2 ≠ 0 then [0] else []) := by
  refine ⟨?_, rfl⟩
  rw [writeRIFFSimple_eq ccVP8L bs h, streamingWrite_eq bs h]

/-! ## extended layout -/

/-- **writeExtended_parse** (with **vp8x_dims**).  `container.NewParser` accepts the extended
    writer's output: one frame whose payload is the bitstream and whose alpha data is the ALPH
    payload (iff one was given); the ICCP chunk is collected; the feature flags are exactly the
    non-empty blobs, alpha is `ALPH given ∨ VP8L alpha bit`; the canvas is the declared `(w, h)`.
    (`container.Parser` stops at the image chunk: EXIF / XMP behind it are not enumerated in
    `Chunks()` — no public API reads that list; metadata read-back is `writeExtended_demux`.) -/
theorem writeExtended_parse (fourcc : Nat) (bs alpha icc exif xmp : Bytes) (w h w' h' : Nat)
    (a' : Bool) (hh : HeaderOK fourcc bs w' h' a') (hnoalph : fourcc = ccVP8L → alpha = [])
    (hw1 : 1 ≤ w) (hw2 : w ≤ 16383) (hh1 : 1 ≤ h) (hh2 : h ≤ 16383)
    (hsz : SizesOK bs alpha icc exif xmp) :
    ∃ out s f, writeRIFFExtended fourcc bs alpha w h icc exif xmp = .ok out ∧
      le32 out 4 + 8 = out.length ∧ out.length % 2 = 0 ∧
      Parser.parse out = .ok s ∧ s.frames = [f] ∧ f.payload = some bs ∧
      f.alphaData = (if alpha ≠ [] then some alpha else none) ∧
      f.width = w' ∧ f.height = h' ∧ f.isLossless = decide (fourcc = ccVP8L) ∧
      (f.hasAlpha = true ↔ alpha ≠ [] ∨ a' = true) ∧
      s.chunks = (if icc ≠ [] then [⟨ccICCP, icc⟩] else []) ∧
      (s.features.hasICCP = true ↔ icc ≠ []) ∧ (s.features.hasEXIF = true ↔ exif ≠ []) ∧
      (s.features.hasXMP = true ↔ xmp ≠ []) ∧
      (s.features.hasAlpha = true ↔ alpha ≠ [] ∨ a' = true) ∧
      s.features.hasAnim = false ∧ s.features.format = .vp8x ∧
      s.features.canvasWidth = w ∧ s.features.canvasHeight = h ∧
      s.features.width = w' ∧ s.features.height = h' := by
  have hN := hsz.body fourcc w h
  have hev := extBody_even fourcc bs alpha w h icc exif xmp
  obtain ⟨s, f, hp⟩ := parse_extFile_fields fourcc bs alpha icc exif xmp w h w' h' a' hh hnoalph
    hw1 hw2 hh1 hh2 hN hsz.2.1
  refine ⟨_, s, f, writeRIFFExtended_eq fourcc bs alpha w h icc exif xmp hN, ?_, ?_, hp⟩
  · unfold extFile
    rw [riffFile_size_field _ (by omega), riffFile_length]; omega
  · unfold extFile
    rw [riffFile_length]; omega

/-- **writeExtended_wf.**  The independent walker accepts the extended writer's output — RIFF
    size, padding, chunk order `VP8X [ICCP] [ALPH] image [EXIF] [XMP]`, reserved bits, flags ⇔
    chunks, canvas = image size — and returns every payload exactly as given.  `himg` says the
    declared `(w, h)` are the dimensions in the bitstream header (what `Encode` passes). -/
theorem writeExtended_wf (fourcc : Nat) (bs alpha icc exif xmp : Bytes) (w h : Nat) (l la : Bool)
    (hfcc : fourcc = ccVP8 ∨ fourcc = ccVP8L)
    (himg : Spec.RiffStill.imageInfo (putLE32 fourcc) bs = some (l, w, h, la))
    (hnoalph : fourcc = ccVP8L → alpha = [])
    (hw1 : 1 ≤ w) (hw2 : w ≤ 16383) (hh1 : 1 ≤ h) (hh2 : h ≤ 16383)
    (hsz : SizesOK bs alpha icc exif xmp) :
    ∃ out, writeRIFFExtended fourcc bs alpha w h icc exif xmp = .ok out ∧
      Spec.RiffStill.wellFormed out = .ok
        { extended := true, lossless := l, image := bs,
          alpha := if alpha ≠ [] then some alpha else none,
          icc := if icc ≠ [] then some icc else none,
          exif := if exif ≠ [] then some exif else none,
          xmp := if xmp ≠ [] then some xmp else none,
          flags := vp8xFlags fourcc bs alpha icc exif xmp,
          canvasW := w, canvasH := h, imageW := w, imageH := h, vp8lAlpha := la } := by
  have hN := hsz.body fourcc w h
  refine ⟨_, writeRIFFExtended_eq fourcc bs alpha w h icc exif xmp hN, ?_⟩
  rw [← optB_eq, ← optB_eq, ← optB_eq, ← optB_eq]
  exact wf_extFile fourcc bs alpha icc exif xmp w h l la hfcc himg
    (fun hf => by rw [hnoalph hf]; rfl) hw1 hw2 hh1 hh2 hN

/-- **writeExtended_demux** (C15 `metadata_readback` for the public encoder).  `mux.NewDemuxer`
    accepts the extended writer's output; ICCP / EXIF / XMP are stored byte for byte (`none` iff
    the blob was empty), the chunk list is exactly what was written (ids and payloads, in order),
    one frame carries the image and ALPH payloads, the flags are exact, the canvas is `(w, h)`. -/
theorem writeExtended_demux (fourcc : Nat) (bs alpha icc exif xmp : Bytes) (w h : Nat)
    (hfcc : fourcc = ccVP8 ∨ fourcc = ccVP8L)
    (hw1 : 1 ≤ w) (hw2 : w ≤ 16383) (hh1 : 1 ≤ h) (hh2 : h ≤ 16383)
    (hsz : SizesOK bs alpha icc exif xmp) :
    ∃ out s f, writeRIFFExtended fourcc bs alpha w h icc exif xmp = .ok out ∧
      Demux.parseWith true out = .ok s ∧
      s.iccData = (if icc ≠ [] then some icc else none) ∧
      s.exifData = (if exif ≠ [] then some exif else none) ∧
      s.xmpData = (if xmp ≠ [] then some xmp else none) ∧
      s.frames = [f] ∧ f.data = some bs ∧ f.alphaData = (if alpha ≠ [] then some alpha else none) ∧
      s.chunks.map (fun c => (c.id, c.data)) = extChunks fourcc bs alpha w h icc exif xmp ∧
      (s.features.hasICC = true ↔ icc ≠ []) ∧ (s.features.hasEXIF = true ↔ exif ≠ []) ∧
      (s.features.hasXMP = true ↔ xmp ≠ []) ∧
      (s.features.hasAlpha = true ↔ alpha ≠ [] ∨ vp8lAlphaBit fourcc bs = true) ∧
      s.features.hasAnimation = false ∧ s.features.width = w ∧ s.features.height = h := by
  have hN := hsz.body fourcc w h
  obtain ⟨f, hfr, hfd, hfa, hi, he, hx, hfeat, hch, _⟩ :=
    demuxFinal_fields fourcc bs alpha icc exif xmp w h
  obtain ⟨g1, g2, g3, g4, g5, g6, g7⟩ := featD_flags fourcc bs alpha icc exif xmp w h
  refine ⟨_, _, f, writeRIFFExtended_eq fourcc bs alpha w h icc exif xmp hN,
    demux_extFile fourcc bs alpha icc exif xmp w h hfcc hw1 hw2 hh1 hh2 hN hsz.2.1 hsz.2.2.1
      hsz.2.2.2, ?_, ?_, ?_, hfr, hfd, ?_, hch, ?_, ?_, ?_, ?_, ?_, ?_, ?_⟩
  · rw [hi, optB_eq]
  · rw [he, optB_eq]
  · rw [hx, optB_eq]
  · rw [hfa, optB_eq]
  · rw [hfeat]; exact g1
  · rw [hfeat]; exact g2
  · rw [hfeat]; exact g3
  · rw [hfeat]; exact g4
  · rw [hfeat]; exact g5
  · rw [hfeat]; exact g6
  · rw [hfeat]; exact g7

/-- The extended writer's own check: a RIFF size above `MaxUint32 − 8` is an error, nothing is
    written (so `SizesOK.1` is exactly "the writer did not fail"). -/
theorem writeExtended_tooLarge (fourcc : Nat) (bs alpha : Bytes) (w h : Int) (icc exif xmp : Bytes)
    (hbig : 4294967287 < 22 + optLen icc + optLen alpha + (8 + bs.length + bs.length % 2) +
      optLen exif + optLen xmp)
    (h64 : 22 + optLen icc + optLen alpha + (8 + bs.length + bs.length % 2) + optLen exif +
      optLen xmp < 18446744073709551616) :
    writeRIFFExtended fourcc bs alpha w h icc exif xmp = .err .tooLarge :=
  writeRIFFExtended_tooLarge fourcc bs alpha w h icc exif xmp
    (by rw [extBody_length]; omega) (by rw [extBody_length]; omega)

/-! ## VP8 frame assembler -/

/-- **assembleFrame_parse.**  Under the two size bounds the format imposes, the frame-layout
    reader recovers from `assembleFrame`'s output: width, height (scale bits 0), the first
    partition and every token partition, byte for byte; `container.NewParser`'s and
    `mux`'s VP8 header readers recover `(w, h)`.  Holds for every non-empty partition list, in
    particular for the 1, 2, 4, 8 partitions the encoder can emit. -/
theorem assembleFrame_parse (w h : Nat) (part0 : Bytes) (parts : List Bytes)
    (hp0 : part0.length < 2 ^ 19) (hsz : ∀ p ∈ parts.dropLast, p.length < 2 ^ 24)
    (hn : parts.length = 1 ∨ parts.length = 2 ∨ parts.length = 4 ∨ parts.length = 8)
    (hw1 : 1 ≤ w) (hw2 : w ≤ 16383) (hh1 : 1 ≤ h) (hh2 : h ≤ 16383) :
    ∃ out, assembleFrame w h part0 parts = .ok out ∧
      Spec.VP8Layout.splitFrame parts.length out =
        some { width := w, height := h, xScale := 0, yScale := 0, part0 := part0, parts := parts } ∧
      Parser.parseVP8Header out = .ok (w, h) ∧ Demux.parseVP8Dimensions out = .ok (w, h) := by
  have hne : parts ≠ [] := by
    intro h0; rw [h0] at hn; simp at hn
  refine ⟨_, assembleFrame_eq w h part0 parts, splitFrame_assembled w h part0 parts hp0 hne hsz
    hw1 hw2 hh1 hh2, ?_, ?_⟩
  · obtain ⟨f0, f3, f4, f5, f6, f8⟩ := frameHeader_fields w h part0.length
      (part0 ++ (partSizeTable parts ++ parts.flatten))
    have hl : (frameHeader w h part0.length ++ (part0 ++ (partSizeTable parts ++ parts.flatten))).length
        ≥ 10 := by rw [List.length_append, frameHeader_length]; omega
    have hb0 : byteAt (frameHeader w h part0.length ++ (part0 ++ (partSizeTable parts ++ parts.flatten))) 0
        = frameTag part0.length % 256 := by
      show (UInt8.ofNat (frameTag part0.length % 256)).toNat = _
      exact toNat_ofNat_mod _
    generalize frameHeader w h part0.length ++ (part0 ++ (partSizeTable parts ++ parts.flatten)) = X at *
    rw [frameTag_eq] at hb0
    unfold Parser.parseVP8Header
    rw [if_neg (by omega), hb0, if_neg (by omega), f3, f4, f5, if_neg (by decide)]
    dsimp only
    rw [f6, f8, if_neg (by omega)]
    have ew : w % 16384 % 16384 = w := by omega
    have eh : h % 16384 % 16384 = h := by omega
    rw [ew, eh]
  · obtain ⟨f0, f3, f4, f5, f6, f8⟩ := frameHeader_fields w h part0.length
      (part0 ++ (partSizeTable parts ++ parts.flatten))
    have hl : (frameHeader w h part0.length ++ (part0 ++ (partSizeTable parts ++ parts.flatten))).length
        ≥ 10 := by rw [List.length_append, frameHeader_length]; omega
    generalize frameHeader w h part0.length ++ (part0 ++ (partSizeTable parts ++ parts.flatten)) = X at *
    unfold Demux.parseVP8Dimensions
    rw [if_neg (by omega), f3, f4, f5, if_neg (by decide), f6, f8]
    have ew : w % 16384 % 16384 = w := by omega
    have eh : h % 16384 % 16384 = h := by omega
    rw [ew, eh]

/-- **assembleFrame_specReader_partial.**  Proved: the frame-tag reader of the VP8 *spec
    decoder* (`Spec.VP8.parseFrameTag`, on `ByteArray`) recovers key-frame / version 0 / show
    bit, the first-partition size and the dimensions from `assembleFrame`'s output.
    MISSING for the full statement (`Spec.VP8.partitionBounds` on the same bytes returns the
    byte ranges of `parts`): that function is a `for` loop with early exit over a `ByteArray`;
    its list twin `Spec.VP8Layout.splitFrame` is what `assembleFrame_parse` is proved against, and
    the two are compared on real encoder output by the driver op `vp8layoutck` (suite `writer`). -/
theorem assembleFrame_specReader_partial (w h : Nat) (part0 : Bytes) (parts : List Bytes)
    (hp0 : part0.length < 2 ^ 19)
    (hw1 : 1 ≤ w) (hw2 : w ≤ 16383) (hh1 : 1 ≤ h) (hh2 : h ≤ 16383) :
    ∃ out, assembleFrame w h part0 parts = .ok out ∧
      Spec.VP8.parseFrameTag (toBA out) =
        .ok { version := 0, showFrame := true, firstPartSize := part0.length, width := w,
              height := h, xScale := 0, yScale := 0 } :=
  ⟨_, assembleFrame_eq w h part0 parts,
    parseFrameTag_assembled w h part0 _ hp0 hw1 hw2 hh1 hh2⟩

/-- **assembleFrame_overflow_counterexample** (DESIGN.md D10).  `assembleFrame` has no failure
    path and stores both size fields truncated: the three frame-tag bytes for a first partition of
    `n + 2^19` bytes are those for `n` bytes, a partition-table entry for `n + 2^24` bytes is the
    one for `n` bytes — for every `n`; in particular 2^19 ↦ 0 and 2^24 ↦ 0.  (Stated on the header
    bytes as a function of the lengths, so no 512 KiB list is built in the kernel.) -/
theorem assembleFrame_overflow_counterexample :
    (∀ w h part0 parts, ∃ out, assembleFrame w h part0 parts = .ok out) ∧
    (∀ n, low24 (frameTag (n + 2 ^ 19)) = low24 (frameTag n)) ∧
    (∀ n, low24 (n + 2 ^ 24) = low24 n) ∧
    low24 (frameTag (2 ^ 19)) = low24 (frameTag 0) ∧ low24 (2 ^ 24) = low24 0 :=
  ⟨fun w h part0 parts => ⟨_, assembleFrame_eq w h part0 parts⟩, frameTag_wraps, low24_wraps,
    by decide, by decide⟩

/-- Consequence: when `len(part0) ≥ 2^19` no reader of the frame layout can get the first
    partition back from the assembled frame — whatever it returns is shorter than 2^19 bytes.
    (Observed on the real encoder: 5712×5712 noise, Quality 75, Method 4 → `Encode` returns nil,
    `Decode` fails; likewise 5600×5600, Quality 100, Method 0, Partitions 1 for the 24-bit field.) -/
theorem assembleFrame_overflow_unreadable (w h : Nat) (part0 : Bytes) (parts : List Bytes)
    (hbig : 2 ^ 19 ≤ part0.length) :
    ∃ out, assembleFrame w h part0 parts = .ok out ∧
      ∀ n L, Spec.VP8Layout.splitFrame n out = some L → L.part0 ≠ part0 := by
  refine ⟨_, assembleFrame_eq w h part0 parts, ?_⟩
  intro n L hL he
  have := splitFrame_part0_lt hL
  rw [he] at this
  omega

/-! ## non-vacuity: real encoder output (2×1 picture, second pixel translucent)

`realVP8L`, `realVP8`, `realALPH` are the chunk payloads `webp.Encode` produced; the four
`goFile…` literals are the complete files it wrote.  The models reproduce them byte for byte. -/

def realVP8L : Bytes := [0x2f, 0x01, 0x00, 0x00, 0x10, 0x0f, 0x70, 0x32, 0xd8, 0x0b, 0x21, 0x5f, 0x86, 0xfd, 0x7f, 0x80, 0xa1, 0xa5, 0xc8, 0x88, 0xfe, 0x07]
def realVP8 : Bytes := [0xd0, 0x01, 0x00, 0x9d, 0x01, 0x2a, 0x02, 0x00, 0x01, 0x00, 0x02, 0x00, 0x34, 0x25, 0xa8, 0x02, 0x74, 0x0a, 0x50, 0x01, 0x2b, 0x74, 0x80, 0x00, 0xfe, 0xde, 0x3a, 0x7f, 0xc5, 0x7b, 0xf5, 0x20, 0xe4, 0x39, 0x8d, 0x6e, 0x04, 0x77, 0xf9, 0xcb, 0x42, 0xb2, 0xcc, 0x1d, 0x29, 0xa6, 0x2d, 0xa4, 0x42, 0x0e, 0x55, 0xea, 0xf2, 0xb8, 0x00, 0x00]
def realALPH : Bytes := [0x00, 0xff, 0x80]
/-- `Encode(Lossless)` → streaming path -/
def goFileLossless : Bytes := [0x52, 0x49, 0x46, 0x46, 0x22, 0x00, 0x00, 0x00, 0x57, 0x45, 0x42, 0x50, 0x56, 0x50, 0x38, 0x4c, 0x16, 0x00, 0x00, 0x00, 0x2f, 0x01, 0x00, 0x00, 0x10, 0x0f, 0x70, 0x32, 0xd8, 0x0b, 0x21, 0x5f, 0x86, 0xfd, 0x7f, 0x80, 0xa1, 0xa5, 0xc8, 0x88, 0xfe, 0x07]
/-- `Encode(Lossless, ICC = "RIFF", XMP = 01 02 03)` -/
def goFileLosslessMeta : Bytes := [0x52, 0x49, 0x46, 0x46, 0x4c, 0x00, 0x00, 0x00, 0x57, 0x45, 0x42, 0x50, 0x56, 0x50, 0x38, 0x58, 0x0a, 0x00, 0x00, 0x00, 0x34, 0x00, 0x00, 0x00, 0x01, 0x00, 0x00, 0x00, 0x00, 0x00, 0x49, 0x43, 0x43, 0x50, 0x04, 0x00, 0x00, 0x00, 0x52, 0x49, 0x46, 0x46, 0x56, 0x50, 0x38, 0x4c, 0x16, 0x00, 0x00, 0x00, 0x2f, 0x01, 0x00, 0x00, 0x10, 0x0f, 0x70, 0x32, 0xd8, 0x0b, 0x21, 0x5f, 0x86, 0xfd, 0x7f, 0x80, 0xa1, 0xa5, 0xc8, 0x88, 0xfe, 0x07, 0x58, 0x4d, 0x50, 0x20, 0x03, 0x00, 0x00, 0x00, 0x01, 0x02, 0x03, 0x00]
/-- `Encode(lossy)` of the same picture (has alpha ⇒ extended layout) -/
def goFileLossy : Bytes := [0x52, 0x49, 0x46, 0x46, 0x62, 0x00, 0x00, 0x00, 0x57, 0x45, 0x42, 0x50, 0x56, 0x50, 0x38, 0x58, 0x0a, 0x00, 0x00, 0x00, 0x10, 0x00, 0x00, 0x00, 0x01, 0x00, 0x00, 0x00, 0x00, 0x00, 0x41, 0x4c, 0x50, 0x48, 0x03, 0x00, 0x00, 0x00, 0x00, 0xff, 0x80, 0x00, 0x56, 0x50, 0x38, 0x20, 0x38, 0x00, 0x00, 0x00, 0xd0, 0x01, 0x00, 0x9d, 0x01, 0x2a, 0x02, 0x00, 0x01, 0x00, 0x02, 0x00, 0x34, 0x25, 0xa8, 0x02, 0x74, 0x0a, 0x50, 0x01, 0x2b, 0x74, 0x80, 0x00, 0xfe, 0xde, 0x3a, 0x7f, 0xc5, 0x7b, 0xf5, 0x20, 0xe4, 0x39, 0x8d, 0x6e, 0x04, 0x77, 0xf9, 0xcb, 0x42, 0xb2, 0xcc, 0x1d, 0x29, 0xa6, 0x2d, 0xa4, 0x42, 0x0e, 0x55, 0xea, 0xf2, 0xb8, 0x00, 0x00]
/-- `Encode(lossy, ICC = "RIFF", XMP = 01 02 03)` — an ICC blob that *is* a FourCC -/
def goFileLossyMeta : Bytes := [0x52, 0x49, 0x46, 0x46, 0x7a, 0x00, 0x00, 0x00, 0x57, 0x45, 0x42, 0x50, 0x56, 0x50, 0x38, 0x58, 0x0a, 0x00, 0x00, 0x00, 0x34, 0x00, 0x00, 0x00, 0x01, 0x00, 0x00, 0x00, 0x00, 0x00, 0x49, 0x43, 0x43, 0x50, 0x04, 0x00, 0x00, 0x00, 0x52, 0x49, 0x46, 0x46, 0x41, 0x4c, 0x50, 0x48, 0x03, 0x00, 0x00, 0x00, 0x00, 0xff, 0x80, 0x00, 0x56, 0x50, 0x38, 0x20, 0x38, 0x00, 0x00, 0x00, 0xd0, 0x01, 0x00, 0x9d, 0x01, 0x2a, 0x02, 0x00, 0x01, 0x00, 0x02, 0x00, 0x34, 0x25, 0xa8, 0x02, 0x74, 0x0a, 0x50, 0x01, 0x2b, 0x74, 0x80, 0x00, 0xfe, 0xde, 0x3a, 0x7f, 0xc5, 0x7b, 0xf5, 0x20, 0xe4, 0x39, 0x8d, 0x6e, 0x04, 0x77, 0xf9, 0xcb, 0x42, 0xb2, 0xcc, 0x1d, 0x29, 0xa6, 0x2d, 0xa4, 0x42, 0x0e, 0x55, 0xea, 0xf2, 0xb8, 0x00, 0x00, 0x58, 0x4d, 0x50, 0x20, 0x03, 0x00, 0x00, 0x00, 0x01, 0x02, 0x03, 0x00]

example : HeaderOK ccVP8L realVP8L 2 1 true := .inr ⟨rfl, by decide +kernel⟩
example : HeaderOK ccVP8 realVP8 2 1 false := .inl ⟨rfl, by decide +kernel, rfl⟩
example : SimpleSizeOK realVP8L := by unfold SimpleSizeOK; decide +kernel
example : SizesOK realVP8 realALPH [0x52, 0x49, 0x46, 0x46] [] [1, 2, 3] := by
  unfold SizesOK; decide +kernel
example : Spec.RiffStill.imageInfo (putLE32 ccVP8L) realVP8L = some (true, 2, 1, true) := by
  decide +kernel
example : Spec.RiffStill.imageInfo (putLE32 ccVP8) realVP8 = some (false, 2, 1, false) := by
  decide +kernel
example : writeRIFFSimple ccVP8L realVP8L = .ok goFileLossless := by decide +kernel
example : streamingWrite realVP8L = goFileLossless := by decide +kernel
example : writeRIFFExtended ccVP8L realVP8L [] 2 1 [0x52, 0x49, 0x46, 0x46] [] [1, 2, 3] =
    .ok goFileLosslessMeta := by decide +kernel
example : writeRIFFExtended ccVP8 realVP8 realALPH 2 1 [] [] [] = .ok goFileLossy := by
  decide +kernel
example : writeRIFFExtended ccVP8 realVP8 realALPH 2 1 [0x52, 0x49, 0x46, 0x46] [] [1, 2, 3] =
    .ok goFileLossyMeta := by decide +kernel
/-- the real VP8 payload is `assembleFrame` of its own pieces (first partition 14 bytes) -/
example : assembleFrame 2 1 ((realVP8.drop 10).take 14) [realVP8.drop 24] = .ok realVP8 := by
  decide +kernel
example : Spec.VP8Layout.splitFrame 1 realVP8 =
    some { width := 2, height := 1, xScale := 0, yScale := 0,
           part0 := (realVP8.drop 10).take 14, parts := [realVP8.drop 24] } := by decide +kernel
/-- hypotheses of `assembleFrame_parse` on it -/
example : ((realVP8.drop 10).take 14).length < 2 ^ 19 ∧
    (∀ p ∈ [realVP8.drop 24].dropLast, p.length < 2 ^ 24) := by decide +kernel
/-- the walker is not vacuous: it rejects the same file with one flag flipped / one byte cut -/
example : (Spec.RiffStill.wellFormed goFileLossyMeta).toOption = some
    { extended := true, lossless := false, image := realVP8, alpha := some realALPH,
      icc := some [0x52, 0x49, 0x46, 0x46], exif := none, xmp := some [1, 2, 3], flags := 0x34,
      canvasW := 2, canvasH := 1, imageW := 2, imageH := 1, vp8lAlpha := false } := by
  decide +kernel
example : (match Spec.RiffStill.wellFormed (goFileLossyMeta.set 20 0x3c) with
    | .error e => some e | .ok _ => none) = some .flagMismatch := by decide +kernel
example : (match Spec.RiffStill.wellFormed goFileLossyMeta.dropLast with
    | .error e => some e | .ok _ => none) = some .riffSize := by decide +kernel

end Webp.Props.C02
