import Generated.Funcs
import Webp.Impl.VP8Kernels
import Webp.Impl.VP8Recon
import Webp.Impl.CodecFront
import Webp.Proofs.FuncsBridge
/-
  C04 (and C06, C13: the same scalar kernels) — regenerated obligations: the scalar helpers of the
  VP8 decoder translated from the Go AST on this run (`Generated/Funcs.lean`) are the functions of
  the kernel models `Webp.Impl.VP8Kernels` / `Webp.Impl.VP8Recon` that the C04/C06/C13 kernel
  theorems are about.  Go `int` is `Int` without wrap: the ranges are in the header of Funcs.lean
  (`|a| < 2^47` for the `20091`/`35468` products; the IDCT inputs are 12-bit coefficients).
-/
namespace Webp.Props.C04Funcs
open Webp.Go Webp.Go.IntSem Webp.Proofs.FuncsBridge

/-- transforms.go `mul1` (`MUL1`: `((a * 20091) >> 16) + a`) -/
theorem tie_mul1 : Generated.Funcs.mul1 = Webp.Impl.VP8Kernels.mul1 := by
  funext a
  simp only [Generated.Funcs.mul1, Webp.Impl.VP8Kernels.mul1, shr_lit_eq_div]
  rfl

theorem tie_mul1_recon : Generated.Funcs.mul1 = Webp.Impl.VP8Recon.mul1 := by
  funext a; rfl

/-- transforms.go `mul2` (`MUL2`: `(a * 35468) >> 16`) -/
theorem tie_mul2 : Generated.Funcs.mul2 = Webp.Impl.VP8Kernels.mul2 := by
  funext a
  simp only [Generated.Funcs.mul2, Webp.Impl.VP8Kernels.mul2, shr_lit_eq_div]
  rfl

theorem tie_mul2_recon : Generated.Funcs.mul2 = Webp.Impl.VP8Recon.mul2 := by
  funext a; rfl

/-- yuv.go `multHi(v, coeff) = (v * coeff) >> 8` -/
theorem tie_multHi : Generated.Funcs.multHi = Webp.Impl.VP8Kernels.multHi := by
  funext v c
  simp only [Generated.Funcs.multHi, Webp.Impl.VP8Kernels.multHi, shr_lit_eq_div]
  rfl

/-- cliptables.go `Clip8b` (unsigned-compare fast path, sign-mask slow path) is the saturation
    `clip8b` of the kernel model, for every 64-bit `int` -/
theorem tie_Clip8b (v : Int) (h0 : -9223372036854775808 ≤ v) (h1 : v < 9223372036854775808) :
    Generated.Funcs.Clip8b v = Webp.Impl.VP8Kernels.clip8b v := by
  unfold Generated.Funcs.Clip8b Webp.Impl.VP8Kernels.clip8b
  by_cases hneg : v < 0
  · have e1 : wrapU 64 v = v + 18446744073709551616 := by
      unfold wrapU
      have := Int.add_mul_emod_self_left v 18446744073709551616 1
      rw [Int.mul_one] at this
      simp only [Int.reducePow]
      rw [← this]
      exact Int.emod_eq_of_lt (by omega) (by omega)
    have e2 : shr v 63 = -1 := by
      rw [shr_lit_eq_div]
      simp only [Int.reducePow]
      omega
    have hc : ¬ (wrapU 64 v ≤ 255) := by rw [e1]; omega
    have hm : ¬ (0 ≤ v ∧ v ≤ 255) := by omega
    simp only [hc, hm, decide_false, Bool.false_eq_true, if_false, e2, hneg, if_true]
    decide
  · have e1 : wrapU 64 v = v := wrapU_of_range 64 v (by omega) (by simp only [Int.reducePow]; omega)
    by_cases hle : v ≤ 255
    · have hm : (0 ≤ v ∧ v ≤ 255) := by omega
      simp only [e1, hle, decide_true, if_true, hm, and_self]
      exact wrapU8_of_range v (by omega) (by omega)
    · have e2 : shr v 63 = 0 := by
        rw [shr_lit_eq_div]
        simp only [Int.reducePow]
        omega
      have hm : ¬ (0 ≤ v ∧ v ≤ 255) := by omega
      simp only [e1, hle, decide_false, Bool.false_eq_true, if_false, e2, hneg, and_false]
      decide

/-- decode_quant.go `clip(v, max)` -/
theorem tie_lossy_clip : Generated.Funcs.lossy_clip = Webp.Impl.VP8Recon.clip := by
  funext v m
  simp only [Generated.Funcs.lossy_clip, Webp.Impl.VP8Recon.clip, decide_eq_true_eq]

theorem tie_lossy_clip_front : Generated.Funcs.lossy_clip = Webp.Impl.CodecFront.clip := by
  funext v m
  simp only [Generated.Funcs.lossy_clip, Webp.Impl.CodecFront.clip, decide_eq_true_eq]

/-- encode.go `clampInt(v, lo, hi)` -/
theorem tie_clampInt : Generated.Funcs.clampInt = Webp.Impl.VP8Recon.clampInt := by
  funext v lo hi
  simp only [Generated.Funcs.clampInt, Webp.Impl.VP8Recon.clampInt, decide_eq_true_eq]

/-- transforms.go `b2i(cond)`: the `+ b2i(a3 != 0)` term of `FTransform` as the model
    `Impl.VP8Kernels` writes it (`if a3 ≠ 0 then 1 else 0`) -/
theorem tie_b2i (a : Int) : Generated.Funcs.b2i (decide (a ≠ 0)) = (if a ≠ 0 then 1 else 0) := by
  unfold Generated.Funcs.b2i; simp

/-- `b2i` is the encoding's `boolToInt` -/
theorem b2i_eq : Generated.Funcs.b2i = boolToInt := rfl

/-- yuv.go `clip(v, maxVal) uint8` = the saturation `clamp v 0 maxVal` of the kernel model, truncated
    to a byte (every `v`, `maxVal`) -/
theorem tie_dsp_clip (v m : Int) :
    Generated.Funcs.dsp_clip v m = Webp.Impl.VP8Kernels.toU8 (Webp.Impl.VP8Kernels.clamp v 0 m) := by
  unfold Generated.Funcs.dsp_clip Webp.Impl.VP8Kernels.toU8 Webp.Impl.VP8Kernels.clamp
  simp only [wrapU8_eq, decide_eq_true_eq]
  split
  · rfl
  · split <;> rfl

/-- … no truncation for a byte-sized `maxVal` -/
theorem dsp_clip_eq_clamp (v m : Int) (h0 : 0 ≤ m) (h1 : m ≤ 255) :
    Generated.Funcs.dsp_clip v m = Webp.Impl.VP8Kernels.clamp v 0 m := by
  rw [tie_dsp_clip]
  unfold Webp.Impl.VP8Kernels.toU8 Webp.Impl.VP8Kernels.clamp
  split
  · rfl
  · split <;> omega

/-- non-vacuity -/
example : Generated.Funcs.mul1 1000 = 1306 ∧ Generated.Funcs.mul2 (-1000) = -542 := by decide
example : Generated.Funcs.Clip8b (-5) = 0 ∧ Generated.Funcs.Clip8b 300 = 255 ∧ Generated.Funcs.Clip8b 77 = 77 := by decide
example : Generated.Funcs.b2i (decide ((7 : Int) ≠ 0)) = 1 ∧ Generated.Funcs.b2i (decide ((0 : Int) ≠ 0)) = 0 := by decide
example : Generated.Funcs.dsp_clip (-5) 15 = 0 ∧ Generated.Funcs.dsp_clip 300 15 = 15 ∧ Generated.Funcs.dsp_clip 9 15 = 9 ∧
    Generated.Funcs.dsp_clip 300 256 = 0 := by decide

end Webp.Props.C04Funcs
