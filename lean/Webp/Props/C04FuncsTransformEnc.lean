import Webp.Proofs.FuncsTransformEnc
import Webp.Props.C04Funcs
/-
  C04 (and C13: the same kernels) — regenerated obligations for the ENCODER-side transforms of
  internal/dsp/transforms.go: `fTransformWHT`, `fTransform`, `iTransformOne`, `iTransform`
  translated from the Go AST on this run (`Generated/Funcs.lean`) are the pointwise kernel models
  of `Webp.Impl.VP8Kernels` (`fTransformWHT`, `fTransform`, `transformOne` with `p := ref`).

  Conventions.  A pixel buffer has stride `BPS = 32` (inlined by the translator): row `r`, column
  `x` of a 4x4 block is index `x + 32*r`, i.e. raster position `k = 4*r + x` is index
  `k % 4 + 32 * (k / 4)`.  Coefficient blocks are flat: coefficient `k` is index `k`.
  A function that writes a slice returns the updated list; every theorem gives
  (1) the exact minimal lengths for which the call does not panic (the `_panic` theorems are the
  converse), (2) the length of the result, (3) the written positions, pointwise equal to the model,
  (4) the frame: every other position is unchanged.

  `int16(x)` is `wrapS 16 x` in the translation and `toI16 x` in the model
  (`wrapS16_eq_toI16`: the same function), so the forward transforms need NO range hypothesis.
  `iTransformOne` needs the type invariants of its parameters (`ref []byte`, `in []int16`) for the
  64-bit side condition of `tie_Clip8b` only (`|hres (vtmp in) k| ≤ 2^20`, `hres_vtmp_bound`).

  Aliasing: the translation is functional (`ref`, `in`, `dst` are three values).  The Go callers
  pass distinct buffers; `ref` and `dst` overlapping in memory is outside these statements.
-/
namespace Webp.Props.C04FuncsTransformEnc
open Webp.Go Webp.Go.IntSem Webp.Proofs.FuncsBridge Webp.Proofs.FuncsListOps
open Webp.Proofs.FuncsTransformEnc
open Webp.Impl.VP8Kernels (transformOne store hres vtmp clip8b)

/-! ## `fTransformWHT(in, out []int16)` -/

set_option maxRecDepth 4000 in
/-- transforms.go `fTransformWHT`: for `len(in) ≥ 16`, `len(out) ≥ 16` the call returns, `out[k]`
    (`k < 16`) is the model's `fTransformWHT in k` (flat input `in[4*r + c]`, NOT the stride-16
    layout of libwebp), the rest of `out` is unchanged.  No range hypothesis. -/
theorem tie_fTransformWHT (inp outp : List Int) (hi : 16 ≤ inp.length) (ho : 16 ≤ outp.length) :
    ∃ out, Generated.Funcs.fTransformWHT inp outp = .ok out ∧ out.length = outp.length ∧
      (∀ k, k < 16 → out.getD k 0 = Webp.Impl.VP8Kernels.fTransformWHT (fun i => inp.getD i 0) k) ∧
      (∀ j, 16 ≤ j → out.getD j 0 = outp.getD j 0) := by
  unfold Generated.Funcs.fTransformWHT
  have hz : (zerosI 16).length = 16 := by simp [zerosI]
  generalize zerosI 16 = z at hz
  dsimp only
  simp only [forRangeM_0_4_1, Int.reduceMul, Int.reduceAdd]
  simp (disch := first | omega | (simp only [List.length_set]; omega)) only
    [idxI_lit, ok_bind', setI_lit, getD_set_eq, getD_set_ne]
  refine ⟨_, rfl, ?_, ?_, ?_⟩
  · simp only [List.length_set]
  · apply forall_lt_16
    refine ⟨?_, ?_, ?_, ?_, ?_, ?_, ?_, ?_, ?_, ?_, ?_, ?_, ?_, ?_, ?_, ?_⟩
    all_goals
      simp (disch := first | omega | (simp only [List.length_set]; omega)) only [getD_set_eq, getD_set_ne]
      simp only [Webp.Impl.VP8Kernels.fTransformWHT, Webp.Impl.VP8Kernels.fwhtTmp, Nat.reduceMod,
        Nat.reduceDiv, Nat.reduceMul, Nat.reduceAdd, wrapS16_eq_toI16, shr_lit_eq_div, Int.reducePow]
  · intro j hj
    simp (disch := first | omega | (simp only [List.length_set]; omega)) only [getD_set_ne]

set_option maxRecDepth 4000 in
/-- … and these lengths are minimal: a shorter `in` or `out` is a run-time panic -/
theorem fTransformWHT_panic (inp outp : List Int) (h : inp.length < 16 ∨ outp.length < 16) :
    Generated.Funcs.fTransformWHT inp outp = .panic := by
  unfold Generated.Funcs.fTransformWHT
  dsimp only
  simp only [forRangeM_0_4_1, Int.reduceMul, Int.reduceAdd, bind_assoc, ok_bind']
  by_cases hi : inp.length < 16
  · panic_chain
  · have ho : outp.length < 16 := by omega
    panic_chain

/-! ## `fTransform(src, ref []byte, out []int16)` -/

set_option maxRecDepth 8000 in
/-- transforms.go `fTransform`: for `len(src), len(ref) ≥ 100 = 3 + 3*BPS + 1`, `len(out) ≥ 16` the
    call returns, `out[k]` (`k < 16`) is the model's `fTransform src ref k` on the two 4x4 blocks of
    stride 32, the rest of `out` is unchanged.  No range hypothesis (`toI16` is in the model). -/
theorem tie_fTransform (src ref outp : List Int)
    (hs : 100 ≤ src.length) (hr : 100 ≤ ref.length) (ho : 16 ≤ outp.length) :
    ∃ out, Generated.Funcs.fTransform src ref outp = .ok out ∧ out.length = outp.length ∧
      (∀ k, k < 16 → out.getD k 0 = Webp.Impl.VP8Kernels.fTransform
          (fun i => src.getD ((i % 4) + 32 * (i / 4)) 0) (fun i => ref.getD ((i % 4) + 32 * (i / 4)) 0) k) ∧
      (∀ j, 16 ≤ j → out.getD j 0 = outp.getD j 0) := by
  unfold Generated.Funcs.fTransform
  have hz : (zerosI 16).length = 16 := by simp [zerosI]
  generalize zerosI 16 = z at hz
  dsimp only
  simp (disch := first | omega | (simp only [List.length_set]; omega)) only
    [↓bind_idxI_lit, ↓bind_setI_lit, getD_set_eq, getD_set_ne]
  refine ⟨_, rfl, ?_, ?_, ?_⟩
  · simp only [List.length_set]
  · apply forall_lt_16
    refine ⟨?_, ?_, ?_, ?_, ?_, ?_, ?_, ?_, ?_, ?_, ?_, ?_, ?_, ?_, ?_, ?_⟩
    all_goals
      simp (disch := first | omega | (simp only [List.length_set]; omega)) only [getD_set_eq, getD_set_ne]
      simp only [Webp.Impl.VP8Kernels.fTransform, Webp.Impl.VP8Kernels.fdctTmp, Nat.reduceMod,
        Nat.reduceDiv, Nat.reduceMul, Nat.reduceAdd, wrapS16_eq_toI16, shr_lit_eq_div, Int.reducePow,
        b2i_ne]
  · intro j hj
    simp (disch := first | omega | (simp only [List.length_set]; omega)) only [getD_set_ne]

/-- minimality of the lengths (the three BCE hints `_ = src[3+3*BPS]`, `_ = ref[3+3*BPS]`,
    `_ = out[15]`) -/
theorem fTransform_panic (src ref outp : List Int)
    (h : src.length < 100 ∨ ref.length < 100 ∨ outp.length < 16) :
    Generated.Funcs.fTransform src ref outp = .panic := by
  unfold Generated.Funcs.fTransform
  dsimp only
  by_cases hs : src.length < 100
  · panic_chain
  · by_cases hr : ref.length < 100
    · panic_chain
    · have ho : outp.length < 16 := by omega
      panic_chain

/-! ## `iTransformOne(ref []byte, in []int16, dst []byte)` -/

/-- the model's `transformOne c p k = clip8b (p k + hres (vtmp c) k / 8)` is the translated
    `Clip8b` on `int16` coefficients and byte predictions (the argument is below `2^20 + 255`) -/
theorem transformOne_eq_Clip8b (c p : Nat → Int) (hc : ∀ i, -32768 ≤ c i ∧ c i ≤ 32767)
    (hp : ∀ i, 0 ≤ p i ∧ p i ≤ 255) (k : Nat) :
    transformOne c p k = Generated.Funcs.Clip8b (p k + hres (vtmp c) k / 8) := by
  have hb := hres_vtmp_bound c hc k
  have := hp k
  unfold transformOne store
  rw [Webp.Props.C04Funcs.tie_Clip8b _ (by omega) (by omega)]

/-- transforms.go `iTransformOne`: for `len(ref), len(dst) ≥ 100`, `len(in) ≥ 16`, byte `ref` and
    `int16` `in`, the call returns; the 16 block positions of `dst` are the model's
    `transformOne in ref k = clip8b (ref k + (hres (vtmp in) k >> 3))` (the previous content of `dst`
    is NOT read, unlike the decoder's `transformOne`), every other position of `dst` is unchanged. -/
theorem tie_iTransformOne (ref inp dst : List Int)
    (hr : 100 ≤ ref.length) (hi : 16 ≤ inp.length) (hd : 100 ≤ dst.length)
    (hri : ∀ x ∈ ref, 0 ≤ x ∧ x ≤ 255) (hii : ∀ x ∈ inp, -32768 ≤ x ∧ x ≤ 32767) :
    ∃ out, Generated.Funcs.iTransformOne ref inp dst = .ok out ∧ out.length = dst.length ∧
      (∀ k, k < 16 → out.getD ((k % 4) + 32 * (k / 4)) 0 = transformOne
          (fun i => inp.getD i 0) (fun i => ref.getD ((i % 4) + 32 * (i / 4)) 0) k) ∧
      (∀ j, (4 ≤ j % 32 ∨ 128 ≤ j) → out.getD j 0 = dst.getD j 0) := by
  have hc : ∀ i, -32768 ≤ (fun i => inp.getD i 0) i ∧ (fun i => inp.getD i 0) i ≤ 32767 := fun i =>
    getD_of_forall_mem inp (fun x => -32768 ≤ x ∧ x ≤ 32767) hii (by omega) i
  have hp : ∀ i, 0 ≤ (fun i => ref.getD ((i % 4) + 32 * (i / 4)) 0) i ∧
      (fun i => ref.getD ((i % 4) + 32 * (i / 4)) 0) i ≤ 255 := fun i =>
    getD_of_forall_mem ref (fun x => 0 ≤ x ∧ x ≤ 255) hri (by omega) _
  obtain ⟨out, e, l, p, f⟩ := iTransformOne_spec ref inp dst hr hi hd
  refine ⟨out, e, l, ?_, f⟩
  intro k hk
  rw [p k hk, transformOne_eq_Clip8b _ _ hc hp]

/-- minimality of the lengths (BCE hints `_ = in[15]`, `_ = ref[3+3*BPS]`, `_ = dst[3+3*BPS]`) -/
theorem iTransformOne_panic (ref inp dst : List Int)
    (h : inp.length < 16 ∨ ref.length < 100 ∨ dst.length < 100) :
    Generated.Funcs.iTransformOne ref inp dst = .panic := by
  unfold Generated.Funcs.iTransformOne
  dsimp only
  by_cases hi : inp.length < 16
  · panic_chain
  · by_cases hr : ref.length < 100
    · panic_chain
    · have hd : dst.length < 100 := by omega
      panic_chain

/-! ## `iTransform(ref, in, dst, doTwo)` -/

/-- `doTwo = false`: one block -/
theorem tie_iTransform_one (ref inp dst : List Int)
    (hr : 100 ≤ ref.length) (hi : 16 ≤ inp.length) (hd : 100 ≤ dst.length)
    (hri : ∀ x ∈ ref, 0 ≤ x ∧ x ≤ 255) (hii : ∀ x ∈ inp, -32768 ≤ x ∧ x ≤ 32767) :
    ∃ out, Generated.Funcs.iTransform ref inp dst false = .ok out ∧ out.length = dst.length ∧
      (∀ k, k < 16 → out.getD ((k % 4) + 32 * (k / 4)) 0 = transformOne
          (fun i => inp.getD i 0) (fun i => ref.getD ((i % 4) + 32 * (i / 4)) 0) k) ∧
      (∀ j, (4 ≤ j % 32 ∨ 128 ≤ j) → out.getD j 0 = dst.getD j 0) := by
  obtain ⟨d1, e1, l1, p1, f1⟩ := tie_iTransformOne ref inp dst hr hi hd hri hii
  refine ⟨d1, ?_, l1, p1, f1⟩
  unfold Generated.Funcs.iTransform
  rw [e1]; rfl

/-- `doTwo = true`: `iTransformOne(ref, in, dst)` then `iTransformOne(ref[4:], in[16:], dst[4:])`.
    For `len(ref), len(dst) ≥ 104`, `len(in) ≥ 32` the call returns; the left block (columns 0..3)
    is `transformOne` of coefficients `in[0..16)` on `ref` columns 0..3, the right block (columns
    4..7) is `transformOne` of `in[16..32)` on `ref` columns 4..7, everything else is unchanged
    (the second call does not disturb the first block). -/
theorem tie_iTransform_two (ref inp dst : List Int)
    (hr : 104 ≤ ref.length) (hi : 32 ≤ inp.length) (hd : 104 ≤ dst.length)
    (hri : ∀ x ∈ ref, 0 ≤ x ∧ x ≤ 255) (hii : ∀ x ∈ inp, -32768 ≤ x ∧ x ≤ 32767) :
    ∃ out, Generated.Funcs.iTransform ref inp dst true = .ok out ∧ out.length = dst.length ∧
      (∀ k, k < 16 → out.getD ((k % 4) + 32 * (k / 4)) 0 = transformOne
          (fun i => inp.getD i 0) (fun i => ref.getD ((i % 4) + 32 * (i / 4)) 0) k) ∧
      (∀ k, k < 16 → out.getD (4 + ((k % 4) + 32 * (k / 4))) 0 = transformOne
          (fun i => inp.getD (16 + i) 0) (fun i => ref.getD (4 + ((i % 4) + 32 * (i / 4))) 0) k) ∧
      (∀ j, (8 ≤ j % 32 ∨ 128 ≤ j) → out.getD j 0 = dst.getD j 0) := by
  obtain ⟨d1, e1, l1, p1, f1⟩ := tie_iTransformOne ref inp dst (by omega) (by omega) (by omega) hri hii
  obtain ⟨w, e2, l2, p2, f2⟩ := tie_iTransformOne (ref.drop 4) (inp.drop 16) (d1.drop 4)
    (by simp only [List.length_drop]; omega) (by simp only [List.length_drop]; omega)
    (by simp only [List.length_drop]; omega)
    (fun x hx => hri x (List.mem_of_mem_drop hx)) (fun x hx => hii x (List.mem_of_mem_drop hx))
  have t4 : (4 : Int).toNat = 4 := by decide
  have t16 : (16 : Int).toNat = 16 := by decide
  have hw : w.length = d1.length - 4 := by rw [l2, List.length_drop]
  have hget : ∀ j, (spliceI d1 4 w).getD j 0 = if j < 4 then d1.getD j 0 else w.getD (j - 4) 0 :=
    fun j => getD_spliceI_tail d1 w 4 (by omega) hw j
  have hlen : (spliceI d1 4 w).length = d1.length := length_spliceI_tail d1 w 4 (by omega) hw
  simp only [getD_drop] at p2 f2
  refine ⟨spliceI d1 4 w, ?_, by rw [hlen, l1], ?_, ?_, ?_⟩
  · unfold Generated.Funcs.iTransform
    rw [e1]
    simp only [ok_bind', if_true]
    rw [sliceI_to_end ref 4 (by omega) (by omega), sliceI_to_end inp 16 (by omega) (by omega)]
    simp only [ok_bind']
    rw [sliceI_to_end d1 4 (by omega) (by omega)]
    simp only [ok_bind', t4, t16, e2]
  · intro k hk
    rw [hget]
    by_cases h : k % 4 + 32 * (k / 4) < 4
    · simp only [h, if_true]; exact p1 k hk
    · simp only [h, if_false]
      rw [f2 _ (by omega), show 4 + (k % 4 + 32 * (k / 4) - 4) = k % 4 + 32 * (k / 4) by omega]
      exact p1 k hk
  · intro k hk
    rw [hget]
    have h : ¬ (4 + (k % 4 + 32 * (k / 4)) < 4) := by omega
    simp only [h, if_false, show 4 + (k % 4 + 32 * (k / 4)) - 4 = k % 4 + 32 * (k / 4) by omega]
    exact p2 k hk
  · intro j hj
    rw [hget]
    have h : ¬ (j < 4) := by omega
    simp only [h, if_false]
    rw [f2 _ (by omega), show 4 + (j - 4) = j by omega]
    exact f1 j (by omega)

/-- minimality, `doTwo = false` -/
theorem iTransform_one_panic (ref inp dst : List Int)
    (h : inp.length < 16 ∨ ref.length < 100 ∨ dst.length < 100) :
    Generated.Funcs.iTransform ref inp dst false = .panic := by
  unfold Generated.Funcs.iTransform
  rw [iTransformOne_panic ref inp dst h]; rfl

/-- minimality, `doTwo = true` (no range hypothesis: whether a call panics depends on the lengths
    only) -/
theorem iTransform_two_panic (ref inp dst : List Int)
    (h : inp.length < 32 ∨ ref.length < 104 ∨ dst.length < 104) :
    Generated.Funcs.iTransform ref inp dst true = .panic := by
  unfold Generated.Funcs.iTransform
  by_cases h1 : inp.length < 16 ∨ ref.length < 100 ∨ dst.length < 100
  · rw [iTransformOne_panic ref inp dst h1]; rfl
  · obtain ⟨d1, e1, l1, -, -⟩ := iTransformOne_spec ref inp dst (by omega) (by omega) (by omega)
    have t4 : (4 : Int).toNat = 4 := by decide
    have t16 : (16 : Int).toNat = 16 := by decide
    rw [e1]
    simp only [ok_bind', if_true]
    rw [sliceI_to_end ref 4 (by omega) (by omega), sliceI_to_end inp 16 (by omega) (by omega)]
    simp only [ok_bind']
    rw [sliceI_to_end d1 4 (by omega) (by omega)]
    simp only [ok_bind', t4, t16]
    rw [iTransformOne_panic (ref.drop 4) (inp.drop 16) (d1.drop 4)
      (by simp only [List.length_drop]; omega)]
    rfl

/-! ## non-vacuity: the hypotheses are satisfiable, and the conclusions are not trivial -/

example : ∃ out, Generated.Funcs.fTransformWHT (List.replicate 16 100) (List.replicate 20 7) = .ok out ∧
    out.getD 0 0 = Webp.Impl.VP8Kernels.fTransformWHT (fun i => (List.replicate 16 (100 : Int)).getD i 0) 0 ∧
    out.getD 17 0 = 7 := by
  obtain ⟨out, e, _, p, f⟩ := tie_fTransformWHT (List.replicate 16 100) (List.replicate 20 7)
    (by simp) (by simp)
  exact ⟨out, e, p 0 (by omega), by rw [f 17 (by omega)]; decide⟩
/-- the DC of a constant block of 100s: `(16 * 100) >> 1` -/
example : Webp.Impl.VP8Kernels.fTransformWHT (fun i => (List.replicate 16 (100 : Int)).getD i 0) 0 = 800 := by
  decide
example : Generated.Funcs.fTransformWHT (List.replicate 15 0) (List.replicate 16 0) = .panic :=
  fTransformWHT_panic _ _ (by simp)

example : ∃ out, Generated.Funcs.fTransform (List.replicate 100 200) (List.replicate 100 10)
      (List.replicate 16 0) = .ok out ∧
    out.getD 0 0 = Webp.Impl.VP8Kernels.fTransform
      (fun i => (List.replicate 100 (200 : Int)).getD ((i % 4) + 32 * (i / 4)) 0)
      (fun i => (List.replicate 100 (10 : Int)).getD ((i % 4) + 32 * (i / 4)) 0) 0 := by
  obtain ⟨out, e, _, p, _⟩ := tie_fTransform (List.replicate 100 200) (List.replicate 100 10)
    (List.replicate 16 0) (by simp) (by simp) (by simp)
  exact ⟨out, e, p 0 (by omega)⟩
example : Generated.Funcs.fTransform (List.replicate 99 0) (List.replicate 100 0) (List.replicate 16 0)
    = .panic := fTransform_panic _ _ _ (by simp)

example : ∃ out, Generated.Funcs.iTransformOne (List.replicate 100 128) (List.replicate 16 1000)
      (List.replicate 100 0) = .ok out ∧ out.length = 100 ∧ out.getD 5 0 = 0 := by
  obtain ⟨out, e, l, _, f⟩ := tie_iTransformOne (List.replicate 100 128) (List.replicate 16 1000)
    (List.replicate 100 0) (by simp) (by simp) (by simp)
    (fun x hx => by rw [List.eq_of_mem_replicate hx]; omega)
    (fun x hx => by rw [List.eq_of_mem_replicate hx]; omega)
  exact ⟨out, e, by rw [l]; simp, by rw [f 5 (by omega)]; decide⟩
example : Generated.Funcs.iTransformOne (List.replicate 100 0) (List.replicate 15 0) (List.replicate 100 0)
    = .panic := iTransformOne_panic _ _ _ (by simp)

example : ∃ out, Generated.Funcs.iTransform (List.replicate 104 128) (List.replicate 32 (-700))
      (List.replicate 104 9) true = .ok out ∧ out.getD 8 0 = 9 := by
  obtain ⟨out, e, _, _, _, f⟩ := tie_iTransform_two (List.replicate 104 128) (List.replicate 32 (-700))
    (List.replicate 104 9) (by simp) (by simp) (by simp)
    (fun x hx => by rw [List.eq_of_mem_replicate hx]; omega)
    (fun x hx => by rw [List.eq_of_mem_replicate hx]; omega)
  exact ⟨out, e, by rw [f 8 (by omega)]; decide⟩
example : ∃ out, Generated.Funcs.iTransform (List.replicate 100 128) (List.replicate 16 5)
      (List.replicate 100 9) false = .ok out ∧ out.length = 100 := by
  obtain ⟨out, e, l, _, _⟩ := tie_iTransform_one (List.replicate 100 128) (List.replicate 16 5)
    (List.replicate 100 9) (by simp) (by simp) (by simp)
    (fun x hx => by rw [List.eq_of_mem_replicate hx]; omega)
    (fun x hx => by rw [List.eq_of_mem_replicate hx]; omega)
  exact ⟨out, e, by rw [l]; simp⟩
example : Generated.Funcs.iTransform (List.replicate 103 0) (List.replicate 32 0) (List.replicate 104 0) true
    = .panic := iTransform_two_panic _ _ _ (by simp)
/-- a 100-byte `ref` suffices for one block but not for two -/
example : Generated.Funcs.iTransform (List.replicate 100 0) (List.replicate 32 0) (List.replicate 104 0) true
    = .panic := iTransform_two_panic _ _ _ (by simp)

end Webp.Props.C04FuncsTransformEnc
