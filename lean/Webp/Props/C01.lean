import Webp.Proofs.LTransformChain
import Webp.Proofs.LTransformCodes
/-
  Property C01 — lossless encode/decode round trip — TRANSFORM LAYER AND VALUE CODES.

  "For every image and every accepted lossless option set, decoding the bytes written by Encode
   yields an image of the same width and height whose every pixel, read as non-premultiplied
   8-bit RGBA, equals the source pixel.  The only permitted difference is that pixels with alpha 0
   may come back as transparent black; with Exact set they too are returned unchanged."

  This file proves the part of the mechanism that sits between the pixel import and the entropy
  coder (DESIGN.md §4.1, theorems T1 and the value-code half of T2):

    forward transforms of the encoder (`Webp.Impl.LTransform`, parameters = the encoder's choices)
      ∘ inverse transforms of the format (`Webp.Spec.LTransform`)                       = identity
    inverse transforms as coded in decode_transform.go                                  = the format's
    prefix value code, plane-distance code:  decode ∘ encode                            = identity

  for ALL images, ALL sizes, ALL tile bits, ALL mode / multiplier / palette choices.
  The search heuristics that pick the parameters are not modelled: the theorems quantify over
  every possible outcome.  What is NOT here (other files / tiers): pixel import and
  `cleanupTransparentAreaLossless`, the entropy coder and the bit stream (T2 rest, T3), so C01 as
  a whole stays *partial* until the capstone `lossless_roundtrip` exists.

  Axioms: `propext`, `Classical.choice`, `Quot.sound`, plus the `bv_decide` certificates of the
  word-level lemmas in `Webp.Proofs.LTransformPixel` / `LTransformPalette` (listed by
  `#print axioms`; see the report).
-/
namespace Webp.Props.C01
open Webp.Spec.LTransform
open Webp.Impl.LTransform (subtractGreen crossColorFwd predictFwd paletteFwd applyForward
  applyInverseTransforms applyInverseTransformsPinned colorIndexInvInPlace modeFwd
  prefixEncode getCopyDistance distanceToPlaneCode)
open Webp.Proofs.LTransformPredictor (ModesAgree normMode)
open Webp.Proofs.LTransformChain (ChainValid StepValid)

/-! ## mask tricks (the only `bv_decide` users) -/

/-- decode_transform.go `addPixels` (two masked 32-bit additions) is the per-channel sum mod 256 -/
theorem addPixels_eq_channelwise (a b : Px) :
    Webp.Impl.LTransform.addPixels a b
      = mk (chA a + chA b) (chR a + chR b) (chG a + chG b) (chB a + chB b) :=
  Webp.Proofs.LTransformPixel.addPixels_eq a b

/-- encode_predictor.go `subPixels` (bias constants) is the per-channel difference mod 256 -/
theorem subPixels_eq_channelwise (a b : Px) :
    Webp.Impl.LTransform.subPixels a b
      = mk (chA a - chA b) (chR a - chR b) (chG a - chG b) (chB a - chB b) :=
  Webp.Proofs.LTransformPixel.subPixels_eq a b

/-- `average2` / `avg2`: `(((a^b) & 0xfefefefe) >> 1) + (a&b)` is the per-channel `⌊(x+y)/2⌋` -/
theorem average2_eq_channelwise (a b : Px) :
    Webp.Impl.LTransform.average2 a b
      = mk (avgCh (chA a) (chA b)) (avgCh (chR a) (chR b)) (avgCh (chG a) (chG b)) (avgCh (chB a) (chB b))
    ∧ ∀ x y : UInt8, (avgCh x y).toNat = (x.toNat + y.toNat) / 2 :=
  ⟨Webp.Proofs.LTransformPixel.average2_eq a b, Webp.Proofs.LTransformPixel.avgCh_toNat⟩

/-! ## T1 — single transforms -/

/-- subtract green, then the format's add-green: identity on every pixel array -/
theorem subtractGreen_inv (px : Array Px) : addGreen (subtractGreen px) = px :=
  Webp.Proofs.LTransformColor.addGreen_subtractGreen px

/-- cross-colour: for every width, tile size (`bits ≥ 0`), multiplier image `m` (any length, any
    words) and pixel array.  The forward computes blue from the ORIGINAL red, the inverse from the
    RESTORED red — they are the same value because red is restored first. -/
theorem crossColor_inv (w bits : Nat) (m px : Array Px) :
    crossColorInv w bits m (crossColorFwd w bits m px) = px :=
  Webp.Proofs.LTransformColor.crossColorInv_crossColorFwd w bits m px

/-- predictor: for every width (also 0 and 1), tile size, pixel array (its length need not be a
    multiple of the width) and every mode image whose effective modes agree between the encoder's
    8-bit and the decoder's 4-bit reading of the tile word (`ModesAgree`; see
    `predictor_mode_field_counterexample` for why it is needed and `modesAgree_of_lt16` for the
    reachable case). -/
theorem predictor_inv (w bits : Nat) (modes px : Array Px) (hm : ModesAgree modes) :
    predictInv w bits modes (predictFwd w bits modes px) = px :=
  Webp.Proofs.LTransformPredictor.predictInv_predictFwd w bits modes px hm

/-- every mode image with mode bytes `< 16` qualifies — in particular everything `ResidualImage`
    can write (`bestMode < 14`), and also the undefined modes 14, 15 (black on both sides) -/
theorem modesAgree_of_lt16 (modes : Array Px) (h : ∀ t ∈ modes, modeFwd t < 16) : ModesAgree modes :=
  Webp.Proofs.LTransformPredictor.modesAgree_of_lt16 modes h

/-- The hypothesis of `predictor_inv` is necessary: a mode byte `0x11` is "black" for
    `copyImageWithPrediction` (`& 0xff`, `default:`) and "L" for `predictorInverseTransform`
    (`& 0xf`).  Unreachable from `ResidualImage`; stated because the two readers differ. -/
theorem predictor_mode_field_counterexample :
    let modes : Array Px := #[0x00001100]
    let img : Array Px := #[0xff000000, 0xff000000, 0xff000001, 0xff000005]
    ¬ ModesAgree modes ∧ predictInv 2 2 modes (predictFwd 2 2 modes img) ≠ img := by
  refine ⟨?_, by decide⟩
  intro h
  have := h 0x00001100 (by simp)
  exact absurd this (by decide)

/-- colour indexing with 1/2/4/8-bit packing, ragged widths included: for every palette of at
    most 256 entries containing the image's colours.  `Nodup` is not needed. -/
theorem palette_inv (pal : Array Px) (w h : Nat) (px : Array Px)
    (hsz : px.size = w * h) (hmem : ∀ p ∈ px, p ∈ pal) (hpal : pal.size ≤ 256) :
    colorIndexInv pal w h (paletteFwd pal w h px) = px :=
  Webp.Proofs.LTransformPalette.colorIndexInv_paletteFwd pal w h px hsz hmem hpal

/-! ## T1 — transform lists, and the decoder as coded -/

/-- Any list of transforms (any kinds, any order, repetitions allowed — more than the format's
    "each kind at most once"), applied in encoder order with the width bookkeeping of a packing
    palette and undone in reverse order, gives back the image.  `ChainValid` = each predictor's
    modes agree, each palette holds the colours of the pixels it is applied to and has ≤ 256
    entries, and those pixels are a `w×h` array. -/
theorem transform_chain_inv (h : Nat) (ts : List Xf) (w : Nat) (px : Array Px)
    (hv : ChainValid h ts w px) :
    applyInverse h ts w (applyForward h ts w px) = px :=
  Webp.Proofs.LTransformChain.applyInverse_applyForward h ts w px hv

/-- The REPAIRED `applyInverseTransforms` (alternating buffers) with the inverse transforms as
    coded (specialised predictor loops, mask tricks, sequential palette unpacking) computes the
    specification's inverse for EVERY transform list and EVERY input — no hypothesis. -/
theorem applyInverseTransforms_eq_spec (h : Nat) (ts : List Xf) (w : Nat) (px : Array Px) :
    applyInverseTransforms h ts w px = applyInverse h ts w px :=
  Webp.Proofs.LTransformChain.applyInverseTransforms_eq_spec h ts w px

/-- corollary: the decoder as coded undoes the encoder's transforms -/
theorem decoder_undoes_encoder (h : Nat) (ts : List Xf) (w : Nat) (px : Array Px)
    (hv : ChainValid h ts w px) :
    applyInverseTransforms h ts w (applyForward h ts w px) = px := by
  rw [applyInverseTransforms_eq_spec, transform_chain_inv h ts w px hv]

/-- 4×2 image, two colours (1-bit packing: one word per row) -/
def cexPal : Array Px := #[0xff000000, 0xffffffff]
def cexImg : Array Px :=
  #[0xff000000, 0xffffffff, 0xff000000, 0xff000000,
    0xff000000, 0xff000000, 0xff000000, 0xff000000]
/-- the packed image in an 8-entry buffer (`wp·h = 2` words, the rest of the buffer zero) -/
def cexBuf : Array Px := #[0xff000200, 0xff000000, 0, 0, 0, 0, 0, 0]

/-- **The defect that was repaired (D1).**  Pinned behaviour: `colorIndexInverseTransform` run
    with `src` and `dst` the same slice writes pixel (1,0) = white into `buf[1]` before reading
    `buf[1]` as the packed word of row 1, so row 1 decodes to white instead of black. -/
theorem inplace_palette_counterexample :
    paletteFwd cexPal 4 2 cexImg = #[0xff000200, 0xff000000] ∧
    colorIndexInv cexPal 4 2 cexBuf = cexImg ∧
    colorIndexInvInPlace cexPal 4 2 cexBuf =
      #[0xff000000, 0xffffffff, 0xff000000, 0xff000000,
        0xffffffff, 0xffffffff, 0xffffffff, 0xffffffff] ∧
    colorIndexInvInPlace cexPal 4 2 cexBuf ≠ colorIndexInv cexPal 4 2 cexBuf := by
  refine ⟨by decide, by decide, by decide, by decide⟩

/-- the same at the level of `applyInverseTransforms`, on what the encoder emits for a ≤16-colour
    image at Method ≥ 5, Quality ≥ 75 (`[colorIndex, predictor]`): the pinned variant returns a
    wrong image, the repaired one the original -/
theorem inplace_chain_counterexample :
    let ts : List Xf := [.colorIndex cexPal, .predictor 2 #[0xff000b00]]
    applyInverseTransformsPinned 2 ts 4 (applyForward 2 ts 4 cexImg) ≠ cexImg ∧
    applyInverseTransforms 2 ts 4 (applyForward 2 ts 4 cexImg) = cexImg := by
  refine ⟨by decide, by decide⟩

/-! ## T2 — value codes -/

/-- Prefix value code (lengths and distance codes): for EVERY `d ≥ 1` — the functions have no
    upper bound of their own — `getCopyDistance` returns `d` from the symbol and extra value
    `PrefixEncodeNoLUT` produced, the decoder reads exactly the number of extra bits that were
    written, and the extra value fits in them. -/
theorem prefixValue_roundtrip (d : Nat) (hd : 1 ≤ d) :
    getCopyDistance (prefixEncode d).1 (prefixEncode d).2.2 = d ∧
    prefixExtraBits (prefixEncode d).1 = (prefixEncode d).2.1 ∧
    (prefixEncode d).2.2 < 2 ^ (prefixEncode d).2.1 :=
  Webp.Proofs.LTransformCodes.prefix_roundtrip d hd

/-- The bounds the bit stream really has: the distance alphabet has 40 symbols, which is exactly
    `d ≤ 2^20` (window 2^20 − 120 plus 120 plane codes); the length alphabet 24 symbols, `d ≤ 4096`
    (`maxLength` is 4095). -/
theorem prefixValue_symbol_bounds (d : Nat) (hd : 1 ≤ d) :
    (d ≤ 2 ^ 20 → (prefixEncode d).1 < 40) ∧ (d ≤ 4096 → (prefixEncode d).1 < 24) :=
  ⟨fun h => Webp.Proofs.LTransformCodes.prefix_symbol_bound d 20 hd (by decide) h,
   fun h => Webp.Proofs.LTransformCodes.prefix_symbol_bound d 12 hd (by decide) h⟩

/-- the bounds are sharp -/
theorem prefixValue_symbol_bounds_sharp :
    (prefixEncode (2 ^ 20 + 1)).1 = 40 ∧ (prefixEncode 4097).1 = 24 := by decide

/-- Plane-distance code against the SPECIFICATION's `planeCodeToDistance`: every width `≥ 1`,
    every distance `≥ 1` — also narrow images, where many table entries denote the same or a
    non-positive distance: `DistanceToPlaneCode` never picks a code that decodes differently. -/
theorem planeCode_roundtrip_spec (xsize dist : Nat) (hx : 1 ≤ xsize) (hd : 1 ≤ dist) :
    1 ≤ distanceToPlaneCode xsize dist ∧
    Webp.Spec.LTransform.planeCodeToDistance xsize (distanceToPlaneCode xsize dist) = dist :=
  Webp.Proofs.LTransformCodes.plane_spec_roundtrip xsize dist hx hd

/-- Plane-distance code for the Go pair `DistanceToPlaneCode` / `PlaneCodeToDistance`.  The bound
    `xsize ≤ ⌊2^30/7⌋` comes from the decoder's overflow guard (`xsize > (1<<30)/yoffset → 1`) and
    is necessary (`planeCode_overflow_guard_counterexample`); VP8L widths are ≤ 16384. -/
theorem planeCode_roundtrip (xsize dist : Nat) (hx : 1 ≤ xsize) (hx' : xsize ≤ 153391689)
    (hd : 1 ≤ dist) :
    Webp.Impl.LTransform.planeCodeToDistance xsize (distanceToPlaneCode xsize dist : Nat) = dist :=
  Webp.Proofs.LTransformCodes.plane_impl_roundtrip xsize dist hx hx' hd

/-- one past the bound: distance `7·xsize` (seven rows up) is encoded as table code 73 and
    decoded as 1 -/
theorem planeCode_overflow_guard_counterexample :
    distanceToPlaneCode 153391690 (7 * 153391690) = 73 ∧
    Webp.Impl.LTransform.planeCodeToDistance 153391690 (73 : Nat) = 1 := by
  refine ⟨by decide, by decide⟩

/-- the transcribed `planeToCodeLUT` is what hashchain.go's `init()` computes from `CodeToPlane` -/
theorem planeToCodeLUT_init :
    Webp.Impl.LTransform.planeToCodeLUTInit = Webp.Impl.LTransform.planeToCodeLUT :=
  Webp.Proofs.LTransformCodes.planeToCodeLUT_init

/-! ## non-vacuity -/

/-- a mode image using all 14 predictors (and 14, 15) satisfies `ModesAgree` -/
example : ModesAgree (((List.range 16).map fun m => (0xff000000 : UInt32) ||| (UInt32.ofNat m <<< 8)).toArray) := by
  apply modesAgree_of_lt16
  intro t ht
  simp only [List.mem_toArray, List.mem_map, List.mem_range] at ht
  obtain ⟨m, hm, rfl⟩ := ht
  have : m = 0 ∨ m = 1 ∨ m = 2 ∨ m = 3 ∨ m = 4 ∨ m = 5 ∨ m = 6 ∨ m = 7 ∨ m = 8 ∨ m = 9 ∨ m = 10 ∨
      m = 11 ∨ m = 12 ∨ m = 13 ∨ m = 14 ∨ m = 15 := by omega
  rcases this with rfl | rfl | rfl | rfl | rfl | rfl | rfl | rfl | rfl | rfl | rfl | rfl | rfl | rfl | rfl | rfl <;>
    decide

/-- `palette_inv`'s hypotheses hold for the 4×2 two-colour image (1-bit packing, ragged: 4 of 8
    index slots per word used) -/
example : cexImg.size = 4 * 2 ∧ (∀ p ∈ cexImg, p ∈ cexPal) ∧ cexPal.size ≤ 256 := by
  refine ⟨by decide, ?_, by decide⟩
  intro p hp
  simp only [cexImg, cexPal] at hp ⊢
  simp only [List.mem_toArray, List.mem_cons, List.mem_nil_iff, or_false] at hp ⊢
  rcases hp with h | h | h | h | h | h | h | h <;> simp [h]

/-- `ChainValid` holds for the encoder's `[colorIndex, predictor]` chain on that image -/
example : ChainValid 2 [.colorIndex cexPal, .predictor 2 #[0xff000b00]] 4 cexImg := by
  refine ⟨⟨by decide, ?_, by decide⟩, ?_, trivial⟩
  · intro p hp
    simp only [cexImg, cexPal] at hp ⊢
    simp only [List.mem_toArray, List.mem_cons, List.mem_nil_iff, or_false] at hp ⊢
    rcases hp with h | h | h | h | h | h | h | h <;> simp [h]
  · apply modesAgree_of_lt16
    intro t ht
    simp only [List.mem_toArray, List.mem_cons, List.mem_nil_iff, or_false] at ht
    subst ht; decide

example : 1 ≤ (4096 : Nat) := by decide
example : (1 : Nat) ≤ 16384 ∧ (16384 : Nat) ≤ 153391689 ∧ 1 ≤ (1048456 : Nat) := by decide

end Webp.Props.C01
