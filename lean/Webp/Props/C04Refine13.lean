import Webp.Proofs.C04RefineResid13
/-
  Property C04, refinement theorems Impl ↔ Spec, part 13 — residuals of a PARSED macroblock, whole macroblock.

  * `mb_residuals_eq_spec_i4`: a `B_PRED` macroblock (no Y2 block; Go `isI4 = true`, block type 3, first position 0)
    that is not skipped.  On the reference decoder, for every probability function whose coefficient slots hold the RFC
    table (`CoefOK`, discharged by `header_gives_CoefOK`), every dequantisation factors, every context words related to
    the specification's `above` / `left` arrays (`NzRel`) and every decoder state: Go's `parseResiduals` (Y rows, U rows,
    V rows with the packed words `tnz` / `lnz`, final `|` / `<<` packing) succeeds, ends on the decoder state
    `readResiduals` ends on, leaves contexts that are `NzRel`-related to the ones `readResiduals` leaves (other macroblock
    columns untouched), and its 24 coefficient blocks are the specification's 384 luma/chroma coefficients
    (`StRel 24 (fun _ => none)`: `res.coeffs b j = coeffs[16·b + j]` for all `b < 24`, `j < 16`).
  * `mb_residuals_eq_spec_i16`: a macroblock WITH a Y2 block (16×16 luma prediction; Go `isI4 = false`).  The Y2 block
    (type 1, context `tnzDC + lnzDC`) is the specification's block 24 (`y2` = its sixteen dequantised coefficients, the
    end-of-block position `eob`); Go stores `iwht y2` (or, for `eob ≤ 1`, the DC-only value `(y2[0] + 3) >> 3`) in the DC
    slots of the sixteen luma blocks (`ovI16 K eob y2`), reads the luma blocks as type 0 from position 1 — which leaves
    those slots alone on both sides — then chroma.  Same conclusion: same final decoder, `NzRel` contexts (incl. the Y2
    flags `tnzDC` / `lnzDC` = "Y2 has a token"), and `StRel 24 (ovI16 …)`: every AC coefficient and every chroma
    coefficient equal, the luma DC slots hold the WHT outputs on the Go side (the specification keeps Y2 in block 24
    and applies `inverseWHT` at reconstruction: `wht_eq_spec`).
  NOT covered here: `res.nonZeroY` / `res.nonZeroUV` (the 2-bit codes; no statement about them) and the transfer to the
  Go reader (`tree_transfer` with `TreeFree`, as in `mb_modes_eq_spec`).
-/
namespace Webp.Props.C04Refine13
open Webp.Spec.VP8
open Webp.Impl.VP8SyntaxBytes (P runR rd)
open Webp.Impl.VP8Recon (Slot NzCtx)
open Webp.Proofs.C04RefineOps Webp.Proofs.C04RefineTokens Webp.Proofs.C04RefineResid

theorem mb_residuals_eq_spec_i4 (prob : Slot → UInt8) (probs : Array Nat) (hc3 : CoefOK prob probs 3) (hc2 : CoefOK prob probs 2)
    (hfix : FixedOK prob) (K : Webp.Impl.VP8Recon.Kernels) (q : DequantFactors) (n : NzCtx) (mbX : Nat) (A0 : Array Nat)
    (m : MBInfo) (cc : CoeffCtx) (hskip : m.skip = false) (hI : m.hasY2 = false) (h : NzRel mbX A0 n cc) (d : BoolDec) :
    ∃ res n', runD prob (Webp.Impl.VP8SyntaxBytes.T.parseResiduals K (Webp.Proofs.C04RefineRecon.ofSpec q) true n) d =
        some ((res, n'), (readResiduals probs q mbX m cc d).2.2.2) ∧
      NzRel mbX A0 n' (readResiduals probs q mbX m cc d).2.2.1 ∧
      StRel 24 (fun _ => none) res.coeffs (readResiduals probs q mbX m cc d).1 :=
  residuals_i4 prob probs hc3 hc2 hfix K q n mbX A0 m cc hskip hI h d

theorem mb_residuals_eq_spec_i16 (prob : Slot → UInt8) (probs : Array Nat) (hc0 : CoefOK prob probs 0) (hc1 : CoefOK prob probs 1)
    (hc2 : CoefOK prob probs 2) (hfix : FixedOK prob) (K : Webp.Impl.VP8Recon.Kernels) (q : DequantFactors) (n : NzCtx)
    (mbX : Nat) (A0 : Array Nat) (m : MBInfo) (cc : CoeffCtx) (hskip : m.skip = false) (hI : m.hasY2 = true)
    (h : NzRel mbX A0 n cc) (d : BoolDec) :
    ∃ res n' y2, runD prob (Webp.Impl.VP8SyntaxBytes.T.parseResiduals K (Webp.Proofs.C04RefineRecon.ofSpec q) false n) d =
        some ((res, n'), (readResiduals probs q mbX m cc d).2.2.2) ∧
      NzRel mbX A0 n' (readResiduals probs q mbX m cc d).2.2.1 ∧
      (∀ j : Fin 16, y2 j = (readBlock probs 1 0 (n.tnzDC + n.lnzDC) q.y2dc q.y2ac (24 * 16) (Array.replicate 400 0) d).2.1.getD
        (24 * 16 + j.val) 0) ∧
      StRel 24 (ovI16 K (readBlock probs 1 0 (n.tnzDC + n.lnzDC) q.y2dc q.y2ac (24 * 16) (Array.replicate 400 0) d).1 y2)
        res.coeffs (readResiduals probs q mbX m cc d).1 :=
  residuals_i16 prob probs hc0 hc1 hc2 hfix K q n mbX A0 m cc hskip hI h d

/-- the hypotheses are satisfiable: all-zero contexts of a one-macroblock-wide frame (`NzRel`, see C04Refine8), and
    `m.hasY2` is just `ymode ≠ B_PRED` -/
example : ({ ymode := 0 } : MBInfo).hasY2 = true ∧ ({ ymode := B_PRED } : MBInfo).hasY2 = false := by decide

/-- what `StRel 24 (fun _ => none)` says, spelled out -/
theorem stRel_none_coeffs (store : Nat → Webp.Impl.VP8Recon.Coeffs) (coeffs : Array Int)
    (h : StRel 24 (fun _ => none) store coeffs) (b : Nat) (hb : b < 24) (j : Fin 16) :
    store b j = coeffs.getD (b * 16 + j.val) 0 := by
  rw [h.2 b hb j]
  by_cases hj : j.val = 0
  · rw [if_pos hj, hj]; rfl
  · rw [if_neg hj]

#print axioms mb_residuals_eq_spec_i4
#print axioms mb_residuals_eq_spec_i16
#print axioms stRel_none_coeffs

end Webp.Props.C04Refine13
