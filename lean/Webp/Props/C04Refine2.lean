import Webp.Proofs.C04RefineHeader2
import Webp.Props.C04Refine
/-
  Property C04, refinement theorems Impl ↔ Spec, part 2 (follow-up to `Webp.Props.C04Refine`):

  Stage A — header transport on the decoder side.  The Go `parseHeaders` chain (decision tree
  `Webp.Impl.VP8HeaderBytes.T.parseHeader`: colour-space and clamp bits, `parseSegmentHeader`,
  `parseFilterHeader`, partition count, `ParseQuant`'s six fields, the refresh bit, `parseProba`, the
  skip flag and probability) vs RFC 6386 §9.2–§9.11 / §19.2 (`Webp.Spec.VP8.parseFrameHdr`), for EVERY
  first partition (any bytes): `header_eq_spec`; and the hypotheses of the layer-2..4 theorems of
  `Webp.Props.C04Refine` discharged from the parsed header: `header_gives_FixedOK`,
  `header_gives_CoefOK`, `header_gives_QuantRel` (hence `header_dequant_eq_spec`), `header_gives_FiltRel`
  (hence `header_loopfilter_params_eq_spec`).

  Stages B–D and the capstone are NOT reached; their full statements are kept as comments at the end.
-/
namespace Webp.Props.C04Refine2
open Webp.Go (Bytes)
open Webp.Impl.BoolCoder
open Webp.Spec.VP8 (BoolDec FrameHdr parseFrameHdr)
open Webp.Impl.VP8SyntaxBytes (P runR rd)
open Webp.Impl.VP8Recon (Slot)
open Webp.Impl.VP8HeaderBytes (DecHeader)
open Webp.Proofs.C04RefineBool Webp.Proofs.C04RefineOps Webp.Proofs.C04RefineTokens Webp.Proofs.C04RefineHeader

/-- **`header_eq_spec`.**  For every Go reader in step with a reference decoder at the start of the
    first partition (`partition_readers_in_step`: any bytes not starting with 0xff), every probability
    function that resolves the fixed slots (`fixedProb`, `DecHeader.prob`), and a decoder whose
    segment values and loop-filter deltas start at zero (`acquireDecoder`):
    the Go header tree succeeds on the Go reader, the header state it returns carries the values of
    the RFC frame header (`HdrRel`: segmentation incl. "absent = 0" / tree probabilities 255, filter
    type/level/sharpness and the delta-update semantics "absent = keep", partition count, the six
    quantiser indices, all 1056 token probabilities after `token_prob_update()` with the RFC's update
    probabilities, `mb_no_coeff_skip` / `prob_skip_false`), and the reader is left in step with the
    reference decoder positioned at the first macroblock header.  (`hfree`: no decision started past
    the end — `treeFree_of_go_ok` / `treeFree_of_spec_ok`.) -/
theorem header_eq_spec (prob : Slot → UInt8) (hfix : FixedOK prob) (prev : DecHeader) (hz : PrevZero prev)
    (h0 : FrameHdr) {F : Bytes} {r : BoolReader} {d : BoolDec} (hs : Sim F r d)
    (hfree : TreeFree prob (Webp.Impl.VP8HeaderBytes.T.parseHeader prev) r) :
    ∃ g r', runR prob (Webp.Impl.VP8HeaderBytes.T.parseHeader prev) r = some (g, r') ∧
      HdrRel g (parseFrameHdr h0 d).1 ∧ Sim F r' (parseFrameHdr h0 d).2 :=
  header_go prob hfix prev hz h0 hs hfree

/-- the same on the reference decoder alone (no reader involved): the two parsers are the same function
    of the decoder state -/
theorem header_eq_spec_on_spec_decoder (prob : Slot → UInt8) (hfix : FixedOK prob) (prev : DecHeader)
    (hz : PrevZero prev) (h0 : FrameHdr) (d : BoolDec) :
    ∃ g, runD prob (Webp.Impl.VP8HeaderBytes.T.parseHeader prev) d = some (g, (parseFrameHdr h0 d).2) ∧
      HdrRel g (parseFrameHdr h0 d).1 :=
  header_runD prob hfix prev hz h0 d

/-- the hypotheses are satisfiable: the header-only probability function, a zeroed decoder -/
example : FixedOK Webp.Impl.VP8HeaderBytes.fixedProb := fun _ hq => ofNat_toNat_lt (by omega)
example : PrevZero ⟨false, false, ⟨false, false, false, fun _ => 0, fun _ => 0, fun _ => 255⟩, ⟨false, 0, 0, false, fun _ => 0, fun _ => 0⟩, 0, 0, 0, 0, 0, 0, 0, [], false, 0⟩ :=
  ⟨⟨rfl, fun _ => rfl, fun _ => rfl⟩, ⟨fun _ => rfl, fun _ => rfl⟩⟩

/-! ## the hypotheses of `Webp.Props.C04Refine`, from the parsed header -/

/-- `FixedOK` holds for the probability function the decoder derives from its tables -/
theorem header_gives_FixedOK (g : DecHeader) : FixedOK g.prob :=
  fixedOK_of_tables _ _ _ _ _

/-- `CoefOK`: the coefficient probabilities the Go decoder reads tokens with
    (`BandsPtr[t][n].Probas[ctx][k]`, i.e. the parsed table at band `KBands[n]`) are the RFC header's
    `coeff_probs[t][band(n)][ctx][k]`, for the four block types -/
theorem header_gives_CoefOK (g : DecHeader) (h : FrameHdr) (hr : HdrRel g h) (t : Nat) (ht : t ≤ 3) :
    CoefOK g.prob h.coeffProbs t :=
  coefOK_of_hdr g h hr t ht

/-- `QuantRel`, hence the dequantisation factors of every segment are RFC 6386 §14.1's -/
theorem header_gives_QuantRel (g : DecHeader) (h : FrameHdr) (hr : HdrRel g h) :
    Webp.Proofs.C04RefineRecon.QuantRel g.qidx h :=
  quantRel_of_hdr g h hr

theorem header_dequant_eq_spec (g : DecHeader) (h : FrameHdr) (hr : HdrRel g h) (s : Fin 4) :
    Webp.Impl.VP8Recon.decQuantMatrix g.qidx s =
      Webp.Proofs.C04RefineRecon.ofSpec (Webp.Spec.VP8.dequantFactors h {} s.val) :=
  Webp.Props.C04Refine.dequant_eq_spec g.qidx h (quantRel_of_hdr g h hr) s

/-- `FiltRel`, hence the loop-filter thresholds of every macroblock are RFC 6386 §15.1's
    (`hsz`: four segment levels, as `parseSegmentHdr` produces) -/
theorem header_gives_FiltRel (g : DecHeader) (h : FrameHdr) (hr : HdrRel g h) (hsz : h.seg.lfLevel.size ≤ 4) :
    Webp.Proofs.C04RefineFilter.FiltRel (filtSeg g) (filtHdr g) h :=
  filtRel_of_hdr g h hr hsz

open Webp.Impl.VP8DecFilter in
theorem header_loopfilter_params_eq_spec (g : DecHeader) (h : FrameHdr) (hr : HdrRel g h)
    (hsz : h.seg.lfLevel.size ≤ 4) (m : Webp.Spec.VP8.MBInfo) (prev : FInfo) :
    edgeParams (strength (filtSeg g) (filtHdr g) m.segment (decide (m.ymode = Webp.Spec.VP8.B_PRED)) prev) =
      if (Webp.Spec.VP8.filterParams h {} m).level = 0 then none
      else some ((Webp.Spec.VP8.filterParams h {} m).mbLimit, (Webp.Spec.VP8.filterParams h {} m).subLimit,
                 (Webp.Spec.VP8.filterParams h {} m).interior, (Webp.Spec.VP8.filterParams h {} m).hevThreshold) :=
  Webp.Props.C04Refine.loopfilter_params_eq_spec _ _ h (filtRel_of_hdr g h hr hsz) m prev

/-
  NOT PROVED (full statements; what is missing):

  mb_modes_eq_spec       T.parseModes (Go) on a reader in step  =  Spec.readMBHeader, with the intra-mode
                         contexts related by  above[4·mbX + k] = rfcB (topModes mbX k),  left[k] = rfcB (leftModes k)
                         (missing: the 4×4 for-loops of readMBHeader as folds; the per-tree theorems
                         segment_id/ymode/uvmode/bmode_eq_spec are the steps).  NOTE: needs
                         prob (.bmode top left i) = kf_bmode_probs[rfcB top][rfcB left][i]; the Impl table
                         `probOfTables` indexes the RFC-ordered table with Go-numbered modes (model defect,
                         harmless for C06) — see the report.
  mb_residuals_eq_spec   T.parseResiduals  =  Spec.readResiduals: per block tokens_eq_spec is the step; missing the
                         relation of the bit-packed tnz/lnz/nz_dc words to the above/left arrays, the WHT folded
                         into the parse, stale coefficients of skipped macroblocks, NonZeroY/UV codes vs eobs.
  frame_syntax_eq_spec   parseMBsBytes over all macroblocks = the macroblock loop of Spec.decodeCore (partition
                         mbY & (numParts-1) = mbY % numParts for 1/2/4/8 partitions).
  recon_mb_eq_spec, frame_recon_eq_spec, loopfilter_eq_spec, frame_eq_spec, goDecoderModel_eq_spec: not started.
-/

#print axioms header_eq_spec
#print axioms header_eq_spec_on_spec_decoder
#print axioms header_gives_FixedOK
#print axioms header_gives_CoefOK
#print axioms header_gives_QuantRel
#print axioms header_dequant_eq_spec
#print axioms header_gives_FiltRel
#print axioms header_loopfilter_params_eq_spec

end Webp.Props.C04Refine2
