import Generated.Funcs
import Webp.Impl.LTransform
import Webp.Impl.VP8LEntropy
import Webp.Proofs.FuncsBridge
import Webp.Proofs.FuncsLossless
import Webp.Proofs.FuncsLossless2
/-
  C03 (and C01) — regenerated obligations: the VP8L pixel / LZ77 helper functions translated from
  the Go AST on this run (`Generated/Funcs.lean`, integer encoding of `Webp/Go/IntSem.lean`) are
  the functions of the hand-written implementation model `Webp.Impl.LTransform` that the C01/C03
  theorems are about.  A semantic edit of one of these Go functions changes the generated
  definition and breaks its tie theorem.

  Arguments of Go type `uint32` are instantiated with `↑(x.toNat)` for `x : UInt32` (the encoding's
  in-range assumption); Go `int` arguments that the model takes as `Nat` with `↑n`.
-/
namespace Webp.Props.C03Funcs
open Webp.Go Webp.Go.IntSem Webp.Proofs.FuncsBridge Webp.Proofs.FuncsLossless Webp.Proofs.FuncsLossless2
open Webp.Impl.LTransform (chanAt)
open Webp.Spec.LTransform (sext8 byteOfInt colorDelta)

/-- decode_transform.go `addPixels` = `Impl.LTransform.addPixels` -/
theorem tie_addPixels (a b : UInt32) :
    Generated.Funcs.addPixels a.toNat b.toNat = ((Webp.Impl.LTransform.addPixels a b).toNat : Int) := by
  simp only [Generated.Funcs.addPixels, Webp.Impl.LTransform.addPixels, band_nat_lit, bor_nat,
    ← Int.natCast_add, wrapU_nat, UInt32.toNat_add, UInt32.toNat_and, UInt32.toNat_or, UInt32.toNat_ofNat]

/-- decode_transform.go `average2` = `Impl.LTransform.average2` -/
theorem tie_average2 (a b : UInt32) :
    Generated.Funcs.average2 a.toNat b.toNat = ((Webp.Impl.LTransform.average2 a b).toNat : Int) := by
  simp only [Generated.Funcs.average2, Webp.Impl.LTransform.average2, band_nat_lit, band_nat, bxor_nat, shr_nat_lit,
    ← Int.natCast_add, wrapU_nat, UInt32.toNat_add, UInt32.toNat_and, UInt32.toNat_xor, UInt32.toNat_ofNat,
    UInt32.toNat_shiftRight]

/-- decode_transform.go `selectPredictor` = `Impl.LTransform.selectPred` -/
theorem tie_selectPredictor (l t tl : UInt32) :
    Generated.Funcs.selectPredictor l.toNat t.toNat tl.toNat = ((Webp.Impl.LTransform.selectPred l t tl).toNat : Int) := by
  have := chanAt_range l 0; have := chanAt_range l 8; have := chanAt_range l 16; have := chanAt_range l 24
  have := chanAt_range t 0; have := chanAt_range t 8; have := chanAt_range t 16; have := chanAt_range t 24
  have := chanAt_range tl 0; have := chanAt_range tl 8; have := chanAt_range tl 16; have := chanAt_range tl 24
  simp only [Generated.Funcs.selectPredictor, Webp.Impl.LTransform.selectPred, chan_0, chan_24, chan_8, chan_16]
  generalize chanAt l 0 = l0 at *
  generalize chanAt l 8 = l1 at *
  generalize chanAt l 16 = l2 at *
  generalize chanAt l 24 = l3 at *
  generalize chanAt t 0 = t0 at *
  generalize chanAt t 8 = t1 at *
  generalize chanAt t 16 = t2 at *
  generalize chanAt t 24 = t3 at *
  generalize chanAt tl 0 = x0 at *
  generalize chanAt tl 8 = x1 at *
  generalize chanAt tl 16 = x2 at *
  generalize chanAt tl 24 = x3 at *
  simp (disch := omega) only [wrapS32_of_range]
  simp only [decide_eq_true_eq]
  exact (apply_ite (fun u : UInt32 => (u.toNat : Int)) _ _ _).symm

/-- decode_transform.go `clampedAddSubtractFull` = `Impl.LTransform.clampAddSubFull` -/
theorem tie_clampedAddSubtractFull (a b c : UInt32) :
    Generated.Funcs.clampedAddSubtractFull a.toNat b.toNat c.toNat = ((Webp.Impl.LTransform.clampAddSubFull a b c).toNat : Int) := by
  have := chanAt_range a 0; have := chanAt_range a 8; have := chanAt_range a 16; have := chanAt_range a 24
  have := chanAt_range b 0; have := chanAt_range b 8; have := chanAt_range b 16; have := chanAt_range b 24
  have := chanAt_range c 0; have := chanAt_range c 8; have := chanAt_range c 16; have := chanAt_range c 24
  simp only [Generated.Funcs.clampedAddSubtractFull, Webp.Impl.LTransform.clampAddSubFull, forRange_0_32_8, List.foldl,
    chanL_0, chan_8, chan_16, chanL_24]
  generalize chanAt a 0 = a0 at *
  generalize chanAt a 8 = a1 at *
  generalize chanAt a 16 = a2 at *
  generalize chanAt a 24 = a3 at *
  generalize chanAt b 0 = b0 at *
  generalize chanAt b 8 = b1 at *
  generalize chanAt b 16 = b2 at *
  generalize chanAt b 24 = b3 at *
  generalize chanAt c 0 = c0 at *
  generalize chanAt c 8 = c1 at *
  generalize chanAt c 16 = c2 at *
  generalize chanAt c 24 = c3 at *
  simp (disch := omega) only [wrapS32_of_range]
  rw [clamp_bridge _ (by omega) (by omega), clamp_bridge _ (by omega) (by omega),
    clamp_bridge _ (by omega) (by omega), clamp_bridge _ (by omega) (by omega)]
  simp only [shl_nat_lit, wrapU_nat, bor_nat, lit_bor_nat, UInt32.toNat_or, UInt32.toNat_shiftLeft, UInt32.toNat_ofNat,
    Nat.reducePow, Nat.reduceMod]

/-- decode_transform.go `clampedAddSubtractHalf` = `Impl.LTransform.clampAddSubHalf` (Go `/` truncates) -/
theorem tie_clampedAddSubtractHalf (a c : UInt32) :
    Generated.Funcs.clampedAddSubtractHalf a.toNat c.toNat = ((Webp.Impl.LTransform.clampAddSubHalf a c).toNat : Int) := by
  have := chanAt_range a 0; have := chanAt_range a 8; have := chanAt_range a 16; have := chanAt_range a 24
  have := chanAt_range c 0; have := chanAt_range c 8; have := chanAt_range c 16; have := chanAt_range c 24
  simp only [Generated.Funcs.clampedAddSubtractHalf, Webp.Impl.LTransform.clampAddSubHalf, forRange_0_32_8, List.foldl,
    chanL_0, chan_8, chan_16, chanL_24]
  generalize chanAt a 0 = a0 at *
  generalize chanAt a 8 = a1 at *
  generalize chanAt a 16 = a2 at *
  generalize chanAt a 24 = a3 at *
  generalize chanAt c 0 = c0 at *
  generalize chanAt c 8 = c1 at *
  generalize chanAt c 16 = c2 at *
  generalize chanAt c 24 = c3 at *
  have := tdiv2_range (a0 - c0) (by omega) (by omega)
  have := tdiv2_range (a1 - c1) (by omega) (by omega)
  have := tdiv2_range (a2 - c2) (by omega) (by omega)
  have := tdiv2_range (a3 - c3) (by omega) (by omega)
  simp (disch := omega) only [wrapS32_of_range]
  rw [clamp_bridge _ (by omega) (by omega), clamp_bridge _ (by omega) (by omega),
    clamp_bridge _ (by omega) (by omega), clamp_bridge _ (by omega) (by omega)]
  simp only [shl_nat_lit, wrapU_nat, bor_nat, lit_bor_nat, UInt32.toNat_or, UInt32.toNat_shiftLeft, UInt32.toNat_ofNat,
    Nat.reducePow, Nat.reduceMod]

/-- colorcache.go `(*ColorCache).HashPix` = `Impl.VP8LEntropy.ccHash` for a cache built by
    `NewColorCache(bits)` (`HashShift = 32 - bits`), `1 ≤ bits ≤ 32` (Go shifts a `uint32` by 32 to
    0; the model's `UInt32` shift would reduce the count mod 32, hence `1 ≤ bits`) -/
theorem tie_ColorCache_HashPix (c : Generated.Funcs.ColorCache) (bits : Nat) (hb0 : 1 ≤ bits) (hb : bits ≤ 32) (hc : c.HashShift = 32 - (bits : Int)) (argb : UInt32) :
    Generated.Funcs.ColorCache_HashPix c argb.toNat = (Webp.Impl.VP8LEntropy.ccHash bits argb : Int) := by
  have h1 : wrapU 64 c.HashShift = ((32 - bits : Nat) : Int) := by
    rw [hc, wrapU_of_range] <;> omega
  have h2 : (32 - bits).toUInt32.toNat % 32 = 32 - bits := by
    simp [Nat.toUInt32]
    omega
  simp only [Generated.Funcs.ColorCache_HashPix, Webp.Impl.VP8LEntropy.ccHash, h1, mul_nat_lit, wrapU_nat, shr_nat,
    UInt32.toNat_shiftRight, UInt32.toNat_mul, UInt32.toNat_ofNat, h2]

/-- constants.go `VP8LSubSampleSize` never panics on non-negative arguments and is `subSampleSize` -/
theorem tie_VP8LSubSampleSize (size bits : Nat) :
    Generated.Funcs.VP8LSubSampleSize size bits = .ok ((Webp.Spec.LTransform.subSampleSize size bits : Nat) : Int) := by
  simp only [Generated.Funcs.VP8LSubSampleSize, chkShift_nat, Res.bind, shl_lit_nat, Webp.Spec.LTransform.subSampleSize]
  have h1 : 1 ≤ 1 <<< bits := by rw [Nat.shiftLeft_eq]; exact Nat.one_le_two_pow |> fun h => by simpa using h
  have : ((size : Int) + ((1 <<< bits : Nat) : Int)) - 1 = ((size + (1 <<< bits) - 1 : Nat) : Int) := by omega
  have e1 : ((1 : Nat) : Int) = 1 := rfl
  rw [← e1, this, shr_nat]

/-- constants.go `PlaneCodeToDistance` never panics and is `Impl.LTransform.planeCodeToDistance`
    (for every `planeCode : Int`, also ≤ 0 and > 120) -/
theorem tie_PlaneCodeToDistance (xsize : Nat) (code : Int) :
    Generated.Funcs.PlaneCodeToDistance xsize code = .ok ((Webp.Impl.LTransform.planeCodeToDistance xsize code : Nat) : Int) := by
  unfold Generated.Funcs.PlaneCodeToDistance Webp.Impl.LTransform.planeCodeToDistance
  by_cases h0 : code ≤ 0
  · simp [h0]
  by_cases h1 : code > 120
  · simp [h0, h1]; omega
  simp only [h0, h1, decide_false, if_false, Bool.false_eq_true]
  have hlen : Webp.Spec.LTransform.codeToPlane.length = 120 := by decide
  rw [idxI_of_range _ _ (by omega) (by rw [CodeToPlane_eq, List.length_map, hlen]; omega)]
  have hget : Generated.Funcs.CodeToPlane.getD (code - 1).toNat 0
      = ((Webp.Spec.LTransform.codeToPlane.getD (code.toNat - 1) 0 : Nat) : Int) := by
    have : (code - 1).toNat = code.toNat - 1 := by omega
    rw [this, CodeToPlane_eq]
    simp [List.getD]
    cases Webp.Spec.LTransform.codeToPlane[code.toNat - 1]? <;> simp
  rw [hget]
  generalize Webp.Spec.LTransform.codeToPlane.getD (code.toNat - 1) 0 = d
  simp only [ok_bind, shr_nat_lit, band_nat_lit, nat_and_15]
  have hK : (1073741824 : Int) = ((1 <<< 30 : Nat) : Int) := by simp
  rw [hK]
  clear hK
  generalize (1 <<< 30 : Nat) = K
  generalize hy : d >>> 4 = y
  have hyy : ((y : Int) * (xsize : Int)) = ((y * xsize : Nat) : Int) := (Int.natCast_mul y xsize).symm
  cases y with
  | zero =>
    simp only [Int.natCast_zero, gt_iff_lt, Int.lt_irrefl, decide_false, Bool.false_eq_true, if_false, ok_bind, Nat.lt_irrefl, false_and, Int.zero_mul, Nat.zero_mul]
    exact clamp1_aux _
  | succ y' =>
    have hy' : ((y' + 1 : Nat) : Int) ≠ 0 := by omega
    have hy2 : ((y' + 1 : Nat) : Int) > 0 := by omega
    have hy3 : y' + 1 > 0 := by omega
    rw [chkDiv_of_ne _ hy']
    have htd : Int.tdiv (K : Int) ((y' + 1 : Nat) : Int) = ((K / (y' + 1) : Nat) : Int) := by
      rw [Int.tdiv_eq_ediv_of_nonneg (by omega)]; exact (Int.natCast_ediv K (y' + 1)).symm
    simp only [hy2, hy3, decide_true, if_true, ok_bind, htd, true_and]
    generalize K / (y' + 1) = q at *
    by_cases hx : xsize > q
    · have : (xsize : Int) > (q : Int) := by omega
      simp [hx, this]
    · have : ¬ (xsize : Int) > (q : Int) := by omega
      simp only [hx, this, decide_false, if_false, Bool.false_eq_true]
      rw [hyy]
      generalize (y' + 1) * xsize = m
      exact clamp1_aux _

/-- the fact the copy loop relies on: the distance is at least 1 -/
theorem PlaneCodeToDistance_ge_one (xsize : Nat) (code : Int) :
    ∃ d : Int, Generated.Funcs.PlaneCodeToDistance xsize code = .ok d ∧ 1 ≤ d := by
  refine ⟨_, tie_PlaneCodeToDistance xsize code, ?_⟩
  unfold Webp.Impl.LTransform.planeCodeToDistance
  split
  · decide
  split
  · omega
  simp only []
  split
  · decide
  split
  · decide
  · omega

/-! ## `getARGBIndex`, `AlphabetSize`, `dsp.colorTransformDelta` -/

/-- decode_transform.go `getARGBIndex` = the green channel `Spec.LTransform.chG` -/
theorem tie_getARGBIndex (p : UInt32) :
    Generated.Funcs.getARGBIndex p.toNat = ((Webp.Spec.LTransform.chG p).toNat : Int) := by
  simp only [Generated.Funcs.getARGBIndex, Webp.Spec.LTransform.chG, shr_nat_lit, band_nat_lit,
    UInt32.toNat_toUInt8, UInt32.toNat_shiftRight, UInt32.toNat_ofNat, Nat.reducePow, Nat.reduceMod, nat_and_255]

/-- constants.go `AlphabetSize(HuffGreen, bits)` = `280 + 1<<bits` for every `bits ≥ 0`
    (the function adds `1 << colorCacheBits` unconditionally) -/
theorem AlphabetSize_green (cb : Nat) :
    Generated.Funcs.AlphabetSize 0 cb = .ok ((280 + 1 <<< cb : Nat) : Int) := by
  have e1 : ((1 : Nat) : Int) = 1 := rfl
  simp only [Generated.Funcs.AlphabetSize, Generated.Funcs.kBaseAlphabetSize, Generated.Funcs.KLiteralMap, idxI,
    chkShift_nat, Res.bind, shl_lit_nat]
  simp

/-- constants.go `AlphabetSize(j, bits)`, `j = 0..4`, `bits ≥ 1`: the alphabet sizes of the five
    codes of a group as read by `Spec.VP8L.readGroup` (= `Impl.CodecFrontL.readFive`) -/
theorem tie_AlphabetSize (i : Nat) (hi : i < 5) (cb : Nat) (hcb : 1 ≤ cb) :
    Generated.Funcs.AlphabetSize i cb
      = .ok (([Webp.Spec.VP8L.greenAlphabetSize cb, 256, 256, 256, Webp.Spec.VP8L.numDistanceCodes].getD i 0 : Nat) : Int) := by
  have hne : cb ≠ 0 := by omega
  match i, hi with
  | 0, _ =>
    show Generated.Funcs.AlphabetSize 0 cb = _
    rw [AlphabetSize_green]
    simp [Webp.Spec.VP8L.greenAlphabetSize, Webp.Spec.VP8L.numLiteralCodes, Webp.Spec.VP8L.numLengthCodes, hne]
  | 1, _ => rfl
  | 2, _ => rfl
  | 3, _ => rfl
  | 4, _ => rfl

/-- the four other codes do not depend on `colorCacheBits` (any `int`) -/
theorem AlphabetSize_other (i : Nat) (h1 : 1 ≤ i) (hi : i < 5) (cb : Int) :
    Generated.Funcs.AlphabetSize i cb = .ok (if i = 4 then 40 else 256) := by
  match i, h1, hi with
  | 1, _, _ => rfl
  | 2, _, _ => rfl
  | 3, _, _ => rfl
  | 4, _, _ => rfl

/-- FINDING (recorded, not a tie): at `colorCacheBits = 0` the exported `AlphabetSize(HuffGreen, 0)`
    is `281` (`280 + 1<<0`), while the decoder's inline computation (`if j == 0 && colorCacheBits > 0`,
    decode_image.go) and the models use `280`.  `AlphabetSize` has no caller in /repo. -/
theorem AlphabetSize_green_zero :
    Generated.Funcs.AlphabetSize 0 0 = .ok 281 ∧ Webp.Spec.VP8L.greenAlphabetSize 0 = 280 := by
  constructor <;> rfl

/-- `kBaseAlphabetSize[huffIndex]`: index out of range panics -/
theorem AlphabetSize_panics (i : Int) (h : i < 0 ∨ 5 ≤ i) (cb : Int) :
    Generated.Funcs.AlphabetSize i cb = .panic := by
  unfold Generated.Funcs.AlphabetSize
  have : idxI Generated.Funcs.kBaseAlphabetSize i = .panic := by
    unfold idxI
    by_cases h0 : i < 0
    · simp [h0]
    · have : Generated.Funcs.kBaseAlphabetSize.length ≤ i.toNat := by
        simp [Generated.Funcs.kBaseAlphabetSize]; omega
      simp [h0, List.getElem?_eq_none this]
  rw [this]; rfl

/-- `1 << colorCacheBits` with a negative count panics -/
theorem AlphabetSize_green_neg (cb : Int) (h : cb < 0) : Generated.Funcs.AlphabetSize 0 cb = .panic := by
  simp [Generated.Funcs.AlphabetSize, Generated.Funcs.kBaseAlphabetSize, Generated.Funcs.KLiteralMap, idxI, chkShift, h, Res.bind]

/-- dsp/lossless_dsp.go `colorTransformDelta(multiplier int8, value int32) int32` =
    `Spec.LTransform.colorDelta` on the low byte of `value` (every `Int`): the
    `(g2r * green) >>> 5` terms of `Impl.LTransform.colorSpaceInvPx` -/
theorem tie_colorTransformDelta (t : UInt8) (v : Int) :
    Generated.Funcs.colorTransformDelta (sext8 t) v = colorDelta t (byteOfInt v) := by
  unfold Generated.Funcs.colorTransformDelta colorDelta
  rw [wrapS8_eq_sext8]
  have ht := sext8_range t
  have hc := sext8_range (byteOfInt v)
  have := mul_s8_range _ _ ht.1 ht.2 hc.1 hc.2
  rw [wrapS32_of_range _ (by omega) (by omega)]
  rfl

/-- the form used by `Impl.LTransform.colorSpaceInvPx`: `(sext8 t * sext8 c) >>> 5` -/
theorem tie_colorTransformDelta_byte (t c : UInt8) :
    Generated.Funcs.colorTransformDelta (sext8 t) c.toNat = (sext8 t * sext8 c) >>> 5 := by
  rw [tie_colorTransformDelta, Webp.Proofs.LTransformColor.byteOfInt_toNat_self]; rfl

/-- … and with the already sign-extended green (`green := int32(int8(argb >> 8))` in Go) -/
theorem tie_colorTransformDelta_sext (t c : UInt8) :
    Generated.Funcs.colorTransformDelta (sext8 t) (sext8 c) = (sext8 t * sext8 c) >>> 5 := by
  rw [tie_colorTransformDelta]
  have hc : byteOfInt (sext8 c) = c := by
    have h := c.toNat_lt
    rw [Webp.Proofs.LTransformColor.byteOfInt_congr (b := (c.toNat : Int))
      (by rw [Webp.Proofs.LTransformColor.sext8_mod]; omega)]
    exact Webp.Proofs.LTransformColor.byteOfInt_toNat_self c
  rw [hc]; rfl

/-- non-vacuity: code 37 on a 100-pixel-wide image is `dy = 4, dx = -3`, distance 397 -/
example : Generated.Funcs.PlaneCodeToDistance 100 37 = .ok 397 := by decide
example : Generated.Funcs.VP8LSubSampleSize 1000 3 = .ok 125 := by decide
example : Generated.Funcs.addPixels 0x12345678 0xfedcba98 = 0x10101010 := by decide
example : Generated.Funcs.selectPredictor 0x12345678 0xfedcba98 0x01020304 = 0xfedcba98 := by decide
example : Generated.Funcs.getARGBIndex 0x12345678 = 0x56 := by decide
example : Generated.Funcs.AlphabetSize 0 3 = .ok 288 ∧ Generated.Funcs.AlphabetSize 4 3 = .ok 40 ∧
    Generated.Funcs.AlphabetSize 5 3 = .panic ∧ Generated.Funcs.AlphabetSize (-1) 3 = .panic := by decide
example : Generated.Funcs.colorTransformDelta (-128) 128 = 512 ∧ Generated.Funcs.colorTransformDelta (-3) 0x156 = -9 := by decide

end Webp.Props.C03Funcs
