import Webp.Proofs.FuncsBlend
import Webp.Props.C09
/-
  C09 (and C08, C18) — regenerated obligation: `animation.alphaBlendNRGBA` (closure, early returns,
  `uint32` arithmetic, the unreachable `blendA == 0` branch and the dead clamp included), translated
  from the Go AST on this run, is the model `Webp.Impl.AnimDec.alphaBlendNRGBA` for all 2^64 pixel
  pairs, hence the blend of the playback specification `Webp.Spec.Anim.blend`; it never panics
  (the division by `blendA` is guarded).
-/
namespace Webp.Props.C09Funcs
open Webp.Go Webp.Go.IntSem
open Webp.Spec.Anim Webp.Impl.AnimDec Webp.Proofs.FuncsBlend

theorem tie_alphaBlendNRGBA (s d : Px) :
    Generated.Funcs.alphaBlendNRGBA (toN s) (toN d) = .ok (toN (alphaBlendNRGBA s d)) :=
  alphaBlendNRGBA_eq s d

/-- … which is the specification's blend (`Props/C09.impl_blend_eq_spec_blend`) -/
theorem tie_alphaBlendNRGBA_spec (s d : Px) :
    Generated.Funcs.alphaBlendNRGBA (toN s) (toN d) = .ok (toN (blend s d)) := by
  rw [tie_alphaBlendNRGBA, Webp.Props.C09.impl_blend_eq_spec_blend]

/-- non-vacuity: the general branch -/
example : (match Generated.Funcs.alphaBlendNRGBA ⟨200, 10, 20, 128⟩ ⟨100, 20, 30, 128⟩ with
    | .ok p => [p.R, p.G, p.B, p.A] | _ => []) = [166, 13, 23, 192] := by decide

end Webp.Props.C09Funcs
