import Webp.Proofs.ContainerBounds
import Webp.Proofs.ContainerDemux
import Webp.Proofs.ContainerSamples
/-
  C05 — "No input bytes can crash, hang or exhaust any decoding entry point"
  (container / mux layer: `container.NewParser`, the `webp.GetFeatures` / `DecodeConfig` /
  `Decode` glue up to the codec call, and `mux.NewDemuxer`).

  The models make Go's partiality explicit: `Res.panic` is a run-time panic (slice bounds,
  index out of range), `Res.hang` means a loop ran longer than the fuel it was given, and the
  fuel handed to every loop is `len(buffer) + 1`.  `Safe` = neither of the two.  So each
  `…_safe` theorem says: for *every* byte string the entry point returns normally, and every
  chunk loop runs at most `len(input) + 1` iterations (time linear in the input length).
-/
namespace Webp.Props.C05
open Webp.Go Webp.Impl

/-! ### no panic, no hang — all byte strings -/

theorem parser_safe (b : Bytes) : (Parser.parse b).Safe := Parser.parse_safe b

theorem getFeatures_safe (b : Bytes) : (Config.getFeatures b).Safe := by
  unfold Config.getFeatures
  refine Res.safe_bind (Parser.parse_safe b) (fun p _ => ?_)
  split_ifs
  · exact Res.safe_err _
  · exact Res.safe_ok _

theorem decodeConfig_safe (lenTest : Bool) (b : Bytes) :
    (Config.decodeConfigWith lenTest b).Safe := by
  unfold Config.decodeConfigWith
  refine Res.safe_bind (Parser.parse_safe b) (fun p _ => ?_)
  split_ifs
  · exact Res.safe_err _
  · exact Res.safe_ok _

theorem decodeTarget_safe (b : Bytes) : (Config.decodeTarget b).Safe := by
  unfold Config.decodeTarget
  refine Res.safe_bind (Parser.parse_safe b) (fun p _ => ?_)
  cases p.frames with
  | nil => exact Res.safe_ok _
  | cons f _ => exact Res.safe_ok _

/-- the repaired demuxer (`parseWith true` = current /repo/mux/demux.go) -/
theorem demux_safe (b : Bytes) : (Demux.parseWith true b).Safe := Demux.parseWith_true_safe b

/-! ### the pinned defect D2: why the guard is needed -/

/-- `RIFF` + size 0 + `WEBP` + 8 more bytes: the original code evaluates `data[12:8]` -/
theorem demux_panic_counterexample :
    Demux.parseWith false Samples.riffSizeZero = .panic := by decide +kernel

theorem demux_guard_repairs :
    Demux.parseWith true Samples.riffSizeZero = .err .invalidRIFF := by decide +kernel

/-- the container parser always rejected this input -/
example : Parser.parse Samples.riffSizeZero = .err .invalidRIFF := by decide +kernel

/-! ### resource bounds on success -/

/-- Everything `container.NewParser` retains is bounded by the input:
    * at most `MaxFrames = 10000` frames;
    * every retained chunk and every frame stands for ≥ 8 header bytes plus its payload and
      alpha bytes of the input, *disjointly*: the sum is at most `len(b) - 12`
      (so copied metadata ≤ `len(b)`, `#chunks + #frames ≤ len(b)/8`);
    * every frame — ANMF frames (checked against `MaxImageArea`) and still frames (14-bit
      dimensions) alike — has `width, height ≥ 1` and `width·height < 2^30 = 1073741824`
      (for ANMF frames these are the ANMF rectangle; the frame's *bitstream* header is not
      examined by the parser, see the report);
    * every payload / alpha slice / metadata payload is a contiguous piece of `b`. -/
theorem parser_bounds {b : Bytes} {s : Parser.State} (h : Parser.parse b = .ok s) :
    s.frames.length ≤ 10000 ∧
    (s.chunks.map (fun c => 8 + c.payload.length)).sum +
      (s.frames.map (fun f => 8 + (f.payload.getD []).length + (f.alphaData.getD []).length)).sum
      + 12 ≤ b.length ∧
    (∀ f ∈ s.frames, 1 ≤ f.width ∧ 1 ≤ f.height ∧ f.width * f.height < 1073741824 ∧
      (∀ pl, f.payload = some pl → pl <:+: b) ∧ (∀ a, f.alphaData = some a → a <:+: b)) ∧
    (∀ c ∈ s.chunks, c.payload <:+: b) := by
  obtain ⟨h1, h2, h3, h4, _, _⟩ := Parser.parse_ok h
  refine ⟨h1, h2, fun f hf => ?_, h4⟩
  have := h3 f hf
  exact ⟨this.w1, this.h1, this.area, this.inPl, this.inAl⟩

/-- `MaxChunks = 1000` only limits *unknown* chunks; ICCP/EXIF/XMP chunks whose flag is set are
    appended without a count check, so the count bound that holds for all inputs is the
    linear one. -/
theorem parser_counts_linear {b : Bytes} {s : Parser.State} (h : Parser.parse b = .ok s) :
    8 * s.chunks.length + 8 * s.frames.length + 12 ≤ b.length := by
  obtain ⟨_, h2, _⟩ := parser_bounds h
  have e1 : ∀ (l : List Parser.Chunk),
      8 * l.length ≤ (l.map (fun c => 8 + c.payload.length)).sum := by
    intro l
    induction l with
    | nil => exact Nat.le_refl _
    | cons c l ih => simp only [List.length_cons, List.map_cons, List.sum_cons]; omega
  have e2 : ∀ (l : List Parser.FrameInfo), 8 * l.length ≤
      (l.map (fun f => 8 + (f.payload.getD []).length + (f.alphaData.getD []).length)).sum := by
    intro l
    induction l with
    | nil => exact Nat.le_refl _
    | cons c l ih => simp only [List.length_cons, List.map_cons, List.sum_cons]; omega
  have := e1 s.chunks
  have := e2 s.frames
  omega

theorem demux_bounds {b : Bytes} {s : Demux.State} (h : Demux.parseWith true b = .ok s) :
    1 ≤ s.frames.length ∧ s.frames.length ≤ 10000 := by
  obtain ⟨h1, h2, _⟩ := Demux.parseWith_true_ok h
  exact ⟨h2, h1⟩

/-! ### positive dimensions -/

/-- Whenever `GetFeatures` succeeds the reported width and height are ≥ 1
    (VP8X: canvas is stored minus one; VP8: zero is rejected; VP8L: stored minus one). -/
theorem features_dims_positive {b : Bytes} {f : Config.PubFeatures}
    (h : Config.getFeatures b = .ok f) : 1 ≤ f.width ∧ 1 ≤ f.height := by
  unfold Config.getFeatures at h
  cases hp : Parser.parse b with
  | err e => rw [hp] at h; cases h
  | panic => rw [hp] at h; cases h
  | hang => rw [hp] at h; cases h
  | ok p =>
    rw [hp, Res.bind_ok] at h
    obtain ⟨_, _, _, _, hw, hh⟩ := Parser.parse_ok hp
    split_ifs at h
    injection h with h
    subst h
    exact ⟨hw, hh⟩

theorem decodeConfig_dims_positive {lt : Bool} {b : Bytes} {c : Config.ImgConfig}
    (h : Config.decodeConfigWith lt b = .ok c) : 1 ≤ c.width ∧ 1 ≤ c.height := by
  unfold Config.decodeConfigWith at h
  cases hp : Parser.parse b with
  | err e => rw [hp] at h; cases h
  | panic => rw [hp] at h; cases h
  | hang => rw [hp] at h; cases h
  | ok p =>
    rw [hp, Res.bind_ok] at h
    obtain ⟨_, _, _, _, hw, hh⟩ := Parser.parse_ok hp
    split_ifs at h
    injection h with h
    subst h
    exact ⟨hw, hh⟩

/-- what `Decode` hands to the codecs has positive declared dimensions -/
theorem decodeTarget_dims_positive {b : Bytes} {t : Config.DecodeTarget}
    (h : Config.decodeTarget b = .ok (some t)) :
    1 ≤ t.width ∧ 1 ≤ t.height ∧ t.width * t.height < 1073741824 := by
  unfold Config.decodeTarget at h
  cases hp : Parser.parse b with
  | err e => rw [hp] at h; cases h
  | panic => rw [hp] at h; cases h
  | hang => rw [hp] at h; cases h
  | ok p =>
    rw [hp, Res.bind_ok] at h
    obtain ⟨_, _, hfr, _⟩ := Parser.parse_ok hp
    cases hf : p.frames with
    | nil => rw [hf] at h; injection h with h; cases h
    | cons f rest =>
      rw [hf] at h
      injection h with h; injection h with h
      subst h
      have := hfr f (by rw [hf]; exact List.mem_cons_self)
      exact ⟨this.w1, this.h1, this.area⟩

/-- The demuxer guarantees positive canvas dimensions for extended and lossless files … -/
theorem demux_dims_positive {b : Bytes} {s : Demux.State} (h : Demux.parseWith true b = .ok s)
    (hf : s.features.format ≠ .lossy) : 1 ≤ s.features.width ∧ 1 ≤ s.features.height :=
  (Demux.parseWith_true_ok h).2.2 hf

/-- … but not for simple lossy files: `parseVP8Dimensions` does not reject a zero width/height
    (the container parser does).  Observation, not a crash. -/
theorem demux_zero_dims_counterexample :
    (Demux.parseWith true (Samples.riff (Samples.chunk "VP8 " (Samples.vp8Payload 0 0)))).toOption.map
        (fun s => (s.features.width, s.features.height)) = some (0, 0) ∧
    Parser.parse (Samples.riff (Samples.chunk "VP8 " (Samples.vp8Payload 0 0))) =
      .err .invalidImage := by
  decide +kernel

/-! ### non-vacuity -/

example : (Parser.parse Samples.anim2).isOk = true := by decide +kernel
example : (Parser.parse Samples.extMetaStill).isOk = true := by decide +kernel
example : (Demux.parseWith true Samples.anim2).isOk = true := by decide +kernel
example : (Config.getFeatures Samples.extAlphaStill).isOk = true := by decide +kernel
example : (Config.decodeConfigWith true Samples.simpleVP8).isOk = true := by decide +kernel
example : ((Config.decodeTarget Samples.simpleVP8L).toOption.map Option.isSome) = some true := by
  decide +kernel
example : (Demux.parseWith true Samples.extMetaStill).toOption.map (·.features.format) =
    some .extended := by decide +kernel

end Webp.Props.C05
