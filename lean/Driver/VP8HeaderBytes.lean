import Driver.VP8Recon
import Webp.Impl.VP8HeaderBytes
/-
  Line-protocol handlers for the first-partition header model (C06, `Webp.Impl.VP8HeaderBytes`).

    hdremit <use,upd,abs> <q×4> <f×4> <sp×3> <simple,level,sharp,uselfd> <ref×4> <mode×4> <numParts>
            <baseQ> <dq×5> <coef hex (1056 bytes)> <useSkip,skipProba>
        → `ok <x:hex | d:len:fnv>`     bytes of partition 0 for zero macroblocks: `headerOps`, then `Finish`
    hdrparse <part0 hex>
        → `ok cs= ct= seg=<use,upd,abs,q×4,f×4,sp×3> filt=<simple,level,sharp,uselfd,ref×4,mode×4> np=<numParts−1>
              dqm=<m0;m1;m2;m3> coef=<len:fnv> skip=<use,p> eof=<0|1>`
          `T.parseHeader` on the reader model, from a decoder fresh out of `acquireDecoder` / `ResetProba`
-/
namespace Driver.VP8HeaderBytes
open Webp.Go Webp.Impl.VP8Recon Webp.Impl.VP8SyntaxBytes Webp.Impl.VP8HeaderBytes Webp.Impl.BoolCoder
open Driver.VP8Recon (parseInts mats)

def outBytes (b : Bytes) : String :=
  if b.length > 4096 then "d:" ++ digest b else "x:" ++ toHex b

def fin4 (l : List Int) : Fin 4 → Int := fun i => l.getD i.val 0

def freshDec : DecHeader :=
  { colorspace := false, clampType := false
    seg := { useSegment := false, updateMap := false, absoluteDelta := false, quantizer := fun _ => 0
             filterStrength := fun _ => 0, segProbs := fun _ => 255 }
    filt := { simple := false, level := 0, sharpness := 0, useLFDelta := false, refLFDelta := fun _ => 0
              modeLFDelta := fun _ => 0 }
    numPartsMinusOne := 0, baseQ0 := 0, dqY1DC := 0, dqY2DC := 0, dqY2AC := 0, dqUVDC := 0, dqUVAC := 0
    coef := defaultCoef, useSkipProba := false, skipP := 0 }

def ints4 (f : Fin 4 → Int) : String := joinWith "," ((List.finRange 4).map fun i => toString (f i))

def stateLine (hd : DecHeader) (eof : Bool) : String :=
  let sp := joinWith "," ((List.finRange 3).map fun i => toString (hd.seg.segProbs i).toNat)
  s!"ok cs={b2s hd.colorspace} ct={b2s hd.clampType} seg={b2s hd.seg.useSegment},{b2s hd.seg.updateMap},{b2s hd.seg.absoluteDelta},{ints4 hd.seg.quantizer},{ints4 hd.seg.filterStrength},{sp} filt={b2s hd.filt.simple},{hd.filt.level},{hd.filt.sharpness},{b2s hd.filt.useLFDelta},{ints4 hd.filt.refLFDelta},{ints4 hd.filt.modeLFDelta} np={hd.numPartsMinusOne} dqm={mats (decQuantMatrix hd.qidx)} coef={digest hd.coef} skip={b2s hd.useSkipProba},{hd.skipP.toNat} eof={b2s eof}"

def handle (op : String) (args : List String) : Option String :=
  match op, args with
  | "hdremit", [sg, q, f, sp, fl, rf, md, np, bq, dq, coef, sk] => do
      let sg ← parseInts sg; let q ← parseInts q; let f ← parseInts f; let sp ← parseInts sp
      let fl ← parseInts fl; let rf ← parseInts rf; let md ← parseInts md
      let np ← np.toNat?; let bq ← bq.toNat?; let dq ← parseInts dq
      let coef ← hexToBytes coef; let sk ← parseInts sk
      if sg.length ≠ 3 ∨ q.length ≠ 4 ∨ f.length ≠ 4 ∨ sp.length ≠ 3 ∨ fl.length ≠ 4 ∨ rf.length ≠ 4 ∨ md.length ≠ 4
          ∨ dq.length ≠ 5 ∨ coef.length ≠ 1056 ∨ sk.length ≠ 2 then none
      let h : EncHeader :=
        { seg := { useSegment := sg.getD 0 0 != 0, updateMap := sg.getD 1 0 != 0, absoluteDelta := sg.getD 2 0 != 0
                   quantizer := fin4 q, filterStrength := fin4 f
                   segProbs := fun i => UInt8.ofNat (sp.getD i.val 0).toNat }
          filt := { simple := fl.getD 0 0 != 0, level := (fl.getD 1 0).toNat, sharpness := (fl.getD 2 0).toNat
                    useLFDelta := fl.getD 3 0 != 0, refLFDelta := fin4 rf, modeLFDelta := fin4 md }
          numParts := np, baseQ := bq
          dqY1DC := dq.getD 0 0, dqY2DC := dq.getD 1 0, dqY2AC := dq.getD 2 0, dqUVDC := dq.getD 3 0, dqUVAC := dq.getD 4 0
          coef := coef, useSkip := sk.getD 0 0 != 0, skipProba := UInt8.ofNat (sk.getD 1 0).toNat }
      pure s!"ok {outBytes (emitPartitionBytes h.prob (headerOps h) [])}"
  | "hdrparse", [hex] => do
      let b ← hexToBytes hex
      match runR fixedProb (T.parseHeader freshDec) (newReader b) with
      | some (hd, r) => pure (stateLine hd r.eof)
      | none => pure "err parse"
  | _, _ => none

end Driver.VP8HeaderBytes
