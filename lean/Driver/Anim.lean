import Webp.Go.Canon
import Webp.Spec.Anim
import Webp.Impl.AnimDec
/-
  Line-protocol handlers for animation playback (property C09).

  animplay  <w> <h> <frames>          ok impl=[d,…] spec=[d,…] lib=[d,…]   | err canvas | panic
  animreset <k> <w> <h> <frames>      ok [d,…]     k×NextFrame, Reset, then NextFrame to the end
  animkeys  <mask> <w> <h> <frames>   ok [d,…]     key-frame shortcut forced off where bit i of mask is 0
  blend     <srcRGBA> <dstRGBA>       ok impl=<rgba> spec=<rgba> lib=<rgba>
  blendgrid <srcRGB> <dstRGB>         ok impl=<d> spec=<d> lib=<d>   digest over all 65536 (srcA,dstA)

  <frames> = `-` or `;`-separated `offX,offY,fw,fh,blendNone,disposeBG,hasAlpha,<hex RGBA, fw*fh*4 bytes>`
  d = `len:fnv1a64` of the canvas' RGBA bytes.
-/
namespace Driver.Anim
open Webp.Go
open Webp.Spec.Anim (Px Canvas Frame)
open Webp.Impl

def pxOfBytes (b : ByteArray) (i : Nat) : Px := ⟨b.get! (4*i), b.get! (4*i+1), b.get! (4*i+2), b.get! (4*i+3)⟩

def parsePixels (s : String) (n : Nat) : Option (Array Px) := do
  let b ← if s = "-" then some ByteArray.empty else hexToByteArray s
  if b.size ≠ 4 * n then none
  else some (Array.ofFn (n := n) fun i => pxOfBytes b i.val)

def parseBool (s : String) : Option Bool :=
  if s = "1" then some true else if s = "0" then some false else none

def parseFrame (s : String) : Option Frame :=
  match s.splitOn "," with
  | [ox, oy, fw, fh, bn, db, ha, hex] => do
    let ox ← ox.toInt?
    let oy ← oy.toInt?
    let fw ← fw.toNat?
    let fh ← fh.toNat?
    let bn ← parseBool bn
    let db ← parseBool db
    let ha ← parseBool ha
    let px ← parsePixels hex (fw * fh)
    pure { offX := ox, offY := oy, fw := fw, fh := fh, px := px, blendNone := bn, disposeBG := db, hasAlpha := ha }
  | _ => none

def parseFrames (s : String) : Option (List Frame) :=
  if s = "-" then some [] else (s.splitOn ";").mapM parseFrame

def canvasDigest (c : Canvas) : String :=
  let b : ByteArray := c.foldl (fun b p => (((b.push p.r).push p.g).push p.b).push p.a) (ByteArray.emptyWithCapacity (4 * c.size))
  s!"{b.size}:{(fnv1aArr b).toNat}"

def digests (l : List Canvas) : String := "[" ++ joinWith "," (l.map canvasDigest) ++ "]"

def pxHex (p : Px) : String := toHex [p.r, p.g, p.b, p.a]

def parsePx (s : String) : Option Px :=
  match ofHex s with
  | some [r, g, b, a] => some ⟨r, g, b, a⟩
  | _ => none

def parseRGB (s : String) : Option (UInt8 × UInt8 × UInt8) :=
  match ofHex s with
  | some [r, g, b] => some (r, g, b)
  | _ => none

def gridDigest (bl : Px → Px → Px) (s d : UInt8 × UInt8 × UInt8) : String := Id.run do
  let mut b := ByteArray.emptyWithCapacity (4 * 65536)
  for sa in [0:256] do
    for da in [0:256] do
      let p := bl ⟨s.1, s.2.1, s.2.2, UInt8.ofNat sa⟩ ⟨d.1, d.2.1, d.2.2, UInt8.ofNat da⟩
      b := (((b.push p.r).push p.g).push p.b).push p.a
  return s!"{b.size}:{(fnv1aArr b).toNat}"

def withDecoder (w h : String) (k : Nat → Nat → String) : Option String := do
  let wi ← w.toInt?
  let hi ← h.toInt?
  match AnimDec.newAnimDecoder wi hi with
  | .ok _ => some (k wi.toNat hi.toNat)
  | .err e => some ("err " ++ e.toString)
  | .panic => some "panic"
  | .hang => some "hang"

def handle (op : String) (args : List String) : Option String :=
  match op, args with
  | "animplay", [w, h, fs] => do
    let frames ← parseFrames fs
    withDecoder w h fun w h =>
      s!"ok impl={digests (AnimDec.playAll w h frames)} spec={digests (Webp.Spec.Anim.play w h frames)} lib={digests (Webp.Spec.Anim.playWith Webp.Spec.Anim.blendLibwebp w h frames)}"
  | "animreset", [k, w, h, fs] => do
    let k ← k.toNat?
    let frames ← parseFrames fs
    withDecoder w h fun w h =>
      let r1 := AnimDec.runN (fun _ => true) w h frames k (AnimDec.init w h)
      let r2 := AnimDec.runN (fun _ => true) w h frames frames.length (AnimDec.reset r1.2)
      s!"ok {digests r2.1}"
  | "animkeys", [mask, w, h, fs] => do
    let mask ← mask.toNat?
    let frames ← parseFrames fs
    withDecoder w h fun w h =>
      s!"ok {digests (AnimDec.playAllO (fun i => mask.testBit i) w h frames)}"
  | "blend", [s, d] => do
    let s ← parsePx s
    let d ← parsePx d
    some s!"ok impl={pxHex (AnimDec.alphaBlendNRGBA s d)} spec={pxHex (Webp.Spec.Anim.blend s d)} lib={pxHex (Webp.Spec.Anim.blendLibwebp s d)}"
  | "blendgrid", [s, d] => do
    let s ← parseRGB s
    let d ← parseRGB d
    some s!"ok impl={gridDigest AnimDec.alphaBlendNRGBA s d} spec={gridDigest Webp.Spec.Anim.blend s d} lib={gridDigest Webp.Spec.Anim.blendLibwebp s d}"
  | _, _ => none

end Driver.Anim
