import Webp.Go.Canon
import Webp.Spec.Anim
import Webp.Impl.AnimDec
import Webp.Impl.AnimEnc
import Driver.Anim
/-
  Line-protocol handlers for the animation encoder (properties C08, C18).

  animenc     <w> <h> <lossless> <mixed> <quality> <kmin> <kmax> <loop> <pins> <oracle> <frames>
              ok loop=<n> still=<b> fc=<n> ks=<n> pidx=<n> prect=<x0,y0,x1,y1> frames=[f;…]
              | err canvas | err noframes
              f = offX,offY,w,h,blendNone,disposeBG,durMs,alt,<digest of the picture handed to the codec>
  animencplay (same arguments)   the model's output played back through the toy codec:
              ok c08=<b> c18=<b> inv=<b> canv=[d,…]
  animencexh  <lossless> <mixed> <quality> <kmin> <kmax> <a> <oracles>
              all 1296 two-frame sequences (first canvas number `a`) over the 2×2 canvas with
              alpha ∈ {0,128,255} × two colours; <oracles> = 1296 oracle strings separated by `/`
              ok n=1296 traces=<digest of the 1296 animenc lines> c08bad=<n> c18bad=<n> invbad=<n>
  changedrect <w> <h> <hex prev> <hex curr>           ok x0,y0,x1,y1
  snapeven    <x0,y0,x1,y1>                           ok x0,y0,x1,y1
  blendposs   <w> <h> <lossless> <quality> <x0,y0,x1,y1> <hex src> <hex dst>     ok <b>
  qmaxdiff    <quality>                               ok <n>
  sanitizekf  <kmin> <kmax>                           ok <kmin>,<kmax>
  clamploop   <v>                                     ok <n>
  splitalpha  <hex>                                   ok alpha=<digest|nil> bs=<digest>

  <pins>    three bits: blend, filler, alpha (1 = the pinned code of before today's repairs)
  <oracle>  `<stillSmaller>` followed by one `,`-separated group of six bits per AddFrame call:
            altKey altNone altBG altFiller useBG keySmaller (missing groups are all-zero)
  <frames>  `;`-separated `durMs,iw,ih,<hex RGBA, iw*ih*4 bytes>`
-/
namespace Driver.AnimEnc
open Webp.Go
open Webp.Spec.Anim (Px Canvas Frame)
open Webp.Impl
open Webp.Impl.AnimEnc
open Webp.Impl.AnimDec (Rect)

def bit (s : String) (i : Nat) : Bool := (s.toList.getD i '0') == '1'

def parseGroup (s : String) : StepOracle :=
  { altKey := bit s 0, altNone := bit s 1, altBG := bit s 2, altFiller := bit s 3,
    useBG := bit s 4, keySmaller := bit s 5 }

/-- `(stillSmaller, per-call oracle)` -/
def parseOracle (s : String) : Bool × (Nat → StepOracle) :=
  match s.splitOn "," with
  | [] => (false, fun _ => parseGroup "")
  | st :: groups =>
    let arr := (groups.map parseGroup).toArray
    (st == "1", fun i => arr.getD i (parseGroup ""))

def parseInput (s : String) : Option (SubImage × Int) :=
  match s.splitOn "," with
  | [d, iw, ih, hex] => do
    let d ← d.toInt?
    let iw ← iw.toNat?
    let ih ← ih.toNat?
    let px ← Driver.Anim.parsePixels hex (iw * ih)
    pure (⟨iw, ih, px⟩, d)
  | _ => none

def parseInputs (s : String) : Option (List (SubImage × Int)) :=
  if s = "-" then some [] else (s.splitOn ";").mapM parseInput

def parsePins (s : String) : Pins := { blend := bit s 0, filler := bit s 1, alpha := bit s 2 }

def parseRect (s : String) : Option Rect :=
  match s.splitOn "," with
  | [a, b, c, d] => do
    let a ← a.toInt?
    let b ← b.toInt?
    let c ← c.toInt?
    let d ← d.toInt?
    pure ⟨a, b, c, d⟩
  | _ => none

def rectStr (r : Rect) : String := s!"{r.minX},{r.minY},{r.maxX},{r.maxY}"

def frameStr (f : EFrame) : String :=
  s!"{f.offX},{f.offY},{f.img.w},{f.img.h},{b2s f.blendNone},{b2s f.disposeBG},{f.dur},{b2s f.useAlt},{Driver.Anim.canvasDigest f.img.px}"

def traceStr (st : EncState) (out : Output) : String :=
  s!"ok loop={out.loop} still={b2s out.still} fc={st.frameCount} ks={st.countSinceKeyframe} pidx={st.prevMuxIndex} prect={rectStr st.prevRect} frames=[{joinWith ";" (out.frames.map frameStr)}]"

structure Args where
  cfg : Config
  still : Bool
  oracle : Nat → StepOracle
  inputs : List (SubImage × Int)

def parseArgs : List String → Option (Option Args)
  | [w, h, ll, mx, q, kmin, kmax, loop, pins, orc, fs] => do
    let w ← w.toInt?
    let h ← h.toInt?
    let ll ← Driver.Anim.parseBool ll
    let mx ← Driver.Anim.parseBool mx
    let q ← q.toNat?
    let kmin ← kmin.toInt?
    let kmax ← kmax.toInt?
    let loop ← loop.toInt?
    let inputs ← parseInputs fs
    let (still, oracle) := parseOracle orc
    match newEncoder w h ll mx q kmin kmax loop (parsePins pins) with
    | none => pure none
    | some cfg => pure (some { cfg, still, oracle, inputs })
  | _ => none

def trace (a : Args) : String :=
  let st := run a.cfg a.oracle a.inputs
  match encodeAll a.cfg a.oracle a.still a.inputs with
  | none => "err noframes"
  | some out => traceStr st out

/-- the state invariant's second conjunct: the rectangle of emitted frame `prevMuxIndex` is
    `prevRect`, after every prefix of the inputs -/
def invHolds (a : Args) : Bool :=
  (List.range (a.inputs.length + 1)).all fun k =>
    let st := run a.cfg a.oracle (a.inputs.take k)
    k == 0 || ((st.frames.getD st.prevMuxIndex.toNat default).rect == st.prevRect)

/-- played-back canvases and the verdicts of properties C08 / C18 on the toy codec -/
def verdicts (a : Args) : Option (Bool × Bool × List Canvas) :=
  match encodeAll a.cfg a.oracle a.still a.inputs with
  | none => none
  | some out =>
    let n := a.cfg.w * a.cfg.h
    let played := playback a.cfg Toy.codec out
    let ins := a.inputs.map fun x => placeOnCanvas a.cfg.w a.cfg.h x.1
    let e8 := canvasRel pxEqv n
    let e18 := canvasRel pxAlphaEq n
    let pics8 := listRel e8 (dedup e8 played) (dedup e8 ins)
    let distinct := (dedup e8 ins).length
    let pdur := played.zip (out.frames.map (·.dur))
    let idur := ins.zip (a.inputs.map (·.2))
    let durs := (dedupDur e8 pdur).map (·.2) == (dedupDur e8 idur).map (·.2)
    let c08 := pics8 && (distinct < 2 || (durs && out.loop == a.cfg.loop && !out.still))
    let c18 := listRel e18 (dedup e18 played) (dedup e18 ins)
    some (c08, c18, played)

def play (a : Args) : String :=
  match verdicts a with
  | none => "err noframes"
  | some (c08, c18, played) =>
    s!"ok c08={b2s c08} c18={b2s c18} inv={b2s (invHolds a)} canv={Driver.Anim.digests played}"

/-! exhaustive domain: 2×2 canvas, per pixel alpha ∈ {0,128,255} × colour ∈ {A,B} -/

def exhPx (d : Nat) : Px :=
  let a : UInt8 := if d % 3 = 0 then 0 else if d % 3 = 1 then 128 else 255
  if d / 3 = 0 then ⟨200, 16, 32, a⟩ else ⟨10, 11, 12, a⟩

def exhCanvas (n : Nat) : SubImage :=
  ⟨2, 2, #[exhPx (n % 6), exhPx (n / 6 % 6), exhPx (n / 36 % 6), exhPx (n / 216 % 6)]⟩

def subHex (s : SubImage) : String :=
  toHex (s.px.toList.flatMap fun p => [p.r, p.g, p.b, p.a])

def exh (ll mx : Bool) (q : Nat) (kmin kmax : Int) (a : Nat) (oracles : Array String) : String := Id.run do
  let mut lines : ByteArray := ByteArray.empty
  let mut bad8 := 0
  let mut bad18 := 0
  let mut badInv := 0
  match newEncoder 2 2 ll mx q kmin kmax 0 with
  | none => return "err canvas"
  | some cfg =>
    for b in [0:1296] do
      let (still, oracle) := parseOracle (oracles.getD b "0")
      let args : Args := { cfg, still, oracle, inputs := [(exhCanvas a, 40), (exhCanvas b, 60)] }
      lines := lines ++ (trace args).toUTF8
      lines := lines.push 10
      match verdicts args with
      | none => bad8 := bad8 + 1
      | some (c08, c18, _) =>
        -- C08 is a statement about the lossless, non-mixed encoder
        if ll && !mx && !c08 then bad8 := bad8 + 1
        if !c18 then bad18 := bad18 + 1
      if !invHolds args then badInv := badInv + 1
    return s!"ok n=1296 traces={lines.size}:{(fnv1aArr lines).toNat} c08bad={bad8} c18bad={bad18} invbad={badInv}"

def handle (op : String) (args : List String) : Option String :=
  match op, args with
  | "animenc", as => do
    match ← parseArgs as with
    | none => some "err canvas"
    | some a => some (trace a)
  | "animencplay", as => do
    match ← parseArgs as with
    | none => some "err canvas"
    | some a => some (play a)
  | "animencexh", [ll, mx, q, kmin, kmax, a, orc] => do
    let ll ← Driver.Anim.parseBool ll
    let mx ← Driver.Anim.parseBool mx
    let q ← q.toNat?
    let kmin ← kmin.toInt?
    let kmax ← kmax.toInt?
    let a ← a.toNat?
    some (exh ll mx q kmin kmax a (orc.splitOn "/").toArray)
  | "changedrect", [w, h, p, c] => do
    let w ← w.toNat?
    let h ← h.toNat?
    let p ← Driver.Anim.parsePixels p (w * h)
    let c ← Driver.Anim.parsePixels c (w * h)
    some s!"ok {rectStr (findChangedRect w h p c)}"
  | "snapeven", [r] => do
    let r ← parseRect r
    some s!"ok {rectStr (snapToEven r)}"
  | "blendposs", [w, h, ll, q, r, s, d] => do
    let w ← w.toNat?
    let h ← h.toNat?
    let ll ← Driver.Anim.parseBool ll
    let q ← q.toNat?
    let r ← parseRect r
    let s ← Driver.Anim.parsePixels s (w * h)
    let d ← Driver.Anim.parsePixels d (w * h)
    let b := if ll then isLosslessBlendingPossible w h s d r else isLossyBlendingPossible w h s d r q
    some s!"ok {b2s b}"
  | "qmaxdiff", [q] => do
    let q ← q.toNat?
    some s!"ok {qualityToMaxDiff q}"
  | "sanitizekf", [kmin, kmax] => do
    let kmin ← kmin.toInt?
    let kmax ← kmax.toInt?
    let r := sanitizeKeyframeOptions kmin kmax
    some s!"ok {r.1},{r.2}"
  | "clamploop", [v] => do
    let v ← v.toInt?
    some s!"ok {clampLoopCount v}"
  | "splitalpha", [hex] => do
    let data ← hexToBytes hex
    let r := splitAlphaAndBitstream data
    some s!"ok alpha={digestOpt r.1} bs={digest r.2}"
  | _, _ => none

end Driver.AnimEnc
