import Webp.Go.Canon
import Webp.Impl.Opts
/-
  Line-protocol handlers for the option front end (property C20).

  wire form of an EncoderOptions value: `nil`, or 25 comma-separated fields in struct order
    Lossless,Quality,Method,Preset,UseSharpYUV,Exact,TargetSize,TargetPSNR,Preprocessing,
    SNSStrength,FilterStrength,FilterSharpness,FilterType,Partitions,Segments,Pass,
    EmulateJpegSize,QMin,QMax,AlphaCompression,AlphaFiltering,AlphaQuality,ICC,EXIF,XMP
  bools `0|1`, ints decimal, float32 as the decimal value of its IEEE-754 bit pattern,
  metadata `n` (nil slice) or its length in decimal.

  ops
    optfront <opts> <w> <h> <flags>   flags: `-` or any of `W` (nil writer) `I` (nil image) `A` (image has alpha)
                                      → `err <class>` | `ok <canonical resolved config>`
    optvalidate <opts>                → `ok` | `err <class>`                       (validateConfig)
    optresolve <Field> <v>            → `ok <n>`                                   (resolve<Field>)
    optdefcfg <q>                     → `ok <canonical EncodeConfig>`              (lossy.DefaultConfig)
    optdefault                        → `ok <canonical options>`                   (DefaultOptions)
    optpreset <p> <qbits>             → `ok <canonical options>`                   (OptionsForPreset)
    optdoc                            → `ok <documented sentinel table> | <documented ranges>`
    optf32 <bits>                     → `ok nan= inf= lt0= gt0= gt100= int=`       (the float32 primitives)
    optenum                           → `ok none= fast= best=`                     (lossy.AlphaFilterMode*)
-/
namespace Driver.Opts
open Webp.Go Webp.Impl.Opts

def pBool (s : String) : Option Bool :=
  if s = "1" then some true else if s = "0" then some false else none

def pMeta (s : String) : Option (Option Nat) :=
  if s = "n" then some none else s.toNat?.map some

def pF32 (s : String) : Option F32 :=
  match s.toNat? with
  | some b => if b < 4294967296 then some (F32.ofBits b) else none
  | none => none

def pOpts (s : String) : Option (Option Opts) :=
  if s = "nil" then some none else
  match s.splitOn "," with
  | [l, q, m, pr, sh, ex, ts, ps, pp, sns, fs, fsh, ft, pa, sg, pss, ej, qmi, qma, ac, af, aq, ic, exf, xm] => do
    let lossless ← pBool l
    let quality ← pF32 q
    let method ← m.toInt?
    let preset ← pr.toInt?
    let useSharpYUV ← pBool sh
    let exact ← pBool ex
    let targetSize ← ts.toInt?
    let targetPSNR ← pF32 ps
    let preprocessing ← pp.toInt?
    let snsStrength ← sns.toInt?
    let filterStrength ← fs.toInt?
    let filterSharpness ← fsh.toInt?
    let filterType ← ft.toInt?
    let partitions ← pa.toInt?
    let segments ← sg.toInt?
    let pass ← pss.toInt?
    let emulateJpegSize ← pBool ej
    let qMin ← qmi.toInt?
    let qMax ← qma.toInt?
    let alphaCompression ← ac.toInt?
    let alphaFiltering ← af.toInt?
    let alphaQuality ← aq.toInt?
    let icc ← pMeta ic
    let exif ← pMeta exf
    let xmp ← pMeta xm
    pure (some { lossless, quality, method, preset, useSharpYUV, exact, targetSize, targetPSNR,
                 preprocessing, snsStrength, filterStrength, filterSharpness, filterType,
                 partitions, segments, pass, emulateJpegSize, qMin, qMax, alphaCompression,
                 alphaFiltering, alphaQuality, icc, exif, xmp })
  | _ => none

def sMeta : Option Nat → String
  | none => "n"
  | some n => toString n

/-- canonical options (floats in `F32.toStr` form) -/
def sOpts (o : Opts) : String :=
  joinWith "," [b2s o.lossless, o.quality.toStr, toString o.method, toString o.preset,
    b2s o.useSharpYUV, b2s o.exact, toString o.targetSize, o.targetPSNR.toStr,
    toString o.preprocessing, toString o.snsStrength, toString o.filterStrength,
    toString o.filterSharpness, toString o.filterType, toString o.partitions,
    toString o.segments, toString o.pass, b2s o.emulateJpegSize, toString o.qMin,
    toString o.qMax, toString o.alphaCompression, toString o.alphaFiltering,
    toString o.alphaQuality, sMeta o.icc, sMeta o.exif, sMeta o.xmp]

def sCfg (c : LossyCfg) : String :=
  s!"q={c.quality} ts={c.targetSize} psnr={c.targetPSNR.toStr} m={c.method} sns={c.snsStrength} fs={c.filterStrength} fsh={c.filterSharpness} ft={c.filterType} part={c.partitions} seg={c.segments} pass={c.pass} pre={c.preprocessing} dith={match c.dithering with | none => "0" | some q => "f(" ++ q.toStr ++ ")"} qmin={c.qMin} qmax={c.qMax} ha={c.hasAlpha}"

def sAlpha : Option AlphaCfg → String
  | none => "-"
  | some a => s!"{a.quality},{a.method},{a.filter},{a.effortLevel}"

def sResolved : Resolved → String
  | .lossy w h cfg acfg exact sharp hm icc exif xmp =>
    s!"lossy w={w} h={h} {sCfg cfg} alpha={sAlpha acfg} exact={b2s exact} sharp={b2s sharp} meta={b2s hm} icc={icc} exif={exif} xmp={xmp}"
  | .lossless w h q m nl exact hm icc exif xmp =>
    s!"lossless w={w} h={h} q={q} m={m} nl={nl} exact={b2s exact} meta={b2s hm} icc={icc} exif={exif} xmp={xmp}"

def resLine : Res Err Resolved → String
  | .ok r => "ok " ++ sResolved r
  | .err e => "err " ++ e.toString
  | .panic => "panic"
  | .hang => "hang"

def pFlags (s : String) : Option (Bool × Bool × Bool) :=
  if s = "-" then some (false, false, false)
  else if s.toList.all (fun c => c = 'W' ∨ c = 'I' ∨ c = 'A') then
    some (s.toList.contains 'W', s.toList.contains 'I', s.toList.contains 'A')
  else none

def resolveByName (f : String) (v : Int) : Option Int :=
  match f with
  | "SNSStrength" => some (resolveSNSStrength v)
  | "FilterStrength" => some (resolveFilterStrength v)
  | "FilterType" => some (resolveFilterType v)
  | "Segments" => some (resolveSegments v)
  | "Pass" => some (resolvePass v)
  | "QMax" => some (resolveQMax v)
  | "AlphaCompression" => some (resolveAlphaCompression v)
  | "AlphaFiltering" => some (resolveAlphaFiltering v)
  | "AlphaQuality" => some (resolveAlphaQuality v)
  | _ => none

def docLine : String :=
  let sent := SField.all.map fun f => s!"{f.name}<0={docDefault f}"
  let rng := docRanges.map fun (n, lo, hi, d) => s!"{n}={lo}..{hi}/{d}"
  "ok " ++ joinWith "," sent ++ " | " ++ joinWith "," rng

/-- the float32 primitives of the model on one bit pattern; `int(x)` only where Go defines it -/
def f32Line (x : F32) : String :=
  let i := x.toInt
  let fin := !x.isNaN && !x.isInf
  let is := if fin && decide (i.natAbs < 4611686018427387904) then toString i else "-"
  s!"ok nan={b2s x.isNaN} inf={b2s x.isInf} lt0={b2s x.ltZero} gt0={b2s x.gtZero} gt100={b2s (x.gtNat 100)} int={is} str={x.toStr}"

def handle (op : String) (args : List String) : Option String :=
  match op, args with
  | "optfront", [o, w, h, fl] => do
    let o ← pOpts o
    let w ← w.toInt?
    let h ← h.toInt?
    let (wn, inil, ha) ← pFlags fl
    pure (resLine (front o { writerNil := wn, imgNil := inil, w := w, h := h, hasAlpha := ha }))
  | "optvalidate", [o] => do
    let o ← pOpts o
    let o ← o
    pure (match validateConfig o with
      | none => "ok"
      | some e => "err " ++ e.toString)
  | "optresolve", [f, v] => do
    let v ← v.toInt?
    let r ← resolveByName f v
    pure s!"ok {r}"
  | "optdefcfg", [q] => do
    let q ← q.toInt?
    pure ("ok " ++ sCfg (defaultConfig q))
  | "optdefault", [] => some ("ok " ++ sOpts defaultOptions)
  | "optpreset", [p, q] => do
    let p ← p.toInt?
    let q ← pF32 q
    pure ("ok " ++ sOpts (optionsForPreset p q))
  | "optdoc", [] => some docLine
  | "optf32", [b] => (pF32 b).map f32Line
  | "optenum", [] => some s!"ok none={alphaFilterModeNone} fast={alphaFilterModeFast} best={alphaFilterModeBest}"
  | _, _ => none

end Driver.Opts
