import Webp.Go.Canon
import Webp.Spec.VP8L
import Webp.Impl.VP8LPlanCheck
import Webp.Impl.Alpha
import Driver.LTransform
/-
  Line-protocol handler for property C01, stage 4 (suite `c01full`): the per-input certificate.

    c01full <w> <h> <exact> <icc> <exif> <xmp> <file> <pixels>
        <w> <h>     picture size (`img.Bounds().Dx(), Dy()`)
        <exact>     0|1 (`opts.Exact`)
        <icc> <exif> <xmp>   the metadata blobs handed to Encode (hex, `-` = none)
        <file>      the bytes `webp.Encode` wrote (hex)
        <pixels>    the source picture as non-premultiplied `aarrggbb` words, row-major
                    (`color.NRGBAModel.Convert(img.At(x, y))`)

    answer  ok file=<0|1> stream=<0|1> encodes=<0|1> groups=<n> bits=<histoBits> cb=<cacheBits> xf=<kinds|-> ntok=<n>
          | err container | err extract

    c07alph <w> <h> <chunk> <plane>
        <chunk>     the payload of a real ALPH chunk (header byte + data), hex
        <plane>     the source alpha plane, w*h bytes, hex
    answer  ok method=0 filter=<f>                      raw chunk: nothing to certify
          | ok method=1 filter=<f> payload=<0|1> valid=<0|1> groups=<n> cb=<cb> xf=<kinds|-> ntok=<n>
          | err extract
        the plan is reconstructed from `alphaVP8LStream payload w h` (what DecodeAlpha rebuilds);
        payload : the plan's stream minus its five header bytes IS the stored payload
        valid   : `validPlanFor w h ((filter f w h plane).map embedGreen) plan`
        both 1 ⇒ `Webp.Props.C07Lossless.alph_certificate_implies_roundtrip`: DecodeAlpha returns the plane.

  The driver (1) takes the VP8L payload out of the file with the model of `container.NewParser`,
  (2) RECONSTRUCTS a stream plan from the payload (`exStream`: the specification's readers, recording
  code lengths, code-length-code lengths, tokens, the entropy image) — this extractor is NOT trusted —
  and (3) evaluates exactly the hypotheses of `Webp.Props.C01Full.encode_decode_roundtrip` on it:
      file    : `encodeAPIWith plan w h meta = ok <file>`   (the model emitter + container writer, fed
                with the plan, reproduce the real file byte for byte)
      stream  : `PlanCheck.streamValid plan` (and `dimsOK w h`, `containerSizeOK meta payload`)
      encodes : `PlanCheck.planEncodes plan (norm exact pixels)`
  (`stream ∧ encodes` with the two dimension tests = `PlanCheck.validPlanFor`, sound by
  `validPlanFor_sound`).  All three `1` ⇒ by the theorem `Decode(file)` is the source picture
  (alpha-0 pixels transparent black unless Exact), no decoder having been run on the file.
-/
namespace Driver.C01Full
open Webp.Go Webp.Spec.VP8L Webp.Impl.VP8LEntropy

/-- one prefix code as the plan needs it: `(lens, clLens)`; `clLens = #[]` for a simple code -/
def exCode (n : Nat) (br : BitReader) : Option ((Array Nat × Array Nat) × BitReader) :=
  match br.readBits 1 with
  | .ok (simple, br1) =>
    if simple = 1 then
      match readCodeLengthVector n br with
      | .ok (lens, br') => some ((lens, #[]), br')
      | _ => none
    else
      match br1.readBits 4 with
      | .ok (k, br2) =>
        match readCodeLengthCodeLengths (4 + k) 0 (Array.replicate numCodeLengthCodes 0) br2 with
        | .ok (cl, _) =>
          match readCodeLengthVector n br with
          | .ok (lens, br') => some ((lens, cl), br')
          | _ => none
        | _ => none
      | _ => none
  | _ => none

def exGroup (cb : Nat) (br : BitReader) : Option (GroupPlan × Group × BitReader) := do
  let ((l0, c0), b1) ← exCode (greenAlphabetSize cb) br
  let ((l1, c1), b2) ← exCode 256 b1
  let ((l2, c2), b3) ← exCode 256 b2
  let ((l3, c3), b4) ← exCode 256 b3
  let ((l4, c4), b5) ← exCode numDistanceCodes b4
  match readGroup cb br with
  | .ok (g, b5') =>
    if b5'.pos = b5.pos then some ({ lens5 := [l0, l1, l2, l3, l4], cl5 := [c0, c1, c2, c3, c4] }, g, b5) else none
  | _ => none

def exGroups (cb : Nat) : (n : Nat) → List GroupPlan → Array Group → BitReader →
    Option (List GroupPlan × Array Group × BitReader)
  | 0, gs, qs, br => some (gs.reverse, qs, br)
  | n + 1, gs, qs, br =>
    match exGroup cb br with
    | some (g, q, br) => exGroups cb n (g :: gs) (qs.push q) br
    | none => none

/-- the pixel loop of the specification, recording the tokens (tail recursive) -/
def exTokens (ep : EntropyParams) (npix : Nat) :
    (fuel : Nat) → (out cache : Array UInt32) → BitReader → List Token → Option (List Token × Array UInt32 × BitReader)
  | 0, _, _, _, _ => none
  | fuel + 1, out, cache, br, acc =>
    if out.size ≥ npix then some (acc.reverse, out, br)
    else
      let gi := groupIndexAt ep out.size
      if h : gi < ep.groups.size then
        match readToken ep.groups[gi] ep.width br with
        | .ok (t, br) =>
          match execToken npix ep.cacheBits t out cache with
          | .ok (out, cache) => exTokens ep npix fuel out cache br (t :: acc)
          | _ => none
        | _ => none
      else none

def tokenRef : Token → PixOrCopy
  | .literal a => .literal a
  | .cache i => .cacheIdx i
  | .copy l d => .copy l d

/-- an entropy-coded sub-image (`encodeSubImage`: no colour cache) -/
def exSubImage (w h : Nat) (br : BitReader) : Option (ImagePlan × Array UInt32 × BitReader) := do
  match readColorCacheInfo br with
  | .ok (0, br1) =>
    let (g, q, br2) ← exGroup 0 br1
    let ep : EntropyParams := { width := w, height := h, cacheBits := 0, groups := #[q] }
    let (toks, px, br3) ← exTokens ep (w * h) (w * h + 1) (Array.emptyWithCapacity (w * h)) (cacheNew 0) br2 []
    some ({ width := w, height := h, refs := toks.map tokenRef, lens5 := g.lens5, cl5 := g.cl5 }, px, br3)
  | _ => none

def exTransforms (h : Nat) : (fuel : Nat) → (w : Nat) → List XfPlan → List Nat → BitReader →
    Option (List XfPlan × Nat × BitReader)
  | 0, _, _, _, _ => none
  | fuel + 1, w, acc, kinds, br =>
    match br.readBits 1 with
    | .ok (present, br) =>
      if present = 0 then some (acc.reverse, w, br)
      else
        match br.readBits 2 with
        | .ok (ty, br) =>
          if kinds.contains ty then none
          else if ty = 2 then exTransforms h fuel w (.subtractGreen :: acc) (ty :: kinds) br
          else if ty = 3 then
            match br.readBits 8 with
            | .ok (n, br) =>
              match exSubImage (n + 1) 1 br with
              | some (p, _, br) => exTransforms h fuel (packedWidth w (n + 1)) (.colorIndexing (n + 1) p :: acc) (ty :: kinds) br
              | none => none
            | _ => none
          else
            match br.readBits 3 with
            | .ok (b, br) =>
              let bits := b + 2
              match exSubImage (subSampleSize w bits) (subSampleSize h bits) br with
              | some (p, _, br) =>
                exTransforms h fuel w ((if ty = 0 then XfPlan.predictor bits p else XfPlan.crossColor bits p) :: acc)
                  (ty :: kinds) br
              | none => none
            | _ => none
        | _ => none
    | _ => none

/-- reconstruct a stream plan from a VP8L payload -/
def exStream (data : ByteArray) : Option StreamPlanMeta := do
  match readHeader data with
  | .ok (hdr, br) =>
    let (xfs, w, br) ← exTransforms hdr.height 5 hdr.width [] [] br
    match readColorCacheInfo br with
    | .ok (cb, br) =>
      match br.readBits 1 with
      | .ok (present, br) =>
        let npix := w * hdr.height
        if present = 1 then
          match br.readBits 3 with
          | .ok (b, br) =>
            let bits := b + 2
            let (ent, epx, br) ← exSubImage (subSampleSize w bits) (subSampleSize hdr.height bits) br
            let symbols : Array Nat := epx.map Webp.Impl.PlanCheck.metaIndexOf
            let n := symbols.foldl max 0 + 1
            let (gs, qs, br) ← exGroups cb n [] (Array.emptyWithCapacity n) br
            let ep : EntropyParams := { width := w, height := hdr.height, cacheBits := cb, prefixBits := bits,
                                        entropy := symbols, groups := qs }
            let (toks, _, _) ← exTokens ep npix (npix + 1) (Array.emptyWithCapacity npix) (cacheNew cb) br []
            some { width := hdr.width, height := hdr.height, hasAlpha := hdr.hasAlpha, transforms := xfs, cacheBits := cb,
                   main := { width := w, height := hdr.height, refs := toks.map tokenRef, groups := gs,
                             histoBits := bits, symbols := symbols, entropy := ent } }
          | _ => none
        else
          let (g, q, br) ← exGroup cb br
          let ep : EntropyParams := { width := w, height := hdr.height, cacheBits := cb, groups := #[q] }
          let (toks, _, _) ← exTokens ep npix (npix + 1) (Array.emptyWithCapacity npix) (cacheNew cb) br []
          some { width := hdr.width, height := hdr.height, hasAlpha := hdr.hasAlpha, transforms := xfs, cacheBits := cb,
                 main := { width := w, height := hdr.height, refs := toks.map tokenRef, groups := [g] } }
      | _ => none
    | _ => none
  | _ => none

def kindsStr (ts : List XfPlan) : String :=
  if ts.isEmpty then "-" else String.join (ts.map fun t => toString (Webp.Impl.PlanCheck.xfKind t))

def handle (op : String) (args : List String) : Option String :=
  match op, args with
  | "c01full", [w, h, exact, icc, exif, xmp, file, pixels] => do
    let w ← w.toNat?
    let h ← h.toNat?
    let exact ← exact.toNat?
    let icc ← hexToBytes icc
    let exif ← hexToBytes exif
    let xmp ← hexToBytes xmp
    let file ← hexToBytes file
    let px ← Driver.LTransform.parsePxs pixels
    match Webp.Impl.Config.decodeTarget file with
    | .ok (some t) =>
      if !t.isLossless then some "err container"
      else
        match exStream (ByteArray.mk t.payload.toArray) with
        | none => some "err extract"
        | some sp =>
          let m : Webp.Impl.Writer.Meta := { icc := icc, exif := exif, xmp := xmp }
          let fileOK : Bool := match Webp.Impl.LosslessAPI.encodeAPIWith sp w h m with
            | .ok out => out == file
            | _ => false
          let argb := Webp.Impl.LosslessAPI.norm (exact = 1) px
          let dims : Bool := decide (sp.width = w) && decide (sp.height = h)
          let sizeOK := Webp.Impl.PlanCheck.dimsOK w h &&
            Webp.Impl.PlanCheck.containerSizeOK m (Webp.Impl.VP8LEntropy.streamBytesMeta sp).data.toList
          let sv := dims && sizeOK && Webp.Impl.PlanCheck.streamValid sp
          let pe := Webp.Impl.PlanCheck.planEncodes sp argb
          some s!"ok file={b2s fileOK} stream={b2s sv} encodes={b2s pe} groups={sp.main.groups.length} bits={sp.main.histoBits} cb={sp.cacheBits} xf={kindsStr sp.transforms} ntok={sp.main.refs.length}"
    | _ => some "err container"
  | "c07alph", [w, h, chunk, plane] => do
    let w ← w.toNat?
    let h ← h.toNat?
    let chunk ← hexToBytes chunk
    let plane ← hexToBytes plane
    match chunk with
    | [] => some "err empty"
    | hdr :: payload =>
      let method := (hdr &&& 3).toNat
      let f := Webp.Impl.Alpha.Filter.ofField ((hdr >>> 2) &&& 3).toNat
      if method ≠ 1 then some s!"ok method={method} filter={f.code}"
      else
        match exStream (ByteArray.mk (Webp.Impl.Alpha.alphaVP8LStream payload w h).toArray) with
        | none => some "err extract"
        | some sp =>
          let payloadOK : Bool := (streamBytesMeta sp).data.toList.drop 5 == payload
          let argb := (Webp.Impl.Alpha.filter f w h plane.toArray).map Webp.Impl.Alpha.embedGreen
          let sizeOK : Bool := decide (0 < w) && decide (0 < h) && decide (w * h ≤ 2 ^ 30) && decide (plane.length = w * h)
          let valid := sizeOK && Webp.Impl.PlanCheck.validPlanFor w h argb sp
          some s!"ok method=1 filter={f.code} payload={b2s payloadOK} valid={b2s valid} groups={sp.main.groups.length} cb={sp.cacheBits} xf={kindsStr sp.transforms} ntok={sp.main.refs.length}"
  | _, _ => none

end Driver.C01Full
