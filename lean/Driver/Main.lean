import Driver.Container
import Driver.RowPipe
import Driver.Anim
import Driver.Opts
import Driver.VP8L
import Driver.LTransform
import Driver.Alpha
import Driver.Import
import Driver.VP8
import Driver.AnimEnc
import Driver.Kernels
import Driver.Mux
import Driver.VP8Recon
import Driver.Writer
import Driver.VP8LEntropy
import Driver.CodecFront
import Driver.BoolCoder
import Driver.VP8SyntaxBytes
import Driver.VP8HeaderBytes
import Driver.VP8ModeBytes
import Driver.BoolCoderFast
import Driver.VP8LWindow
import Driver.VP8LWindow2
import Driver.VP8LWindow3
import Driver.VP8Dec
import Driver.C01Full
/-
  webpdrv — line protocol: one operation per input line (`op arg arg …`), one canonical
  output line per operation.  Unknown or malformed operations answer `bad-op` (never a default).
-/
def dispatch (line : String) : String :=
  match (line.trimAscii.toString.splitOn " ").filter (· ≠ "") with
  | [] => "bad-op"
  | op :: args =>
    match (Driver.Container.handle op args <|> Driver.RowPipe.handle op args
           <|> Driver.Anim.handle op args <|> Driver.Opts.handle op args
           <|> Driver.VP8L.handle op args
           <|> Driver.LTransform.handle op args
           <|> Driver.Alpha.handle op args
           <|> Driver.Import.handle op args
           <|> Driver.VP8.handle op args
           <|> Driver.AnimEnc.handle op args
           <|> Driver.Kernels.handle op args <|> Driver.Mux.handle op args
           <|> Driver.VP8Recon.handle op args
           <|> Driver.Writer.handle op args
           <|> Driver.VP8LEntropy.handle op args
           <|> Driver.CodecFront.handle op args
           <|> Driver.BoolCoder.handle op args
           <|> Driver.VP8SyntaxBytes.handle op args
           <|> Driver.VP8HeaderBytes.handle op args
           <|> Driver.VP8ModeBytes.handle op args
           <|> Driver.BoolCoderFast.handle op args
           <|> Driver.VP8LWindow.handle op args
           <|> Driver.VP8LWindow2.handle op args
           <|> Driver.VP8LWindow3.handle op args
           <|> Driver.VP8Dec.handle op args
           <|> Driver.C01Full.handle op args) with
    | some r => r
    | none => "bad-op"

partial def loop (hin : IO.FS.Stream) (hout : IO.FS.Stream) : IO Unit := do
  let line ← hin.getLine
  if line.isEmpty then return ()
  hout.putStrLn (dispatch line)
  loop hin hout

def main : IO Unit := do
  let hin ← IO.getStdin
  let hout ← IO.getStdout
  loop hin hout
  hout.flush
