import Webp.Go.Canon
import Webp.Spec.VP8L
import Webp.Impl.VP8LEntropy
import Webp.Impl.VP8LFastPaths
import Driver.LTransform
import Driver.VP8L
/-
  Line-protocol handlers for the VP8L entropy layer (properties C01 / C03, suite `vp8lentropy`).

  <lens>   comma-separated code lengths, `-` = empty
  <tokens> comma-separated `l<aarrggbb>` | `c<len>:<dist>` | `k<idx>`, `-` = empty; `dist` is a pixel distance

  vesize <R> <lens>                      ok <n>                 buildHuffmanTableSize
  vetab <R> <lens> <hex> <start> <max>   ok n=<size> tbl=<len:fnv> dec=<sym,…|-> end=<eos|max|sentinel>
                                         | err empty | err invalid
                                         BuildHuffmanTable + up to <max> ReadSymbol from bit <start> of <hex>;
                                         table digest over (bits, value>>8, value&255) per entry
  venextkey <key> <len>                  ok <key'>              getNextKey
  vecanon <lens>                         ok <code,…|->          generateCanonicalCodes
  vecltok <lens>                         ok <code:extra,…|->    BuildCodeLengthTokens
  vestore <lens> <cllens>                ok <hex> rt=<0|1>      StoreHuffmanCode (+Finish); rt: Spec.readCode of it
                                                                gives the code of <lens>
  vecopy <pos> <dist> <len> <pxs>        ok <pxs>               copyBlock32
  veloop <w> <h> <cb> <tokens>           ok <pxs> | err         decodeImageData's loop on a token list
  veemit <w> <h> <cb> <tokens> <l0;…;l4> <c0;…;c4>
                                         ok <hex> dec=<0|1>     cache info + 5×StoreHuffmanCode + storeImageData;
                                                                dec: Spec.readEntropyCodedImage of it = veloop
  vegroup <lg;lr;lb;la;ld> <w,…>         ok tl=<0|1> tc=<0|1> pk=<0|1> arb=<aarrggbb> tbl=<len:fnv|->
                                         | err                  the flags and packed table readHuffmanCodes
                                                                derives (BuildHuffmanTable ×5); for every
                                                                look-ahead <w> the fast paths must equal the
                                                                general path (else `mismatch fast`)
  velc <cb> <pxs> <tokens>               ok <tokens> same=<0|1> BackwardRefsWithLocalCache on the image <pxs>;
                                                                same: the rewritten list decodes to <pxs>
  vewr <v:n,…>                           ok <hex>               WriteBits… + Finish
  verd <hex> <n,…>                       ok <v:eos,…>           ReadBits…, IsEndOfStream after each

  Where the Lean side has both an implementation model and the specification, both are computed and a
  disagreement is printed as `mismatch …` (it would contradict a theorem of Props/C03, C01Entropy).
-/
namespace Driver.VP8LEntropy
open Webp.Go Webp.Spec.VP8L Webp.Impl.VP8LEntropy

def parseNats (s : String) : Option (Array Nat) :=
  if s = "-" then some #[] else ((s.splitOn ",").mapM String.toNat?).map List.toArray

def natsStr (a : List Nat) : String := if a.isEmpty then "-" else joinWith "," (a.map toString)

def parseBytes (s : String) : Option ByteArray := if s = "-" then some ByteArray.empty else hexToByteArray s

def tableDigest (t : Table) : String :=
  let b := t.foldl (fun (b : ByteArray) e =>
    ((b.push (UInt8.ofNat e.bits)).push (UInt8.ofNat (e.value / 256))).push (UInt8.ofNat (e.value % 256)))
    (ByteArray.emptyWithCapacity (3 * t.size))
  s!"{b.size}:{(fnv1aArr b).toNat}"

/-- decode up to `max` symbols with the table and, in lock step, with the canonical code -/
def decodeSyms (R : Nat) (t : Table) (c : Option Code) : (max : Nat) → BitReader → List Nat → String
  | 0, _, acc => s!"dec={natsStr acc.reverse} end=max"
  | n + 1, br, acc =>
    let i := Webp.Impl.VP8LEntropy.readSymbol R t br
    let agree : Bool := match c with
      | none => true
      | some c =>
        match i, Webp.Spec.VP8L.readSymbol c br with
        | .ok (v, b), .ok (v', b') => v == v' && b.pos == b'.pos
        | .err e, .err e' => e == e'
        | _, _ => false
    if !agree then "mismatch readSymbol"
    else match i with
      | .ok (v, br) => decodeSyms R t c n br (v :: acc)
      | .err .eos => s!"dec={natsStr acc.reverse} end=eos"
      | .err _ => s!"dec={natsStr acc.reverse} end=sentinel"
      | .panic => "panic"
      | .hang => "hang"

def parseToken (s : String) : Option Token :=
  match s.toList with
  | 'l' :: r => (Driver.LTransform.parsePx (String.ofList r)).map Token.literal
  | 'k' :: r => (String.ofList r).toNat?.map Token.cache
  | 'c' :: r =>
    match (String.ofList r).splitOn ":" with
    | [a, b] => do
      let a ← a.toNat?
      let b ← b.toNat?
      some (Token.copy a b)
    | _ => none
  | _ => none

def parseTokens (s : String) : Option (List Token) :=
  if s = "-" then some [] else (s.splitOn ",").mapM parseToken

def parseNatsList (s : String) : Option (List (Array Nat)) := (s.splitOn ";").mapM parseNats

def tokenRef : Token → PixOrCopy
  | .literal a => .literal a
  | .cache i => .cacheIdx i
  | .copy l d => .copy l d

def refToken : PixOrCopy → Token
  | .literal a => .literal a
  | .cacheIdx i => .cache i
  | .copy l d => .copy l d

def tokenStr : Token → String
  | .literal a => "l" ++ Driver.LTransform.hex8 a
  | .cache i => s!"k{i}"
  | .copy l d => s!"c{l}:{d}"

def tokensStr (ts : List Token) : String := if ts.isEmpty then "-" else joinWith "," (ts.map tokenStr)

def byteArrayOf (a : Array UInt8) : ByteArray := ⟨a⟩

def loopResult (w h cb : Nat) (ts : List Token) : Res Err (Array UInt32) :=
  match decodePixelLoop listSource { width := w, height := h, cacheBits := cb } ts with
  | .ok (px, _) => .ok px
  | .err e => .err e
  | .panic => .panic
  | .hang => .hang

def refResult (w h cb : Nat) (ts : List Token) : Res Err (Array UInt32) :=
  match refDecode listSource (fun _ => 0) w h cb ts with
  | .ok (px, _) => .ok px
  | .err e => .err e
  | .panic => .panic
  | .hang => .hang

def sameRes (a b : Res Err (Array UInt32)) : Bool :=
  match a, b with
  | .ok x, .ok y => x == y
  | .err _, .err _ => true
  | _, _ => false

def parseCall (c : String) : Option Call :=
  match c.splitOn ":" with
  | [v, n] => do
    let v ← v.toNat?
    let n ← n.toNat?
    some (v, n)
  | _ => none

def parseCalls (s : String) : Option (List Call) :=
  if s = "-" then some [] else (s.splitOn ",").mapM parseCall

def handle (op : String) (args : List String) : Option String :=
  match op, args with
  | "vesize", [r, lens] => do
    let r ← r.toNat?
    let lens ← parseNats lens
    some s!"ok {buildTableSize r lens}"
  | "venextkey", [k, l] => do
    let k ← k.toNat?
    let l ← l.toNat?
    some s!"ok {getNextKey k l}"
  | "vetab", [r, lens, hex, start, mx] => do
    let r ← r.toNat?
    let lens ← parseNats lens
    let data ← parseBytes hex
    let start ← start.toNat?
    let mx ← mx.toNat?
    let spec := buildCode lens
    match buildTable r lens, spec with
    | .ok t, .ok c =>
      some s!"ok n={t.size} tbl={tableDigest t} {decodeSyms r t (some c) mx { data, pos := start } []}"
    | .err .emptyCodeLengths, .err _ => some "err empty"
    | .err .invalidTree, .err _ => some "err invalid"
    | .err .emptyCodeLengths, _ => if lens.size = 0 then some "err empty" else some "mismatch accept"
    | .panic, _ => some "panic"
    | .hang, _ => some "hang"
    | _, _ => some "mismatch accept"
  | "vecanon", [lens] => do
    let lens ← parseNats lens
    some s!"ok {natsStr (canonicalCodes lens).toList}"
  | "vecltok", [lens] => do
    let lens ← parseNats lens
    let toks := buildCodeLengthTokens lens
    some ("ok " ++ (if toks.isEmpty then "-" else joinWith "," (toks.toList.map fun t => s!"{t.code}:{t.extra}")))
  | "vestore", [lens, cl] => do
    let lens ← parseNats lens
    let cl ← parseNats cl
    let bytes := byteArrayOf (runCalls (storeHuffmanCode lens cl)).finish
    let used := (lens.toList.filter (· ≠ 0)).length
    let eff : Array Nat := if used = 0 then (Array.replicate lens.size 0).setIfInBounds 0 1 else lens
    let rt : Bool :=
      match readCode lens.size { data := bytes }, buildCode eff with
      | .ok (c, _), .ok c' => c.symbols == c'.symbols && (c.symbols.size == 1 || c.counts == c'.counts)
      | _, _ => false
    some s!"ok {Driver.VP8L.hexArr bytes} rt={b2s rt}"
  | "vecopy", [pos, dist, len, px] => do
    let pos ← pos.toNat?
    let dist ← dist.toNat?
    let len ← len.toNat?
    let px ← Driver.LTransform.parsePxs px
    if dist = 0 ∨ pos < dist ∨ pos + len > px.size then none
    else
      let r := copyBlock32 px pos dist len
      -- the specification's copy: one pixel at a time
      let seq := (List.range len).foldl (fun (a : Array UInt32) i => a.setIfInBounds (pos + i) (a.getD (pos + i - dist) 0)) px
      if r == seq then some ("ok " ++ Driver.LTransform.pxsHex r) else some "mismatch copy"
  | "veloop", [w, h, cb, toks] => do
    let w ← w.toNat?
    let h ← h.toNat?
    let cb ← cb.toNat?
    let ts ← parseTokens toks
    let r := loopResult w h cb ts
    if !sameRes r (refResult w h cb ts) then some "mismatch loop"
    else match r with
      | .ok px => some ("ok " ++ Driver.LTransform.pxsHex px)
      | .err _ => some "err"
      | .panic => some "panic"
      | .hang => some "hang"
  | "veemit", [w, h, cb, toks, lens, cls] => do
    let w ← w.toNat?
    let h ← h.toNat?
    let cb ← cb.toNat?
    let ts ← parseTokens toks
    let lens ← parseNatsList lens
    let cls ← parseNatsList cls
    if lens.length ≠ 5 ∨ cls.length ≠ 5 then none
    else
      let plan : ImagePlan := { width := w, height := h, refs := ts.map tokenRef, lens5 := lens, cl5 := cls }
      let bytes := byteArrayOf (runCalls (encodeEntropyImage cb plan)).finish
      let spec : Res Err (Array UInt32) :=
        match readEntropyCodedImage w h { data := bytes } with
        | .ok (px, _) => .ok px
        | .err e => .err e
        | .panic => .panic
        | .hang => .hang
      some s!"ok {Driver.VP8L.hexArr bytes} dec={b2s (sameRes spec (loopResult w h cb ts))}"
  | "vegroup", [lens, ws] => do
    let lens ← parseNatsList lens
    let ws ← parseNats ws
    match lens with
    | [lg, lr, lb, la, ld] =>
      match buildTable 8 lg, buildTable 8 lr, buildTable 8 lb, buildTable 8 la, buildTable 8 ld with
      | .ok tg, .ok tr, .ok tb, .ok ta, .ok td =>
        let ml := Webp.Impl.VP8LFastPaths.maxLenOf
        let g := Webp.Impl.VP8LFastPaths.mkGroup ⟨tg, tr, tb, ta, td⟩ ⟨ml lg, ml lr, ml lb, ml la, ml ld⟩
        let agree := ws.all fun w =>
          Webp.Impl.VP8LFastPaths.readLiteralFast g w == Webp.Impl.VP8LFastPaths.readLiteralGeneral g w
        if !agree then some "mismatch fast"
        else
          let tbl := if g.usePackedTable then
              let b := g.packedTable.foldl (fun (b : ByteArray) (e : Nat × UInt32) =>
                ((((((b.push (UInt8.ofNat (e.1 / 256))).push (UInt8.ofNat (e.1 % 256))).push (e.2 >>> 24).toUInt8).push
                  (e.2 >>> 16).toUInt8).push (e.2 >>> 8).toUInt8).push e.2.toUInt8))
                (ByteArray.emptyWithCapacity 384)
              s!"{b.size}:{(fnv1aArr b).toNat}"
            else "-"
          some s!"ok tl={b2s g.isTrivialLiteral} tc={b2s g.isTrivialCode} pk={b2s g.usePackedTable} arb={Driver.LTransform.hex8 g.literalARB} tbl={tbl}"
      | _, _, _, _, _ => some "err"
    | _ => none
  | "velc", [cb, px, toks] => do
    let cb ← cb.toNat?
    let px ← Driver.LTransform.parsePxs px
    let ts ← parseTokens toks
    let out := (refsWithLocalCache px cb (ts.map tokenRef)).map refToken
    -- the rewritten list must decode (as a 1-row image) to the same pixels
    let same := match refResult px.size 1 cb out with
      | .ok r => r == px
      | _ => false
    some s!"ok {tokensStr out} same={b2s same}"
  | "vewr", [calls] => do
    let cs ← parseCalls calls
    some ("ok " ++ Driver.VP8L.hexArr (byteArrayOf (runCalls cs).finish))
  | "verd", [hex, ns] => do
    let data ← parseBytes hex
    let ns ← parseNats ns
    let (_, out) := ns.foldl (fun (acc : Reader × List String) n =>
      let (v, r) := acc.1.readBits n
      (r, s!"{v.toNat}:{b2s r.isEndOfStream}" :: acc.2)) (Reader.new data.data, [])
    some ("ok " ++ (if out.isEmpty then "-" else joinWith "," out.reverse))
  | _, _ => none

end Driver.VP8LEntropy
